import StepModel.P21.ReaderLemmas9
/-! Which reader flags which violation, continued: a text of the wrong kind for an entity reference, a BINARY, a NUMBER,
a select and an aggregate attribute (for the detection clause of C03). -/
namespace StepModel.P21.RLemmas
open StepModel StepModel.IStream StepModel.P21 StepModel.P21.Lemmas StepModel.P21.Grammar

variable {F : Type}

/-- the common opening of `attrSTEPread` on a text that starts with neither a blank, `$`, nor a delimiter -/
theorem junk_head_facts (lex : LexCfg) (j0 : Byte) (js : List Byte)
    (hj : ∀ b ∈ j0 :: js, delimAt lex attrDelims b = false) : j0 ≠ 44 ∧ j0 ≠ 41 := by
  have hj0 : delimAt lex attrDelims j0 = false := hj j0 (by simp)
  constructor
  · intro h; subst h; simp [delimAt, isDelim, attrDelims] at hj0
  · intro h; subst h; simp [delimAt, isDelim, attrDelims] at hj0

/-- something that is no reference (starts with neither `#` nor `@`; without delimiters) for an entity-valued attribute:
    `ReadEntityRef` puts the character back, `CheckRemainingInput` skips the text: WARNING, unset -/
theorem attr_ref_junk (env : Env F) (strict : Bool) (a : AttrD) (tg : String) (hty : a.ty = .one (.entity tg)) (hder : a.derived = false)
    (j0 : Byte) (js : List Byte) (hj0s : isSpace j0 = false) (hj047 : j0 ≠ 47) (hj036 : j0 ≠ 36) (hj035 : j0 ≠ 35) (hj064 : j0 ≠ 64)
    (hj : ∀ b ∈ j0 :: js, delimAt env.lex attrDelims b = false)
    (hsemi : env.lex.criStopsAtSemicolon = true → ∀ b ∈ j0 :: js, b ≠ 59)
    (l : List Byte) (sk : Bool) (d : Byte) (rest : List Byte) (hd : d = 44 ∨ d = 41) :
    attrSTEPread env strict a (G l (j0 :: (js ++ d :: rest)) sk) =
      .ok (.warning, .one (.atom .unset), G ((j0 :: js).reverse ++ l) (d :: rest) sk) := by
  obtain ⟨h44, h41⟩ := junk_head_facts env.lex j0 js hj
  unfold attrSTEPread
  rw [show (G l (j0 :: (js ++ d :: rest)) sk).ws = G l (j0 :: (js ++ d :: rest)) sk from ws_good0 l j0 _ sk hj0s]
  simp only [bind, Except.bind, pure, Except.pure]
  rw [show (G l (j0 :: (js ++ d :: rest)) sk).peekC = (j0, G l (j0 :: (js ++ d :: rest)) sk) from peekC_good l j0 _ sk]
  have e36 : (j0 == 36) = false := by simpa using hj036
  have e44 : (j0 == 44) = false := by simpa using h44
  have e41 : (j0 == 41) = false := by simpa using h41
  have e35 : (j0 == 35) = false := by simpa using hj035
  have e64 : (j0 == 64) = false := by simpa using hj064
  simp only [hder, Bool.false_eq_true, if_false, e36, e44, e41, Bool.or_self, hty]
  rw [scalarNodeReadAttr_entity, scalarNodeRead_entity]
  simp only [readEntityRef]
  rw [show (G l (j0 :: (js ++ d :: rest)) sk).ws = G l (j0 :: (js ++ d :: rest)) sk from ws_good0 l j0 _ sk hj0s]
  rw [getChar_G l j0 _ sk hj0s]
  simp only [Option.getD_some, e35, e64, Bool.or_self, Bool.false_and, Bool.false_eq_true, if_false]
  rw [show IStream.putback j0 (G (j0 :: l) (js ++ d :: rest) sk) = G l (j0 :: (js ++ d :: rest)) sk from putback_good j0 l _ sk]
  rw [show ∀ e, checkRemainingInput env.lex (some attrDelims) (G l (j0 :: (js ++ d :: rest)) sk) e =
    (G ((j0 :: js).reverse ++ l) (d :: rest) sk, e.greater .warning) from
    fun e => cri_junk env.lex j0 js hj0s hj047 hj hsemi l rest d false sk e hd]
  cases (env.lex.refReportsNonRef && (some j0).isSome && refNotDelim (some attrDelims) j0) <;> rfl

/-- something that is no binary literal (starts with neither `"` nor a hexadecimal digit; at least two characters, without
    delimiters) for a BINARY attribute: `ReadBinary` consumes one character and reports, `CheckRemainingInput` skips
    the rest: WARNING, unset -/
theorem attr_binary_junk (env : Env F) (strict : Bool) (a : AttrD) (hty : a.ty = .one .binary) (hder : a.derived = false)
    (j0 j1 : Byte) (js : List Byte) (hj0s : isSpace j0 = false) (hj036 : j0 ≠ 36) (hj034 : j0 ≠ 34) (hj0x : isXDigit j0 = false)
    (hj1s : isSpace j1 = false) (hj147 : j1 ≠ 47)
    (hj : ∀ b ∈ j0 :: j1 :: js, delimAt env.lex attrDelims b = false)
    (hsemi : env.lex.criStopsAtSemicolon = true → ∀ b ∈ j0 :: j1 :: js, b ≠ 59)
    (l : List Byte) (sk : Bool) (d : Byte) (rest : List Byte) (hd : d = 44 ∨ d = 41) :
    attrSTEPread env strict a (G l (j0 :: j1 :: (js ++ d :: rest)) sk) =
      .ok (.warning, .one (.atom .unset), G ((j0 :: j1 :: js).reverse ++ l) (d :: rest) sk) := by
  obtain ⟨h44, h41⟩ := junk_head_facts env.lex j0 (j1 :: js) hj
  unfold attrSTEPread
  rw [show (G l (j0 :: j1 :: (js ++ d :: rest)) sk).ws = G l (j0 :: j1 :: (js ++ d :: rest)) sk from ws_good0 l j0 _ sk hj0s]
  simp only [bind, Except.bind, pure, Except.pure]
  rw [show (G l (j0 :: j1 :: (js ++ d :: rest)) sk).peekC = (j0, G l (j0 :: j1 :: (js ++ d :: rest)) sk) from peekC_good l j0 _ sk]
  have e36 : (j0 == 36) = false := by simpa using hj036
  have e44 : (j0 == 44) = false := by simpa using h44
  have e41 : (j0 == 41) = false := by simpa using h41
  have e34 : (j0 == 34) = false := by simpa using hj034
  simp only [hder, Bool.false_eq_true, if_false, e36, e44, e41, Bool.or_self, hty]
  unfold attrSTEPread.scalarNodeReadAttr
  simp only [bind, Except.bind, pure, Except.pure]
  rw [scalarNodeRead_binary]
  have hrb : readBinary env.lex true (G l (j0 :: j1 :: (js ++ d :: rest)) sk) .null =
      ([], G (j0 :: l) (j1 :: (js ++ d :: rest)) sk, .warning) := by
    simp only [readBinary, ws_good0 _ _ _ _ hj0s, IStream.good, Bool.not_false, Bool.and_self, Bool.not_true,
      Bool.false_eq_true, if_false, getInto_good, e34, hj0x, Bool.or_self]
    rfl
  rw [hrb]
  simp only [List.isEmpty_nil, if_true]
  have hj' : ∀ b ∈ j1 :: js, delimAt env.lex attrDelims b = false := fun b hb => hj b (List.mem_cons_of_mem _ hb)
  have hsemi' : env.lex.criStopsAtSemicolon = true → ∀ b ∈ j1 :: js, b ≠ 59 := fun h b hb => hsemi h b (List.mem_cons_of_mem _ hb)
  rw [show checkRemainingInput env.lex (some attrDelims) (G (j0 :: l) (j1 :: (js ++ d :: rest)) sk) Sev.warning =
    (G ((j1 :: js).reverse ++ (j0 :: l)) (d :: rest) sk, Sev.warning.greater .warning) from
    cri_junk env.lex j1 js hj1s hj147 hj' hsemi' (j0 :: l) rest d false sk .warning hd]
  simp
  rfl

/-- something that starts like no select value (no letter, `$`, `#`, `.`, apostrophe, `"`, digit, `-`, `(`, NUL; without
    delimiters) for a select attribute: `SDAI_Select::STEPread` puts the character back and returns WARNING,
    `CheckRemainingInput` skips the text -/
theorem attr_select_junk (env : Env F) (strict : Bool) (a : AttrD) (n : String) (sd : SelectD) (hty : a.ty = .one (.select n))
    (hsd : env.dict.select? n = some sd) (hder : a.derived = false)
    (j0 : Byte) (js : List Byte) (hj0s : isSpace j0 = false) (hj047 : j0 ≠ 47) (hj036 : j0 ≠ 36) (hj0a : isAlpha j0 = false)
    (hj00 : j0 ≠ 0) (hj035 : j0 ≠ 35) (hj046 : j0 ≠ 46) (hj039 : j0 ≠ 39) (hj034 : j0 ≠ 34) (hj0d : isDigit j0 = false)
    (hj045 : j0 ≠ 45) (hj040 : j0 ≠ 40)
    (hj : ∀ b ∈ j0 :: js, delimAt env.lex attrDelims b = false)
    (hsemi : env.lex.criStopsAtSemicolon = true → ∀ b ∈ j0 :: js, b ≠ 59)
    (l : List Byte) (sk : Bool) (d : Byte) (rest : List Byte) (hd : d = 44 ∨ d = 41) :
    attrSTEPread env strict a (G l (j0 :: (js ++ d :: rest)) sk) =
      .ok (.warning, .one (.atom .unset), G ((j0 :: js).reverse ++ l) (d :: rest) sk) := by
  obtain ⟨h44, h41⟩ := junk_head_facts env.lex j0 js hj
  unfold attrSTEPread
  rw [show (G l (j0 :: (js ++ d :: rest)) sk).ws = G l (j0 :: (js ++ d :: rest)) sk from ws_good0 l j0 _ sk hj0s]
  simp only [bind, Except.bind, pure, Except.pure]
  rw [show (G l (j0 :: (js ++ d :: rest)) sk).peekC = (j0, G l (j0 :: (js ++ d :: rest)) sk) from peekC_good l j0 _ sk]
  have e36 : (j0 == 36) = false := by simpa using hj036
  have e44 : (j0 == 44) = false := by simpa using h44
  have e41 : (j0 == 41) = false := by simpa using h41
  have e0 : (j0 == 0) = false := by simpa using hj00
  have e35 : (j0 == 35) = false := by simpa using hj035
  have e46 : (j0 == 46) = false := by simpa using hj046
  have e39 : (j0 == 39) = false := by simpa using hj039
  have e34 : (j0 == 34) = false := by simpa using hj034
  have e45 : (j0 == 45) = false := by simpa using hj045
  have e40 : (j0 == 40) = false := by simpa using hj040
  simp only [hder, Bool.false_eq_true, if_false, e36, e44, e41, Bool.or_self, hty, hsd]
  have hsel : selectRead env sd (G l (j0 :: (js ++ d :: rest)) sk) = .ok (.warning, .atom .unset, G l (j0 :: (js ++ d :: rest)) sk) := by
    unfold selectRead
    rw [show (G l (j0 :: (js ++ d :: rest)) sk).ws = G l (j0 :: (js ++ d :: rest)) sk from ws_good0 l j0 _ sk hj0s]
    simp only [shiftInto_good 0 l j0 _ sk hj0s, bind, Except.bind, pure, Except.pure, hj0a, Bool.false_eq_true, if_false, e36, e44, e0, Bool.or_self, e35, e46, e39,
      e34, hj0d, e45, e40]
    rw [show IStream.putback j0 (G (j0 :: l) (js ++ d :: rest) sk) = G l (j0 :: (js ++ d :: rest)) sk from putback_good j0 l _ sk]
  rw [hsel]
  simp only
  rw [show checkRemainingInput env.lex (some attrDelims) (G l (j0 :: (js ++ d :: rest)) sk) Sev.warning =
    (G ((j0 :: js).reverse ++ l) (d :: rest) sk, Sev.warning.greater .warning) from
    cri_junk env.lex j0 js hj0s hj047 hj hsemi l rest d false sk .warning hd]
  rfl

/-- something that does not start with `(` for an aggregate attribute: `STEPaggregate::ReadValue` returns INPUT_ERROR at once;
    the value stays null and the stream rests in front of the text (the instance reader then finds no delimiter) -/
theorem attr_aggr_junk (env : Env F) (strict : Bool) (a : AttrD) (ety : ElemTy) (hty : a.ty = .aggr ety) (hder : a.derived = false)
    (j0 : Byte) (t : List Byte) (hj0s : isSpace j0 = false) (hj036 : j0 ≠ 36) (hj040 : j0 ≠ 40) (hj044 : j0 ≠ 44) (hj041 : j0 ≠ 41)
    (l : List Byte) (sk : Bool) :
    attrSTEPread env strict a (G l (j0 :: t) sk) = .ok (.inputError, .aggrNull, G l (j0 :: t) sk) := by
  unfold attrSTEPread
  rw [show (G l (j0 :: t) sk).ws = G l (j0 :: t) sk from ws_good0 l j0 _ sk hj0s]
  simp only [bind, Except.bind, pure, Except.pure]
  rw [show (G l (j0 :: t) sk).peekC = (j0, G l (j0 :: t) sk) from peekC_good l j0 _ sk]
  have e36 : (j0 == 36) = false := by simpa using hj036
  have e44 : (j0 == 44) = false := by simpa using hj044
  have e41 : (j0 == 41) = false := by simpa using hj041
  have e40 : (j0 != 40) = true := by simpa using hj040
  simp only [hder, Bool.false_eq_true, if_false, e36, e44, e41, Bool.or_self, hty]
  have hag : aggrRead env ety (G l (j0 :: t) sk) = .ok (.inputError, none, G l (j0 :: t) sk) := by
    unfold aggrRead
    rw [show (G l (j0 :: t) sk).ws = G l (j0 :: t) sk from ws_good0 l j0 _ sk hj0s]
    simp only [show (G l (j0 :: t) sk).peekC = (j0, G l (j0 :: t) sk) from peekC_good l j0 _ sk]
    simp [e36, e40, G, pure, Except.pure]
  rw [hag]
  have : (Sev.inputError.toInt < Sev.warning.toInt) = True := by decide
  simp only [this, if_true]

theorem scanFloat_junk (l : List Byte) (j0 : Byte) (t : List Byte) (h : notNum j0) : scanFloat l (j0 :: t) = ([], l, j0 :: t) := by
  obtain ⟨hd, h43, h45, h46, h69, h101⟩ := h
  have hs : signPrefix (j0 :: t) = ([], j0 :: t) := by
    unfold signPrefix
    split
    · rename_i heq; simp at heq; exact absurd heq.1 h45
    · rename_i heq; simp at heq; exact absurd heq.1 h43
    · rfl
  have e48 : (j0 == 48) = false := by
    have : j0 ≠ 48 := by intro e; subst e; exact absurd hd (by decide)
    simpa using this
  have e46 : (j0 == 46) = false := by simpa using h46
  have e1 : (j0 == 101) = false := by simpa using h101
  have e2 : (j0 == 69) = false := by simpa using h69
  simp [scanFloat, hs, dropZeros, e48, floatLoop, hd, e46, e1, e2]

/-- something that starts like no numeral (without delimiters) for a NUMBER attribute: `in >> d` extracts nothing, the
    conversion fails, `CheckRemainingInput` skips the text: WARNING, unset -/
theorem attr_number_junk (env : Env F) (strict : Bool) (a : AttrD) (hty : a.ty = .one .number) (hder : a.derived = false)
    (j0 : Byte) (js : List Byte) (hj0s : isSpace j0 = false) (hj047 : j0 ≠ 47) (hj036 : j0 ≠ 36) (hnn : notNum j0)
    (hj : ∀ b ∈ j0 :: js, delimAt env.lex attrDelims b = false)
    (hsemi : env.lex.criStopsAtSemicolon = true → ∀ b ∈ j0 :: js, b ≠ 59)
    (l : List Byte) (sk : Bool) (d : Byte) (rest : List Byte) (hd : d = 44 ∨ d = 41) :
    attrSTEPread env strict a (G l (j0 :: (js ++ d :: rest)) sk) =
      .ok (.warning, .one (.atom .unset), G ((j0 :: js).reverse ++ l) (d :: rest) sk) := by
  obtain ⟨h44, h41⟩ := junk_head_facts env.lex j0 js hj
  unfold attrSTEPread
  rw [show (G l (j0 :: (js ++ d :: rest)) sk).ws = G l (j0 :: (js ++ d :: rest)) sk from ws_good0 l j0 _ sk hj0s]
  simp only [bind, Except.bind, pure, Except.pure]
  rw [show (G l (j0 :: (js ++ d :: rest)) sk).peekC = (j0, G l (j0 :: (js ++ d :: rest)) sk) from peekC_good l j0 _ sk]
  have e36 : (j0 == 36) = false := by simpa using hj036
  have e44 : (j0 == 44) = false := by simpa using h44
  have e41 : (j0 == 41) = false := by simpa using h41
  simp only [hder, Bool.false_eq_true, if_false, e36, e44, e41, Bool.or_self, hty]
  unfold attrSTEPread.scalarNodeReadAttr
  have hconv : env.ops.conv [] = .invalid := rfl
  have hrn : ∃ e0, (e0 = Sev.null ∨ e0 = Sev.warning) ∧
      readNumber env.ops env.lex (some attrDelims) (G l (j0 :: (js ++ d :: rest)) sk) .null =
      (none, G ((j0 :: js).reverse ++ l) (d :: rest) sk, Sev.greater e0 .warning) := by
    refine ⟨Sev.null.warnIf (true && env.lex.numberReportsFail && !false),
      by cases env.lex.numberReportsFail
         · exact Or.inl rfl
         · exact Or.inr rfl, ?_⟩
    simp only [readNumber, ws_good0 _ _ _ _ hj0s, extractFloatText_G l j0 _ sk hj0s, scanFloat_junk l j0 _ hnn, hconv,
      IStream.setFail, G, Bool.false_or, List.isEmpty_cons, IStream.failed, Bool.or_false]
    rw [cri_junk env.lex j0 js hj0s hj047 hj hsemi l rest d true sk _ hd]
  obtain ⟨e0, he0, hrn⟩ := hrn
  have hrnS := readNumberS_of env.ops env.lex (some attrDelims) (G l (j0 :: (js ++ d :: rest)) sk) .null
    (by rw [hrn]; exact realSentinel_none env.ops)
  simp only [bind, Except.bind, pure, Except.pure, hrnS, hrn]
  rcases he0 with rfl | rfl <;> simp [realValue, valueToAtom] <;> rfl

/-- `$` with something behind it (`$1`, `$abc`; without delimiters) for an OPTIONAL attribute: the `$` is taken as the
    unset value, `CheckRemainingInput` skips the rest with WARNING - which the repaired source keeps (`dollarKeepsError`) -/
theorem attr_dollar_junk (env : Env F) (strict : Bool) (a : AttrD) (hopt : a.optional = true) (hder : a.derived = false)
    (hkeep : env.lex.dollarKeepsError = true)
    (j0 : Byte) (js : List Byte) (hj0s : isSpace j0 = false) (hj047 : j0 ≠ 47)
    (hj : ∀ b ∈ j0 :: js, delimAt env.lex attrDelims b = false)
    (hsemi : env.lex.criStopsAtSemicolon = true → ∀ b ∈ j0 :: js, b ≠ 59)
    (l : List Byte) (sk : Bool) (d : Byte) (rest : List Byte) (hd : d = 44 ∨ d = 41) :
    attrSTEPread env strict a (G l (36 :: j0 :: (js ++ d :: rest)) sk) =
      .ok (.warning, nullOf a, G ((j0 :: js).reverse ++ 36 :: l) (d :: rest) sk) := by
  unfold attrSTEPread
  rw [show (G l (36 :: j0 :: (js ++ d :: rest)) sk).ws = G l (36 :: j0 :: (js ++ d :: rest)) sk from ws_good0 l 36 _ sk (by decide)]
  simp only [bind, Except.bind, pure, Except.pure]
  rw [show (G l (36 :: j0 :: (js ++ d :: rest)) sk).peekC = (36, G l (36 :: j0 :: (js ++ d :: rest)) sk) from peekC_good l 36 _ sk]
  simp only [hder, Bool.false_eq_true, if_false, beq_self_eq_true, Bool.true_or, if_true]
  rw [show (G l (36 :: j0 :: (js ++ d :: rest)) sk).ignore1 = G (36 :: l) (j0 :: (js ++ d :: rest)) sk from ignore1_good l 36 _ sk]
  rw [show checkRemainingInput env.lex (some attrDelims) (G (36 :: l) (j0 :: (js ++ d :: rest)) sk) Sev.null =
    (G ((j0 :: js).reverse ++ 36 :: l) (d :: rest) sk, Sev.null.greater .warning) from
    cri_junk env.lex j0 js hj0s hj047 hj hsemi (36 :: l) rest d false sk .null hd]
  simp [hopt, hkeep]
  rfl

/-- the four kinds the lenient-mode filler knows -/
def FillerKind (ty : Ty) (k : AttrNull.Kind) : Prop :=
  (ty = .one .integer ∧ k = .integer) ∨ (ty = .one .real ∧ k = .real) ∨ (ty = .one .number ∧ k = .number) ∨
  (ty = .one .string ∧ k = .string)

/-- `$` with something behind it for a *required* INTEGER / REAL / NUMBER / STRING attribute in lenient mode: the filler is
    substituted (USERMSG) and - in the repaired source, `fillerKeepsError` - what `CheckRemainingInput` reported behind the
    `$` is kept: WARNING -/
theorem attr_dollar_junk_filler (env : Env F) (a : AttrD) (k : AttrNull.Kind) (hk : FillerKind a.ty k)
    (hopt : a.optional = false) (hder : a.derived = false) (hkeep : env.cfg.fillerKeepsError = true)
    (hfill : ∀ s, (fillerValue env.ops k s).1 = Sev.usermsg)
    (j0 : Byte) (js : List Byte) (hj0s : isSpace j0 = false) (hj047 : j0 ≠ 47)
    (hj : ∀ b ∈ j0 :: js, delimAt env.lex attrDelims b = false)
    (hsemi : env.lex.criStopsAtSemicolon = true → ∀ b ∈ j0 :: js, b ≠ 59)
    (l : List Byte) (sk : Bool) (d : Byte) (rest : List Byte) (hd : d = 44 ∨ d = 41) :
    attrSTEPread env false a (G l (36 :: j0 :: (js ++ d :: rest)) sk) =
      .ok (.warning, (fillerValue env.ops k (G ((j0 :: js).reverse ++ 36 :: l) (d :: rest) sk)).2.1,
           G ((j0 :: js).reverse ++ 36 :: l) (d :: rest) sk) := by
  unfold attrSTEPread
  rw [show (G l (36 :: j0 :: (js ++ d :: rest)) sk).ws = G l (36 :: j0 :: (js ++ d :: rest)) sk from ws_good0 l 36 _ sk (by decide)]
  simp only [bind, Except.bind, pure, Except.pure]
  rw [show (G l (36 :: j0 :: (js ++ d :: rest)) sk).peekC = (36, G l (36 :: j0 :: (js ++ d :: rest)) sk) from peekC_good l 36 _ sk]
  simp only [hder, Bool.false_eq_true, if_false, beq_self_eq_true, Bool.true_or, if_true]
  rw [show (G l (36 :: j0 :: (js ++ d :: rest)) sk).ignore1 = G (36 :: l) (j0 :: (js ++ d :: rest)) sk from ignore1_good l 36 _ sk]
  rw [show checkRemainingInput env.lex (some attrDelims) (G (36 :: l) (j0 :: (js ++ d :: rest)) sk) Sev.null =
    (G ((j0 :: js).reverse ++ 36 :: l) (d :: rest) sk, Sev.null.greater .warning) from
    cri_junk env.lex j0 js hj0s hj047 hj hsemi (36 :: l) rest d false sk .null hd]
  have hf := hfill (G ((j0 :: js).reverse ++ 36 :: l) (d :: rest) sk)
  have h2 : (fillerValue env.ops k (G ((j0 :: js).reverse ++ 36 :: l) (d :: rest) sk)).2.2 =
      G ((j0 :: js).reverse ++ 36 :: l) (d :: rest) sk := rfl
  rcases hk with ⟨hty, rfl⟩ | ⟨hty, rfl⟩ | ⟨hty, rfl⟩ | ⟨hty, rfl⟩ <;>
    simp [hopt, hty, hkeep, hf, h2] <;> rfl

end StepModel.P21.RLemmas

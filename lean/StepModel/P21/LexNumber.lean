import StepModel.P21.LexLemmas
/-! # `in >> d` versus the number it spells (NUMBER, C09)

`numSplit` decomposes *any* input into the text a C-locale `istream >> double` consumes (`NumForm`: sign, integer digits,
optional `.` and digits, optional exponent letter + sign + digits) and the rest.  `scanFloat_numSplit` shows that
libstdc++'s `_M_extract_float` model consumes exactly that text and hands `strtod` its normal form (leading zeros of the
integer part collapsed, exponent letter lower-case); `parse_form` computes what such a text denotes, and the normal form
denotes the same (`parse_norm`). -/
namespace StepModel.P21.Lemmas
open StepModel StepModel.IStream StepModel.P21 StepModel.P21.Grammar

/-- the text `in >> d` consumes -/
structure NumForm where
  sg : List Byte
  ip : List Byte
  fr : Option (List Byte)
  ex : Option (Byte × List Byte × List Byte)

def frText : Option (List Byte) → List Byte
  | none => []
  | some fp => 46 :: fp

def frDigits : Option (List Byte) → List Byte
  | none => []
  | some fp => fp

def exTextN : Option (Byte × List Byte × List Byte) → List Byte
  | none => []
  | some (el, esg, ed) => el :: (esg ++ ed)

def NumForm.text (f : NumForm) : List Byte := f.sg ++ (f.ip ++ (frText f.fr ++ exTextN f.ex))

/-- well-formed: digits are digits, signs are signs, an exponent only after a mantissa digit -/
def NumForm.WF (f : NumForm) : Prop :=
  IsSign f.sg ∧ f.ip.all isDigit = true ∧ (frDigits f.fr).all isDigit = true ∧
  (∀ el esg ed, f.ex = some (el, esg, ed) →
    (el = 69 ∨ el = 101) ∧ IsSign esg ∧ ed.all isDigit = true ∧ (f.ip ≠ [] ∨ frDigits f.fr ≠ []))

/-- what the text denotes (`none`: `strtod` does not convert it completely) -/
def NumForm.dec (f : NumForm) : Option Decimal :=
  if f.ip.isEmpty && (frDigits f.fr).isEmpty then none
  else
    let mant := digitsVal (f.ip ++ frDigits f.fr) 0
    match f.ex with
    | none => some ⟨f.sg == [45], mant, - ((frDigits f.fr).length : Int)⟩
    | some (_, esg, ed) =>
      if ed.isEmpty then none
      else some ⟨f.sg == [45], mant,
        (if esg == [45] then -((digitsVal ed 0 : Nat) : Int) else ((digitsVal ed 0 : Nat) : Int)) - ((frDigits f.fr).length : Int)⟩

theorem exTextN_noDigit (f : NumForm) (h : f.WF) : NoDigitHead (exTextN f.ex) := by
  cases hx : f.ex with
  | none => exact Or.inl rfl
  | some p =>
    obtain ⟨el, esg, ed⟩ := p
    obtain ⟨hel, _, _, _⟩ := h.2.2.2 el esg ed hx
    exact Or.inr ⟨el, esg ++ ed, rfl, by rcases hel with rfl | rfl <;> decide⟩

theorem exTextN_noDot (f : NumForm) (h : f.WF) : optDot (exTextN f.ex) = ([], exTextN f.ex) := by
  cases hx : f.ex with
  | none => rfl
  | some p =>
    obtain ⟨el, esg, ed⟩ := p
    obtain ⟨hel, _, _, _⟩ := h.2.2.2 el esg ed hx
    unfold optDot exTextN
    split
    · rename_i heq; simp at heq; rcases hel with rfl | rfl <;> simp at heq
    · rfl

theorem noSignHead_of_noDigit_text (f : NumForm) (h : f.WF) :
    ∀ t, (f.ip ++ (frText f.fr ++ exTextN f.ex)) ≠ 43 :: t ∧ (f.ip ++ (frText f.fr ++ exTextN f.ex)) ≠ 45 :: t := by
  intro t
  obtain ⟨_, hip, _, hex⟩ := h
  cases hi : f.ip with
  | cons d u =>
    have hd : isDigit d = true := by rw [hi] at hip; simp at hip; exact hip.1
    simpa using digit_head_not_sign d _ hd t
  | nil =>
    cases hf : f.fr with
    | some fp => simp [frText]
    | none =>
      cases hx : f.ex with
      | none => simp [frText, exTextN]
      | some p =>
        obtain ⟨el, esg, ed⟩ := p
        obtain ⟨_, _, _, hm⟩ := hex el esg ed hx
        rw [hi, hf] at hm
        simp [frDigits] at hm

/-- P: what a well-formed number text denotes -/
theorem parse_form (f : NumForm) (h : f.WF) : parseFloatText f.text = f.dec := by
  have hsg := h.1
  have hip := h.2.1
  have hfp := h.2.2.1
  have h1 : optSign f.text = (f.sg, f.ip ++ (frText f.fr ++ exTextN f.ex)) :=
    optSign_of_sign f.sg _ hsg (noSignHead_of_noDigit_text f h)
  have hnd : NoDigitHead (frText f.fr ++ exTextN f.ex) := by
    cases hf : f.fr with
    | none => simpa [frText] using exTextN_noDigit f h
    | some fp => exact Or.inr ⟨46, fp ++ exTextN f.ex, by simp [frText], by decide⟩
  have h2 : takeDigits (f.ip ++ (frText f.fr ++ exTextN f.ex)) = (f.ip, frText f.fr ++ exTextN f.ex) :=
    takeDigits_run _ _ hip hnd
  unfold parseFloatText NumForm.dec
  simp only [h1, h2]
  -- the fraction
  have hfrac : (if (optDot (frText f.fr ++ exTextN f.ex)).1.isEmpty then (([] : List Byte), frText f.fr ++ exTextN f.ex)
      else takeDigits (optDot (frText f.fr ++ exTextN f.ex)).2) = (frDigits f.fr, exTextN f.ex) := by
    cases hf : f.fr with
    | none => simp [frText, frDigits, exTextN_noDot f h]
    | some fp =>
      have : takeDigits (fp ++ exTextN f.ex) = (fp, exTextN f.ex) :=
        takeDigits_run _ _ (by simpa [frDigits, hf] using hfp) (exTextN_noDigit f h)
      simp [frText, frDigits, optDot, this]
  rw [hfrac]
  simp only
  by_cases hm : (f.ip.isEmpty && (frDigits f.fr).isEmpty) = true
  · simp [hm]
  · have hm' : (f.ip.isEmpty && (frDigits f.fr).isEmpty) = false := by simpa using hm
    simp only [hm', Bool.false_eq_true, if_false]
    cases hx : f.ex with
    | none => simp [exTextN]
    | some p =>
      obtain ⟨el, esg, ed⟩ := p
      obtain ⟨hel, hes, hed, _⟩ := h.2.2.2 el esg ed hx
      have hel' : (el == 101 || el == 69) = true := by rcases hel with rfl | rfl <;> decide
      have h4 : optSign (esg ++ ed) = (esg, ed) := by
        apply optSign_of_sign esg _ hes
        intro t
        cases ed with
        | nil => simp
        | cons e0 eu =>
          have : isDigit e0 = true := by simp at hed; exact hed.1
          exact digit_head_not_sign e0 eu this t
      have h5 : takeDigits ed = (ed, []) := by simpa using takeDigits_run ed [] hed (Or.inl rfl)
      simp [exTextN, hel', h4, h5]

/-- leading zeros collapsed to one (what `_M_extract_float` accumulates) -/
def collapseZeros (ip : List Byte) : List Byte :=
  let rest := ip.dropWhile (· == 48)
  if rest.length < ip.length then 48 :: rest else rest

/-- the text handed to `strtod`: zeros collapsed, exponent letter lower-case -/
def NumForm.norm (f : NumForm) : NumForm :=
  { sg := f.sg, ip := collapseZeros f.ip, fr := f.fr, ex := f.ex.map (fun p => (101, p.2.1, p.2.2)) }

theorem dropWhile_zeros (zs ds : List Byte) (hz : zs.all (· == 48) = true) (hd : ds = [] ∨ ∃ c t, ds = c :: t ∧ c ≠ 48) :
    (zs ++ ds).dropWhile (· == 48) = ds := by
  induction zs with
  | nil =>
    rcases hd with rfl | ⟨c, t, rfl, hc⟩
    · rfl
    · have : (c == 48) = false := by simpa using hc
      simp [List.dropWhile, this]
  | cons a u ih =>
    simp only [List.all_cons, Bool.and_eq_true] at hz
    simp [List.dropWhile, hz.1, ih hz.2]

theorem collapseZeros_split (zs ds : List Byte) (hz : zs.all (· == 48) = true) (hd : ds = [] ∨ ∃ c t, ds = c :: t ∧ c ≠ 48) :
    collapseZeros (zs ++ ds) = (if zs.isEmpty then [] else [48]) ++ ds := by
  unfold collapseZeros
  rw [dropWhile_zeros zs ds hz hd]
  cases zs with
  | nil => simp
  | cons a u => simp; omega

theorem collapseZeros_spec (ip : List Byte) (hip : ip.all isDigit = true) :
    (collapseZeros ip).all isDigit = true ∧ ((collapseZeros ip).isEmpty = ip.isEmpty) ∧
    ∀ r, digitsVal (collapseZeros ip ++ r) 0 = digitsVal (ip ++ r) 0 := by
  obtain ⟨zs, ds, rfl, hz, hd⟩ := zeros_split ip
  rw [collapseZeros_split zs ds hz hd]
  have hds : ds.all isDigit = true := by simp only [List.all_append, Bool.and_eq_true] at hip; exact hip.2
  refine ⟨?_, ?_, ?_⟩
  · cases zs <;> simp [hds, isDigit]
  · cases zs <;> simp
  · intro r
    rw [List.append_assoc, List.append_assoc, digitsVal_zeros zs _ hz]
    cases zs with
    | nil => simp
    | cons a u => simpa using digitsVal_zeros [48] (ds ++ r) rfl

theorem NumForm.norm_wf (f : NumForm) (h : f.WF) : f.norm.WF := by
  obtain ⟨h1, h2, h3, h4⟩ := h
  obtain ⟨c1, c2, _⟩ := collapseZeros_spec f.ip h2
  refine ⟨h1, c1, h3, ?_⟩
  intro el esg ed hx
  simp only [NumForm.norm, Option.map_eq_some_iff] at hx
  obtain ⟨p, hp, hpe⟩ := hx
  obtain ⟨el0, esg0, ed0⟩ := p
  simp only [Prod.mk.injEq] at hpe
  obtain ⟨rfl, rfl, rfl⟩ := hpe
  obtain ⟨_, a2, a3, a4⟩ := h4 el0 esg0 ed0 hp
  refine ⟨Or.inr rfl, a2, a3, ?_⟩
  rcases a4 with a | a
  · left; intro e
    have : (collapseZeros f.ip).isEmpty = true := by simp [NumForm.norm] at e; simp [e]
    rw [c2] at this; exact a (by simpa using this)
  · right; simpa [NumForm.norm] using a

/-- the normal form denotes the same decimal -/
theorem NumForm.norm_dec (f : NumForm) (h : f.WF) : f.norm.dec = f.dec := by
  obtain ⟨_, c2, c3⟩ := collapseZeros_spec f.ip h.2.1
  unfold NumForm.dec
  simp only [NumForm.norm, c2, c3]
  cases hx : f.ex with
  | none => simp
  | some p => obtain ⟨el, esg, ed⟩ := p; simp

/-- P for the normal form: what `strtod` is given denotes what the consumed text denotes -/
theorem parse_norm (f : NumForm) (h : f.WF) : parseFloatText f.norm.text = parseFloatText f.text := by
  rw [parse_form f h, parse_form f.norm (f.norm_wf h), f.norm_dec h]

/-! ### the scan -/

/-- `_M_extract_float`'s loop stops at a character that fits none of its rules -/
theorem floatLoop_stop (fm fd fs ae : Bool) (x l : List Byte) (c : Byte) (r : List Byte)
    (h1 : (ae && (c == 43 || c == 45)) = false) (h2 : isDigit c = false) (h3 : (c == 46 && !fd && !fs) = false)
    (h4 : ((c == 101 || c == 69) && !fs && fm) = false) :
    floatLoop fm fd fs ae x l (c :: r) = (x, l, c :: r) := by
  simp [floatLoop, h1, h2, h3, h4]

theorem floatLoop_nil (fm fd fs ae : Bool) (x l : List Byte) : floatLoop fm fd fs ae x l [] = (x, l, []) := by
  simp [floatLoop]

/-- optional sign, cases -/
theorem optSign_cases (r : List Byte) :
    (∃ t, r = 43 :: t ∧ optSign r = ([43], t)) ∨ (∃ t, r = 45 :: t ∧ optSign r = ([45], t)) ∨
    ((∀ t, r ≠ 43 :: t ∧ r ≠ 45 :: t) ∧ optSign r = ([], r)) := by
  unfold optSign
  split
  · exact Or.inl ⟨_, rfl, rfl⟩
  · exact Or.inr (Or.inl ⟨_, rfl, rfl⟩)
  · rename_i h1 h2
    exact Or.inr (Or.inr ⟨fun t => ⟨fun e => h1 t e, fun e => h2 t e⟩, rfl⟩)

/-- after the exponent letter: optional sign, digits, then whatever does not continue them -/
theorem floatLoop_exp_rest (fm fd : Bool) (x l r5 : List Byte) :
    floatLoop fm fd true true x l r5 =
      (((optSign r5).1 ++ (takeDigits (optSign r5).2).1).reverse ++ x,
       ((optSign r5).1 ++ (takeDigits (optSign r5).2).1).reverse ++ l, (takeDigits (optSign r5).2).2) := by
  have hdig : ∀ (ae : Bool) (x l r : List Byte), (∀ t, ae = true → r ≠ 43 :: t ∧ r ≠ 45 :: t) →
      floatLoop fm fd true ae x l r = ((takeDigits r).1.reverse ++ x, (takeDigits r).1.reverse ++ l, (takeDigits r).2) := by
    intro ae x l r hns
    obtain ⟨hd, hnd⟩ := takeDigits_spec r
    have happ := takeDigits_append r
    generalize takeDigits r = q at hd hnd happ
    obtain ⟨ds, rest⟩ := q
    simp only at hd hnd happ ⊢
    subst happ
    cases ds with
    | nil =>
      simp only [List.nil_append, List.reverse_nil]
      rcases hnd with rfl | ⟨c, t, rfl, hc⟩
      · exact floatLoop_nil _ _ _ _ _ _
      · apply floatLoop_stop _ _ _ _ _ _ _ _ _ hc (by simp) (by simp)
        cases ae with
        | false => rfl
        | true =>
          have := hns t rfl
          simp only [List.nil_append] at this
          have a : c ≠ 43 := fun e => this.1 (by rw [e])
          have b : c ≠ 45 := fun e => this.2 (by rw [e])
          simp [a, b]
    | cons d u =>
      simp only [List.all_cons, Bool.and_eq_true] at hd
      rw [floatLoop_digits fm fd true ae x l d u rest hd.1 hd.2]
      rcases hnd with rfl | ⟨c, t, rfl, hc⟩
      · exact floatLoop_nil _ _ _ _ _ _
      · exact floatLoop_stop _ _ _ _ _ _ _ _ (by simp) hc (by simp) (by simp)
  rcases optSign_cases r5 with ⟨t, rfl, hs⟩ | ⟨t, rfl, hs⟩ | ⟨hns, hs⟩
  · rw [hs, floatLoop_sign _ _ _ _ _ _ 43 (Or.inl rfl), hdig false _ _ _ (by intro _ h; cases h)]; simp
  · rw [hs, floatLoop_sign _ _ _ _ _ _ 45 (Or.inr rfl), hdig false _ _ _ (by intro _ h; cases h)]; simp
  · rw [hs, hdig true _ _ _ (fun t _ => hns t)]; simp

/-- optional fraction: (`.` digits, rest) -/
def fracSplit (r2 : List Byte) : Option (List Byte) × List Byte :=
  match r2 with
  | 46 :: r3 => (some (takeDigits r3).1, (takeDigits r3).2)
  | _ => (none, r2)

/-- optional exponent (only after a mantissa digit `fm`): (letter, sign, digits), rest -/
def expSplit (fm : Bool) (r4 : List Byte) : Option (Byte × List Byte × List Byte) × List Byte :=
  match r4 with
  | c :: r5 =>
    if (c == 101 || c == 69) && fm then
      (some (c, (optSign r5).1, (takeDigits (optSign r5).2).1), (takeDigits (optSign r5).2).2)
    else (none, r4)
  | [] => (none, [])

/-- the text `in >> d` consumes from `r`, and the rest -/
def numSplit (r : List Byte) : NumForm × List Byte :=
  let s := optSign r
  let i := takeDigits s.2
  let fr := fracSplit i.2
  let fm := !i.1.isEmpty || !(frDigits fr.1).isEmpty
  let ex := expSplit fm fr.2
  (⟨s.1, i.1, fr.1, ex.1⟩, ex.2)

theorem fracSplit_spec (r2 : List Byte) (hnd : NoDigitHead r2) :
    r2 = frText (fracSplit r2).1 ++ (fracSplit r2).2 ∧ (frDigits (fracSplit r2).1).all isDigit = true ∧
    (((fracSplit r2).1 = none ∧ (fracSplit r2).2 = r2 ∧ ∀ t, r2 ≠ 46 :: t) ∨
     (∃ r3, r2 = 46 :: r3 ∧ (fracSplit r2).1 = some (takeDigits r3).1 ∧ (fracSplit r2).2 = (takeDigits r3).2)) := by
  unfold fracSplit
  split
  · rename_i r3
    refine ⟨by simp [frText, takeDigits_append], by simpa [frDigits] using (takeDigits_spec r3).1, Or.inr ⟨r3, rfl, rfl, rfl⟩⟩
  · rename_i hne
    exact ⟨by simp [frText], rfl, Or.inl ⟨rfl, rfl, fun t e => hne t e⟩⟩

def lowerEx (ex : Option (Byte × List Byte × List Byte)) : Option (Byte × List Byte × List Byte) :=
  ex.map (fun p => (101, p.2.1, p.2.2))

/-- the exponent stage of the scan, from a state without exponent -/
theorem floatLoop_expStage (fm fd : Bool) (x l r4 : List Byte) (hnd : NoDigitHead r4)
    (hdot : fd = false → ∀ t, r4 ≠ 46 :: t) :
    floatLoop fm fd false false x l r4 =
      ((exTextN (lowerEx (expSplit fm r4).1)).reverse ++ x, (exTextN (expSplit fm r4).1).reverse ++ l, (expSplit fm r4).2) := by
  cases r4 with
  | nil => simp [expSplit, lowerEx, exTextN, floatLoop_nil]
  | cons c r5 =>
    have hc : isDigit c = false := by
      rcases hnd with h | ⟨c', t, h, hc'⟩
      · cases h
      · simp only [List.cons.injEq] at h; rw [h.1]; exact hc'
    by_cases hcond : ((c == 101 || c == 69) && fm) = true
    · simp only [Bool.and_eq_true, Bool.or_eq_true, beq_iff_eq] at hcond
      obtain ⟨hce, rfl⟩ := hcond
      have hce' : c = 69 ∨ c = 101 := by rcases hce with h | h <;> simp [h]
      have hb : ((c == 101 || c == 69) && true) = true := by rcases hce with h | h <;> simp [h]
      rw [floatLoop_exp fd x l r5 c hce', floatLoop_exp_rest]
      simp [expSplit, hb, lowerEx, exTextN]
    · have hcond' : ((c == 101 || c == 69) && fm) = false := by simpa using hcond
      have h3 : (c == 46 && !fd && !false) = false := by
        cases fd with
        | true => simp
        | false =>
          have := hdot rfl r5
          have : c ≠ 46 := fun e => this (by rw [e])
          simp [this]
      rw [floatLoop_stop fm fd false false x l c r5 rfl hc h3 (by simpa using hcond')]
      simp [expSplit, hcond', lowerEx, exTextN]

/-- the scan after the sign -/
theorem scan_afterSign (x0 l1 r1 : List Byte) :
    (let dz := dropZeros false l1 r1
     floatLoop dz.1 false false false (if dz.1 then 48 :: x0 else x0) dz.2.1 dz.2.2) =
    (let i := takeDigits r1
     let fr := fracSplit i.2
     let ex := expSplit (!i.1.isEmpty || !(frDigits fr.1).isEmpty) fr.2
     ((exTextN (lowerEx ex.1)).reverse ++ ((frText fr.1).reverse ++ ((collapseZeros i.1).reverse ++ x0)),
      (exTextN ex.1).reverse ++ ((frText fr.1).reverse ++ (i.1.reverse ++ l1)), ex.2)) := by
  obtain ⟨hipd, hnd2⟩ := takeDigits_spec r1
  have happ := takeDigits_append r1
  generalize takeDigits r1 = i at hipd hnd2 happ
  obtain ⟨ip, r2⟩ := i
  simp only at hipd hnd2 happ ⊢
  subst happ
  obtain ⟨zs, ds, rfl, hz, hd⟩ := zeros_split ip
  have hdsd : ds.all isDigit = true := by simp only [List.all_append, Bool.and_eq_true] at hipd; exact hipd.2
  have hrest : (ds ++ r2) = [] ∨ ∃ c t, (ds ++ r2) = c :: t ∧ c ≠ 48 := by
    rcases hd with rfl | ⟨c, t, rfl, hc⟩
    · rcases hnd2 with rfl | ⟨c, t, rfl, hc⟩
      · exact Or.inl rfl
      · exact Or.inr ⟨c, t, rfl, by intro e; subst e; revert hc; decide⟩
    · exact Or.inr ⟨c, t ++ r2, rfl, hc⟩
  have hdz : dropZeros false l1 (zs ++ ds ++ r2) = (!zs.isEmpty, zs.reverse ++ l1, ds ++ r2) := by
    rw [List.append_assoc]; simpa using dropZeros_run false l1 zs _ hz hrest
  simp only [hdz]
  rw [floatLoop_digits' _ _ _ _ _ ds r2 hdsd]
  have hfm1 : (!zs.isEmpty || !ds.isEmpty) = !(zs ++ ds).isEmpty := by cases zs <;> cases ds <;> rfl
  have hx1 : ds.reverse ++ (if (!zs.isEmpty) = true then 48 :: x0 else x0) = (collapseZeros (zs ++ ds)).reverse ++ x0 := by
    rw [collapseZeros_split zs ds hz hd]; cases zs <;> simp
  rw [hfm1, hx1]
  have hl : ds.reverse ++ (zs.reverse ++ l1) = (zs ++ ds).reverse ++ l1 := by simp
  rw [hl]
  obtain ⟨_, hfpd, hcases⟩ := fracSplit_spec r2 hnd2
  rcases hcases with ⟨h1, h2, h3⟩ | ⟨r3, rfl, h1, h2⟩
  · rw [h1, h2]
    simp only [frDigits, frText, List.isEmpty_nil, Bool.not_true, Bool.or_false, List.reverse_nil, List.nil_append]
    exact floatLoop_expStage _ false _ _ r2 hnd2 (fun _ => h3)
  · rw [h1, h2]
    simp only [frDigits, frText]
    obtain ⟨hfp, hnd4⟩ := takeDigits_spec r3
    have happ3 := takeDigits_append r3
    generalize takeDigits r3 = q at hfp hnd4 happ3
    obtain ⟨fp, r4⟩ := q
    simp only at hfp hnd4 happ3 ⊢
    subst happ3
    rw [floatLoop_dot, floatLoop_digits' _ _ _ _ _ fp r4 hfp,
      floatLoop_expStage _ true _ _ r4 hnd4 (fun h => by cases h)]
    simp

theorem expSplit_spec (fm : Bool) (r4 : List Byte) :
    r4 = exTextN (expSplit fm r4).1 ++ (expSplit fm r4).2 ∧
    (∀ el esg ed, (expSplit fm r4).1 = some (el, esg, ed) →
      (el = 69 ∨ el = 101) ∧ IsSign esg ∧ ed.all isDigit = true ∧ fm = true) := by
  unfold expSplit
  cases r4 with
  | nil => simp [exTextN]
  | cons c r5 =>
    by_cases hcond : ((c == 101 || c == 69) && fm) = true
    · simp only [hcond, if_true]
      simp only [Bool.and_eq_true, Bool.or_eq_true, beq_iff_eq] at hcond
      refine ⟨?_, ?_⟩
      · simp only [exTextN, List.cons_append, List.append_assoc]
        rw [takeDigits_append, optSign_append]
      · intro el esg ed h
        simp only [Option.some.injEq, Prod.mk.injEq] at h
        obtain ⟨rfl, rfl, rfl⟩ := h
        exact ⟨by rcases hcond.1 with h | h <;> simp [h], optSign_spec r5, (takeDigits_spec _).1, hcond.2⟩
    · have hcond' : ((c == 101 || c == 69) && fm) = false := by simpa using hcond
      simp [hcond', exTextN]

theorem numSplit_spec (l r : List Byte) :
    (numSplit r).1.WF ∧ r = (numSplit r).1.text ++ (numSplit r).2 ∧
    scanFloat l r = ((numSplit r).1.norm.text, (numSplit r).1.text.reverse ++ l, (numSplit r).2) := by
  have hsgn := optSign_spec r
  have hsapp := optSign_append r
  have hi := takeDigits_spec (optSign r).2
  have hiapp := takeDigits_append (optSign r).2
  have hfr := fracSplit_spec (takeDigits (optSign r).2).2 hi.2
  have hex := expSplit_spec (!(takeDigits (optSign r).2).1.isEmpty || !(frDigits (fracSplit (takeDigits (optSign r).2).2).1).isEmpty)
    (fracSplit (takeDigits (optSign r).2).2).2
  refine ⟨?_, ?_, ?_⟩
  · refine ⟨hsgn, hi.1, hfr.2.1, ?_⟩
    intro el esg ed hx
    obtain ⟨a1, a2, a3, a4⟩ := hex.2 el esg ed hx
    refine ⟨a1, a2, a3, ?_⟩
    simp only [Bool.or_eq_true, Bool.not_eq_true'] at a4
    rcases a4 with a | a
    · left; intro e; simp only [numSplit] at e; rw [e] at a; simp at a
    · right; intro e; simp only [numSplit] at e; rw [e] at a; simp at a
  · simp only [numSplit, NumForm.text, List.append_assoc]
    rw [← hex.1, ← hfr.1, hiapp, hsapp]
  · have key := scan_afterSign (optSign r).1.reverse ((optSign r).1.reverse ++ l) (optSign r).2
    have hsp : signPrefix r = optSign r := by
      unfold signPrefix optSign
      split
      · rfl
      · rfl
      · rename_i h1 h2
        split
        · rename_i t; exact absurd rfl (h2 t)
        · rename_i t; exact absurd rfl (h1 t)
        · rfl
    have hshape : scanFloat l r =
        (let dz := dropZeros false ((optSign r).1.reverse ++ l) (optSign r).2
         let q := floatLoop dz.1 false false false (if dz.1 then 48 :: (optSign r).1.reverse else (optSign r).1.reverse) dz.2.1 dz.2.2
         (q.1.reverse, q.2.1, q.2.2)) := by
      simp only [scanFloat, hsp]
    rw [hshape]
    simp only at key ⊢
    rw [key]
    simp [numSplit, NumForm.text, NumForm.norm, lowerEx]

/-- what may follow a number token without being taken for a part of it -/
def NumCont (cont : List Byte) : Prop :=
  cont = [] ∨ ∃ c t, cont = c :: t ∧ isDigit c = false ∧ c ≠ 101 ∧ c ≠ 69 ∧ c ≠ 46

theorem NumCont.real {cont : List Byte} (h : NumCont cont) : RealCont cont := by
  rcases h with rfl | ⟨c, t, rfl, a, b, c', _⟩
  · exact Or.inl rfl
  · exact Or.inr ⟨c, t, rfl, a, b, c'⟩

theorem expSplit_cont (fm : Bool) (cont : List Byte) (h : RealCont cont) : expSplit fm cont = (none, cont) := by
  rcases h with rfl | ⟨c, t, rfl, _, h1, h2⟩
  · rfl
  · have : (c == 101 || c == 69) = false := by simp [h1, h2]
    simp [expSplit, this]

/-- `in >> d` on a token of the real grammar followed by something that does not continue it -/
theorem numSplit_realText (sg ip fp : List Byte) (ex : Option (List Byte × List Byte)) (cont : List Byte)
    (hsg : IsSign sg) (hip1 : ip ≠ []) (hip : ip.all isDigit = true) (hfp : fp.all isDigit = true) (hex : ExWF ex)
    (hcont : RealCont cont) :
    ∃ f, numSplit (realText sg ip fp 69 ex ++ cont) = (f, cont) ∧ f.text = realText sg ip fp 69 ex := by
  obtain ⟨d, u, rfl⟩ : ∃ d u, ip = d :: u := by
    cases ip with
    | nil => exact absurd rfl hip1
    | cons d u => exact ⟨d, u, rfl⟩
  have hd : isDigit d = true := by simp at hip; exact hip.1
  have h1 : optSign (realText sg (d :: u) fp 69 ex ++ cont) = (sg, (d :: u) ++ 46 :: (fp ++ (exText 69 ex ++ cont))) := by
    have : realText sg (d :: u) fp 69 ex ++ cont = sg ++ ((d :: u) ++ 46 :: (fp ++ (exText 69 ex ++ cont))) := by
      simp [realText]
    rw [this]
    exact optSign_of_sign sg _ hsg (by simpa using digit_head_not_sign d _ hd)
  have h2 : takeDigits ((d :: u) ++ 46 :: (fp ++ (exText 69 ex ++ cont))) = (d :: u, 46 :: (fp ++ (exText 69 ex ++ cont))) :=
    takeDigits_run _ _ hip (dot_noDigit _)
  have hnd : NoDigitHead (exText 69 ex ++ cont) := by
    cases ex with
    | none => simpa [exText] using hcont.noDigit
    | some p => exact Or.inr ⟨69, p.1 ++ p.2 ++ cont, by simp [exText], by decide⟩
  have h3 : takeDigits (fp ++ (exText 69 ex ++ cont)) = (fp, exText 69 ex ++ cont) := takeDigits_run _ _ hfp hnd
  cases ex with
  | none =>
    refine ⟨⟨sg, d :: u, some fp, none⟩, ?_, by simp [NumForm.text, frText, exTextN, realText, exText]⟩
    simp only [numSplit, h1, h2, fracSplit, h3]
    simp only [exText, List.nil_append] at h3 ⊢
    simp [h3, expSplit_cont _ cont hcont]
  | some p =>
    obtain ⟨esg, ed⟩ := p
    obtain ⟨hes, hed1, hed⟩ := hex
    obtain ⟨e0, eu, rfl⟩ : ∃ e0 eu, ed = e0 :: eu := by
      cases ed with
      | nil => exact absurd rfl hed1
      | cons e0 eu => exact ⟨e0, eu, rfl⟩
    have he0 : isDigit e0 = true := by simp at hed; exact hed.1
    have h5 : optSign (esg ++ ((e0 :: eu) ++ cont)) = (esg, (e0 :: eu) ++ cont) :=
      optSign_of_sign esg _ hes (by simpa using digit_head_not_sign e0 _ he0)
    have h6 : takeDigits ((e0 :: eu) ++ cont) = (e0 :: eu, cont) := takeDigits_run _ _ hed hcont.noDigit
    refine ⟨⟨sg, d :: u, some fp, some (69, esg, e0 :: eu)⟩, ?_, by simp [NumForm.text, frText, exTextN, realText, exText]⟩
    simp only [List.cons_append] at h5 h6
    simp only [numSplit, h1, h2, fracSplit, h3]
    simp [exText, expSplit, frDigits, h5, h6]

/-- `in >> d` on a token of the integer grammar followed by something that does not continue it -/
theorem numSplit_intText (sg ip cont : List Byte) (hsg : IsSign sg) (hip1 : ip ≠ []) (hip : ip.all isDigit = true)
    (hcont : NumCont cont) :
    ∃ f, numSplit (sg ++ ip ++ cont) = (f, cont) ∧ f.text = sg ++ ip := by
  obtain ⟨d, u, rfl⟩ : ∃ d u, ip = d :: u := by
    cases ip with
    | nil => exact absurd rfl hip1
    | cons d u => exact ⟨d, u, rfl⟩
  have hd : isDigit d = true := by simp at hip; exact hip.1
  have h1 : optSign (sg ++ (d :: u) ++ cont) = (sg, (d :: u) ++ cont) := by
    rw [List.append_assoc]
    exact optSign_of_sign sg _ hsg (by simpa using digit_head_not_sign d _ hd)
  have h2 : takeDigits ((d :: u) ++ cont) = (d :: u, cont) := takeDigits_run _ _ hip hcont.real.noDigit
  have h3 : fracSplit cont = (none, cont) := by
    rcases hcont with rfl | ⟨c, t, rfl, _, _, _, h46⟩
    · rfl
    · unfold fracSplit; split
      · rename_i heq; simp at heq; exact absurd heq.1 h46
      · rfl
  refine ⟨⟨sg, d :: u, none, none⟩, ?_, by simp [NumForm.text, frText, exTextN]⟩
  simp only [numSplit, h1, h2, h3, expSplit_cont _ cont hcont.real]

theorem isInteger_form (t : List Byte) (h : isInteger t = true) :
    ∃ sg ds, t = sg ++ ds ∧ IsSign sg ∧ ds ≠ [] ∧ ds.all isDigit = true := by
  obtain ⟨sg, hsg, ht, _⟩ := splitSign_append t
  unfold isInteger at h
  simp only [Bool.and_eq_true, Bool.not_eq_true', allDigits] at h
  exact ⟨sg, (splitSign t).2, ht, hsg, by intro e; rw [e] at h; simp at h, h.2⟩


/-! ### the delimiter is never consumed: infrastructure -/

/-- no `,` and no `)` -/
def NoCP (m : List Byte) : Prop := ∀ b ∈ m, b ≠ 44 ∧ b ≠ 41


theorem NoCP.of_notDelim {m : List Byte} (h : ∀ b ∈ m, isDelim attrDelims b = false) : NoCP m := by
  intro b hb
  have := h b hb
  constructor <;> (intro e; subst e; revert this; decide)


theorem NoCP.append {a b : List Byte} (ha : NoCP a) (hb : NoCP b) : NoCP (a ++ b) := by
  intro x hx
  rcases List.mem_append.mp hx with h | h
  · exact ha x h
  · exact hb x h


theorem NoCP.blanks {sp : List Byte} (h : sp.all isSpace = true) : NoCP sp :=
  NoCP.of_notDelim (fun x hx => space_not_delim (List.all_eq_true.mp h x hx))


theorem NoCP.digits {ds : List Byte} (h : ds.all isDigit = true) : NoCP ds :=
  NoCP.of_notDelim (fun x hx => digit_not_delim (List.all_eq_true.mp h x hx))


theorem NoCP.sign {sg : List Byte} (h : IsSign sg) : NoCP sg := by
  rcases h with rfl | rfl | rfl <;> intro b hb <;> simp at hb <;> subst hb <;> decide


theorem NoCP.nil : NoCP [] := by intro b hb; cases hb


/-- the delimiter that follows is never consumed: everything the reader took from the stream is a stretch without `,`/`)`,
    then separators, then a stretch without `,`/`)` — a delimiter is only ever passed inside a comment -/
def KeptDelims (cfg : LexCfg) (input : List Byte) (s : IStream) : Prop :=
  ∃ a lay b, input = a ++ lay ++ b ++ s.right ∧ s.left = (a ++ lay ++ b).reverse ∧ NoCP a ∧ Between cfg lay ∧ NoCP b


/-- from a reader that took `k` (no `,`/`)`) after the blanks `sp1`, through `CheckRemainingInput` -/
theorem kept_through_cri (cfg : LexCfg) (sp1 k rest : List Byte) (eof fail sk : Bool) (e : Sev)
    (h1 : sp1.all isSpace = true) (hk : NoCP k) :
    KeptDelims cfg (sp1 ++ k ++ rest)
      (checkRemainingInput cfg (some attrDelims)
        { left := k.reverse ++ sp1.reverse, right := rest, eof := eof, fail := fail, bad := false, skipws := sk } e).1 := by
  obtain ⟨lay, g, hm1, hm2, hm3, hm4⟩ := cri_left cfg
    { left := k.reverse ++ sp1.reverse, right := rest, eof := eof, fail := fail, bad := false, skipws := sk } e rfl
  generalize checkRemainingInput cfg (some attrDelims)
    { left := k.reverse ++ sp1.reverse, right := rest, eof := eof, fail := fail, bad := false, skipws := sk } e = X at hm1 hm2 ⊢
  refine ⟨sp1 ++ k, lay, g, ?_, ?_, (NoCP.blanks h1).append hk, hm3, NoCP.of_notDelim (fun b hb => delimAt_false (hm4 b hb))⟩
  · simp only at hm2; rw [hm2]; simp
  · simp only at hm1; rw [hm1]; simp


theorem numForm_noCP (f : NumForm) (h : f.WF) : NoCP f.text := by
  obtain ⟨h1, h2, h3, h4⟩ := h
  unfold NumForm.text
  refine (NoCP.sign h1).append ((NoCP.digits h2).append (NoCP.append ?_ ?_))
  · cases hf : f.fr with
    | none => exact NoCP.nil
    | some fp =>
      intro b hb
      simp [frText] at hb
      rcases hb with rfl | hb
      · decide
      · exact NoCP.digits (by simpa [frDigits, hf] using h3) b hb
  · cases hx : f.ex with
    | none => exact NoCP.nil
    | some p =>
      obtain ⟨el, esg, ed⟩ := p
      obtain ⟨hel, hes, hed, _⟩ := h4 el esg ed hx
      intro b hb
      simp [exTextN] at hb
      rcases hb with rfl | hb | hb
      · rcases hel with rfl | rfl <;> decide
      · exact NoCP.sign hes b hb
      · exact NoCP.digits hed b hb


theorem kept_dollar {F} (ops : FloatOps F) (cfg : LexCfg) (lookup : Int → RefLookup) (k : Kind) (nullable : Bool)
    (sp1 t : List Byte) (h2 : sp1.all isSpace = true) (r : ReadResult F)
    (h : attrRead ops cfg lookup k nullable (IStream.ofBytes (sp1 ++ 36 :: t)) = .ok r) :
    KeptDelims cfg (sp1 ++ 36 :: t) r.s := by
  rw [attrRead_dollar ops cfg lookup k nullable sp1 t h2] at h
  simp only [Outcome.ok.injEq] at h
  subst h
  have := kept_through_cri cfg sp1 [36] t false false true Sev.null h2 (by intro b hb; simp at hb; subst hb; decide)
  simpa using this


theorem kept_missing {F} (ops : FloatOps F) (cfg : LexCfg) (lookup : Int → RefLookup) (k : Kind) (nullable : Bool)
    (sp1 t : List Byte) (c : Byte) (h2 : sp1.all isSpace = true) (hc : c = 44 ∨ c = 41) (r : ReadResult F)
    (h : attrRead ops cfg lookup k nullable (IStream.ofBytes (sp1 ++ c :: t)) = .ok r) :
    KeptDelims cfg (sp1 ++ c :: t) r.s := by
  rw [attrRead_missing ops cfg lookup k nullable sp1 t c h2 hc] at h
  simp only [Outcome.ok.injEq] at h
  subst h
  exact ⟨sp1, [], [], by simp, by simp, NoCP.blanks h2, Between.nil cfg, NoCP.nil⟩


theorem realCollect_noCP (r : List Byte) : NoCP (realCollect r).1 := by
  simp only [realCollect, realDigits]
  refine NoCP.append (NoCP.append (NoCP.append (NoCP.append (NoCP.sign (optSign_spec r)) (NoCP.digits (takeDigits_spec _).1)) ?_)
    (NoCP.digits (takeDigits_spec _).1)) ?_
  · rcases optDot_cases (takeDigits (optSign r).2).2 with ⟨h, _⟩ | ⟨h, _⟩ <;> rw [h]
    · intro b hb; simp at hb; subst hb; decide
    · exact NoCP.nil
  · rcases expPart_cases (takeDigits (optDot (takeDigits (optSign r).2).2).2).2 with ⟨h, _, _⟩ | ⟨c, t, _, hc, h, _, _⟩ <;> rw [h]
    · exact NoCP.nil
    · intro b hb
      simp at hb
      rcases hb with rfl | hb | hb
      · rcases hc with rfl | rfl <;> decide
      · exact NoCP.sign (optSign_spec t) b hb
      · exact NoCP.digits (takeDigits_spec _).1 b hb


/-- what `scanWord` does to the stream, for every outcome: it takes a run of `p`-characters, possibly followed by the closing
    `q`, and nothing else (`l` is the consumed side *before* the current character `c1`) -/
theorem scanWord_stream (p : Byte → Bool) (q : Byte) (c1 : Byte) (l t1 : List Byte) (sk : Bool) :
    ∃ k, (scanWord p q c1 { left := c1 :: l, right := t1, eof := false, fail := false, bad := false, skipws := sk }).2.2.left = k.reverse ++ l ∧
      c1 :: t1 = k ++ (scanWord p q c1 { left := c1 :: l, right := t1, eof := false, fail := false, bad := false, skipws := sk }).2.2.right ∧
      (∀ b ∈ k, p b = true ∨ b = q) ∧
      (scanWord p q c1 { left := c1 :: l, right := t1, eof := false, fail := false, bad := false, skipws := sk }).2.2.bad = false ∧
      (scanWord p q c1 { left := c1 :: l, right := t1, eof := false, fail := false, bad := false, skipws := sk }).2.2.skipws = sk := by
  by_cases hp : p c1 = true
  · obtain ⟨w, rest, h1, h2, h3⟩ := wordLoop_go p [] c1 (c1 :: l) t1 hp
    have hw : ∀ b ∈ c1 :: w, p b = true ∨ b = q := by
      intro b hb
      rcases List.mem_cons.mp hb with rfl | hb
      · exact Or.inl hp
      · exact Or.inl (List.all_eq_true.mp h2 b hb)
    rcases h3 with ⟨hr, c', hc', hs⟩ | ⟨x, u, hr, hx, hs⟩
    · subst hr
      refine ⟨c1 :: w, ?_, ?_, hw, ?_, ?_⟩
      · simp [scanWord, runWord, IStream.good, hs]
      · simp only [scanWord, runWord, IStream.good, hs]; simpa using h1
      · simp [scanWord, runWord, IStream.good, hs]
      · simp [scanWord, runWord, IStream.good, hs]
    · subst hr
      by_cases hxq : x = q
      · subst hxq
        refine ⟨c1 :: (w ++ [x]), ?_, ?_, ?_, ?_, ?_⟩
        · simp [scanWord, runWord, IStream.good, hs]
        · simp only [scanWord, runWord, IStream.good, hs]; simpa using h1
        · intro b hb
          simp only [List.mem_cons, List.mem_append, List.mem_nil_iff, or_false] at hb
          rcases hb with rfl | hb | rfl
          · exact Or.inl hp
          · exact Or.inl (List.all_eq_true.mp h2 b hb)
          · exact Or.inr rfl
        · simp [scanWord, runWord, IStream.good, hs]
        · simp [scanWord, runWord, IStream.good, hs]
      · refine ⟨c1 :: w, ?_, ?_, hw, ?_, ?_⟩
        · simp [scanWord, runWord, IStream.good, hs, hxq, putback_good]
        · simp only [scanWord, runWord, IStream.good, hs]; simp [hxq, putback_good, h1]
        · simp [scanWord, runWord, IStream.good, hs, hxq, putback_good]
        · simp [scanWord, runWord, IStream.good, hs, hxq, putback_good]
  · have hp' : p c1 = false := by simpa using hp
    have hs := wordLoop_stop p [] c1 (c1 :: l) t1 hp'
    by_cases hcq : c1 = q
    · subst hcq
      refine ⟨[c1], ?_, ?_, ?_, ?_, ?_⟩ <;> simp [scanWord, runWord, IStream.good, hs]
    · refine ⟨[], ?_, ?_, ?_, ?_, ?_⟩ <;> simp [scanWord, runWord, IStream.good, hs, hcq, putback_good]


theorem kept_through_cri' (cfg : LexCfg) (sp1 k : List Byte) (s : IStream) (e : Sev)
    (h1 : sp1.all isSpace = true) (hk : NoCP k) (hb : s.bad = false) (hl : s.left = k.reverse ++ sp1.reverse) :
    KeptDelims cfg (sp1 ++ k ++ s.right) (checkRemainingInput cfg (some attrDelims) s e).1 := by
  obtain ⟨lay, g, hm1, hm2, hm3, hm4⟩ := cri_left cfg s e hb
  generalize checkRemainingInput cfg (some attrDelims) s e = X at hm1 hm2 ⊢
  refine ⟨sp1 ++ k, lay, g, ?_, ?_, (NoCP.blanks h1).append hk, hm3, NoCP.of_notDelim (fun b hb => delimAt_false (hm4 b hb))⟩
  · rw [hm2]; simp
  · rw [hm1, hl]; simp


theorem scanWord_notgood (p : Byte → Bool) (q c : Byte) (s : IStream) (h : s.good = false) :
    scanWord p q c s = ([], c, s) := by
  simp [scanWord, runWord, h]


theorem xdigit_noCP (k : List Byte) (h : ∀ b ∈ k, isXDigit b = true ∨ b = 34) : NoCP k := by
  intro b hb
  rcases h b hb with h | rfl
  · constructor <;> (intro e; subst e; revert h; decide)
  · decide


theorem enumWord_as_scanWord (c1 : Byte) (l t1 : List Byte) (sk : Bool) :
    enumWord c1 { left := c1 :: l, right := t1, eof := false, fail := false, bad := false, skipws := sk } =
      scanWord pw 46 c1 { left := c1 :: l, right := t1, eof := false, fail := false, bad := false, skipws := sk } := by
  by_cases hp : pw c1 = true
  · rw [enumWord_eq c1 l t1 sk hp]
    simp [scanWord, runWord, IStream.good]
  · have hp' : pw c1 = false := by simpa using hp
    have ha' : (isAlpha c1 || c1 == 95) = false := by
      cases h : (isAlpha c1 || c1 == 95)
      · rfl
      · rw [alpha_pw h] at hp'; cases hp'
    simp [enumWord, scanWord, IStream.good, ha']


theorem enumWord_notgood (c : Byte) (s : IStream) (h : s.good = false) : enumWord c s = ([], c, s) := by
  simp [enumWord, runWord, h]


theorem pw_noCP (k : List Byte) (h : ∀ b ∈ k, pw b = true ∨ b = 46) : NoCP k := by
  intro b hb
  rcases h b hb with h | rfl
  · constructor <;> (intro e; subst e; revert h; decide)
  · decide


theorem refTail_stream (cfg : LexCfg) (lookup : Int → RefLookup) (s2 : IStream) (err0 : Sev) :
    ∃ E, (refTail cfg lookup (some attrDelims) s2 err0).2.1 =
      (checkRemainingInput cfg (some attrDelims) (s2.extractInt32).2 E).1 := by
  unfold refTail
  simp only
  split
  · exact ⟨_, rfl⟩
  · split <;> exact ⟨_, rfl⟩


theorem extractInt32_of_scan_hi (l : List Byte) (c : Byte) (t : List Byte) (res : IntResult) (l' r' : List Byte)
    (hc : isSpace c = false) (hs : scanInt longMin longMax l (c :: t) = (res, l', r')) (h2 : res.value > intMax) :
    IStream.extractInt32 { left := l, right := c :: t, eof := false, fail := false, bad := false, skipws := true } =
      (some intMax, { left := l', right := r', eof := r'.isEmpty, fail := true, bad := false, skipws := true }) := by
  have h1 : ¬ res.value < intMin := by
    have : intMin ≤ intMax := by decide
    omega
  simp [IStream.extractInt32, IStream.sentry, IStream.good, dropSpaces_nonspace _ _ _ hc, hs, h1, h2]


end StepModel.P21.Lemmas

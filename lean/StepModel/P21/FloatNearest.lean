import StepModel.P21.FloatSeventeen
/-! `Dbl.ofRatio` / `Dbl.ofDecimal` return a **nearest double** (C09, final proof round): the soundness direction of
`ofRatio_round` — whatever bit pattern the model's `strtod` returns for a positive rational `D`, it is `m · 2^e` with
`|D − m·2^e| ≤ 2^e / 2`. -/
namespace StepModel.P21.Lemmas
open StepModel

/-- the rounded scaled quotient is within half a unit `2^E` of the rational -/
theorem roundAt_near (N Dd : Nat) (hD : 0 < Dd) (D : Rat) (hDv : D * (Dd : Rat) = (N : Rat)) (E : Int) :
    2 * ((Dbl.roundDiv (scaledc 2 N Dd E).1 (scaledc 2 N Dd E).2 : Nat) : Rat) * zp 2 E ≤ 2 * D + zp 2 E ∧
    2 * D ≤ 2 * ((Dbl.roundDiv (scaledc 2 N Dd E).1 (scaledc 2 N Dd E).2 : Nat) : Rat) * zp 2 E + zp 2 E := by
  obtain ⟨s1, s2pos⟩ := scaledc_rat 2 (by decide) N Dd hD E D hDv
  have s2posN : 0 < (scaledc 2 N Dd E).2 := by exact_mod_cast s2pos
  obtain ⟨r1, r2⟩ := roundDiv_near (scaledc 2 N Dd E).1 (scaledc 2 N Dd E).2 s2posN
  have r1' : (2 : Rat) * ((Dbl.roundDiv (scaledc 2 N Dd E).1 (scaledc 2 N Dd E).2 : Rat) * ((scaledc 2 N Dd E).2 : Rat)) ≤
      2 * ((scaledc 2 N Dd E).1 : Rat) + ((scaledc 2 N Dd E).2 : Rat) := by exact_mod_cast r1
  have r2' : (2 : Rat) * ((scaledc 2 N Dd E).1 : Rat) ≤
      2 * ((Dbl.roundDiv (scaledc 2 N Dd E).1 (scaledc 2 N Dd E).2 : Rat) * ((scaledc 2 N Dd E).2 : Rat)) + ((scaledc 2 N Dd E).2 : Rat) := by
    exact_mod_cast r2
  rw [s1] at r1' r2'
  generalize Dbl.roundDiv (scaledc 2 N Dd E).1 (scaledc 2 N Dd E).2 = q0 at r1' r2' ⊢
  generalize ((scaledc 2 N Dd E).2 : Rat) = S at r1' r2' s2pos
  have hu := zp_pos 2 (by decide) E
  have hinv := zp_neg_mul 2 (by decide) E
  have c1 : 2 * (q0 : Rat) ≤ 2 * (D * zp 2 (-E)) + 1 := by
    have : S * (2 * (q0 : Rat)) ≤ S * (2 * (D * zp 2 (-E)) + 1) := by grind
    exact Rat.le_of_mul_le_mul_left this s2pos
  have c2 : 2 * (D * zp 2 (-E)) ≤ 2 * (q0 : Rat) + 1 := by
    have : S * (2 * (D * zp 2 (-E))) ≤ S * (2 * (q0 : Rat) + 1) := by grind
    exact Rat.le_of_mul_le_mul_left this s2pos
  constructor
  · have := Rat.mul_le_mul_of_nonneg_left c1 (Rat.le_of_lt hu)
    have e : zp 2 E * (2 * (D * zp 2 (-E)) + 1) = 2 * D * (zp 2 (-E) * zp 2 E) + zp 2 E := by grind
    rw [e, hinv] at this
    grind
  · have := Rat.mul_le_mul_of_nonneg_left c2 (Rat.le_of_lt hu)
    have e : zp 2 E * (2 * (D * zp 2 (-E))) = 2 * D * (zp 2 (-E) * zp 2 E) := by grind
    rw [e, hinv] at this
    grind

/-- **`Dbl.ofRatio` returns a nearest double**: a result `b` for the positive rational `D` is the encoding of some `m · 2^e`
    (`m < 2^53`, `−1074 ≤ e`, finite; `m < 2^52` only at the subnormal exponent) with `|D − m·2^e| ≤ 2^e / 2` -/
theorem ofRatio_sound (N Dd : Nat) (hN : 0 < N) (hD : 0 < Dd) (D : Rat) (hDv : D * (Dd : Rat) = (N : Rat)) (b : Nat)
    (h : Dbl.ofRatio N Dd = some b) :
    ∃ (m : Nat) (e : Int), -1074 ≤ e ∧ e + 1075 < 2047 ∧ m < 2 ^ 53 ∧ (m < 2 ^ 52 → e = -1074) ∧
      b = (if m < 2 ^ 52 then m else (e + 1075).toNat * 2 ^ 52 + (m - 2 ^ 52)) ∧
      2 * D ≤ (2 * (m : Rat) + 1) * zp 2 e ∧ (2 * (m : Rat) - 1) * zp 2 e ≤ 2 * D := by
  rw [ofRatio_eq N Dd (by omega), ofRatioAt_eq] at h
  obtain ⟨k1, k2⟩ := binExp_rat N Dd hN hD D hDv
  obtain ⟨n1, n2⟩ := roundAt_near N Dd hD D hDv (ulpExp (binExp N Dd))
  have hE : -1074 ≤ ulpExp (binExp N Dd) := by unfold ulpExp; split <;> omega
  have hEk : ulpExp (binExp N Dd) = -1074 ∨ ulpExp (binExp N Dd) = binExp N Dd - 52 := by unfold ulpExp; split <;> simp
  have hEk2 : binExp N Dd - 52 ≤ ulpExp (binExp N Dd) := by unfold ulpExp; split <;> omega
  generalize hQ : Dbl.roundDiv (scaledc 2 N Dd (ulpExp (binExp N Dd))).1 (scaledc 2 N Dd (ulpExp (binExp N Dd))).2 = Q at h n1 n2
  generalize ulpExp (binExp N Dd) = E at *
  generalize binExp N Dd = kk at *
  have hzE := zp_pos 2 (by decide) E
  -- w = D / 2^E lies in [2^(kk-E), 2^(kk+1-E))
  have hlow : zp 2 (kk - E) * zp 2 E ≤ D := by
    rw [← zp_add 2 (by decide)]
    have : kk - E + E = kk := by omega
    rw [this]; exact k1
  have hhigh : D < zp 2 (kk + 1 - E) * zp 2 E := by
    rw [← zp_add 2 (by decide)]
    have : kk + 1 - E + E = kk + 1 := by omega
    rw [this]; exact k2
  -- Q ≤ 2^53
  have hQ53 : Q ≤ 2 ^ 53 := by
    have hm : zp 2 (kk + 1 - E) ≤ zp 2 53 := zp_mono 2 (by decide) _ _ (by omega)
    rw [zp2_53] at hm
    have := Rat.mul_le_mul_of_nonneg_left hm (Rat.le_of_lt hzE)
    have hq : (2 : Rat) * (Q : Rat) < 2 * 9007199254740992 + 1 := by
      have c : (2 * (Q : Rat) - 1) * zp 2 E < (2 * 9007199254740992) * zp 2 E := by grind
      by_cases hh : (2 : Rat) * (Q : Rat) < 2 * 9007199254740992 + 1
      · exact hh
      · exfalso
        have hh' : 2 * 9007199254740992 + 1 ≤ (2 : Rat) * (Q : Rat) := Rat.not_lt.mp hh
        have := Rat.mul_le_mul_of_nonneg_left hh' (Rat.le_of_lt hzE)
        grind
    have : 2 * Q < 2 * 9007199254740992 + 1 := by exact_mod_cast hq
    omega
  by_cases hc : Q = Dbl.pow2 53
  · -- carry into the next binade
    rw [if_pos hc] at h
    by_cases hov : E + 1 + 1075 ≥ 2047
    · rw [if_pos hov] at h; cases h
    · rw [if_neg hov] at h
      have hb : b = (E + 1 + 1075).toNat * Dbl.pow2 52 := (Option.some.inj h).symm
      have hQR : (Q : Rat) = 9007199254740992 := by rw [hc]; unfold Dbl.pow2; simp
      rw [hQR] at n1 n2
      refine ⟨2 ^ 52, E + 1, by omega, by omega, by omega, fun h => absurd h (by omega), ?_, ?_, ?_⟩
      · rw [if_neg (by omega), hb]; unfold Dbl.pow2; simp
      · rw [zp_add 2 (by decide), zp2_1]
        have : ((2 ^ 52 : Nat) : Rat) = 4503599627370496 := by simp
        rw [this]; grind
      · rw [zp_add 2 (by decide), zp2_1]
        have : ((2 ^ 52 : Nat) : Rat) = 4503599627370496 := by simp
        rw [this]; grind
  · rw [if_neg hc] at h
    have hQlt : Q < 2 ^ 53 := by unfold Dbl.pow2 at hc; omega
    by_cases hsubn : Q < Dbl.pow2 52
    · rw [if_pos hsubn] at h
      have hb : b = Q := (Option.some.inj h).symm
      -- then the exponent is clamped
      have hEm : E = -1074 := by
        rcases hEk with h1 | h1
        · exact h1
        · exfalso
          have e52 : kk - E = 52 := by omega
          rw [e52, zp2_52] at hlow
          have hq : (2 : Rat) * (Q : Rat) + 1 ≥ 2 * 4503599627370496 := by
            by_cases hh : (2 : Rat) * (Q : Rat) + 1 ≥ 2 * 4503599627370496
            · exact hh
            · exfalso
              have hh' : (2 : Rat) * (Q : Rat) + 1 < 2 * 4503599627370496 := Rat.not_le.mp hh
              have := Rat.mul_lt_mul_of_pos_left hh' hzE
              grind
          have : 2 * Q + 1 ≥ 2 * 4503599627370496 := by exact_mod_cast hq
          unfold Dbl.pow2 at hsubn
          omega
      refine ⟨Q, E, by omega, by omega, hQlt, fun _ => hEm, ?_, by grind, by grind⟩
      unfold Dbl.pow2 at hsubn
      rw [if_pos hsubn]; exact hb
    · rw [if_neg hsubn] at h
      by_cases hov : E + 1075 ≥ 2047
      · rw [if_pos hov] at h; cases h
      · rw [if_neg hov] at h
        have hb : b = (E + 1075).toNat * Dbl.pow2 52 + (Q - Dbl.pow2 52) := (Option.some.inj h).symm
        unfold Dbl.pow2 at hsubn hb
        refine ⟨Q, E, by omega, by omega, hQlt, fun h => absurd h hsubn, ?_, by grind, by grind⟩
        rw [if_neg hsubn]; exact hb

/-- **the model's `strtod` returns a nearest double** (`Dbl.ofDecimal`, any decimal `M · 10^E` with `M > 0`): a result is either
    the (signed) zero for a decimal below `10^-330`, or sign + the encoding of some `m · 2^e` with `|M·10^E − m·2^e| ≤ 2^e / 2`
    (`m < 2^53`, `−1074 ≤ e`, below `2^52` only at the subnormal exponent, finite) -/
theorem ofDecimal_nearest (dec : Decimal) (hM : 0 < dec.mant) (b : Nat) (h : Dbl.ofDecimal dec = some b) :
    (b = (if dec.neg then Dbl.signBit else 0) ∧ (dec.mant : Rat) * zp 10 dec.exp < zp 10 (-330)) ∨
    ∃ (m : Nat) (e : Int), -1074 ≤ e ∧ e + 1075 < 2047 ∧ m < 2 ^ 53 ∧ (m < 2 ^ 52 → e = -1074) ∧
      b = (if m < 2 ^ 52 then m else (e + 1075).toNat * 2 ^ 52 + (m - 2 ^ 52)) + (if dec.neg then Dbl.signBit else 0) ∧
      2 * ((dec.mant : Rat) * zp 10 dec.exp) ≤ (2 * (m : Rat) + 1) * zp 2 e ∧
      (2 * (m : Rat) - 1) * zp 2 e ≤ 2 * ((dec.mant : Rat) * zp 10 dec.exp) := by
  obtain ⟨neg, M, E⟩ := dec
  simp only at hM h ⊢
  have hM0 : (M == 0) = false := by simp; omega
  unfold Dbl.ofDecimal at h
  simp only [hM0, Bool.false_eq_true, if_false] at h
  by_cases h310 : E > 310
  · simp only [h310, if_true] at h; cases h
  · simp only [h310, if_false] at h
    by_cases htiny : ((Nat.toDigits 10 M).length : Int) + E < -330
    · simp only [htiny, if_true] at h
      left
      refine ⟨(Option.some.inj h).symm, ?_⟩
      obtain ⟨_, mb2, _⟩ := digits_bounds M hM
      have h1 : (M : Rat) < ((10 ^ (Nat.toDigits 10 M).length : Nat) : Rat) := by exact_mod_cast mb2
      rw [← zp_nat] at h1
      have hz := zp_pos 10 (by decide) E
      have h2 := Rat.mul_lt_mul_of_pos_left h1 hz
      rw [← zp_add 10 (by decide)] at h2
      have h3 := zp_mono 10 (by decide) (E + ((Nat.toDigits 10 M).length : Int)) (-330) (by omega)
      grind
    · simp only [htiny, if_false] at h
      right
      have key : ∀ N Dd : Nat, 0 < N → 0 < Dd → (M : Rat) * zp 10 E * (Dd : Rat) = (N : Rat) →
          Option.map (fun x => x + if neg = true then Dbl.signBit else 0) (Dbl.ofRatio N Dd) = some b →
          ∃ (m : Nat) (e : Int), -1074 ≤ e ∧ e + 1075 < 2047 ∧ m < 2 ^ 53 ∧ (m < 2 ^ 52 → e = -1074) ∧
            b = (if m < 2 ^ 52 then m else (e + 1075).toNat * 2 ^ 52 + (m - 2 ^ 52)) + (if neg = true then Dbl.signBit else 0) ∧
            2 * ((M : Rat) * zp 10 E) ≤ (2 * (m : Rat) + 1) * zp 2 e ∧ (2 * (m : Rat) - 1) * zp 2 e ≤ 2 * ((M : Rat) * zp 10 E) := by
        intro N Dd hN hDd hDv hmap
        cases hr : Dbl.ofRatio N Dd with
        | none => rw [hr] at hmap; cases hmap
        | some b0 =>
          rw [hr] at hmap
          simp only [Option.map_some] at hmap
          obtain ⟨m, e, a1, a2, a3, a4, a5, a6, a7⟩ := ofRatio_sound N Dd hN hDd _ hDv b0 hr
          exact ⟨m, e, a1, a2, a3, a4, by rw [← a5]; exact (Option.some.inj hmap).symm, a6, a7⟩
      by_cases hE : E ≥ 0
      · simp only [hE, if_true] at h
        apply key _ 1 (Nat.mul_pos hM (Nat.pow_pos (by decide))) (by decide) _ h
        rw [zp_toNat 10 _ hE]; push_cast; grind
      · simp only [hE, if_false] at h
        apply key _ _ hM (Nat.pow_pos (by decide)) _ h
        have := zp_neg_toNat 10 (by decide) _ hE
        calc (M : Rat) * zp 10 E * ((10 ^ (-E).toNat : Nat) : Rat) = (M : Rat) * (zp 10 E * ((10 ^ (-E).toNat : Nat) : Rat)) := by grind
          _ = (M : Rat) := by rw [this]; simp

end StepModel.P21.Lemmas

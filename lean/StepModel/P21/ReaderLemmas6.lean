import StepModel.P21.ReaderLemmas5
import StepModel.P21.LexNumber
/-! NUMBER attributes in mid-file: `ReadNumber` on a token of the `real` or of the `integer` grammar, any layout after it
(the accept lemmas of property C09's `P21/LexNumber.lean`, lifted from a fresh stream to any position in a file). -/
namespace StepModel.P21.RLemmas
open StepModel StepModel.IStream StepModel.P21 StepModel.P21.Lemmas StepModel.P21.Grammar

variable {F : Type}

theorem extractFloatText_G (l : List Byte) (c : Byte) (t : List Byte) (sk : Bool) (hc : isSpace c = false) :
    IStream.extractFloatText (G l (c :: t) sk) =
      (some (scanFloat l (c :: t)).1,
       { left := (scanFloat l (c :: t)).2.1, right := (scanFloat l (c :: t)).2.2,
         eof := (scanFloat l (c :: t)).2.2.isEmpty, fail := false, bad := false, skipws := sk }) := by
  cases sk <;> simp [IStream.extractFloatText, IStream.sentry, IStream.good, dropSpaces_nonspace _ _ _ hc]

theorem seps_numCont (seps : List Byte) (hs : Seps seps) (d : Byte) (rest : List Byte) (hd : d = 44 ∨ d = 41) :
    NumCont (seps ++ d :: rest) := by
  obtain ⟨c, u, h, hc⟩ := seps_then seps hs d rest
    (fun c => isDigit c = false ∧ c ≠ 101 ∧ c ≠ 69 ∧ c ≠ 46)
    (fun c hc => ⟨space_not_digit hc, by intro e; subst e; exact absurd hc (by decide),
      by intro e; subst e; exact absurd hc (by decide), by intro e; subst e; exact absurd hc (by decide)⟩)
    (by decide) (by rcases hd with rfl | rfl <;> decide)
  exact Or.inr ⟨c, u, h, hc.1, hc.2.1, hc.2.2.1, hc.2.2.2⟩

/-- first character of a token of the `real` or of the `integer` grammar -/
theorem number_head (tok : List Byte) (htok : isReal tok = true ∨ isInteger tok = true) :
    ∃ c u, tok = c :: u ∧ isSpace c = false ∧ c ≠ 36 ∧ c ≠ 44 ∧ c ≠ 41 ∧ c ≠ 47 ∧ c ≠ 92 := by
  have key : ∀ (sg ds : List Byte), IsSign sg → ds ≠ [] → ds.all isDigit = true → ∀ tail,
      ∃ c u, sg ++ (ds ++ tail) = c :: u ∧ isSpace c = false ∧ c ≠ 36 ∧ c ≠ 44 ∧ c ≠ 41 ∧ c ≠ 47 ∧ c ≠ 92 := by
    intro sg ds hsg hds1 hds tail
    obtain ⟨i0, iu, rfl⟩ : ∃ i0 iu, ds = i0 :: iu := by
      cases ds with
      | nil => exact absurd rfl hds1
      | cons i0 iu => exact ⟨i0, iu, rfl⟩
    have hi0 : isDigit i0 = true := by simp at hds; exact hds.1
    have hi0' : isSpace i0 = false ∧ i0 ≠ 36 ∧ i0 ≠ 44 ∧ i0 ≠ 41 ∧ i0 ≠ 47 ∧ i0 ≠ 92 := by
      refine ⟨digit_not_space hi0, ?_, ?_, ?_, ?_, ?_⟩ <;> (simp [isDigit] at hi0; bomega)
    rcases hsg with rfl | rfl | rfl
    · exact ⟨i0, iu ++ tail, by simp, hi0'.1, hi0'.2.1, hi0'.2.2.1, hi0'.2.2.2.1, hi0'.2.2.2.2.1, hi0'.2.2.2.2.2⟩
    · exact ⟨43, i0 :: (iu ++ tail), by simp, by decide, by decide, by decide, by decide, by decide, by decide⟩
    · exact ⟨45, i0 :: (iu ++ tail), by simp, by decide, by decide, by decide, by decide, by decide, by decide⟩
  rcases htok with hr | hi
  · obtain ⟨sg, ip, fp, ex, rfl, hsg, hip1, hip, _, _⟩ := isReal_shape tok hr
    exact key sg ip hsg hip1 hip _
  · obtain ⟨sg, ds, rfl, hsg, hds1, hds⟩ := isInteger_form tok hi
    simpa using key sg ds hsg hds1 hds []

/-- `ReadNumber` on a token of the `real` or of the `integer` grammar whose denotation converts, standing anywhere,
    followed by any layout and a delimiter: exactly that double, no error, the stream rests at the delimiter -/
theorem readNumber_tok (ops : FloatOps F) (lex : LexCfg) (hcfg : lex.criSkipsComments = true)
    (tok : List Byte) (dec : Decimal) (v : F) (htok : isReal tok = true ∨ isInteger tok = true)
    (hden : denoteReal tok = some dec) (hv : ops.ofDecimal dec = some v)
    (l : List Byte) (sk : Bool) (seps : List Byte) (hs : Seps seps) (d : Byte) (rest : List Byte) (hd : d = 44 ∨ d = 41) :
    readNumber ops lex (some attrDelims) (G l (tok ++ (seps ++ d :: rest)) sk) .null =
      (some v, G (seps.reverse ++ (tok.reverse ++ l)) (d :: rest) sk, .null) := by
  have hcont := seps_numCont seps hs d rest hd
  obtain ⟨f, hf1, hf2⟩ : ∃ f, numSplit (tok ++ (seps ++ d :: rest)) = (f, seps ++ d :: rest) ∧ f.text = tok := by
    rcases htok with hr | hi
    · obtain ⟨sg, ip, fp, ex, rfl, hsg, hip1, hip, hfp, hex⟩ := isReal_shape tok hr
      exact numSplit_realText sg ip fp ex _ hsg hip1 hip hfp hex hcont.real
    · obtain ⟨sg, ds, rfl, hsg, hds1, hds⟩ := isInteger_form tok hi
      have := numSplit_intText sg ds _ hsg hds1 hds hcont
      simpa using this
  obtain ⟨c, u, hcu, hcs, _, _, _, _, _⟩ := number_head tok htok
  obtain ⟨hwf, _, hscan⟩ := numSplit_spec l (tok ++ (seps ++ d :: rest))
  rw [hf1] at hwf hscan
  simp only [hf2] at hscan
  have hconv : ops.conv f.norm.text = .ok v := by
    unfold FloatOps.conv
    rw [parse_norm f hwf, hf2]
    unfold denoteReal at hden
    rw [hden]; simp only; rw [hv]
  have hrne : (seps ++ d :: rest).isEmpty = false := by
    rcases hcont with h | ⟨x, y, hxy, _⟩
    · simp at h
    · rw [hxy]; rfl
  have hcri := cri_seps lex hcfg seps hs (tok.reverse ++ l) rest d false sk Sev.null hd
  rw [hcu] at hscan hcri ⊢
  simp only [List.cons_append, readNumber, ws_good0 _ _ _ _ hcs, extractFloatText_G _ _ _ _ hcs]
  simp only [List.cons_append] at hscan
  simp only [hscan, hconv, IStream.failed, Bool.or_self, Bool.false_and, Sev.warnIf, Bool.false_eq_true, if_false, hrne,
    List.append_nil, hcri]

/-- a NUMBER attribute: any token of the `real` or of the `integer` grammar whose value converts to a double other than
    the in-band null -/
theorem attr_number (env : Env F) (strict : Bool) (a : AttrD) (hty : a.ty = .one .number) (hder : a.derived = false)
    (hcfg : env.lex.criSkipsComments = true)
    (tok : List Byte) (dec : Decimal) (v : F) (htok : isReal tok = true ∨ isInteger tok = true)
    (hden : denoteReal tok = some dec) (hv : env.ops.ofDecimal dec = some v) (hnn : env.ops.isRealNull v = false)
    (l : List Byte) (sk : Bool) (seps : List Byte) (hs : Seps seps) (d : Byte) (rest : List Byte) (hd : d = 44 ∨ d = 41) :
    attrSTEPread env strict a (G l (tok ++ (seps ++ d :: rest)) sk) =
      .ok (.null, .one (.atom (.real v)), G (seps.reverse ++ (tok.reverse ++ l)) (d :: rest) sk) := by
  have hr := readNumber_tok env.ops env.lex hcfg tok dec v htok hden hv l sk seps hs d rest hd
  obtain ⟨c, u, hcu, hcs, hc36, hc44, hc41, _, _⟩ := number_head tok htok
  unfold attrSTEPread
  rw [hcu] at hr ⊢
  simp only [List.cons_append] at hr ⊢
  rw [show (G l (c :: (u ++ (seps ++ d :: rest))) sk).ws = G l (c :: (u ++ (seps ++ d :: rest))) sk from ws_good0 l c _ sk hcs]
  simp only [bind, Except.bind, pure, Except.pure]
  rw [show (G l (c :: (u ++ (seps ++ d :: rest))) sk).peekC = (c, G l (c :: (u ++ (seps ++ d :: rest))) sk) from peekC_good l c _ sk]
  have e36 : (c == 36) = false := by simpa using hc36
  have e44 : (c == 44) = false := by simpa using hc44
  have e41 : (c == 41) = false := by simpa using hc41
  simp only [hder, Bool.false_eq_true, if_false, e36, e44, e41, Bool.or_self, hty]
  have hrS : readNumberS env.ops env.lex (some attrDelims) (G l (c :: (u ++ (seps ++ d :: rest))) sk) Sev.null =
      (some v, G (seps.reverse ++ ((c :: u).reverse ++ l)) (d :: rest) sk, Sev.null) := by
    rw [readNumberS_of _ _ _ _ _ (by rw [hr]; exact hnn), hr]
  unfold attrSTEPread.scalarNodeReadAttr
  simp only [bind, Except.bind, pure, Except.pure, hrS]
  simp [realValue, hnn, valueToAtom]

end StepModel.P21.RLemmas

import StepModel.P21.FloatRead
/-! Rational-number view of the float model (C09, final proof round): integer powers of a base as `Rat`, the bridges from the
cross-multiplied `Nat` tests of `Dbl.sigDigits` / `Dbl.ofRatio` to inequalities between rationals. -/
namespace StepModel.P21.Lemmas
open StepModel

/-- `c^x` for an integer exponent -/
def zp (c : Nat) (x : Int) : Rat := (c : Rat) ^ x

theorem natCast_pos_rat (c : Nat) (hc : 0 < c) : (0 : Rat) < (c : Rat) := by exact_mod_cast hc

theorem zp_pos (c : Nat) (hc : 0 < c) (x : Int) : 0 < zp c x := Rat.zpow_pos (natCast_pos_rat c hc)

theorem zp_add (c : Nat) (hc : 0 < c) (a b : Int) : zp c (a + b) = zp c a * zp c b := by
  have : (c : Rat) ≠ 0 := by
    have := natCast_pos_rat c hc
    intro h; rw [h] at this; exact absurd this (by decide)
  exact Rat.zpow_add this a b

theorem zp_nat (c k : Nat) : zp c (k : Int) = ((c ^ k : Nat) : Rat) := by
  unfold zp; rw [Rat.zpow_natCast]; simp

theorem zp_zero (c : Nat) : zp c 0 = 1 := by
  have := zp_nat c 0; simpa using this

theorem zp_toNat (c : Nat) (x : Int) (hx : x ≥ 0) : zp c x = ((c ^ x.toNat : Nat) : Rat) := by
  have : x = (x.toNat : Int) := by omega
  conv => lhs; rw [this]
  exact zp_nat c x.toNat

theorem zp_neg_mul (c : Nat) (hc : 0 < c) (x : Int) : zp c (-x) * zp c x = 1 := by
  rw [← zp_add c hc]
  have : -x + x = 0 := by omega
  rw [this, zp_zero]

theorem zp_neg_toNat (c : Nat) (hc : 0 < c) (x : Int) (hx : ¬ x ≥ 0) : zp c x * ((c ^ (-x).toNat : Nat) : Rat) = 1 := by
  rw [← zp_toNat c (-x) (by omega)]
  have := zp_neg_mul c hc (-x)
  simpa using this

theorem one_le_zp (c : Nat) (hc : 0 < c) (x : Int) (hx : x ≥ 0) : 1 ≤ zp c x := by
  rw [zp_toNat c x hx]
  have : 1 ≤ c ^ x.toNat := Nat.pow_pos hc
  exact_mod_cast this

theorem zp_mono (c : Nat) (hc : 0 < c) (a b : Int) (h : a ≤ b) : zp c a ≤ zp c b := by
  have e : b = a + (b - a) := by omega
  rw [e, zp_add c hc]
  have h1 := one_le_zp c hc (b - a) (by omega)
  have h2 := zp_pos c hc a
  have := Rat.mul_le_mul_of_nonneg_left h1 (Rat.le_of_lt h2)
  simpa using this

theorem zp_lt_imp (c : Nat) (hc : 0 < c) (a b : Int) (h : zp c a < zp c b) : a < b := by
  by_cases hab : a < b
  · exact hab
  · have := zp_mono c hc b a (by omega)
    exact absurd h (Rat.not_lt.mpr this)

end StepModel.P21.Lemmas

namespace StepModel.P21.Lemmas
open StepModel

/-- cancel a positive factor (the form the bridges need) -/
theorem rat_scale_le (z K a b : Rat) (hz : 0 < z) (hK : z * K = 1) : a ≤ b * K ↔ z * a ≤ b := by
  constructor
  · intro h
    have h1 := Rat.mul_le_mul_of_nonneg_left h (Rat.le_of_lt hz)
    have e : z * (b * K) = b := by
      calc z * (b * K) = b * (z * K) := by grind
        _ = b := by rw [hK]; simp
    rw [e] at h1; exact h1
  · intro h
    have hKpos : 0 < K := by
      by_cases hk : 0 < K
      · exact hk
      · exfalso
        have hk' : K ≤ 0 := Rat.not_lt.mp hk
        have : z * K ≤ z * 0 := Rat.mul_le_mul_of_nonneg_left hk' (Rat.le_of_lt hz)
        rw [hK] at this
        simp at this
        exact absurd this (by decide)
    have h1 := Rat.mul_le_mul_of_nonneg_left h (Rat.le_of_lt hKpos)
    have e : K * (z * a) = a := by
      calc K * (z * a) = a * (z * K) := by grind
        _ = a := by rw [hK]; simp
    rw [e] at h1
    calc a ≤ K * b := h1
      _ = b * K := by grind

/-- the test of `Dbl.sigDigits`, as an inequality between rationals: `10^x · d ≤ n` -/
theorem GE10_iff (n d : Nat) (x : Int) : GE10 n d x ↔ zp 10 x * (d : Rat) ≤ (n : Rat) := by
  unfold GE10
  by_cases hx : x ≥ 0
  · simp only [hx, if_true]
    rw [zp_toNat 10 x hx]
    constructor
    · intro h
      have : ((d * 10 ^ x.toNat : Nat) : Rat) ≤ (n : Rat) := by exact_mod_cast h
      calc ((10 ^ x.toNat : Nat) : Rat) * (d : Rat) = ((d * 10 ^ x.toNat : Nat) : Rat) := by push_cast; grind
        _ ≤ n := this
    · intro h
      have e : ((10 ^ x.toNat : Nat) : Rat) * (d : Rat) = ((d * 10 ^ x.toNat : Nat) : Rat) := by push_cast; grind
      rw [e] at h
      exact_mod_cast h
  · simp only [hx, if_false]
    have hK := zp_neg_toNat 10 (by decide) x hx
    have hz := zp_pos 10 (by decide) x
    have := rat_scale_le (zp 10 x) ((10 ^ (-x).toNat : Nat) : Rat) (d : Rat) (n : Rat) hz hK
    rw [← this]
    constructor
    · intro h
      have : ((d : Nat) : Rat) ≤ ((n * 10 ^ (-x).toNat : Nat) : Rat) := by exact_mod_cast h
      calc (d : Rat) ≤ ((n * 10 ^ (-x).toNat : Nat) : Rat) := this
        _ = (n : Rat) * ((10 ^ (-x).toNat : Nat) : Rat) := by push_cast; rfl
    · intro h
      have e : (n : Rat) * ((10 ^ (-x).toNat : Nat) : Rat) = ((n * 10 ^ (-x).toNat : Nat) : Rat) := by push_cast; rfl
      rw [e] at h
      exact_mod_cast h

end StepModel.P21.Lemmas

namespace StepModel.P21.Lemmas
open StepModel

theorem natCast_pow_pos (c k : Nat) (hc : 0 < c) : (0 : Rat) < ((c ^ k : Nat) : Rat) := by
  have : 0 < c ^ k := Nat.pow_pos hc
  exact_mod_cast this

/-- the scaled quotient of `Dbl.sigDigits` as a rational: `s.1 / s.2 = v / 10^sh` -/
theorem scaled_rat (n d : Nat) (hd : 0 < d) (sh : Int) (v : Rat) (hv : v * (d : Rat) = (n : Rat)) :
    ((scaled n d sh).1 : Rat) = v * zp 10 (-sh) * ((scaled n d sh).2 : Rat) ∧ (0 : Rat) < ((scaled n d sh).2 : Rat) := by
  have hdr : (0 : Rat) < (d : Rat) := natCast_pos_rat d hd
  unfold scaled
  by_cases hs : sh ≥ 0
  · simp only [hs, if_true]
    have e1 : ((d * 10 ^ sh.toNat : Nat) : Rat) = (d : Rat) * zp 10 sh := by rw [zp_toNat 10 sh hs]; push_cast; rfl
    have e2 := zp_neg_mul 10 (by decide) sh
    refine ⟨?_, ?_⟩
    · rw [e1, ← hv]
      calc v * (d : Rat) = v * (d : Rat) * (zp 10 (-sh) * zp 10 sh) := by rw [e2]; simp
        _ = v * zp 10 (-sh) * ((d : Rat) * zp 10 sh) := by grind
    · rw [e1]; exact Rat.mul_pos hdr (zp_pos 10 (by decide) sh)
  · simp only [hs, if_false]
    have e1 : ((n * 10 ^ (-sh).toNat : Nat) : Rat) = (n : Rat) * zp 10 (-sh) := by
      rw [zp_toNat 10 (-sh) (by omega)]; push_cast; rfl
    refine ⟨?_, hdr⟩
    rw [e1, ← hv]; grind

/-- **what `Dbl.sigDigits` computes**: for the rational `v = n/d > 0`, with `x` the decimal exponent of `v`
    (`10^x ≤ v < 10^(x+1)`), the result `(q, x')` denotes the decimal `D = q · 10^(x'-(p-1))`, a nearest multiple of
    `u = 10^(x-(p-1))` to `v` (`|D − v| ≤ u/2`), and `x'` is `x` or — after the carry of a round-up to `10^p` — `x + 1` -/
theorem sigDigits_spec (p n d : Nat) (hp : 1 ≤ p) (hn : 0 < n) (hd : 0 < d) (v : Rat) (hv : v * (d : Rat) = (n : Rat)) :
    ∃ x : Int, zp 10 x ≤ v ∧ v < zp 10 (x + 1) ∧
      2 * (((Dbl.sigDigits p n d).1 : Rat) * zp 10 ((Dbl.sigDigits p n d).2 - ((p : Int) - 1))) ≤ 2 * v + zp 10 (x - ((p : Int) - 1)) ∧
      2 * v ≤ 2 * (((Dbl.sigDigits p n d).1 : Rat) * zp 10 ((Dbl.sigDigits p n d).2 - ((p : Int) - 1))) + zp 10 (x - ((p : Int) - 1)) ∧
      ((Dbl.sigDigits p n d).2 = x ∨ (Dbl.sigDigits p n d).2 = x + 1) := by
  have hdr : (0 : Rat) < (d : Rat) := natCast_pos_rat d hd
  obtain ⟨g1, g2⟩ := decExp_spec n d hn hd
  rw [GE10_iff] at g1 g2
  rw [← hv] at g1 g2
  have hx1 : zp 10 (decExp n d) ≤ v := by
    have : (d : Rat) * zp 10 (decExp n d) ≤ (d : Rat) * v := by grind
    exact Rat.le_of_mul_le_mul_left this hdr
  have hx2 : v < zp 10 (decExp n d + 1) := by
    by_cases h : v < zp 10 (decExp n d + 1)
    · exact h
    · exfalso
      have h' : zp 10 (decExp n d + 1) ≤ v := Rat.not_lt.mp h
      have := Rat.mul_le_mul_of_nonneg_left h' (Rat.le_of_lt hdr)
      apply g2; grind
  refine ⟨decExp n d, hx1, hx2, ?_⟩
  -- the rounding
  obtain ⟨s1, s2pos⟩ := scaled_rat n d hd (decExp n d - ((p : Int) - 1)) v hv
  have s2posN : 0 < (scaled n d (decExp n d - ((p : Int) - 1))).2 := by exact_mod_cast s2pos
  obtain ⟨r1, r2⟩ := roundDiv_near (scaled n d (decExp n d - ((p : Int) - 1))).1 (scaled n d (decExp n d - ((p : Int) - 1))).2 s2posN
  have r1' : (2 : Rat) * ((Dbl.roundDiv (scaled n d (decExp n d - ((p : Int) - 1))).1 (scaled n d (decExp n d - ((p : Int) - 1))).2 : Rat) *
      ((scaled n d (decExp n d - ((p : Int) - 1))).2 : Rat)) ≤
      2 * ((scaled n d (decExp n d - ((p : Int) - 1))).1 : Rat) + ((scaled n d (decExp n d - ((p : Int) - 1))).2 : Rat) := by
    exact_mod_cast r1
  have r2' : (2 : Rat) * ((scaled n d (decExp n d - ((p : Int) - 1))).1 : Rat) ≤
      2 * ((Dbl.roundDiv (scaled n d (decExp n d - ((p : Int) - 1))).1 (scaled n d (decExp n d - ((p : Int) - 1))).2 : Rat) *
        ((scaled n d (decExp n d - ((p : Int) - 1))).2 : Rat)) + ((scaled n d (decExp n d - ((p : Int) - 1))).2 : Rat) := by
    exact_mod_cast r2
  rw [s1] at r1' r2'
  generalize hq0 : Dbl.roundDiv (scaled n d (decExp n d - ((p : Int) - 1))).1 (scaled n d (decExp n d - ((p : Int) - 1))).2 = q0 at r1' r2'
  generalize ((scaled n d (decExp n d - ((p : Int) - 1))).2 : Rat) = S at r1' r2' s2pos
  generalize hsh : decExp n d - ((p : Int) - 1) = sh at *
  have hu := zp_pos 10 (by decide) sh
  have hinv := zp_neg_mul 10 (by decide) sh
  -- cancel S, then scale by 10^sh
  have c1 : 2 * (q0 : Rat) ≤ 2 * (v * zp 10 (-sh)) + 1 := by
    have : S * (2 * (q0 : Rat)) ≤ S * (2 * (v * zp 10 (-sh)) + 1) := by grind
    exact Rat.le_of_mul_le_mul_left this s2pos
  have c2 : 2 * (v * zp 10 (-sh)) ≤ 2 * (q0 : Rat) + 1 := by
    have : S * (2 * (v * zp 10 (-sh))) ≤ S * (2 * (q0 : Rat) + 1) := by grind
    exact Rat.le_of_mul_le_mul_left this s2pos
  have d1 : 2 * ((q0 : Rat) * zp 10 sh) ≤ 2 * v + zp 10 sh := by
    have := Rat.mul_le_mul_of_nonneg_left c1 (Rat.le_of_lt hu)
    have e : zp 10 sh * (2 * (v * zp 10 (-sh)) + 1) = 2 * v * (zp 10 (-sh) * zp 10 sh) + zp 10 sh := by grind
    rw [e, hinv] at this
    grind
  have d2 : 2 * v ≤ 2 * ((q0 : Rat) * zp 10 sh) + zp 10 sh := by
    have := Rat.mul_le_mul_of_nonneg_left c2 (Rat.le_of_lt hu)
    have e : zp 10 sh * (2 * (v * zp 10 (-sh))) = 2 * v * (zp 10 (-sh) * zp 10 sh) := by grind
    rw [e, hinv] at this
    grind
  -- the carry
  rw [sigDigits_eq, hsh, hq0]
  split
  · rename_i hc
    have hc' : q0 = 10 ^ p := by simpa using hc
    have e10 : ((10 ^ (p - 1) : Nat) : Rat) * zp 10 (decExp n d + 1 - ((p : Int) - 1)) = (q0 : Rat) * zp 10 sh := by
      have e1 : decExp n d + 1 - ((p : Int) - 1) = sh + 1 := by omega
      rw [e1, zp_add 10 (by decide), hc']
      have e2 : zp 10 1 = ((10 ^ 1 : Nat) : Rat) := zp_nat 10 1
      have e3 : ((10 ^ p : Nat) : Rat) = ((10 ^ (p - 1) : Nat) : Rat) * ((10 ^ 1 : Nat) : Rat) := by
        have : 10 ^ p = 10 ^ (p - 1) * 10 ^ 1 := by rw [← Nat.pow_add]; congr 1; omega
        rw [this]; push_cast; rfl
      rw [e2, e3]; grind
    simp only []
    rw [e10]
    refine ⟨d1, d2, ?_⟩
    simp
  · simp only []
    rw [hsh]
    refine ⟨d1, d2, ?_⟩
    simp

end StepModel.P21.Lemmas

import StepModel.P21.Lex
/-!
# `P21.Grammar` — the ISO 10303-21:2002 token grammar per simple attribute kind (spec side of C09)

Transcribed from `doc/iso-10303-21--2002.bnf` (the extractor re-reads the productions used here and fails when
they change):

    integer = [ sign ] digit { digit } .
    real    = [ sign ] digit { digit } '.' { digit } [ 'E' [ sign ] digit { digit } ] .
    binary  = '"' ( '0' | '1' | '2' | '3' ) { hex } '"' .
    enumeration = '.' upper { upper | digit } '.' .            (upper includes '_')
    entity_instance_name = '#' digit { digit } .
    string  = '''' { non_q_char | apostrophe apostrophe | reverse_solidus reverse_solidus | control_directive } '''' .

Recognisers are executable `Bool` functions; denotations give the value a token stands for.  `Lenient` tokens are
outside the grammar but evidently spell a value (letter case, missing decimal point, …): the property allows the
reader to accept them with that value *or* to report an error.
-/
namespace StepModel.P21.Grammar

open StepModel StepModel.P21

def isSign (b : Byte) : Bool := b == 43 || b == 45
/-- `upper` of the BNF: `A`..`Z` and `_` -/
def isUpperP21 (b : Byte) : Bool := isUpper b || b == 95
/-- `hex` of the BNF: digits and `A`..`F` -/
def isHexP21 (b : Byte) : Bool := isDigit b || (65 ≤ b && b ≤ 70)

def allDigits (l : List Byte) : Bool := l.all isDigit

/-- strip an optional sign: (negative, rest) -/
def splitSign : List Byte → Bool × List Byte
  | 45 :: r => (true, r)
  | 43 :: r => (false, r)
  | l => (false, l)

/-! ## integer -/
/-- `integer = [ sign ] digit { digit }` -/
def isInteger (t : List Byte) : Bool :=
  let ds := (splitSign t).2
  !ds.isEmpty && allDigits ds

/-- the integer a token of `isInteger` denotes -/
def denoteInteger (t : List Byte) : Int :=
  let p := splitSign t
  let n : Int := digitsVal p.2 0
  if p.1 then -n else n

/-! ## real -/
/-- `real = [ sign ] digit { digit } '.' { digit } [ 'E' [ sign ] digit { digit } ]` -/
def isReal (t : List Byte) : Bool :=
  let t1 := (splitSign t).2
  let (ip, t2) := takeDigits t1
  if ip.isEmpty then false
  else match t2 with
    | 46 :: t3 =>
      let (_, t4) := takeDigits t3
      match t4 with
      | [] => true
      | 69 :: t5 =>
        let ed := (splitSign t5).2
        !ed.isEmpty && allDigits ed
      | _ => false
    | _ => false

/-- the decimal a token of `isReal` (or any text `strtod` converts completely) denotes -/
def denoteReal (t : List Byte) : Option Decimal := parseFloatText t

/-! ## binary -/
/-- `binary = '"' ( '0' | '1' | '2' | '3' ) { hex } '"'`; the denotation is the digit string between the quotes -/
def binaryBody (t : List Byte) : Option (List Byte) :=
  match t with
  | 34 :: r =>
    match r.reverse with
    | 34 :: br => some br.reverse
    | _ => none
  | _ => none

def isBinary (t : List Byte) : Bool :=
  match binaryBody t with
  | some (d :: hs) => (48 ≤ d && d ≤ 51) && hs.all isHexP21
  | _ => false

/-- lenient: any non-empty run of hexadecimal digits (either case) between the quotes -/
def isBinaryLenient (t : List Byte) : Bool :=
  match binaryBody t with
  | some (d :: hs) => (d :: hs).all isXDigit
  | _ => false

/-! ## enumeration -/
/-- `enumeration = '.' upper { upper | digit } '.'`; the denotation is the name between the dots -/
def enumBody (t : List Byte) : Option (List Byte) :=
  match t with
  | 46 :: r =>
    match r.reverse with
    | 46 :: br => some br.reverse
    | _ => none
  | _ => none

def isEnumName (n : List Byte) : Bool :=
  match n with
  | c :: cs => isUpperP21 c && cs.all (fun b => isUpperP21 b || isDigit b)
  | [] => false

/-- lenient: letters of either case -/
def isEnumNameLenient (n : List Byte) : Bool :=
  match n with
  | c :: cs => (isAlpha c || c == 95) && cs.all (fun b => isAlnum b || b == 95)
  | [] => false

/-- the legal item names of a kind, in index order; `none` entries are indices that are not values -/
def legalNames : EnumKind → List (Option (List Byte))
  | .enum items => items.map some
  | .boolean => [some bF, some bT]
  | .logical => [some bF, some bT, none, some bU]

def lookupLegal (k : EnumKind) (n : List Byte) : Option Nat :=
  let tbl := legalNames k
  let i := tbl.findIdx (· == some n)
  if i < tbl.length then some i else none

/-! ## entity reference -/
/-- `entity_instance_name = '#' digit { digit }` -/
def isRef (t : List Byte) : Bool :=
  match t with
  | 35 :: ds => !ds.isEmpty && allDigits ds
  | _ => false

def denoteRef (t : List Byte) : Int := digitsVal (t.drop 1) 0

/-- representability guard for entity references: the library keeps instance ids in an `int`; an id outside that range cannot
    name an instance and must raise an error — it must never resolve (e.g. by wrapping modulo 2^32) -/
def refRepresentable (id : Int) : Bool := IStream.intMin ≤ id && id ≤ IStream.intMax

/-- lenient: `#`, optional blanks, optional sign, digits (what `in >> int` accepts with `skipws`) -/
def refLenient (t : List Byte) : Option Int :=
  match t with
  | 35 :: r =>
    let r1 := r.dropWhile isSpace
    let p := splitSign r1
    if !p.2.isEmpty && allDigits p.2 then
      let n : Int := digitsVal p.2 0
      some (if p.1 then -n else n)
    else none
  | _ => none

/-! ## string -/
/-- `non_q_char = special | digit | space | lower | upper` -/
def isSpecial (b : Byte) : Bool :=
  [33, 34, 42, 36, 37, 38, 46, 35, 43, 44, 45, 40, 41, 63, 47, 58, 59, 60, 61, 62, 64, 91, 93, 123, 124, 125, 94, 96, 126].contains b
def isNonQ (b : Byte) : Bool := isSpecial b || isDigit b || b == 32 || isLower b || isUpperP21 b
/-- `character = space | digit | lower | upper | special | reverse_solidus | apostrophe` -/
def isCharacter (b : Byte) : Bool := isNonQ b || b == 92 || b == 39

/-- hex pairs up to the closing `\X0\`; `n` = digits per unit (4 for `\X2\`, 8 for `\X4\`) -/
def hexRun (n : Nat) : Nat → List Byte → Option (List Byte)
  | 0, _ => none
  | fuel + 1, l =>
    match l with
    | 92 :: 88 :: 48 :: 92 :: r => some r
    | _ =>
      let u := l.take n
      if u.length == n && u.all isHexP21 then
        match l.drop n with
        | 92 :: 88 :: 48 :: 92 :: r => some r
        | r => hexRun n fuel r
      else none

/-- body of a string after the opening apostrophe; `some rest` after the closing apostrophe -/
def stringBody : Nat → List Byte → Option (List Byte)
  | 0, _ => none
  | fuel + 1, l =>
    match l with
    | 39 :: 39 :: r => stringBody fuel r
    | 39 :: r => some r
    | 92 :: 92 :: r => stringBody fuel r
    | 92 :: 83 :: 92 :: c :: r => if isCharacter c then stringBody fuel r else none          -- page
    | 92 :: 80 :: u :: 92 :: r => if isUpperP21 u then stringBody fuel r else none          -- alphabet
    | 92 :: 88 :: 92 :: h1 :: h2 :: r => if isHexP21 h1 && isHexP21 h2 then stringBody fuel r else none  -- arbitrary
    | 92 :: 88 :: 50 :: 92 :: r =>                                                          -- extended2
      match hexRun 4 (r.length + 1) r with
      | some r' => if r'.length < r.length then stringBody fuel r' else none
      | none => none
    | 92 :: 88 :: 52 :: 92 :: r =>                                                          -- extended4
      match hexRun 8 (r.length + 1) r with
      | some r' => if r'.length < r.length then stringBody fuel r' else none
      | none => none
    | c :: r => if isNonQ c then stringBody fuel r else none
    | [] => none

/-- `string = '''' { … } ''''` (the whole token) -/
def isString (t : List Byte) : Bool :=
  match t with
  | 39 :: r => stringBody (r.length + 1) r == some []
  | _ => false

/-- the body of a string (between the apostrophes) as a sequence of the grammar's units — the declarative reading of the
    `string` production that `isString` decides -/
inductive StringBody : List Byte → Prop where
  | nil : StringBody []
  | nonq {c : Byte} {m : List Byte} : isNonQ c = true → StringBody m → StringBody (c :: m)
  | apos {m : List Byte} : StringBody m → StringBody (39 :: 39 :: m)
  | backslash {m : List Byte} : StringBody m → StringBody (92 :: 92 :: m)
  | page {c : Byte} {m : List Byte} : isCharacter c = true → StringBody m → StringBody (92 :: 83 :: 92 :: c :: m)
  | alphabet {u : Byte} {m : List Byte} : isUpperP21 u = true → StringBody m → StringBody (92 :: 80 :: u :: 92 :: m)
  | arbitrary {h1 h2 : Byte} {m : List Byte} : isHexP21 h1 = true → isHexP21 h2 = true → StringBody m →
      StringBody (92 :: 88 :: 92 :: h1 :: h2 :: m)
  | extended {w : Byte} {hs m : List Byte} : w = 50 ∨ w = 52 → hs.all isHexP21 = true → StringBody m →
      StringBody (92 :: 88 :: w :: 92 :: (hs ++ 92 :: 88 :: 48 :: 92 :: m))

/-- lenient: any text between two apostrophes.  stepcode keeps string values in their *encoded* form (the literal
    itself, quotes included) and never decodes control directives, so such a token evidently spells itself. -/
def isStringLenient (t : List Byte) : Bool :=
  match t with
  | 39 :: r => r.getLast? == some 39
  | _ => false

/-! ## layout between a value and its delimiter -/

/-- the body of a comment does not contain its own closing `*/` (`prev` = the character before, 0 at the start) -/
def noClose : Byte → List Byte → Bool
  | _, [] => true
  | prev, c :: t => !(prev == 42 && c == 47) && noClose c t

/-- blanks and Part 21 comments `/* body */` whose body does not contain `*/` (so a comment ends at its first `*/`: what
    follows is outside it); the only other shape is a *last* comment that is never closed — its text contains no `*/` at all
    and runs to the end of the input (`SkipTokenSeparators` has no length bound, unlike `ReadComment`) -/
inductive Layout : List Byte → Prop where
  | nil : Layout []
  | blank {c : Byte} {m : List Byte} : isSpace c = true → Layout m → Layout (c :: m)
  | comment {body m : List Byte} : noClose 0 body = true → Layout m → Layout (47 :: 42 :: (body ++ 42 :: 47 :: m))
  | unterminated {body : List Byte} : noClose 0 body = true → Layout (47 :: 42 :: body)

/-- layout in its unambiguous reading: blanks and comments `/* body */` whose body does not contain `*/` -/
inductive ExactLayout : List Byte → Prop where
  | nil : ExactLayout []
  | blank {c : Byte} {m : List Byte} : isSpace c = true → ExactLayout m → ExactLayout (c :: m)
  | comment {body m : List Byte} : noClose 0 body = true → ExactLayout m → ExactLayout (47 :: 42 :: (body ++ 42 :: 47 :: m))

/-- the delimiter contexts of the property: what may stand between a token and its delimiter — blanks, and comments when the
    scanner configuration skips them in `CheckRemainingInput` -/
def Gap (cfg : LexCfg) (sp : List Byte) : Prop :=
  if cfg.criSkipsComments then ExactLayout sp else sp.all isSpace = true

/-- what may stand between a value and the delimiter, for the scanner configuration at hand: blanks, and comments when
    `CheckRemainingInput` skips them -/
def Between (cfg : LexCfg) (m : List Byte) : Prop :=
  if cfg.criSkipsComments then Layout m else m.all isSpace = true

/-! ## classification used by the oracle -/

/-- verdict of the grammar on a token -/
inductive Verdict (F : Type) where
  | grammar (v : Value F)     -- in the grammar and representable: must be accepted with exactly this value, no error
  | lenient (v : Value F)     -- outside the grammar, evidently spells `v`: accept with `v`, or report an error
  | reject                    -- outside the grammar / not representable / dangling reference: an error is required

/-- the verdict for a token of kind `k` (`lookup` resolves entity references) -/
def classify {F} (ops : FloatOps F) (lookup : Int → RefLookup) (k : Kind) (t : List Byte) : Verdict F :=
  match k with
  | .integer =>
    if isInteger t then
      let v := denoteInteger t
      -- LONG_MAX is reserved by the implementation as the in-band "unset": not representable, to be reported
      if IStream.longMin ≤ v && v < IStream.longMax then .grammar (.int v) else .reject
    else .reject
  | .real =>
    match denoteReal t with
    | some d =>
      match ops.ofDecimal d with
      | some v =>
        -- (double)FLT_MIN is reserved as the in-band "unset": not representable, to be reported
        if ops.isRealNull v then .reject else if isReal t then .grammar (.real v) else .lenient (.real v)
      | none => .reject
    | none => .reject
  | .number =>
    match denoteReal t with
    | some d =>
      match ops.ofDecimal d with
      | some v =>
        if ops.isRealNull v then .reject else if isReal t || isInteger t then .grammar (.real v) else .lenient (.real v)
      | none => .reject
    | none => .reject
  | .string => if isString t then .grammar (.str t) else if isStringLenient t then .lenient (.str t) else .reject
  | .binary =>
    match binaryBody t with
    | some b => if isBinary t then .grammar (.bin b) else if isBinaryLenient t then .lenient (.bin b) else .reject
    | none => .reject
  | .ref =>
    match refLenient t with
    | some id =>
      if refRepresentable id && lookup id == .found then
        (if isRef t then .grammar (.ref id) else .lenient (.ref id))
      else .reject
    | none => .reject
  | _ =>
    match enumBody t with
    | some n =>
      match lookupLegal k.enumKind (n.map toUpper) with
      | some i => if isEnumName n then .grammar (.enum i) else if isEnumNameLenient n then .lenient (.enum i) else .reject
      | none => .reject
    | none => .reject

end StepModel.P21.Grammar

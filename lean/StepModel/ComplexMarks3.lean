import StepModel.ComplexMarks2
/-! `acceptChoice` places ORMARKs on unmarked members only, inside lists with `viable ≥ MATCHSOME`, and leaves an
OrList's marks in its new `choice` child. -/
namespace StepModel.Complex.Match
open StepModel.Generated StepModel.Complex

/-- `viable ≥ SATISFIED` by rank -/
def Kr (v : MT) : Prop := MT.rank .sat ≤ v.rank

/-- the children of a list with `viable ≥ SATISFIED` either hold nothing or are themselves `≥ SATISFIED` -/
def KC (cs : List ST) : Prop := ∀ ch ∈ cs, holds ch = [] ∨ Kr ch.viable

/-- UNSATISFIED children (of an AndOrList / OrList) hold nothing: they were unmarked -/
def UC (cs : List ST) : Prop := ∀ ch ∈ cs, ch.viable = .unsat → holds ch = []

mutual
  /-- structural invariant: OrLists keep their marks in the `choice` child; below a list that counts, only lists that
  count hold marks -/
  def Tidy : ST → Prop
    | .simple .. => True
    | .mult j v c _ _ cs => TidyL cs ∧ (Kr v → KC cs) ∧ (j ≠ .and → UC cs) ∧
        (j = .or → ∀ i ch, cs[i]? = some ch → inRange c cs.length ≠ some i → holds ch = [])
  def TidyL : List ST → Prop
    | [] => True
    | c :: cs => Tidy c ∧ TidyL cs
end

mutual
  /-- ready for `acceptChoice`: the OrLists reachable through `viable ≥ MATCHSOME` children hold nothing -/
  def Idle : ST → Prop
    | .simple .. => True
    | .mult .or _ _ _ _ cs => holdsL cs = []
    | .mult .and _ _ _ _ cs => IdleL cs
    | .mult .andor _ _ _ _ cs => IdleL cs
  def IdleL : List ST → Prop
    | [] => True
    | c :: cs => (c.atLeastSome = true → Idle c) ∧ IdleL cs
end

theorem TidyL_iff (cs : List ST) : TidyL cs ↔ ∀ c ∈ cs, Tidy c := by
  induction cs with
  | nil => simp [TidyL]
  | cons a l ih => simp [TidyL, ih]

mutual
  theorem Tidy_of_H0 : ∀ (t : ST), holds t = [] → Tidy t
    | .simple .., _ => trivial
    | .mult _ _ _ _ _ cs, h => by
      simp only [holds] at h
      simp only [Tidy]
      exact ⟨TidyL_of_H0 cs h, fun _ ch hch => Or.inl ((holdsL_nil_iff cs).mp h ch hch),
        fun _ ch hch _ => (holdsL_nil_iff cs).mp h ch hch,
        fun _ i ch hch _ => (holdsL_nil_iff cs).mp h ch (List.mem_of_getElem? hch)⟩
  theorem TidyL_of_H0 : ∀ (cs : List ST), holdsL cs = [] → TidyL cs
    | [], _ => trivial
    | c :: cs, h => by
      simp only [holdsL, List.append_eq_nil_iff] at h
      exact ⟨Tidy_of_H0 c h.1, TidyL_of_H0 cs h.2⟩
end

mutual
  theorem Idle_of_H0 : ∀ (t : ST), holds t = [] → Idle t
    | .simple .., _ => trivial
    | .mult .or _ _ _ _ cs, h => by simp only [holds] at h; simp only [Idle]; exact h
    | .mult .and _ _ _ _ cs, h => by simp only [holds] at h; simp only [Idle]; exact IdleL_of_H0 cs h
    | .mult .andor _ _ _ _ cs, h => by simp only [holds] at h; simp only [Idle]; exact IdleL_of_H0 cs h
  theorem IdleL_of_H0 : ∀ (cs : List ST), holdsL cs = [] → IdleL cs
    | [], _ => trivial
    | c :: cs, h => by
      simp only [holdsL, List.append_eq_nil_iff] at h
      exact ⟨fun _ => Idle_of_H0 c h.1, IdleL_of_H0 cs h.2⟩
end

mutual
  theorem OrT_of_Tidy : ∀ (t : ST), Tidy t → OrT t
    | .simple .., _ => trivial
    | .mult _ _ _ _ _ cs, h => by
      simp only [Tidy] at h
      simp only [OrT]
      exact ⟨OrTL_of_TidyL cs h.1, h.2.2.2⟩
  theorem OrTL_of_TidyL : ∀ (cs : List ST), TidyL cs → OrTL cs
    | [], _ => trivial
    | c :: cs, h => by
      simp only [TidyL] at h
      exact ⟨OrT_of_Tidy c h.1, OrTL_of_TidyL cs h.2⟩
end

theorem inRange_cast {j n : Nat} (h : j < n) : inRange (j : Int) n = some j := by
  unfold inRange
  have : (0 : Int) ≤ (j : Int) ∧ (j : Int) < (n : Int) := ⟨Int.natCast_nonneg j, by exact_mod_cast h⟩
  simp [this]

theorem Kr_of_atLeastSome {t : ST} (h : t.atLeastSome = true) : Kr t.viable := by
  simp only [ST.atLeastSome, decide_eq_true_eq] at h
  unfold Kr
  have : MT.rank .sat ≤ MT.rank .some_ := by decide
  omega

structure MAPost (o : Name → Nat) (t : ST) (es : Ents) (r : ST × Ents × Bool) : Prop where
  fr : Fr o r.1 r.2.1
  same : SameOut o es r.2.1
  tidy : Tidy r.1
  noop : r.2.2 = false → holds r.1 = holds t ∧ ∀ x, markAt r.2.1 x = markAt es x

structure MAPostL (o : Name → Nat) (cs : List ST) (es : Ents) (r : List ST × Ents × Bool) : Prop where
  fr : FrL o r.1 r.2.1
  same : SameOut o es r.2.1
  tidy : TidyL r.1
  kc : KC cs → KC r.1
  uc : UC cs → UC r.1
  noop : r.2.2 = false → holdsL r.1 = holdsL cs ∧ ∀ x, markAt r.2.1 x = markAt es x

structure MAPostO (o : Name → Nat) (es : Ents) (r : List ST × Ents × Option Nat) : Prop where
  fr : FrL o r.1 r.2.1
  same : SameOut o es r.2.1
  tidy : TidyL r.1
  kc : KC r.1
  uc : UC r.1
  some_ : ∀ j, r.2.2 = some j → j < r.1.length ∧ ∀ p c, r.1[p]? = some c → p ≠ j → holds c = []
  none_ : r.2.2 = none → holdsL r.1 = [] ∧ ∀ x, markAt r.2.1 x = markAt es x

theorem accept_marks (N : List Name) (hN : N.Pairwise (· < ·)) : ∀ f : Nat,
    (∀ t es r o, acceptChoice f t es = .ok r → names es = N → Fr o t es → Tidy t → Idle t →
      (t.isSimple = true → t.atLeastSome = true) → MAPost o t es r) ∧
    (∀ cs es r o, acceptJoin f cs es = .ok r → names es = N → FrL o cs es → TidyL cs → IdleL cs → MAPostL o cs es r) ∧
    (∀ cs i es r o, acceptOr f cs i es = .ok r → names es = N → FrL o cs es → TidyL cs → holdsL cs = [] →
      MAPostO o es r) := by
  intro f
  induction f with
  | zero =>
    exact ⟨fun _ _ _ _ h => by simp [acceptChoice] at h, fun _ _ _ _ h => by simp [acceptJoin] at h,
      fun _ _ _ _ _ h => by simp [acceptOr] at h⟩
  | succ f ih =>
    obtain ⟨ih1, ih2, ih3⟩ := ih
    refine ⟨?_, ?_, ?_⟩
    · intro t es r o h hnm hfr htidy hidle hsim
      have hnd : (names es).Nodup := by rw [hnm]; exact nodup_of_sorted hN
      cases t with
      | simple n v im =>
        obtain ⟨hc, hl⟩ := hfr
        have hv : MT.rank .some_ ≤ v.rank := by
          have := hsim rfl
          exact of_decide_eq_true this
        simp only [acceptChoice, simpleAccept] at h
        cases h
        have hnoop : MAPost o (.simple n v im) es (.simple n v im, es, false) :=
          ⟨⟨hc, hl⟩, fun _ _ => rfl, trivial, fun _ => ⟨rfl, fun _ => rfl⟩⟩
        cases hf : findEq n es 0 with
        | none => simp only [hf]; exact hnoop
        | some i =>
          simp only [hf]
          obtain ⟨_, e, he, hen⟩ := findEq_bound n es 0 i hf
          simp only [Nat.sub_zero] at he
          simp only [he]
          split
          · rename_i hm
            have hman : markAt es n = .no := by rw [← hen, markAt_get es i e hnd he]; exact hm
            have h0 := hc n
            rw [hman] at h0
            simp only [if_true] at h0
            have hon : o n = 0 := by omega
            have him : im = .no := by
              apply Classical.byContradiction
              intro hne
              have : cnt n (ST.simple n v im) = 1 := by simp [cnt, holds, hne]
              omega
            subst him
            refine ⟨⟨fun x => ?_, ?_⟩, fun x hx => ?_, trivial, fun h' => by cases h'⟩
            · rw [markAt_setMark hnd he, hen]
              by_cases hx : x = n
              · subst hx; simp [cnt, holds, hon]
              · simp only [hx, if_false]
                have := hc x
                have h1 : cnt x (ST.simple n v .no) = 0 := by simp [cnt, holds]
                have h2 : cnt x (ST.simple n v .orm) = 0 := by
                  simp only [cnt, holds]; exact List.count_eq_zero_of_not_mem (by simp [hx])
                rw [h1] at this; rw [h2]; exact this
            · simp only [Loc]
              intro _
              refine ⟨?_, hv⟩
              rw [markAt_setMark hnd he, hen]; simp
            · rw [markAt_setMark hnd he, hen]
              have : x ≠ n := by intro e'; rw [e', hon] at hx; exact Nat.lt_irrefl _ hx
              simp [this]
          · exact hnoop
      | mult j v c c1 k cs =>
        obtain ⟨hc, hl⟩ := hfr
        simp only [Loc] at hl
        simp only [Tidy] at htidy
        obtain ⟨htl, hkc, huc, hor⟩ := htidy
        cases j with
        | or =>
          simp only [Idle] at hidle
          simp only [acceptChoice] at h
          have hnone : MAPost o (.mult .or v c c1 k cs) es (.mult .or v listEnd c1 k cs, es, false) := by
            refine ⟨⟨hc, hl⟩, fun _ _ => rfl, ?_, fun _ => ⟨rfl, fun _ => rfl⟩⟩
            simp only [Tidy]
            exact ⟨htl, hkc, huc, fun _ i ch hch _ => (holdsL_nil_iff cs).mp hidle ch (List.mem_of_getElem? hch)⟩
          split at h
          · cases h; exact hnone
          · rename_i i hir
            obtain ⟨⟨cs', es', res⟩, h1, h2⟩ := bind_ok' h
            have P := ih3 cs i es _ o h1 hnm ⟨hc, hl⟩ htl hidle
            cases res with
            | none =>
              cases h2
              obtain ⟨p1, p2⟩ := P.none_ rfl
              refine ⟨⟨P.fr.1, P.fr.2⟩, P.same, ?_, fun _ => ⟨by simp only [holds]; rw [p1, hidle], p2⟩⟩
              simp only [Tidy]
              exact ⟨P.tidy, fun _ => P.kc, fun _ => P.uc, fun _ i ch hch _ => (holdsL_nil_iff cs').mp p1 ch (List.mem_of_getElem? hch)⟩
            | some j =>
              cases h2
              obtain ⟨p1, p2⟩ := P.some_ j rfl
              refine ⟨⟨P.fr.1, P.fr.2⟩, P.same, ?_, fun h' => by cases h'⟩
              simp only [Tidy]
              refine ⟨P.tidy, fun _ => P.kc, fun _ => P.uc, fun _ p ch hch hne => p2 p ch hch ?_⟩
              intro e; subst e; exact hne (inRange_cast p1)
        | and =>
          simp only [Idle] at hidle
          simp only [acceptChoice] at h
          obtain ⟨⟨cs', es', res⟩, h1, h2⟩ := bind_ok' h
          cases h2
          have P := ih2 cs es _ o h1 hnm ⟨hc, hl⟩ htl hidle
          refine ⟨⟨P.fr.1, P.fr.2⟩, P.same, ?_, fun h' => ?_⟩
          · simp only [Tidy]
            exact ⟨P.tidy, fun hk => P.kc (hkc hk), fun hj => P.uc (huc hj), fun h' => by cases h'⟩
          · obtain ⟨a, b⟩ := P.noop h'
            exact ⟨by simp only [holds]; exact a, b⟩
        | andor =>
          simp only [Idle] at hidle
          simp only [acceptChoice] at h
          obtain ⟨⟨cs', es', res⟩, h1, h2⟩ := bind_ok' h
          cases h2
          have P := ih2 cs es _ o h1 hnm ⟨hc, hl⟩ htl hidle
          refine ⟨⟨P.fr.1, P.fr.2⟩, P.same, ?_, fun h' => ?_⟩
          · simp only [Tidy]
            exact ⟨P.tidy, fun hk => P.kc (hkc hk), fun hj => P.uc (huc hj), fun h' => by cases h'⟩
          · obtain ⟨a, b⟩ := P.noop h'
            exact ⟨by simp only [holds]; exact a, b⟩
    -- ---------------------------------------------------------- JoinList::acceptChoice
    · intro cs es r o h hnm hfr htidy hidle
      cases cs with
      | nil =>
        simp only [acceptJoin] at h; cases h
        exact ⟨hfr, fun _ _ => rfl, trivial, fun h' => h', fun h' => h', fun _ => ⟨rfl, fun _ => rfl⟩⟩
      | cons ch rest =>
        obtain ⟨hc, hl⟩ := hfr
        simp only [LocL] at hl
        simp only [TidyL] at htidy
        simp only [IdleL] at hidle
        simp only [acceptJoin] at h
        obtain ⟨⟨ch', es1, r1⟩, h1, h2⟩ := ite_bind_ok h
        obtain ⟨⟨rest', es2, r2⟩, h3, h4⟩ := bind_ok' h2
        cases h4
        have hfrc : Fr (fun n => o n + cntL n rest) ch es := by
          refine ⟨fun x => ?_, hl.1⟩
          have := hc x
          rw [cntL_cons] at this
          show o x + cntL x rest + cnt x ch = _
          omega
        -- the step on the first child
        have A : Fr (fun n => o n + cntL n rest) ch' es1 ∧ SameOut (fun n => o n + cntL n rest) es es1 ∧ Tidy ch' ∧
            names es1 = N ∧ (holds ch' = [] ∨ Kr ch'.viable → True) ∧
            ((holds ch = [] ∨ Kr ch.viable) → (holds ch' = [] ∨ Kr ch'.viable)) ∧
            ((ch.viable = .unsat → holds ch = []) → (ch'.viable = .unsat → holds ch' = [])) ∧
            (r1 = false → holds ch' = holds ch ∧ ∀ x, markAt es1 x = markAt es x) := by
          split at h1
          · rename_i hal
            have P := ih1 ch es _ _ h1 hnm hfrc htidy.1 (hidle.1 hal) (fun _ => hal)
            have hsk := (accept_skel f).1 ch es _ h1
            have hkr : Kr ch'.viable := by rw [viable_of_skel hsk]; exact Kr_of_atLeastSome hal
            refine ⟨P.fr, P.same, P.tidy, by rw [(accept_names f).1 ch es _ h1]; exact hnm, fun _ => trivial,
              fun _ => Or.inr hkr, fun _ hu => ?_, P.noop⟩
            rw [hu] at hkr; simp [Kr, MT.rank] at hkr
          · cases h1
            exact ⟨hfrc, fun _ _ => rfl, htidy.1, hnm, fun _ => trivial, fun h' => h', fun h' => h', fun _ => ⟨rfl, fun _ => rfl⟩⟩
        obtain ⟨a1, a2, a3, a4, _, a6, a6', a7⟩ := A
        have hfrr : FrL (fun n => o n + cnt n ch') rest es1 := by
          refine ⟨fun x => ?_, LocL_congr rest (fun x hx => a2 x (by show 0 < o x + cntL x rest; omega)) hl.2⟩
          have h' : o x + cntL x rest + cnt x ch' = (if markAt es1 x = Mark.no then 0 else 1) := a1.1 x
          show o x + cnt x ch' + cntL x rest = _
          omega
        have Q := ih2 rest es1 _ _ h3 a4 hfrr htidy.2 hidle.2
        refine ⟨⟨fun x => ?_, ?_⟩, fun x hx => ?_, ⟨a3, Q.tidy⟩, fun hk => ?_, fun hk => ?_, fun hb => ?_⟩
        · have h' : o x + cnt x ch' + cntL x rest' = (if markAt es2 x = Mark.no then 0 else 1) := Q.fr.1 x
          show o x + cntL x (ch' :: rest') = (if markAt es2 x = Mark.no then 0 else 1)
          rw [cntL_cons]
          omega
        · simp only [LocL]
          exact ⟨Loc_congr ch' (fun x hx => Q.same x (by show 0 < o x + cnt x ch'; omega)) a1.2, Q.fr.2⟩
        · rw [Q.same x (by show 0 < o x + cnt x ch'; omega)]
          exact a2 x (by show 0 < o x + cntL x rest; omega)
        · intro c0 hc0
          rcases List.mem_cons.mp hc0 with e | e
          · rw [e]; exact a6 (hk ch (by simp))
          · exact Q.kc (fun c1 hc1 => hk c1 (List.mem_cons_of_mem _ hc1)) c0 e
        · intro c0 hc0
          rcases List.mem_cons.mp hc0 with e | e
          · rw [e]; exact a6' (hk ch (by simp))
          · exact Q.uc (fun c1 hc1 => hk c1 (List.mem_cons_of_mem _ hc1)) c0 e
        · simp only [Bool.or_eq_false_iff] at hb
          obtain ⟨b1, b2⟩ := a7 hb.1
          obtain ⟨b3, b4⟩ := Q.noop hb.2
          exact ⟨by simp only [holdsL]; rw [b1, b3], fun x => by rw [b4 x, b2 x]⟩
    -- ---------------------------------------------------------- OrList::acceptChoice, the loop
    · intro cs i es r o h hnm hfr htidy h0
      obtain ⟨hc, hl⟩ := hfr
      have hco : ∀ x, o x = if markAt es x = .no then 0 else 1 := by
        intro x; have := hc x; simpa [cntL, h0] using this
      have hkc0 : KC cs := fun ch hch => Or.inl ((holdsL_nil_iff cs).mp h0 ch hch)
      have huc0 : UC cs := fun ch hch _ => (holdsL_nil_iff cs).mp h0 ch hch
      simp only [acceptOr] at h
      split at h
      · cases h
        exact ⟨⟨hc, hl⟩, fun _ _ => rfl, htidy, hkc0, huc0, (fun j hj => by cases hj), fun _ => ⟨h0, fun _ => rfl⟩⟩
      · rename_i ch hch
        have hchm : ch ∈ cs := List.mem_of_getElem? hch
        have hch0 : holds ch = [] := (holdsL_nil_iff cs).mp h0 ch hchm
        split at h
        · rename_i hal
          obtain ⟨⟨ch', es1, r1⟩, h1, h2⟩ := bind_ok' h
          have hfrc : Fr o ch es := ⟨fun x => by rw [cnt_zero_of_nil hch0, Nat.add_zero]; exact hco x, Loc_of_H0 es ch hch0⟩
          have P := ih1 ch es _ o h1 hnm hfrc ((TidyL_iff cs).mp htidy ch hchm) (Idle_of_H0 ch hch0) (fun _ => hal)
          have hsk := (accept_skel f).1 ch es _ h1
          have hn1 : names es1 = N := by rw [(accept_names f).1 ch es _ h1]; exact hnm
          have hothers : ∀ p c0, cs[p]? = some c0 → p ≠ i → holds c0 = [] :=
            fun p c0 hp _ => (holdsL_nil_iff cs).mp h0 c0 (List.mem_of_getElem? hp)
          have hilt : i < cs.length := (List.getElem?_eq_some_iff.mp hch).1
          have hset : ∀ p c0, (cs.set i ch')[p]? = some c0 → p ≠ i → holds c0 = [] := by
            intro p c0 hp hne
            rw [List.getElem?_set_ne (fun e => hne e.symm)] at hp
            exact hothers p c0 hp hne
          have hseti : (cs.set i ch')[i]? = some ch' := by simp [hilt]
          have hcnt : ∀ x, cntL x (cs.set i ch') = cnt x ch' := fun x => cntL_only hseti hset x
          have htidy' : TidyL (cs.set i ch') := by
            apply (TidyL_iff _).mpr
            intro c0 hc0
            obtain ⟨p, hp⟩ := List.getElem?_of_mem hc0
            by_cases hpi : p = i
            · subst hpi; rw [hseti] at hp; cases hp; exact P.tidy
            · exact Tidy_of_H0 c0 (hset p c0 hp hpi)
          have hloc' : LocL es1 (cs.set i ch') := by
            apply (LocL_iff _ _).mpr
            intro c0 hc0
            obtain ⟨p, hp⟩ := List.getElem?_of_mem hc0
            by_cases hpi : p = i
            · subst hpi; rw [hseti] at hp; cases hp; exact P.fr.2
            · exact Loc_of_H0 es1 c0 (hset p c0 hp hpi)
          cases r1 with
          | true =>
            simp only [if_true] at h2; cases h2
            have hkr : Kr ch'.viable := by rw [viable_of_skel hsk]; exact Kr_of_atLeastSome hal
            refine ⟨⟨fun x => by rw [hcnt x]; exact P.fr.1 x, hloc'⟩, P.same, htidy', ?_, ?_, fun j hj => ?_, fun h' => by cases h'⟩
            · intro c0 hc0
              obtain ⟨p, hp⟩ := List.getElem?_of_mem hc0
              by_cases hpi : p = i
              · subst hpi; rw [hseti] at hp; cases hp
                exact Or.inr hkr
              · exact Or.inl (hset p c0 hp hpi)
            · intro c0 hc0 hu
              obtain ⟨p, hp⟩ := List.getElem?_of_mem hc0
              by_cases hpi : p = i
              · subst hpi; rw [hseti] at hp; cases hp
                rw [hu] at hkr; simp [Kr, MT.rank] at hkr
              · exact hset p c0 hp hpi
            · cases hj
              exact ⟨by simp [hilt], fun p c0 hp hne => hset p c0 hp hne⟩
          | false =>
            simp only [Bool.false_eq_true, if_false] at h2
            obtain ⟨b1, b2⟩ := P.noop rfl
            have hch'0 : holds ch' = [] := by rw [b1]; exact hch0
            have h0' : holdsL (cs.set i ch') = [] := holdsL_set_nil hothers hch'0
            have Q := ih3 (cs.set i ch') (i + 1) es1 r o h2 hn1
              ⟨fun x => by rw [hcnt x]; exact P.fr.1 x, hloc'⟩ htidy' h0'
            refine ⟨Q.fr, fun x hx => by rw [Q.same x hx]; exact P.same x hx, Q.tidy, Q.kc, Q.uc, Q.some_, fun hn => ?_⟩
            obtain ⟨q1, q2⟩ := Q.none_ hn
            exact ⟨q1, fun x => by rw [q2 x, b2 x]⟩
        · exact ih3 cs (i + 1) es r o h hnm ⟨hc, hl⟩ htidy h0

end StepModel.Complex.Match

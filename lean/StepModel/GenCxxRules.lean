import StepModel.GenCxx
import StepModel.Generated.RuleGen
/-!
# WHERE and UNIQUE rules in the generated dictionary, and EXPRESS text inside emitted C++ string literals (C02)

Sources modelled: `src/exp2cxx/rules.c` `WHEREprint` / `UNIQUEprint` (one `Where_rule` / `Uniqueness_rule` per clause, whose
`_label` holds the whole rule text, appended to the descriptor's list in clause order; called from `ENTITYincode_print` and
`TYPEprint_new`), `src/exp2cxx/classes.c` `format_for_std_stringout` / `format_for_stringout` (how EXPRESS text is copied
into C++ string literals), and the part of the C++ lexer that decides what such a literal denotes.
The text of an expression is an input (`WhereRule.expr`): the expression printer is C07's subject.
-/
namespace StepModel.GenCxx
open StepModel.Generated

/-- the string handed to `new Where_rule( … )` -/
def whereText (r : WhereRule) : String :=
  r.label.getD unnamedWhereLabel ++ whereOpen ++ r.expr ++ whereClose

/-- the string handed to `new Uniqueness_rule( … )` -/
def uniqueText (r : UniqueRule) : String :=
  (match r.label with
   | some l => (if uniqueLabelUpper then l.toUpper else l) ++ uniqueLabelSep
   | none => "") ++ uniqueSep.intercalate r.attrs

/-- `Derived_attribute::initializer_( … )` of every attribute in the DERIVE clause, by registered name -/
def entityInits (e : Entity) : List (String × String) :=
  (e.attrs.filter (·.kind == .derived)).map (fun a => (dictAttrName a, a.init))

/-- `EntityDescriptor::AddSupertype_Stmt( … )` (classes_entity.c `ENTITYincode_print`): nothing for an entity that is neither
    abstract nor constrains its subtypes -/
def supertypeStmt (e : Entity) : Option String :=
  match e.abstract, e.superExpr with
  | true, some x => some (stmtAbstractOpen ++ x ++ stmtClose)
  | true, none => some stmtAbstract
  | false, some x => some (stmtOpen ++ x ++ stmtClose)
  | false, none => none

/-- the rule lists of one descriptor -/
structure DRules where
  owner : String
  wheres : List String := []
  uniques : List String := []
  deriving DecidableEq, Repr, Inhabited

def entityRules (e : Entity) : DRules :=
  { owner := e.name, wheres := e.wheres.map whereText, uniques := e.uniques.map uniqueText }

def typeRules (t : TypeDecl) : DRules :=
  { owner := t.name, wheres := t.wheres.map whereText }

/-- `_where_rules` / `_uniqueness_rules` of every entity descriptor and every named type descriptor -/
def ruleDict (s : Schema) : List DRules × List DRules := (s.entities.map entityRules, s.types.map typeRules)

/-! ## EXPRESS text inside C++ string literals -/

def nl : Char := Char.ofNat 10
def bsl : Char := Char.ofNat 92
def dq : Char := Char.ofNat 34

/-- what is written for one character that is not a line break -/
def escChar (esc : List Char) (c : Char) : List Char := if esc.contains c then [bsl, c] else [c]

/-- `format_for_std_stringout`: the bodies of the literals in `str.append( "<body>" );`, one statement per line of the text
    (a line break directly followed by another is skipped); every body ends with the two characters `\n`.  Written with
    "put in front of the first piece of the rest" instead of the C function's running output position -/
def fmtStd (esc : List Char) : List Char → List (List Char)
  | [] => [[bsl, 'n']]
  | c :: rest =>
    if c = nl then
      (match rest with
       | d :: _ => if d = nl then fmtStd esc rest else [bsl, 'n'] :: fmtStd esc rest
       | [] => [bsl, 'n'] :: fmtStd esc rest)
    else
      match fmtStd esc rest with
      | p :: ps => (escChar esc c ++ p) :: ps
      | [] => [escChar esc c]

/-- `format_for_stringout`: one literal body; a line break becomes the two characters `\n` -/
def fmtInit (esc : List Char) : List Char → List Char
  | [] => []
  | c :: rest => (if c = nl then [bsl, 'n'] else escChar esc c) ++ fmtInit esc rest

/-- the C++ lexer on the body of an ordinary string literal, for the escapes the generator uses: `none` when the body does not
    stay inside the literal (an unescaped `"` ends it early, a raw line break or a lone / unknown backslash is an error) -/
def cLit : List Char → Option (List Char)
  | [] => some []
  | c :: rest =>
    if c = bsl then
      match rest with
      | [] => none
      | d :: rest' =>
        if d = 'n' then (cLit rest').map (nl :: ·)
        else if d = bsl ∨ d = dq then (cLit rest').map (d :: ·)
        else none
    else if c = dq ∨ c = nl then none
    else (cLit rest).map (c :: ·)

/-- the text `str` holds after the emitted `str.append( "<body>" );` statements; `none` when one of them does not compile -/
def decodeAll : List (List Char) → Option (List Char)
  | [] => some []
  | p :: ps =>
    match cLit p, decodeAll ps with
    | some d, some ds => some (d ++ ds)
    | _, _ => none

def stdDenotes (esc : List Char) (t : List Char) : Option (List Char) := decodeAll (fmtStd esc t)

def noNl (t : List Char) : List Char := t.filter (· ≠ nl)

end StepModel.GenCxx

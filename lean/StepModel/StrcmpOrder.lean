import StepModel.AlphaOrder
/-!
# `strcmp` is a strict total order (the hypothesis `AlphaOrder.StrictTotal` of the order theorems, discharged for the real comparison)

`SCOPEadd_inorder` (exppp), `ComplexList::operator<` (exp2cxx) compare identifiers with `strcmp`: unsigned bytes, first difference
decides, a proper prefix is smaller.  `strcmpLt` is that comparison on byte lists, `nameStrcmpLt` the same on identifiers through
their UTF-8 bytes.  (Lean's `String.<` compares code points — the same on ASCII identifiers, not in general.)
-/
namespace StepModel.AlphaOrder


theorem strcmpLt_irrefl : ∀ a, strcmpLt a a = false
  | [] => rfl
  | a :: r => by
    have : ¬ a < a := by exact UInt8.lt_irrefl a
    simp [strcmpLt, this, strcmpLt_irrefl r]

theorem u8_trichotomy (a b : UInt8) : a < b ∨ a = b ∨ b < a := by
  rcases Nat.lt_trichotomy a.toNat b.toNat with h | h | h
  · exact Or.inl (UInt8.lt_iff_toNat_lt.mpr h)
  · exact Or.inr (Or.inl (UInt8.toNat_inj.mp h))
  · exact Or.inr (Or.inr (UInt8.lt_iff_toNat_lt.mpr h))

theorem strcmpLt_trans : ∀ a b c, strcmpLt a b = true → strcmpLt b c = true → strcmpLt a c = true
  | [], [], _, h, _ => by simp [strcmpLt] at h
  | [], _ :: _, [], _, h => by simp [strcmpLt] at h
  | [], _ :: _, _ :: _, _, _ => rfl
  | _ :: _, [], _, h, _ => by simp [strcmpLt] at h
  | _ :: _, _ :: _, [], _, h => by simp [strcmpLt] at h
  | a :: r, b :: s, c :: t, h1, h2 => by
    simp only [strcmpLt] at h1 h2 ⊢
    have ab := u8_trichotomy a b
    have bc := u8_trichotomy b c
    have lt_tr : ∀ {x y z : UInt8}, x < y → y < z → x < z := fun h1 h2 => UInt8.lt_trans h1 h2
    have nlt : ∀ {x y : UInt8}, x < y → ¬ y < x := fun h1 h2 => UInt8.lt_irrefl _ (UInt8.lt_trans h1 h2)
    rcases ab with ab | ab | ab
    · rcases bc with bc | bc | bc
      · simp [lt_tr ab bc]
      · subst bc; simp [ab]
      · simp [bc, nlt bc] at h2
    · subst ab
      rcases bc with bc | bc | bc
      · simp [bc]
      · subst bc
        have : ¬ a < a := UInt8.lt_irrefl a
        simp only [this, if_false] at h1 h2 ⊢
        exact strcmpLt_trans r s t h1 h2
      · simp [bc, nlt bc] at h2
    · simp [ab, nlt ab] at h1

theorem strcmpLt_total : ∀ a b, a ≠ b → strcmpLt a b = true ∨ strcmpLt b a = true
  | [], [], h => absurd rfl h
  | [], _ :: _, _ => Or.inl rfl
  | _ :: _, [], _ => Or.inr rfl
  | a :: r, b :: s, h => by
    simp only [strcmpLt]
    rcases u8_trichotomy a b with ab | ab | ab
    · simp [ab]
    · subst ab
      have : ¬ a < a := UInt8.lt_irrefl a
      simp only [this, if_false]
      exact strcmpLt_total r s (fun e => h (by rw [e]))
    · simp [ab]

/-- the comparison the tools use — `strcmp` over the bytes of the identifiers — IS a strict total order -/
theorem strcmpLt_strictTotal : StrictTotal strcmpLt := ⟨strcmpLt_irrefl, strcmpLt_trans, strcmpLt_total⟩


theorem nameStrcmpLt_strictTotal : StrictTotal nameStrcmpLt := by
  refine ⟨fun a => strcmpLt_irrefl _, fun a b c => strcmpLt_trans _ _ _, ?_⟩
  intro a b h
  apply strcmpLt_total
  intro e
  apply h
  apply String.toByteArray_inj.mp
  apply ByteArray.ext
  exact Array.toList_inj.mp e

end StepModel.AlphaOrder

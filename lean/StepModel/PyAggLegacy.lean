import StepModel.PyAgg
import StepModel.PyAggSpec
/-!
# The four defect sites of AggregationDataTypes.py as they were before fixes/C19-1 … C19-4

Kept only to state the `C19_legacy_…_witness` theorems (the negation of the property on a concrete history, replayed on
the real code by corpus/C19/*.json).  Nothing else depends on this file; the current code is modelled in `PyAgg.lean`.
-/
namespace StepModel.PyAgg.Legacy
open StepModel.PyAgg

/-- `len(self._container) == self._bound_2 - self._bound_1 + 1` -/
def full (len : Nat) (b1 b2 : Int) : Bool := decide ((len : Int) = b2 - b1 + 1)

/-- `BAG.add` before C19-1 -/
def bagAdd (b : Bag) (x : Val) : Bag × R :=
  match b.hi with
  | none => if x.ty ≠ b.base then (b, .raised .type) else ({ b with cells := b.cells ++ [x] }, .ok)
  | some h =>
    if full b.cells.length b.lo h then (b, .raised .assertion)
    else if x.ty ≠ b.base then (b, .raised .type)
    else ({ b with cells := b.cells ++ [x] }, .ok)

/-- `SET.add` before C19-1 -/
def setAdd (s : PSet) (x : Val) : PSet × R :=
  match s.hi with
  | none => if x.ty ≠ s.base then (s, .raised .type) else ({ s with cells := pySetAdd s.cells x }, .ok)
  | some h =>
    if full s.cells.length s.lo h then (if ¬ (x ∈ s.cells) then (s, .raised .assertion) else (s, .ok))
    else if x.ty ≠ s.base then (s, .raised .type)
    else ({ s with cells := pySetAdd s.cells x }, .ok)

/-- `ARRAY.__setitem__` before C19-3: the UNIQUE test is `value in self._container` -/
def arrSet (a : Arr) (i : Int) (x : Val) : Arr × R :=
  if i < a.lo then (a, .raised .index)
  else if i > a.hi then (a, .raised .index)
  else if x.ty ≠ a.base then (a, .raised .type)
  else if a.unique && a.cells.contains (some x) then (a, .raised .assertion)
  else match pyIdx a.cells.length (i - a.lo) with
    | none => (a, .raised .pyIndex)
    | some k => ({ a with cells := a.cells.set k (some x) }, .ok)

/-- LIST before C19-2/3/4: `_container` preallocated `bound_2-bound_1+1` slots (unbounded: `[None]`), indexed from
`bound_1`; `typo = true` is the branch that passed `self.get_type` uncalled to `check_type` (always `TypeError`). -/
structure LLst where
  lo : Int
  hi : Option Int
  unique : Bool
  base : Ty
  cells : List (Option Val)
  deriving DecidableEq, Repr

def LLst.new (lo : Int) (hi : Option Int) (base : Ty) (u : Bool) : LLst :=
  match hi with
  | some h => { lo, hi, unique := u, base, cells := pyRepeatNone (h - lo + 1) }
  | none => { lo, hi, unique := u, base, cells := [none] }

def LLst.store (l : LLst) (i : Int) (x : Val) : LLst × R :=
  if x.ty ≠ l.base then (l, .raised .type)
  else if l.unique && l.cells.contains (some x) then (l, .raised .assertion)
  else match pyIdx l.cells.length (i - l.lo) with
    | none => (l, .raised .pyIndex)
    | some k => ({ l with cells := l.cells.set k (some x) }, .ok)

def LLst.set (l : LLst) (i : Int) (x : Val) : LLst × R :=
  match l.hi with
  | some h =>
    if i < l.lo then (l, .raised .index) else if i > h then (l, .raised .index) else l.store i x
  | none =>
    if i < l.lo then (l, .raised .index)
    else if i - l.lo < (l.cells.length : Int) then (l, .raised .type)      -- check_type(value, self.get_type)
    else
      let l' := { l with cells := l.cells ++ pyRepeatNone ((i - l.lo) - (l.cells.length : Int) + 1) }
      l'.store i x

def LLst.get (l : LLst) (i : Int) : R :=
  let read : R := match pyIdx l.cells.length (i - l.lo) with
    | none => .raised .pyIndex
    | some k => match l.cells[k]? with
      | some (some x) => .val x
      | _ => .raised .assertion
  match l.hi with
  | some h => if i < l.lo then .raised .index else if i > h then .raised .index else read
  | none => if i - l.lo > (l.cells.length : Int) then .raised .assertion else read

/-- `LIST.get_size`: the number of slots that are not `None` -/
def LLst.size (l : LLst) : Int := (l.cells.length : Int) - (l.cells.count none : Int)

/-- python `==` on the simple values of the harness: INTEGER (tag 0), REAL (tag 2, whole numbers) and BOOLEAN (tag 3,
`False`/`True` = 0/1) compare by number across types; everything else only within its own type -/
def pyEq (x y : Val) : Bool :=
  let num : Val → Option Nat := fun z => match z.ty with
    | .simple 0 => some z.v | .simple 2 => some z.v | .simple 3 => some (z.v % 2) | _ => none
  match num x, num y with
  | some a, some b => a == b
  | _, _ => x == y

/-- `SET.add` before fixes/C19-6 on a bounded set, with python's `in`: a full set takes the membership shortcut before the
type check -/
def setAddPy (s : PSet) (h : Int) (x : Val) : PSet × R :=
  if decide ((s.cells.length : Int) = h) then
    (if ¬ (s.cells.any (pyEq x)) then (s, .raised .assertion) else (s, .ok))
  else if x.ty ≠ s.base then (s, .raised .type)
  else ({ s with cells := pySetAdd s.cells x }, .ok)

end StepModel.PyAgg.Legacy

import StepModel.GenNodeArray
namespace StepModel.GenNodeArray

/-- what the proofs need of the regenerated growth rule: the new block has room for `index` -/
theorem growTo_gt (i : Nat) : i < StepModel.Generated.growTo i := by
  unfold StepModel.Generated.growTo; omega

theorem wf_mk (n : Nat) : Wf (mk n) := by
  constructor
  · simp [mk]
  · simp [mk]
  · intro x hx; simp [mk] at hx; exact hx.2

theorem wf_init : Wf init := wf_mk _

theorem view_mk (n : Nat) : view (mk n) = [] := by simp [view, mk]

/-- the grown block of `Check` -/
def grown (a : Arr) (i : Nat) : Arr :=
  { buf := a.buf.take a.count ++ List.replicate (StepModel.Generated.growTo i - a.count) none, count := a.count }

theorem check_eq (a : Arr) (i : Nat) : check a i = if i ≥ a.buf.length then grown a i else a := rfl

theorem grown_spec (a : Arr) (i : Nat) (h : Wf a) (hi : i ≥ a.buf.length) :
    Wf (grown a i) ∧ view (grown a i) = view a ∧ (grown a i).count = a.count ∧ i < (grown a i).buf.length := by
  have hc := h.le
  have hlen : (a.buf.take a.count).length = a.count := by rw [List.length_take]; omega
  have hbuf : (grown a i).buf = a.buf.take a.count ++ List.replicate (StepModel.Generated.growTo i - a.count) none := rfl
  have hcnt : (grown a i).count = a.count := rfl
  have hg := growTo_gt i
  have hgl : (grown a i).buf.length = StepModel.Generated.growTo i := by
    rw [hbuf, List.length_append, hlen, List.length_replicate]; omega
  have htake : (grown a i).buf.take a.count = a.buf.take a.count := by
    rw [hbuf, List.take_append_of_le_length (by omega), List.take_take, Nat.min_self]
  refine ⟨⟨?_, ?_, ?_⟩, ?_, hcnt, ?_⟩
  · rw [hcnt, hgl]; omega
  · intro x hx
    rw [hcnt, htake] at hx
    exact h.live x hx
  · intro x hx
    rw [hcnt, hbuf, List.drop_append_of_le_length (by omega)] at hx
    have : List.drop a.count (List.take a.count a.buf) = [] := List.drop_eq_nil_of_le (by omega)
    rw [this, List.nil_append] at hx
    exact (List.mem_replicate.mp hx).2
  · show (grown a i).buf.take (grown a i).count = a.buf.take a.count
    rw [hcnt, htake]
  · rw [hgl]; omega

/-- `Check` keeps the live part, keeps the buffer well-formed and makes room for `index` -/
theorem check_spec (a : Arr) (i : Nat) (h : Wf a) :
    Wf (check a i) ∧ view (check a i) = view a ∧ (check a i).count = a.count ∧ i < (check a i).buf.length := by
  rw [check_eq]
  by_cases hi : i ≥ a.buf.length
  · rw [if_pos hi]; exact grown_spec a i h hi
  · rw [if_neg hi]; exact ⟨h, rfl, rfl, by omega⟩

theorem take_set_ge {α : Type} (l : List α) (n i : Nat) (v : α) (h : n ≤ i) : (l.set i v).take n = l.take n := by
  induction l generalizing n i with
  | nil => simp
  | cons a as ih =>
    cases n with
    | zero => simp
    | succ n =>
      cases i with
      | zero => omega
      | succ i => simp [List.set, ih n i (by omega)]

theorem drop_set_lt {α : Type} (l : List α) (n i : Nat) (v : α) (h : i < n) : (l.set i v).drop n = l.drop n := by
  induction l generalizing n i with
  | nil => simp
  | cons a as ih =>
    cases n with
    | zero => omega
    | succ n =>
      cases i with
      | zero => simp [List.set]
      | succ i => simp [List.set, ih n i (by omega)]

/-- storing a non-null pointer at slot `c` of a well-formed buffer with `c` live slots and room for it -/
theorem store_at_count (b : List (Option Nat)) (c gn : Nat) (hroom : c < b.length)
    (hlive : ∀ x ∈ b.take c, x ≠ none) (hrest : ∀ x ∈ b.drop c, x = none) :
    Wf ⟨b.set c (some gn), c + 1⟩ ∧ (b.set c (some gn)).take (c + 1) = b.take c ++ [some gn] := by
  have htake : (b.set c (some gn)).take (c + 1) = b.take c ++ [some gn] := by
    rw [List.take_add_one, take_set_ge _ _ _ _ (Nat.le_refl _)]
    simp [hroom]
  refine ⟨⟨?_, ?_, ?_⟩, htake⟩
  · show c + 1 ≤ (b.set c (some gn)).length
    rw [List.length_set]; omega
  · intro x hx
    show x ≠ none
    have hx' : x ∈ (b.set c (some gn)).take (c + 1) := hx
    rw [htake] at hx'
    rcases List.mem_append.mp hx' with h1 | h1
    · exact hlive x h1
    · simp at h1; rw [h1]; simp
  · intro x hx
    have hx' : x ∈ (b.set c (some gn)).drop (c + 1) := hx
    rw [drop_set_lt _ _ _ _ (by omega)] at hx'
    apply hrest x
    have : List.drop (c + 1) b = List.drop 1 (List.drop c b) := by rw [List.drop_drop, Nat.add_comm]
    rw [this] at hx'
    exact List.mem_of_mem_drop hx'

/-- `Append` stores inside the block, adds exactly one live slot at the end and keeps the rest null -/
theorem insertAtEnd_spec (a : Arr) (gn : Nat) (h : Wf a) :
    ∃ a', insertAtEnd a gn = some a' ∧ Wf a' ∧ view a' = view a ++ [some gn] ∧ a'.count = a.count + 1 := by
  obtain ⟨hw, hv, hcnt, hroom⟩ := check_spec a a.count h
  have hlive : ∀ x ∈ (check a a.count).buf.take a.count, x ≠ none := by
    intro x hx; exact hw.live x (by rw [hcnt]; exact hx)
  have hrest : ∀ x ∈ (check a a.count).buf.drop a.count, x = none := by
    intro x hx; exact hw.rest x (by rw [hcnt]; exact hx)
  obtain ⟨hwf, htk⟩ := store_at_count (check a a.count).buf a.count gn hroom hlive hrest
  refine ⟨⟨(check a a.count).buf.set a.count (some gn), a.count + 1⟩, ?_, hwf, ?_, rfl⟩
  · unfold insertAtEnd store
    simp [hroom]
  · show ((check a a.count).buf.set a.count (some gn)).take (a.count + 1) = a.buf.take a.count ++ [some gn]
    rw [htk]
    have : List.take a.count (check a a.count).buf = List.take a.count a.buf := by
      have := hv; simp only [view, hcnt] at this; exact this
    rw [this]


/-! ### `Remove` -/
theorem eraseIdx_take_eq (l : List (Option Nat)) (i c : Nat) (hic : i ≤ c) (_hc : c + 1 ≤ l.length) :
    (l.take (c + 1)).eraseIdx i = l.take i ++ (l.drop (i + 1)).take (c - i) := by
  rw [List.eraseIdx_eq_take_drop_succ]
  rw [List.take_take, List.drop_take]
  have : min i (c + 1) = i := by omega
  rw [this]
  have : c + 1 - (i + 1) = c - i := by omega
  rw [this]

theorem remove_spec (a : Arr) (index : Nat) (h : Wf a) (hi : index < a.count) :
    ∃ a', remove a index = some a' ∧ Wf a' ∧ view a' = (view a).eraseIdx index ∧ a'.count = a.count - 1 := by
  have hle := h.le
  -- c = the new count
  obtain ⟨c, hc1⟩ : ∃ c, c + 1 = a.count := ⟨a.count - 1, by omega⟩
  have hcm1 : a.count - 1 = c := by omega
  have hic : index ≤ c := by omega
  -- the block after the memmove: `front` are the surviving live slots, the tail is untouched
  let front := a.buf.take index ++ (a.buf.drop (index + 1)).take (c - index)
  have hfl : front.length = c := by
    simp only [front, List.length_append, List.length_take, List.length_drop]; omega
  have htail : a.buf.drop c = a.buf[c]'(by omega) :: a.buf.drop (c + 1) := List.drop_eq_getElem_cons (by omega)
  have hstore : store (front ++ a.buf.drop c) c none = some (front ++ none :: a.buf.drop (c + 1)) := by
    unfold store
    have : c < (front ++ a.buf.drop c).length := by
      rw [List.length_append, hfl, List.length_drop]; omega
    rw [if_pos this, List.set_append_right _ _ (by omega), hfl, Nat.sub_self, htail]
    rfl
  have hrem : remove a index = some ⟨front ++ none :: a.buf.drop (c + 1), c⟩ := by
    unfold remove
    rw [if_pos hi, hcm1]
    have : index + 1 + (c - index) ≤ a.buf.length := by omega
    rw [if_pos this]
    have hrv : StepModel.Generated.removeNullsVacated = true := rfl
    show (if StepModel.Generated.removeNullsVacated = true then store (front ++ a.buf.drop c) c none
          else some (front ++ a.buf.drop c)).map _ = _
    rw [if_pos hrv, hstore]; rfl
  have hview : view ⟨front ++ none :: a.buf.drop (c + 1), c⟩ = front := by
    show (front ++ none :: a.buf.drop (c + 1)).take c = front
    exact List.take_left' hfl
  have hfront : front = (view a).eraseIdx index := by
    show front = (a.buf.take a.count).eraseIdx index
    rw [← hc1, eraseIdx_take_eq a.buf index c hic (by omega)]
  refine ⟨_, hrem, ⟨?_, ?_, ?_⟩, ?_, hcm1.symm ▸ rfl⟩
  · show c ≤ (front ++ none :: a.buf.drop (c + 1)).length
    rw [List.length_append, hfl]; omega
  · intro x hx
    have hx' : x ∈ front := by
      have : x ∈ view ⟨front ++ none :: a.buf.drop (c + 1), c⟩ := hx
      rw [hview] at this; exact this
    rw [hfront] at hx'
    exact h.live x (List.mem_of_mem_eraseIdx hx')
  · intro x hx
    have hx' : x ∈ (front ++ none :: a.buf.drop (c + 1)).drop c := hx
    rw [List.drop_left' hfl] at hx'
    rcases List.mem_cons.mp hx' with h1 | h1
    · exact h1
    · apply h.rest x
      rw [← hc1]; exact h1
  · rw [hview, hfront]

/-! ### `ClearEntries` / `DeleteEntries` -/
theorem dropAll_spec (a : Arr) (h : Wf a) : Wf (dropAll true a) ∧ view (dropAll true a) = [] := by
  refine ⟨⟨Nat.zero_le _, ?_, ?_⟩, rfl⟩
  · intro x hx; simp [dropAll] at hx
  · intro x hx
    have hx' : x ∈ List.replicate a.count none ++ a.buf.drop a.count := by simpa [dropAll] using hx
    rcases List.mem_append.mp hx' with h1 | h1
    · exact (List.mem_replicate.mp h1).2
    · exact h.rest x h1

theorem clear_spec (a : Arr) (h : Wf a) : Wf (clear a) ∧ view (clear a) = [] := by
  have hf : StepModel.Generated.clearEntriesNullsSlots = true := rfl
  unfold clear; rw [hf]; exact dropAll_spec a h

/-- needs `DeleteEntries` to null the slots it frees (regenerated from the source; `rfl` fails otherwise) -/
theorem deleteEntries_spec (a : Arr) (h : Wf a) : Wf (deleteEntries a) ∧ view (deleteEntries a) = [] := by
  have hf : StepModel.Generated.deleteEntriesNullsSlots = true := rfl
  unfold deleteEntries; rw [hf]; exact dropAll_spec a h

/-- what a loop that does NOT null the slots leaves behind: the freed pointers, above a zero count -/
theorem dropAll_false_dangling (a : Arr) (i : Nat) (p : Nat) (hi : i < a.count) (hp : a.buf[i]? = some (some p)) :
    (dropAll false a).count = 0 ∧ slotAt (dropAll false a) i = some p := by
  have _ := hi
  refine ⟨rfl, ?_⟩
  have hlen : i < a.buf.length := by
    rcases List.getElem?_eq_some_iff.mp hp with ⟨h, _⟩; exact h
  unfold slotAt check
  have : ¬ (i ≥ (dropAll false a).buf.length) := by simp [dropAll]; exact hlen
  rw [if_neg this]
  simp [dropAll, hp]

/-! ### `operator[]` -/
theorem slotAt_above (a : Arr) (i : Nat) (h : Wf a) (hi : a.count ≤ i) : slotAt a i = none := by
  obtain ⟨hw, _, hc, hlen⟩ := check_spec a i h
  unfold slotAt
  have hmem : (check a i).buf[i]'hlen ∈ (check a i).buf.drop (check a i).count := by
    rw [hc]
    rw [List.mem_drop_iff_getElem]
    exact ⟨i - a.count, by rw [hc] at *; omega, by congr 1; omega⟩
  have := hw.rest _ hmem
  rw [List.getElem?_eq_getElem hlen, this]; rfl

theorem slotAt_below (a : Arr) (i : Nat) (h : Wf a) (hi : i < a.count) : slotAt a i = ((view a)[i]?).join := by
  obtain ⟨_, hv, hc, hlen⟩ := check_spec a i h
  unfold slotAt
  rw [← hv]
  simp only [view, hc]
  rw [List.getElem?_take_of_lt hi]

/-! ### any sequence of array operations -/
inductive BufOp | push (gn : Nat) | remove (i : Nat) | clear | deleteAll | peek (i : Nat)
  deriving Repr

def stepBuf (a : Arr) : BufOp → Option Arr
  | .push gn => insertAtEnd a gn
  | .remove i => remove a i
  | .clear => some (GenNodeArray.clear a)
  | .deleteAll => some (deleteEntries a)
  | .peek i => some (check a i)        -- `operator[]( i )`: `Check( i )`, then read the slot

def runBuf (a : Arr) : List BufOp → Option Arr
  | [] => some a
  | op :: ops => (stepBuf a op).bind (fun a' => runBuf a' ops)

/-- the list the buffer is supposed to hold -/
def stepList (l : List (Option Nat)) : BufOp → List (Option Nat)
  | .push gn => l ++ [some gn]
  | .remove i => l.eraseIdx i
  | .clear => []
  | .deleteAll => []
  | .peek _ => l

theorem step_spec (a : Arr) (op : BufOp) (h : Wf a) :
    ∃ a', stepBuf a op = some a' ∧ Wf a' ∧ view a' = stepList (view a) op := by
  cases op with
  | push gn =>
    obtain ⟨a', h1, h2, h3, _⟩ := insertAtEnd_spec a gn h
    exact ⟨a', h1, h2, h3⟩
  | remove i =>
    by_cases hi : i < a.count
    · obtain ⟨a', h1, h2, h3, _⟩ := remove_spec a i h hi
      exact ⟨a', h1, h2, h3⟩
    · refine ⟨a, ?_, h, ?_⟩
      · simp [stepBuf, GenNodeArray.remove, hi]
      · show view a = (view a).eraseIdx i
        rw [List.eraseIdx_of_length_le]
        simp only [view, List.length_take]; omega
  | clear =>
    obtain ⟨h1, h2⟩ := clear_spec a h
    exact ⟨_, rfl, h1, h2⟩
  | deleteAll =>
    obtain ⟨h1, h2⟩ := deleteEntries_spec a h
    exact ⟨_, rfl, h1, h2⟩
  | peek i =>
    obtain ⟨h1, h2, _, _⟩ := check_spec a i h
    exact ⟨_, rfl, h1, h2⟩

theorem run_spec (a : Arr) (ops : List BufOp) (h : Wf a) :
    ∃ a', runBuf a ops = some a' ∧ Wf a' ∧ view a' = ops.foldl stepList (view a) := by
  induction ops generalizing a with
  | nil => exact ⟨a, rfl, h, rfl⟩
  | cons op ops ih =>
    obtain ⟨a1, h1, h2, h3⟩ := step_spec a op h
    obtain ⟨a2, k1, k2, k3⟩ := ih a1 h2
    refine ⟨a2, ?_, k2, ?_⟩
    · simp [runBuf, h1, k1]
    · rw [k3, h3]; rfl

end StepModel.GenNodeArray

import StepModel.P21Safe
/-! Lemmas about `runWrites`, `idxRange`, `copyWrites` and the site functions (helper file for Props/C05). -/
namespace StepModel.P21Safe

/-- the outcome is never `.overflow` -/
def NoOverflow {α} (o : Out α) : Prop := ∀ i c, o ≠ .overflow i c

theorem mem_idxRange {a n i : Nat} : i ∈ idxRange a n ↔ a ≤ i ∧ i < a + n := by
  induction n generalizing a with
  | zero => simp [idxRange]
  | succ n ih => simp [idxRange, ih]; omega

theorem runWrites_growable (ws : List Nat) : runWrites .growable ws = .ok () := by
  cases ws <;> rfl

/-- all indices in range: the run is fine -/
theorem runWrites_ok {cap : Nat} {ws : List Nat} (h : ∀ i ∈ ws, i < cap) : runWrites (.fixed cap) ws = .ok () := by
  induction ws with
  | nil => rfl
  | cons i is ih =>
    have hi : i < cap := h i (by simp)
    simp [runWrites, hi]
    exact ih (fun j hj => h j (by simp [hj]))

/-- a prefix in range followed by an index out of range: that index is the overflow -/
theorem runWrites_overflow {cap : Nat} {pre : List Nat} {i : Nat} {post : List Nat}
    (hpre : ∀ j ∈ pre, j < cap) (hi : cap ≤ i) : runWrites (.fixed cap) (pre ++ i :: post) = .overflow i cap := by
  induction pre with
  | nil => simp [runWrites]; omega
  | cons j js ih =>
    have hj : j < cap := hpre j (by simp)
    simp [runWrites, hj]
    exact ih (fun k hk => hpre k (by simp [hk]))

theorem runWrites_noOverflow_iff {cap : Nat} {ws : List Nat} :
    NoOverflow (runWrites (.fixed cap) ws) ↔ ∀ i ∈ ws, i < cap := by
  constructor
  · intro h
    induction ws with
    | nil => simp
    | cons i is ih =>
      by_cases hi : i < cap
      · simp [runWrites, hi] at h
        intro j hj
        simp at hj
        rcases hj with rfl | hj
        · exact hi
        · exact ih h j hj
      · exfalso
        simp [runWrites, hi] at h
        exact h i cap rfl
  · intro h i c he
    rw [runWrites_ok h] at he
    cases he

theorem noOverflow_growable (ws : List Nat) : NoOverflow (runWrites .growable ws) := by
  intro i c h; rw [runWrites_growable] at h; cases h

/-- The decidable safety condition of a copy loop `store n characters, then the terminator`. -/
def copySafe : Storage → Option Nat → Bool
  | .growable, _ => true
  | .fixed cap, some g => decide (g < cap)
  | .fixed _, none => false

theorem mem_copyWrites {guard : Option Nat} {n i : Nat} (h : i ∈ copyWrites guard n) :
    i ≤ (match guard with | none => n | some g => min n g) := by
  cases guard with
  | none => simp [copyWrites, mem_idxRange] at h ⊢; omega
  | some g => simp [copyWrites, mem_idxRange] at h ⊢; omega

/-- the copy loop with `n` source characters, unguarded: overflow exactly when `cap ≤ n`, and then at index `cap` -/
theorem copy_unguarded_overflow {cap n : Nat} (h : cap ≤ n) :
    runWrites (.fixed cap) (copyWrites none n) = .overflow cap cap := by
  unfold copyWrites
  simp only
  by_cases hn : n = cap
  · subst hn
    exact runWrites_overflow (pre := idxRange 0 n) (post := []) (by intro j hj; simp [mem_idxRange] at hj; omega) (Nat.le_refl _)
  · -- split the range at cap
    have hsplit : idxRange 0 n = idxRange 0 cap ++ cap :: idxRange (cap + 1) (n - cap - 1) := by
      have key : ∀ (a k m : Nat), idxRange a (k + m) = idxRange a k ++ idxRange (a + k) m := by
        intro a k m
        induction k generalizing a with
        | zero => simp [idxRange]
        | succ k ih =>
          have : k + 1 + m = (k + m) + 1 := by omega
          rw [this]
          simp [idxRange, ih]
          congr 1; omega
      have hn' : n = cap + ((n - cap - 1) + 1) := by omega
      conv => lhs; rw [hn', key 0 cap ((n - cap - 1) + 1)]
      simp [idxRange]
    rw [hsplit, List.append_assoc]
    exact runWrites_overflow (by intro j hj; simp [mem_idxRange] at hj; omega) (Nat.le_refl _)

theorem copy_unguarded_ok {cap n : Nat} (h : n < cap) : runWrites (.fixed cap) (copyWrites none n) = .ok () := by
  apply runWrites_ok
  intro i hi
  have := mem_copyWrites hi
  simp at this
  omega

/-- A copy loop is free of overflow for *every* source length exactly when `copySafe` holds. -/
theorem copy_safe_iff (st : Storage) (guard : Option Nat) :
    (∀ n, NoOverflow (runWrites st (copyWrites guard n))) ↔ copySafe st guard = true := by
  cases st with
  | growable => simp [copySafe]; intro n; exact noOverflow_growable _
  | fixed cap =>
    cases guard with
    | none =>
      simp [copySafe]
      refine ⟨cap, ?_⟩
      intro h
      exact h cap cap (copy_unguarded_overflow (Nat.le_refl _))
    | some g =>
      simp [copySafe]
      constructor
      · intro h
        have h' := (runWrites_noOverflow_iff.mp (h g)) g (by unfold copyWrites; simp)
        exact h'
      · intro hg n
        apply runWrites_noOverflow_iff.mpr
        intro i hi
        have := mem_copyWrites hi
        simp at this
        omega

/-! ### ReadReal lexeme length on a run of digits (for witnesses) -/

theorem spanDigits_replicate (n : Nat) (d : Byte) (hd : isDigit d = true) (rest : List Byte)
    (hr : ∀ c r, rest = c :: r → isDigit c = false) :
    spanDigits (List.replicate n d ++ rest) = (n, rest) := by
  induction n with
  | zero =>
    cases rest with
    | nil => rfl
    | cons c r => simp [spanDigits, hr c r rfl]
  | succ n ih => simp [List.replicate, spanDigits, hd, ih]

theorem realLexLen_digits (n : Nat) : realLexLen (List.replicate (n + 1) 49) = n + 1 := by
  have h49 : isDigit 49 = true := by decide
  have hs : isSpace 49 = false := by decide
  have h1 : dropSpaces (List.replicate (n + 1) 49) = List.replicate (n + 1) 49 := by
    simp [List.replicate, dropSpaces, hs]
  have h2 : optSign (List.replicate (n + 1) 49) = (0, List.replicate (n + 1) 49) := by
    simp [List.replicate, optSign, chPlus, chMinus]
  have h3 := spanDigits_replicate (n + 1) 49 h49 [] (by intro c r h; cases h)
  simp at h3
  simp [realLexLen, h1, h2, h3, spanDigits]

/-! ### PrettyTmpName -/

/-- every index the loop writes is at most `g`; the final `i` is at most `max i (g + 1)` -/
theorem prettyLoop_bound (g : Nat) (i : Nat) (l : List Byte) :
    (∀ j ∈ (prettyLoop g i l).1, j ≤ g) ∧ (prettyLoop g i l).2 ≤ max i (g + 1) := by
  fun_induction prettyLoop g i l with
  | case1 i => simp; omega
  | case2 i h => simp; omega
  | case3 i c h hc => simp; omega
  | case4 i c h => simp; omega
  | case5 i d rest h w f hrec ih =>
    simp [hrec] at ih ⊢
    constructor
    · refine ⟨by omega, by omega, ?_⟩
      intro j hj; exact ih.1 j hj
    · omega
  | case6 i c d rest h hc w f hrec ih =>
    simp [hrec] at ih ⊢
    constructor
    · refine ⟨by omega, ?_⟩
      intro j hj; exact ih.1 j hj
    · omega
  | case7 i c d rest h => simp; omega

theorem pretty_safe {cap g : Nat} (h : g + 2 ≤ cap) (oldname : List Byte) : NoOverflow (pretty cap g oldname) := by
  unfold pretty
  apply runWrites_noOverflow_iff.mpr
  intro i hi
  unfold prettyWrites at hi
  have hb := prettyLoop_bound g 0 (cstr oldname)
  generalize prettyLoop g 0 (cstr oldname) = r at hi hb
  obtain ⟨w, f⟩ := r
  simp at hi hb
  rcases hi with rfl | hi | rfl | rfl
  · omega
  · have := hb.1 i hi; omega
  · omega
  · omega

end StepModel.P21Safe

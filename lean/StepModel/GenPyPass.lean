import StepModel.GenPy
/-!
# exp2python's pass decision for a single schema (src/exp2python/src/multpass_python.c)

`print_schemas_separate` repeatedly calls `checkTypes` / `checkEnts`; an object marked CANTPROCESS sets the schema back
to UNPROCESSED, and a schema that is still UNPROCESSED after a pass is written as several files `<schema>_1.py`,
`<schema>_2.py`, ….  For one schema (`sameSchema`/`inSchema` always true) the model keeps what can make a mark
CANTPROCESS: `ENUMcanBeProcessed` (its last case regenerated from the C source), `checkItem`, one visit of a type / an
entity, a sweep over the symbol table in *any* order, any number of sweeps.
-/
namespace StepModel.GenPy.Pass
open StepModel.Generated

inductive Mark | notknown | canprocess | cantprocess | processed
  deriving DecidableEq, Repr

/-- what the pass logic looks at in a type or entity of the schema -/
structure Obj where
  name : String
  isEnum : Bool
  isSelect : Bool
  renameOf : Option String        -- enumeration/select that is a rename: its ancestor (same schema)
  items : List String             -- select: its non-entity items; entity: the types of its attributes (aggregates stripped)
  entAttrTypes : List String      -- select: attribute types of its not yet processed entity items
  deriving Repr

abbrev Marks := String → Mark

def setMark (m : Marks) (n : String) (v : Mark) : Marks := fun k => if k = n then v else m k

def lookup (os : List Obj) (n : String) : Option Obj := os.find? (fun o => o.name == n)

/-- `ENUMcanBeProcessed( e, s )` for `e` in `s` -/
def enumCanBeProcessed (os : List Obj) (m : Marks) (e : String) : Bool :=
  match m e with
  | .notknown =>
    match (lookup os e).bind (·.renameOf) with
    | none => true
    | some a => enumRenameInSchemaOk || m a == .processed
  | .canprocess => true
  | .processed => true
  | .cantprocess => false

structure St where
  marks : Marks
  schemaUnprocessed : Bool

/-- `checkItem( t, parent, schema, …, noSel )`: returns the new state and whether `parent` became unprocessable -/
def checkItem (os : List Obj) (s : St) (parent item : String) (noSel : Bool) : St × Bool :=
  match lookup os item with
  | none => (s, false)
  | some o =>
    if o.isEnum then
      if !enumCanBeProcessed os s.marks item then
        ({ marks := setMark s.marks parent .cantprocess, schemaUnprocessed := true }, true)
      else (s, false)
    else if o.isSelect && !noSel then
      match s.marks item with
      | .cantprocess => ({ marks := setMark s.marks parent .cantprocess, schemaUnprocessed := true }, true)
      | .notknown => ({ s with marks := setMark s.marks parent .notknown }, false)
      | _ => (s, false)
    else (s, false)

/-- the item loops of `checkTypes`/`checkEnts`: stop at the first item that makes the parent unprocessable -/
def checkItems (os : List Obj) (parent : String) (noSel : Bool) : St → List String → St × Bool
  | s, [] => (s, false)
  | s, i :: is =>
    let (s', stop) := checkItem os s parent i noSel
    if stop then (s', true) else checkItems os parent noSel s' is

/-- one object visited by `checkTypes` / `checkEnts` -/
def visit (os : List Obj) (s : St) (o : Obj) : St :=
  if s.marks o.name ≠ .notknown then s else
  let s1 : St := { s with marks := setMark s.marks o.name .canprocess }
  let (s2, stop) := checkItems os o.name false s1 o.items
  if stop then s2 else (checkItems os o.name true s2 o.entAttrTypes).1

def sweep (os : List Obj) (order : List Obj) (s : St) : St := order.foldl (visit os) s

def sweeps (os : List Obj) (order : List Obj) : Nat → St → St
  | 0, s => s
  | n + 1, s => sweeps os order n (sweep os order s)

/-- the files written for the schema: one module, unless the schema is still UNPROCESSED after the first pass -/
def filesOf (name : String) (s : St) : List String :=
  if s.schemaUnprocessed then [name ++ "_1.py", name ++ "_2.py"] else [name ++ ".py"]

def initial : St := { marks := fun _ => .notknown, schemaUnprocessed := false }

end StepModel.GenPy.Pass

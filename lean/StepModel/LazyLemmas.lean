import StepModel.Lazy
/-! Helper lemmas for `Props/C10.lean` (core Lean only). -/
namespace StepModel.Lazy

/-! ### multimaps -/

theorem MM.find_insert (m : MM) (k k' : Nat) (vs : List Nat) :
    (m.insert k vs).find k' = if k' = k then m.find k ++ vs else m.find k' := by
  induction m with
  | nil =>
    by_cases h : k' = k
    · subst h; simp [MM.insert, MM.find]
    · have : (k == k') = false := by simp; omega
      simp [MM.insert, MM.find, h, this]
  | cons p t ih =>
    obtain ⟨a, v⟩ := p
    by_cases hak : a = k
    · subst hak
      by_cases h : k' = a
      · subst h; simp [MM.insert, MM.find]
      · have : (a == k') = false := by simp; omega
        simp [MM.insert, MM.find, h, this]
    · have hb : (a == k) = false := by simp; omega
      by_cases h : k' = k
      · subst h
        simp [MM.insert, MM.find, hb, ih]
      · by_cases h2 : a = k'
        · subst h2; simp [MM.insert, MM.find, hb, h]
        · have hc : (a == k') = false := by simp; omega
          simp [MM.insert, MM.find, hb, hc, ih, h]

/-- what the forward table must hold for `k`: the references of the instance(s) numbered `k`, in file order -/
def fwdSpec (es : List Entry) (k : Nat) : List Nat :=
  match es with
  | [] => []
  | e :: t => (if e.id = k then e.refs else []) ++ fwdSpec t k

/-- what the reverse table must hold for `k`: one entry `e.id` per mention of `k` in `e`, in file order -/
def revSpec (es : List Entry) (k : Nat) : List Nat :=
  match es with
  | [] => []
  | e :: t => (e.refs.filter (· == k)).map (fun _ => e.id) ++ revSpec t k

theorem find_revInserts (rev : MM) (id : Nat) (refs : List Nat) (k : Nat) :
    (revInserts rev id refs).find k = rev.find k ++ (refs.filter (· == k)).map (fun _ => id) := by
  induction refs generalizing rev with
  | nil => simp [revInserts]
  | cons r t ih =>
    simp only [revInserts]
    rw [ih, MM.find_insert]
    by_cases h : k = r
    · subst h; simp
    · have : (r == k) = false := by simp; omega
      simp [h, this]

theorem addLazy_fwd (ix : Index) (e : Entry) (k : Nat) :
    (addLazy ix e).fwd.find k = ix.fwd.find k ++ (if e.id = k then e.refs else []) := by
  unfold addLazy
  by_cases hr : e.refs.isEmpty
  · have : e.refs = [] := by simpa using hr
    simp [this]
  · simp only [hr]
    simp only [Bool.false_eq_true, ↓reduceIte]
    rw [MM.find_insert]
    by_cases h : k = e.id
    · subst h; simp
    · have : ¬ e.id = k := fun h' => h h'.symm
      simp [h, this]

theorem addLazy_rev (ix : Index) (e : Entry) (k : Nat) :
    (addLazy ix e).rev.find k = ix.rev.find k ++ (e.refs.filter (· == k)).map (fun _ => e.id) := by
  unfold addLazy
  simp [find_revInserts]

theorem foldl_addLazy_fwd (es : List Entry) (ix : Index) (k : Nat) :
    (es.foldl addLazy ix).fwd.find k = ix.fwd.find k ++ fwdSpec es k := by
  induction es generalizing ix with
  | nil => simp [fwdSpec]
  | cons e t ih => simp [List.foldl, ih, addLazy_fwd, fwdSpec, List.append_assoc]

theorem foldl_addLazy_rev (es : List Entry) (ix : Index) (k : Nat) :
    (es.foldl addLazy ix).rev.find k = ix.rev.find k ++ revSpec es k := by
  induction es generalizing ix with
  | nil => simp [revSpec]
  | cons e t ih => simp [List.foldl, ih, addLazy_rev, revSpec, List.append_assoc]

theorem foldl_addLazy_entries (es : List Entry) (ix : Index) :
    (es.foldl addLazy ix).entries = ix.entries ++ es := by
  induction es generalizing ix with
  | nil => simp
  | cons e t ih => simp [List.foldl, ih, addLazy, List.append_assoc]

theorem count_revSpec (es : List Entry) (a b : Nat) :
    (revSpec es a).count b = (fwdSpec es b).count a := by
  induction es with
  | nil => simp [revSpec, fwdSpec]
  | cons e t ih =>
    simp only [revSpec, fwdSpec, List.count_append, ih]
    congr 1
    by_cases h : e.id = b
    · subst h
      simp only [↓reduceIte]
      generalize e.refs = l
      induction l with
      | nil => simp
      | cons x xs ihx =>
        by_cases hx : x = a
        · subst hx; simp [List.filter, List.count_cons, ihx]
        · have h1 : (x == a) = false := by simp; omega
          simp [List.filter, h1, List.count_cons, ihx]
    · simp only [h, ↓reduceIte, List.count_nil]
      generalize e.refs = l
      induction l with
      | nil => simp
      | cons x xs ihx =>
        by_cases hx : x = a
        · subst hx
          have : (e.id == b) = false := by simp; omega
          simp [List.filter, List.count_cons, ihx, this]
        · have h1 : (x == a) = false := by simp; omega
          simp [List.filter, h1, ihx]

end StepModel.Lazy

namespace StepModel.Lazy

/-! ### the memoising loader -/

def known (es : List Entry) (id : Nat) : Bool := (refsOf es id).isSome

/-- how the eager reader resolves the references of instance `id`: every instance exists after pass 1, so `#r`
    becomes a non-null pointer exactly when the file has an instance `r` -/
def expected (es : List Entry) (id : Nat) : Option (List (Nat × Bool)) :=
  (refsOf es id).map (fun refs => refs.map (fun r => (r, known es r)))

def U (es : List Entry) (c : Cache) : Nat := (es.filter (fun e => !c.has e.id)).length
def Ext (c c' : Cache) : Prop := ∀ x, c.has x = true → c'.has x = true
def isPend (c : Cache) (x : Nat) : Bool := c.any (fun o => o.id == x && o.resolved.isNone)
/-- every cached object is an instance of the file; it is either still being read or carries the eager resolution, and
    in the latter case every instance it mentions (that the file has) is in the cache as well -/
def WF (es : List Entry) (c : Cache) : Prop :=
  ∀ o ∈ c, known es o.id = true ∧ (o.resolved = none ∨ o.resolved = expected es o.id) ∧
    (o.resolved ≠ none → ∀ refs, refsOf es o.id = some refs → ∀ r ∈ refs, known es r = true → c.has r = true)

theorem Ext.refl (c : Cache) : Ext c c := fun _ h => h
theorem Ext.trans {a b c : Cache} (h1 : Ext a b) (h2 : Ext b c) : Ext a c := fun x h => h2 x (h1 x h)

theorem has_append (c : Cache) (o : Obj) (x : Nat) : (c ++ [o]).has x = (c.has x || o.id == x) := by
  simp [Cache.has, List.any_append]

theorem has_set (c : Cache) (id : Nat) (r : List (Nat × Bool)) (x : Nat) : (c.set id r).has x = c.has x := by
  unfold Cache.set Cache.has
  induction c with
  | nil => rfl
  | cons o t ih =>
    simp only [List.map_cons, List.any_cons, ih]
    by_cases h : o.id == id <;> simp [h]

theorem U_mono (es : List Entry) {c c' : Cache} (h : Ext c c') : U es c' ≤ U es c := by
  unfold U
  induction es with
  | nil => simp
  | cons e t ih =>
    simp only [List.filter_cons]
    by_cases h1 : c.has e.id = true
    · have := h _ h1
      simp [h1, this, ih]
    · have h1' : c.has e.id = false := by simpa using h1
      by_cases h2 : c'.has e.id = true
      · simp [h1', h2]; omega
      · have h2' : c'.has e.id = false := by simpa using h2
        simp [h1', h2']; omega

theorem refsOf_some_mem {es : List Entry} {id : Nat} {refs : List Nat} (h : refsOf es id = some refs) :
    ∃ e ∈ es, e.id = id := by
  unfold refsOf at h
  cases hf : es.find? (fun e => e.id == id) with
  | none => simp [hf] at h
  | some e =>
    refine ⟨e, List.mem_of_find?_eq_some hf, ?_⟩
    have := List.find?_some hf
    simpa using this

theorem U_lt (es : List Entry) (c : Cache) (o : Obj) (hk : ∃ e ∈ es, e.id = o.id) (hn : c.has o.id = false) :
    U es (c ++ [o]) < U es c := by
  unfold U
  obtain ⟨e, he, hid⟩ := hk
  induction es with
  | nil => cases he
  | cons a t ih =>
    simp only [List.filter_cons]
    have hle : (t.filter (fun e => !(c ++ [o]).has e.id)).length ≤ (t.filter (fun e => !c.has e.id)).length :=
      U_mono t (c := c) (c' := c ++ [o]) (fun x hx => by simp [has_append, hx])
    by_cases ha : a.id = o.id
    · have h1 : c.has a.id = false := by rw [ha]; exact hn
      have h2 : (c ++ [o]).has a.id = true := by simp [has_append, ha]
      simp [h1, h2]; omega
    · have he' : e ∈ t := by
        cases he with
        | head => exact absurd hid ha
        | tail _ h => exact h
      have := ih he'
      have h3 : (c ++ [o]).has a.id = c.has a.id := by
        have : (o.id == a.id) = false := by simp; exact fun h => ha h.symm
        simp [has_append, this]
      rw [h3]
      by_cases h4 : c.has a.id = true
      · simp [h4]; exact this
      · have h4' : c.has a.id = false := by simpa using h4
        simp [h4']; exact this

theorem has_known {es : List Entry} {c : Cache} (hw : WF es c) {x : Nat} (h : c.has x = true) : known es x = true := by
  unfold Cache.has at h
  rw [List.any_eq_true] at h
  obtain ⟨o, ho, hx⟩ := h
  have : o.id = x := by simpa using hx
  rw [← this]; exact (hw o ho).1

/-- what one `loadInstance` call guarantees (cache-before-read variant) -/
def LoadSpec (es : List Entry) (f : Nat) : Prop :=
  ∀ c id, U es c < f → WF es c →
    ∃ c', load true es f c id = .ok (c', known es id) ∧ Ext c c' ∧ WF es c' ∧
      (∀ x, isPend c' x = true → isPend c x = true) ∧ (known es id = true → c'.has id = true)

theorem loadRefs_spec (es : List Entry) (f : Nat) (IH : LoadSpec es f) :
    ∀ (refs : List Nat) (c : Cache) (acc : List (Nat × Bool)), U es c < f → WF es c →
      ∃ c', loadRefsWith (load true es f) c refs acc = .ok (c', acc.reverse ++ refs.map (fun r => (r, known es r))) ∧
        Ext c c' ∧ WF es c' ∧ (∀ x, isPend c' x = true → isPend c x = true) ∧
        (∀ r ∈ refs, known es r = true → c'.has r = true) := by
  intro refs
  induction refs with
  | nil => intro c acc _ hw; exact ⟨c, by simp [loadRefsWith], Ext.refl c, hw, fun _ h => h, fun _ h => by cases h⟩
  | cons r t ih =>
    intro c acc hu hw
    obtain ⟨c1, h1, e1, w1, p1, k1⟩ := IH c r hu hw
    have hu1 : U es c1 < f := Nat.lt_of_le_of_lt (U_mono es e1) hu
    obtain ⟨c2, h2, e2, w2, p2, k2⟩ := ih c1 ((r, known es r) :: acc) hu1 w1
    refine ⟨c2, ?_, e1.trans e2, w2, fun x h => p1 x (p2 x h), ?_⟩
    · simp only [loadRefsWith, h1, h2]
      simp
    · intro q hq hk
      rcases List.mem_cons.mp hq with h | h
      · rw [h]; rw [h] at hk; exact e2 r (k1 hk)
      · exact k2 q h hk

theorem isPend_append (c : Cache) (o : Obj) (x : Nat) :
    isPend (c ++ [o]) x = (isPend c x || (o.id == x && o.resolved.isNone)) := by
  simp [isPend, List.any_append]

theorem load_spec (es : List Entry) : ∀ f, LoadSpec es f := by
  intro f
  induction f with
  | zero => intro c id h; omega
  | succ f ih =>
    intro c id hu hw
    unfold load
    by_cases hc : c.has id = true
    · simp only [hc, ↓reduceIte]
      exact ⟨c, by rw [has_known hw hc], Ext.refl c, hw, fun _ h => h, fun _ => hc⟩
    · have hc' : c.has id = false := by simpa using hc
      simp only [hc', Bool.false_eq_true, ↓reduceIte]
      cases hr : refsOf es id with
      | none =>
        have hk : known es id = false := by simp [known, hr]
        simp only [hk]
        exact ⟨c, rfl, Ext.refl c, hw, fun _ h => h, fun h => by simp at h⟩
      | some refs =>
        have hk : known es id = true := by simp [known, hr]
        simp only [↓reduceIte]
        let o : Obj := { id := id, resolved := none }
        have hw0 : WF es (c ++ [o]) := by
          intro o' ho'
          rcases List.mem_append.mp ho' with h | h
          · refine ⟨(hw o' h).1, (hw o' h).2.1, fun hne refs hr' r hr hkr => ?_⟩
            have := (hw o' h).2.2 hne refs hr' r hr hkr
            simp [has_append, this]
          · have : o' = o := by simpa using h
            subst this; exact ⟨hk, Or.inl rfl, fun hne => absurd rfl hne⟩
        have hu0 : U es (c ++ [o]) < f := by
          have := U_lt es c o (refsOf_some_mem hr) hc'
          omega
        obtain ⟨c1, h1, e1, w1, p1, kr⟩ := loadRefs_spec es f ih refs (c ++ [o]) [] hu0 hw0
        simp only [List.reverse_nil, List.nil_append] at h1
        rw [h1]
        simp only
        have hex : expected es id = some (refs.map (fun r => (r, known es r))) := by simp [expected, hr]
        refine ⟨_, by rw [hk], ?_, ?_, ?_, ?_⟩
        · intro x hx
          rw [has_set]
          exact e1 x (by simp [has_append, hx])
        · intro o' ho'
          unfold Cache.set at ho'
          rw [List.mem_map] at ho'
          obtain ⟨o1, ho1, rfl⟩ := ho'
          by_cases hid : o1.id == id
          · have hid' : o1.id = id := by simpa using hid
            simp only [hid, ↓reduceIte]
            refine ⟨by rw [hid']; exact hk, Or.inr (by rw [hid', hex]), fun _ refs' hr' r hrm hkr => ?_⟩
            rw [has_set]
            rw [hid', hr] at hr'
            cases hr'
            exact kr r hrm hkr
          · simp only [hid, Bool.false_eq_true, ↓reduceIte]
            refine ⟨(w1 o1 ho1).1, (w1 o1 ho1).2.1, fun hne refs' hr' r hr hkr => ?_⟩
            rw [has_set]
            exact (w1 o1 ho1).2.2 hne refs' hr' r hr hkr
        · intro x hx
          unfold isPend Cache.set at hx
          rw [List.any_eq_true] at hx
          obtain ⟨o', ho', hp⟩ := hx
          rw [List.mem_map] at ho'
          obtain ⟨o1, ho1, rfl⟩ := ho'
          by_cases hid : o1.id == id
          · simp [hid] at hp
          · simp only [hid, Bool.false_eq_true, ↓reduceIte] at hp
            have hp1 : isPend c1 x = true := by
              unfold isPend; rw [List.any_eq_true]; exact ⟨o1, ho1, hp⟩
            have hp0 := p1 x hp1
            rw [isPend_append] at hp0
            have hx1 : o1.id = x := by
              have := hp; simp at this; exact this.1
            have : (o.id == x) = false := by
              have h' : ¬ o1.id = id := by simpa using hid
              show (id == x) = false
              simp; rw [← hx1]; exact fun h => h' h.symm
            simpa [this] using hp0
        · intro _
          rw [has_set]
          exact e1 id (by simp [has_append, o])

end StepModel.Lazy

namespace StepModel.Lazy

/-! ### `instanceDependencies` -/

/-- transitive closure of a relation (reflexive-free): `Reach R a b` = a non-empty `R`-path from `a` to `b` -/
inductive Reach (R : Nat → Nat → Prop) : Nat → Nat → Prop
  | single {a b} : R a b → Reach R a b
  | tail {a b c} : Reach R a b → R b c → Reach R a c

/-- potential: references still to be enqueued -/
def pot (m : MM) (checked : List Nat) : Nat :=
  (m.map (fun p => if checked.contains p.1 then 0 else (m.find p.1).length)).sum

theorem find_ne_nil_mem (m : MM) (q : Nat) (h : m.find q ≠ []) : ∃ p ∈ m, p.1 = q := by
  induction m with
  | nil => simp [MM.find] at h
  | cons p t ih =>
    obtain ⟨a, v⟩ := p
    by_cases ha : a = q
    · exact ⟨(a, v), by simp, ha⟩
    · have : (a == q) = false := by simp; omega
      simp only [MM.find, this] at h
      obtain ⟨p, hp, hq⟩ := ih h
      exact ⟨p, List.mem_cons_of_mem _ hp, hq⟩

theorem sum_le_of_pointwise {α} (l : List α) (g h : α → Nat) (hle : ∀ a ∈ l, g a ≤ h a) :
    (l.map g).sum ≤ (l.map h).sum := by
  induction l with
  | nil => simp
  | cons a t ih =>
    simp only [List.map_cons, List.sum_cons]
    have := hle a (by simp)
    have := ih (fun b hb => hle b (List.mem_cons_of_mem _ hb))
    omega

theorem sum_add_le {α} (l : List α) (g h : α → Nat) (x : Nat) (hle : ∀ a ∈ l, g a ≤ h a)
    (hex : ∃ a ∈ l, g a + x ≤ h a) : (l.map g).sum + x ≤ (l.map h).sum := by
  induction l with
  | nil => obtain ⟨a, ha, _⟩ := hex; cases ha
  | cons a t ih =>
    simp only [List.map_cons, List.sum_cons]
    obtain ⟨b, hb, hbx⟩ := hex
    have h1 := hle a (by simp)
    have hle' : ∀ b ∈ t, g b ≤ h b := fun b hb => hle b (List.mem_cons_of_mem _ hb)
    cases hb with
    | head =>
      have := sum_le_of_pointwise t g h hle'
      omega
    | tail _ hb' =>
      have := ih hle' ⟨b, hb', hbx⟩
      omega

theorem pot_step (m : MM) (checked : List Nat) (q : Nat) (hq : checked.contains q = false) :
    pot m (q :: checked) + (m.find q).length ≤ pot m checked := by
  unfold pot
  have hcons : ∀ x, (q :: checked).contains x = (x == q || checked.contains x) :=
    fun x => List.contains_cons
  have hle : ∀ p ∈ m, (if (q :: checked).contains p.1 then 0 else (m.find p.1).length) ≤
      (if checked.contains p.1 then 0 else (m.find p.1).length) := by
    intro p _
    rw [hcons]
    cases checked.contains p.1 <;> cases (p.1 == q) <;> simp
  by_cases hn : m.find q = []
  · rw [hn]; simp only [List.length_nil, Nat.add_zero]
    exact sum_le_of_pointwise m _ _ hle
  · obtain ⟨p, hp, hpq⟩ := find_ne_nil_mem m q hn
    apply sum_add_le m _ _ _ hle
    refine ⟨p, hp, ?_⟩
    have h1 : (q :: checked).contains p.1 = true := by rw [hcons, hpq]; simp
    have h2 : checked.contains p.1 = false := by rw [hpq]; exact hq
    rw [h1, h2, hpq]; simp

/-- the worklist loop terminates within the fuel `deps` gives it -/
theorem depsLoop_terminates (m : MM) : ∀ (f : Nat) (queue checked : List Nat),
    queue.length + pot m checked ≤ f → ∃ d, depsLoop m.find f queue checked = .ok d := by
  intro f
  induction f with
  | zero =>
    intro queue checked h
    have : queue = [] := by
      cases queue with
      | nil => rfl
      | cons a t => simp at h
    subst this; exact ⟨checked, by simp [depsLoop]⟩
  | succ f ih =>
    intro queue checked h
    cases queue with
    | nil => exact ⟨checked, by simp [depsLoop]⟩
    | cons q rest =>
      simp only [depsLoop]
      by_cases hc : checked.contains q = true
      · simp only [hc, ↓reduceIte]
        apply ih; simp at h; omega
      · have hc' : checked.contains q = false := by simpa using hc
        simp only [hc', Bool.false_eq_true, ↓reduceIte]
        apply ih
        have := pot_step m checked q hc'
        simp at h ⊢; omega

/-- invariant for completeness: everything a checked node (or the start) mentions is checked or queued -/
def Closed (F : Nat → List Nat) (start : Nat) (queue checked : List Nat) : Prop :=
  (∀ x ∈ F start, x ∈ queue ∨ x ∈ checked) ∧ (∀ c ∈ checked, ∀ x ∈ F c, x ∈ queue ∨ x ∈ checked)

theorem depsLoop_inv (F : Nat → List Nat) (start : Nat) : ∀ (f : Nat) (queue checked d : List Nat),
    depsLoop F f queue checked = .ok d →
    (∀ x, x ∈ queue ∨ x ∈ checked → Reach (fun a b => b ∈ F a) start x) →
    Closed F start queue checked →
    (∀ x ∈ d, Reach (fun a b => b ∈ F a) start x) ∧ Closed F start [] d := by
  intro f
  induction f with
  | zero =>
    intro queue checked d h hs hc
    cases queue with
    | nil =>
      simp [depsLoop] at h; subst h
      exact ⟨fun x hx => hs x (Or.inr hx), hc⟩
    | cons q rest => simp [depsLoop] at h
  | succ f ih =>
    intro queue checked d h hs hc
    cases queue with
    | nil =>
      simp [depsLoop] at h; subst h
      exact ⟨fun x hx => hs x (Or.inr hx), hc⟩
    | cons q rest =>
      simp only [depsLoop] at h
      by_cases hq : checked.contains q = true
      · simp only [hq, ↓reduceIte] at h
        have hq' : q ∈ checked := by simpa using hq
        apply ih rest checked d h
        · intro x hx
          rcases hx with hx | hx
          · exact hs x (Or.inl (List.mem_cons_of_mem _ hx))
          · exact hs x (Or.inr hx)
        · refine ⟨fun x hx => ?_, fun c hcc x hx => ?_⟩
          · rcases hc.1 x hx with h1 | h1
            · rcases List.mem_cons.mp h1 with h2 | h2
              · right; rw [h2]; exact hq'
              · left; exact h2
            · right; exact h1
          · rcases hc.2 c hcc x hx with h1 | h1
            · rcases List.mem_cons.mp h1 with h2 | h2
              · right; rw [h2]; exact hq'
              · left; exact h2
            · right; exact h1
      · have hq' : checked.contains q = false := by simpa using hq
        simp only [hq', Bool.false_eq_true, ↓reduceIte] at h
        have hrq : Reach (fun a b => b ∈ F a) start q := hs q (Or.inl (by simp))
        apply ih (rest ++ F q) (q :: checked) d h
        · intro x hx
          rcases hx with hx | hx
          · rcases List.mem_append.mp hx with h1 | h1
            · exact hs x (Or.inl (List.mem_cons_of_mem _ h1))
            · exact Reach.tail hrq h1
          · rcases List.mem_cons.mp hx with h1 | h1
            · rw [h1]; exact hrq
            · exact hs x (Or.inr h1)
        · refine ⟨fun x hx => ?_, fun c hcc x hx => ?_⟩
          · rcases hc.1 x hx with h1 | h1
            · rcases List.mem_cons.mp h1 with h2 | h2
              · right; rw [h2]; simp
              · left; exact List.mem_append_left _ h2
            · right; exact List.mem_cons_of_mem _ h1
          · rcases List.mem_cons.mp hcc with h0 | h0
            · subst h0; left; exact List.mem_append_right _ hx
            · rcases hc.2 c h0 x hx with h1 | h1
              · rcases List.mem_cons.mp h1 with h2 | h2
                · right; rw [h2]; simp
                · left; exact List.mem_append_left _ h2
              · right; exact List.mem_cons_of_mem _ h1

theorem closed_reach (F : Nat → List Nat) (start : Nat) (d : List Nat) (hc : Closed F start [] d) :
    ∀ x, Reach (fun a b => b ∈ F a) start x → x ∈ d := by
  intro x hx
  induction hx with
  | single h =>
    rcases hc.1 _ h with h1 | h1
    · cases h1
    · exact h1
  | tail _ h ih =>
    rcases hc.2 _ ih _ h with h1 | h1
    · cases h1
    · exact h1


/-! ### nothing but the requested instance and what it reaches is loaded -/

/-- `a` mentions `b` (`a` an instance of the file) -/
def Mentions (es : List Entry) (a b : Nat) : Prop := ∃ refs, refsOf es a = some refs ∧ b ∈ refs

theorem Reach.head {R : Nat → Nat → Prop} {a b c : Nat} (h : R a b) (hr : Reach R b c) : Reach R a c := by
  induction hr with
  | single h2 => exact Reach.tail (Reach.single h) h2
  | tail _ h2 ih => exact Reach.tail ih h2

theorem loadRefs_new (es : List Entry) (f : Nat)
    (IH : ∀ c id c' b, load true es f c id = .ok (c', b) → ∀ x, c'.has x = true →
      c.has x = true ∨ x = id ∨ Reach (Mentions es) id x) :
    ∀ (refs : List Nat) (c : Cache) (acc : List (Nat × Bool)) (c' : Cache) (res : List (Nat × Bool)),
      loadRefsWith (load true es f) c refs acc = .ok (c', res) → ∀ x, c'.has x = true →
        c.has x = true ∨ ∃ r ∈ refs, x = r ∨ Reach (Mentions es) r x := by
  intro refs
  induction refs with
  | nil =>
    intro c acc c' res h x hx
    simp only [loadRefsWith] at h
    injection h with h1; injection h1 with h2 _
    rw [← h2] at hx; exact Or.inl hx
  | cons r t ih =>
    intro c acc c' res h x hx
    simp only [loadRefsWith] at h
    cases hl : load true es f c r with
    | ok p =>
      obtain ⟨c1, b⟩ := p
      simp only [hl] at h
      rcases ih c1 _ c' res h x hx with h1 | ⟨q, hq, hxq⟩
      · rcases IH c r c1 b hl x h1 with h2 | h2 | h2
        · exact Or.inl h2
        · exact Or.inr ⟨r, by simp, Or.inl h2⟩
        · exact Or.inr ⟨r, by simp, Or.inr h2⟩
      · exact Or.inr ⟨q, List.mem_cons_of_mem _ hq, hxq⟩
    | fail => simp [hl] at h
    | crash => simp [hl] at h
    | outOfFuel => simp [hl] at h

theorem load_new (es : List Entry) : ∀ (f : Nat) (c : Cache) (id : Nat) (c' : Cache) (b : Bool),
    load true es f c id = .ok (c', b) → ∀ x, c'.has x = true → c.has x = true ∨ x = id ∨ Reach (Mentions es) id x := by
  intro f
  induction f with
  | zero => intro c id c' b h; simp [load] at h
  | succ f ih =>
    intro c id c' b h x hx
    unfold load at h
    by_cases hc : c.has id = true
    · simp only [hc, ↓reduceIte] at h
      injection h with h1; injection h1 with h2 _
      rw [← h2] at hx; exact Or.inl hx
    · have hc' : c.has id = false := by simpa using hc
      simp only [hc', Bool.false_eq_true, ↓reduceIte] at h
      cases hr : refsOf es id with
      | none =>
        simp only [hr] at h
        injection h with h1; injection h1 with h2 _
        rw [← h2] at hx; exact Or.inl hx
      | some refs =>
        simp only [hr, ↓reduceIte] at h
        cases hl : loadRefsWith (load true es f) (c ++ [{ id := id, resolved := none }]) refs [] with
        | ok p =>
          obtain ⟨c1, res⟩ := p
          simp only [hl] at h
          injection h with h1; injection h1 with h2 _
          rw [← h2, has_set] at hx
          rcases loadRefs_new es f ih refs _ [] c1 res hl x hx with h3 | ⟨r, hrm, hxr⟩
          · rw [has_append] at h3
            simp only [Bool.or_eq_true, beq_iff_eq] at h3
            rcases h3 with h4 | h4
            · exact Or.inl h4
            · exact Or.inr (Or.inl h4.symm)
          · have hm : Mentions es id r := ⟨refs, hr, hrm⟩
            rcases hxr with h5 | h5
            · rw [h5]; exact Or.inr (Or.inr (Reach.single hm))
            · exact Or.inr (Or.inr (Reach.head hm h5))
        | fail => simp [hl] at h
        | crash => simp [hl] at h
        | outOfFuel => simp [hl] at h

theorem loadAll_new (es : List Entry) (fuel : Nat) : ∀ (ids : List Nat) (c c' : Cache) (bs : List Bool),
    loadAll true es fuel c ids = .ok (c', bs) → ∀ x, c'.has x = true →
      c.has x = true ∨ ∃ id ∈ ids, x = id ∨ Reach (Mentions es) id x := by
  intro ids
  induction ids with
  | nil =>
    intro c c' bs h x hx
    simp only [loadAll] at h
    injection h with h1; injection h1 with h2 _
    rw [← h2] at hx; exact Or.inl hx
  | cons i t ih =>
    intro c c' bs h x hx
    simp only [loadAll] at h
    cases hl : load true es fuel c i with
    | ok p =>
      obtain ⟨c1, b⟩ := p
      simp only [hl] at h
      cases hl2 : loadAll true es fuel c1 t with
      | ok q =>
        obtain ⟨c2, bs2⟩ := q
        simp only [hl2] at h
        injection h with h1; injection h1 with h2 _
        rw [← h2] at hx
        rcases ih c1 c2 bs2 hl2 x hx with h3 | ⟨j, hj, hxj⟩
        · rcases load_new es fuel c i c1 b hl x h3 with h4 | h4 | h4
          · exact Or.inl h4
          · exact Or.inr ⟨i, by simp, Or.inl h4⟩
          · exact Or.inr ⟨i, by simp, Or.inr h4⟩
        · exact Or.inr ⟨j, List.mem_cons_of_mem _ hj, hxj⟩
      | fail => simp [hl2] at h
      | crash => simp [hl2] at h
      | outOfFuel => simp [hl2] at h
    | fail => simp [hl] at h
    | crash => simp [hl] at h
    | outOfFuel => simp [hl] at h

end StepModel.Lazy

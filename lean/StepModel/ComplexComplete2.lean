import StepModel.ComplexComplete1
/-! Completeness on distinct leaves, tools: leaves of a stateful hierarchy, what a finished part must hold (`Cov`), where
MATCHALL sits (`HasAll`), dead parts hold nothing, `setViableVal` as a maximum by rank. -/
namespace StepModel.Complex.Match
open StepModel.Generated StepModel.Complex

mutual
  def lvS : ST → List Name
    | .simple n _ _ => [n]
    | .mult _ _ _ _ _ cs => lvSL cs
  def lvSL : List ST → List Name
    | [] => []
    | c :: cs => lvS c ++ lvSL cs
end

mutual
  theorem lvS_eq : ∀ (t : ST), lvS t = leaves (trV (skel t))
    | .simple _ _ _ => rfl
    | .mult .and _ _ _ _ cs => by simp only [lvS, skel, trV, leaves, lvSL_eq cs]
    | .mult .or _ _ _ _ cs => by simp only [lvS, skel, trV, leaves, lvSL_eq cs]
    | .mult .andor _ _ _ _ cs => by simp only [lvS, skel, trV, leaves, lvSL_eq cs]
  theorem lvSL_eq : ∀ (cs : List ST), lvSL cs = leavesL (trVL (skelL cs))
    | [] => rfl
    | c :: cs => by simp only [lvSL, skelL, trVL, leavesL, lvS_eq c, lvSL_eq cs]
end

mutual
  theorem holds_sub : ∀ (t : ST) (n : Name), n ∈ holds t → n ∈ lvS t
    | .simple m _ im, n, h => by
      simp only [holds] at h
      split at h
      · cases h
      · simpa [lvS] using h
    | .mult _ _ _ _ _ cs, n, h => by simp only [holds] at h; simp only [lvS]; exact holdsL_sub cs n h
  theorem holdsL_sub : ∀ (cs : List ST) (n : Name), n ∈ holdsL cs → n ∈ lvSL cs
    | [], _, h => by simp [holdsL] at h
    | c :: cs, n, h => by
      simp only [holdsL, List.mem_append] at h
      simp only [lvSL, List.mem_append]
      rcases h with e | e
      · exact Or.inl (holds_sub c n e)
      · exact Or.inr (holdsL_sub cs n e)
end

mutual
  /-- the leaves that are not below an OrList still waiting for `matchORs` -/
  def dl : ST → List Name
    | .simple n _ _ => [n]
    | .mult j v _ _ _ cs => if v = .unknown then (if j = .or then [] else dlL cs) else lvSL cs
  def dlL : List ST → List Name
    | [] => []
    | c :: cs => dl c ++ dlL cs
end

/-- every member of the request among the finished leaves is held -/
def Cov (N : List Name) (t : ST) : Prop := ∀ n ∈ N, n ∈ dl t → n ∈ holds t
def CovL (N : List Name) (cs : List ST) : Prop := ∀ n ∈ N, n ∈ dlL cs → n ∈ holdsL cs

theorem CovL_cons {N : List Name} {c : ST} {cs : List ST} (h1 : Cov N c) (h2 : CovL N cs) : CovL N (c :: cs) := by
  intro n hn hd
  simp only [dlL, List.mem_append] at hd
  simp only [holdsL, List.mem_append]
  rcases hd with e | e
  · exact Or.inl (h1 n hn e)
  · exact Or.inr (h2 n hn e)

mutual
  /-- MATCHALL sits at this list, or (the list still waiting) at a list below -/
  def HasAll : ST → Prop
    | .simple _ v _ => v = .all
    | .mult _ v _ _ _ cs => v = .all ∨ (v = .unknown ∧ HasAllAny cs)
  def HasAllAny : List ST → Prop
    | [] => False
    | c :: cs => HasAll c ∨ HasAllAny cs
end

theorem HasAllAny_iff (cs : List ST) : HasAllAny cs ↔ ∃ c ∈ cs, HasAll c := by
  induction cs with
  | nil => simp [HasAllAny]
  | cons a l ih => simp [HasAllAny, ih]

theorem HasAll_known {t : ST} (h : HasAll t) (hk : t.viable ≠ .unknown) : t.viable = .all := by
  cases t with
  | simple n v im => exact h
  | mult j v c c1 k cs =>
    rcases h with e | e
    · exact e
    · exact absurd e.1 hk

/-- a part without a leaf in the request holds nothing -/
theorem dead_H0 {N : List Name} {t : ST} {es : Ents} {o : Name → Nat} (hfr : Fr o t es) (hnm : names es = N)
    (hdead : ∀ x ∈ lvS t, x ∉ N) : holds t = [] := by
  apply List.eq_nil_iff_forall_not_mem.mpr
  intro n hn
  have hpos : 0 < cnt n t := List.count_pos_iff.mpr hn
  have := hfr.1 n
  have hm : markAt es n ≠ .no := by
    intro e; rw [e] at this; simp at this; omega
  have hN : n ∈ N := by rw [← hnm]; exact mem_of_markAt hm
  exact hdead n (holds_sub t n hn) hN

/-- … and if nothing was held before either, the marks are what they were -/
theorem marks_same_of_H0 {o : Name → Nat} {es es' : Ents} (h0 : Fr0 o es) (h1 : Fr0 o es') (hs : SameOut o es es') :
    ∀ x, markAt es' x = markAt es x := by
  intro x
  by_cases ho : 0 < o x
  · exact hs x ho
  · have hz : o x = 0 := by omega
    have a := h0 x
    have b := h1 x
    rw [hz] at a b
    have ea : markAt es x = .no := by
      apply Classical.byContradiction; intro hne; simp [hne] at a
    have eb : markAt es' x = .no := by
      apply Classical.byContradiction; intro hne; simp [hne] at b
    rw [ea, eb]

theorem allMarked_congr' {es es' : Ents} (hn : names es' = names es) (hnd : (names es).Nodup)
    (h : ∀ x, markAt es' x = markAt es x) : allMarked es' = allMarked es := by
  have a := allMarked_markAt (es := es) hnd
  have b := allMarked_markAt (es := es') (by rw [hn]; exact hnd)
  have key : allMarked es' = true ↔ allMarked es = true := by
    rw [a, b, hn]
    constructor
    · intro h' n hn'; rw [← h n]; exact h' n hn'
    · intro h' n hn'; rw [h n]; exact h' n hn'
  cases h1 : allMarked es' <;> cases h2 : allMarked es
  · rfl
  · exact absurd (key.mpr h2) (by rw [h1]; simp)
  · exact absurd (key.mp h1) (by rw [h2]; simp)
  · rfl

-- ------------------------------------------------------------------ setViableVal by rank
theorem go_rank_ge (es : Ents) : ∀ (cs : List ST) (v0 : MT), (∀ c ∈ cs, c.viable ≠ .unknown) →
    (MT.rank .some_ ≤ v0.rank ∨ ∃ c ∈ cs, MT.rank .some_ ≤ c.viable.rank) →
    MT.rank .some_ ≤ (setViableVal.go es v0 cs).rank
  | [], v0, _, h => by
    simp only [setViableVal.go]
    rcases h with h | ⟨c, hc, _⟩
    · split
      · decide
      · exact h
    · cases hc
  | c :: cs, v0, hu, h => by
    have hcu := hu c (by simp)
    simp only [setViableVal.go, hcu, if_false]
    apply go_rank_ge es cs _ (fun c' hc' => hu c' (List.mem_cons_of_mem _ hc'))
    rcases h with h | ⟨c', hc', hr⟩
    · left; split <;> omega
    · rcases List.mem_cons.mp hc' with e | e
      · subst e; left; split <;> omega
      · exact Or.inr ⟨c', e, hr⟩

theorem setViableVal_ge_some {cs : List ST} {es : Ents} (hu : ∀ c ∈ cs, c.viable ≠ .unknown)
    (h : ∃ c ∈ cs, c.atLeastSome = true) : MT.rank .some_ ≤ (setViableVal cs es).rank := by
  obtain ⟨c, hc, ha⟩ := h
  exact go_rank_ge es cs .unknown hu (Or.inr ⟨c, hc, of_decide_eq_true ha⟩)

theorem go_all_of (es : Ents) (ham : allMarked es = true) : ∀ (cs : List ST) (v0 : MT), (∀ c ∈ cs, c.viable ≠ .unknown) →
    (∀ c ∈ cs, c.viable.rank ≤ 4) → v0.rank ≤ 4 → (v0 = .all ∨ ∃ c ∈ cs, c.viable = .all) →
    setViableVal.go es v0 cs = .all
  | [], v0, _, _, _, h => by
    simp only [setViableVal.go]
    rcases h with h | ⟨c, hc, _⟩
    · subst h; simp [ham]
    · cases hc
  | c :: cs, v0, hu, hr, hv, h => by
    have hcu := hu c (by simp)
    have hcr := hr c (by simp)
    simp only [setViableVal.go, hcu, if_false]
    apply go_all_of es ham cs _ (fun c' hc' => hu c' (List.mem_cons_of_mem _ hc')) (fun c' hc' => hr c' (List.mem_cons_of_mem _ hc'))
    · split <;> assumption
    · rcases h with h | ⟨c', hc', he⟩
      · subst h
        left
        split
        · rename_i hlt
          -- rank 4 < rank c: impossible
          have : MT.rank .all = 4 := rfl
          omega
        · rfl
      · rcases List.mem_cons.mp hc' with e | e
        · subst e
          left
          split
          · exact he
          · rename_i hnlt
            rw [he] at hnlt
            simp [MT.rank] at hnlt
            -- v0.rank ≥ 4 and ≤ 4: v0 = all
            cases v0 <;> simp [MT.rank] at hnlt hv ⊢
        · exact Or.inr ⟨c', e, he⟩

theorem stored_rank_le {v : MT} (h : Stored v) : v.rank ≤ 4 := by
  cases v <;> simp [Stored, MT.rank] at h ⊢

theorem setViableVal_all_of {cs : List ST} {es : Ents} (ham : allMarked es = true) (hu : ∀ c ∈ cs, c.viable ≠ .unknown)
    (hst : ∀ c ∈ cs, Stored c.viable) (h : ∃ c ∈ cs, c.viable = .all) : setViableVal cs es = .all :=
  go_all_of es ham cs .unknown hu (fun c hc => stored_rank_le (hst c hc)) (by decide) (Or.inr h)

end StepModel.Complex.Match

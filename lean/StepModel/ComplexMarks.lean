import StepModel.ComplexFuel
/-!
# Marks, made explicit — towards exactness of the matcher on hierarchies with OrLists

`markAt es n` — the mark of request member `n`; `holds t` — the names of the SimpleLists of `t` that carry `I_marked ≠
NOMARK` (the marks the hierarchy is responsible for).  Frame invariant `Fr o t es`: every marked member is held by exactly
one SimpleList (of `t`, or outside: `o`), with the same mark value, and only SimpleLists with `viable ≥ MATCHSOME` hold.
-/
namespace StepModel.Complex.Match
open StepModel.Generated StepModel.Complex

def markAt : Ents → Name → Mark
  | [], _ => .no
  | e :: es, n => if e.name = n then e.mark else markAt es n

theorem markAt_not_mem : ∀ (es : Ents) (n : Name), n ∉ names es → markAt es n = .no
  | [], _, _ => rfl
  | e :: es, n, h => by
    simp only [names, List.map_cons, List.mem_cons, not_or] at h
    simp only [markAt]
    rw [if_neg (fun h' => h.1 h'.symm)]
    exact markAt_not_mem es n h.2

theorem mem_of_markAt {es : Ents} {n : Name} (h : markAt es n ≠ .no) : n ∈ names es :=
  Classical.byContradiction (fun hn => h (markAt_not_mem es n hn))

theorem markAt_get : ∀ (es : Ents) (i : Nat) (e : ENode), (names es).Nodup → es[i]? = some e → markAt es e.name = e.mark
  | [], i, e, _, h => by simp at h
  | a :: as, 0, e, _, h => by
    simp at h; subst h; simp [markAt]
  | a :: as, i + 1, e, hn, h => by
    simp only [names, List.map_cons, List.nodup_cons] at hn
    have h' : as[i]? = some e := by simpa using h
    have hne : a.name ≠ e.name := by
      intro heq; exact hn.1 (by rw [heq]; exact List.mem_map_of_mem (List.mem_of_getElem? h'))
    simp only [markAt, hne, if_false]
    exact markAt_get as i e hn.2 h'

theorem markAt_set : ∀ (es : Ents) (i : Nat) (e : ENode) (m : Mark) (x : Name), (names es).Nodup → es[i]? = some e →
    markAt (es.set i { e with mark := m }) x = if x = e.name then m else markAt es x
  | [], i, e, _, _, _, h => by simp at h
  | a :: as, 0, e, m, x, _, h => by
    simp at h; subst h
    simp only [List.set_cons_zero, markAt]
    by_cases hx : a.name = x
    · simp [hx]
    · have : ¬ x = a.name := fun h' => hx h'.symm
      simp [hx, this]
  | a :: as, i + 1, e, m, x, hn, h => by
    simp only [names, List.map_cons, List.nodup_cons] at hn
    have h' : as[i]? = some e := by simpa using h
    have hne : a.name ≠ e.name := by
      intro heq; exact hn.1 (by rw [heq]; exact List.mem_map_of_mem (List.mem_of_getElem? h'))
    simp only [List.set_cons_succ, markAt]
    rw [markAt_set as i e m x hn.2 h']
    by_cases hx : a.name = x
    · have : ¬ x = e.name := fun h'' => hne (hx.trans h'')
      simp [hx, this]
    · simp [hx]

theorem markAt_setMark {es : Ents} (hn : (names es).Nodup) {i : Nat} {e : ENode} (he : es[i]? = some e) (m : Mark) (x : Name) :
    markAt (setMark es i m) x = if x = e.name then m else markAt es x := by
  unfold setMark
  rw [he]
  exact markAt_set es i e m x hn he

theorem allMarked_markAt {es : Ents} (hn : (names es).Nodup) : allMarked es = true ↔ ∀ n ∈ names es, markAt es n ≠ .no := by
  simp only [allMarked, List.all_eq_true, decide_eq_true_eq]
  constructor
  · intro h n hn'
    simp only [names, List.mem_map] at hn'
    obtain ⟨e, he, rfl⟩ := hn'
    obtain ⟨i, hi⟩ := List.getElem?_of_mem he
    rw [markAt_get es i e hn hi]; exact h e he
  · intro h e he
    obtain ⟨i, hi⟩ := List.getElem?_of_mem he
    have := h e.name (List.mem_map_of_mem he)
    rw [markAt_get es i e hn hi] at this; exact this

theorem nodup_of_sorted {l : List Name} (h : l.Pairwise (· < ·)) : l.Nodup := h.imp (fun hlt => Nat.ne_of_lt hlt)

-- ------------------------------------------------------------------ what the hierarchy holds
mutual
  /-- names of the SimpleLists with `I_marked ≠ NOMARK` -/
  def holds : ST → List Name
    | .simple n _ im => if im = .no then [] else [n]
    | .mult _ _ _ _ _ cs => holdsL cs
  def holdsL : List ST → List Name
    | [] => []
    | c :: cs => holds c ++ holdsL cs
end

def cnt (n : Name) (t : ST) : Nat := (holds t).count n
def cntL (n : Name) (cs : List ST) : Nat := (holdsL cs).count n

mutual
  /-- every holder's request member carries exactly the holder's mark value, and holders have `viable ≥ MATCHSOME` -/
  def Loc (es : Ents) : ST → Prop
    | .simple n v im => im ≠ .no → markAt es n = im ∧ MT.rank .some_ ≤ v.rank
    | .mult _ _ _ _ _ cs => LocL es cs
  def LocL (es : Ents) : List ST → Prop
    | [] => True
    | c :: cs => Loc es c ∧ LocL es cs
end

/-- the frame invariant: `o n` = number of holders of `n` outside `t` -/
def Fr (o : Name → Nat) (t : ST) (es : Ents) : Prop :=
  (∀ n, o n + cnt n t = if markAt es n = .no then 0 else 1) ∧ Loc es t

def FrL (o : Name → Nat) (cs : List ST) (es : Ents) : Prop :=
  (∀ n, o n + cntL n cs = if markAt es n = .no then 0 else 1) ∧ LocL es cs

theorem LocL_iff (es : Ents) (cs : List ST) : LocL es cs ↔ ∀ c ∈ cs, Loc es c := by
  induction cs with
  | nil => simp [LocL]
  | cons a l ih => simp [LocL, ih]

theorem holdsL_nil_iff (cs : List ST) : holdsL cs = [] ↔ ∀ c ∈ cs, holds c = [] := by
  induction cs with
  | nil => simp [holdsL]
  | cons a l ih => simp [holdsL, ih]

theorem cnt_zero_of_nil {t : ST} (h : holds t = []) (n : Name) : cnt n t = 0 := by simp [cnt, h]

theorem cntL_cons (n : Name) (c : ST) (cs : List ST) : cntL n (c :: cs) = cnt n c + cntL n cs := by
  simp [cntL, cnt, holdsL, List.count_append]

theorem cntL_append (n : Name) (a b : List ST) : cntL n (a ++ b) = cntL n a + cntL n b := by
  induction a with
  | nil => simp [cntL, holdsL]
  | cons x a ih => rw [List.cons_append, cntL_cons, cntL_cons, ih]; omega

theorem cnt_mult (n : Name) (j : Join) (v : MT) (c c1 : Int) (k : Nat) (cs : List ST) :
    cnt n (.mult j v c c1 k cs) = cntL n cs := rfl

/-- marks agree on the names held outside -/
def SameOut (o : Name → Nat) (es es' : Ents) : Prop := ∀ n, 0 < o n → markAt es' n = markAt es n

mutual
  theorem Loc_congr {es es' : Ents} : ∀ (t : ST), (∀ n, 0 < cnt n t → markAt es' n = markAt es n) → Loc es t → Loc es' t
    | .simple n v im, h, hl => by
      simp only [Loc] at hl ⊢
      intro him
      obtain ⟨a, b⟩ := hl him
      refine ⟨?_, b⟩
      rw [h n (by simp [cnt, holds, him])]; exact a
    | .mult _ _ _ _ _ cs, h, hl => by
      simp only [Loc] at hl ⊢
      exact LocL_congr cs h hl
  theorem LocL_congr {es es' : Ents} : ∀ (cs : List ST), (∀ n, 0 < cntL n cs → markAt es' n = markAt es n) → LocL es cs → LocL es' cs
    | [], _, _ => trivial
    | c :: cs, h, hl => by
      simp only [LocL] at hl ⊢
      exact ⟨Loc_congr c (fun n hn => h n (by rw [cntL_cons]; omega)) hl.1,
        LocL_congr cs (fun n hn => h n (by rw [cntL_cons]; omega)) hl.2⟩
end

end StepModel.Complex.Match

import StepModel.AlphaOrder
/-! # Lemmas about `AlphaOrder.lean` (`SCOPEadd_inorder`): the result is a sorted permutation; two walks of one name set give the same list -/
namespace StepModel.AlphaOrder

theorem addInorder_perm {α : Type} (lt : α → α → Bool) (l : List α) (s : α) : (addInorder lt l s).Perm (s :: l) := by
  induction l with
  | nil => exact List.Perm.refl _
  | cons x r ih =>
    simp only [addInorder]
    split
    · exact List.Perm.refl _
    · exact (List.Perm.cons x ih).trans (List.Perm.swap s x r)

theorem alphaOrder_perm {α : Type} (lt : α → α → Bool) (walked : List α) : (alphaOrder lt walked).Perm walked := by
  unfold alphaOrder
  suffices H : ∀ acc : List α, (walked.foldl (addInorder lt) acc).Perm (acc ++ walked) from by simpa using H []
  induction walked with
  | nil => intro acc; simp
  | cons a r ih =>
    intro acc
    simp only [List.foldl_cons]
    refine (ih _).trans ?_
    refine (List.Perm.append_right r (addInorder_perm lt acc a)).trans ?_
    simp only [List.cons_append]
    exact List.perm_middle.symm


theorem addInorder_sorted {α : Type} (lt : α → α → Bool) (h : StrictTotal lt) (l : List α) (s : α) (hs : Sorted lt l)
    (hn : s ∉ l) : Sorted lt (addInorder lt l s) := by
  induction l with
  | nil => simp [addInorder, Sorted]
  | cons x r ih =>
    have hx := List.pairwise_cons.mp hs
    simp only [addInorder]
    split
    · rename_i hlt
      refine List.pairwise_cons.mpr ⟨?_, hs⟩
      intro a ha
      rcases List.mem_cons.mp ha with rfl | ha
      · exact hlt
      · exact h.trans _ _ _ hlt (hx.1 a ha)
    · rename_i hlt
      have hne : s ≠ x := fun e => hn (by rw [e]; exact List.mem_cons_self)
      have hxs : lt x s = true := by
        rcases h.total s x hne with h1 | h1
        · exact absurd h1 hlt
        · exact h1
      refine List.pairwise_cons.mpr ⟨?_, ih hx.2 (fun hm => hn (List.mem_cons_of_mem _ hm))⟩
      intro a ha
      rcases List.mem_cons.mp ((addInorder_perm lt r s).subset ha) with rfl | ha
      · exact hxs
      · exact hx.1 a ha

theorem alphaOrder_sorted {α : Type} (lt : α → α → Bool) (h : StrictTotal lt) (walked : List α) (hnd : walked.Nodup) :
    Sorted lt (alphaOrder lt walked) := by
  unfold alphaOrder
  suffices H : ∀ acc : List α, Sorted lt acc → (acc ++ walked).Nodup → Sorted lt (walked.foldl (addInorder lt) acc) from
    H [] List.Pairwise.nil (by simpa using hnd)
  induction walked with
  | nil => intro acc hs _; exact hs
  | cons a r ih =>
    intro acc hs hn
    simp only [List.foldl_cons]
    have hna : a ∉ acc := by
      intro hm
      have := (List.nodup_append.mp hn).2.2 a hm a List.mem_cons_self
      exact this rfl
    apply ih (List.nodup_cons.mp hnd).2 _ (addInorder_sorted lt h acc a hs hna)
    refine ((List.Perm.append_right r (addInorder_perm lt acc a)).nodup_iff).mpr ?_
    simp only [List.cons_append]
    exact (List.perm_middle.nodup_iff).mp hn

/-- two strictly increasing lists with the same elements are the same list -/
theorem sorted_unique {α : Type} (lt : α → α → Bool) (h : StrictTotal lt) (l₁ l₂ : List α) (s₁ : Sorted lt l₁) (s₂ : Sorted lt l₂)
    (hm : ∀ a, a ∈ l₁ ↔ a ∈ l₂) : l₁ = l₂ := by
  induction l₁ generalizing l₂ with
  | nil =>
    cases l₂ with
    | nil => rfl
    | cons b r => exact absurd ((hm b).mpr List.mem_cons_self) List.not_mem_nil
  | cons a r₁ ih =>
    cases l₂ with
    | nil => exact absurd ((hm a).mp List.mem_cons_self) List.not_mem_nil
    | cons b r₂ =>
      have p1 := List.pairwise_cons.mp s₁
      have p2 := List.pairwise_cons.mp s₂
      have hab : a = b := by
        rcases List.mem_cons.mp ((hm a).mp List.mem_cons_self) with e | ha
        · exact e
        · rcases List.mem_cons.mp ((hm b).mpr List.mem_cons_self) with e | hb
          · exact e.symm
          · have h1 := p2.1 a ha       -- b < a
            have h2 := p1.1 b hb       -- a < b
            have := h.trans _ _ _ h1 h2
            rw [h.irrefl b] at this
            exact absurd this (by decide)
      subst hab
      have hna1 : a ∉ r₁ := fun hin => by have := p1.1 a hin; rw [h.irrefl a] at this; exact absurd this (by decide)
      have hna2 : a ∉ r₂ := fun hin => by have := p2.1 a hin; rw [h.irrefl a] at this; exact absurd this (by decide)
      congr 1
      apply ih r₂ p1.2 p2.2
      intro x
      constructor
      · intro hx
        rcases List.mem_cons.mp ((hm x).mp (List.mem_cons_of_mem _ hx)) with e | hx2
        · rw [e] at hx; exact absurd hx hna1
        · exact hx2
      · intro hx
        rcases List.mem_cons.mp ((hm x).mpr (List.mem_cons_of_mem _ hx)) with e | hx1
        · rw [e] at hx; exact absurd hx hna2
        · exact hx1

/-- **The alphabetical order does not depend on the order in which the dictionary delivered the objects**: two walks over
    the same (duplicate-free) set of names give the same printed order -/
theorem alphaOrder_walk_independent {α : Type} (lt : α → α → Bool) (h : StrictTotal lt) (w₁ w₂ : List α)
    (n₁ : w₁.Nodup) (n₂ : w₂.Nodup) (hp : w₁.Perm w₂) : alphaOrder lt w₁ = alphaOrder lt w₂ := by
  apply sorted_unique lt h _ _ (alphaOrder_sorted lt h w₁ n₁) (alphaOrder_sorted lt h w₂ n₂)
  intro a
  rw [(alphaOrder_perm lt w₁).mem_iff, (alphaOrder_perm lt w₂).mem_iff, hp.mem_iff]

end StepModel.AlphaOrder

import StepModel.Complex
/-!
# `Spec.Legal` — the property's own rule for legal complex-entity sets

A schema is seen only through its SUBTYPE/SUPERTYPE declarations.  `Legal s X` is the statement of property C08:

* `X` is a non-empty set of declared entities, closed under supertypes, connected through sub/supertype links
  (an instance is *one* object: two unrelated roots do not form a complex entity);
* each member's `ONEOF`/`AND`/`ANDOR` expression — with the subtypes it does not mention ANDOR-ed on — is satisfied
  over the direct subtypes present: the set of present direct subtypes is empty or is one of the sets the expression admits;
* an `ABSTRACT` member has a subtype present (so, the graph being finite and acyclic, a non-abstract descendant).
-/
namespace StepModel.Complex

inductive Expr where
  | ent (n : Name)
  | oneof (es : List Expr)
  | and (a b : Expr)
  | andor (a b : Expr)
  deriving Repr, Inhabited

structure Entity where
  name : Name
  abstract : Bool
  supers : List Name
  /-- direct subtypes, in the order of the resolver's `subtypes` list -/
  subs : List Name
  expr : Option Expr
  deriving Repr, Inhabited

abbrev Schema := List Entity

def Schema.find (s : Schema) (n : Name) : Option Entity := List.find? (fun e => e.name == n) s

mutual
  /-- entities an expression mentions, left to right -/
  def Expr.ents : Expr → List Name
    | .ent n => [n]
    | .oneof es => Expr.entsL es
    | .and a b => a.ents ++ b.ents
    | .andor a b => a.ents ++ b.ents
  def Expr.entsL : List Expr → List Name
    | [] => []
    | e :: es => e.ents ++ Expr.entsL es
end

mutual
  /-- the sets of *direct subtypes* an expression admits (subtypes as atoms) -/
  def Expr.admits : Expr → List (List Name)
    | .ent n => [[n]]
    | .oneof es => (Expr.admitsL es).flatten
    | .and a b => prodD [a.admits, b.admits]
    | .andor a b => selD [a.admits, b.admits]
  def Expr.admitsL : List Expr → List (List (List Name))
    | [] => []
    | e :: es => e.admits :: Expr.admitsL es
end

/-- subtypes the entity's expression does not mention -/
def Entity.implicit (e : Entity) : List Name :=
  let m := match e.expr with | some x => x.ents | none => []
  e.subs.filter (fun n => !m.contains n)

/-- sets of direct subtypes the entity admits: its expression ANDOR every implicit subtype -/
def Entity.admits (e : Entity) : List (List Name) :=
  let base := match e.expr with | some x => [x.admits] | none => []
  selD (base ++ e.implicit.map (fun n => [[n]]))

/-- the member's own constraint over the direct subtypes present in `X` -/
def localOK (e : Entity) (X : List Name) : Bool :=
  let present := e.subs.filter (fun n => X.contains n)
  if present.isEmpty then !e.abstract else e.admits.any (fun S => sameSet S present)

def linked (s : Schema) (a b : Name) : Bool :=
  match s.find a, s.find b with
  | some ea, some eb => ea.supers.contains b || eb.supers.contains a
  | _, _ => false

/-- members of `X` reachable from `seen` in at most `k` link steps inside `X` -/
def reach (s : Schema) (X : List Name) : Nat → List Name → List Name
  | 0, seen => seen
  | k + 1, seen => reach s X k (seen ++ X.filter (fun n => !seen.contains n && seen.any (fun m => linked s m n)))

def connected (s : Schema) (X : List Name) : Bool :=
  match X with
  | [] => false
  | x :: _ => subset X (reach s X (2 * X.length) [x])

def Legal (s : Schema) (X : List Name) : Bool :=
  !X.isEmpty &&
  X.all (fun n => match s.find n with
    | none => false
    | some e => subset e.supers X && localOK e X) &&
  connected s X

end StepModel.Complex

/-! C05 — vocabulary shared by the generated buffer table (`Generated/C05Buffers.lean`) and the model
(`P21Safe.lean`, `P21SafeLoops.lean`).  Core Lean only. -/
namespace StepModel.P21Safe

/-- How the C++ code stores the characters it copies. -/
inductive Storage where
  /-- `char buf[cap]` (or `T* arr[cap]`): a fixed array, valid indices `0 … cap-1` -/
  | fixed (cap : Nat)
  /-- `std::string` / `std::vector` grown by `+=` / `push_back`: no index is ever out of range -/
  | growable
  deriving Repr, DecidableEq

/-- Outcome of running a piece of code that writes through indices / loops on a stream.
No totalised default: an out-of-range write is `overflow`, running out of fuel is `outOfFuel`. -/
inductive Out (α : Type) where
  | ok (a : α)
  /-- first write whose index is not below the capacity -/
  | overflow (idx cap : Nat)
  | outOfFuel
  deriving Repr, DecidableEq

def Out.isOverflow {α} : Out α → Bool
  | .overflow _ _ => true
  | _ => false

def Out.isOutOfFuel {α} : Out α → Bool
  | .outOfFuel => true
  | _ => false

/-- Execute a sequence of indexed writes against a storage: the first index `≥ cap` is the overflow. -/
def runWrites : Storage → List Nat → Out Unit
  | .growable, _ => .ok ()
  | .fixed _, [] => .ok ()
  | .fixed cap, i :: is => if i < cap then runWrites (.fixed cap) is else .overflow i cap

/-- How `EntNode`'s constructor copies the keyword into `name`. -/
inductive CopyKind where
  /-- `StrToLower( nm, name )` straight from the caller's string: as many bytes as the source has, plus NUL -/
  | unbounded
  /-- `strncpy( name, nm, n )` (writes exactly `n` bytes), optionally followed by `name[k] = '\0'`,
      then lower-casing in place -/
  | strncpy (n : Nat) (term : Option Nat)
  deriving Repr, DecidableEq

/-- When `STEPfile::FindHeaderSection` gives up. -/
inductive ExitCond where
  /-- `if( in.eof() )` only — a `getline` that failed *without* reaching the end never leaves the loop -/
  | eofOnly
  /-- `if( !in.good() )` (or `in.fail()`) -/
  | notGood
  deriving Repr, DecidableEq

/-- How much of the string `StrEndsWith( s, suffix )` looks at. -/
inductive EndsWithShape where
  /-- compares only the last `|suffix|` characters (`s.substr( sLen - suffixLen ).compare( suffix )`, `s.compare( pos, n, suf )`) -/
  | suffixOnly
  /-- may scan the whole string (`rfind`, `find`, a loop over `s`) -/
  | wholeString
  deriving Repr, DecidableEq

/-- A `sprintf( buf, fmt, … )` call: capacity of `buf`, number of literal bytes in `fmt`,
number of `%d` conversions, of `%s` conversions whose argument is a dictionary (schema) name or a literal,
and of `%.*G` conversions. -/
structure SprintfSite where
  file : String
  line : Nat
  cap : Nat
  literal : Nat
  ints : Nat
  names : Nat
  reals : Nat
  deriving Repr, DecidableEq

end StepModel.P21Safe

import StepModel.GenCxxFrame
/-! `HeadKeyInj` — the head's attributes are told apart by (owner, registered name) — from a condition on the schema: within one
entity the registered attribute names are distinct, and entity names are distinct. -/
namespace StepModel.GenCxx
open StepModel.Generated

/-- within every entity the explicit attributes have distinct registered names (`x`, `sup.x` for a redeclaration) -/
def AttrKeysDistinct (s : Schema) : Prop := ∀ e ∈ s.entities, ((ownSAs e).map keyOf).Nodup

instance (s : Schema) : Decidable (AttrKeysDistinct s) := by unfold AttrKeysDistinct; infer_instance

/-- every descriptor on a constructor's list was there before or is an own attribute of an entity of the schema -/
def FromSchema (s : Schema) (l : List SA) : Prop := ∀ x ∈ l, ∃ e, e ∈ s.entities ∧ x ∈ ownSAs e

theorem mem_ins {h : List SA} {a x : SA} (hx : x ∈ ins h a) : x ∈ h ∨ x = a := by
  unfold ins at hx
  split at hx
  · exact Or.inl hx
  · rcases List.mem_append.1 hx with h' | h'
    · exact Or.inl h'
    · exact Or.inr (by simpa using h')

theorem insAll_from {s : Schema} {e : Entity} (he : e ∈ s.entities) : ∀ (xs : List SA), (∀ x ∈ xs, x ∈ ownSAs e) → ∀ h : List SA,
    FromSchema s h → FromSchema s (insAll h xs) := by
  intro xs
  induction xs with
  | nil => intro _ h hh; exact hh
  | cons a as ih =>
    intro hsub h hh
    unfold insAll
    simp only [List.foldl_cons]
    have : FromSchema s (ins h a) := by
      intro x hx
      rcases mem_ins hx with h' | rfl
      · exact hh x h'
      · exact ⟨e, he, hsub _ (by simp)⟩
    exact ih (fun x hx => hsub x (by simp [hx])) _ this

theorem ctorArgs_from (s : Schema) : ∀ (f : Nat) (n : String) (h : List SA), FromSchema s h → FromSchema s (ctorArgs s f n h) := by
  intro f
  induction f with
  | zero => intro n h hh; exact hh
  | succ f ih =>
    intro n h hh
    rw [ctorArgs_succ]
    cases hE : s.findE n with
    | none => exact hh
    | some e =>
      simp only
      have hfold : ∀ (L : List String) (acc : List SA), FromSchema s acc →
          FromSchema s (L.foldl (fun acc sup => ctorArgs s f sup acc) acc) := by
        intro L
        induction L with
        | nil => intro acc h'; exact h'
        | cons q qs ihq => intro acc h'; simp only [List.foldl_cons]; exact ihq _ (ih q acc h')
      exact insAll_from (findE_mem hE) (ownSAs e) (fun x hx => hx) _ (hfold e.supers h hh)

theorem filterMap_inj {α β : Type} [DecidableEq β] (f : α → Option β) : ∀ (l : List α), (l.filterMap f).Nodup →
    ∀ i ∈ l, ∀ j ∈ l, ∀ b, f i = some b → f j = some b → i = j := by
  intro l
  induction l with
  | nil => intro _ i hi; simp at hi
  | cons x xs ih =>
    intro hn i hi j hj b hbi hbj
    rw [List.filterMap_cons] at hn
    rcases List.mem_cons.1 hi with rfl | hi' <;> rcases List.mem_cons.1 hj with rfl | hj'
    · rfl
    · exfalso
      rw [hbi] at hn
      simp only at hn
      exact (List.nodup_cons.1 hn).1 (List.mem_filterMap.2 ⟨j, hj', hbj⟩)
    · exfalso
      rw [hbj] at hn
      simp only at hn
      exact (List.nodup_cons.1 hn).1 (List.mem_filterMap.2 ⟨i, hi', hbi⟩)
    · cases hx : f x with
      | none => rw [hx] at hn; exact ih hn i hi' j hj' b hbi hbj
      | some c => rw [hx] at hn; simp only at hn; exact ih (List.nodup_cons.1 hn).2 i hi' j hj' b hbi hbj

theorem ownSAs_owner {e : Entity} {x : SA} (h : x ∈ ownSAs e) : x.owner = e.name := by
  unfold ownSAs at h
  obtain ⟨a, _, rfl⟩ := List.mem_map.1 h
  rfl

theorem nodup_map_inj {α β : Type} {f : α → β} : ∀ {l : List α}, (l.map f).Nodup → ∀ a ∈ l, ∀ b ∈ l, f a = f b → a = b
  | [], _, a, ha, _, _, _ => by simp at ha
  | x :: xs, hn, a, ha, b, hb, hab => by
    simp only [List.map_cons, List.nodup_cons] at hn
    rcases List.mem_cons.1 ha with rfl | ha' <;> rcases List.mem_cons.1 hb with rfl | hb'
    · rfl
    · exact absurd (List.mem_map.2 ⟨b, hb', hab.symm⟩) hn.1
    · exact absurd (List.mem_map.2 ⟨a, ha', hab⟩) hn.1
    · exact nodup_map_inj hn.2 a ha' b hb' hab

/-- the head's attributes of a fresh instance are told apart by (owner, registered name), for every supertype graph -/
theorem headKeyInj_of_schema {s : Schema} (hn : (s.entities.map (·.name)).Nodup) (hk : AttrKeysDistinct s)
    (hnodup : ∀ (f : Nat) (n : String), (ctorArgs s f n []).Nodup) (f : Nat) (n : String) :
    HeadKeyInj (ctorNF s f n {}) := by
  have eff := ctorNF_eff s f n {} (by intro id h; simp at h)
  have hd : descs (ctorNF s f n {}) (ctorNF s f n {}).head = ctorArgs s f n [] := by
    rw [eff.head]; rfl
  intro i hi j hj a b ha hb hab
  have hfrom : FromSchema s (ctorArgs s f n []) := ctorArgs_from s f n [] (by intro x hx; simp at hx)
  have hma : a ∈ ctorArgs s f n [] := by rw [← hd]; exact List.mem_filterMap.2 ⟨i, hi, ha⟩
  have hmb : b ∈ ctorArgs s f n [] := by rw [← hd]; exact List.mem_filterMap.2 ⟨j, hj, hb⟩
  obtain ⟨ea, hea, haa⟩ := hfrom a hma
  obtain ⟨eb, heb, hbb⟩ := hfrom b hmb
  have hkey : a.owner = b.owner ∧ a.name = b.name := by
    simpa [keyOf] using hab
  have hee : ea = eb := by
    have : ea.name = eb.name := by rw [← ownSAs_owner haa, ← ownSAs_owner hbb]; exact hkey.1
    exact nodup_map_inj hn ea hea eb heb this
  subst hee
  have hab' : a = b := nodup_map_inj (hk ea hea) a haa b hbb hab
  subst hab'
  exact filterMap_inj (saAt (ctorNF s f n {})) _ (by rw [show (ctorNF s f n {}).head.filterMap (saAt (ctorNF s f n {})) = descs _ _ from rfl, hd]; exact hnodup f n)
    i hi j hj a ha hb

end StepModel.GenCxx

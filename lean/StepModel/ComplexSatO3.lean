import StepModel.ComplexSatO2
/-! Names of the request never change; an OrList's `choice1` survives `acceptChoice`. -/
namespace StepModel.Complex.Match
open StepModel.Generated StepModel.Complex

theorem unmark_names : ∀ f : Nat,
    (∀ t es r, unmarkAll f t es = .ok r → names r.2 = names es) ∧
    (∀ cs es r, unmarkList f cs es = .ok r → names r.2 = names es) := by
  intro f
  induction f with
  | zero => exact ⟨fun _ _ _ h => by simp [unmarkAll] at h, fun _ _ _ h => by simp [unmarkList] at h⟩
  | succ f ih =>
    obtain ⟨ih1, ih2⟩ := ih
    refine ⟨?_, ?_⟩
    · intro t es r h
      cases t with
      | simple n v im =>
        simp only [unmarkAll, simpleUnmark] at h
        split at h
        · cases h; rfl
        · split at h
          · cases h
          · split at h
            · cases h
            · cases h
              simp only
              split
              · exact names_setMark _ _ _
              · rfl
      | mult j v c c1 k cs =>
        cases j with
        | or =>
          simp only [unmarkAll] at h
          split at h
          · cases h; rfl
          · split at h
            · cases h; rfl
            · obtain ⟨⟨ch', es'⟩, h1, h2⟩ := bind_ok' h
              cases h2
              exact ih1 _ es (ch', es') h1
        | and =>
          simp only [unmarkAll] at h
          obtain ⟨⟨cs', es'⟩, h1, h2⟩ := bind_ok' h
          cases h2; exact ih2 cs es _ h1
        | andor =>
          simp only [unmarkAll] at h
          obtain ⟨⟨cs', es'⟩, h1, h2⟩ := bind_ok' h
          cases h2; exact ih2 cs es _ h1
    · intro cs es r h
      cases cs with
      | nil => simp only [unmarkList] at h; cases h; rfl
      | cons ch rest =>
        simp only [unmarkList] at h
        obtain ⟨⟨ch', es1⟩, h1, h2⟩ := bind_ok' h
        obtain ⟨⟨rest', es2⟩, h3, h4⟩ := bind_ok' h2
        cases h4
        have a := ih1 ch es _ h1
        have b := ih2 rest es1 _ h3
        simp only at a b ⊢
        rw [b, a]

theorem accept_names : ∀ f : Nat,
    (∀ t es r, acceptChoice f t es = .ok r → names r.2.1 = names es) ∧
    (∀ cs es r, acceptJoin f cs es = .ok r → names r.2.1 = names es) ∧
    (∀ cs i es r, acceptOr f cs i es = .ok r → names r.2.1 = names es) := by
  intro f
  induction f with
  | zero =>
    exact ⟨fun _ _ _ h => by simp [acceptChoice] at h, fun _ _ _ h => by simp [acceptJoin] at h,
      fun _ _ _ _ h => by simp [acceptOr] at h⟩
  | succ f ih =>
    obtain ⟨ih1, ih2, ih3⟩ := ih
    refine ⟨?_, ?_, ?_⟩
    · intro t es r h
      cases t with
      | simple n v im =>
        simp only [acceptChoice, simpleAccept] at h
        cases h
        split
        · rfl
        · split
          · rfl
          · split
            · exact names_setMark _ _ _
            · rfl
      | mult j v c c1 k cs =>
        cases j with
        | or =>
          simp only [acceptChoice] at h
          split at h
          · cases h; rfl
          · obtain ⟨⟨cs', es', r'⟩, h1, h2⟩ := bind_ok' h
            have := ih3 cs _ es _ h1
            cases r' with
            | none => cases h2; exact this
            | some j => cases h2; exact this
        | and =>
          simp only [acceptChoice] at h
          obtain ⟨⟨cs', es', r'⟩, h1, h2⟩ := bind_ok' h
          cases h2; exact ih2 cs es _ h1
        | andor =>
          simp only [acceptChoice] at h
          obtain ⟨⟨cs', es', r'⟩, h1, h2⟩ := bind_ok' h
          cases h2; exact ih2 cs es _ h1
    · intro cs es r h
      cases cs with
      | nil => simp only [acceptJoin] at h; cases h; rfl
      | cons ch rest =>
        simp only [acceptJoin] at h
        split at h
        · obtain ⟨⟨ch', es1, r1⟩, h1, h2⟩ := bind_ok' h
          obtain ⟨⟨rest', es2, r2⟩, h3, h4⟩ := bind_ok' h2
          cases h4
          have a := ih1 ch es _ h1
          have b := ih2 rest es1 _ h3
          simp only at a b ⊢
          rw [b, a]
        · obtain ⟨⟨ch', es1, r1⟩, h1, h2⟩ := bind_ok' h
          cases h1
          obtain ⟨⟨rest', es2, r2⟩, h3, h4⟩ := bind_ok' h2
          cases h4
          exact ih2 rest es (rest', es2, r2) h3
    · intro cs i es r h
      simp only [acceptOr] at h
      split at h
      · cases h; rfl
      · rename_i ch hch
        split at h
        · obtain ⟨⟨ch', es1, r1⟩, h1, h2⟩ := bind_ok' h
          have hs := ih1 ch es _ h1
          cases r1 with
          | true => simp only [if_true] at h2; cases h2; exact hs
          | false =>
            simp only [Bool.false_eq_true, if_false] at h2
            rw [ih3 _ _ _ _ h2]; exact hs
        · exact ih3 cs (i + 1) es r h

/-- `OrList::acceptChoice` leaves `viable`, `choice1` and the children's skeletons alone -/
theorem accept_or_shape (f : Nat) (v : MT) (c c1 : Int) (k : Nat) (cs : List ST) (es : Ents) (r : ST × Ents × Bool)
    (h : acceptChoice f (.mult .or v c c1 k cs) es = .ok r) :
    ∃ c' cs', r.1 = .mult .or v c' c1 k cs' ∧ skelL cs' = skelL cs := by
  cases f with
  | zero => simp [acceptChoice] at h
  | succ f =>
    simp only [acceptChoice] at h
    split at h
    · cases h; exact ⟨_, _, rfl, rfl⟩
    · obtain ⟨⟨cs', es', r'⟩, h1, h2⟩ := bind_ok' h
      have := (accept_skel f).2.2 cs _ es _ h1
      cases r' with
      | none => cases h2; exact ⟨_, _, rfl, this⟩
      | some j => cases h2; exact ⟨_, _, rfl, this⟩

-- ------------------------------------------------------------------ matchNonORs
structure N1 (N : List Name) (t : Tree) (r : ST × Ents × MT) : Prop where
  sem : SemV N (skel r.1)
  trr : trV (skel r.1) = t
  nm : names r.2.1 = N
  via : isOrT t = false → r.1.viable = r.2.2
  pend : r.1.viable = .unknown → Pend r.1
  orr : isOrT t = true → r.1 = fresh t

theorem simple_sem (n : Name) (im : Mark) (es : Ents) (hs : (names es).Pairwise (· < ·)) :
    ∃ v im', (simpleMatchNonORs n im es).1 = .simple n v im' ∧ (simpleMatchNonORs n im es).2.2 = v ∧
      names (simpleMatchNonORs n im es).2.1 = names es ∧
      (v = .unsat → n ∉ names es) ∧ (K v → n ∈ names es) ∧ (v = .unsat ∨ K v) := by
  unfold simpleMatchNonORs
  cases hf : findEq n es 0 with
  | none =>
    have hnot : n ∉ names es := by
      intro hm
      obtain ⟨j, e, hj, _, _⟩ := findEq_sorted n es 0 hs hm
      rw [hf] at hj; cases hj
    exact ⟨.unsat, im, rfl, rfl, rfl, fun _ => hnot, fun h => absurd rfl (K_ne_unsat h), Or.inl rfl⟩
  | some i =>
    have hmem := findEq_mem n es 0 i hf
    obtain ⟨_, e, he, _⟩ := findEq_bound n es 0 i hf
    simp only [Nat.sub_zero] at he
    simp only [he]
    split
    · split
      · split
        · exact ⟨.all, .mk, rfl, rfl, names_setMark es i .mk, (fun h => by cases h), fun _ => hmem, Or.inr (Or.inr (Or.inr rfl))⟩
        · exact ⟨.some_, .mk, rfl, rfl, names_setMark es i .mk, (fun h => by cases h), fun _ => hmem, Or.inr (Or.inr (Or.inl rfl))⟩
      · exact ⟨.some_, im, rfl, rfl, rfl, (fun h => by cases h), fun _ => hmem, Or.inr (Or.inr (Or.inl rfl))⟩
    · exact ⟨.sat, im, rfl, rfl, rfl, (fun h => by cases h), fun _ => hmem, Or.inr (Or.inl rfl)⟩

theorem trVL_length (cs : List VT) : (trVL cs).length = cs.length := by
  induction cs with
  | nil => rfl
  | cons a l ih => simp [trVL, ih]

theorem mem_skelL {cs : List ST} {c : ST} (h : c ∈ cs) : skel c ∈ skelL cs := by
  rw [skelL_eq_map]; exact List.mem_map_of_mem h

theorem mem_skelL_inv {cs : List ST} {x : VT} (h : x ∈ skelL cs) : ∃ c ∈ cs, skel c = x := by
  rw [skelL_eq_map] at h; exact List.mem_map.mp h

/-- the children the loops of `matchNonORs` leave behind -/
structure NTail (N : List Name) (restT : List Tree) (tail : List ST) : Prop where
  trr : trVL (skelL tail) = restT
  sem : SemVL N (skelL tail)

theorem mem_contains {N : List Name} {n : Name} : N.contains n = true ↔ n ∈ N := by simp

theorem nonors_sem (N : List Name) (hN : N.Pairwise (· < ·)) : ∀ f : Nat,
    (∀ t es r, matchNonORs f (fresh t) es = .ok r → treeWF t = true → names es = N → N1 N t r) ∧
    (∀ restT done es r, andNonORs f done (freshL restT) es = .ok r → treeWFL restT = true → names es = N →
      names r.2.1 = N ∧ ∃ tail, r.1 = done ++ tail ∧ NTail N restT tail ∧
        (r.2.2 = true → ∃ c ∈ tail, c.viable = .unsat) ∧
        (r.2.2 = false → (∀ c ∈ tail, c.viable ≠ .unsat) ∧ PendL tail)) ∧
    (∀ restT done es r, andorNonORs f done (freshL restT) es = .ok r → treeWFL restT = true → names es = N →
      names r.2.1 = N ∧ ∃ tail, r.1 = done ++ tail ∧ NTail N restT tail ∧
        (r.2.2 = true → ∃ c ∈ tail, c.viable = .all) ∧
        (r.2.2 = false → PendL tail)) := by
  intro f
  induction f with
  | zero =>
    exact ⟨fun _ _ _ h => by simp [matchNonORs] at h, fun _ _ _ _ h => by simp [andNonORs] at h,
      fun _ _ _ _ h => by simp [andorNonORs] at h⟩
  | succ f ih =>
    obtain ⟨ih1, ih2, ih3⟩ := ih
    refine ⟨?_, ?_, ?_⟩
    · intro t es r h hwf hnm
      cases t with
      | simple n =>
        simp only [fresh, matchNonORs] at h
        cases h
        obtain ⟨v, im', e1, e2, e3, e4, e5, e6⟩ := simple_sem n .no es (by rw [hnm]; exact hN)
        have hst : Stored v := by
          rcases e6 with h | h
          · subst h; exact ⟨by simp, by simp⟩
          · exact K_stored h
        refine ⟨?_, ?_, (by rw [e3, hnm]), (fun _ => by rw [e1, e2]; rfl), fun hu => ?_, (fun h => by cases h)⟩
        · rw [e1]; simp only [skel]
          exact ⟨(fun h => by rw [← hnm] at *; simpa using e4 h), (fun h => by rw [← hnm]; simpa using e5 h), hst⟩
        · rw [e1]; rfl
        · rw [e1] at hu; simp only [ST.viable] at hu
          rcases e6 with h | h
          · rw [h] at hu; cases hu
          · exact absurd hu (K_ne_unknown h)
      | or ts =>
        simp only [fresh, matchNonORs] at h
        cases h
        refine ⟨fresh_SemV N (.or ts) hwf, trV_fresh (.or ts), hnm, (fun h => by cases h), fun _ => ⟨ts, rfl, hwf⟩, fun _ => rfl⟩
      | and ts =>
        simp only [treeWF, Bool.and_eq_true, Bool.not_eq_true', List.isEmpty_eq_false_iff] at hwf
        simp only [fresh, matchNonORs, freshL_isEmpty hwf.1, Bool.false_eq_true, if_false] at h
        obtain ⟨⟨cs', es', failed⟩, h1, h2⟩ := bind_ok' h
        obtain ⟨hn', tail, htail, T, hbad, hgood⟩ := ih2 ts [] es _ h1 hwf.2 hnm
        simp only [List.nil_append] at htail
        subst htail
        have hlen : cs'.length = ts.length := by
          rw [← skelL_length, ← trVL_length, T.trr]
        have hne : cs' ≠ [] := ne_nil_of_len hlen hwf.1
        have hst : ∀ c ∈ cs', Stored c.viable := by
          intro c hc
          have := (SemVL_iff N _).mp T.sem (skel c) (mem_skelL hc)
          rw [← viable_skel' c]; exact SemV_stored this
        cases failed with
        | true =>
          simp only [if_true] at h2; cases h2
          obtain ⟨c, hc, hcu⟩ := hbad rfl
          refine ⟨SemV_join_node (by simp) hne T.sem .unsat ⟨by simp, by simp⟩ (fun _ => ?_) (fun h => absurd rfl (K_ne_unsat h))
            (fun _ h => by cases h) _ _ _, (by simp only [skel, trV]; rw [T.trr]), hn', fun _ => rfl, (fun h => by cases h),
            (fun h => by cases h)⟩
          simp only [trV, satO]; rw [T.trr]
          have hcs : SemV N (skel c) := (SemVL_iff N _).mp T.sem _ (mem_skelL hc)
          have := SemV_unsat hcs (by rw [viable_skel']; exact hcu)
          refine satOAll_false_of_mem N ts (trV (skel c)) ?_ this
          rw [← T.trr]; exact trVL_mem (mem_skelL hc)
        | false =>
          simp only [Bool.false_eq_true, if_false] at h2; cases h2
          obtain ⟨g1, g2⟩ := hgood rfl
          obtain ⟨s1, s2, s3⟩ := setViableVal_props cs' es' hne hst
          refine ⟨SemV_join_node (by simp) hne T.sem _ s1 (fun hv => ?_) (fun hk => ?_) (fun _ _ c hc => ?_) _ _ _,
            (by simp only [skel, trV]; rw [T.trr]), hn', fun _ => rfl, fun hu => ⟨hu, g2⟩, (fun h => by cases h)⟩
          · -- UNSATISFIED is impossible here: no child is, and all are known
            exfalso
            have hnu : setViableVal cs' es' ≠ .unknown := by rw [hv]; simp
            have hall : ∀ c ∈ cs', K c.viable := by
              intro c hc
              rcases stored_cases (hst c hc) with h | h | h
              · exact absurd ⟨c, hc, h⟩ (fun hx => hnu (s2.mpr hx))
              · exact absurd h (g1 c hc)
              · exact h
            obtain ⟨c0, hc0⟩ := List.exists_mem_of_ne_nil cs' hne
            have := (s3 hnu).mpr ⟨c0, hc0, hall c0 hc0⟩
            rw [hv] at this; exact K_ne_unsat this rfl
          · simp only [trV, satO]; rw [T.trr]
            have hnu := K_ne_unknown hk
            apply satOAll_true_of_all
            intro t' ht'
            rw [← T.trr] at ht'
            obtain ⟨c, hc, hct⟩ := trVL_mem_inv ht'
            rw [skelL_eq_map] at hc
            obtain ⟨c', hc', rfl⟩ := List.mem_map.mp hc
            have hcs : SemV N (skel c') := (SemVL_iff N _).mp T.sem _ (mem_skelL hc')
            rw [← hct]
            apply SemV_K hcs
            rw [viable_skel']
            rcases stored_cases (hst c' hc') with h | h | h
            · exact absurd ⟨c', hc', h⟩ (fun hx => hnu (s2.mpr hx))
            · exact absurd h (g1 c' hc')
            · exact h
          · rw [skelL_eq_map] at hc
            obtain ⟨c', hc', rfl⟩ := List.mem_map.mp hc
            rw [viable_skel']; exact g1 c' hc'
      | andor ts =>
        simp only [treeWF, Bool.and_eq_true, Bool.not_eq_true', List.isEmpty_eq_false_iff] at hwf
        simp only [fresh, matchNonORs, freshL_isEmpty hwf.1, Bool.false_eq_true, if_false] at h
        obtain ⟨⟨cs', es', early⟩, h1, h2⟩ := bind_ok' h
        obtain ⟨hn', tail, htail, T, hyes, hno⟩ := ih3 ts [] es _ h1 hwf.2 hnm
        simp only [List.nil_append] at htail
        subst htail
        have hlen : cs'.length = ts.length := by
          rw [← skelL_length, ← trVL_length, T.trr]
        have hne : cs' ≠ [] := ne_nil_of_len hlen hwf.1
        have hst : ∀ c ∈ cs', Stored c.viable := by
          intro c hc
          have := (SemVL_iff N _).mp T.sem (skel c) (mem_skelL hc)
          rw [← viable_skel' c]; exact SemV_stored this
        have hchild : ∀ c ∈ cs', SemV N (skel c) ∧ trV (skel c) ∈ ts := by
          intro c hc
          refine ⟨(SemVL_iff N _).mp T.sem _ (mem_skelL hc), ?_⟩
          rw [← T.trr]; exact trVL_mem (mem_skelL hc)
        cases early with
        | true =>
          simp only [if_true] at h2; cases h2
          obtain ⟨c, hc, hcv⟩ := hyes rfl
          refine ⟨SemV_join_node (by simp) hne T.sem .all ⟨by simp, by simp⟩ (fun h => by cases h) (fun _ => ?_)
            (fun h => by cases h) _ _ _, (by simp only [skel, trV]; rw [T.trr]), hn', fun _ => rfl, (fun h => by cases h),
            (fun h => by cases h)⟩
          simp only [trV, satO]; rw [T.trr]
          obtain ⟨hcs, hct⟩ := hchild c hc
          exact satOAny_true_of_mem N ts _ hct (SemV_K hcs (by rw [viable_skel', hcv]; exact Or.inr (Or.inr rfl)))
        | false =>
          simp only [Bool.false_eq_true, if_false] at h2; cases h2
          have g2 := hno rfl
          obtain ⟨s1, s2, s3⟩ := setViableVal_props cs' es' hne hst
          refine ⟨SemV_join_node (by simp) hne T.sem _ s1 (fun hv => ?_) (fun hk => ?_) (fun h => by cases h) _ _ _,
            (by simp only [skel, trV]; rw [T.trr]), hn', fun _ => rfl, fun hu => ⟨hu, g2⟩, (fun h => by cases h)⟩
          · simp only [trV, satO]; rw [T.trr]
            have hnu : setViableVal cs' es' ≠ .unknown := by rw [hv]; simp
            apply satOAny_false_of_all
            intro t' ht'
            rw [← T.trr] at ht'
            obtain ⟨c, hc, hct⟩ := trVL_mem_inv ht'
            rw [skelL_eq_map] at hc
            obtain ⟨c', hc', rfl⟩ := List.mem_map.mp hc
            rw [← hct]
            apply SemV_unsat (hchild c' hc').1
            rw [viable_skel']
            rcases stored_cases (hst c' hc') with h | h | h
            · exact absurd ⟨c', hc', h⟩ (fun hx => hnu (s2.mpr hx))
            · exact h
            · have := (s3 hnu).mpr ⟨c', hc', h⟩
              rw [hv] at this; exact absurd rfl (K_ne_unsat this)
          · simp only [trV, satO]; rw [T.trr]
            obtain ⟨c, hc, hck⟩ := (s3 (K_ne_unknown hk)).mp hk
            obtain ⟨hcs, hct⟩ := hchild c hc
            exact satOAny_true_of_mem N ts _ hct (SemV_K hcs (by rw [viable_skel']; exact hck))
    -- ---------------------------------------------------------- loop of AndList::matchNonORs
    · intro restT done es r h hwf hnm
      cases restT with
      | nil =>
        simp only [freshL, andNonORs] at h; cases h
        exact ⟨hnm, [], (by simp), ⟨rfl, trivial⟩, (fun h => by cases h), fun _ => ⟨(fun c hc => by cases hc), trivial⟩⟩
      | cons c rest =>
        simp only [treeWFL, Bool.and_eq_true] at hwf
        simp only [freshL, andNonORs] at h
        by_cases hor : (fresh c).isOr = true
        · simp only [hor, if_true] at h
          obtain ⟨hn', tail2, ht2, T, hb, hg⟩ := ih2 rest (done ++ [fresh c]) es r h hwf.2 hnm
          have hsemc := fresh_SemV N c hwf.1
          have hpc : Pend (fresh c) := by
            cases c with
            | or ts => exact ⟨ts, rfl, hwf.1⟩
            | simple n => simp [fresh, ST.isOr] at hor
            | and ts => simp [fresh, ST.isOr] at hor
            | andor ts => simp [fresh, ST.isOr] at hor
          refine ⟨hn', fresh c :: tail2, (by rw [ht2]; simp), ⟨(by simp only [skelL, trVL]; rw [trV_fresh, T.trr]), ⟨hsemc, T.sem⟩⟩, ?_, ?_⟩
          · intro hf; obtain ⟨x, hx, hxu⟩ := hb hf; exact ⟨x, List.mem_cons_of_mem _ hx, hxu⟩
          · intro hf
            obtain ⟨g1, g2⟩ := hg hf
            refine ⟨fun x hx => ?_, ⟨Or.inr hpc, g2⟩⟩
            rcases List.mem_cons.mp hx with e | e
            · rw [e, fresh_viable]; simp
            · exact g1 x e
        · simp only [hor, Bool.false_eq_true, if_false] at h
          obtain ⟨⟨ch', es1, rc⟩, h1, h2⟩ := bind_ok' h
          have P := ih1 c es _ h1 hwf.1 hnm
          have hnotor : isOrT c = false := by rw [← isOr_fresh']; simpa using hor
          have hvia := P.via hnotor
          simp only at h2 hvia
          by_cases hrc : rc = .unsat
          · simp only [hrc, if_true] at h2; cases h2
            obtain ⟨f1, _⟩ := freshL_SemV N rest hwf.2
            refine ⟨P.nm, ch' :: freshL rest, rfl, ⟨(by simp only [skelL, trVL]; rw [P.trr, trVL_fresh]), ⟨P.sem, f1⟩⟩,
              fun _ => ⟨ch', (by simp), (by rw [hvia, hrc])⟩, (fun h => by cases h)⟩
          · simp only [hrc, if_false] at h2
            obtain ⟨hn', tail2, ht2, T, hb, hg⟩ := ih2 rest (done ++ [ch']) es1 r h2 hwf.2 P.nm
            refine ⟨hn', ch' :: tail2, (by rw [ht2]; simp), ⟨(by simp only [skelL, trVL]; rw [P.trr, T.trr]), ⟨P.sem, T.sem⟩⟩, ?_, ?_⟩
            · intro hf; obtain ⟨x, hx, hxu⟩ := hb hf; exact ⟨x, List.mem_cons_of_mem _ hx, hxu⟩
            · intro hf
              obtain ⟨g1, g2⟩ := hg hf
              refine ⟨fun x hx => ?_, ⟨?_, g2⟩⟩
              · rcases List.mem_cons.mp hx with e | e
                · rw [e, hvia]; exact hrc
                · exact g1 x e
              · by_cases hu : ch'.viable = .unknown
                · exact Or.inr (P.pend hu)
                · exact Or.inl hu
    -- ---------------------------------------------------------- loop of AndOrList::matchNonORs
    · intro restT done es r h hwf hnm
      cases restT with
      | nil =>
        simp only [freshL, andorNonORs] at h; cases h
        exact ⟨hnm, [], (by simp), ⟨rfl, trivial⟩, (fun h => by cases h), fun _ => trivial⟩
      | cons c rest =>
        simp only [treeWFL, Bool.and_eq_true] at hwf
        simp only [freshL, andorNonORs] at h
        by_cases hor : (fresh c).isOr = true
        · simp only [hor, if_true] at h
          obtain ⟨hn', tail2, ht2, T, hy, hn⟩ := ih3 rest (done ++ [fresh c]) es r h hwf.2 hnm
          have hsemc := fresh_SemV N c hwf.1
          have hpc : Pend (fresh c) := by
            cases c with
            | or ts => exact ⟨ts, rfl, hwf.1⟩
            | simple n => simp [fresh, ST.isOr] at hor
            | and ts => simp [fresh, ST.isOr] at hor
            | andor ts => simp [fresh, ST.isOr] at hor
          refine ⟨hn', fresh c :: tail2, (by rw [ht2]; simp), ⟨(by simp only [skelL, trVL]; rw [trV_fresh, T.trr]), ⟨hsemc, T.sem⟩⟩, ?_, ?_⟩
          · intro he; obtain ⟨x, hx, hxu⟩ := hy he; exact ⟨x, List.mem_cons_of_mem _ hx, hxu⟩
          · intro he; exact ⟨Or.inr hpc, hn he⟩
        · simp only [hor, Bool.false_eq_true, if_false] at h
          obtain ⟨⟨ch', es1, rc⟩, h1, h2⟩ := bind_ok' h
          have P := ih1 c es _ h1 hwf.1 hnm
          have hnotor : isOrT c = false := by rw [← isOr_fresh']; simpa using hor
          have hvia := P.via hnotor
          obtain ⟨f1, _⟩ := freshL_SemV N rest hwf.2
          simp only at h2 hvia
          have hpendc : ch'.viable ≠ .unknown ∨ Pend ch' := by
            by_cases hu : ch'.viable = .unknown
            · exact Or.inr (P.pend hu)
            · exact Or.inl hu
          split at h2
          · rename_i hall
            split at h2
            · cases h2
              refine ⟨P.nm, ch' :: freshL rest, rfl, ⟨(by simp only [skelL, trVL]; rw [P.trr, trVL_fresh]), ⟨P.sem, f1⟩⟩,
                fun _ => ⟨ch', (by simp), (by rw [hvia, hall])⟩, (fun h => by cases h)⟩
            · obtain ⟨hn', tail2, ht2, T, hy, hn⟩ := ih3 rest (done ++ [ch']) es1 r h2 hwf.2 P.nm
              refine ⟨hn', ch' :: tail2, (by rw [ht2]; simp), ⟨(by simp only [skelL, trVL]; rw [P.trr, T.trr]), ⟨P.sem, T.sem⟩⟩, ?_, ?_⟩
              · intro he; obtain ⟨x, hx, hxu⟩ := hy he; exact ⟨x, List.mem_cons_of_mem _ hx, hxu⟩
              · intro he; exact ⟨hpendc, hn he⟩
          · split at h2
            · rename_i hunsat
              obtain ⟨⟨ch2, es2⟩, h3, h4⟩ := bind_ok' h2
              have hs2 := (unmark_skel f).1 ch' es1 _ h3
              have hn2 : names es2 = N := by
                -- unmarkAll only clears marks
                have := (unmark_names f).1 ch' es1 _ h3
                rw [this, P.nm]
              obtain ⟨hn', tail2, ht2, T, hy, hn⟩ := ih3 rest (done ++ [ch2]) es2 r h4 hwf.2 hn2
              have hv2 : ch2.viable = .unsat := by rw [viable_of_skel hs2, hvia]; exact hunsat
              refine ⟨hn', ch2 :: tail2, (by rw [ht2]; simp),
                ⟨(by simp only [skelL, trVL]; rw [hs2, P.trr, T.trr]), ⟨(by rw [hs2]; exact P.sem), T.sem⟩⟩, ?_, ?_⟩
              · intro he; obtain ⟨x, hx, hxu⟩ := hy he; exact ⟨x, List.mem_cons_of_mem _ hx, hxu⟩
              · intro he; exact ⟨Or.inl (by rw [hv2]; simp), hn he⟩
            · obtain ⟨hn', tail2, ht2, T, hy, hn⟩ := ih3 rest (done ++ [ch']) es1 r h2 hwf.2 P.nm
              refine ⟨hn', ch' :: tail2, (by rw [ht2]; simp), ⟨(by simp only [skelL, trVL]; rw [P.trr, T.trr]), ⟨P.sem, T.sem⟩⟩, ?_, ?_⟩
              · intro he; obtain ⟨x, hx, hxu⟩ := hy he; exact ⟨x, List.mem_cons_of_mem _ hx, hxu⟩
              · intro he; exact ⟨hpendc, hn he⟩

end StepModel.Complex.Match

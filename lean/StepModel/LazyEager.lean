import StepModel.LazyScanGaps
import StepModel.P21.ReaderLemmas4
/-!
# The lazy scanner on the files of the eager reader's file-level theorem

Bridge between the byte-list file grammar of `StepModel/P21/ReaderLemmas3.lean` (`Rec`, `Param`, `Seps`, `renderRecs`,
`endsec`; bytes are `Nat`) and the lazy scanner model (`Char`).  Only lemmas here; the theorem is in `Props/C10.lean`.
-/
namespace StepModel.Lazy
open StepModel.Generated
open StepModel StepModel.P21 StepModel.P21.RLemmas StepModel.P21.Lemmas StepModel.P21.Grammar

/-- a byte as the scanner model sees it -/
def ch (b : Nat) : Char := Char.ofNat b
def cs (l : List Nat) : Bytes := l.map ch
def Small (l : List Nat) : Prop := ∀ b ∈ l, b < 256

theorem cs_append (a b : List Nat) : cs (a ++ b) = cs a ++ cs b := by simp [cs]
theorem cs_cons (a : Nat) (b : List Nat) : cs (a :: b) = ch a :: cs b := rfl
theorem cs_length (a : List Nat) : (cs a).length = a.length := by simp [cs]
theorem Small.app {a b : List Nat} (h : Small (a ++ b)) : Small a ∧ Small b :=
  ⟨fun x hx => h x (List.mem_append_left _ hx), fun x hx => h x (List.mem_append_right _ hx)⟩
theorem Small.cons {a : Nat} {b : List Nat} (h : Small (a :: b)) : a < 256 ∧ Small b :=
  ⟨h a (by simp), fun x hx => h x (List.mem_cons_of_mem _ hx)⟩

set_option maxRecDepth 100000 in
theorem isSpace_ch : ∀ b, b < 256 → isSpace (ch b) = StepModel.isSpace b := by decide
set_option maxRecDepth 100000 in
theorem isDigit_ch : ∀ b, b < 256 → isDigit (ch b) = StepModel.isDigit b := by decide
set_option maxRecDepth 100000 in
theorem isKw_ch : ∀ b, b < 256 → isKwChar (ch b) = (StepModel.isUpper b || StepModel.isDigit b || b == 95 || b == 45) := by decide
set_option maxRecDepth 100000 in
theorem ch_star : ∀ b, b < 256 → (ch b == '*') = (b == 42) := by decide
set_option maxRecDepth 100000 in
theorem ch_slash : ∀ b, b < 256 → (ch b == '/') = (b == 47) := by decide
set_option maxRecDepth 100000 in
theorem ch_quote : ∀ b, b < 256 → (ch b == '\'') = (b == 39) := by decide
set_option maxRecDepth 100000 in
theorem ch_bslash : ∀ b, b < 256 → (ch b == '\\') = (b == 92) := by decide
set_option maxRecDepth 100000 in
theorem ch_S : ∀ b, b < 256 → (ch b == 'S') = (b == 83) := by decide
set_option maxRecDepth 100000 in
theorem ch_digit_val : ∀ b, b < 256 → (ch b).toNat - '0'.toNat = b - 48 := by decide

/-- a byte `seekInstanceEnd` steps over without any effect -/
def lplain (b : Nat) : Bool := b != 40 && b != 41 && b != 47 && b != 39 && b != 61 && b != 35
set_option maxRecDepth 100000 in
theorem lplain_ch : ∀ b, b < 256 → lplain b = true →
    (ch b == '(') = false ∧ (ch b == '/') = false ∧ (ch b == '\'') = false ∧ (ch b == '=') = false ∧
    (ch b == '#') = false ∧ (ch b == ')') = false := by decide

theorem all_space_cs (sp : List Nat) (hs : Small sp) (h : sp.all StepModel.isSpace = true) : (cs sp).all isSpace = true := by
  induction sp with
  | nil => rfl
  | cons a t ih =>
    simp only [List.all_cons, Bool.and_eq_true] at h
    simp only [cs_cons, List.all_cons, Bool.and_eq_true]
    exact ⟨by rw [isSpace_ch a hs.cons.1]; exact h.1, ih hs.cons.2 h.2⟩

theorem digitsVal_cs (ds : List Nat) (hs : Small ds) : ∀ acc, (cs ds).foldl (fun n c => 10 * n + (c.toNat - '0'.toNat)) acc =
    StepModel.digitsVal ds acc := by
  induction ds with
  | nil => intro acc; rfl
  | cons d t ih =>
    intro acc
    simp only [cs_cons, List.foldl_cons, StepModel.digitsVal]
    rw [ch_digit_val d hs.cons.1, ih hs.cons.2]
    congr 1; omega

theorem digitsVal_cs0 (ds : List Nat) (hs : Small ds) : digitsVal (cs ds) = StepModel.digitsVal ds 0 := by
  unfold digitsVal; exact digitsVal_cs ds hs 0

theorem all_digit_cs (ds : List Nat) (hs : Small ds) (h : ds.all StepModel.isDigit = true) : (cs ds).all isDigit = true := by
  induction ds with
  | nil => rfl
  | cons a t ih =>
    simp only [List.all_cons, Bool.and_eq_true] at h
    simp only [cs_cons, List.all_cons, Bool.and_eq_true]
    exact ⟨by rw [isDigit_ch a hs.cons.1]; exact h.1, ih hs.cons.2 h.2⟩

/-! ### layout: `Seps` as a gap -/

theorem noClose_cs : ∀ (body : List Nat), Small body → NoClose body → ∀ p : Nat, p < 256 → ¬(p = 42 ∧ body.head? = some 47) →
    noCloseFrom (ch p) (cs body) = true := by
  intro body
  induction body with
  | nil => intro _ _ p _ _; rfl
  | cons a t ih =>
    intro hs hn p hp hpa
    simp only [cs_cons, noCloseFrom, Bool.and_eq_true, Bool.not_eq_true']
    constructor
    · rw [ch_star p hp, ch_slash a hs.cons.1]
      cases h1 : (p == 42) with
      | false => rfl
      | true =>
        cases h2 : (a == 47) with
        | false => rfl
        | true => exact absurd ⟨by simpa using h1, by simp at h2; simp [h2]⟩ hpa
    · apply ih hs.cons.2 _ a hs.cons.1
      · cases t with
        | nil => simp
        | cons b u => simp only [List.head?_cons, Option.some.injEq]; exact hn.1
      · cases t with
        | nil => trivial
        | cons b u => exact hn.2

theorem gapRender_append (g : Gap) (ws rest : Bytes) : gapRender g ws [] ++ rest = gapRender g ws rest := by
  induction g with
  | nil => simp [gapRender]
  | cons p t ih => obtain ⟨w, b⟩ := p; simp [gapRender, ih]

/-- with the raw comment skipper every Part 21 separator sequence is a gap of the scanner -/
theorem seps_gap (hraw : commentsRaw = true) : ∀ (s : List Nat), Seps s → Small s →
    ∃ g ws, gapOk g = true ∧ ws.all isSpace = true ∧ cs s = gapRender g ws [] := by
  intro s hs
  induction hs with
  | blanks sp hsp => intro hsm; exact ⟨[], cs sp, rfl, all_space_cs sp hsm hsp, by simp [gapRender]⟩
  | comment sp body t hsp hb _ ih =>
    intro hsm
    have h1 := hsm.app
    have h3 : Small (body ++ 42 :: 47 :: t) := h1.2.cons.2.cons.2
    have h2 : Small body ∧ Small t := ⟨h3.app.1, h3.app.2.cons.2.cons.2⟩
    obtain ⟨g, ws, hg, hws, he⟩ := ih h2.2
    refine ⟨(cs sp, cs body) :: g, ws, ?_, hws, ?_⟩
    · simp only [gapOk, List.all_cons, Bool.and_eq_true]
      refine ⟨⟨all_space_cs sp h1.1 hsp, ?_⟩, hg⟩
      unfold cmtOk; rw [hraw]; simp only [↓reduceIte]
      exact noClose_cs body h2.1 hb 0 (by omega) (by simp)
    · simp only [gapRender, cs_append, cs_cons, he]
      rfl


/-! ### string literals of the grammar (`StringBody`) under `GetLiteralStr`'s rule -/

set_option maxRecDepth 100000 in
theorem nonq_facts : ∀ b, b < 256 → isNonQ b = true → b ≠ 39 ∧ b ≠ 92 := by decide
set_option maxRecDepth 100000 in
theorem upperP_facts : ∀ b, b < 256 → isUpperP21 b = true → b ≠ 39 ∧ b ≠ 92 := by decide
set_option maxRecDepth 100000 in
theorem hexP_facts : ∀ b, b < 256 → isHexP21 b = true → b ≠ 39 ∧ b ≠ 92 := by decide

theorem ch_ne_quote (b : Nat) (hb : b < 256) (h : b ≠ 39) : (ch b == '\'') = false := by
  rw [ch_quote b hb]; simpa using h

theorem ch_ne_bslash (b : Nat) (hb : b < 256) (h : b ≠ 92) : ch b ≠ '\\' := by
  intro e
  have := ch_bslash b hb
  rw [e] at this
  simp at this; exact h this

/-- one byte that is not an apostrophe, inside a string -/
theorem strLoop_nq (acc : Bytes) (b : Nat) (hb : b < 256) (h : b ≠ 39) (r : Bytes) :
    strLoop acc true (ch b :: r) = strLoop (ch b :: acc) true r := by
  simp [strLoop, ch_ne_quote b hb h]

theorem strLoop_nqs : ∀ (l : List Nat), Small l → (∀ b ∈ l, b ≠ 39) → ∀ (acc tail : Bytes),
    strLoop acc true (cs l ++ tail) = strLoop ((cs l).reverse ++ acc) true tail := by
  intro l
  induction l with
  | nil => intro _ _ acc tail; rfl
  | cons a t ih =>
    intro hs hn acc tail
    rw [cs_cons, List.cons_append, strLoop_nq acc a hs.cons.1 (hn a (by simp)), ih hs.cons.2 (fun b hb => hn b (List.mem_cons_of_mem _ hb))]
    simp

theorem endsSBS_head_ne (c : Char) (t : Bytes) (h : c ≠ '\\') : endsSBS (c :: t) = false := by
  unfold endsSBS; split
  · rename_i heq; injection heq with h1 _; exact absurd h1 h
  · rfl

theorem endsSBS_second_ne (c d : Char) (t : Bytes) (h : d ≠ 'S') : endsSBS (c :: d :: t) = false := by
  unfold endsSBS; split
  · rename_i heq; injection heq with _ h2; injection h2 with h3 _; exact absurd h3 h
  · rfl

/-- the string reader passes over every body of the Part 21 string grammar, ending in a state from which an apostrophe is a real one -/
theorem strLoop_sb : ∀ (b : List Nat), StringBody b → Small b → ∀ (acc : Bytes), endsSBS acc = false →
    ∃ acc', endsSBS acc' = false ∧ ∀ tail, strLoop acc true (cs b ++ tail) = strLoop acc' true tail := by
  intro b hb
  induction hb with
  | nil => intro _ acc ha; exact ⟨acc, ha, fun _ => rfl⟩
  | @nonq c m hc _ ih =>
    intro hs acc _
    have hf := nonq_facts c hs.cons.1 hc
    obtain ⟨acc', h1, h2⟩ := ih hs.cons.2 (ch c :: acc) (endsSBS_head_ne _ _ (ch_ne_bslash c hs.cons.1 hf.2))
    exact ⟨acc', h1, fun tail => by rw [cs_cons, List.cons_append, strLoop_nq acc c hs.cons.1 hf.1, h2]⟩
  | @apos m _ ih =>
    intro hs acc ha
    have hs2 : Small m := hs.cons.2.cons.2
    obtain ⟨acc', h1, h2⟩ := ih hs2 ('\'' :: '\'' :: acc) (endsSBS_head_ne _ _ (by decide))
    refine ⟨acc', h1, fun tail => ?_⟩
    have e : cs (39 :: 39 :: m) = '\'' :: '\'' :: cs m := rfl
    have hs' : endsSBS ('\'' :: acc) = false := endsSBS_head_ne _ _ (by decide)
    rw [e]
    simp only [List.cons_append, strLoop, beq_self_eq_true, ↓reduceIte, ha, hs', Bool.false_eq_true, Bool.not_true, Bool.not_false]
    exact h2 tail
  | @backslash m _ ih =>
    intro hs acc _
    have hs2 : Small m := hs.cons.2.cons.2
    obtain ⟨acc', h1, h2⟩ := ih hs2 ('\\' :: '\\' :: acc) (endsSBS_second_ne _ _ _ (by decide))
    refine ⟨acc', h1, fun tail => ?_⟩
    have e : cs (92 :: 92 :: m) = cs [92, 92] ++ cs m := rfl
    rw [e, List.append_assoc, strLoop_nqs [92, 92] (by intro x hx; simp at hx; omega) (by intro x hx; simp at hx; omega)]
    exact h2 tail
  | @page c m hc _ ih =>
    intro hs acc _
    have hs2 : Small m := hs.cons.2.cons.2.cons.2.cons.2
    have hc256 : c < 256 := hs.cons.2.cons.2.cons.2.cons.1
    have e : cs (92 :: 83 :: 92 :: c :: m) = cs [92, 83, 92] ++ (ch c :: cs m) := rfl
    by_cases hq : c = 39
    · subst hq
      obtain ⟨acc', h1, h2⟩ := ih hs2 ('\'' :: '\\' :: 'S' :: '\\' :: acc) (endsSBS_head_ne _ _ (by decide))
      refine ⟨acc', h1, fun tail => ?_⟩
      rw [e, List.append_assoc, strLoop_nqs [92, 83, 92] (by intro x hx; simp at hx; omega) (by intro x hx; simp at hx; omega)]
      have hsb : endsSBS ((cs [92, 83, 92]).reverse ++ acc) = true := rfl
      have hq' : ch 39 = '\'' := rfl
      rw [hq']
      simp only [List.cons_append, strLoop, beq_self_eq_true, ↓reduceIte, hsb]
      exact h2 tail
    · obtain ⟨acc', h1, h2⟩ := ih hs2 (ch c :: '\\' :: 'S' :: '\\' :: acc) (endsSBS_second_ne _ _ _ (by decide))
      refine ⟨acc', h1, fun tail => ?_⟩
      rw [e, List.append_assoc, strLoop_nqs [92, 83, 92] (by intro x hx; simp at hx; omega) (by intro x hx; simp at hx; omega)]
      rw [List.cons_append, strLoop_nq _ c hc256 hq]
      exact h2 tail
  | @alphabet u m hu _ ih =>
    intro hs acc _
    have hs2 : Small m := hs.cons.2.cons.2.cons.2.cons.2
    have hu256 : u < 256 := hs.cons.2.cons.2.cons.1
    have huf := upperP_facts u hu256 hu
    obtain ⟨acc', h1, h2⟩ := ih hs2 ('\\' :: ch u :: 'P' :: '\\' :: acc) (by
      unfold endsSBS; split
      · rename_i heq; injection heq with _ h2; injection h2 with _ h3; injection h3 with h4 _; exact absurd h4 (by decide)
      · rfl)
    refine ⟨acc', h1, fun tail => ?_⟩
    have e : cs (92 :: 80 :: u :: 92 :: m) = cs [92, 80, u, 92] ++ cs m := rfl
    rw [e, List.append_assoc, strLoop_nqs [92, 80, u, 92] (by simp [Small, hu256]) (by simp [huf.1])]
    exact h2 tail
  | @arbitrary h1 h2 m hh1 hh2 _ ih =>
    intro hs acc _
    have hs2 : Small m := hs.cons.2.cons.2.cons.2.cons.2.cons.2
    have a1 : h1 < 256 := hs.cons.2.cons.2.cons.2.cons.1
    have a2 : h2 < 256 := hs.cons.2.cons.2.cons.2.cons.2.cons.1
    have f1 := hexP_facts h1 a1 hh1
    have f2 := hexP_facts h2 a2 hh2
    obtain ⟨acc', g1, g2⟩ := ih hs2 (ch h2 :: ch h1 :: '\\' :: 'X' :: '\\' :: acc) (endsSBS_head_ne _ _ (ch_ne_bslash h2 a2 f2.2))
    refine ⟨acc', g1, fun tail => ?_⟩
    have e : cs (92 :: 88 :: 92 :: h1 :: h2 :: m) = cs [92, 88, 92, h1, h2] ++ cs m := rfl
    rw [e, List.append_assoc, strLoop_nqs [92, 88, 92, h1, h2] (by simp [Small, a1, a2]) (by simp [f1.1, f2.1])]
    exact g2 tail
  | @extended w hsx m hw hhs _ ih =>
    intro hs acc _
    have hsm : Small (hsx ++ 92 :: 88 :: 48 :: 92 :: m) := hs.cons.2.cons.2.cons.2.cons.2
    have hs2 : Small m := hsm.app.2.cons.2.cons.2.cons.2.cons.2
    have hw256 : w < 256 := hs.cons.2.cons.2.cons.1
    obtain ⟨acc', g1, g2⟩ := ih hs2 ('\\' :: '0' :: 'X' :: '\\' :: ((cs hsx).reverse ++ ('\\' :: ch w :: 'X' :: '\\' :: acc)))
      (endsSBS_second_ne _ _ _ (by decide))
    refine ⟨acc', g1, fun tail => ?_⟩
    have e : cs (92 :: 88 :: w :: 92 :: (hsx ++ 92 :: 88 :: 48 :: 92 :: m)) =
        cs [92, 88, w, 92] ++ (cs hsx ++ (cs [92, 88, 48, 92] ++ cs m)) := by simp [cs]
    have hnq : ∀ b ∈ hsx, b ≠ 39 := by
      intro b hb
      have := List.all_eq_true.mp hhs b hb
      exact (hexP_facts b (hsm.app.1 b hb) this).1
    have hw39 : w ≠ 39 := by rcases hw with h | h <;> (rw [h]; decide)
    rw [e, List.append_assoc, strLoop_nqs [92, 88, w, 92] (by simp [Small, hw256]) (by simp [hw39]),
      List.append_assoc, strLoop_nqs hsx hsm.app.1 hnq, List.append_assoc,
      strLoop_nqs [92, 88, 48, 92] (by intro x hx; simp at hx; omega) (by intro x hx; simp at hx; omega)]
    exact g2 tail

/-- `GetLiteralStr` reads a string literal of the grammar exactly to its closing apostrophe -/
theorem strRest_sb (b : List Nat) (hb : StringBody b) (hs : Small b) (rest : Bytes) (hr : rest.head? ≠ some '\'') :
    strRest ('\'' :: (cs b ++ '\'' :: rest)) = rest := by
  obtain ⟨acc', h1, h2⟩ := strLoop_sb b hb hs ['\''] (endsSBS_head_ne _ _ (by decide))
  show strLoop ['\''] true (cs b ++ '\'' :: rest) = rest
  rw [h2]
  simp only [strLoop, h1, beq_self_eq_true, ↓reduceIte, Bool.false_eq_true, Bool.not_true]
  cases rest with
  | nil => simp [strLoop]
  | cons c r =>
    have : (c == '\'') = false := by simp at hr; simp; exact hr
    simp [strLoop, this]

end StepModel.Lazy

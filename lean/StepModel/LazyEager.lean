import StepModel.LazyScanGaps
import StepModel.P21.ReaderLemmas4
/-!
# The lazy scanner on the files of the eager reader's file-level theorem

Bridge between the byte-list file grammar of `StepModel/P21/ReaderLemmas3.lean` (`Rec`, `Param`, `Seps`, `renderRecs`,
`endsec`; bytes are `Nat`) and the lazy scanner model (`Char`).  Only lemmas here; the theorem is in `Props/C10.lean`.
-/
namespace StepModel.Lazy
open StepModel.Generated
open StepModel StepModel.P21 StepModel.P21.RLemmas StepModel.P21.Lemmas StepModel.P21.Grammar

/-- a byte as the scanner model sees it -/
def ch (b : Nat) : Char := Char.ofNat b
def cs (l : List Nat) : Bytes := l.map ch
def Small (l : List Nat) : Prop := ∀ b ∈ l, b < 256

theorem cs_append (a b : List Nat) : cs (a ++ b) = cs a ++ cs b := by simp [cs]
theorem cs_cons (a : Nat) (b : List Nat) : cs (a :: b) = ch a :: cs b := rfl
theorem cs_length (a : List Nat) : (cs a).length = a.length := by simp [cs]
theorem Small.app {a b : List Nat} (h : Small (a ++ b)) : Small a ∧ Small b :=
  ⟨fun x hx => h x (List.mem_append_left _ hx), fun x hx => h x (List.mem_append_right _ hx)⟩
theorem Small.cons {a : Nat} {b : List Nat} (h : Small (a :: b)) : a < 256 ∧ Small b :=
  ⟨h a (by simp), fun x hx => h x (List.mem_cons_of_mem _ hx)⟩

set_option maxRecDepth 100000 in
theorem isSpace_ch : ∀ b, b < 256 → isSpace (ch b) = StepModel.isSpace b := by decide
set_option maxRecDepth 100000 in
theorem isDigit_ch : ∀ b, b < 256 → isDigit (ch b) = StepModel.isDigit b := by decide
set_option maxRecDepth 100000 in
theorem isKw_ch : ∀ b, b < 256 → isKwChar (ch b) = (StepModel.isUpper b || StepModel.isDigit b || b == 95 || b == 45) := by decide
set_option maxRecDepth 100000 in
theorem ch_star : ∀ b, b < 256 → (ch b == '*') = (b == 42) := by decide
set_option maxRecDepth 100000 in
theorem ch_slash : ∀ b, b < 256 → (ch b == '/') = (b == 47) := by decide
set_option maxRecDepth 100000 in
theorem ch_quote : ∀ b, b < 256 → (ch b == '\'') = (b == 39) := by decide
set_option maxRecDepth 100000 in
theorem ch_bslash : ∀ b, b < 256 → (ch b == '\\') = (b == 92) := by decide
set_option maxRecDepth 100000 in
theorem ch_S : ∀ b, b < 256 → (ch b == 'S') = (b == 83) := by decide
set_option maxRecDepth 100000 in
theorem ch_digit_val : ∀ b, b < 256 → (ch b).toNat - '0'.toNat = b - 48 := by decide

/-- a byte `seekInstanceEnd` steps over without any effect -/
def lplain (b : Nat) : Bool := b != 40 && b != 41 && b != 47 && b != 39 && b != 61 && b != 35
set_option maxRecDepth 100000 in
theorem lplain_ch : ∀ b, b < 256 → lplain b = true →
    (ch b == '(') = false ∧ (ch b == '/') = false ∧ (ch b == '\'') = false ∧ (ch b == '=') = false ∧
    (ch b == '#') = false ∧ (ch b == ')') = false := by decide

theorem all_space_cs (sp : List Nat) (hs : Small sp) (h : sp.all StepModel.isSpace = true) : (cs sp).all isSpace = true := by
  induction sp with
  | nil => rfl
  | cons a t ih =>
    simp only [List.all_cons, Bool.and_eq_true] at h
    simp only [cs_cons, List.all_cons, Bool.and_eq_true]
    exact ⟨by rw [isSpace_ch a hs.cons.1]; exact h.1, ih hs.cons.2 h.2⟩

theorem digitsVal_cs (ds : List Nat) (hs : Small ds) : ∀ acc, (cs ds).foldl (fun n c => 10 * n + (c.toNat - '0'.toNat)) acc =
    StepModel.digitsVal ds acc := by
  induction ds with
  | nil => intro acc; rfl
  | cons d t ih =>
    intro acc
    simp only [cs_cons, List.foldl_cons, StepModel.digitsVal]
    rw [ch_digit_val d hs.cons.1, ih hs.cons.2]
    congr 1; omega

theorem digitsVal_cs0 (ds : List Nat) (hs : Small ds) : digitsVal (cs ds) = StepModel.digitsVal ds 0 := by
  unfold digitsVal; exact digitsVal_cs ds hs 0

theorem all_digit_cs (ds : List Nat) (hs : Small ds) (h : ds.all StepModel.isDigit = true) : (cs ds).all isDigit = true := by
  induction ds with
  | nil => rfl
  | cons a t ih =>
    simp only [List.all_cons, Bool.and_eq_true] at h
    simp only [cs_cons, List.all_cons, Bool.and_eq_true]
    exact ⟨by rw [isDigit_ch a hs.cons.1]; exact h.1, ih hs.cons.2 h.2⟩

/-! ### layout: `Seps` as a gap -/

theorem noClose_cs : ∀ (body : List Nat), Small body → NoClose body → ∀ p : Nat, p < 256 → ¬(p = 42 ∧ body.head? = some 47) →
    noCloseFrom (ch p) (cs body) = true := by
  intro body
  induction body with
  | nil => intro _ _ p _ _; rfl
  | cons a t ih =>
    intro hs hn p hp hpa
    simp only [cs_cons, noCloseFrom, Bool.and_eq_true, Bool.not_eq_true']
    constructor
    · rw [ch_star p hp, ch_slash a hs.cons.1]
      cases h1 : (p == 42) with
      | false => rfl
      | true =>
        cases h2 : (a == 47) with
        | false => rfl
        | true => exact absurd ⟨by simpa using h1, by simp at h2; simp [h2]⟩ hpa
    · apply ih hs.cons.2 _ a hs.cons.1
      · cases t with
        | nil => simp
        | cons b u => simp only [List.head?_cons, Option.some.injEq]; exact hn.1
      · cases t with
        | nil => trivial
        | cons b u => exact hn.2

theorem gapRender_append (g : Gap) (ws rest : Bytes) : gapRender g ws [] ++ rest = gapRender g ws rest := by
  induction g with
  | nil => simp [gapRender]
  | cons p t ih => obtain ⟨w, b⟩ := p; simp [gapRender, ih]

/-- with the raw comment skipper every Part 21 separator sequence is a gap of the scanner -/
theorem seps_gap (hraw : commentsRaw = true) : ∀ (s : List Nat), Seps s → Small s →
    ∃ g ws, gapOk g = true ∧ ws.all isSpace = true ∧ cs s = gapRender g ws [] := by
  intro s hs
  induction hs with
  | blanks sp hsp => intro hsm; exact ⟨[], cs sp, rfl, all_space_cs sp hsm hsp, by simp [gapRender]⟩
  | comment sp body t hsp hb _ ih =>
    intro hsm
    have h1 := hsm.app
    have h3 : Small (body ++ 42 :: 47 :: t) := h1.2.cons.2.cons.2
    have h2 : Small body ∧ Small t := ⟨h3.app.1, h3.app.2.cons.2.cons.2⟩
    obtain ⟨g, ws, hg, hws, he⟩ := ih h2.2
    refine ⟨(cs sp, cs body) :: g, ws, ?_, hws, ?_⟩
    · simp only [gapOk, List.all_cons, Bool.and_eq_true]
      refine ⟨⟨all_space_cs sp h1.1 hsp, ?_⟩, hg⟩
      unfold cmtOk; rw [hraw]; simp only [↓reduceIte]
      exact noClose_cs body h2.1 hb 0 (by omega) (by simp)
    · simp only [gapRender, cs_append, cs_cons, he]
      rfl


/-! ### string literals of the grammar (`StringBody`) under `GetLiteralStr`'s rule -/

set_option maxRecDepth 100000 in
theorem nonq_facts : ∀ b, b < 256 → isNonQ b = true → b ≠ 39 ∧ b ≠ 92 := by decide
set_option maxRecDepth 100000 in
theorem upperP_facts : ∀ b, b < 256 → isUpperP21 b = true → b ≠ 39 ∧ b ≠ 92 := by decide
set_option maxRecDepth 100000 in
theorem hexP_facts : ∀ b, b < 256 → isHexP21 b = true → b ≠ 39 ∧ b ≠ 92 := by decide

theorem ch_ne_quote (b : Nat) (hb : b < 256) (h : b ≠ 39) : (ch b == '\'') = false := by
  rw [ch_quote b hb]; simpa using h

theorem ch_ne_bslash (b : Nat) (hb : b < 256) (h : b ≠ 92) : ch b ≠ '\\' := by
  intro e
  have := ch_bslash b hb
  rw [e] at this
  simp at this; exact h this

/-- one byte that is not an apostrophe, inside a string -/
theorem strLoop_nq (acc : Bytes) (b : Nat) (hb : b < 256) (h : b ≠ 39) (r : Bytes) :
    strLoop acc true (ch b :: r) = strLoop (ch b :: acc) true r := by
  simp [strLoop, ch_ne_quote b hb h]

theorem strLoop_nqs : ∀ (l : List Nat), Small l → (∀ b ∈ l, b ≠ 39) → ∀ (acc tail : Bytes),
    strLoop acc true (cs l ++ tail) = strLoop ((cs l).reverse ++ acc) true tail := by
  intro l
  induction l with
  | nil => intro _ _ acc tail; rfl
  | cons a t ih =>
    intro hs hn acc tail
    rw [cs_cons, List.cons_append, strLoop_nq acc a hs.cons.1 (hn a (by simp)), ih hs.cons.2 (fun b hb => hn b (List.mem_cons_of_mem _ hb))]
    simp

theorem endsSBS_head_ne (c : Char) (t : Bytes) (h : c ≠ '\\') : endsSBS (c :: t) = false := by
  unfold endsSBS; split
  · rename_i heq; injection heq with h1 _; exact absurd h1 h
  · rfl

theorem endsSBS_second_ne (c d : Char) (t : Bytes) (h : d ≠ 'S') : endsSBS (c :: d :: t) = false := by
  unfold endsSBS; split
  · rename_i heq; injection heq with _ h2; injection h2 with h3 _; exact absurd h3 h
  · rfl

/-- the string reader passes over every body of the Part 21 string grammar, ending in a state from which an apostrophe is a real one -/
theorem strLoop_sb : ∀ (b : List Nat), StringBody b → Small b → ∀ (acc : Bytes), endsSBS acc = false →
    ∃ acc', endsSBS acc' = false ∧ ∀ tail, strLoop acc true (cs b ++ tail) = strLoop acc' true tail := by
  intro b hb
  induction hb with
  | nil => intro _ acc ha; exact ⟨acc, ha, fun _ => rfl⟩
  | @nonq c m hc _ ih =>
    intro hs acc _
    have hf := nonq_facts c hs.cons.1 hc
    obtain ⟨acc', h1, h2⟩ := ih hs.cons.2 (ch c :: acc) (endsSBS_head_ne _ _ (ch_ne_bslash c hs.cons.1 hf.2))
    exact ⟨acc', h1, fun tail => by rw [cs_cons, List.cons_append, strLoop_nq acc c hs.cons.1 hf.1, h2]⟩
  | @apos m _ ih =>
    intro hs acc ha
    have hs2 : Small m := hs.cons.2.cons.2
    obtain ⟨acc', h1, h2⟩ := ih hs2 ('\'' :: '\'' :: acc) (endsSBS_head_ne _ _ (by decide))
    refine ⟨acc', h1, fun tail => ?_⟩
    have e : cs (39 :: 39 :: m) = '\'' :: '\'' :: cs m := rfl
    have hs' : endsSBS ('\'' :: acc) = false := endsSBS_head_ne _ _ (by decide)
    rw [e]
    simp only [List.cons_append, strLoop, beq_self_eq_true, ↓reduceIte, ha, hs', Bool.false_eq_true, Bool.not_true, Bool.not_false]
    exact h2 tail
  | @backslash m _ ih =>
    intro hs acc _
    have hs2 : Small m := hs.cons.2.cons.2
    obtain ⟨acc', h1, h2⟩ := ih hs2 ('\\' :: '\\' :: acc) (endsSBS_second_ne _ _ _ (by decide))
    refine ⟨acc', h1, fun tail => ?_⟩
    have e : cs (92 :: 92 :: m) = cs [92, 92] ++ cs m := rfl
    rw [e, List.append_assoc, strLoop_nqs [92, 92] (by intro x hx; simp at hx; omega) (by intro x hx; simp at hx; omega)]
    exact h2 tail
  | @page c m hc _ ih =>
    intro hs acc _
    have hs2 : Small m := hs.cons.2.cons.2.cons.2.cons.2
    have hc256 : c < 256 := hs.cons.2.cons.2.cons.2.cons.1
    have e : cs (92 :: 83 :: 92 :: c :: m) = cs [92, 83, 92] ++ (ch c :: cs m) := rfl
    by_cases hq : c = 39
    · subst hq
      obtain ⟨acc', h1, h2⟩ := ih hs2 ('\'' :: '\\' :: 'S' :: '\\' :: acc) (endsSBS_head_ne _ _ (by decide))
      refine ⟨acc', h1, fun tail => ?_⟩
      rw [e, List.append_assoc, strLoop_nqs [92, 83, 92] (by intro x hx; simp at hx; omega) (by intro x hx; simp at hx; omega)]
      have hsb : endsSBS ((cs [92, 83, 92]).reverse ++ acc) = true := rfl
      have hq' : ch 39 = '\'' := rfl
      rw [hq']
      simp only [List.cons_append, strLoop, beq_self_eq_true, ↓reduceIte, hsb]
      exact h2 tail
    · obtain ⟨acc', h1, h2⟩ := ih hs2 (ch c :: '\\' :: 'S' :: '\\' :: acc) (endsSBS_second_ne _ _ _ (by decide))
      refine ⟨acc', h1, fun tail => ?_⟩
      rw [e, List.append_assoc, strLoop_nqs [92, 83, 92] (by intro x hx; simp at hx; omega) (by intro x hx; simp at hx; omega)]
      rw [List.cons_append, strLoop_nq _ c hc256 hq]
      exact h2 tail
  | @alphabet u m hu _ ih =>
    intro hs acc _
    have hs2 : Small m := hs.cons.2.cons.2.cons.2.cons.2
    have hu256 : u < 256 := hs.cons.2.cons.2.cons.1
    have huf := upperP_facts u hu256 hu
    obtain ⟨acc', h1, h2⟩ := ih hs2 ('\\' :: ch u :: 'P' :: '\\' :: acc) (by
      unfold endsSBS; split
      · rename_i heq; injection heq with _ h2; injection h2 with _ h3; injection h3 with h4 _; exact absurd h4 (by decide)
      · rfl)
    refine ⟨acc', h1, fun tail => ?_⟩
    have e : cs (92 :: 80 :: u :: 92 :: m) = cs [92, 80, u, 92] ++ cs m := rfl
    rw [e, List.append_assoc, strLoop_nqs [92, 80, u, 92] (by simp [Small, hu256]) (by simp [huf.1])]
    exact h2 tail
  | @arbitrary h1 h2 m hh1 hh2 _ ih =>
    intro hs acc _
    have hs2 : Small m := hs.cons.2.cons.2.cons.2.cons.2.cons.2
    have a1 : h1 < 256 := hs.cons.2.cons.2.cons.2.cons.1
    have a2 : h2 < 256 := hs.cons.2.cons.2.cons.2.cons.2.cons.1
    have f1 := hexP_facts h1 a1 hh1
    have f2 := hexP_facts h2 a2 hh2
    obtain ⟨acc', g1, g2⟩ := ih hs2 (ch h2 :: ch h1 :: '\\' :: 'X' :: '\\' :: acc) (endsSBS_head_ne _ _ (ch_ne_bslash h2 a2 f2.2))
    refine ⟨acc', g1, fun tail => ?_⟩
    have e : cs (92 :: 88 :: 92 :: h1 :: h2 :: m) = cs [92, 88, 92, h1, h2] ++ cs m := rfl
    rw [e, List.append_assoc, strLoop_nqs [92, 88, 92, h1, h2] (by simp [Small, a1, a2]) (by simp [f1.1, f2.1])]
    exact g2 tail
  | @extended w hsx m hw hhs _ ih =>
    intro hs acc _
    have hsm : Small (hsx ++ 92 :: 88 :: 48 :: 92 :: m) := hs.cons.2.cons.2.cons.2.cons.2
    have hs2 : Small m := hsm.app.2.cons.2.cons.2.cons.2.cons.2
    have hw256 : w < 256 := hs.cons.2.cons.2.cons.1
    obtain ⟨acc', g1, g2⟩ := ih hs2 ('\\' :: '0' :: 'X' :: '\\' :: ((cs hsx).reverse ++ ('\\' :: ch w :: 'X' :: '\\' :: acc)))
      (endsSBS_second_ne _ _ _ (by decide))
    refine ⟨acc', g1, fun tail => ?_⟩
    have e : cs (92 :: 88 :: w :: 92 :: (hsx ++ 92 :: 88 :: 48 :: 92 :: m)) =
        cs [92, 88, w, 92] ++ (cs hsx ++ (cs [92, 88, 48, 92] ++ cs m)) := by simp [cs]
    have hnq : ∀ b ∈ hsx, b ≠ 39 := by
      intro b hb
      have := List.all_eq_true.mp hhs b hb
      exact (hexP_facts b (hsm.app.1 b hb) this).1
    have hw39 : w ≠ 39 := by rcases hw with h | h <;> (rw [h]; decide)
    rw [e, List.append_assoc, strLoop_nqs [92, 88, w, 92] (by simp [Small, hw256]) (by simp [hw39]),
      List.append_assoc, strLoop_nqs hsx hsm.app.1 hnq, List.append_assoc,
      strLoop_nqs [92, 88, 48, 92] (by intro x hx; simp at hx; omega) (by intro x hx; simp at hx; omega)]
    exact g2 tail

/-- `GetLiteralStr` reads a string literal of the grammar exactly to its closing apostrophe -/
theorem strRest_sb (b : List Nat) (hb : StringBody b) (hs : Small b) (rest : Bytes) (hr : rest.head? ≠ some '\'') :
    strRest ('\'' :: (cs b ++ '\'' :: rest)) = rest := by
  obtain ⟨acc', h1, h2⟩ := strLoop_sb b hb hs ['\''] (endsSBS_head_ne _ _ (by decide))
  show strLoop ['\''] true (cs b ++ '\'' :: rest) = rest
  rw [h2]
  simp only [strLoop, h1, beq_self_eq_true, ↓reduceIte, Bool.false_eq_true, Bool.not_true]
  cases rest with
  | nil => simp [strLoop]
  | cons c r =>
    have : (c == '\'') = false := by simp at hr; simp; exact hr
    simp [strLoop, this]


/-! ### `seekInstanceEnd` over the pieces of a parameter list (raw comment skipping) -/

theorem seekEnd_char (f : Nat) (d : Int) (acc : List Nat) (c : Char) (r : Bytes)
    (h : (c == '(') = false ∧ (c == '/') = false ∧ (c == '\'') = false ∧ (c == '=') = false ∧ (c == '#') = false ∧ (c == ')') = false) :
    seekEnd (f + 1) d acc (c :: r) = seekEnd f d acc r := by
  simp only [seekEnd, h.1, h.2.1, h.2.2.1, h.2.2.2.1, h.2.2.2.2.1, h.2.2.2.2.2, Bool.false_eq_true, ↓reduceIte]

theorem space_plain (c : Char) (h : isSpace c = true) :
    (c == '(') = false ∧ (c == '/') = false ∧ (c == '\'') = false ∧ (c == '=') = false ∧ (c == '#') = false ∧ (c == ')') = false := by
  have a := space_ne c h
  have b := space_ne2 c h
  simp [a.2.1, a.2.2.1, a.2.2.2, b.1, b.2.1, b.2.2]

theorem seekEnd_spaces : ∀ (ws : Bytes), ws.all isSpace = true → ∀ (f : Nat) (d : Int) (acc : List Nat) (r : Bytes),
    seekEnd (f + ws.length) d acc (ws ++ r) = seekEnd f d acc r := by
  intro ws
  induction ws with
  | nil => intro _ f d acc r; rfl
  | cons w t ih =>
    intro h f d acc r
    simp only [List.all_cons, Bool.and_eq_true] at h
    have : f + (w :: t).length = (f + t.length) + 1 := by simp; omega
    rw [this, List.cons_append, seekEnd_char _ _ _ _ _ (space_plain w h.1)]
    exact ih h.2 f d acc r

theorem seekEnd_plains : ∀ (t : List Nat), Small t → t.all lplain = true → ∀ (f : Nat) (d : Int) (acc : List Nat) (r : Bytes),
    seekEnd (f + t.length) d acc (cs t ++ r) = seekEnd f d acc r := by
  intro t
  induction t with
  | nil => intro _ _ f d acc r; rfl
  | cons a u ih =>
    intro hs h f d acc r
    simp only [List.all_cons, Bool.and_eq_true] at h
    have : f + (a :: u).length = (f + u.length) + 1 := by simp; omega
    rw [this, cs_cons, List.cons_append, seekEnd_char _ _ _ _ _ (lplain_ch a hs.cons.1 h.1)]
    exact ih hs.cons.2 h.2 f d acc r

theorem gap_len (g : Gap) (ws : Bytes) : ∀ r, (gapRender g ws r).length = (gapRender g ws []).length + r.length :=
  fun r => gapRender_length g ws r

/-- a gap (white space and comments) inside the parameter list is passed without effect -/
theorem seekEnd_gap (hraw : commentsRaw = true) (ws : Bytes) (hws : ws.all isSpace = true) :
    ∀ (g : Gap), gapOk g = true → ∀ (k f : Nat) (d : Int) (acc : List Nat) (r : Bytes),
      (gapRender g ws []).length + k ≤ f →
      ∃ f', k ≤ f' ∧ seekEnd f d acc (gapRender g ws r) = seekEnd f' d acc r := by
  intro g
  induction g with
  | nil =>
    intro _ k f d acc r hf
    simp only [gapRender, List.append_nil] at hf
    refine ⟨f - ws.length, by omega, ?_⟩
    have : f = (f - ws.length) + ws.length := by omega
    rw [this]
    simp only [gapRender]
    rw [seekEnd_spaces ws hws]
    simp
  | cons p t ih =>
    intro hg k f d acc r hf
    obtain ⟨w, b⟩ := p
    have hg' := hg
    simp only [gapOk, List.all_cons, Bool.and_eq_true] at hg'
    have hl : (gapRender ((w, b) :: t) ws []).length = w.length + b.length + 4 + (gapRender t ws []).length := by
      simp [gapRender]; omega
    obtain ⟨f0, hf0⟩ : ∃ f0, f = (f0 + 1) + w.length := ⟨f - w.length - 1, by omega⟩
    obtain ⟨f', hk, he⟩ := ih hg'.2 k f0 d acc r (by omega)
    refine ⟨f', hk, ?_⟩
    rw [hf0]
    simp only [gapRender]
    rw [seekEnd_spaces w hg'.1.1]
    have hb : noCloseFrom '\x00' b = true := by
      have := hg'.1.2; unfold cmtOk at this; rw [hraw] at this; simpa using this
    have hsc : skipComment f0 ('*' :: (b ++ '*' :: '/' :: gapRender t ws r)) = .ok (gapRender t ws r) := by
      unfold skipComment; rw [hraw]; simp only [↓reduceIte]
      exact rawLoop_body _ b _ hb
    have e1 : ('/' == '(') = false := by decide
    simp only [seekEnd, e1, beq_self_eq_true, ↓reduceIte, List.head?_cons, hsc, Bool.false_eq_true]
    exact he

/-- the byte sequences `seekInstanceEnd` passes at any parenthesis depth ≥ 1, leaving the depth as it found it, with the references it
    records on the way: bytes without `( ) / ' = #`, string literals of the grammar, entity references, comments, and parenthesised
    sequences of the same kind — nested to any depth (aggregates, typed SELECT values, aggregates of them) -/
inductive LSeq : List Nat → List Nat → Prop where
  | nil : LSeq [] []
  | plain (c : Nat) (t refs : List Nat) (hc : lplain c = true) (ht : LSeq t refs) : LSeq (c :: t) refs
  | str (b t refs : List Nat) (hb : StringBody b) (ht : LSeq t refs) (hnq : t.head? ≠ some 39) : LSeq (39 :: (b ++ 39 :: t)) refs
  | ref (ds t refs : List Nat) (hne : ds ≠ []) (hds : ds.all StepModel.isDigit = true)
      (hhi : StepModel.digitsVal ds 0 ≤ instanceIdMax) (ht : LSeq t refs)
      (hnd : ∀ c, t.head? = some c → StepModel.isDigit c = false) : LSeq (35 :: (ds ++ t)) (StepModel.digitsVal ds 0 :: refs)
  | cmt (body t refs : List Nat) (hb : NoClose body) (ht : LSeq t refs) : LSeq (47 :: 42 :: (body ++ 42 :: 47 :: t)) refs
  | nest (inner t r1 r2 : List Nat) (hi : LSeq inner r1) (ht : LSeq t r2) : LSeq (40 :: (inner ++ 41 :: t)) (r1 ++ r2)

theorem head_cs_digit (t : List Nat) (hs : Small t) (r : Bytes) (ht : ∀ c, t.head? = some c → StepModel.isDigit c = false)
    (hr : ∀ c, r.head? = some c → isDigit c = false) : ∀ c, (cs t ++ r).head? = some c → isDigit c = false := by
  cases t with
  | nil => simpa [cs] using hr
  | cons a u =>
    intro c hc
    simp only [cs_cons, List.cons_append, List.head?_cons, Option.some.injEq] at hc
    rw [← hc, isDigit_ch a hs.cons.1]; exact ht a rfl

theorem head_cs_quote (t : List Nat) (hs : Small t) (r : Bytes) (ht : t.head? ≠ some 39) (hr : r.head? ≠ some '\'') :
    (cs t ++ r).head? ≠ some '\'' := by
  cases t with
  | nil => simpa [cs] using hr
  | cons a u =>
    simp only [cs_cons, List.cons_append, List.head?_cons, ne_eq, Option.some.injEq]
    have : a ≠ 39 := by simpa using ht
    have := ch_ne_quote a hs.cons.1 this
    simpa using this

/-- `seekInstanceEnd` over such a sequence, followed by something that is neither a digit nor an apostrophe -/
theorem seekEnd_lseq (hraw : commentsRaw = true) : ∀ (t refs : List Nat), LSeq t refs → Small t →
    ∀ (k f : Nat) (d : Int) (acc : List Nat) (r : Bytes), 1 ≤ d → (∀ c, r.head? = some c → isDigit c = false) → r.head? ≠ some '\'' →
      t.length + k ≤ f → ∃ f', k ≤ f' ∧ seekEnd f d acc (cs t ++ r) = seekEnd f' d (refs.reverse ++ acc) r := by
  intro t refs h
  induction h with
  | nil => intro _ k f d acc r _ _ _ hf; exact ⟨f, by simpa using hf, by simp [cs]⟩
  | plain c t refs hc _ ih =>
    intro hs k f d acc r hd hr1 hr2 hf
    obtain ⟨f0, rfl⟩ : ∃ f0, f = f0 + 1 := ⟨f - 1, by simp at hf; omega⟩
    obtain ⟨f', h1, h2⟩ := ih hs.cons.2 k f0 d acc r hd hr1 hr2 (by simp at hf; omega)
    refine ⟨f', h1, ?_⟩
    rw [cs_cons, List.cons_append, seekEnd_char _ _ _ _ _ (lplain_ch c hs.cons.1 hc)]
    exact h2
  | str b t refs hb _ hnq ih =>
    intro hs k f d acc r hd hr1 hr2 hf
    have hs1 : Small (b ++ 39 :: t) := hs.cons.2
    have hsb : Small b := hs1.app.1
    have hst : Small t := hs1.app.2.cons.2
    obtain ⟨f0, rfl⟩ : ∃ f0, f = f0 + 1 := ⟨f - 1, by simp at hf; omega⟩
    obtain ⟨f', h1, h2⟩ := ih hst k f0 d acc r hd hr1 hr2 (by simp at hf; omega)
    refine ⟨f', h1, ?_⟩
    have e : cs (39 :: (b ++ 39 :: t)) ++ r = '\'' :: (cs b ++ '\'' :: (cs t ++ r)) := by simp [cs, ch]
    have e1 : ('\'' == '(') = false := by decide
    have e2 : ('\'' == '/') = false := by decide
    rw [e]
    simp only [seekEnd, e1, e2, beq_self_eq_true, ↓reduceIte, Bool.false_eq_true,
      strRest_sb b hb hsb (cs t ++ r) (head_cs_quote t hst r hnq hr2)]
    exact h2
  | ref ds t refs hne hds hhi _ hnd ih =>
    intro hs k f d acc r hd hr1 hr2 hf
    have hs1 : Small (ds ++ t) := hs.cons.2
    have hsd : Small ds := hs1.app.1
    have hst : Small t := hs1.app.2
    obtain ⟨f0, rfl⟩ : ∃ f0, f = f0 + 1 := ⟨f - 1, by simp at hf; omega⟩
    obtain ⟨f', h1, h2⟩ := ih hst k f0 d (StepModel.digitsVal ds 0 :: acc) r hd hr1 hr2 (by simp at hf; omega)
    refine ⟨f', h1, ?_⟩
    have hdg := all_digit_cs ds hsd hds
    obtain ⟨d0, dt, hdd⟩ : ∃ d0 dt, cs ds = d0 :: dt := by
      cases ds with
      | nil => exact absurd rfl hne
      | cons a b => exact ⟨ch a, cs b, rfl⟩
    have hd0 : isDigit d0 = true := by rw [hdd] at hdg; simp at hdg; exact hdg.1
    have hR := head_cs_digit t hst r hnd hr1
    have htd : takeDigits (cs ds ++ (cs t ++ r)) = (cs ds, cs t ++ r) := takeDigits_append (cs ds) hdg _ hR
    have hsk : skipWS (cs ds ++ (cs t ++ r)) = cs ds ++ (cs t ++ r) := by
      rw [hdd]; exact skipWS_nonspace _ _ (isDigit_not_space d0 hd0)
    have hv : digitsVal (cs ds) = StepModel.digitsVal ds 0 := digitsVal_cs0 ds hsd
    have e : cs (35 :: (ds ++ t)) ++ r = '#' :: (cs ds ++ (cs t ++ r)) := by simp [cs, ch]
    rw [e]
    simp (config := { decide := true }) only [seekEnd, Bool.false_eq_true, ↓reduceIte]
    rw [hsk]
    rw [hdd] at htd hv ⊢
    simp only [List.cons_append, hd0, ↓reduceIte]
    rw [← List.cons_append, htd]
    simp only [hv]
    have hgt' : ¬ StepModel.digitsVal ds 0 > instanceIdMax := by omega
    simp only [hgt', ↓reduceIte]
    simpa using h2
  | cmt body t refs hb _ ih =>
    intro hs k f d acc r hd hr1 hr2 hf
    have hs1 : Small (body ++ 42 :: 47 :: t) := hs.cons.2.cons.2
    have hsb : Small body := hs1.app.1
    have hst : Small t := hs1.app.2.cons.2.cons.2
    obtain ⟨f0, rfl⟩ : ∃ f0, f = f0 + 1 := ⟨f - 1, by simp at hf; omega⟩
    obtain ⟨f', h1, h2⟩ := ih hst k f0 d acc r hd hr1 hr2 (by simp at hf; omega)
    refine ⟨f', h1, ?_⟩
    have e : cs (47 :: 42 :: (body ++ 42 :: 47 :: t)) ++ r = '/' :: '*' :: (cs body ++ '*' :: '/' :: (cs t ++ r)) := by
      simp [cs, ch]
    have hnc : noCloseFrom '\x00' (cs body) = true := noClose_cs body hsb hb 0 (by omega) (by simp)
    have hsc : skipComment f0 ('*' :: (cs body ++ '*' :: '/' :: (cs t ++ r))) = .ok (cs t ++ r) := by
      unfold skipComment; rw [hraw]; simp only [↓reduceIte]
      exact rawLoop_body _ (cs body) _ hnc
    have e1 : ('/' == '(') = false := by decide
    rw [e]
    simp only [seekEnd, e1, beq_self_eq_true, ↓reduceIte, List.head?_cons, hsc, Bool.false_eq_true]
    exact h2
  | nest inner t r1 r2 _ _ ihi iht =>
    intro hs k f d acc r hd hr1 hr2 hf
    have hs1 : Small (inner ++ 41 :: t) := hs.cons.2
    have hsi : Small inner := hs1.app.1
    have hst : Small t := hs1.app.2.cons.2
    obtain ⟨f0, rfl⟩ : ∃ f0, f = f0 + 1 := ⟨f - 1, by simp at hf; omega⟩
    have hlen : (40 :: (inner ++ 41 :: t)).length = inner.length + t.length + 2 := by simp; omega
    obtain ⟨fa, ha1, ha2⟩ := ihi hsi (t.length + k + 1) f0 (d + 1) acc (')' :: (cs t ++ r)) (by omega)
      (fun c hc => by simp at hc; rw [← hc]; decide) (by simp) (by omega)
    obtain ⟨fb, rfl⟩ : ∃ j, fa = j + 1 := ⟨fa - 1, by omega⟩
    obtain ⟨f', h1, h2⟩ := iht hst k fb d (r1.reverse ++ acc) r hd hr1 hr2 (by omega)
    refine ⟨f', h1, ?_⟩
    have e : cs (40 :: (inner ++ 41 :: t)) ++ r = '(' :: (cs inner ++ (')' :: (cs t ++ r))) := by simp [cs, ch]
    rw [e]
    have step1 : seekEnd (f0 + 1) d acc ('(' :: (cs inner ++ (')' :: (cs t ++ r)))) =
        seekEnd f0 (d + 1) acc (cs inner ++ (')' :: (cs t ++ r))) := by
      simp only [seekEnd, beq_self_eq_true, ↓reduceIte]
    rw [step1, ha2]
    have hne : ¬ (d + 1 - 1 = 0) := by omega
    have step2 : seekEnd (fb + 1) (d + 1) (r1.reverse ++ acc) (')' :: (cs t ++ r)) =
        seekEnd fb d (r1.reverse ++ acc) (cs t ++ r) := by
      simp (config := { decide := true }) only [seekEnd, Bool.false_eq_true, ↓reduceIte, beq_iff_eq, hne]
      congr 1; omega
    rw [step2, h2]
    simp

theorem lseq_plains : ∀ (t : List Nat), t.all lplain = true → LSeq t [] := by
  intro t
  induction t with
  | nil => intro _; exact LSeq.nil
  | cons a u ih =>
    intro h
    simp only [List.all_cons, Bool.and_eq_true] at h
    exact LSeq.plain a u [] h.1 (ih h.2)

/-- concatenation, when the second part starts with neither a digit nor an apostrophe (or is empty) -/
theorem LSeq.append {a b r1 r2 : List Nat} (ha : LSeq a r1) (hb : LSeq b r2)
    (hq : b.head? ≠ some 39) (hd : ∀ c, b.head? = some c → StepModel.isDigit c = false) : LSeq (a ++ b) (r1 ++ r2) := by
  induction ha with
  | nil => simpa using hb
  | plain c t refs hc _ ih => exact LSeq.plain c _ _ hc ih
  | str bd t refs hbd _ hnq ih =>
    have : 39 :: (bd ++ 39 :: t) ++ b = 39 :: (bd ++ 39 :: (t ++ b)) := by simp
    rw [this]
    refine LSeq.str bd _ _ hbd ih ?_
    cases t with
    | nil => simpa using hq
    | cons x y => simpa using hnq
  | ref ds t refs hne hds hhi _ hnd ih =>
    have : 35 :: (ds ++ t) ++ b = 35 :: (ds ++ (t ++ b)) := by simp
    rw [this]
    refine LSeq.ref ds _ _ hne hds hhi ih ?_
    cases t with
    | nil => simpa using hd
    | cons x y => simpa using hnd
  | cmt body t refs hbd _ ih =>
    have : 47 :: 42 :: (body ++ 42 :: 47 :: t) ++ b = 47 :: 42 :: (body ++ 42 :: 47 :: (t ++ b)) := by simp
    rw [this]
    exact LSeq.cmt body _ _ hbd ih
  | nest inner t q1 q2 hi _ _ iht =>
    have : 40 :: (inner ++ 41 :: t) ++ b = 40 :: (inner ++ 41 :: (t ++ b)) := by simp
    rw [this, List.append_assoc]
    exact LSeq.nest inner _ _ _ hi iht

theorem space_lplain (b : Nat) (h : StepModel.isSpace b = true) : lplain b = true := by
  unfold StepModel.isSpace at h
  simp only [Bool.or_eq_true, Bool.and_eq_true, beq_iff_eq, decide_eq_true_eq] at h
  have h' : b = 32 ∨ (9 ≤ b ∧ b ≤ 13) := h
  unfold lplain
  simp only [Bool.and_eq_true, bne_iff_ne, ne_eq]
  omega

/-- a separator sequence (blanks and comments) -/
theorem lseq_seps : ∀ (s : List Nat), Seps s → LSeq s [] := by
  intro s hs
  induction hs with
  | blanks sp hsp =>
    apply lseq_plains
    rw [List.all_eq_true] at hsp ⊢
    intro x hx
    exact space_lplain x (hsp x hx)
  | comment sp body t hsp hb _ ih =>
    have h1 : LSeq sp [] := by
      apply lseq_plains
      rw [List.all_eq_true] at hsp ⊢
      intro x hx
      exact space_lplain x (hsp x hx)
    have h2 : LSeq (47 :: 42 :: (body ++ 42 :: 47 :: t)) [] := LSeq.cmt body t [] hb ih
    have := LSeq.append h1 h2 (by simp) (fun c hc => by simp at hc; rw [← hc]; decide)
    simpa using this

/-- the parameter tokens the composition covers, with the references they mention (`LSeq`): any token of bytes without
    `( ) / ' = #` (`$`, `*`, INTEGER, REAL, NUMBER, `.ENUM.`, `"BINARY"`), a string literal of the grammar, an entity reference, and
    parenthesised sequences of these with separators — aggregates and typed SELECT values -/
abbrev LazyTok := LSeq

theorem LazyTok.plain (t : List Nat) (h : t.all lplain = true) : LazyTok t [] := lseq_plains t h
theorem LazyTok.string (b : List Nat) (h : StringBody b) : LazyTok (39 :: (b ++ [39])) [] := LSeq.str b [] [] h LSeq.nil (by simp)
theorem LazyTok.ref (ds : List Nat) (hne : ds ≠ []) (hds : ds.all StepModel.isDigit = true)
    (hhi : StepModel.digitsVal ds 0 ≤ instanceIdMax) : LazyTok (35 :: ds) [StepModel.digitsVal ds 0] := by
  have := LSeq.ref ds [] [] hne hds hhi LSeq.nil (fun c hc => by simp at hc)
  simpa using this

/-- a token followed by something that is neither a digit nor an apostrophe -/
theorem seekEnd_tok (hraw : commentsRaw = true) (t : List Nat) (refs : List Nat) (h : LazyTok t refs) (hs : Small t) (k f : Nat)
    (d : Int) (hd : 1 ≤ d) (acc : List Nat)
    (r : Bytes) (hr1 : ∀ c, r.head? = some c → isDigit c = false) (hr2 : r.head? ≠ some '\'') (hf : t.length + k ≤ f) :
    ∃ f', k ≤ f' ∧ seekEnd f d acc (cs t ++ r) = seekEnd f' d (refs.reverse ++ acc) r :=
  seekEnd_lseq hraw t refs h hs k f d acc r hd hr1 hr2 hf


/-! ### parameter lists, records, sections of the eager grammar under the lazy scanner -/

/-- the entity references in a value the eager reader stores -/
def atomRefs {F : Type} : Atom F → List Nat
  | .ref i => [i.toNat]
  | _ => []
def elemRefs {F : Type} : Elem F → List Nat
  | .atom a => atomRefs a
  | .sel _ a => atomRefs a
def valRefs {F : Type} : MVal F → List Nat
  | .one e => elemRefs e
  | .aggr es => es.flatMap elemRefs
  | _ => []

variable {F : Type}

/-- a parameter the lazy side covers: a `LazyTok` token — with, as its references, the entity references in the value the eager
    reader stores for it — between separator sequences, all bytes below 256 -/
structure LazyParam (p : Param F) : Prop where
  tok : LazyTok p.tok (valRefs p.v)
  hb : Seps p.before
  ha : Seps p.after
  sm : Small (p.before ++ (p.tok ++ p.after))

def paramsRefs (ps : List (Param F)) : List Nat := ps.flatMap (fun p => valRefs p.v)

/-- the first byte after a separator sequence followed by `,` or `)` is no digit and no apostrophe -/
theorem after_head (hraw : commentsRaw = true) (s : List Nat) (hs : Seps s) (hsm : Small s) (c : Char) (hc : c = ',' ∨ c = ')') (r : Bytes) :
    (∀ x, (cs s ++ c :: r).head? = some x → isDigit x = false) ∧ (cs s ++ c :: r).head? ≠ some '\'' := by
  obtain ⟨g, ws, hg, hws, he⟩ := seps_gap hraw s hs hsm
  rw [he, gapRender_append]
  obtain ⟨x, y, hxy, hx⟩ := gap_head g hg ws hws c r
  rw [hxy]
  simp only [List.head?_cons, Option.some.injEq, ne_eq]
  rcases hx with hx | hx | hx
  · have hnd : isDigit x = false := by
      cases hd : isDigit x with
      | false => rfl
      | true => have := isDigit_not_space x hd; rw [hx] at this; cases this
    have hnq : x ≠ '\'' := (space_ne x hx).2.2.2
    exact ⟨fun z hz => (by rw [← hz]; exact hnd), hnq⟩
  · subst hx; exact ⟨fun z hz => (by rw [← hz]; decide), (by decide)⟩
  · subst hx; rcases hc with h | h <;> (subst h; exact ⟨fun z hz => (by rw [← hz]; decide), (by decide)⟩)

/-- one parameter (layout, token, layout) followed by its delimiter -/
theorem seekEnd_param (hraw : commentsRaw = true) (p : Param F) (hp : LazyParam p) (c : Char) (hc : c = ',' ∨ c = ')')
    (k f : Nat) (d : Int) (hd : 1 ≤ d) (acc : List Nat) (r : Bytes)
    (hf : (p.before ++ (p.tok ++ p.after)).length + k ≤ f) :
    ∃ f', k ≤ f' ∧ seekEnd f d acc (cs (p.before ++ (p.tok ++ p.after)) ++ c :: r) =
      seekEnd f' d ((valRefs p.v).reverse ++ acc) (c :: r) := by
  have s1 := hp.sm.app
  have s2 := s1.2.app
  obtain ⟨g1, w1, hg1, hw1, he1⟩ := seps_gap hraw p.before hp.hb s1.1
  obtain ⟨g2, w2, hg2, hw2, he2⟩ := seps_gap hraw p.after hp.ha s2.2
  have hl1 : (gapRender g1 w1 []).length = p.before.length := by rw [← he1, cs_length]
  have hl2 : (gapRender g2 w2 []).length = p.after.length := by rw [← he2, cs_length]
  simp only [List.length_append] at hf
  obtain ⟨fa, hka, hea⟩ := seekEnd_gap hraw w1 hw1 g1 hg1 (p.tok.length + p.after.length + k) f d acc
    (cs p.tok ++ (cs p.after ++ c :: r)) (by omega)
  have hah := after_head hraw p.after hp.ha s2.2 c hc r
  obtain ⟨fb, hkb, heb⟩ := seekEnd_tok hraw p.tok _ hp.tok s2.1 (p.after.length + k) fa d hd acc (cs p.after ++ c :: r) hah.1 hah.2 (by omega)
  obtain ⟨fc, hkc, hec⟩ := seekEnd_gap hraw w2 hw2 g2 hg2 k fb d ((valRefs p.v).reverse ++ acc) (c :: r) (by omega)
  refine ⟨fc, hkc, ?_⟩
  rw [cs_append, cs_append, List.append_assoc, List.append_assoc, he1, gapRender_append, hea, heb, he2, gapRender_append, hec]

/-- the parameter list up to its closing parenthesis -/
theorem seekEnd_params (hraw : commentsRaw = true) : ∀ (ps : List (Param F)), ps ≠ [] → (∀ p ∈ ps, LazyParam p) →
    ∀ (k f : Nat) (d : Int) (acc : List Nat) (r : Bytes), 1 ≤ d → (renderParams ps).length + k ≤ f →
      ∃ f', k + 1 ≤ f' ∧ seekEnd f d acc (cs (renderParams ps) ++ r) = seekEnd f' d ((paramsRefs ps).reverse ++ acc) (')' :: r) := by
  intro ps
  induction ps with
  | nil => intro h; exact absurd rfl h
  | cons p qs ih =>
    intro _ hall k f d acc r hd hf
    have hp := hall p (by simp)
    cases qs with
    | nil =>
      simp only [renderParams] at hf ⊢
      have hlen : (p.before ++ (p.tok ++ (p.after ++ [41]))).length = (p.before ++ (p.tok ++ p.after)).length + 1 := by simp; omega
      obtain ⟨f', hk, he⟩ := seekEnd_param hraw p hp ')' (Or.inr rfl) (k + 1) f d hd acc r (by omega)
      refine ⟨f', hk, ?_⟩
      have e : cs (p.before ++ (p.tok ++ (p.after ++ [41]))) ++ r = cs (p.before ++ (p.tok ++ p.after)) ++ ')' :: r := by
        simp [cs, ch]
      rw [e, he]
      simp [paramsRefs]
    | cons q qt =>
      simp only [renderParams] at hf ⊢
      have hlen : (p.before ++ (p.tok ++ (p.after ++ 44 :: renderParams (q :: qt)))).length =
          (p.before ++ (p.tok ++ p.after)).length + 1 + (renderParams (q :: qt)).length := by simp; omega
      obtain ⟨fa, hka, hea⟩ := seekEnd_param hraw p hp ',' (Or.inl rfl) ((renderParams (q :: qt)).length + k + 1) f d hd acc
        (cs (renderParams (q :: qt)) ++ r) (by omega)
      obtain ⟨fb, rfl⟩ : ∃ j, fa = j + 1 := ⟨fa - 1, by omega⟩
      obtain ⟨f', hk, he⟩ := ih (by simp) (fun x hx => hall x (List.mem_cons_of_mem _ hx)) k fb d
        ((valRefs p.v).reverse ++ acc) r hd (by omega)
      refine ⟨f', hk, ?_⟩
      have e : cs (p.before ++ (p.tok ++ (p.after ++ 44 :: renderParams (q :: qt)))) ++ r =
          cs (p.before ++ (p.tok ++ p.after)) ++ ',' :: (cs (renderParams (q :: qt)) ++ r) := by
        simp [cs, ch]
      have hcomma : (',' == '(') = false ∧ (',' == '/') = false ∧ (',' == '\'') = false ∧ (',' == '=') = false ∧
          (',' == '#') = false ∧ (',' == ')') = false := by decide
      rw [e, hea, seekEnd_char _ _ _ _ _ hcomma, he]
      simp [paramsRefs, List.reverse_append]


/-- the lazy side's conditions on a record of the eager grammar: the keyword is written in upper case (`A-Z 0-9 _`), the instance name is
    not `#0` and has at most 20 significant digits, every parameter is a `LazyParam`, all bytes are below 256 -/
structure LazyRec (r : Rec F) : Prop where
  up0 : StepModel.isUpper r.n0 = true
  ups : r.ns.all (fun b => StepModel.isUpper b || StepModel.isDigit b || b == 95) = true
  pos : 0 < StepModel.digitsVal r.ds 0
  dlen : idLen (cs r.ds) ≤ instanceIdDigits
  ps : ∀ p ∈ r.ps, LazyParam p
  sm : Small (r.ds ++ (r.s1 ++ (r.s2 ++ (r.n0 :: r.ns ++ (r.s3 ++ r.s4)))))

/-- what the lazy index records for a record -/
def recEntry (r : Rec F) : Entry := { id := StepModel.digitsVal r.ds 0, kw := cs (r.n0 :: r.ns), refs := paramsRefs r.ps }

/-- a record after the layout `lead`, as the scanner model sees it, followed by `rest` -/
def lrec (lead : List Nat) (r : Rec F) (rest : Bytes) : Bytes :=
  cs lead ++ ('#' :: (cs r.ds ++ (cs r.s1 ++ ('=' :: (cs r.s2 ++ (cs (r.n0 :: r.ns) ++ (cs r.s3 ++ ('(' ::
    (cs (renderParams r.ps) ++ (cs r.s4 ++ (';' :: rest)))))))))))

theorem lrec_eq (lead : List Nat) (r : Rec F) (rest : List Nat) : cs (lead ++ 35 :: r.text rest) = lrec lead r (cs rest) := by
  simp [lrec, Rec.text, Rec.t1, Rec.t2, Rec.t3, Rec.t4, cs, ch]

theorem lrec_length (lead : List Nat) (r : Rec F) (rest : Bytes) : (lrec lead r rest).length = (lrec lead r []).length + rest.length := by
  simp [lrec]; omega

set_option maxRecDepth 100000 in
theorem kwb_facts : ∀ b, b < 256 → (StepModel.isUpper b || StepModel.isDigit b || b == 95) = true → isKwChar (ch b) = true := by decide

/-- `readInstanceNumber` after any separator sequence (the repaired `skipWSandComments` in front of `#`) -/
theorem readInstanceNumber_seps (gL : Gap) (wL : Bytes) (hgL : gapOk gL = true) (hwL : wL.all isSpace = true)
    (ds : Bytes) (g1 : Gap) (w1 : Bytes) (hg1 : gapOk g1 = true) (hw1 : w1.all isSpace = true)
    (dne : ds ≠ []) (dd : ds.all isDigit = true) (dlen : idLen ds ≤ instanceIdDigits)
    (dpos : 0 < digitsVal ds) (dmax : digitsVal ds ≤ instanceIdMax) (u : Bytes) (f : Nat)
    (hf : (gapRender gL wL ('#' :: (ds ++ gapRender g1 w1 ('=' :: u)))).length + 2 ≤ f) :
    readInstanceNumber f (gapRender gL wL ('#' :: (ds ++ gapRender g1 w1 ('=' :: u)))) = .ok (digitsVal ds, u) := by
  obtain ⟨d0, dt, rfl⟩ : ∃ d0 dt, ds = d0 :: dt := by
    cases ds with
    | nil => exact absurd rfl dne
    | cons a b => exact ⟨a, b, rfl⟩
  have hd0 : isDigit d0 = true := by simp at dd; exact dd.1
  have hbh : beforeHash f (gapRender gL wL ('#' :: ((d0 :: dt) ++ gapRender g1 w1 ('=' :: u)))) =
      .ok ('#' :: ((d0 :: dt) ++ gapRender g1 w1 ('=' :: u))) := by
    unfold beforeHash
    have : leadGap = true := rfl
    simp only [this, ↓reduceIte]
    exact skipWSC_gap wL hwL '#' (by decide) (by decide) (by decide) _ gL hgL f hf
  have s00 : skipWS ('#' :: ((d0 :: dt) ++ gapRender g1 w1 ('=' :: u))) = '#' :: ((d0 :: dt) ++ gapRender g1 w1 ('=' :: u)) :=
    skipWS_nonspace _ _ (by decide)
  have s1 : skipWS ((d0 :: dt) ++ gapRender g1 w1 ('=' :: u)) = (d0 :: dt) ++ gapRender g1 w1 ('=' :: u) :=
    skipWS_nonspace _ _ (isDigit_not_space d0 hd0)
  have htd : takeDigits ((d0 :: dt) ++ gapRender g1 w1 ('=' :: u)) = (d0 :: dt, gapRender g1 w1 ('=' :: u)) :=
    takeDigits_append (d0 :: dt) dd _ (by
      intro c hc
      obtain ⟨x, y, hxy, hx⟩ := gap_head g1 hg1 w1 hw1 '=' u
      rw [hxy] at hc
      have hcx : x = c := by simpa using hc
      rw [← hcx]
      cases hdg : isDigit x with
      | false => rfl
      | true =>
        rcases hx with hx | hx | hx
        · have := isDigit_not_space x hdg; rw [hx] at this; cases this
        · rw [hx] at hdg; revert hdg; decide
        · rw [hx] at hdg; revert hdg; decide)
  have hbt := betweenTokens_gap g1 hg1 w1 hw1 '=' (by decide) (by decide) (by decide) u f (by
    have h1 := gapRender_length gL wL ('#' :: ((d0 :: dt) ++ gapRender g1 w1 ('=' :: u)))
    simp only [List.length_append, List.length_cons] at h1 hf ⊢
    omega)
  have hl1 : ¬ idLen (d0 :: dt) > instanceIdDigits := by omega
  have hz : ((d0 :: dt).length == 0) = false := by simp
  have hv : (digitsVal (d0 :: dt) == 0) = false := by simp; omega
  simp only [readInstanceNumber, hbh, s00, s1, htd, hbt, hl1, hz, hv, ↓reduceIte, Bool.false_eq_true, Nat.min_eq_left dmax]


theorem all_kw_cs : ∀ (l : List Nat), Small l → l.all (fun b => StepModel.isUpper b || StepModel.isDigit b || b == 95) = true →
    (cs l).all isKwChar = true := by
  intro l
  induction l with
  | nil => intro _ _; rfl
  | cons a t ih =>
    intro hs hu
    simp only [List.all_cons, Bool.and_eq_true] at hu
    simp only [cs_cons, List.all_cons, Bool.and_eq_true]
    exact ⟨kwb_facts a hs.cons.1 hu.1, ih hs.cons.2 hu.2⟩

/-- **one record of the eager grammar under `nextInstance`** -/
theorem nextInstance_lrec (hraw : commentsRaw = true) (lead : List Nat) (hlead : Seps lead) (hls : Small lead)
    (r : Rec F) (hlex : r.Lex) (hlz : LazyRec r) (rest : Bytes) (f : Nat) (hf : (lrec lead r rest).length + 6 ≤ f) :
    nextInstance f (lrec lead r rest) = .ok (some (recEntry r, rest)) := by
  -- all the separator sequences as gaps
  have sm1 := hlz.sm.app
  have sm2 := sm1.2.app
  have sm3 := sm2.2.app
  have sm4 := sm3.2.app
  have sm5 := sm4.2.app
  obtain ⟨gL, wL, hgL, hwL, heL⟩ := seps_gap hraw lead hlead hls
  obtain ⟨g1, w1, hg1, hw1, he1⟩ := seps_gap hraw r.s1 hlex.h1 sm2.1
  obtain ⟨g2, w2, hg2, hw2, he2⟩ := seps_gap hraw r.s2 hlex.h2 sm3.1
  obtain ⟨g3, w3, hg3, hw3, he3⟩ := seps_gap hraw r.s3 hlex.h3 sm5.1
  obtain ⟨g4, w4, hg4, hw4, he4⟩ := seps_gap hraw r.s4 hlex.h4 sm5.2
  -- the pieces, innermost first
  obtain ⟨P, hP⟩ : ∃ P, P = cs (renderParams r.ps) ++ (cs r.s4 ++ (';' :: rest)) := ⟨_, rfl⟩
  obtain ⟨B, hB⟩ : ∃ B, B = cs r.s3 ++ ('(' :: P) := ⟨_, rfl⟩
  obtain ⟨K, hK⟩ : ∃ K, K = cs r.s2 ++ (cs (r.n0 :: r.ns) ++ B) := ⟨_, rfl⟩
  have hrender : lrec lead r rest = gapRender gL wL ('#' :: (cs r.ds ++ gapRender g1 w1 ('=' :: K))) := by
    unfold lrec
    rw [heL, gapRender_append, he1, gapRender_append, hK, hB, hP]
  have hlen : (lrec lead r rest).length = lead.length + 1 + r.ds.length + r.s1.length + 1 + K.length := by
    unfold lrec; rw [hK, hB, hP]; simp only [List.length_append, List.length_cons, cs_length]; omega
  have hlenK : K.length = r.s2.length + (r.ns.length + 1) + B.length := by
    rw [hK]; simp only [List.length_append, cs_length, List.length_cons]; omega
  have hlenB : B.length = r.s3.length + 1 + P.length := by rw [hB]; simp only [List.length_append, cs_length, List.length_cons]; omega
  have hlenP : P.length = (renderParams r.ps).length + r.s4.length + 1 + rest.length := by
    rw [hP]; simp only [List.length_append, cs_length, List.length_cons]; omega
  -- the instance name
  have hdd := all_digit_cs r.ds sm1.1 hlex.ddig
  have hdne : cs r.ds ≠ [] := by
    intro e; have := congrArg List.length e; rw [cs_length] at this
    exact hlex.dne (List.length_eq_zero_iff.mp (by simpa using this))
  have hval := digitsVal_cs0 r.ds sm1.1
  have hhi : StepModel.digitsVal r.ds 0 ≤ instanceIdMax := by
    have h1 := hlex.dhi
    unfold Rec.id at h1
    have : ((StepModel.digitsVal r.ds 0 : Nat) : Int) ≤ 2147483647 := h1
    have e : instanceIdMax = 18446744073709551615 := rfl
    omega
  have hrn := readInstanceNumber_seps gL wL hgL hwL (cs r.ds) g1 w1 hg1 hw1 hdne hdd hlz.dlen (by rw [hval]; exact hlz.pos)
    (by rw [hval]; exact hhi) K f (by rw [← hrender]; omega)
  -- the keyword
  have hkwc : (cs (r.n0 :: r.ns)).all isKwChar = true := by
    rw [cs_cons, List.all_cons, Bool.and_eq_true]
    refine ⟨kwb_facts r.n0 sm4.1.cons.1 (by simp [hlz.up0]), ?_⟩
    exact all_kw_cs r.ns sm4.1.cons.2 hlz.ups
  -- the byte after the keyword: white space, `/` or `(`
  obtain ⟨c, t, hBc, hc⟩ : ∃ c t, B = c :: t ∧ (isSpace c = true ∨ c = '/' ∨ c = '(') := by
    rw [hB, he3, gapRender_append]
    exact gap_head g3 hg3 w3 hw3 '(' P
  have hcp : isKwChar c = false ∧ c ≠ '!' ∧ (keywordDelims.contains c || (kwSpaceDelim && isSpace c)) = true := by
    rcases hc with h1 | h1 | h1
    · refine ⟨?_, ?_, ?_⟩
      · cases hk : isKwChar c with
        | false => rfl
        | true => have := (kwChar_props c hk).1; rw [h1] at this; cases this
      · intro e; subst e; revert h1; decide
      · have : kwSpaceDelim = true := rfl
        simp [this, h1]
    · subst h1; decide
    · subst h1; decide
  have hne : cs (r.n0 :: r.ns) ≠ [] := by simp [cs]
  have hkl := kwLoop_gap w2 hw2 (cs (r.n0 :: r.ns)) hkwc c t hcp.1 hcp.2.1 (fun h0 => absurd h0 hne) g2 hg2 f (by
    have h1 := gapRender_length g2 w2 (cs (r.n0 :: r.ns) ++ c :: t)
    have h2 : (gapRender g2 w2 []).length = r.s2.length := by rw [← he2, cs_length]
    rw [h1, h2, ← hBc]
    simp only [List.length_append, cs_length, List.length_cons]
    omega)
  have hgk : getDelimitedKeyword f keywordDelims (skipWS K) = .ok (cs (r.n0 :: r.ns), B) := by
    unfold getDelimitedKeyword
    rw [skipWS_idem, hK, he2, gapRender_append, hBc, hkl]
    simp only [hcp.2.2, ↓reduceIte]
  -- the parameter list
  have hse : seekEnd f 0 [] B = .ok (paramsRefs r.ps, rest) := by
    have hl3 : (gapRender g3 w3 []).length = r.s3.length := by rw [← he3, cs_length]
    have hl4 : (gapRender g4 w4 []).length = r.s4.length := by rw [← he4, cs_length]
    obtain ⟨fa, hka, hea⟩ := seekEnd_gap hraw w3 hw3 g3 hg3 (P.length + 4) f 0 [] ('(' :: P) (by omega)
    obtain ⟨fb, rfl⟩ : ∃ j, fa = j + 1 := ⟨fa - 1, by omega⟩
    obtain ⟨fc, hkc, hec⟩ := seekEnd_params hraw r.ps hlex.pne hlz.ps (r.s4.length + rest.length + 3) fb 1 []
      (cs r.s4 ++ (';' :: rest)) (by decide) (by omega)
    obtain ⟨fd, rfl⟩ : ∃ j, fc = j + 1 := ⟨fc - 1, by omega⟩
    have hbt := betweenTokens_gap g4 hg4 w4 hw4 ';' (by decide) (by decide) (by decide) rest fd (by
      have := gapRender_length g4 w4 (';' :: rest); simp only [List.length_cons] at this; omega)
    rw [hB, he3, gapRender_append, hea]
    simp only [seekEnd, beq_self_eq_true, ↓reduceIte]
    rw [show (0 : Int) + 1 = 1 from rfl, hP, hec]
    rw [he4, gapRender_append]
    simp (config := { decide := true }) [seekEnd, hbt]
  have hid : (digitsVal (cs r.ds) == 0) = false := by rw [hval]; simp; have := hlz.pos; omega
  unfold nextInstance
  rw [hrender, hrn]
  simp only [hid, Bool.false_eq_true, ↓reduceIte, hgk, hse]
  simp [recEntry, hval]


/-! ### the data section -/

def pieces (lead : List Nat) : List (Rec F × List Nat) → List ((Bytes → Bytes) × Entry)
  | [] => []
  | (r, g) :: t => (lrec lead r, recEntry r) :: pieces g t

def lastLead (lead : List Nat) : List (Rec F × List Nat) → List Nat
  | [] => lead
  | (_, g) :: t => lastLead g t

theorem cs_renderRecs (fin : List Nat) : ∀ (rs : List (Rec F × List Nat)) (lead : List Nat),
    cs (lead ++ renderRecs rs fin) = (pieces lead rs).foldr (fun p x => p.1 x) (cs (lastLead lead rs) ++ cs fin) := by
  intro rs
  induction rs with
  | nil => intro lead; simp [renderRecs, pieces, lastLead, cs_append]
  | cons rg t ih =>
    intro lead
    obtain ⟨r, g⟩ := rg
    simp only [renderRecs, pieces, lastLead, List.foldr_cons]
    rw [lrec_eq, ih g]

theorem pieces_map (rs : List (Rec F × List Nat)) : ∀ lead, (pieces lead rs).map (·.2) = rs.map (fun rg => recEntry rg.1) := by
  induction rs with
  | nil => intro _; rfl
  | cons rg t ih => intro lead; obtain ⟨r, g⟩ := rg; simp [pieces, ih g]

theorem pieces_length (rs : List (Rec F × List Nat)) : ∀ lead, (pieces lead rs).length = rs.length := by
  induction rs with
  | nil => intro _; rfl
  | cons rg t ih => intro lead; obtain ⟨r, g⟩ := rg; simp [pieces, ih g]

/-- what the lazy side needs of every record and of the layout after it -/
def LazyRecs (rs : List (Rec F × List Nat)) : Prop :=
  ∀ rg ∈ rs, rg.1.Lex ∧ LazyRec rg.1 ∧ Seps rg.2 ∧ Small rg.2

theorem pieces_next (hraw : commentsRaw = true) (fuel : Nat) : ∀ (rs : List (Rec F × List Nat)), LazyRecs rs →
    ∀ (lead : List Nat), Seps lead → Small lead →
      (∀ p ∈ pieces lead rs, ∀ rest, (p.1 rest).length + 6 ≤ fuel → nextInstance fuel (p.1 rest) = .ok (some (p.2, rest))) ∧
      (∀ p ∈ pieces lead rs, ∀ rest, rest.length ≤ (p.1 rest).length) ∧
      Seps (lastLead lead rs) ∧ Small (lastLead lead rs) := by
  intro rs
  induction rs with
  | nil => intro _ lead hl hs; exact ⟨fun p hp => (by cases hp), fun p hp => (by cases hp), hl, hs⟩
  | cons rg t ih =>
    intro hall lead hl hs
    obtain ⟨r, g⟩ := rg
    have h0 := hall (r, g) (by simp)
    obtain ⟨i1, i2, i3, i4⟩ := ih (fun x hx => hall x (List.mem_cons_of_mem _ hx)) g h0.2.2.1 h0.2.2.2
    refine ⟨?_, ?_, i3, i4⟩
    · intro p hp rest hlen
      simp only [pieces, List.mem_cons] at hp
      rcases hp with h | h
      · subst h; exact nextInstance_lrec hraw lead hl hs r h0.1 h0.2.1 rest fuel hlen
      · exact i1 p h rest hlen
    · intro p hp rest
      simp only [pieces, List.mem_cons] at hp
      rcases hp with h | h
      · subst h; have := lrec_length lead r rest; simp only; omega
      · exact i2 p h rest

theorem cs_endsec (sp tail : List Nat) : cs (RLemmas.endsec sp tail) = endsecBytes (cs sp) (cs tail) := by
  simp [RLemmas.endsec, endsecBytes, cs, ch]

/-- **the lazy scanner on a data section of the eager reader's file class** -/
theorem scan_recs (hraw : commentsRaw = true) (rs : List (Rec F × List Nat)) (hrs : LazyRecs rs)
    (g0 sp tail : List Nat) (hg0 : Seps g0) (hs0 : Small g0) (hsp : sp.all StepModel.isSpace = true) (hssp : Small sp) :
    scan (cs (g0 ++ renderRecs rs (RLemmas.endsec sp tail))) = .ok (rs.map (fun rg => recEntry rg.1), true) := by
  obtain ⟨i1, i2, i3, i4⟩ := pieces_next hraw (4 * (cs (g0 ++ renderRecs rs (RLemmas.endsec sp tail))).length + 16) rs hrs g0 hg0 hs0
  obtain ⟨gT, wT, hgT, hwT, heT⟩ := seps_gap hraw (lastLead g0 rs) i3 i4
  have hfile := cs_renderRecs (RLemmas.endsec sp tail) rs g0
  have htailEq : cs (lastLead g0 rs) ++ cs (RLemmas.endsec sp tail) = endsecG gT wT (cs sp) (cs tail) := by
    rw [heT, gapRender_append, cs_endsec]; rfl
  rw [htailEq] at hfile
  have hsp' := all_space_cs sp hssp hsp
  -- the tail is no longer than the file
  have hmono : ∀ (ps : List ((Bytes → Bytes) × Entry)) (x : Bytes), (∀ p ∈ ps, ∀ rest, rest.length ≤ (p.1 rest).length) →
      x.length ≤ (ps.foldr (fun p y => p.1 y) x).length := by
    intro ps x
    induction ps with
    | nil => intro _; simp
    | cons p t ih =>
      intro h
      have h1 := ih (fun q hq => h q (List.mem_cons_of_mem _ hq))
      have h2 := h p (by simp) (t.foldr (fun p y => p.1 y) x)
      simp only [List.foldr_cons]; omega
  have hcount : ∀ (ps : List ((Bytes → Bytes) × Entry)) (x : Bytes), (∀ p ∈ ps, ∀ rest, rest.length + 1 ≤ (p.1 rest).length) →
      ps.length ≤ (ps.foldr (fun p y => p.1 y) x).length := by
    intro ps x
    induction ps with
    | nil => intro _; simp
    | cons p t ih =>
      intro h
      have h1 := ih (fun q hq => h q (List.mem_cons_of_mem _ hq))
      have h2 := h p (by simp) (t.foldr (fun p y => p.1 y) x)
      simp only [List.foldr_cons, List.length_cons]; omega
  have hge1 : ∀ p ∈ pieces g0 rs, ∀ rest, rest.length + 1 ≤ (p.1 rest).length := by
    -- every piece contains at least its `#`
    have : ∀ (rs : List (Rec F × List Nat)) (lead : List Nat), ∀ p ∈ pieces lead rs, ∀ rest, rest.length + 1 ≤ (p.1 rest).length := by
      intro rs
      induction rs with
      | nil => intro _ p hp; cases hp
      | cons rg t ih =>
        intro lead p hp rest
        obtain ⟨r, g⟩ := rg
        simp only [pieces, List.mem_cons] at hp
        rcases hp with h | h
        · subst h; simp only [lrec, List.length_append, List.length_cons]; omega
        · exact ih g p h rest
    exact this rs g0
  have hLt := hmono (pieces g0 rs) (endsecG gT wT (cs sp) (cs tail)) i2
  have hLc := hcount (pieces g0 rs) (endsecG gT wT (cs sp) (cs tail)) hge1
  unfold scan
  rw [hfile] at i1 ⊢
  have htail := nextInstance_endsecG gT hgT wT (cs sp) (cs tail) hwT
    (4 * ((pieces g0 rs).foldr (fun p x => p.1 x) (endsecG gT wT (cs sp) (cs tail))).length + 16) (by omega)
  have hse := sectionEnd_endsecG gT hgT wT (cs sp) (cs tail) hwT hsp'
    (4 * ((pieces g0 rs).foldr (fun p x => p.1 x) (endsecG gT wT (cs sp) (cs tail))).length + 16) (by omega)
  rw [scanLoop_pieces _ _ htail (pieces g0 rs) i1 i2 (by omega) _ (by omega) [], hse, pieces_map]
  simp


/-! ### the recorded offsets -/

theorem lrec_append (lead : List Nat) (r : Rec F) (rest : Bytes) : lrec lead r rest = lrec lead r [] ++ rest := by
  simp [lrec]

theorem drop_prefix {α} (A R : List α) (k : Nat) : (A ++ R).drop (A.length + k) = R.drop k := by
  induction A with
  | nil => simp
  | cons a t ih =>
    have : (a :: t).length + k = (t.length + k) + 1 := by simp; omega
    rw [this]; simpa using ih

/-- element-wise relation between two lists of the same length -/
inductive All2 {α β : Type} (R : α → β → Prop) : List α → List β → Prop
  | nil : All2 R [] []
  | cons {a b l l'} : R a b → All2 R l l' → All2 R (a :: l) (b :: l')

/-- what is recorded for one record: its offset is at or after `pos`, and from it the file reads as the record (after some layout)
    followed by the rest -/
def BeginOf (S : Bytes) (pos : Nat) (off : Nat) (rg : Rec F × List Nat) : Prop :=
  pos ≤ off ∧ ∃ lead rest, Seps lead ∧ Small lead ∧ S.drop (off - pos) = lrec lead rg.1 rest

theorem all2_shift (A R : Bytes) (pos : Nat) : ∀ (offs : List Nat) (rs : List (Rec F × List Nat)),
    All2 (BeginOf R (pos + A.length)) offs rs → All2 (BeginOf (A ++ R) pos) offs rs := by
  intro offs rs h
  induction h with
  | nil => exact All2.nil
  | @cons off rg _ _ hb _ ih =>
    refine All2.cons ?_ ih
    obtain ⟨hge, ld, rst, hs1, hs2, hd⟩ := hb
    refine ⟨by omega, ld, rst, hs1, hs2, ?_⟩
    have : off - pos = A.length + (off - (pos + A.length)) := by omega
    rw [this, drop_prefix]
    exact hd

theorem scanBegins_recs (hraw : commentsRaw = true) (fuel : Nat) (T : Bytes) (hT : nextInstance fuel T = .ok none) :
    ∀ (rs : List (Rec F × List Nat)), LazyRecs rs → ∀ (lead : List Nat), Seps lead → Small lead →
      ((pieces lead rs).foldr (fun p x => p.1 x) T).length + 6 ≤ fuel →
      ∀ (n pos : Nat) (acc : List Nat), rs.length < n →
        ∃ offs, scanBeginsLoop n fuel pos ((pieces lead rs).foldr (fun p x => p.1 x) T) acc = .ok (acc.reverse ++ offs) ∧
          All2 (BeginOf ((pieces lead rs).foldr (fun p x => p.1 x) T) pos) offs rs := by
  intro rs
  induction rs with
  | nil =>
    intro _ lead _ _ _ n pos acc hn
    obtain ⟨n0, rfl⟩ : ∃ j, n = j + 1 := ⟨n - 1, by simp at hn; omega⟩
    exact ⟨[], by simp [pieces, scanBeginsLoop, hT], All2.nil⟩
  | cons rg t ih =>
    intro hrs lead hlead hls hlen n pos acc hn
    obtain ⟨r, g⟩ := rg
    obtain ⟨n0, rfl⟩ : ∃ j, n = j + 1 := ⟨n - 1, by simp at hn; omega⟩
    obtain ⟨hlex, hlz, hg, hsg⟩ := hrs (r, g) (by simp)
    simp only [pieces, List.foldr_cons] at hlen ⊢
    obtain ⟨R, hR⟩ : ∃ R, R = (pieces g t).foldr (fun p x => p.1 x) T := ⟨_, rfl⟩
    rw [← hR] at hlen ⊢
    have hnext := nextInstance_lrec hraw lead hlead hls r hlex hlz R fuel hlen
    have hle : R.length ≤ (lrec lead r R).length := by rw [lrec_length]; omega
    obtain ⟨offs, h1, h2⟩ := ih (fun x hx => hrs x (List.mem_cons_of_mem _ hx)) g hg hsg (by rw [← hR]; omega) n0
      (pos + ((lrec lead r R).length - R.length)) (pos :: acc) (by simp at hn; omega)
    rw [← hR] at h1 h2
    refine ⟨pos :: offs, ?_, ?_⟩
    · simp only [scanBeginsLoop, hnext, h1]; simp
    · refine All2.cons ⟨Nat.le_refl _, lead, R, hlead, hls, by simp⟩ ?_
      -- the later records: the same suffixes, seen from `pos`
      have hA : (lrec lead r R).length - R.length = (lrec lead r []).length := by rw [lrec_length lead r R]; omega
      rw [hA] at h2
      rw [lrec_append lead r R]
      exact all2_shift (lrec lead r []) R pos _ _ h2

theorem All2.imp_mem {α β : Type} {R Q : α → β → Prop} : ∀ {l : List α} {l' : List β}, All2 R l l' →
    (∀ a b, b ∈ l' → R a b → Q a b) → All2 Q l l' := by
  intro l l' h
  induction h with
  | nil => intro _; exact All2.nil
  | cons hr _ ih =>
    intro hq
    exact All2.cons (hq _ _ (by simp) hr) (ih (fun a b hb => hq a b (List.mem_cons_of_mem _ hb)))

theorem All2.length_eq {α β : Type} {R : α → β → Prop} : ∀ {l : List α} {l' : List β}, All2 R l l' → l.length = l'.length := by
  intro l l' h
  induction h with
  | nil => rfl
  | cons _ _ ih => simp [ih]

/-- the recorded offsets of a whole data section of records: one per record, each at the start of the layout in front of its `#` -/
theorem scanBegins_file (hraw : commentsRaw = true) (rs : List (Rec F × List Nat)) (hrs : LazyRecs rs)
    (g0 sp tail : List Nat) (hg0 : Seps g0) (hs0 : Small g0) (hsp : sp.all StepModel.isSpace = true) (hssp : Small sp) :
    ∃ offs, scanBegins (cs (g0 ++ renderRecs rs (RLemmas.endsec sp tail))) = .ok offs ∧
      All2 (BeginOf (cs (g0 ++ renderRecs rs (RLemmas.endsec sp tail))) 0) offs rs := by
  obtain ⟨_, i2, i3, i4⟩ := pieces_next hraw (4 * (cs (g0 ++ renderRecs rs (RLemmas.endsec sp tail))).length + 16) rs hrs g0 hg0 hs0
  obtain ⟨gT, wT, hgT, hwT, heT⟩ := seps_gap hraw (lastLead g0 rs) i3 i4
  have hfile := cs_renderRecs (RLemmas.endsec sp tail) rs g0
  have htailEq : cs (lastLead g0 rs) ++ cs (RLemmas.endsec sp tail) = endsecG gT wT (cs sp) (cs tail) := by
    rw [heT, gapRender_append, cs_endsec]; rfl
  rw [htailEq] at hfile
  have hmono : ∀ (ps : List ((Bytes → Bytes) × Entry)) (x : Bytes), (∀ p ∈ ps, ∀ rest, rest.length ≤ (p.1 rest).length) →
      x.length ≤ (ps.foldr (fun p y => p.1 y) x).length := by
    intro ps x
    induction ps with
    | nil => intro _; simp
    | cons p t ih =>
      intro h
      have h1 := ih (fun q hq => h q (List.mem_cons_of_mem _ hq))
      have h2 := h p (by simp) (t.foldr (fun p y => p.1 y) x)
      simp only [List.foldr_cons]; omega
  have hcount : ∀ (rs : List (Rec F × List Nat)) (lead : List Nat) (x : Bytes),
      rs.length ≤ ((pieces lead rs).foldr (fun p y => p.1 y) x).length := by
    intro rs
    induction rs with
    | nil => intro _ _; simp [pieces]
    | cons rg t ih =>
      intro lead x
      obtain ⟨r, g⟩ := rg
      have := ih g x
      simp only [pieces, List.foldr_cons, List.length_cons]
      rw [lrec_length]
      have : 1 ≤ (lrec lead r []).length := by simp [lrec]; omega
      omega
  have hLt := hmono (pieces g0 rs) (endsecG gT wT (cs sp) (cs tail)) i2
  have hLc := hcount rs g0 (endsecG gT wT (cs sp) (cs tail))
  unfold scanBegins
  rw [hfile]
  have htail := nextInstance_endsecG gT hgT wT (cs sp) (cs tail) hwT
    (4 * ((pieces g0 rs).foldr (fun p x => p.1 x) (endsecG gT wT (cs sp) (cs tail))).length + 16) (by omega)
  obtain ⟨offs, h1, h2⟩ := scanBegins_recs hraw _ _ htail rs hrs g0 hg0 hs0 (by omega)
    (((pieces g0 rs).foldr (fun p x => p.1 x) (endsecG gT wT (cs sp) (cs tail))).length + 1) 0 [] (by omega)
  exact ⟨offs, by simpa using h1, h2⟩

/-! ### the covered scalar tokens of the eager grammar are `LazyTok`s -/

set_option maxRecDepth 100000 in
theorem digit_lplain' : ∀ c, c < 256 → StepModel.isDigit c = true → lplain c = true := by decide
set_option maxRecDepth 100000 in
theorem pw_lplain' : ∀ c, c < 256 → pw c = true → lplain c = true := by decide
set_option maxRecDepth 100000 in
theorem xdigit_lplain' : ∀ c, c < 256 → StepModel.isXDigit c = true → lplain c = true := by decide

theorem all_lplain_of (p : Nat → Bool) (hp : ∀ c, c < 256 → p c = true → lplain c = true) :
    ∀ (l : List Nat), Small l → l.all p = true → l.all lplain = true := by
  intro l
  induction l with
  | nil => intro _ _; rfl
  | cons a t ih =>
    intro hs h
    simp only [List.all_cons, Bool.and_eq_true] at h ⊢
    exact ⟨hp a hs.cons.1 h.1, ih hs.cons.2 h.2⟩

theorem sign_lplain {sg : List Nat} (h : IsSign sg) : sg.all lplain = true := by
  rcases h with rfl | rfl | rfl <;> decide

theorem isInteger_lplain (t : List Nat) (hs : Small t) (h : isInteger t = true) : t.all lplain = true := by
  obtain ⟨sg, hsg, ht, _⟩ := splitSign_append t
  unfold isInteger at h
  simp only [Bool.and_eq_true, allDigits] at h
  have hs2 : Small (splitSign t).2 := by rw [ht] at hs; exact hs.app.2
  rw [ht, List.all_append, sign_lplain hsg, all_lplain_of _ digit_lplain' _ hs2 h.2]
  rfl

theorem isReal_lplain (t : List Nat) (hs : Small t) (h : isReal t = true) : t.all lplain = true := by
  obtain ⟨sg, ip, fp, ex, rfl, hsg, _, hip, hfp, hex⟩ := isReal_shape t h
  unfold realText at hs
  have s1 := hs.app
  have s2 := s1.2.app
  have s3 := s2.2.cons.2.app
  have h1 := sign_lplain hsg
  have h2 := all_lplain_of _ digit_lplain' ip s2.1 hip
  have h3 := all_lplain_of _ digit_lplain' fp s3.1 hfp
  have h4 : (exText 69 ex).all lplain = true := by
    cases ex with
    | none => rfl
    | some p =>
      obtain ⟨esg, ed⟩ := p
      obtain ⟨hes, _, hed⟩ := hex
      have s4 : Small (69 :: (esg ++ ed)) := s3.2
      have := sign_lplain hes
      have := all_lplain_of _ digit_lplain' ed s4.cons.2.app.2 hed
      simp_all [exText, lplain]
  simp_all [realText, lplain]

/-! ## `getRealInstance`: what `STEPread` is handed (`findNormalString( "(" )` from the recorded offset) -/

theorem findOne_skipWS (n : Char) (f : Nat) (s : Bytes) : findOne n f (skipWS s) = findOne n f s := by
  cases f with
  | zero => rfl
  | succ f => simp only [findOne, skipWS_idem]

/-- white space costs the search nothing -/
theorem findOne_ws (n : Char) (f : Nat) (ws : Bytes) (hws : ws.all isSpace = true) (X : Bytes) :
    findOne n f (ws ++ X) = findOne n f X := by
  induction ws with
  | nil => rfl
  | cons w t ih =>
    simp only [List.all_cons, Bool.and_eq_true] at hws
    rw [← findOne_skipWS n f (w :: t ++ X)]
    show findOne n f (skipWS (w :: (t ++ X))) = _
    simp only [skipWS, hws.1, ↓reduceIte]
    rw [findOne_skipWS, ih hws.2]

/-- a character that is no white space, apostrophe, `/` or the needle is stepped over -/
theorem findOne_char (n : Char) (f : Nat) (c : Char) (r : Bytes) (h1 : isSpace c = false) (h2 : (c == '\'') = false)
    (h3 : (c == '/') = false) (h4 : (c == n) = false) : findOne n (f + 1) (c :: r) = findOne n f r := by
  simp only [findOne, skipWS, h1, h2, h3, h4, Bool.false_eq_true, ↓reduceIte, Bool.false_and]

/-- the needle itself ends the search -/
theorem findOne_hit (n : Char) (f : Nat) (r : Bytes) (h1 : isSpace n = false) (h2 : (n == '\'') = false)
    (h3 : (n == '/') = false) : findOne n (f + 1) (n :: r) = .ok r := by
  simp only [findOne, skipWS, h1, h2, h3, Bool.false_eq_true, ↓reduceIte, Bool.false_and, beq_self_eq_true]

def inert (n : Char) (b : Nat) : Bool := !isSpace (ch b) && !(ch b == '\'') && !(ch b == '/') && !(ch b == n)

theorem findOne_inerts (n : Char) : ∀ (l : List Nat), l.all (inert n) = true → ∀ (f : Nat) (X : Bytes),
    findOne n (f + l.length) (cs l ++ X) = findOne n f X := by
  intro l
  induction l with
  | nil => intro _ f X; rfl
  | cons a t ih =>
    intro h f X
    simp only [List.all_cons, Bool.and_eq_true, inert, Bool.not_eq_true'] at h
    have : f + (a :: t).length = (f + t.length) + 1 := by simp; omega
    rw [this, cs_cons]
    show findOne n (f + t.length + 1) (ch a :: (cs t ++ X)) = _
    rw [findOne_char n _ (ch a) _ h.1.1.1.1 h.1.1.1.2 h.1.1.2 h.1.2]
    exact ih (by simpa [inert] using h.2) f X

/-- a separator sequence (white space and comments) is skipped, one step per comment -/
theorem findOne_gap (n : Char) (hn : n ≠ '/') (ws : Bytes) (hws : ws.all isSpace = true) (X : Bytes) (hX : X.head? ≠ some '*') :
    ∀ (g : Gap), gapOk g = true → ∀ (k f : Nat), (gapRender g ws X).length + 5 + k ≤ f →
      ∃ f', X.length + k ≤ f' ∧ findOne n f (gapRender g ws X) = findOne n f' X := by
  intro g
  induction g with
  | nil =>
    intro _ k f hf
    refine ⟨f, ?_, ?_⟩
    · simp [gapRender] at hf; omega
    · simp only [gapRender]; exact findOne_ws n f ws hws X
  | cons p t ih =>
    intro hg k f hf
    obtain ⟨w, b⟩ := p
    simp only [gapOk, List.all_cons, Bool.and_eq_true] at hg
    obtain ⟨⟨hw, hb⟩, ht⟩ := hg
    have ht' : gapOk t = true := ht
    simp only [gapRender] at hf ⊢
    rw [findOne_ws n f w hw]
    obtain ⟨f0, rfl⟩ : ∃ j, f = j + 1 := ⟨f - 1, by simp at hf; omega⟩
    have hhead : (gapRender t ws X).head? ≠ some '*' := by
      cases t with
      | nil =>
        cases ws with
        | nil => simpa [gapRender] using hX
        | cons w0 wt =>
          simp only [List.all_cons, Bool.and_eq_true] at hws
          simp only [gapRender, List.cons_append, List.head?_cons, ne_eq, Option.some.injEq]
          intro e; rw [e] at hws; exact absurd hws.1 (by decide)
      | cons q u =>
        obtain ⟨w1, b1⟩ := q
        simp only [gapOk, List.all_cons, Bool.and_eq_true] at ht
        cases w1 with
        | nil => simp [gapRender]
        | cons w0 wt =>
          have := ht.1.1
          simp only [List.all_cons, Bool.and_eq_true] at this
          simp only [gapRender, List.cons_append, List.head?_cons, ne_eq, Option.some.injEq]
          intro e; rw [e] at this; exact absurd this.1 (by decide)
    have hsk := skipComment_render b hb (gapRender t ws X) hhead f0 (by simp at hf; omega)
    have hstep : findOne n (f0 + 1) ('/' :: '*' :: (b ++ '*' :: '/' :: gapRender t ws X)) = findOne n f0 (gapRender t ws X) := by
      have hne : ('/' == n) = false := by
        cases h : ('/' == n) with
        | false => rfl
        | true => exact absurd (by simpa using h : '/' = n).symm hn
      simp only [findOne, skipWS, show isSpace '/' = false by decide, Bool.false_eq_true, ↓reduceIte,
        show ('/' == '\'') = false by decide, beq_self_eq_true, List.head?_cons, Bool.and_self, hsk, hne]
    rw [hstep]
    obtain ⟨f', h1, h2⟩ := ih ht' k f0 (by simp only [List.length_append, List.length_cons] at hf; omega)
    exact ⟨f', h1, h2⟩

set_option maxRecDepth 100000 in
theorem digit_inert : ∀ b, b < 256 → StepModel.isDigit b = true → inert '(' b = true := by decide
set_option maxRecDepth 100000 in
theorem kwb_inert : ∀ b, b < 256 → (StepModel.isUpper b || StepModel.isDigit b || b == 95) = true → inert '(' b = true := by decide

theorem all_inert_of (p : Nat → Bool) (hp : ∀ b, b < 256 → p b = true → inert '(' b = true) :
    ∀ l : List Nat, Small l → l.all p = true → l.all (inert '(') = true := by
  intro l
  induction l with
  | nil => intro _ _; rfl
  | cons a t ih =>
    intro hs h
    simp only [List.all_cons, Bool.and_eq_true] at h ⊢
    exact ⟨hp a hs.cons.1 h.1, ih hs.cons.2 h.2⟩

/-- **what `STEPread` is handed**: from the recorded offset of a record of the covered class (the start of the layout before `#`),
    `seekg( begin ); findNormalString( "(" )` and one character back leave the stream exactly at the record's parameter list
    `( p₁ , … , pₙ ) s4 ; rest` — the leading comments (which may contain parentheses and apostrophes), the instance name, `=` and
    the keyword with the separators around them are passed over -/
theorem stepReadInput_lrec (hraw : commentsRaw = true) (lead : List Nat) (hlead : Seps lead) (hls : Small lead)
    (r : Rec F) (hlex : r.Lex) (hlz : LazyRec r) (rest : Bytes) (f : Nat) (hf : 6 * (lrec lead r rest).length + 30 ≤ f) :
    stepReadInput f (lrec lead r rest) = .ok ('(' :: (cs (renderParams r.ps) ++ (cs r.s4 ++ (';' :: rest)))) := by
  have sm1 := hlz.sm.app
  have sm2 := sm1.2.app
  have sm3 := sm2.2.app
  have sm4 := sm3.2.app
  have sm5 := sm4.2.app
  obtain ⟨gL, wL, hgL, hwL, heL⟩ := seps_gap hraw lead hlead hls
  obtain ⟨g1, w1, hg1, hw1, he1⟩ := seps_gap hraw r.s1 hlex.h1 sm2.1
  obtain ⟨g2, w2, hg2, hw2, he2⟩ := seps_gap hraw r.s2 hlex.h2 sm3.1
  obtain ⟨g3, w3, hg3, hw3, he3⟩ := seps_gap hraw r.s3 hlex.h3 sm5.1
  have hds : (r.ds).all (inert '(') = true := all_inert_of _ digit_inert _ sm1.1 hlex.ddig
  have hkw : (r.n0 :: r.ns).all (inert '(') = true := by
    apply all_inert_of _ kwb_inert _ sm4.1
    simp only [List.all_cons, Bool.and_eq_true]
    exact ⟨by simp [hlz.up0], hlz.ups⟩
  obtain ⟨P, hP⟩ : ∃ P, P = cs (renderParams r.ps) ++ (cs r.s4 ++ (';' :: rest)) := ⟨_, rfl⟩
  obtain ⟨T3, hT3⟩ : ∃ T, T = cs r.s3 ++ ('(' :: P) := ⟨_, rfl⟩
  obtain ⟨T2, hT2⟩ : ∃ T, T = cs r.s2 ++ (cs (r.n0 :: r.ns) ++ T3) := ⟨_, rfl⟩
  obtain ⟨T1, hT1⟩ : ∃ T, T = cs r.s1 ++ ('=' :: T2) := ⟨_, rfl⟩
  have hL : lrec lead r rest = cs lead ++ ('#' :: (cs r.ds ++ T1)) := by
    simp only [lrec, hT1, hT2, hT3, hP]
  have hlT3 : T3.length = (cs r.s3).length + 1 + P.length := by rw [hT3]; simp only [List.length_append, List.length_cons]; omega
  have hlT2 : T2.length = (cs r.s2).length + (r.n0 :: r.ns).length + T3.length := by
    rw [hT2]; simp only [List.length_append, cs_length]; omega
  have hlT1 : T1.length = (cs r.s1).length + 1 + T2.length := by rw [hT1]; simp only [List.length_append, List.length_cons]; omega
  have len : (lrec lead r rest).length = (cs lead).length + 1 + r.ds.length + T1.length := by
    rw [hL]; simp only [List.length_append, List.length_cons, cs_length]; omega
  unfold stepReadInput
  suffices h : findOne '(' f (lrec lead r rest) = .ok P by rw [h, hP]
  rw [hL, heL, gapRender_append]
  -- the lead
  obtain ⟨fa, ha1, ha2⟩ := findOne_gap '(' (by decide) wL hwL ('#' :: (cs r.ds ++ T1)) (by simp) gL hgL
    (4 * (lrec lead r rest).length + 20) f (by
      have : (gapRender gL wL ('#' :: (cs r.ds ++ T1))).length = (lrec lead r rest).length := by
        rw [hL, heL, gapRender_append]
      omega)
  rw [ha2]
  simp only [List.length_append, List.length_cons, cs_length] at ha1
  -- `#` and the digits
  obtain ⟨fb, rfl⟩ : ∃ j, fa = j + 1 := ⟨fa - 1, by omega⟩
  rw [findOne_char '(' fb '#' _ (by decide) (by decide) (by decide) (by decide)]
  obtain ⟨fc, rfl⟩ : ∃ j, fb = j + r.ds.length := ⟨fb - r.ds.length, by omega⟩
  rw [findOne_inerts '(' r.ds hds fc T1]
  -- s1 `=`
  rw [hT1, he1, gapRender_append]
  obtain ⟨fd, hd1, hd2⟩ := findOne_gap '(' (by decide) w1 hw1 ('=' :: T2) (by simp) g1 hg1
    (3 * (lrec lead r rest).length + 10) fc (by
      have h1 : (gapRender g1 w1 ('=' :: T2)).length = (cs r.s1).length + 1 + T2.length := by
        rw [← gapRender_append, ← he1]; simp only [List.length_append, List.length_cons]; omega
      omega)
  rw [hd2]
  simp only [List.length_cons] at hd1
  obtain ⟨fe, rfl⟩ : ∃ j, fd = j + 1 := ⟨fd - 1, by omega⟩
  rw [findOne_char '(' fe '=' _ (by decide) (by decide) (by decide) (by decide)]
  -- s2, the keyword
  rw [hT2, he2, gapRender_append]
  have hkwne : (cs (r.n0 :: r.ns) ++ T3).head? ≠ some '*' := by
    rw [cs_cons]; simp only [List.cons_append, List.head?_cons, ne_eq, Option.some.injEq]
    intro e
    have h2 := (kwb_facts r.n0 sm4.1.cons.1 (by simp [hlz.up0]))
    rw [e] at h2; exact absurd h2 (by decide)
  obtain ⟨fg, hg1', hg2'⟩ := findOne_gap '(' (by decide) w2 hw2 (cs (r.n0 :: r.ns) ++ T3) hkwne g2 hg2
    (2 * (lrec lead r rest).length + 5) fe (by
      have h1 : (gapRender g2 w2 (cs (r.n0 :: r.ns) ++ T3)).length = (cs r.s2).length + (r.n0 :: r.ns).length + T3.length := by
        rw [← gapRender_append, ← he2]; simp only [List.length_append, cs_length]; omega
      omega)
  rw [hg2']
  simp only [List.length_append, cs_length] at hg1'
  obtain ⟨fh, rfl⟩ : ∃ j, fg = j + (r.n0 :: r.ns).length := ⟨fg - (r.n0 :: r.ns).length, by omega⟩
  rw [findOne_inerts '(' (r.n0 :: r.ns) hkw fh T3]
  -- s3 and the parenthesis
  rw [hT3, he3, gapRender_append]
  obtain ⟨fi, hi1, hi2⟩ := findOne_gap '(' (by decide) w3 hw3 ('(' :: P) (by simp) g3 hg3 1 fh (by
      have h1 : (gapRender g3 w3 ('(' :: P)).length = (cs r.s3).length + 1 + P.length := by
        rw [← gapRender_append, ← he3]; simp only [List.length_append, List.length_cons]; omega
      omega)
  rw [hi2]
  simp only [List.length_cons] at hi1
  obtain ⟨fj, rfl⟩ : ∃ j, fi = j + 1 := ⟨fi - 1, by omega⟩
  exact findOne_hit '(' fj P (by decide) (by decide) (by decide)

/-! ### the same without a bound on the bytes: the character classes bound them -/

theorem digit_small (c : Nat) (h : StepModel.isDigit c = true) : c < 256 := by
  unfold StepModel.isDigit at h
  simp only [Bool.and_eq_true, decide_eq_true_eq] at h
  have h' : 48 ≤ c ∧ c ≤ 57 := h
  omega

theorem alnum_small (c : Nat) (h : StepModel.isAlnum c = true) : c < 256 := by
  unfold StepModel.isAlnum StepModel.isAlpha StepModel.isUpper StepModel.isLower StepModel.isDigit at h
  simp only [Bool.or_eq_true, Bool.and_eq_true, decide_eq_true_eq] at h
  have h' : ((65 ≤ c ∧ c ≤ 90) ∨ (97 ≤ c ∧ c ≤ 122)) ∨ (48 ≤ c ∧ c ≤ 57) := h
  omega

theorem pw_small (c : Nat) (h : pw c = true) : c < 256 := by
  unfold pw at h
  simp only [Bool.or_eq_true, beq_iff_eq] at h
  rcases h with h | h
  · exact alnum_small c h
  · have h' : c = 95 := h
    omega

theorem xdigit_small (c : Nat) (h : StepModel.isXDigit c = true) : c < 256 := by
  unfold StepModel.isXDigit StepModel.isDigit at h
  simp only [Bool.or_eq_true, Bool.and_eq_true, decide_eq_true_eq] at h
  have h' : ((48 ≤ c ∧ c ≤ 57) ∨ (65 ≤ c ∧ c ≤ 70)) ∨ (97 ≤ c ∧ c ≤ 102) := h
  omega

theorem all_lplain_of0 (p : Nat → Bool) (hp : ∀ c, p c = true → lplain c = true) :
    ∀ (l : List Nat), l.all p = true → l.all lplain = true := by
  intro l
  induction l with
  | nil => intro _; rfl
  | cons a t ih =>
    intro h
    simp only [List.all_cons, Bool.and_eq_true] at h ⊢
    exact ⟨hp a h.1, ih h.2⟩

theorem digit_lplain0 (c : Nat) (h : StepModel.isDigit c = true) : lplain c = true := digit_lplain' c (digit_small c h) h
theorem pw_lplain0 (c : Nat) (h : pw c = true) : lplain c = true := pw_lplain' c (pw_small c h) h
theorem xdigit_lplain0 (c : Nat) (h : StepModel.isXDigit c = true) : lplain c = true := xdigit_lplain' c (xdigit_small c h) h

theorem isInteger_lplain0 (t : List Nat) (h : isInteger t = true) : t.all lplain = true := by
  obtain ⟨sg, hsg, ht, _⟩ := splitSign_append t
  unfold isInteger at h
  simp only [Bool.and_eq_true, allDigits] at h
  rw [ht, List.all_append, sign_lplain hsg, all_lplain_of0 _ digit_lplain0 _ h.2]
  rfl

theorem isReal_lplain0 (t : List Nat) (h : isReal t = true) : t.all lplain = true := by
  obtain ⟨sg, ip, fp, ex, rfl, hsg, _, hip, hfp, hex⟩ := isReal_shape t h
  have h1 := sign_lplain hsg
  have h2 := all_lplain_of0 _ digit_lplain0 ip hip
  have h3 := all_lplain_of0 _ digit_lplain0 fp hfp
  have h4 : (exText 69 ex).all lplain = true := by
    cases ex with
    | none => rfl
    | some p =>
      obtain ⟨esg, ed⟩ := p
      obtain ⟨hes, _, hed⟩ := hex
      have := sign_lplain hes
      have := all_lplain_of0 _ digit_lplain0 ed hed
      simp_all [exText, lplain]
  simp_all [realText, lplain]

/-! ### building `LSeq` for the eager reader's tokens -/

theorem LSeq.plains_append (a : List Nat) (ha : a.all lplain = true) {b r : List Nat} (hb : LSeq b r) : LSeq (a ++ b) r := by
  induction a with
  | nil => exact hb
  | cons x t ih =>
    simp only [List.all_cons, Bool.and_eq_true] at ha
    exact LSeq.plain x _ _ ha.1 (ih ha.2)

theorem spaces_lplain (sp : List Nat) (h : sp.all StepModel.isSpace = true) : sp.all lplain = true := by
  rw [List.all_eq_true] at h ⊢
  exact fun x hx => space_lplain x (h x hx)

theorem LSeq.seps_append {s : List Nat} (hs : Seps s) : ∀ {b r : List Nat}, LSeq b r → LSeq (s ++ b) r := by
  induction hs with
  | blanks sp hsp => intro b r hb; exact LSeq.plains_append sp (spaces_lplain sp hsp) hb
  | comment sp body t hsp hbd _ ih =>
    intro b r hb
    have e : sp ++ 47 :: 42 :: (body ++ 42 :: 47 :: t) ++ b = sp ++ (47 :: 42 :: (body ++ 42 :: 47 :: (t ++ b))) := by simp
    rw [e]
    exact LSeq.plains_append sp (spaces_lplain sp hsp) (LSeq.cmt body _ _ hbd (ih hb))

set_option maxRecDepth 100000 in
theorem digit_not_space : ∀ b, b < 256 → StepModel.isDigit b = true → StepModel.isSpace b = false := by decide

/-- what a separator sequence followed by `x` starts with is neither an apostrophe nor a digit, when `x` is neither -/
theorem seps_then_safe (s : List Nat) (hs : Seps s) (x : Nat) (rest : List Nat) (hx1 : x ≠ 39) (hx2 : StepModel.isDigit x = false) :
    (s ++ x :: rest).head? ≠ some 39 ∧ ∀ c, (s ++ x :: rest).head? = some c → StepModel.isDigit c = false := by
  obtain ⟨c, u, hcu, hc⟩ := seps_then s hs x rest (fun c => c ≠ 39 ∧ StepModel.isDigit c = false)
    (fun c hc => by
      have := space_lplain c hc
      refine ⟨fun e => by rw [e] at hc; exact absurd hc (by decide), ?_⟩
      cases hd : StepModel.isDigit c with
      | false => rfl
      | true => exact absurd hc (by rw [digit_not_space c (digit_small c hd) hd]; decide))
    ⟨by decide, by decide⟩ ⟨hx1, hx2⟩
  rw [hcu]
  simp only [List.head?_cons, ne_eq, Option.some.injEq]
  exact ⟨hc.1, fun z hz => by rw [← hz]; exact hc.2⟩

/-- a token between separator sequences, followed by a delimiter and more -/
theorem LSeq.item {before tok after : List Nat} {rt rr : List Nat} (hb : Seps before) (ht : LSeq tok rt) (ha : Seps after)
    (x : Nat) (rest : List Nat) (hx1 : x ≠ 39) (hx2 : StepModel.isDigit x = false) (hr : LSeq (x :: rest) rr) :
    LSeq (before ++ (tok ++ (after ++ x :: rest))) (rt ++ rr) := by
  have hs := seps_then_safe after ha x rest hx1 hx2
  exact LSeq.seps_append hb (LSeq.append ht (LSeq.seps_append ha hr) hs.1 hs.2)

/-- … or by nothing -/
theorem LSeq.item_last {before tok after : List Nat} {rt : List Nat} (hb : Seps before) (ht : LSeq tok rt) (ha : Seps after) :
    LSeq (before ++ (tok ++ after)) rt := by
  have h0 : LSeq after [] := lseq_seps after ha
  have hq : after.head? ≠ some 39 ∧ ∀ c, after.head? = some c → StepModel.isDigit c = false := by
    cases hh : after with
    | nil => simp
    | cons a u =>
      -- `after ++ [44]` starts like `after`
      have := seps_then_safe after ha 44 [] (by decide) (by decide)
      rw [hh] at this
      simpa using this
  have := LSeq.seps_append hb (LSeq.append ht h0 hq.1 hq.2)
  simpa using this

end StepModel.Lazy

import StepModel.GenCxxDeriveFull
import StepModel.GenCxxCallsP
/-! `C02_flags_derive_full` for the search the generator really does: which attributes of a fresh instance carry `_derive`, for every
resolved schema and supertype graph, with the closed form `derivedInP` — no hypothesis on redeclarations.  The invariant part is the
one of `GenCxxDeriveFull.lean` with `derivedInP` in place of `derivedIn`. -/
namespace StepModel.GenCxx
open StepModel.Generated Spec

/-! ## fuel independence and monotonicity of `infoP` -/

theorem flatMap_congr' {α β : Type} {F G : α → List β} : ∀ (L : List α), (∀ q ∈ L, F q = G q) → L.flatMap F = L.flatMap G
  | [], _ => rfl
  | q :: qs, h => by
    rw [List.flatMap_cons, List.flatMap_cons, h q (by simp), flatMap_congr' qs (fun r hr => h r (by simp [hr]))]

theorem infoP_succ (s : Schema) (x cr : String) (f : Nat) (n : String) :
    infoP s x cr (f + 1) n = match s.findE n with
      | none => ([], false)
      | some e => e.attrs.foldl (stepK s n x cr)
          (e.supers.flatMap (fun q => (infoP s x cr f q).1), e.supers.any (fun q => (infoP s x cr f q).2)) := rfl

theorem infoP_fuel {s : Schema} {rank : String → Nat} (wf : WF s rank) (x cr : String) :
    ∀ (f g : Nat) (m : String), rank m < f → rank m < g → infoP s x cr f m = infoP s x cr g m := by
  intro f
  induction f with
  | zero => intro g m h; omega
  | succ f ih =>
    intro g m hf hg
    cases g with
    | zero => omega
    | succ g =>
      rw [infoP_succ, infoP_succ]
      cases hE : s.findE m with
      | none => rfl
      | some e =>
        simp only
        have hq : ∀ q ∈ e.supers, infoP s x cr f q = infoP s x cr g q := fun q hq =>
          ih g q (by have := (wf.supers m e hE q hq).2; omega) (by have := (wf.supers m e hE q hq).2; omega)
        rw [flatMap_congr' e.supers (fun q h => congrArg Prod.fst (hq q h)),
            any_congr' e.supers (fun q h => congrArg Prod.snd (hq q h))]

theorem stepK_mono (s : Schema) (n x cr : String) (σ : List String × Bool) (a : Attr) (h : σ.2 = true) :
    (stepK s n x cr σ a).2 = true := by
  unfold stepK
  split
  · split <;> simp [h]
  · exact h

theorem fold_stepK_mono (s : Schema) (n x cr : String) (attrs : List Attr) : ∀ σ : List String × Bool, σ.2 = true →
    (attrs.foldl (stepK s n x cr) σ).2 = true := by
  induction attrs with
  | nil => intro σ h; exact h
  | cons a as ih => intro σ h; simp only [List.foldl_cons]; exact ih _ (stepK_mono s n x cr σ a h)

/-- what a supertype's list has marked, the subtype's closed form has too -/
theorem derivedInP_super {s : Schema} {rank : String → Nat} (wf : WF s rank) {m : String} {e : Entity} (hE : s.findE m = some e)
    {q : String} (hq : q ∈ e.supers) (x cr : String) (h : derivedInP s (fuelOf s) q x cr = true) :
    derivedInP s (fuelOf s) m x cr = true := by
  have hb := wf.bound m e hE
  have hrq := (wf.supers m e hE q hq).2
  have hF : fuelOf s = (fuelOf s - 1) + 1 := by omega
  unfold derivedInP at h ⊢
  rw [hF, infoP_succ, hE]
  simp only
  apply fold_stepK_mono
  simp only
  refine List.any_eq_true.2 ⟨q, hq, ?_⟩
  rw [infoP_fuel wf x cr (fuelOf s - 1) (fuelOf s) q (by omega) (by omega)]
  exact h

/-! ## the invariant -/

/-- every object flagged `_derive` is named by the closed form of `n0` -/
def DerInvP (s : Schema) (n0 : String) (st : IState) : Prop :=
  ∀ j a, saAt st j = some a → dAt st j = true → derivedInP s (fuelOf s) n0 a.name a.owner = true

/-- what `m`'s lists have marked, `n0`'s closed form has too (`m` is `n0` or one of its supertypes) -/
def UpP (s : Schema) (n0 m : String) : Prop :=
  ∀ x cr, derivedInP s (fuelOf s) m x cr = true → derivedInP s (fuelOf s) n0 x cr = true

theorem DerInvP.noNew {s : Schema} {n0 : String} {st st' : IState} (h : DerInvP s n0 st) (hn : NoNewD st st') : DerInvP s n0 st' := by
  intro j a hs hd
  have hd0 := hn.2.2 j hd
  have hlt := dAt_lt hd0
  exact h j a (by rw [← hn.2.1 j hlt]; exact hs) hd0

theorem DerInvP.applyDerived {s : Schema} {n0 : String} {st : IState} (h : DerInvP s n0 st) (l : List Nat) (calls : List (String × String))
    (hc : ∀ c ∈ calls, derivedInP s (fuelOf s) n0 c.1 c.2 = true) : DerInvP s n0 (applyDerived st l calls) := by
  intro j a hs hd
  obtain ⟨_, i2, i3⟩ := applyDerived_sound calls l st
  rw [i2] at hs
  rcases i3 j hd with h' | ⟨b, hb, hm⟩
  · exact h j a hs h'
  · rw [hs] at hb
    cases hb
    exact hc _ hm

variable {s : Schema} {rank : String → Nat}

/-- the calls of `m`'s constructors are in `n0`'s closed form -/
theorem calls_upP (hm : dedupMergesDeriver = true)
    {n0 m : String} (hu : UpP s n0 m) : ∀ c ∈ derivedCalls s m, derivedInP s (fuelOf s) n0 c.1 c.2 = true := by
  intro c hc
  apply hu
  exact (derivedCalls_closedP hm s m c.1 c.2).1 hc

theorem up_superP (wf : WF s rank) {n0 m : String} {e : Entity} (hE : s.findE m = some e) (hu : UpP s n0 m) {q : String}
    (hq : q ∈ e.supers) : UpP s n0 q :=
  fun x cr h => hu x cr (derivedInP_super wf hE hq x cr h)

/-- the constructor with arguments (a part, or a C++ base of a part) keeps the invariant -/
theorem ctorWF_dinvP (wf : WF s rank) (hm : dedupMergesDeriver = true) (n0 : String) :
    ∀ (f : Nat) (m : String) (st : IState) (cur : List Nat), UpP s n0 m → DerInvP s n0 st → DerInvP s n0 (ctorWF s f m st cur).1 := by
  intro f
  induction f with
  | zero => intro m st cur _ h; exact h
  | succ f ih =>
    intro m st cur hu h
    rw [ctorWF_succ]
    cases hE : s.findE m with
    | none => exact h
    | some e =>
      simp only
      have hfold : ∀ (L : List String), (∀ q ∈ L, q ∈ e.supers) → ∀ st' : IState, DerInvP s n0 st' →
          DerInvP s n0 (L.foldl (fun st q => (ctorWF s f q st []).1) st') := by
        intro L
        induction L with
        | nil => intro _ st' h'; exact h'
        | cons q qs ihq =>
          intro hmem st' h'
          simp only [List.foldl_cons]
          exact ihq (fun r hr => hmem r (by simp [hr])) _ (ih q st' [] (up_superP wf hE hu (hmem q (by simp))) h')
      have body : ∀ (p1 : IState × List Nat) (tail : List String), (∀ q ∈ tail, q ∈ e.supers) → DerInvP s n0 p1.1 →
          DerInvP s n0 (applyDerived (ownLoop (redefOwner s) e (tail.foldl (fun st q => (ctorWF s f q st []).1) p1.1) (some p1.2)).1
              ((ownLoop (redefOwner s) e (tail.foldl (fun st q => (ctorWF s f q st []).1) p1.1) (some p1.2)).2.getD []) (derivedCalls s m)) := by
        intro p1 tail ht hp1
        have h2 := hfold tail ht p1.1 hp1
        exact (h2.noNew (ownLoop_noNewD _ e _ _)).applyDerived _ _ (calls_upP hm hu)
      cases hs : e.supers with
      | nil => exact body (st, cur) [] (by simp) h
      | cons p ps =>
        have hp : p ∈ e.supers := by rw [hs]; simp
        exact body (ctorWF s f p st cur) ps (fun q hq => by rw [hs]; simp [hq]) (ih p st cur (up_superP wf hE hu hp) h)

/-- … and so does the constructor without arguments (the instance itself and its C++ bases) -/
theorem ctorNF_dinvP (wf : WF s rank) (hm : dedupMergesDeriver = true) (n0 : String) :
    ∀ (f : Nat) (m : String) (st : IState), UpP s n0 m → DerInvP s n0 st → DerInvP s n0 (ctorNF s f m st) := by
  intro f
  induction f with
  | zero => intro m st _ h; exact h
  | succ f ih =>
    intro m st hu h
    rw [ctorNF_succ]
    cases hE : s.findE m with
    | none => exact h
    | some e =>
      simp only
      have hfold : ∀ (L : List String), (∀ q ∈ L, q ∈ e.supers) → ∀ st' : IState, DerInvP s n0 st' →
          DerInvP s n0 (L.foldl (fun st q => (ctorWF s f q st []).1) st') := by
        intro L
        induction L with
        | nil => intro _ st' h'; exact h'
        | cons q qs ihq =>
          intro hmem st' h'
          simp only [List.foldl_cons]
          exact ihq (fun r hr => hmem r (by simp [hr])) _
            (ctorWF_dinvP wf hm n0 f q st' [] (up_superP wf hE hu (hmem q (by simp))) h')
      have body : ∀ (st1 : IState) (tail : List String), (∀ q ∈ tail, q ∈ e.supers) → DerInvP s n0 st1 →
          DerInvP s n0 (applyDerived (ownLoop (redefOwner s) e (tail.foldl (fun st q => (ctorWF s f q st []).1) st1) none).1
              (ownLoop (redefOwner s) e (tail.foldl (fun st q => (ctorWF s f q st []).1) st1) none).1.head (derivedCalls s m)) := by
        intro st1 tail ht hp1
        have h2 := hfold tail ht st1 hp1
        exact (h2.noNew (ownLoop_noNewD _ e _ _)).applyDerived _ _ (calls_upP hm hu)
      cases hs : e.supers with
      | nil => exact body st [] (by simp) h
      | cons p ps =>
        have hp : p ∈ e.supers := by rw [hs]; simp
        exact body (ctorNF s f p st) ps (fun q hq => by rw [hs]; simp [hq]) (ih p st (up_superP wf hE hu hp) h)

/-- **soundness**: whatever a fresh instance of `n` has flagged `_derive` is named by the closed form of `n` -/
theorem flags_derive_soundP (wf : WF s rank) (hm : dedupMergesDeriver = true)
    (n : String) (f : Nat) : DerInvP s n (ctorNF s f n {}) :=
  ctorNF_dinvP wf hm n f n {} (fun _ _ h => h) (fun j a hs _ => by simp [saAt] at hs)

/-- **which attributes of a fresh instance are flagged `_derive`, for any supertype graph**: exactly those the closed form of the
    instance's entity names.  `hk`: the head's attributes are told apart by (owner, registered name). -/
theorem flags_derive_fullP (wf : WF s rank) (hm : dedupMergesDeriver = true)
    (f : Nat) (n : String) (e : Entity) (hE : s.findE n = some e) (hk : HeadKeyInj (ctorNF s (f + 1) n {}))
    (j : Nat) (hjh : j ∈ (ctorNF s (f + 1) n {}).head) (a : SA) (hj : saAt (ctorNF s (f + 1) n {}) j = some a) :
    dAt (ctorNF s (f + 1) n {}) j = true ↔ derivedInP s (fuelOf s) n a.name a.owner = true := by
  constructor
  · exact flags_derive_soundP wf hm n (f + 1) j a hj
  · intro hd
    have hcall : (a.name, a.owner) ∈ derivedCalls s n := by
      exact (derivedCalls_closedP hm s n a.name a.owner).2 hd
    -- the last thing the constructor does: its own MakeDerived calls on the head
    have hunf : ∃ mid : IState, ctorNF s (f + 1) n {} = applyDerived mid mid.head (derivedCalls s n) := by
      rw [ctorNF_succ, hE]
      exact ⟨_, rfl⟩
    obtain ⟨mid, hmid⟩ := hunf
    obtain ⟨q1, _, q3⟩ := applyDerived_projR (derivedCalls s n) mid mid.head
    have hsaeq : ∀ i, saAt (applyDerived mid mid.head (derivedCalls s n)) i = saAt mid i := by
      intro i
      simp only [saAt]
      have := congrArg (fun l => l[i]?) q3
      simpa using this
    rw [hmid] at hk hjh hj ⊢
    have hkm : HeadKeyInj mid := by
      intro i1 h1 j1 h2 x y hx hy hxy
      exact hk i1 (by rw [q1]; exact h1) j1 (by rw [q1]; exact h2) x y (by rw [hsaeq]; exact hx) (by rw [hsaeq]; exact hy) hxy
    have := (applyDerived_on_head (derivedCalls s n) mid hkm).2.2 j (by rw [← q1]; exact hjh) a (by rw [← hsaeq]; exact hj)
    rw [this]
    exact Or.inr hcall

end StepModel.GenCxx

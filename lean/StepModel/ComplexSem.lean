import StepModel.ComplexBuild
/-!
# Meaning of the trees `processSubExp` builds, by induction on the supertype expression

`Der D Y` — the name list `Y`, read as a set, is one of the sets in `D`.
`Sem T x Y` — the meaning of expression `x` when an entity reference `n` means whatever the tree `T n` derives:
AND = union of one derivation of each operand, ANDOR = one operand or both, ONEOF = exactly one operand.

`expr_meaning`: whatever the kind of the parent list (supertype head / AND / ANDOR / OR — i.e. with or without the
same-operator flattening), the children `exprKids T p x` contribute exactly `Sem T x` to the parent's meaning.
`sem_admits`: `Sem T x` = choose a set of direct subtypes the expression admits (`Expr.admits`, the rule `Spec.Legal`
uses), then one derivation of each chosen subtype's tree.
-/
namespace StepModel.Complex

def SameSet (a b : List Name) : Prop := ∀ x, x ∈ a ↔ x ∈ b

theorem SameSet.refl (a : List Name) : SameSet a a := fun _ => Iff.rfl
theorem SameSet.symm {a b : List Name} (h : SameSet a b) : SameSet b a := fun x => (h x).symm
theorem SameSet.trans {a b c : List Name} (h : SameSet a b) (h' : SameSet b c) : SameSet a c :=
  fun x => (h x).trans (h' x)
theorem SameSet.append {a a' b b' : List Name} (h : SameSet a a') (h' : SameSet b b') : SameSet (a ++ b) (a' ++ b') := by
  intro x; simp only [List.mem_append]; rw [h x, h' x]

def Der (D : List (List Name)) (Y : List Name) : Prop := ∃ Z ∈ D, SameSet Z Y

theorem Der.congr {D : List (List Name)} {Y Y' : List Name} (h : SameSet Y Y') : Der D Y ↔ Der D Y' :=
  ⟨fun ⟨Z, hz, hs⟩ => ⟨Z, hz, hs.trans h⟩, fun ⟨Z, hz, hs⟩ => ⟨Z, hz, hs.trans h.symm⟩⟩

/-- a predicate on name lists that only looks at the set -/
def SetPred (P : List Name → Prop) : Prop := ∀ Y Y', SameSet Y Y' → (P Y ↔ P Y')

theorem Der.setPred (D : List (List Name)) : SetPred (Der D) := fun _ _ h => Der.congr h

def PAnd (P Q : List Name → Prop) (Y : List Name) : Prop := ∃ Y1 Y2, P Y1 ∧ Q Y2 ∧ SameSet (Y1 ++ Y2) Y
def PSel (P Q : List Name → Prop) (Y : List Name) : Prop := P Y ∨ Q Y ∨ PAnd P Q Y

theorem PAnd.setPred (P Q : List Name → Prop) : SetPred (PAnd P Q) := by
  intro Y Y' h
  constructor
  · rintro ⟨a, b, ha, hb, hs⟩; exact ⟨a, b, ha, hb, hs.trans h⟩
  · rintro ⟨a, b, ha, hb, hs⟩; exact ⟨a, b, ha, hb, hs.trans h.symm⟩

theorem PAnd.congr {P P' Q Q' : List Name → Prop} (hp : ∀ Y, P Y ↔ P' Y) (hq : ∀ Y, Q Y ↔ Q' Y) (Y : List Name) :
    PAnd P Q Y ↔ PAnd P' Q' Y := by
  constructor
  · rintro ⟨a, b, ha, hb, hs⟩; exact ⟨a, b, (hp a).mp ha, (hq b).mp hb, hs⟩
  · rintro ⟨a, b, ha, hb, hs⟩; exact ⟨a, b, (hp a).mpr ha, (hq b).mpr hb, hs⟩

theorem PSel.congr {P P' Q Q' : List Name → Prop} (hp : ∀ Y, P Y ↔ P' Y) (hq : ∀ Y, Q Y ↔ Q' Y) (Y : List Name) :
    PSel P Q Y ↔ PSel P' Q' Y := by
  unfold PSel; rw [hp Y, hq Y, PAnd.congr hp hq Y]

theorem PAnd.assoc {P Q R : List Name → Prop} (Y : List Name) :
    PAnd P (PAnd Q R) Y ↔ PAnd (PAnd P Q) R Y := by
  constructor
  · rintro ⟨a, bc, ha, ⟨b, c, hb, hc, hbc⟩, hs⟩
    refine ⟨a ++ b, c, ⟨a, b, ha, hb, SameSet.refl _⟩, hc, ?_⟩
    intro x; rw [← hs x]; simp only [List.mem_append]; rw [← hbc x]; simp only [List.mem_append, or_assoc]
  · rintro ⟨ab, c, ⟨a, b, ha, hb, hab⟩, hc, hs⟩
    refine ⟨a, b ++ c, ha, ⟨b, c, hb, hc, SameSet.refl _⟩, ?_⟩
    intro x; rw [← hs x]; simp only [List.mem_append]; rw [← hab x]; simp only [List.mem_append, or_assoc]

theorem PAnd.or_right {P Q R : List Name → Prop} (Y : List Name) :
    PAnd P (fun Z => Q Z ∨ R Z) Y ↔ PAnd P Q Y ∨ PAnd P R Y := by
  constructor
  · rintro ⟨a, b, ha, hb | hb, hs⟩
    · exact Or.inl ⟨a, b, ha, hb, hs⟩
    · exact Or.inr ⟨a, b, ha, hb, hs⟩
  · rintro (⟨a, b, ha, hb, hs⟩ | ⟨a, b, ha, hb, hs⟩)
    · exact ⟨a, b, ha, Or.inl hb, hs⟩
    · exact ⟨a, b, ha, Or.inr hb, hs⟩

theorem PAnd.or_left {P Q R : List Name → Prop} (Y : List Name) :
    PAnd (fun Z => P Z ∨ Q Z) R Y ↔ PAnd P R Y ∨ PAnd Q R Y := by
  constructor
  · rintro ⟨a, b, ha | ha, hb, hs⟩
    · exact Or.inl ⟨a, b, ha, hb, hs⟩
    · exact Or.inr ⟨a, b, ha, hb, hs⟩
  · rintro (⟨a, b, ha, hb, hs⟩ | ⟨a, b, ha, hb, hs⟩)
    · exact ⟨a, b, Or.inl ha, hb, hs⟩
    · exact ⟨a, b, Or.inr ha, hb, hs⟩

-- ------------------------------------------------------------------ laws of prodD / selD / flatten
theorem Der_append (A B : List (List Name)) (Y : List Name) : Der (A ++ B) Y ↔ Der A Y ∨ Der B Y := by
  constructor
  · rintro ⟨Z, hz, hs⟩
    rcases List.mem_append.mp hz with h | h
    · exact Or.inl ⟨Z, h, hs⟩
    · exact Or.inr ⟨Z, h, hs⟩
  · rintro (⟨Z, hz, hs⟩ | ⟨Z, hz, hs⟩)
    · exact ⟨Z, List.mem_append.mpr (Or.inl hz), hs⟩
    · exact ⟨Z, List.mem_append.mpr (Or.inr hz), hs⟩

theorem Der_nil (Y : List Name) : Der [] Y ↔ False := by
  constructor
  · rintro ⟨Z, hz, _⟩; cases hz
  · exact False.elim

theorem Der_prodD_cons (d : List (List Name)) (ds : List (List (List Name))) (Y : List Name) :
    Der (prodD (d :: ds)) Y ↔ PAnd (Der d) (Der (prodD ds)) Y := by
  constructor
  · rintro ⟨Z, hz, hs⟩
    simp only [prodD, List.mem_flatMap, List.mem_map] at hz
    obtain ⟨x, hx, y, hy, rfl⟩ := hz
    exact ⟨x, y, ⟨x, hx, SameSet.refl _⟩, ⟨y, hy, SameSet.refl _⟩, hs⟩
  · rintro ⟨a, b, ⟨x, hx, hxa⟩, ⟨y, hy, hyb⟩, hs⟩
    refine ⟨x ++ y, ?_, (SameSet.append hxa hyb).trans hs⟩
    simp only [prodD, List.mem_flatMap, List.mem_map]
    exact ⟨x, hx, y, hy, rfl⟩

theorem Der_prodD_nil (Y : List Name) : Der (prodD []) Y ↔ SameSet [] Y := by
  simp only [prodD, Der, List.mem_singleton]
  constructor
  · rintro ⟨Z, rfl, h⟩; exact h
  · intro h; exact ⟨[], rfl, h⟩

theorem PAnd_empty_right {P : List Name → Prop} (hP : SetPred P) (Y : List Name) :
    PAnd P (fun Z => SameSet [] Z) Y ↔ P Y := by
  constructor
  · rintro ⟨a, b, ha, hb, hs⟩
    refine (hP a Y ?_).mp ha
    intro x; rw [← hs x]; simp only [List.mem_append]
    have := hb x; simp at this
    constructor
    · exact Or.inl
    · rintro (h | h)
      · exact h
      · exact absurd h this
  · intro h; exact ⟨Y, [], h, SameSet.refl _, by intro x; simp⟩

theorem PAnd_empty_left {P : List Name → Prop} (hP : SetPred P) (Y : List Name) :
    PAnd (fun Z => SameSet [] Z) P Y ↔ P Y := by
  constructor
  · rintro ⟨a, b, ha, hb, hs⟩
    refine (hP b Y ?_).mp hb
    intro x; rw [← hs x]; simp only [List.mem_append]
    have := ha x; simp at this
    constructor
    · exact Or.inr
    · rintro (h | h)
      · exact absurd h this
      · exact h
  · intro h; exact ⟨[], Y, SameSet.refl _, h, by intro x; simp⟩

theorem Der_prodD_single (d : List (List Name)) (Y : List Name) : Der (prodD [d]) Y ↔ Der d Y := by
  rw [Der_prodD_cons]
  rw [PAnd.congr (fun _ => Iff.rfl) (fun Z => Der_prodD_nil Z)]
  exact PAnd_empty_right (Der.setPred d) Y

theorem Der_prodD_append (ds es : List (List (List Name))) (Y : List Name) :
    Der (prodD (ds ++ es)) Y ↔ PAnd (Der (prodD ds)) (Der (prodD es)) Y := by
  induction ds generalizing Y with
  | nil =>
    rw [List.nil_append, PAnd.congr (fun Z => Der_prodD_nil Z) (fun _ => Iff.rfl)]
    exact (PAnd_empty_left (Der.setPred _) Y).symm
  | cons d ds ih =>
    rw [List.cons_append, Der_prodD_cons, PAnd.congr (fun _ => Iff.rfl) ih, PAnd.assoc,
      PAnd.congr (fun Z => (Der_prodD_cons d ds Z).symm) (fun _ => Iff.rfl)]

theorem Der_selD_nil (Y : List Name) : Der (selD []) Y ↔ False := Der_nil Y

theorem Der_selD_cons (d : List (List Name)) (ds : List (List (List Name))) (Y : List Name) :
    Der (selD (d :: ds)) Y ↔ PSel (Der d) (Der (selD ds)) Y := by
  unfold PSel
  simp only [selD]
  rw [Der_append, Der_append]
  have h3 : Der (d.flatMap fun x => (selD ds).map fun y => x ++ y) Y ↔ PAnd (Der d) (Der (selD ds)) Y := by
    constructor
    · rintro ⟨Z, hz, hs⟩
      simp only [List.mem_flatMap, List.mem_map] at hz
      obtain ⟨x, hx, y, hy, rfl⟩ := hz
      exact ⟨x, y, ⟨x, hx, SameSet.refl _⟩, ⟨y, hy, SameSet.refl _⟩, hs⟩
    · rintro ⟨a, b, ⟨x, hx, hxa⟩, ⟨y, hy, hyb⟩, hs⟩
      refine ⟨x ++ y, ?_, (SameSet.append hxa hyb).trans hs⟩
      simp only [List.mem_flatMap, List.mem_map]
      exact ⟨x, hx, y, hy, rfl⟩
  rw [h3]
  constructor
  · rintro ((h | h) | h)
    · exact Or.inr (Or.inl h)
    · exact Or.inl h
    · exact Or.inr (Or.inr h)
  · rintro (h | h | h)
    · exact Or.inl (Or.inr h)
    · exact Or.inl (Or.inl h)
    · exact Or.inr h

theorem PAnd_false_right {P : List Name → Prop} (Y : List Name) : PAnd P (fun _ => False) Y ↔ False := by
  constructor
  · rintro ⟨_, _, _, h, _⟩; exact h
  · exact False.elim

theorem PAnd_false_left {P : List Name → Prop} (Y : List Name) : PAnd (fun _ => False) P Y ↔ False := by
  constructor
  · rintro ⟨_, _, h, _, _⟩; exact h
  · exact False.elim

theorem Der_selD_single (d : List (List Name)) (Y : List Name) : Der (selD [d]) Y ↔ Der d Y := by
  rw [Der_selD_cons]; unfold PSel
  rw [PAnd.congr (fun _ => Iff.rfl) (fun Z => Der_selD_nil Z), PAnd_false_right, Der_selD_nil]
  simp

theorem Der_selD_append (ds es : List (List (List Name))) (Y : List Name) :
    Der (selD (ds ++ es)) Y ↔ PSel (Der (selD ds)) (Der (selD es)) Y := by
  induction ds generalizing Y with
  | nil =>
    rw [List.nil_append]; unfold PSel
    rw [PAnd.congr (fun Z => Der_selD_nil Z) (fun _ => Iff.rfl), PAnd_false_left, Der_selD_nil]
    simp
  | cons d ds ih =>
    rw [List.cons_append, Der_selD_cons, PSel.congr (fun _ => Iff.rfl) ih]
    -- P ∨ (A ∨ B ∨ A·B) ∨ P·(A ∨ B ∨ A·B)  ↔  (P ∨ A ∨ P·A) ∨ B ∨ (P ∨ A ∨ P·A)·B
    unfold PSel
    rw [PAnd.congr (Q := Der (selD es)) (fun Z => (Der_selD_cons d ds Z)) (fun _ => Iff.rfl)]
    have e1 : PAnd (Der d) (fun Y => Der (selD ds) Y ∨ Der (selD es) Y ∨ PAnd (Der (selD ds)) (Der (selD es)) Y) Y ↔
        PAnd (Der d) (Der (selD ds)) Y ∨ PAnd (Der d) (Der (selD es)) Y ∨
          PAnd (PAnd (Der d) (Der (selD ds))) (Der (selD es)) Y := by
      rw [PAnd.or_right, PAnd.or_right, PAnd.assoc]
    have e2 : PAnd (fun Y => PSel (Der d) (Der (selD ds)) Y) (Der (selD es)) Y ↔
        PAnd (Der d) (Der (selD es)) Y ∨ PAnd (Der (selD ds)) (Der (selD es)) Y ∨
          PAnd (PAnd (Der d) (Der (selD ds))) (Der (selD es)) Y := by
      unfold PSel
      rw [PAnd.or_left, PAnd.or_left]
    rw [Der_selD_cons]
    unfold PSel at e2 ⊢
    rw [e1, e2]
    constructor
    · rintro (h | (h | h | h) | h | h | h)
      · exact Or.inl (Or.inl h)
      · exact Or.inl (Or.inr (Or.inl h))
      · exact Or.inr (Or.inl h)
      · exact Or.inr (Or.inr (Or.inr (Or.inl h)))
      · exact Or.inl (Or.inr (Or.inr h))
      · exact Or.inr (Or.inr (Or.inl h))
      · exact Or.inr (Or.inr (Or.inr (Or.inr h)))
    · rintro ((h | h | h) | h | h | h | h)
      · exact Or.inl h
      · exact Or.inr (Or.inl (Or.inl h))
      · exact Or.inr (Or.inr (Or.inl h))
      · exact Or.inr (Or.inl (Or.inr (Or.inl h)))
      · exact Or.inr (Or.inr (Or.inr (Or.inl h)))
      · exact Or.inr (Or.inl (Or.inr (Or.inr h)))
      · exact Or.inr (Or.inr (Or.inr (Or.inr h)))


-- ------------------------------------------------------------------ meaning of an expression
mutual
  def Sem (T : Name → Option Tree) : Expr → List Name → Prop
    | .ent n, Y => ∃ t, T n = some t ∧ Der (denote t) Y
    | .and a b, Y => PAnd (Sem T a) (Sem T b) Y
    | .andor a b, Y => PSel (Sem T a) (Sem T b) Y
    | .oneof es, Y => SemL T es Y
  def SemL (T : Name → Option Tree) : List Expr → List Name → Prop
    | [], _ => False
    | e :: es, Y => Sem T e Y ∨ SemL T es Y
end

/-- what a list of children contributes to a parent list of kind `p` -/
def CtxDer (p : Parent) (ds : List (List (List Name))) (Y : List Name) : Prop :=
  match p with
  | .superHead => Der (prodD ds) Y
  | .andL => Der (prodD ds) Y
  | .andorL => Der (selD ds) Y
  | .orL => Der ds.flatten Y

theorem CtxDer_single (p : Parent) (d : List (List Name)) (Y : List Name) : CtxDer p [d] Y ↔ Der d Y := by
  cases p
  · exact Der_prodD_single d Y
  · exact Der_prodD_single d Y
  · exact Der_selD_single d Y
  · simp [CtxDer]

theorem denoteL_append' (as bs : List Tree) : denoteL (as ++ bs) = denoteL as ++ denoteL bs := by
  induction as with
  | nil => simp [denoteL]
  | cons a as ih => simp [denoteL, ih]

mutual
  /-- **The tree construction is right, expression by expression**: for every nesting of ONEOF/AND/ANDOR and every kind
  of parent (so with and without the same-operator flattening), the children built for `x` contribute `Sem T x`. -/
  theorem expr_meaning (T : Name → Option Tree) : ∀ (x : Expr) (p : Parent) (ts : List Tree),
      exprKids T p x = some ts → ∀ Y, CtxDer p (denoteL ts) Y ↔ Sem T x Y
    | .ent n, p, ts, h, Y => by
      simp only [exprKids, Option.map_eq_some_iff] at h
      obtain ⟨t, ht, rfl⟩ := h
      simp only [denoteL, Sem]
      rw [CtxDer_single]
      constructor
      · intro hd; exact ⟨t, ht, hd⟩
      · rintro ⟨t', ht', hd⟩; rw [ht] at ht'; cases ht'; exact hd
    | .and a b, p, ts, h, Y => by
      simp only [exprKids] at h
      cases ha : exprKids T .andL a with
      | none => rw [ha] at h; simp at h
      | some l =>
        cases hb : exprKids T .andL b with
        | none => rw [ha, hb] at h; simp at h
        | some r =>
          rw [ha, hb] at h
          have iha := expr_meaning T a .andL l ha
          have ihb := expr_meaning T b .andL r hb
          have key : ∀ Z, Der (prodD (denoteL (l ++ r))) Z ↔ Sem T (.and a b) Z := by
            intro Z
            rw [denoteL_append', Der_prodD_append]
            simp only [Sem]
            exact PAnd.congr iha ihb Z
          simp only at h
          split at h
          · rename_i hp; cases h; subst hp; exact key Y
          · cases h
            simp only [denoteL, denote]
            rw [CtxDer_single]; exact key Y
    | .andor a b, p, ts, h, Y => by
      simp only [exprKids] at h
      cases ha : exprKids T .andorL a with
      | none => rw [ha] at h; simp at h
      | some l =>
        cases hb : exprKids T .andorL b with
        | none => rw [ha, hb] at h; simp at h
        | some r =>
          rw [ha, hb] at h
          have iha := expr_meaning T a .andorL l ha
          have ihb := expr_meaning T b .andorL r hb
          have key : ∀ Z, Der (selD (denoteL (l ++ r))) Z ↔ Sem T (.andor a b) Z := by
            intro Z
            rw [denoteL_append', Der_selD_append]
            simp only [Sem]
            exact PSel.congr iha ihb Z
          simp only at h
          split at h
          · rename_i hp; cases h; subst hp; exact key Y
          · cases h
            simp only [denoteL, denote]
            rw [CtxDer_single]; exact key Y
    | .oneof es, p, ts, h, Y => by
      simp only [exprKids, Option.map_eq_some_iff] at h
      obtain ⟨cs, hcs, rfl⟩ := h
      simp only [denoteL, denote, Sem]
      rw [CtxDer_single]
      exact exprL_meaning T es cs hcs Y
  theorem exprL_meaning (T : Name → Option Tree) : ∀ (es : List Expr) (ts : List Tree),
      exprKidsL T es = some ts → ∀ Y, Der (denoteL ts).flatten Y ↔ SemL T es Y
    | [], ts, h, Y => by
      simp only [exprKidsL] at h; cases h
      simp only [denoteL, List.flatten_nil, SemL]
      exact Der_nil Y
    | x :: xs, ts, h, Y => by
      simp only [exprKidsL] at h
      cases hx : exprKids T .orL x with
      | none => rw [hx] at h; simp at h
      | some l =>
        cases hxs : exprKidsL T xs with
        | none => rw [hx, hxs] at h; simp at h
        | some r =>
          rw [hx, hxs] at h; cases h
          rw [denoteL_append', List.flatten_append, Der_append]
          simp only [SemL]
          rw [← exprL_meaning T xs r hxs Y]
          have := expr_meaning T x .orL l hx Y
          simp only [CtxDer] at this
          rw [this]
end

-- ------------------------------------------------------------------ expression meaning = admitted subtype set + one derivation each
/-- one derivation `Z` of the tree of every entity in `S`, in order -/
inductive Fam (T : Name → Option Tree) : List Name → List (List Name) → Prop
  | nil : Fam T [] []
  | cons {m : Name} {S : List Name} {Z : List Name} {Zs : List (List Name)} {t : Tree} :
      T m = some t → Der (denote t) Z → Fam T S Zs → Fam T (m :: S) (Z :: Zs)

theorem Fam.append {T : Name → Option Tree} {S S' : List Name} {Zs Zs' : List (List Name)}
    (h : Fam T S Zs) (h' : Fam T S' Zs') : Fam T (S ++ S') (Zs ++ Zs') := by
  induction h with
  | nil => simpa using h'
  | cons ht hd _ ih => exact Fam.cons ht hd ih

theorem Fam.split {T : Name → Option Tree} : ∀ {S S' : List Name} {Zs : List (List Name)}, Fam T (S ++ S') Zs →
    ∃ Z1 Z2, Zs = Z1 ++ Z2 ∧ Fam T S Z1 ∧ Fam T S' Z2
  | [], S', Zs, h => ⟨[], Zs, rfl, Fam.nil, h⟩
  | m :: S, S', _, Fam.cons ht hd hr => by
    obtain ⟨Z1, Z2, rfl, h1, h2⟩ := Fam.split hr
    exact ⟨_ :: Z1, Z2, rfl, Fam.cons ht hd h1, h2⟩

/-- `S` is admitted and `Y` is the union of one derivation of each member's tree -/
def AdmFam (T : Name → Option Tree) (A : List (List Name)) (Y : List Name) : Prop :=
  ∃ S ∈ A, ∃ Zs, Fam T S Zs ∧ SameSet Zs.flatten Y

theorem AdmFam_append (T : Name → Option Tree) (A B : List (List Name)) (Y : List Name) :
    AdmFam T (A ++ B) Y ↔ AdmFam T A Y ∨ AdmFam T B Y := by
  constructor
  · rintro ⟨S, hS, r⟩
    rcases List.mem_append.mp hS with h | h
    · exact Or.inl ⟨S, h, r⟩
    · exact Or.inr ⟨S, h, r⟩
  · rintro (⟨S, hS, r⟩ | ⟨S, hS, r⟩)
    · exact ⟨S, List.mem_append.mpr (Or.inl hS), r⟩
    · exact ⟨S, List.mem_append.mpr (Or.inr hS), r⟩

theorem AdmFam_pair (T : Name → Option Tree) (A B : List (List Name)) (Y : List Name) :
    AdmFam T (A.flatMap fun x => B.map fun y => x ++ y) Y ↔ PAnd (AdmFam T A) (AdmFam T B) Y := by
  constructor
  · rintro ⟨S, hS, Zs, hf, hs⟩
    simp only [List.mem_flatMap, List.mem_map] at hS
    obtain ⟨x, hx, y, hy, rfl⟩ := hS
    obtain ⟨Z1, Z2, rfl, h1, h2⟩ := Fam.split hf
    exact ⟨Z1.flatten, Z2.flatten, ⟨x, hx, Z1, h1, SameSet.refl _⟩, ⟨y, hy, Z2, h2, SameSet.refl _⟩,
      by simpa using hs⟩
  · rintro ⟨Y1, Y2, ⟨x, hx, Z1, h1, hs1⟩, ⟨y, hy, Z2, h2, hs2⟩, hs⟩
    refine ⟨x ++ y, ?_, Z1 ++ Z2, h1.append h2, ?_⟩
    · simp only [List.mem_flatMap, List.mem_map]; exact ⟨x, hx, y, hy, rfl⟩
    · rw [List.flatten_append]; exact (SameSet.append hs1 hs2).trans hs

theorem flatMap_nil_fn {α β : Type} (l : List α) : l.flatMap (fun _ => ([] : List β)) = [] := by
  induction l with
  | nil => rfl
  | cons a as ih => simp [List.flatMap_cons, ih]

theorem selD_single (d : List (List Name)) : selD [d] = d := by
  simp [selD, flatMap_nil_fn]

mutual
  /-- `Sem T x` = a set of direct subtypes that `x` admits (the rule of `Spec.Legal`), one derivation for each -/
  theorem sem_admits (T : Name → Option Tree) : ∀ (x : Expr) (Y : List Name), Sem T x Y ↔ AdmFam T x.admits Y
    | .ent n, Y => by
      simp only [Sem, Expr.admits, AdmFam, List.mem_singleton]
      constructor
      · rintro ⟨t, ht, hd⟩
        exact ⟨[n], rfl, [Y], Fam.cons ht hd Fam.nil, by simpa using SameSet.refl Y⟩
      · rintro ⟨S, rfl, Zs, hf, hs⟩
        cases hf with
        | cons ht hd hr =>
          cases hr
          exact ⟨_, ht, (Der.congr (by simpa using hs)).mp hd⟩
    | .and a b, Y => by
      simp only [Sem, Expr.admits, prodD]
      rw [PAnd.congr (sem_admits T a) (sem_admits T b)]
      rw [← AdmFam_pair]
      simp
    | .andor a b, Y => by
      simp only [Sem, Expr.admits]
      have e : selD [a.admits, b.admits] = b.admits ++ a.admits ++ a.admits.flatMap (fun x => b.admits.map fun y => x ++ y) := by
        show selD [b.admits] ++ a.admits ++ a.admits.flatMap (fun x => (selD [b.admits]).map fun y => x ++ y) = _
        rw [selD_single]
      rw [e]
      unfold PSel
      rw [sem_admits T a Y, sem_admits T b Y, PAnd.congr (sem_admits T a) (sem_admits T b)]
      rw [AdmFam_append, AdmFam_append, ← AdmFam_pair]
      constructor
      · rintro (h | h | h)
        · exact Or.inl (Or.inr h)
        · exact Or.inl (Or.inl h)
        · exact Or.inr h
      · rintro ((h | h) | h)
        · exact Or.inr (Or.inl h)
        · exact Or.inl h
        · exact Or.inr (Or.inr h)
    | .oneof es, Y => by
      simp only [Sem, Expr.admits]
      exact semL_admits T es Y
  theorem semL_admits (T : Name → Option Tree) : ∀ (es : List Expr) (Y : List Name),
      SemL T es Y ↔ AdmFam T (Expr.admitsL es).flatten Y
    | [], Y => by
      simp only [SemL, Expr.admitsL, List.flatten_nil, AdmFam]
      constructor
      · exact False.elim
      · rintro ⟨S, hS, _⟩; cases hS
    | x :: xs, Y => by
      simp only [SemL, Expr.admitsL, List.flatten_cons]
      rw [AdmFam_append, sem_admits T x Y, semL_admits T xs Y]
end

end StepModel.Complex

import StepModel.SelectCanBe
/-! `CanBe` is the reflexive-transitive closure of select membership (followed by "is a subtype of a member entity"). -/
namespace StepModel.GenCxx
open StepModel.Generated

namespace Spec

/-- select `t` can hold entity `e`: `e` is (a subtype of) a member entity of `t`, or of a member select of `t`, at any depth -/
inductive CanHold (s : Schema) : String → String → Prop
  | entity {t : String} {ms : List TRef} {m e : String} : selectMembers s t = some ms → TRef.entity m ∈ ms →
      isSelfOrSuper s (fuelOf s) e m = true → CanHold s t e
  | select {t : String} {ms : List TRef} {n e : String} : selectMembers s t = some ms → TRef.named n ∈ ms →
      CanHold s n e → CanHold s t e

/-- selects are not members of themselves, directly or through other selects: `srank` decreases towards the members -/
structure SelRank (s : Schema) (srank : String → Nat) : Prop where
  member : ∀ t ms n, selectMembers s t = some ms → TRef.named n ∈ ms → (selectMembers s n).isSome = true → srank n < srank t
  bound : ∀ t, (selectMembers s t).isSome = true → srank t < selectFuel s

end Spec
open Spec

theorem canBeTd_succ (s : Schema) (f : Nat) (t e : String) :
    canBeTd s (f + 1) t e = match selectMembers s t with
      | some ms => ms.any (fun m => match m with
          | .entity m' => isSelfOrSuper s (fuelOf s) e m'
          | .named n => selectCanBeRecurses && canBeTd s f n e
          | _ => false)
      | none => false := rfl

theorem canHold_isSome {s : Schema} {t e : String} (h : CanHold s t e) : (selectMembers s t).isSome = true := by
  cases h with
  | entity h1 _ _ => rw [h1]; rfl
  | select h1 _ _ => rw [h1]; rfl

/-- what the query answers is in the closure (any fuel) -/
theorem canBeTd_sound (s : Schema) : ∀ (f : Nat) (t e : String), canBeTd s f t e = true → CanHold s t e := by
  intro f
  induction f with
  | zero => intro t e h; simp [canBeTd] at h
  | succ f ih =>
    intro t e h
    rw [canBeTd_succ] at h
    cases hm : selectMembers s t with
    | none => simp [hm] at h
    | some ms =>
      simp only [hm] at h
      obtain ⟨m, hmem, hp⟩ := List.any_eq_true.1 h
      cases m with
      | entity m' => exact .entity hm hmem hp
      | named n =>
        simp only [Bool.and_eq_true] at hp
        exact .select hm hmem (ih n e hp.2)
      | base b => simp at hp
      | aggr k b u o el => simp at hp

/-- the closure is what the query answers, given enough iterations for the nesting depth — because every element is asked -/
theorem canBeTd_complete {s : Schema} {srank : String → Nat} (sr : SelRank s srank) (hrec : selectCanBeRecurses = true)
    {t e : String} (h : CanHold s t e) : ∀ f, srank t < f → canBeTd s f t e = true := by
  induction h with
  | @entity t ms m e hm hmem hisa =>
    intro f hf
    cases f with
    | zero => omega
    | succ f =>
      rw [canBeTd_succ, hm]
      exact List.any_eq_true.2 ⟨_, hmem, hisa⟩
  | @select t ms n e hm hmem hn ih =>
    intro f hf
    cases f with
    | zero => omega
    | succ f =>
      rw [canBeTd_succ, hm]
      refine List.any_eq_true.2 ⟨_, hmem, ?_⟩
      have hr := sr.member t ms n hm hmem (canHold_isSome hn)
      simp only [hrec, Bool.true_and]
      exact ih f (by omega)

end StepModel.GenCxx

import StepModel.GenCxxAgree
import StepModel.GenCxxDedup
/-! Closed form of the `MakeDerived` call list for the search `populateAttrList` really does — by name AND creator
(`creatorOK`, with the redeclaration chain followed) — for every schema, without any hypothesis on attribute names or
redeclarations. -/
namespace StepModel.GenCxx
open StepModel.Generated

/-- the test that finds the inherited entry an own attribute repeats -/
def pOf (s : Schema) (a : Attr) : OA → Bool := fun o => o.name == a.name && creatorOK s a o.creator

/-- one own attribute, on the list built so far (context-free: the offsets of `populateAttrList` cut the list at the entity's
    own part) -/
def popStepP (s : Schema) (acc : List OA) (p : String × Attr) : List OA :=
  match markFirstP (pOf s p.2) acc with
  | some acc' => if marksDerived p.2 then acc' else acc
  | none => acc ++ [newOA p]

/-- the `orderedAttr` list `populateAttrList` builds for `n` on its own, with the creator-aware search -/
def segP (s : Schema) : Nat → String → List OA
  | 0, _ => []
  | f + 1, n =>
    match s.findE n with
    | none => []
    | some e => (e.attrs.map (fun a => (n, a))).foldl (popStepP s) (e.supers.flatMap (segP s f))

theorem segP_succ (s : Schema) (f : Nat) (n : String) :
    segP s (f + 1) n = match s.findE n with
      | none => []
      | some e => (e.attrs.map (fun a => (n, a))).foldl (popStepP s) (e.supers.flatMap (segP s f)) := rfl

theorem ownP_fold_ctx (s : Schema) (n : String) (l : List OA) (attrs : List Attr) : ∀ (x : List OA),
    attrs.foldl (fun acc a =>
        match markFromP l.length (fun o => o.name == a.name && creatorOK s a o.creator) acc with
        | some acc' => if marksDerived a then acc' else acc
        | none => acc ++ [{ name := a.name, creator := n, deriver := a.kind == AKind.derived }]) (l ++ x) =
      l ++ (attrs.map (fun a => (n, a))).foldl (popStepP s) x := by
  induction attrs with
  | nil => intro x; rfl
  | cons a as ih =>
    intro x
    simp only [List.foldl_cons, List.map_cons]
    rw [markFromP_ctx]
    unfold popStepP pOf
    cases hm : markFirstP (fun o => o.name == a.name && creatorOK s a o.creator) x with
    | none =>
      simp only [Option.map_none]
      rw [List.append_assoc]
      exact ih _
    | some x' =>
      simp only [Option.map_some]
      by_cases hk : marksDerived a = true
      · simp only [hk, ↓reduceIte]; exact ih _
      · simp only [hk]; exact ih _

/-- the creator-aware `populateAttrList` is context-free: for every schema, fuel, entity and list built before -/
theorem populateP_eq (s : Schema) (f : Nat) : ∀ n l, populate s f n l = l ++ segP s f n := by
  induction f with
  | zero => intro n l; simp [populate, segP]
  | succ f ih =>
    intro n l
    rw [populate_succ, segP_succ]
    cases s.findE n with
    | none => simp
    | some e =>
      simp only
      have hsup : ∀ (L : List String) (acc : List OA),
          L.foldl (fun acc sup => populate s f sup acc) acc = acc ++ L.flatMap (segP s f) := by
        intro L
        induction L with
        | nil => intro acc; simp
        | cons q qs ihq => intro acc; simp only [List.foldl_cons, List.flatMap_cons]; rw [ih, ihq, List.append_assoc]
      rw [hsup]
      exact ownP_fold_ctx s n l e.attrs _

/-! ## what one own attribute does, seen through the creators of a name and one (name, creator) pair -/

/-- creators of the entries named `x`, in list order -/
def crs (x : String) (l : List OA) : List String := (l.filter (fun o => o.name == x)).map (·.creator)

/-- is `(x, cr)` marked -/
def dk (x cr : String) (l : List OA) : Bool := l.any (fun o => o.name == x && o.creator == cr && o.deriver)

theorem dk_iff (x cr : String) (l : List OA) : dk x cr l = true ↔ (x, cr) ∈ dkeys l := by
  unfold dk
  rw [mem_dkeys, List.any_eq_true]
  constructor
  · rintro ⟨o, ho, h⟩
    simp only [Bool.and_eq_true, beq_iff_eq] at h
    exact ⟨o, ho, by simp [keyOA, h.1.1, h.1.2], h.2⟩
  · rintro ⟨o, ho, hk, hd⟩
    simp only [keyOA, Prod.mk.injEq] at hk
    exact ⟨o, ho, by simp [hk.1, hk.2, hd]⟩

theorem crs_append (x : String) (a b : List OA) : crs x (a ++ b) = crs x a ++ crs x b := by simp [crs]
theorem dk_append (x cr : String) (a b : List OA) : dk x cr (a ++ b) = (dk x cr a || dk x cr b) := by simp [dk]

/-- the key-level effect of one own attribute `a` of entity `n` -/
def stepK (s : Schema) (n x cr : String) (σ : List String × Bool) (a : Attr) : List String × Bool :=
  if a.name == x then
    (match σ.1.find? (creatorOK s a) with
     | some c => (σ.1, σ.2 || (marksDerived a && c == cr))
     | none => (σ.1 ++ [n], σ.2 || (a.kind == AKind.derived && n == cr)))
  else σ

theorem markFirstP_split {p : OA → Bool} : ∀ {l l' : List OA}, markFirstP p l = some l' →
    ∃ pre y post, l = pre ++ y :: post ∧ l' = pre ++ { y with deriver := true } :: post ∧ p y = true ∧ ∀ o ∈ pre, p o = false
  | [], _, h => by simp [markFirstP] at h
  | z :: zs, l', h => by
    simp only [markFirstP] at h
    by_cases hz : p z = true
    · simp only [hz, if_true, Option.some.injEq] at h
      exact ⟨[], z, zs, rfl, h.symm, hz, by simp⟩
    · simp only [hz, Bool.false_eq_true, if_false] at h
      cases hm : markFirstP p zs with
      | none => simp [hm] at h
      | some r =>
        simp only [hm, Option.map_some, Option.some.injEq] at h
        obtain ⟨pre, y, post, e1, e2, hy, hp⟩ := markFirstP_split hm
        refine ⟨z :: pre, y, post, by rw [e1]; rfl, by rw [← h, e2]; rfl, hy, ?_⟩
        intro o ho
        rcases List.mem_cons.1 ho with rfl | ho
        · simpa using hz
        · exact hp o ho

theorem markFirstP_none {p : OA → Bool} : ∀ {l : List OA}, markFirstP p l = none → ∀ o ∈ l, p o = false
  | [], _, o, ho => by simp at ho
  | z :: zs, h, o, ho => by
    simp only [markFirstP] at h
    by_cases hz : p z = true
    · simp [hz] at h
    · simp only [hz, Bool.false_eq_true, if_false, Option.map_eq_none_iff] at h
      rcases List.mem_cons.1 ho with rfl | ho
      · simpa using hz
      · exact markFirstP_none h o ho

/-- `find?` over the creators of the entries named `x` = creator of the first entry that passes the test -/
theorem find_crs_none (s : Schema) (a : Attr) (l : List OA) (h : ∀ o ∈ l, pOf s a o = false) :
    (crs a.name l).find? (creatorOK s a) = none := by
  rw [List.find?_eq_none]
  intro c hc
  unfold crs at hc
  obtain ⟨o, ho, rfl⟩ := List.mem_map.1 hc
  have ho' := List.mem_filter.1 ho
  have := h o ho'.1
  unfold pOf at this
  simp only [ho'.2, Bool.true_and] at this
  simp [this]

theorem find_crs_split (s : Schema) (a : Attr) (pre : List OA) (y : OA) (post : List OA) (hy : pOf s a y = true)
    (hp : ∀ o ∈ pre, pOf s a o = false) : (crs a.name (pre ++ y :: post)).find? (creatorOK s a) = some y.creator := by
  have hyn : (y.name == a.name) = true ∧ creatorOK s a y.creator = true := by
    unfold pOf at hy; simpa using hy
  rw [crs_append, List.find?_append, find_crs_none s a pre hp]
  simp only [Option.none_or]
  unfold crs
  rw [List.filter_cons]
  simp only [hyn.1, if_true, List.map_cons, List.find?_cons, hyn.2]

theorem crs_mark (x : String) (pre : List OA) (y : OA) (post : List OA) :
    crs x (pre ++ { y with deriver := true } :: post) = crs x (pre ++ y :: post) := by
  simp [crs, List.filter_cons]
  split <;> rfl

theorem dk_mark (x cr : String) (pre : List OA) (y : OA) (post : List OA) :
    dk x cr (pre ++ { y with deriver := true } :: post) = (dk x cr (pre ++ y :: post) || (y.name == x && y.creator == cr)) := by
  simp only [dk, List.any_append, List.any_cons]
  cases dk1 : pre.any (fun o => o.name == x && o.creator == cr && o.deriver) <;>
  cases h1 : (y.name == x) <;> cases h2 : (y.creator == cr) <;> cases h3 : y.deriver <;>
  cases dk2 : post.any (fun o => o.name == x && o.creator == cr && o.deriver) <;> simp

/-- one step, at key level -/
theorem popStepP_key (s : Schema) (n x cr : String) (acc : List OA) (a : Attr) :
    (crs x (popStepP s acc (n, a)), dk x cr (popStepP s acc (n, a))) = stepK s n x cr (crs x acc, dk x cr acc) a := by
  unfold popStepP stepK
  simp only
  cases hm : markFirstP (pOf s a) acc with
  | none =>
    have hall := markFirstP_none hm
    by_cases hx : (a.name == x) = true
    · have hax : a.name = x := by simpa using hx
      subst hax
      simp only [hx, if_true, find_crs_none s a acc hall]
      rw [crs_append, dk_append]
      simp [crs, dk, newOA, Bool.and_comm]
    · simp only [hx]
      rw [crs_append, dk_append]
      have hx' : (a.name == x) = false := by simpa using hx
      simp [crs, dk, newOA, hx']
  | some acc' =>
    obtain ⟨pre, y, post, e1, e2, hy, hp⟩ := markFirstP_split hm
    have hyn : (y.name == a.name) = true ∧ creatorOK s a y.creator = true := by
      unfold pOf at hy; simpa using hy
    by_cases hx : (a.name == x) = true
    · have hax : a.name = x := by simpa using hx
      subst hax
      simp only [hx, if_true]
      rw [e1, find_crs_split s a pre y post hy hp]
      simp only
      by_cases hk : marksDerived a = true
      · simp only [hk, if_true, Bool.true_and]
        rw [e2, crs_mark, dk_mark, hyn.1, Bool.true_and]
      · have hk' : marksDerived a = false := by simpa using hk
        simp [hk']
    · have hx' : (a.name == x) = false := by simpa using hx
      simp only [hx', Bool.false_eq_true, if_false]
      by_cases hk : marksDerived a = true
      · simp only [hk, if_true]
        rw [e2, e1, crs_mark, dk_mark]
        have : (y.name == x) = false := by
          have h1 : y.name = a.name := by simpa using hyn.1
          rw [h1]; exact hx'
        simp [this]
      · have hk' : marksDerived a = false := by simpa using hk
        simp [hk']

/-! ## the closed form -/

/-- creators of the entries named `x` in the list of `n`, and whether `(x, cr)` is marked there: by recursion over the supertype
    lists — the supertypes' creators in SUBTYPE OF order, their marks, then the own attributes named `x`, each of which finds the
    first creator its redeclaration may mean (`creatorOK`) and marks it, or creates the attribute -/
def infoP (s : Schema) (x cr : String) : Nat → String → List String × Bool
  | 0, _ => ([], false)
  | f + 1, n =>
    match s.findE n with
    | none => ([], false)
    | some e => e.attrs.foldl (stepK s n x cr)
        (e.supers.flatMap (fun q => (infoP s x cr f q).1), e.supers.any (fun q => (infoP s x cr f q).2))

theorem crs_flatMap (x : String) (L : List String) (g : String → List OA) : crs x (L.flatMap g) = L.flatMap (fun q => crs x (g q)) := by
  induction L with
  | nil => rfl
  | cons q qs ih => rw [List.flatMap_cons, crs_append, ih, List.flatMap_cons]

theorem dk_flatMap (x cr : String) (L : List String) (g : String → List OA) : dk x cr (L.flatMap g) = L.any (fun q => dk x cr (g q)) := by
  induction L with
  | nil => rfl
  | cons q qs ih => rw [List.flatMap_cons, dk_append, ih, List.any_cons]

theorem segP_info (s : Schema) (x cr : String) : ∀ (f : Nat) (n : String),
    (crs x (segP s f n), dk x cr (segP s f n)) = infoP s x cr f n := by
  intro f
  induction f with
  | zero => intro n; rfl
  | succ f ih =>
    intro n
    rw [segP_succ]
    unfold infoP
    cases s.findE n with
    | none => rfl
    | some e =>
      simp only
      have hown : ∀ (attrs : List Attr) (acc : List OA),
          (crs x ((attrs.map (fun a => (n, a))).foldl (popStepP s) acc), dk x cr ((attrs.map (fun a => (n, a))).foldl (popStepP s) acc)) =
            attrs.foldl (stepK s n x cr) (crs x acc, dk x cr acc) := by
        intro attrs
        induction attrs with
        | nil => intro acc; rfl
        | cons a as iha =>
          intro acc
          simp only [List.map_cons, List.foldl_cons]
          rw [iha, popStepP_key]
      rw [hown, crs_flatMap, dk_flatMap]
      congr 1
      · congr 1
        · congr 1
          funext q
          exact congrArg Prod.fst (ih q)
        · congr 1
          funext q
          exact congrArg Prod.snd (ih q)

/-- `MakeDerived( x, cr )` is among the calls of `n` iff … -/
def derivedInP (s : Schema) (f : Nat) (n x cr : String) : Bool := (infoP s x cr f n).2

/-- **closed form of the call list for the search the generator really does**: every schema, no hypothesis -/
theorem derivedCalls_closedP (hm : dedupMergesDeriver = true) (s : Schema) (n x cr : String) :
    (x, cr) ∈ derivedCalls s n ↔ derivedInP s (fuelOf s) n x cr = true := by
  have h0 : derivedCalls s n = dkeys (dedupOAM dedupMergesDeriver [] (populate s (fuelOf s) n [])) := rfl
  rw [h0, hm, dkeys_dedup_merge, populateP_eq, List.nil_append]
  have h1 : (x, cr) ∈ dkeys ([] : List OA) ↔ False := by simp [dkeys]
  rw [h1, false_or, ← mem_dkeys, ← dk_iff]
  unfold derivedInP
  rw [← segP_info s x cr (fuelOf s) n]

end StepModel.GenCxx

import StepModel.GenCxxPassLink
/-!
# When the deferral lets a schema be split (lemmas about `GenCxxPass.lean` with `defer := true`, fix C17-5)

* `first_split_needs_no_progress`: a schema nothing of which has been printed yet is printed with a suffix > 0 only when `progress`
  is false at that visit;
* `visit_tracks`, `fold_tracks`, `round_progress`: `progress` at the end of a round is true exactly when the round printed
  something, and no visit changes it in between.
Together: a first split happens only in a round that follows a round without any `SCHEMAprint` call.
-/
namespace StepModel.GenFiles.Pass
open StepModel.Generated.CxxPass

theorem append_singleton_ne {α : Type} (l : List α) (a : α) : l ≠ l ++ [a] := by
  intro h
  have := congrArg List.length h
  simp at this

/-- with the deferral, a schema nothing of which has been printed yet is split (printed with a suffix > 0) only in a round that
    follows a round in which nothing was printed -/
theorem first_split_needs_no_progress (l : SweepLoop) (lc : EnumLastCase) (fs : FileSt) (p : PSchema) (k : Nat) (hk : 0 < k)
    (hc : fs.counter p.name = 0)
    (hp : (visitSchema true l lc fs p).printed = fs.printed ++ [(p.name, k)]) : fs.progress = false := by
  unfold visitSchema at hp
  by_cases h0 : (!fs.unprocessed p.name || fs.hung) = true
  · rw [if_pos h0] at hp; exact absurd hp (append_singleton_ne _ _)
  · rw [if_neg h0] at hp
    cases hr : passResult l lc p (unsetObjs p fs.marks) with
    | none => rw [hr] at hp; exact absurd hp (append_singleton_ne _ _)
    | some s =>
      rw [hr] at hp
      simp only at hp
      by_cases hd : (true && (p.own.any fun o => s.marks o.name == .canprocess) && s.schemaUnprocessed && fs.counter p.name == 0 && fs.progress) = true
      · rw [if_pos hd] at hp
        exact absurd hp (append_singleton_ne _ _)
      · rw [if_neg hd] at hp
        simp only [finishVisit] at hp
        cases hany : (p.own.any fun o => s.marks o.name == .canprocess) with
        | false => rw [hany] at hp; exact absurd hp (append_singleton_ne _ _)
        | true =>
          rw [hany] at hp
          simp only [if_true] at hp
          have hsuf := List.append_cancel_left hp
          simp only [List.cons.injEq, Prod.mk.injEq, true_and, and_true] at hsuf
          have hun : s.schemaUnprocessed = true := by
            cases hu : s.schemaUnprocessed with
            | true => rfl
            | false =>
              rw [hu, hc] at hsuf
              simp at hsuf
              omega
          cases hpr : fs.progress with
          | false => rfl
          | true =>
            exfalso
            apply hd
            simp [hany, hun, hc, hpr]

/-- a visit either leaves the print log and the "printed in this round" flag alone, or appends one call and sets the flag;
    it never touches `progress` -/
theorem visit_tracks (d : Bool) (l : SweepLoop) (lc : EnumLastCase) (fs : FileSt) (p : PSchema) :
    ((visitSchema d l lc fs p).printed = fs.printed ∧ (visitSchema d l lc fs p).printedNow = fs.printedNow ∨
     (∃ x, (visitSchema d l lc fs p).printed = fs.printed ++ [x]) ∧ (visitSchema d l lc fs p).printedNow = true) ∧
    (visitSchema d l lc fs p).progress = fs.progress := by
  unfold visitSchema
  by_cases h0 : (!fs.unprocessed p.name || fs.hung) = true
  · rw [if_pos h0]; exact ⟨Or.inl ⟨rfl, rfl⟩, rfl⟩
  · rw [if_neg h0]
    cases hr : passResult l lc p (unsetObjs p fs.marks) with
    | none => exact ⟨Or.inl ⟨rfl, rfl⟩, rfl⟩
    | some s =>
      simp only
      split
      · exact ⟨Or.inl ⟨rfl, rfl⟩, rfl⟩
      · cases hany : (p.own.any fun o => s.marks o.name == .canprocess) with
        | false =>
          refine ⟨Or.inl ⟨?_, ?_⟩, rfl⟩
          · simp [finishVisit, hany]
          · simp [finishVisit, hany]
        | true =>
          refine ⟨Or.inr ⟨⟨(p.name, if s.schemaUnprocessed || fs.counter p.name > 0 then fs.counter p.name + 1 else 0), ?_⟩, ?_⟩, rfl⟩
          · simp [finishVisit, hany]
          · simp [finishVisit, hany]

theorem fold_tracks (d : Bool) (l : SweepLoop) (lc : EnumLastCase) (ps : List PSchema) (fs : FileSt) :
    let r := ps.foldl (visitSchema d l lc) fs
    fs.printed.length ≤ r.printed.length ∧ r.progress = fs.progress ∧
    (r.printedNow = true ↔ (fs.printedNow = true ∨ fs.printed.length < r.printed.length)) := by
  induction ps generalizing fs with
  | nil => simp
  | cons p rest ih =>
    simp only [List.foldl_cons]
    have hv := visit_tracks d l lc fs p
    have hr := ih (visitSchema d l lc fs p)
    simp only at hr
    refine ⟨?_, by rw [hr.2.1, hv.2], ?_⟩
    · rcases hv.1 with ⟨e, _⟩ | ⟨⟨x, e⟩, _⟩
      · rw [← e]; exact hr.1
      · have := hr.1; rw [e] at this; simp at this; omega
    · rw [hr.2.2]
      rcases hv.1 with ⟨e, en⟩ | ⟨⟨x, e⟩, en⟩
      · rw [e, en]
      · rw [en]
        have h1 := hr.1
        rw [e] at h1
        simp at h1
        constructor
        · intro _; right; omega
        · intro _; left; rfl

/-- `progress` at the end of a round says exactly whether the round printed something -/
theorem round_progress (d : Bool) (l : SweepLoop) (lc : EnumLastCase) (ps : List PSchema) (fs : FileSt) :
    (round d l lc ps fs).progress = true ↔ fs.printed.length < (round d l lc ps fs).printed.length := by
  have h := fold_tracks d l lc ps { fs with printedNow := false }
  simp only at h
  show (ps.foldl (visitSchema d l lc) { fs with printedNow := false }).printedNow = true ↔
       fs.printed.length < (ps.foldl (visitSchema d l lc) { fs with printedNow := false }).printed.length
  rw [h.2.2]
  simp

end StepModel.GenFiles.Pass

import StepModel.ComplexMarks8
/-! `tryNext` (OrList and MultList versions, the backwards scan and the forward re-acceptance): the frame invariant and
the structure invariants are kept; MATCHALL is only reported when every member is marked; a list that reports NOMORE is
left idle (its OrLists hold nothing), which is what the forward loop of the next round relies on. -/
namespace StepModel.Complex.Match
open StepModel.Generated StepModel.Complex

structure MTPost (N : List Name) (o : Name → Nat) (es : Ents) (r : ST × Ents × MT) : Prop where
  fr : Fr o r.1 r.2.1
  same : SameOut o es r.2.1
  tidy : Tidy r.1
  chk : ChK r.1
  nm : names r.2.1 = N
  all : r.2.2 = .all → allMarked r.2.1 = true
  idle : r.2.2 ≠ .all → r.2.2 ≠ .newchoice → Idle r.1

structure MTLPost (N : List Name) (o : Name → Nat) (cs : List ST) (es : Ents) (r : List ST × Ents × MT) : Prop where
  fr : FrL o r.1 r.2.1
  same : SameOut o es r.2.1
  tidy : TidyL r.1
  chk : ChKL r.1
  nm : names r.2.1 = N
  kc : KC cs → KC r.1
  uc : UC cs → UC r.1
  all : r.2.2 = .all → allMarked r.2.1 = true

/-- every candidate behind `start` has been exhausted -/
def BackInv (cs : List ST) (start : Nat) : Prop := ∀ p ch, cs[p]? = some ch → start < p → Cand ch → Idle ch

theorem Kr_not_unsat {v : MT} (h : Kr v) : v ≠ .unsat := by
  intro e; rw [e] at h; simp [Kr, MT.rank] at h

theorem trynext_marks (N : List Name) (hN : N.Pairwise (· < ·)) : ∀ f : Nat,
    (∀ t es r o, tryNext f t es = .ok r → names es = N → Fr o t es → Tidy t → ChK t → smallOr (skel t) → MTPost N o es r) ∧
    (∀ cs start es r o, tryBack f cs start es = .ok r → names es = N → FrL o cs es → TidyL cs → ChKL cs →
      smallOrL (skelL cs) → BackInv cs start →
      MTLPost N o cs es r ∧ (r.2.2 ≠ .all → r.2.2 ≠ .newchoice → IdleL r.1)) ∧
    (∀ cs js es r o, tryFwd f cs js es = .ok r → names es = N → FrL o cs es → TidyL cs → ChKL cs → js.Nodup →
      (∀ j ∈ js, ∀ ch, cs[j]? = some ch → Cand ch ∧ Idle ch) →
      MTLPost N o cs es r ∧ (r.2.2 = .all ∨ r.2.2 = .newchoice)) := by
  intro f
  induction f with
  | zero =>
    exact ⟨fun _ _ _ _ h => by simp [tryNext] at h, fun _ _ _ _ _ h => by simp [tryBack] at h,
      fun _ _ _ _ _ h => by simp [tryFwd] at h⟩
  | succ f ih =>
    obtain ⟨ih1, ih2, ih3⟩ := ih
    refine ⟨?_, ?_, ?_⟩
    -- ================================================================ tryNext
    · intro t es r o h hnm hfr htidy hchk hsm
      cases t with
      | simple n v im => simp only [tryNext] at h; cases h
      | mult j v c c1 k cs =>
        obtain ⟨hc, hl⟩ := hfr
        simp only [Loc] at hl
        simp only [Tidy] at htidy
        obtain ⟨htl, hkc, huc, hor⟩ := htidy
        simp only [ChK] at hchk
        obtain ⟨hck, hcho⟩ := hchk
        simp only [skel, smallOr] at hsm
        obtain ⟨hsmo, hsmL⟩ := hsm
        cases j with
        | or =>
          have hlen : (cs.length : Int) < listEnd := by
            have := hsmo rfl; simpa [skelL_length] using this
          simp only [tryNext] at h
          by_cases hce : c = listEnd
          · simp only [hce, if_true] at h
            cases h
            have hnone : inRange listEnd cs.length = none := inRange_listEnd hlen
            have h0 : holdsL cs = [] := by
              apply (holdsL_nil_iff cs).mpr
              intro ch hch
              obtain ⟨p, hp⟩ := List.getElem?_of_mem hch
              exact hor rfl p ch hp (by rw [hce, hnone]; simp)
            refine ⟨⟨by rw [← hce]; exact hc, hl⟩, fun _ _ => rfl, ?_, ?_, hnm, (fun h' => by cases h'), fun _ _ => ?_⟩
            · simp only [Tidy]; exact ⟨htl, hkc, huc, fun _ => by rw [← hce]; exact hor rfl⟩
            · simp only [ChK]; exact ⟨hck, fun _ hne => absurd rfl hne⟩
            · simp only [Idle]; exact h0
          · simp only [hce, if_false] at h
            cases hir : inRange c cs.length with
            | none => simp only [hir] at h; cases h
            | some i =>
              simp only [hir] at h
              cases hch : cs[i]? with
              | none => simp only [hch] at h; cases h
              | some ch =>
                simp only [hch] at h
                have hilt : i < cs.length := (List.getElem?_eq_some_iff.mp hch).1
                have hothers : ∀ p c0, cs[p]? = some c0 → p ≠ i → holds c0 = [] :=
                  fun p c0 hp hne => hor rfl p c0 hp (by rw [hir]; intro e; cases e; exact hne rfl)
                have hfrc : Fr o ch es := by
                  refine ⟨fun x => ?_, (LocL_iff es cs).mp hl ch (List.mem_of_getElem? hch)⟩
                  have := hc x
                  rw [cnt_mult, cntL_only hch hothers x] at this; exact this
                have hkrch : Kr ch.viable := hcho rfl hce i ch hir hch
                have htch : Tidy ch := (TidyL_iff cs).mp htl ch (List.mem_of_getElem? hch)
                have hcch : ChK ch := (ChKL_iff cs).mp hck ch (List.mem_of_getElem? hch)
                have hsch : smallOr (skel ch) := smallOrL_mem hsmL hch
                obtain ⟨⟨ch1, es1, r1⟩, h1, h2⟩ := ite_bind_ok h
                have A : Fr o ch1 es1 ∧ SameOut o es es1 ∧ Tidy ch1 ∧ ChK ch1 ∧ names es1 = N ∧ skel ch1 = skel ch ∧
                    ((!ch.isSimple) = true → r1 = .all → allMarked es1 = true) := by
                  split at h1
                  · have P := ih1 ch es _ o h1 hnm hfrc htch hcch hsch
                    exact ⟨P.fr, P.same, P.tidy, P.chk, P.nm, ((trynext_val f).1 ch es _ h1 hsch).1, fun _ => P.all⟩
                  · rename_i hs
                    cases h1
                    exact ⟨hfrc, fun _ _ => rfl, htch, hcch, hnm, rfl, fun h' => absurd h' hs⟩
                obtain ⟨a1, a2, a3, a4, a5, a6, a7⟩ := A
                have kr1 : Kr ch1.viable := by rw [viable_of_skel a6]; exact hkrch
                have hseti : (cs.set i ch1)[i]? = some ch1 := by simp [hilt]
                have hothers1 : ∀ p c0, (cs.set i ch1)[p]? = some c0 → p ≠ i → holds c0 = [] := by
                  intro p c0 hp hne
                  rw [List.getElem?_set_ne (fun e => hne e.symm)] at hp
                  exact hothers p c0 hp hne
                -- the node with the stepped child in place
                have mk1 : ∀ r', (r' = .all → allMarked es1 = true) → (r' = .all ∨ r' = .newchoice) →
                    MTPost N o es (.mult .or v c c1 k (cs.set i ch1), es1, r') := by
                  intro r' hall hmv
                  refine ⟨⟨fun x => ?_, ?_⟩, a2, ?_, ?_, a5, hall, fun h1' h2' => ?_⟩
                  · rw [cnt_mult, cntL_only hseti hothers1 x]; exact a1.1 x
                  · simp only [Loc]
                    apply (LocL_iff _ _).mpr
                    intro c0 hc0
                    obtain ⟨p, hp⟩ := List.getElem?_of_mem hc0
                    by_cases hpi : p = i
                    · subst hpi; rw [hseti] at hp; cases hp; exact a1.2
                    · exact Loc_of_H0 _ _ (hothers1 p c0 hp hpi)
                  · simp only [Tidy]
                    refine ⟨TidyL_set htl a3, fun hk => KC_set (hkc hk) (Or.inr kr1),
                      fun _ => UC_set (huc (by simp)) (fun hu => absurd hu (Kr_not_unsat kr1)), fun _ p c0 hp hne => ?_⟩
                    rw [List.length_set] at hne
                    exact hothers1 p c0 hp (by intro e; subst e; exact hne hir)
                  · simp only [ChK]
                    refine ⟨ChKL_set hck a4, fun _ _ p x hirp hx => ?_⟩
                    rw [List.length_set, hir] at hirp
                    cases hirp
                    rw [hseti] at hx; cases hx; exact kr1
                  · rcases hmv with e | e
                    · exact absurd e h1'
                    · exact absurd e h2'
                simp only at h2
                split at h2
                · rename_i hcond
                  cases h2
                  simp only [Bool.and_eq_true, decide_eq_true_eq] at hcond
                  exact mk1 .all (fun _ => a7 hcond.1 hcond.2) (Or.inl rfl)
                · split at h2
                  · cases h2
                    exact mk1 .newchoice (fun h' => by cases h') (Or.inr rfl)
                  · obtain ⟨⟨ch2, es2⟩, h3, h4⟩ := bind_ok' h2
                    have U := (unmark_marks N hN f).1 ch1 es1 _ o h3 a5 a1 (OrT_of_Tidy _ a3)
                    have ck2 := (unmark_chk f).1 ch1 es1 _ h3 a4
                    have hn2 : names es2 = N := by rw [(unmark_names f).1 ch1 es1 _ h3]; exact a5
                    have h02 : holdsL ((cs.set i ch1).set i ch2) = [] := holdsL_set_nil hothers1 U.h0
                    have hck2 : ChKL ((cs.set i ch1).set i ch2) := ChKL_set (ChKL_set hck a4) ck2
                    have hs02 : SameOut o es es2 := fun x hx => by rw [U.same x hx]; exact a2 x hx
                    simp only at h4
                    split at h4
                    · cases h4
                      have hh : holds (ST.mult .or v listEnd c1 k ((cs.set i ch1).set i ch2)) = [] := by
                        simp only [holds]; exact h02
                      refine ⟨Fr_of_H0 hh U.fr, hs02, Tidy_of_H0 _ hh, ?_, hn2, (fun h' => by cases h'), fun _ _ => ?_⟩
                      · simp only [ChK]; exact ⟨hck2, fun _ hne => absurd rfl hne⟩
                      · simp only [Idle]; exact h02
                    · obtain ⟨⟨node, es3, b⟩, h5, h6⟩ := bind_ok' h4
                      have hh : holds (ST.mult .or v (c + 1) c1 k ((cs.set i ch1).set i ch2)) = [] := by
                        simp only [holds]; exact h02
                      have P := (accept_marks N hN f).1 _ es2 _ o h5 hn2 (Fr_of_H0 hh U.fr) (Tidy_of_H0 _ hh)
                        (by simp only [Idle]; exact h02) (fun h' => by cases h')
                      have Q := (accept_chk f).1 _ es2 _ h5 (fun c0 c10 k0 cs0 v0 e => by cases e; exact hck2)
                        (fun h' => by cases h')
                      have hn3 : names es3 = N := by rw [(accept_names f).1 _ es2 _ h5]; exact hn2
                      have hs03 : SameOut o es es3 := fun x hx => by rw [P.same x hx]; exact hs02 x hx
                      simp only at h6
                      cases b with
                      | true =>
                        simp only [if_true] at h6
                        cases h6
                        refine ⟨P.fr, hs03, P.tidy, Q, hn3, fun h' => ?_, fun h1' h2' => ?_⟩
                        · simp only at h'
                          split at h'
                          · assumption
                          · cases h'
                        · simp only at h1' h2'
                          split at h1'
                          · exact absurd rfl h1'
                          · rename_i hna; simp only [hna] at h2'; exact absurd rfl h2'
                      | false =>
                        simp only [Bool.false_eq_true, if_false] at h6
                        cases h6
                        refine ⟨P.fr, hs03, P.tidy, Q, hn3, (fun h' => by cases h'), fun _ _ => ?_⟩
                        obtain ⟨q1, _⟩ := P.noop rfl
                        exact Idle_of_H0 _ (by rw [q1]; exact hh)
        | and =>
          simp only [tryNext] at h
          split at h
          · rename_i hemp
            have hcs : cs = [] := by cases cs with | nil => rfl | cons => simp at hemp
            subst hcs
            split at h
            · cases h
              refine ⟨⟨hc, hl⟩, fun _ _ => rfl, ?_, ?_, hnm, (fun h' => by cases h'), fun _ _ => ?_⟩
              · simp only [Tidy]; exact ⟨htl, hkc, huc, (fun h' => by cases h')⟩
              · simp only [ChK]; exact ⟨hck, (fun h' => by cases h')⟩
              · simp only [Idle, IdleL]
            · cases h
          · obtain ⟨⟨cs', es', r'⟩, h1, h2⟩ := bind_ok' h
            cases h2
            have hbi : BackInv cs (cs.length - 1) := by
              intro p ch hp hlt _
              have := (List.getElem?_eq_some_iff.mp hp).1
              omega
            obtain ⟨B, Bi⟩ := ih2 cs (cs.length - 1) es _ o h1 hnm ⟨hc, hl⟩ htl hck hsmL hbi
            refine ⟨⟨B.fr.1, B.fr.2⟩, B.same, ?_, ?_, B.nm, B.all, fun h1' h2' => ?_⟩
            · simp only [Tidy]; exact ⟨B.tidy, fun hk => B.kc (hkc hk), fun hj => B.uc (huc hj), (fun h' => by cases h')⟩
            · simp only [ChK]; exact ⟨B.chk, (fun h' => by cases h')⟩
            · simp only [Idle]; exact Bi h1' h2'
        | andor =>
          simp only [tryNext] at h
          split at h
          · rename_i hemp
            have hcs : cs = [] := by cases cs with | nil => rfl | cons => simp at hemp
            subst hcs
            split at h
            · cases h
              refine ⟨⟨hc, hl⟩, fun _ _ => rfl, ?_, ?_, hnm, (fun h' => by cases h'), fun _ _ => ?_⟩
              · simp only [Tidy]; exact ⟨htl, hkc, huc, (fun h' => by cases h')⟩
              · simp only [ChK]; exact ⟨hck, (fun h' => by cases h')⟩
              · simp only [Idle, IdleL]
            · cases h
          · obtain ⟨⟨cs', es', r'⟩, h1, h2⟩ := bind_ok' h
            cases h2
            have hbi : BackInv cs (cs.length - 1) := by
              intro p ch hp hlt _
              have := (List.getElem?_eq_some_iff.mp hp).1
              omega
            obtain ⟨B, Bi⟩ := ih2 cs (cs.length - 1) es _ o h1 hnm ⟨hc, hl⟩ htl hck hsmL hbi
            refine ⟨⟨B.fr.1, B.fr.2⟩, B.same, ?_, ?_, B.nm, B.all, fun h1' h2' => ?_⟩
            · simp only [Tidy]; exact ⟨B.tidy, fun hk => B.kc (hkc hk), fun hj => B.uc (huc hj), (fun h' => by cases h')⟩
            · simp only [ChK]; exact ⟨B.chk, (fun h' => by cases h')⟩
            · simp only [Idle]; exact Bi h1' h2'
    -- ================================================================ tryBack
    · intro cs start es r o h hnm hfr htidy hchk hsm hbi
      simp only [tryBack] at h
      cases hfc : firstCand cs start with
      | none =>
        simp only [hfc] at h
        cases h
        refine ⟨⟨hfr, fun _ _ => rfl, htidy, hchk, hnm, fun h' => h', fun h' => h', (fun h' => by cases h')⟩, fun _ _ => ?_⟩
        apply (IdleL_iff cs).mpr
        intro c0 hc0 hal
        by_cases hs : c0.isSimple = true
        · exact Idle_simple hs
        · have hcand : Cand c0 := ⟨by simpa using hs, hal⟩
          obtain ⟨p, hp⟩ := List.getElem?_of_mem hc0
          by_cases hps : p ≤ start
          · exact absurd hcand (firstCand_none cs start hfc p c0 hps hp)
          · exact hbi p c0 hp (by omega) hcand
      | some i =>
        simp only [hfc] at h
        obtain ⟨ch, hch, hcs1, hcs2⟩ := firstCand_spec cs start i hfc
        have hle := firstCand_le cs start i hfc
        have hgap := firstCand_gap cs start i hfc
        simp only [hch] at h
        have hilt : i < cs.length := (List.getElem?_eq_some_iff.mp hch).1
        obtain ⟨⟨ch', es', r1⟩, h1, h2⟩ := bind_ok' h
        have hsch : smallOr (skel ch) := smallOrL_mem hsm hch
        have P := ih1 ch es _ _ h1 hnm (fr_child hfr hch) ((TidyL_iff cs).mp htidy ch (List.mem_of_getElem? hch))
          ((ChKL_iff cs).mp hchk ch (List.mem_of_getElem? hch)) hsch
        obtain ⟨F, S⟩ := frL_set hfr hch P.fr P.same
        have hsk : skel ch' = skel ch := ((trynext_val f).1 ch es _ h1 hsch).1
        have kr' : Kr ch'.viable := by rw [viable_of_skel hsk]; exact Kr_of_atLeastSome hcs2
        have htd' : TidyL (cs.set i ch') := TidyL_set htidy P.tidy
        have hck' : ChKL (cs.set i ch') := ChKL_set hchk P.chk
        have hkc' : KC cs → KC (cs.set i ch') := fun hk => KC_set hk (Or.inr kr')
        have huc' : UC cs → UC (cs.set i ch') := fun hu => UC_set hu (fun hv => absurd hv (Kr_not_unsat kr'))
        have hseti : (cs.set i ch')[i]? = some ch' := by simp [hilt]
        have hsm' : smallOrL (skelL (cs.set i ch')) := by rw [skelL_set cs i ch ch' hch hsk]; exact hsm
        simp only at h2
        split at h2
        · rename_i hall
          cases h2
          exact ⟨⟨F, S, htd', hck', P.nm, hkc', huc', fun _ => P.all hall⟩, fun h' => absurd rfl h'⟩
        · rename_i hnall
          split at h2
          · -- NEWCHOICE: the later candidates accept their first choice again
            have hjs : ∀ j ∈ nextCands (cs.set i ch') i, ∀ c0, (cs.set i ch')[j]? = some c0 → Cand c0 ∧ Idle c0 := by
              intro j hj c0 hc0
              have hgt := nextCands_gt _ i j hj
              have hcand := nextCands_cand _ i j hj c0 hc0
              rw [List.getElem?_set_ne (by omega)] at hc0
              refine ⟨hcand, ?_⟩
              by_cases hjs' : j ≤ start
              · exact absurd hcand (hgap j c0 hgt hjs' hc0)
              · exact hbi j c0 hc0 (by omega) hcand
            obtain ⟨W, Wr⟩ := ih3 (cs.set i ch') _ es' r o h2 P.nm F htd' hck' (nextCands_nodup _ i) hjs
            exact ⟨⟨W.fr, fun x hx => by rw [W.same x hx]; exact S x hx, W.tidy, W.chk, W.nm, fun hk => W.kc (hkc' hk),
              fun hu => W.uc (huc' hu), W.all⟩, fun h1' h2' => Wr.elim (fun e => absurd e h1') (fun e => absurd e h2')⟩
          · rename_i hnnew
            have hidle' : Idle ch' := P.idle hnall hnnew
            have hbi' : ∀ p c0, (cs.set i ch')[p]? = some c0 → i ≤ p → Cand c0 → Idle c0 := by
              intro p c0 hp hip hcand
              by_cases hpi : p = i
              · subst hpi; rw [hseti] at hp; cases hp; exact hidle'
              · rw [List.getElem?_set_ne (fun e => hpi e.symm)] at hp
                by_cases hps : p ≤ start
                · exact absurd hcand (hgap p c0 (by omega) hps hp)
                · exact hbi p c0 hp (by omega) hcand
            split at h2
            · rename_i hi0
              subst hi0
              split at h2
              · cases h2
                refine ⟨⟨F, S, htd', hck', P.nm, hkc', huc', (fun h' => by cases h')⟩, fun _ _ => ?_⟩
                apply (IdleL_iff _).mpr
                intro c0 hc0 hal
                by_cases hs : c0.isSimple = true
                · exact Idle_simple hs
                · obtain ⟨p, hp⟩ := List.getElem?_of_mem hc0
                  exact hbi' p c0 hp (Nat.zero_le _) ⟨by simpa using hs, hal⟩
              · cases h2
            · rename_i hi0
              have hbi2 : BackInv (cs.set i ch') (i - 1) := fun p c0 hp hlt hcand => hbi' p c0 hp (by omega) hcand
              obtain ⟨R, Ri⟩ := ih2 (cs.set i ch') (i - 1) es' r o h2 P.nm F htd' hck' hsm' hbi2
              exact ⟨⟨R.fr, fun x hx => by rw [R.same x hx]; exact S x hx, R.tidy, R.chk, R.nm, fun hk => R.kc (hkc' hk),
                fun hu => R.uc (huc' hu), R.all⟩, Ri⟩
    -- ================================================================ tryFwd
    · intro cs js es r o h hnm hfr htidy hchk hnd hjs
      cases js with
      | nil =>
        simp only [tryFwd] at h
        cases h
        exact ⟨⟨hfr, fun _ _ => rfl, htidy, hchk, hnm, fun h' => h', fun h' => h', (fun h' => by cases h')⟩, Or.inr rfl⟩
      | cons j js' =>
        simp only [List.nodup_cons] at hnd
        simp only [tryFwd] at h
        cases hch : cs[j]? with
        | none =>
          simp only [hch] at h
          exact ih3 cs js' es r o h hnm hfr htidy hchk hnd.2 (fun j' hj' => hjs j' (List.mem_cons_of_mem _ hj'))
        | some ch =>
          simp only [hch] at h
          obtain ⟨hcand, hidle⟩ := hjs j (by simp) ch hch
          have hjlt : j < cs.length := (List.getElem?_eq_some_iff.mp hch).1
          obtain ⟨⟨ch', es', b⟩, h1, h2⟩ := bind_ok' h
          have htch : Tidy ch := (TidyL_iff cs).mp htidy ch (List.mem_of_getElem? hch)
          have hcch : ChK ch := (ChKL_iff cs).mp hchk ch (List.mem_of_getElem? hch)
          have P := (accept_marks N hN f).1 ch es _ _ h1 hnm (fr_child hfr hch) htch hidle
            (fun hs => by rw [hcand.1] at hs; cases hs)
          have Q := (accept_chk f).1 ch es _ h1 (fun c0 c10 k0 cs0 v0 e => by
            rw [e] at hcch; simp only [ChK] at hcch; exact hcch.1) (fun _ => hcch)
          have hn' : names es' = N := by rw [(accept_names f).1 ch es _ h1]; exact hnm
          obtain ⟨F, S⟩ := frL_set hfr hch P.fr P.same
          have hsk : skel ch' = skel ch := (accept_skel f).1 ch es _ h1
          have kr' : Kr ch'.viable := by rw [viable_of_skel hsk]; exact Kr_of_atLeastSome hcand.2
          have htd' : TidyL (cs.set j ch') := TidyL_set htidy P.tidy
          have hck' : ChKL (cs.set j ch') := ChKL_set hchk Q
          have hkc' : KC cs → KC (cs.set j ch') := fun hk => KC_set hk (Or.inr kr')
          have huc' : UC cs → UC (cs.set j ch') := fun hu => UC_set hu (fun hv => absurd hv (Kr_not_unsat kr'))
          simp only at h2
          split at h2
          · rename_i hcond
            cases h2
            simp only [Bool.and_eq_true] at hcond
            exact ⟨⟨F, S, htd', hck', hn', hkc', huc', fun _ => hcond.2⟩, Or.inl rfl⟩
          · have hjs' : ∀ j' ∈ js', ∀ c0, (cs.set j ch')[j']? = some c0 → Cand c0 ∧ Idle c0 := by
              intro j' hj' c0 hc0
              have hne : j ≠ j' := by intro e; subst e; exact hnd.1 hj'
              rw [List.getElem?_set_ne hne] at hc0
              exact hjs j' (List.mem_cons_of_mem _ hj') c0 hc0
            obtain ⟨W, Wr⟩ := ih3 (cs.set j ch') js' es' r o h2 hn' F htd' hck' hnd.2 hjs'
            exact ⟨⟨W.fr, fun x hx => by rw [W.same x hx]; exact S x hx, W.tidy, W.chk, W.nm, fun hk => W.kc (hkc' hk),
              fun hu => W.uc (huc' hu), W.all⟩, Wr⟩

end StepModel.Complex.Match

import StepModel.GenPyBody
/-!
# `Gen.Py.Stmt` — the statements exp2python translates in a FUNCTION body (`STATEMENTPrint`, `LOOPpyout`)

Source fragment (EXPRESS, ISO 10303-11 clause 13): the null statement, sequences, assignment to a local variable, IF [ELSE],
REPEAT with any of the three controls (increment `i := a TO b BY s`, s a non-zero integer literal; WHILE; UNTIL), SKIP, ESCAPE,
RETURN; expressions are those of `Gen.Py.Body` with an identifier read as a variable.  Target: the Python statements
`STATEMENTPrint` / `LOOPpyout` write for them (`tr`), with Python's semantics (`pyExec`): `for i in range(a, stop, s)`,
`break`, `continue`, `return`, `if … else`.  Expressions in statements go through `EXPRESSION__out`: identifiers are
keyword-escaped and every binary operator keeps its parentheses (`exprCfg`).

Both semantics are big-step interpreters with fuel (`none` = out of fuel, or an ill-typed / unbound expression); the
environment is an association list, an assignment puts a new binding in front.  The loop variable of REPEAT is implicitly
declared; it stays in the environment after the loop here (nothing can refer to it), as it does in Python.

Regenerated: `repeatBoundInclusive` (the stop value `LOOPpyout` writes), `skipIsContinue` (what `STATEMENTPrint` writes for SKIP).
-/
namespace StepModel.GenPy.Stmt
open StepModel.Generated StepModel.GenPy StepModel.GenPy.Body

abbrev Env := List (String × V)

inductive Stmt
  | nop
  | seq (a b : Stmt)
  | assign (x : String) (e : Expr)
  | ite (c : Expr) (t e : Stmt)                                   -- IF without ELSE: `e = nop`
  | repeatInc (i : String) (a b : Expr) (s : Int) (wh un : Option Expr) (body : Stmt)
      -- REPEAT i := a TO b BY s [WHILE wh] [UNTIL un]; body; END_REPEAT
  | repeatWhile (wh un : Option Expr) (body : Stmt)               -- REPEAT [WHILE wh] [UNTIL un]; body; END_REPEAT
  | skip
  | escape
  | ret (e : Expr)
  deriving Repr

inductive PyStmt
  | pass
  | seq (a b : PyStmt)
  | assign (x : String) (e : PyExpr)
  | ite (c : PyExpr) (t e : PyStmt)
  | forRange (i : String) (a b : PyExpr) (s : Int) (wh un : Option PyExpr) (body : PyStmt)
      -- `for i in range(a, <stop written for b and s>, s):` [`if not (wh): break`] body [`if un: break`]
  | while_ (c un : Option PyExpr) (body : PyStmt)                    -- `while c:` (`while True:` for `none`) body [`if un: break`]
  | break_
  | continue_
  | ret (e : PyExpr)
  deriving Repr

/-- how a statement ends -/
inductive Out
  | normal
  | skipped          -- SKIP / `continue` travelling to the enclosing loop
  | escaped          -- ESCAPE / `break` travelling to the enclosing loop
  | returned (v : V)
  deriving DecidableEq, Repr

/-- `EXPRESSION__out`: identifiers keyword-escaped, every operator through the parenthesising macro -/
def exprCfg : Cfg := { xorSkips := false, escapes := true }

/-- an optional control expression -/
def trOpt : Option Expr → Option (Option PyExpr)
  | none => some none
  | some e => (readWith exprCfg e).map some

/-- `STATEMENTPrint` / `LOOPpyout`; `none`: an expression is not Python -/
def tr : Stmt → Option PyStmt
  | .nop => some .pass
  | .seq a b => do let pa ← tr a; let pb ← tr b; pure (.seq pa pb)
  | .assign x e => (readWith exprCfg e).map (.assign (pyName x))
  | .ite c t e => do let pc ← readWith exprCfg c; let pt ← tr t; let pe ← tr e; pure (.ite pc pt pe)
  | .repeatInc i a b s wh un body => do
    let pa ← readWith exprCfg a; let pb ← readWith exprCfg b; let pbody ← tr body
    let pw ← trOpt wh; let pu ← trOpt un
    pure (.forRange (pyName i) pa pb s pw pu pbody)
  | .repeatWhile wh un body => do
    let pbody ← tr body
    let pw ← trOpt wh; let pu ← trOpt un
    pure (.while_ pw pu pbody)
  | .skip => some (if skipIsContinue then .continue_ else .break_)
  | .escape => some .break_
  | .ret e => (readWith exprCfg e).map .ret

/-- the UNTIL test Python runs at the end of a loop body: `if un: break` -/
def pyUntil (un : Option PyExpr) (env : Env) : Option (Env × Out) :=
  match un with
  | none => some (env, .normal)
  | some u => (pyEval env u).map (fun v => (env, if v.truthy then .escaped else .normal))

/-- one pass through the body of a written loop: [`if not (wh): break`], the body, [`if un: break`] — `continue` in the
body jumps over the UNTIL test -/
def pyAfterBody (un : Option PyExpr) : Option (Env × Out) → Option (Env × Out)
  | some (env', .normal) => pyUntil un env'
  | r => r

def pyPass (wh un : Option PyExpr) (run : Env → Option (Env × Out)) (env : Env) : Option (Env × Out) :=
  match wh with
  | none => pyAfterBody un (run env)
  | some w =>
    match pyEval env w with
    | some v => if v.truthy then pyAfterBody un (run env) else some (env, .escaped)
    | none => none

/-- Python's `for i in range(cur, stop, s)` from the current value on; `run` executes one pass of the loop body -/
def pyLoop (run : Env → Option (Env × Out)) : Nat → Env → String → Int → Int → Int → Option (Env × Out)
  | 0, _, _, _, _, _ => none
  | n + 1, env, i, cur, stop, s =>
    if (s > 0 ∧ cur < stop) ∨ (s < 0 ∧ cur > stop) then
      match run ((i, .int cur) :: env) with
      | some (env', .normal) => pyLoop run n env' i (cur + s) stop s
      | some (env', .skipped) => pyLoop run n env' i (cur + s) stop s
      | some (env', .escaped) => some (env', .normal)
      | some (env', .returned v) => some (env', .returned v)
      | none => none
    else some (env, .normal)

/-- Python's `while c:` (the condition is part of `run` here: a false condition reports `escaped`) -/
def pyWhile (run : Env → Option (Env × Out)) : Nat → Env → Option (Env × Out)
  | 0, _ => none
  | n + 1, env =>
    match run env with
    | some (env', .normal) => pyWhile run n env'
    | some (env', .skipped) => pyWhile run n env'
    | some (env', .escaped) => some (env', .normal)
    | some (env', .returned v) => some (env', .returned v)
    | none => none

/-- Python's execution; the environment maps (escaped) names to values -/
def pyExec : Nat → Env → PyStmt → Option (Env × Out)
  | 0, _, _ => none
  | _ + 1, env, .pass => some (env, .normal)
  | f + 1, env, .seq a b =>
    match pyExec f env a with
    | some (env', .normal) => pyExec f env' b
    | r => r
  | _ + 1, env, .assign x e => (pyEval env e).map (fun v => ((x, v) :: env, .normal))
  | f + 1, env, .ite c t e =>
    match pyEval env c with
    | some v => if v.truthy then pyExec f env t else pyExec f env e
    | none => none
  | f + 1, env, .forRange i a b s wh un body =>
    match pyEval env a, pyEval env b with
    | some va, some vb => pyLoop (pyPass wh un (fun env' => pyExec f env' body)) f env i va.toInt (stopWritten vb.toInt s) s
    | _, _ => none
  | f + 1, env, .while_ c un body => pyWhile (pyPass c un (fun env' => pyExec f env' body)) f env
  | _ + 1, env, .break_ => some (env, .escaped)
  | _ + 1, env, .continue_ => some (env, .skipped)
  | _ + 1, env, .ret e => (pyEval env e).map (fun v => (env, .returned v))

/-! ### a whole FUNCTION (`FUNCPrint`): parameters, LOCAL variables, body -/

structure Func where
  params : List String
  locals : List (String × Option Expr)      -- in declaration order; the initial value, when one is declared
  body : Stmt
  deriving Repr

/-- the statements `FUNCPrint` writes between the `def` line and the body: one assignment per LOCAL variable that has an
initial value (regenerated `localsInitialised`; before fixes/C18-19: nothing).  A LOCAL variable without one is written
`x = None`; it is left unbound here — reading it before an assignment is an error either way (TypeError on None). -/
def localsInit : List (String × Option Expr) → Stmt
  | [] => .nop
  | (x, some e) :: rest => .seq (.assign x e) (localsInit rest)
  | (_, none) :: rest => localsInit rest

/-- the parameter names of the `def` line: keyword-escaped (regenerated `paramsEscaped`; before fixes/C18-18: as declared) -/
def defParams (f : Func) : List String := if paramsEscaped then f.params.map pyName else f.params

/-- the Python function: bind the arguments to the parameter names of the `def` line, run what is written below it -/
def pyCall (fuel : Nat) (f : Func) (args : List V) : Option (Env × Out) :=
  match tr (if localsInitialised then .seq (localsInit f.locals) f.body else f.body) with
  | some p => pyExec fuel ((defParams f).zip args) p
  | none => none

end StepModel.GenPy.Stmt

namespace StepModel.GenPy.Spec.Stmt
open StepModel.GenPy.Body StepModel.GenPy.Stmt

/-- a control expression must be a BOOLEAN with a value -/
def evalBool (env : Env) (e : Expr) : Option Bool :=
  match Spec.Body.eval env e with
  | some (.bool b) => some b
  | _ => none

/-- 13.9.3: after the body — also after a SKIP (13.11) — the UNTIL control is evaluated: TRUE ends the loop -/
def untilS (un : Option Expr) (env : Env) : Option (Env × Out) :=
  match un with
  | none => some (env, .normal)
  | some u => (evalBool env u).map (fun b => (env, if b then .escaped else .normal))

/-- one pass: 13.9.2 a FALSE WHILE control ends the loop; the body; the UNTIL control.  `escaped` = the loop ends -/
def afterBody (un : Option Expr) : Option (Env × Out) → Option (Env × Out)
  | some (env', .normal) => untilS un env'
  | some (env', .skipped) => if un.isNone then some (env', .skipped) else untilS un env'
  | r => r

def pass (wh un : Option Expr) (run : Env → Option (Env × Out)) (env : Env) : Option (Env × Out) :=
  match wh with
  | none => afterBody un (run env)
  | some w =>
    match evalBool env w with
    | some true => afterBody un (run env)
    | some false => some (env, .escaped)
    | none => none

/-- ISO 10303-11 13.9.1: the increment control — the loop ends as soon as the variable is above the bound (s > 0) / below
it (s < 0); 13.10 ESCAPE ends the loop, 13.11 SKIP ends the iteration, RETURN ends the function -/
def loop (run : Env → Option (Env × Out)) : Nat → Env → String → Int → Int → Int → Option (Env × Out)
  | 0, _, _, _, _, _ => none
  | n + 1, env, i, cur, bound, s =>
    if (s > 0 ∧ cur > bound) ∨ (s < 0 ∧ cur < bound) then some (env, .normal)
    else
      match run ((i, .int cur) :: env) with
      | some (env', .normal) => loop run n env' i (cur + s) bound s
      | some (env', .skipped) => loop run n env' i (cur + s) bound s
      | some (env', .escaped) => some (env', .normal)
      | some (env', .returned v) => some (env', .returned v)
      | none => none

/-- a REPEAT without increment control: passes until one ends the loop -/
def loopW (run : Env → Option (Env × Out)) : Nat → Env → Option (Env × Out)
  | 0, _ => none
  | n + 1, env =>
    match run env with
    | some (env', .normal) => loopW run n env'
    | some (env', .skipped) => loopW run n env'
    | some (env', .escaped) => some (env', .normal)
    | some (env', .returned v) => some (env', .returned v)
    | none => none

/-- the reference semantics of the statement fragment (clause 13) -/
def exec : Nat → Env → Stmt → Option (Env × Out)
  | 0, _, _ => none
  | _ + 1, env, .nop => some (env, .normal)
  | f + 1, env, .seq a b =>
    match exec f env a with
    | some (env', .normal) => exec f env' b
    | r => r
  | _ + 1, env, .assign x e => (Spec.Body.eval env e).map (fun v => ((x, v) :: env, .normal))
  | f + 1, env, .ite c t e =>
    match Spec.Body.eval env c with
    | some (.bool true) => exec f env t
    | some (.bool false) => exec f env e
    | _ => none
  | f + 1, env, .repeatInc i a b s wh un body =>
    match Spec.Body.eval env a, Spec.Body.eval env b with
    | some (.int va), some (.int vb) => loop (pass wh un (fun env' => exec f env' body)) f env i va vb s
    | _, _ => none
  | f + 1, env, .repeatWhile wh un body => loopW (pass wh un (fun env' => exec f env' body)) f env
  | _ + 1, env, .skip => some (env, .skipped)
  | _ + 1, env, .escape => some (env, .escaped)
  | _ + 1, env, .ret e => (Spec.Body.eval env e).map (fun v => (env, .returned v))

/-- ISO 10303-11 9.5.1 / 13: the parameters are bound to the arguments, the LOCAL variables are given their initial
values in declaration order (those without one are indeterminate: unbound), the body runs -/
def call (fuel : Nat) (f : Func) (args : List V) : Option (Env × Out) :=
  exec fuel (f.params.zip args) (.seq (localsInit f.locals) f.body)

end StepModel.GenPy.Spec.Stmt

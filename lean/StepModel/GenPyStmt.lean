import StepModel.GenPyBody
/-!
# `Gen.Py.Stmt` — the statements exp2python translates in a FUNCTION body (`STATEMENTPrint`, `LOOPpyout`)

Source fragment (EXPRESS, ISO 10303-11 clause 13): the null statement, sequences, assignment to a local variable, IF [ELSE],
REPEAT with an increment control `i := a TO b BY s` (s a non-zero integer literal; no WHILE / UNTIL control), SKIP, ESCAPE,
RETURN; expressions are those of `Gen.Py.Body` with an identifier read as a variable.  Target: the Python statements
`STATEMENTPrint` / `LOOPpyout` write for them (`tr`), with Python's semantics (`pyExec`): `for i in range(a, stop, s)`,
`break`, `continue`, `return`, `if … else`.  Expressions in statements go through `EXPRESSION__out`: identifiers are
keyword-escaped and every binary operator keeps its parentheses (`exprCfg`).

Both semantics are big-step interpreters with fuel (`none` = out of fuel, or an ill-typed / unbound expression); the
environment is an association list, an assignment puts a new binding in front.  The loop variable of REPEAT is implicitly
declared; it stays in the environment after the loop here (nothing can refer to it), as it does in Python.

Regenerated: `repeatBoundInclusive` (the stop value `LOOPpyout` writes), `skipIsContinue` (what `STATEMENTPrint` writes for SKIP).
-/
namespace StepModel.GenPy.Stmt
open StepModel.Generated StepModel.GenPy StepModel.GenPy.Body

abbrev Env := List (String × V)

inductive Stmt
  | nop
  | seq (a b : Stmt)
  | assign (x : String) (e : Expr)
  | ite (c : Expr) (t e : Stmt)                                   -- IF without ELSE: `e = nop`
  | repeatInc (i : String) (a b : Expr) (s : Int) (body : Stmt)   -- REPEAT i := a TO b BY s; body; END_REPEAT
  | skip
  | escape
  | ret (e : Expr)
  deriving Repr

inductive PyStmt
  | pass
  | seq (a b : PyStmt)
  | assign (x : String) (e : PyExpr)
  | ite (c : PyExpr) (t e : PyStmt)
  | forRange (i : String) (a b : PyExpr) (s : Int) (body : PyStmt)   -- `for i in range(a, <stop written for b and s>, s): body`
  | break_
  | continue_
  | ret (e : PyExpr)
  deriving Repr

/-- how a statement ends -/
inductive Out
  | normal
  | skipped          -- SKIP / `continue` travelling to the enclosing loop
  | escaped          -- ESCAPE / `break` travelling to the enclosing loop
  | returned (v : V)
  deriving DecidableEq, Repr

/-- `EXPRESSION__out`: identifiers keyword-escaped, every operator through the parenthesising macro -/
def exprCfg : Cfg := { xorSkips := false, escapes := true }

/-- `STATEMENTPrint` / `LOOPpyout`; `none`: an expression is not Python -/
def tr : Stmt → Option PyStmt
  | .nop => some .pass
  | .seq a b => do let pa ← tr a; let pb ← tr b; pure (.seq pa pb)
  | .assign x e => (readWith exprCfg e).map (.assign (pyName x))
  | .ite c t e => do let pc ← readWith exprCfg c; let pt ← tr t; let pe ← tr e; pure (.ite pc pt pe)
  | .repeatInc i a b s body => do
    let pa ← readWith exprCfg a; let pb ← readWith exprCfg b; let pbody ← tr body
    pure (.forRange (pyName i) pa pb s pbody)
  | .skip => some (if skipIsContinue then .continue_ else .break_)
  | .escape => some .break_
  | .ret e => (readWith exprCfg e).map .ret

/-- Python's `for i in range(cur, stop, s)` from the current value on; `run` executes the body once -/
def pyLoop (run : Env → Option (Env × Out)) : Nat → Env → String → Int → Int → Int → Option (Env × Out)
  | 0, _, _, _, _, _ => none
  | n + 1, env, i, cur, stop, s =>
    if (s > 0 ∧ cur < stop) ∨ (s < 0 ∧ cur > stop) then
      match run ((i, .int cur) :: env) with
      | some (env', .normal) => pyLoop run n env' i (cur + s) stop s
      | some (env', .skipped) => pyLoop run n env' i (cur + s) stop s
      | some (env', .escaped) => some (env', .normal)
      | some (env', .returned v) => some (env', .returned v)
      | none => none
    else some (env, .normal)

/-- Python's execution; the environment maps (escaped) names to values -/
def pyExec : Nat → Env → PyStmt → Option (Env × Out)
  | 0, _, _ => none
  | _ + 1, env, .pass => some (env, .normal)
  | f + 1, env, .seq a b =>
    match pyExec f env a with
    | some (env', .normal) => pyExec f env' b
    | r => r
  | _ + 1, env, .assign x e => (pyEval env e).map (fun v => ((x, v) :: env, .normal))
  | f + 1, env, .ite c t e =>
    match pyEval env c with
    | some v => if v.truthy then pyExec f env t else pyExec f env e
    | none => none
  | f + 1, env, .forRange i a b s body =>
    match pyEval env a, pyEval env b with
    | some va, some vb => pyLoop (fun env' => pyExec f env' body) f env i va.toInt (stopWritten vb.toInt s) s
    | _, _ => none
  | _ + 1, env, .break_ => some (env, .escaped)
  | _ + 1, env, .continue_ => some (env, .skipped)
  | _ + 1, env, .ret e => (pyEval env e).map (fun v => (env, .returned v))

end StepModel.GenPy.Stmt

namespace StepModel.GenPy.Spec.Stmt
open StepModel.GenPy.Body StepModel.GenPy.Stmt

/-- ISO 10303-11 13.9.1: the increment control — the loop ends as soon as the variable is above the bound (s > 0) / below
it (s < 0); 13.10 ESCAPE ends the loop, 13.11 SKIP ends the iteration, RETURN ends the function -/
def loop (run : Env → Option (Env × Out)) : Nat → Env → String → Int → Int → Int → Option (Env × Out)
  | 0, _, _, _, _, _ => none
  | n + 1, env, i, cur, bound, s =>
    if (s > 0 ∧ cur > bound) ∨ (s < 0 ∧ cur < bound) then some (env, .normal)
    else
      match run ((i, .int cur) :: env) with
      | some (env', .normal) => loop run n env' i (cur + s) bound s
      | some (env', .skipped) => loop run n env' i (cur + s) bound s
      | some (env', .escaped) => some (env', .normal)
      | some (env', .returned v) => some (env', .returned v)
      | none => none

/-- the reference semantics of the statement fragment (clause 13) -/
def exec : Nat → Env → Stmt → Option (Env × Out)
  | 0, _, _ => none
  | _ + 1, env, .nop => some (env, .normal)
  | f + 1, env, .seq a b =>
    match exec f env a with
    | some (env', .normal) => exec f env' b
    | r => r
  | _ + 1, env, .assign x e => (Spec.Body.eval env e).map (fun v => ((x, v) :: env, .normal))
  | f + 1, env, .ite c t e =>
    match Spec.Body.eval env c with
    | some (.bool true) => exec f env t
    | some (.bool false) => exec f env e
    | _ => none
  | f + 1, env, .repeatInc i a b s body =>
    match Spec.Body.eval env a, Spec.Body.eval env b with
    | some (.int va), some (.int vb) => loop (fun env' => exec f env' body) f env i va vb s
    | _, _ => none
  | _ + 1, env, .skip => some (env, .skipped)
  | _ + 1, env, .escape => some (env, .escaped)
  | _ + 1, env, .ret e => (Spec.Body.eval env e).map (fun v => (env, .returned v))

end StepModel.GenPy.Spec.Stmt

import StepModel.ExpEntitySyn
import StepModel.ExpDeclSynLemmas
/-! Lemmas for `StepModel/ExpEntitySyn.lean`: the supertype-expression reader on the printer's tokens, the clause readers. -/
namespace StepModel.Express
open StepModel.Generated

/-- `f n = some v` for every sufficiently large fuel `n` -/
def Ev {α : Type} (f : Nat → Option α) (v : α) : Prop := ∃ n0, ∀ n, n0 ≤ n → f n = some v

theorem supOmit_all (o : Bool) : supOmit o = true := by cases o <;> decide

theorem supParen_eq (o p : Bool) (q : Option Bool) : supParen o p q = (p && q != some o) := by
  simp [supParen, supOmit_all]

def factorCtx : SupEx → Bool → Option Bool → Prop
  | .bin o _ _, p, q => supParen o p q = true
  | _, _, _ => True

mutual
/-- trees in which no right operand continues its parent's chain without parentheses (what the left-associative reader builds) -/
def supNormal : SupEx → Prop
  | .ent _ => True
  | .oneof items => items ≠ .nil ∧ supNormalL items
  | .bin o a b => supNormal a ∧ supNormal b ∧ factorCtx b true (supRprev o)
  | .nil | .cons _ _ => False
def supNormalL : SupEx → Prop
  | .nil => True
  | .cons e t => supNormal e ∧ supNormalL t
  | _ => False
end

def NoOp : List DTok → Prop
  | .kw k :: _ => k ≠ "AND" ∧ k ≠ "ANDOR"
  | _ => True

theorem loop_stop (s : SupEx) (r : List DTok) (h : NoOp r) : Ev (fun m => parseSupLoop m s r) (s, r) := by
  refine ⟨1, fun n hn => ?_⟩
  obtain ⟨k, rfl⟩ : ∃ k, n = k + 1 := ⟨n - 1, by omega⟩
  dsimp only
  unfold parseSupLoop
  split
  · simp [NoOp] at h
  · simp [NoOp] at h
  · rfl

theorem expr_of_factor {ts : List DTok} {f : SupEx} {r : List DTok} {v : SupEx × List DTok}
    (hf : Ev (fun n => parseSupFactor n ts) (f, r)) (hl : Ev (fun n => parseSupLoop n f r) v) :
    Ev (fun n => parseSupExpr n ts) v := by
  obtain ⟨a, ha⟩ := hf
  obtain ⟨b, hb⟩ := hl
  refine ⟨max a b + 1, fun n hn => ?_⟩
  obtain ⟨k, rfl⟩ : ∃ k, n = k + 1 := ⟨n - 1, by omega⟩
  simp only [parseSupExpr, ha k (by omega), hb k (by omega)]

theorem supItems_false (e t : SupEx) : supItems (.cons e t) false = .sym "," :: supItems (.cons e t) true := by
  simp [supItems]

theorem sup_rt (s : SupEx) :
    (supNormal s →
      (∀ p q r v, Ev (fun m => parseSupLoop m s r) v → Ev (fun n => parseSupExpr n (supToks s p q ++ r)) v)
      ∧ (∀ p q r, factorCtx s p q → Ev (fun n => parseSupFactor n (supToks s p q ++ r)) (s, r)))
    ∧ (supNormalL s → s ≠ .nil → ∀ r, Ev (fun n => parseSupList n (supItems s true ++ .sym ")" :: r)) (s, .sym ")" :: r)) := by
  induction s with
  | ent x =>
    refine ⟨fun _ => ?_, fun h => absurd h (by simp [supNormalL])⟩
    have F : ∀ (p : Bool) (q : Option Bool) (r : List DTok), Ev (fun n => parseSupFactor n (supToks (.ent x) p q ++ r)) (.ent x, r) := by
      intro p q r
      refine ⟨1, fun n hn => ?_⟩
      obtain ⟨k, rfl⟩ : ∃ k, n = k + 1 := ⟨n - 1, by omega⟩
      simp [supToks, parseSupFactor]
    exact ⟨fun p q r v hv => expr_of_factor (F p q r) hv, fun p q r _ => F p q r⟩
  | oneof items ih =>
    refine ⟨fun h => ?_, fun h => absurd h (by simp [supNormalL])⟩
    simp only [supNormal] at h
    have F : ∀ (p : Bool) (q : Option Bool) (r : List DTok), Ev (fun n => parseSupFactor n (supToks (.oneof items) p q ++ r)) (.oneof items, r) := by
      intro p q r
      obtain ⟨a, ha⟩ := ih.2 h.2 h.1 r
      refine ⟨a + 1, fun n hn => ?_⟩
      obtain ⟨k, rfl⟩ : ∃ k, n = k + 1 := ⟨n - 1, by omega⟩
      simp [supToks, parseSupFactor, ha k (by omega)]
    exact ⟨fun p q r v hv => expr_of_factor (F p q r) hv, fun p q r _ => F p q r⟩
  | bin o a b iha ihb =>
    refine ⟨fun h => ?_, fun h => absurd h (by simp [supNormalL])⟩
    simp only [supNormal] at h
    obtain ⟨ha, hb, hbf⟩ := h
    -- the chain without its parentheses
    have core : ∀ r v, Ev (fun m => parseSupLoop m (.bin o a b) r) v →
        Ev (fun n => parseSupExpr n (supToks a true (some o) ++ [.kw (supWord o)] ++ supToks b true (supRprev o) ++ r)) v := by
      intro r v hv
      have hla : Ev (fun m => parseSupLoop m a (.kw (supWord o) :: (supToks b true (supRprev o) ++ r))) v := by
        obtain ⟨n1, h1⟩ := (ihb.1 hb).2 true (supRprev o) r hbf
        obtain ⟨n2, h2⟩ := hv
        refine ⟨max n1 n2 + 1, fun n hn => ?_⟩
        obtain ⟨k, rfl⟩ : ∃ k, n = k + 1 := ⟨n - 1, by omega⟩
        cases o <;> simp [parseSupLoop, supWord, h1 k (by omega), h2 k (by omega)]
      have := (iha.1 ha).1 true (some o) _ v hla
      simpa [List.append_assoc] using this
    have F : ∀ (p : Bool) (q : Option Bool) (r : List DTok), factorCtx (.bin o a b) p q →
        Ev (fun n => parseSupFactor n (supToks (.bin o a b) p q ++ r)) (.bin o a b, r) := by
      intro p q r hp
      simp only [factorCtx] at hp
      obtain ⟨n1, h1⟩ := core (.sym ")" :: r) (.bin o a b, .sym ")" :: r) (loop_stop _ _ (by simp [NoOp]))
      refine ⟨n1 + 1, fun n hn => ?_⟩
      obtain ⟨k, rfl⟩ : ∃ k, n = k + 1 := ⟨n - 1, by omega⟩
      have := h1 k (by omega)
      dsimp only at this ⊢
      simp only [supToks, hp, if_true, List.append_assoc, List.cons_append, List.nil_append, parseSupFactor]
      simp only [List.append_assoc, List.cons_append, List.nil_append] at this
      rw [this]
      simp
    refine ⟨?_, F⟩
    intro p q r v hv
    by_cases hp : supParen o p q = true
    · exact expr_of_factor (F p q r hp) hv
    · have := core r v hv
      simpa [supToks, hp, List.append_assoc] using this
  | nil => exact ⟨fun h => absurd h (by simp [supNormal]), fun _ h => absurd rfl h⟩
  | cons e t ihe iht =>
    refine ⟨fun h => absurd h (by simp [supNormal]), fun h _ r => ?_⟩
    simp only [supNormalL] at h
    cases t with
    | nil =>
      obtain ⟨n1, h1⟩ := (ihe.1 h.1).1 true none (.sym ")" :: r) (e, .sym ")" :: r) (loop_stop _ _ (by simp [NoOp]))
      refine ⟨n1 + 1, fun n hn => ?_⟩
      obtain ⟨k, rfl⟩ : ∃ k, n = k + 1 := ⟨n - 1, by omega⟩
      have := h1 k (by omega)
      dsimp only at this ⊢
      simp only [supItems, if_true, List.nil_append, List.append_nil, parseSupList]
      rw [this]
      simp
    | cons e' t' =>
      obtain ⟨n2, h2⟩ := iht.2 h.2 (by simp) r
      obtain ⟨n1, h1⟩ := (ihe.1 h.1).1 true none (.sym "," :: (supItems (.cons e' t') true ++ .sym ")" :: r))
        (e, .sym "," :: (supItems (.cons e' t') true ++ .sym ")" :: r)) (loop_stop _ _ (by simp [NoOp]))
      refine ⟨max n1 n2 + 1, fun n hn => ?_⟩
      obtain ⟨k, rfl⟩ : ∃ k, n = k + 1 := ⟨n - 1, by omega⟩
      have e1 := h1 k (by omega)
      have e2 := h2 k (by omega)
      dsimp only at e1 e2 ⊢
      have : supItems (.cons e (.cons e' t')) true ++ .sym ")" :: r
          = supToks e true none ++ .sym "," :: (supItems (.cons e' t') true ++ .sym ")" :: r) := by
        rw [supItems]; simp only [if_true, List.nil_append, supItems_false, List.append_assoc, List.cons_append]
      rw [this]
      simp only [parseSupList, e1, e2]
    | _ => exact absurd h.2 (by simp [supNormalL])

/-- the supertype expression of an entity header is read back exactly when it is in left-normal form -/
theorem sup_roundtrip_normal (s : SupEx) (h : supNormal s) (r : List DTok) (hr : NoOp r) :
    Ev (fun n => parseSupExpr n (supToks s false none ++ r)) (s, r) :=
  ((sup_rt s).1 h).1 false none r (s, r) (loop_stop s r hr)

/-! ### the clauses of an entity body -/

theorem parseAttrName_toks (nm : AttrName) (r : List DTok) : parseAttrName (nm.toks ++ r) = some (nm, r) := by
  cases nm <;> simp [AttrName.toks, parseAttrName]

/-- what follows a clause: a keyword that does not begin an attribute name -/
def StopKw : List DTok → Prop
  | .kw k :: _ => k ≠ "SELF"
  | _ => False

theorem parseAttrName_stop (r : List DTok) (h : StopKw r) : parseAttrName r = none := by
  cases r with
  | nil => simp [StopKw] at h
  | cons t r =>
    cases t with
    | kw k =>
      simp only [StopKw] at h
      unfold parseAttrName
      split
      · rename_i heq; cases heq
      · rename_i heq; cases heq; exact absurd rfl h
      · rfl
    | _ => simp [StopKw] at h

theorem parseExpl_rt : ∀ (as : List ExplAttr), (∀ a ∈ as, wfTy a.ty) → ∀ D, (∀ a ∈ as, tyDepth a.ty ≤ D) →
    ∀ n, as.length + D + 1 ≤ n → ∀ r, StopKw r → parseExpl n (as.flatMap explToks ++ r) = some (as, r) := by
  intro as
  induction as with
  | nil =>
    intro _ D _ n hn r hr
    obtain ⟨k, rfl⟩ : ∃ k, n = k + 1 := ⟨n - 1, by omega⟩
    simp [parseExpl, parseAttrName_stop r hr]
  | cons a as ih =>
    intro hwf D hD n hn r hr
    obtain ⟨k, rfl⟩ : ∃ k, n = k + 1 := ⟨n - 1, by simp at hn; omega⟩
    have hrec := ih (fun x hx => hwf x (List.mem_cons_of_mem _ hx)) D (fun x hx => hD x (List.mem_cons_of_mem _ hx)) k
      (by simp at hn; omega) r hr
    have hd : tyDepth a.ty ≤ k := by have := hD a (by simp); simp at hn; omega
    have hwa : wfTy a.ty := hwf a (by simp)
    obtain ⟨nm, op, ty⟩ := a
    have hty := type_roundtrip ty hwa k hd (.sym ";" :: (as.flatMap explToks ++ r)) (by simp [TyFol])
    have hmiss := takeKw_miss_head "OPTIONAL" _ (tyToks_head ty hwa (.sym ";" :: (as.flatMap explToks ++ r))) (Or.inr rfl)
    simp only [List.flatMap_cons, explToks, List.append_assoc, parseExpl, parseAttrName_toks]
    cases op with
    | true => simp [takeKw_hit, hty, hrec]
    | false => simp [hmiss, hty, hrec]

theorem parseDer_rt : ∀ (as : List DerAttr), (∀ a ∈ as, wfTy a.ty) → ∀ D, (∀ a ∈ as, tyDepth a.ty ≤ D) →
    ∀ n, as.length + D + 1 ≤ n → ∀ r, StopKw r → parseDer n (as.flatMap derToks ++ r) = some (as, r) := by
  intro as
  induction as with
  | nil =>
    intro _ D _ n hn r hr
    obtain ⟨k, rfl⟩ : ∃ k, n = k + 1 := ⟨n - 1, by omega⟩
    simp [parseDer, parseAttrName_stop r hr]
  | cons a as ih =>
    intro hwf D hD n hn r hr
    obtain ⟨k, rfl⟩ : ∃ k, n = k + 1 := ⟨n - 1, by simp at hn; omega⟩
    have hrec := ih (fun x hx => hwf x (List.mem_cons_of_mem _ hx)) D (fun x hx => hD x (List.mem_cons_of_mem _ hx)) k
      (by simp at hn; omega) r hr
    have hd : tyDepth a.ty ≤ k := by have := hD a (by simp); simp at hn; omega
    have hwa : wfTy a.ty := hwf a (by simp)
    obtain ⟨nm, ty, init⟩ := a
    have hty := type_roundtrip ty hwa k hd (.sym ":=" :: .ex init :: .sym ";" :: (as.flatMap derToks ++ r)) (by simp [TyFol])
    simp only [List.flatMap_cons, derToks, List.append_assoc, parseDer, parseAttrName_toks]
    simp [hty, hrec]

def wfInv (a : InvAttr) : Prop := ∀ k b, a.aggr = some (k, b) → k = "SET" ∨ k = "BAG"

theorem parseInvTy_rt (a : InvAttr) (h : wfInv a) (r : List DTok) :
    parseInvTy (tyToks (invTy a) ++ r) = some ((a.aggr, a.ent), r) := by
  obtain ⟨nm, ag, en, atr⟩ := a
  cases ag with
  | none => simp [invTy, tyToks, parseInvTy]
  | some kb =>
    obtain ⟨k, b⟩ := kb
    have hk := h k b rfl
    have hnot : ¬ ((k = "ARRAY" ∨ k = "LIST") ∧ False) := by simp
    cases b with
    | none =>
      rcases hk with rfl | rfl <;> simp [invTy, tyToks, parseInvTy, takeBounds]
    | some lh =>
      obtain ⟨lo, hi⟩ := lh
      rcases hk with rfl | rfl <;> simp [invTy, tyToks, parseInvTy, takeBounds]

theorem parseInv_rt : ∀ (as : List InvAttr), (∀ a ∈ as, wfInv a) →
    ∀ n, as.length + 1 ≤ n → ∀ r, StopKw r → parseInv n (as.flatMap invToks ++ r) = some (as, r) := by
  intro as
  induction as with
  | nil =>
    intro _ n hn r hr
    obtain ⟨k, rfl⟩ : ∃ k, n = k + 1 := ⟨n - 1, by omega⟩
    simp [parseInv, parseAttrName_stop r hr]
  | cons a as ih =>
    intro hwf n hn r hr
    obtain ⟨k, rfl⟩ : ∃ k, n = k + 1 := ⟨n - 1, by simp at hn; omega⟩
    have hrec := ih (fun x hx => hwf x (List.mem_cons_of_mem _ hx)) k (by simp at hn; omega) r hr
    have hty := parseInvTy_rt a (hwf a (by simp)) (.kw "FOR" :: .id a.attr :: .sym ";" :: (as.flatMap invToks ++ r))
    simp only [List.flatMap_cons, invToks, List.append_assoc, parseInv, parseAttrName_toks]
    simp [hty, hrec]

theorem parseRefs_rt : ∀ (es : List Expr), es ≠ [] → ∀ n, es.length ≤ n → ∀ r,
    parseRefs n (refsToks es ++ .sym ";" :: r) = some (es, r) := by
  intro es
  induction es with
  | nil => intro h; exact absurd rfl h
  | cons e es ih =>
    intro _ n hn r
    obtain ⟨k, rfl⟩ : ∃ k, n = k + 1 := ⟨n - 1, by simp at hn; omega⟩
    cases es with
    | nil => simp [refsToks, parseRefs]
    | cons e' es' =>
      have := ih (by simp) k (by simp at hn ⊢; omega) r
      simp only [refsToks, List.cons_append, parseRefs] at this ⊢
      simp [this]

/-- what follows the UNIQUE and WHERE clauses: a keyword -/
def AnyKw : List DTok → Prop
  | .kw _ :: _ => True
  | _ => False

theorem parseUniq_rt : ∀ (us : List UniqRule), (∀ u ∈ us, u.refs ≠ []) → ∀ M, (∀ u ∈ us, u.refs.length ≤ M) →
    ∀ n, us.length + M + 1 ≤ n → ∀ r, AnyKw r → parseUniq n (us.flatMap uniqToks ++ r) = some (us, r) := by
  intro us
  induction us with
  | nil =>
    intro _ M _ n hn r hr
    obtain ⟨k, rfl⟩ : ∃ k, n = k + 1 := ⟨n - 1, by omega⟩
    cases r with
    | nil => simp [AnyKw] at hr
    | cons t r => cases t <;> simp [AnyKw] at hr; simp [parseUniq]
  | cons u us ih =>
    intro hne M hM n hn r hr
    obtain ⟨k, rfl⟩ : ∃ k, n = k + 1 := ⟨n - 1, by simp at hn; omega⟩
    have hrec := ih (fun x hx => hne x (List.mem_cons_of_mem _ hx)) M (fun x hx => hM x (List.mem_cons_of_mem _ hx)) k
      (by simp at hn; omega) r hr
    have hrefs := parseRefs_rt u.refs (hne u (by simp)) k (by have := hM u (by simp); simp at hn; omega) (us.flatMap uniqToks ++ r)
    obtain ⟨lab, refs⟩ := u
    cases lab with
    | some l =>
      simp only [List.flatMap_cons, uniqToks, List.append_assoc, List.cons_append, List.nil_append, parseUniq]
      simp only at hrefs
      simp [hrefs, hrec]
    | none =>
      cases refs with
      | nil => exact absurd rfl (hne ⟨none, []⟩ (by simp))
      | cons e es =>
        simp only [List.flatMap_cons, uniqToks, List.append_assoc, List.nil_append, List.singleton_append]
        simp only at hrefs
        cases es with
        | nil =>
          simp only [refsToks, List.cons_append, List.nil_append] at hrefs ⊢
          simp only [parseUniq, hrefs]
          simp [hrec]
        | cons e' es' =>
          simp only [refsToks, List.cons_append, List.nil_append] at hrefs ⊢
          simp only [parseUniq, hrefs]
          simp [hrec]

theorem parseDom_rt : ∀ (ws : List DomRule), ∀ n, ws.length + 1 ≤ n → ∀ r, AnyKw r →
    parseDom n (ws.flatMap domToks ++ r) = some (ws, r) := by
  intro ws
  induction ws with
  | nil =>
    intro n hn r hr
    obtain ⟨k, rfl⟩ : ∃ k, n = k + 1 := ⟨n - 1, by omega⟩
    cases r with
    | nil => simp [AnyKw] at hr
    | cons t r => cases t <;> simp [AnyKw] at hr; simp [parseDom]
  | cons w ws ih =>
    intro n hn r hr
    obtain ⟨k, rfl⟩ : ∃ k, n = k + 1 := ⟨n - 1, by simp at hn; omega⟩
    have hrec := ih k (by simp at hn; omega) r hr
    obtain ⟨lab, e⟩ := w
    cases lab <;> simp [domToks, parseDom, hrec]

theorem parseIdList_rt : ∀ (ss : List String), ss ≠ [] → ∀ n, ss.length ≤ n → ∀ r,
    parseIdList n (nameListToks ss ++ .sym ")" :: r) = some (ss, r) := by
  intro ss
  induction ss with
  | nil => intro h; exact absurd rfl h
  | cons s ss ih =>
    intro _ n hn r
    obtain ⟨k, rfl⟩ : ∃ k, n = k + 1 := ⟨n - 1, by simp at hn; omega⟩
    cases ss with
    | nil => simp [nameListToks, parseIdList]
    | cons s' ss' =>
      have := ih (by simp) k (by simp at hn ⊢; omega) r
      simp only [nameListToks, List.cons_append, parseIdList] at this ⊢
      simp [this]

theorem clause_rt {α : Type} (k : String) (p : List DTok → Option (List α × List DTok)) (toks : α → List DTok)
    (items : List α) (X : List DTok) (hX : ∃ k' r, X = .kw k' :: r ∧ k' ≠ k)
    (hp : items ≠ [] → p (items.flatMap toks ++ X) = some (items, X)) :
    optClause k p ((if items = [] then [] else .kw k :: items.flatMap toks) ++ X) = some (items, X) := by
  by_cases h : items = []
  · subst h
    obtain ⟨k', r, rfl, hk⟩ := hX
    simp [optClause, hk]
  · simp [h, optClause, hp h]

/-! ### the whole declaration -/

def KwHead (ks : List String) (X : List DTok) : Prop := ∃ k r, X = .kw k :: r ∧ k ∈ ks

theorem kwHead_clause {α : Type} (k : String) (ks : List String) (items : List α) (stuff : List DTok) (X : List DTok)
    (h : KwHead ks X) : KwHead (k :: ks) ((if items = [] then [] else .kw k :: stuff) ++ X) := by
  by_cases hi : items = []
  · obtain ⟨k', r, rfl, hk⟩ := h
    exact ⟨k', r, by simp [hi], List.mem_cons_of_mem _ hk⟩
  · exact ⟨k, stuff ++ X, by simp [hi], by simp⟩

theorem KwHead.ne {ks : List String} {X : List DTok} (h : KwHead ks X) (k : String) (hk : k ∉ ks) :
    ∃ k' r, X = .kw k' :: r ∧ k' ≠ k := by
  obtain ⟨k', r, rfl, hm⟩ := h
  exact ⟨k', r, rfl, fun he => hk (he ▸ hm)⟩

theorem KwHead.stop {ks : List String} {X : List DTok} (h : KwHead ks X) (hk : "SELF" ∉ ks) : StopKw X := by
  obtain ⟨k', r, rfl, hm⟩ := h
  exact fun he => hk (he ▸ hm)

theorem KwHead.any {ks : List String} {X : List DTok} (h : KwHead ks X) : AnyKw X := by
  obtain ⟨k', r, rfl, _⟩ := h; trivial

def tailDom (e : EntityDecl) (r : List DTok) : List DTok :=
  (if e.dom = [] then [] else .kw "WHERE" :: e.dom.flatMap domToks) ++ (.kw "END_ENTITY" :: .sym ";" :: r)
def tailUniq (e : EntityDecl) (r : List DTok) : List DTok :=
  (if e.uniq = [] then [] else .kw "UNIQUE" :: e.uniq.flatMap uniqToks) ++ tailDom e r
def tailInv (e : EntityDecl) (r : List DTok) : List DTok :=
  (if e.inv = [] then [] else .kw "INVERSE" :: e.inv.flatMap invToks) ++ tailUniq e r
def tailDer (e : EntityDecl) (r : List DTok) : List DTok :=
  (if e.der = [] then [] else .kw "DERIVE" :: e.der.flatMap derToks) ++ tailInv e r

theorem head_end (r : List DTok) : KwHead ["END_ENTITY"] (.kw "END_ENTITY" :: .sym ";" :: r) := ⟨_, _, rfl, by simp⟩
theorem head_dom (e : EntityDecl) (r : List DTok) : KwHead ["WHERE", "END_ENTITY"] (tailDom e r) :=
  kwHead_clause "WHERE" _ e.dom _ _ (head_end r)
theorem head_uniq (e : EntityDecl) (r : List DTok) : KwHead ["UNIQUE", "WHERE", "END_ENTITY"] (tailUniq e r) :=
  kwHead_clause "UNIQUE" _ e.uniq _ _ (head_dom e r)
theorem head_inv (e : EntityDecl) (r : List DTok) : KwHead ["INVERSE", "UNIQUE", "WHERE", "END_ENTITY"] (tailInv e r) :=
  kwHead_clause "INVERSE" _ e.inv _ _ (head_uniq e r)
theorem head_der (e : EntityDecl) (r : List DTok) : KwHead ["DERIVE", "INVERSE", "UNIQUE", "WHERE", "END_ENTITY"] (tailDer e r) :=
  kwHead_clause "DERIVE" _ e.der _ _ (head_inv e r)

theorem exists_bound {α : Type} (l : List α) (f : α → Nat) : ∃ D, ∀ a ∈ l, f a ≤ D := by
  induction l with
  | nil => exact ⟨0, by simp⟩
  | cons x l ih =>
    obtain ⟨D, hD⟩ := ih
    refine ⟨max D (f x), ?_⟩
    intro a ha
    rcases List.mem_cons.mp ha with rfl | ha
    · exact Nat.le_max_right _ _
    · exact Nat.le_trans (hD a ha) (Nat.le_max_left _ _)

/-- entity declarations the grammar can produce, with the supertype expression in left-normal form -/
structure wfEntity (e : EntityDecl) : Prop where
  sup : ∀ s, e.sup = some s → supNormal s
  expl : ∀ a ∈ e.expl, wfTy a.ty
  der : ∀ a ∈ e.der, wfTy a.ty
  inv : ∀ a ∈ e.inv, wfInv a
  uniq : ∀ u ∈ e.uniq, u.refs ≠ []

/-- the body of an entity (everything after the header's semicolon) is read back clause by clause -/
theorem body_rt (e : EntityDecl) (hw : wfEntity e) (r : List DTok) :
    ∃ n0, ∀ n, n0 ≤ n →
      parseExpl n (e.expl.flatMap explToks ++ tailDer e r) = some (e.expl, tailDer e r)
      ∧ optClause "DERIVE" (parseDer n) (tailDer e r) = some (e.der, tailInv e r)
      ∧ optClause "INVERSE" (parseInv n) (tailInv e r) = some (e.inv, tailUniq e r)
      ∧ optClause "UNIQUE" (parseUniq n) (tailUniq e r) = some (e.uniq, tailDom e r)
      ∧ optClause "WHERE" (parseDom n) (tailDom e r) = some (e.dom, .kw "END_ENTITY" :: .sym ";" :: r) := by
  obtain ⟨D1, hD1⟩ := exists_bound e.expl (fun a => tyDepth a.ty)
  obtain ⟨D2, hD2⟩ := exists_bound e.der (fun a => tyDepth a.ty)
  obtain ⟨M, hM⟩ := exists_bound e.uniq (fun u => u.refs.length)
  refine ⟨e.expl.length + D1 + e.der.length + D2 + e.inv.length + e.uniq.length + M + e.dom.length + 1, fun n hn => ⟨?_, ?_, ?_, ?_, ?_⟩⟩
  · exact parseExpl_rt e.expl hw.expl D1 hD1 n (by omega) _ ((head_der e r).stop (by decide))
  · exact clause_rt "DERIVE" (parseDer n) derToks e.der _ ((head_inv e r).ne _ (by decide))
      (fun _ => parseDer_rt e.der hw.der D2 hD2 n (by omega) _ ((head_inv e r).stop (by decide)))
  · exact clause_rt "INVERSE" (parseInv n) invToks e.inv _ ((head_uniq e r).ne _ (by decide))
      (fun _ => parseInv_rt e.inv hw.inv n (by omega) _ ((head_uniq e r).stop (by decide)))
  · exact clause_rt "UNIQUE" (parseUniq n) uniqToks e.uniq _ ((head_dom e r).ne _ (by decide))
      (fun _ => parseUniq_rt e.uniq hw.uniq M hM n (by omega) _ (head_dom e r).any)
  · exact clause_rt "WHERE" (parseDom n) domToks e.dom _ ((head_end r).ne _ (by decide))
      (fun _ => parseDom_rt e.dom n (by omega) _ (head_end r).any)

theorem entityToks_eq (e : EntityDecl) (r : List DTok) :
    entityToks e ++ r = .kw "ENTITY" :: .id e.name ::
      ((if e.abstract then [.kw "ABSTRACT"] else [])
        ++ ((match e.sup with
             | some s => [.kw "SUPERTYPE", .kw "OF", .sym "("] ++ supToks s false none ++ [.sym ")"]
             | none => if e.abstract then [.kw "SUPERTYPE"] else [])
          ++ ((if e.subOf = [] then [] else [.kw "SUBTYPE", .kw "OF", .sym "("] ++ nameListToks e.subOf ++ [.sym ")"])
            ++ .sym ";" :: (e.expl.flatMap explToks ++ tailDer e r)))) := by
  obtain ⟨name, ab, sup, sub, ex, de, iv, uq, wh⟩ := e
  cases sup <;> simp [entityToks, tailDer, tailInv, tailUniq, tailDom, List.append_assoc]

/-- **ENTITY declarations: print/parse round trip at token level.** -/
theorem entity_rt (e : EntityDecl) (hw : wfEntity e) (r : List DTok) :
    Ev (fun n => parseEntity n (entityToks e ++ r)) (e, r) := by
  obtain ⟨n1, hb⟩ := body_rt e hw r
  have hsupEv : ∀ s, e.sup = some s → ∀ X, Ev (fun n => parseSupExpr n (supToks s false none ++ .sym ")" :: X)) (s, .sym ")" :: X) :=
    fun s hs X => sup_roundtrip_normal s (hw.sup s hs) _ (by simp [NoOp])
  have hsub : e.subOf ≠ [] → ∀ n, e.subOf.length ≤ n → ∀ X, parseIdList n (nameListToks e.subOf ++ .sym ")" :: X) = some (e.subOf, X) :=
    fun h n hn X => parseIdList_rt e.subOf h n hn X
  obtain ⟨name, ab, sup, sub, ex, de, iv, uq, wh⟩ := e
  simp only at hsupEv hsub
  cases sup with
  | none =>
    refine ⟨n1 + sub.length + 1, fun n hn => ?_⟩
    obtain ⟨b1, b2, b3, b4, b5⟩ := hb n (by omega)
    dsimp only
    rw [entityToks_eq]
    by_cases hs : sub = []
    · subst hs
      cases ab <;> simp [parseEntity, takeKw, b1, b2, b3, b4, b5]
    · have := hsub hs n (by omega)
      cases ab <;> simp [parseEntity, takeKw, hs, this, b1, b2, b3, b4, b5]
  | some s =>
    obtain ⟨n2, h2⟩ := hsupEv s rfl
      ((if sub = [] then [] else [.kw "SUBTYPE", .kw "OF", .sym "("] ++ nameListToks sub ++ [.sym ")"])
        ++ .sym ";" :: (ex.flatMap explToks ++ tailDer ⟨name, ab, some s, sub, ex, de, iv, uq, wh⟩ r))
    refine ⟨n1 + n2 + sub.length + 1, fun n hn => ?_⟩
    obtain ⟨b1, b2, b3, b4, b5⟩ := hb n (by omega)
    have e2 := h2 n (by omega)
    dsimp only at e2 ⊢
    rw [entityToks_eq]
    by_cases hs : sub = []
    · subst hs
      simp only [if_true, List.nil_append] at e2
      cases ab <;> simp [parseEntity, takeKw, e2, b1, b2, b3, b4, b5]
    · have := hsub hs n (by omega)
      simp only [hs, if_false, List.append_assoc, List.cons_append, List.nil_append, List.singleton_append] at e2
      cases ab <;> simp [parseEntity, takeKw, hs, e2, this, b1, b2, b3, b4, b5]

/-! ### supertype chains: a right operand keeps its parentheses, nothing is regrouped -/

theorem supFlag : ExpPrec.rightOperandSeesParent = false := rfl
theorem supRprev_none (o : Bool) : supRprev o = none := by simp [supRprev, supFlag]

/-- what the parser reads back is the supertype expression itself -/
theorem supNorm_id : ∀ s : SupEx, supNorm s = s := by
  intro s
  induction s with
  | bin o a b iha ihb => simp [supNorm, supFlag, iha, ihb]
  | oneof items ih => simp [supNorm, ih]
  | cons e t ihe iht => simp [supNorm, ihe, iht]
  | _ => simp [supNorm]

theorem factorCtx_none (b : SupEx) : factorCtx b true none := by
  cases b <;> simp [factorCtx, supParen_eq]

mutual
/-- supertype expressions the parser can build -/
def wfSup : SupEx → Prop
  | .ent _ => True
  | .oneof items => items ≠ .nil ∧ wfSupL items
  | .bin _ a b => wfSup a ∧ wfSup b
  | .nil | .cons _ _ => False
def wfSupL : SupEx → Prop
  | .nil => True
  | .cons e t => wfSup e ∧ wfSupL t
  | _ => False
end

theorem wfSup_normal (s : SupEx) : (wfSup s → supNormal s) ∧ (wfSupL s → supNormalL s) := by
  induction s with
  | ent x => exact ⟨fun _ => trivial, fun h => absurd h (by simp [wfSupL])⟩
  | oneof items ih =>
    refine ⟨fun h => ?_, fun h => absurd h (by simp [wfSupL])⟩
    simp only [wfSup] at h
    simp only [supNormal]
    exact ⟨h.1, ih.2 h.2⟩
  | bin o a b iha ihb =>
    refine ⟨fun h => ?_, fun h => absurd h (by simp [wfSupL])⟩
    simp only [wfSup] at h
    simp only [supNormal, supRprev_none]
    exact ⟨iha.1 h.1, ihb.1 h.2, factorCtx_none b⟩
  | nil => exact ⟨fun h => absurd h (by simp [wfSup]), fun _ => by simp [supNormalL]⟩
  | cons e t ihe iht =>
    refine ⟨fun h => absurd h (by simp [wfSup]), fun h => ?_⟩
    simp only [wfSupL] at h
    simp only [supNormalL]
    exact ⟨ihe.1 h.1, iht.2 h.2⟩

theorem supNorm_all (s : SupEx) :
    ((∀ p q, supToks (supNorm s) p q = supToks s p q) ∧ (∀ f, supItems (supNorm s) f = supItems s f))
    ∧ (wfSup s → supNormal (supNorm s)) ∧ (wfSupL s → supNormalL (supNorm s) ∧ (s ≠ .nil → supNorm s ≠ .nil)) := by
  rw [supNorm_id]
  exact ⟨⟨fun _ _ => rfl, fun _ => rfl⟩, (wfSup_normal s).1, fun h => ⟨(wfSup_normal s).2 h, fun hh => hh⟩⟩

/-- entity declarations the grammar can produce -/
structure wfEntityP (e : EntityDecl) : Prop where
  sup : ∀ s, e.sup = some s → wfSup s
  expl : ∀ a ∈ e.expl, wfTy a.ty
  der : ∀ a ∈ e.der, wfTy a.ty
  inv : ∀ a ∈ e.inv, wfInv a
  uniq : ∀ u ∈ e.uniq, u.refs ≠ []

theorem entityToks_norm (e : EntityDecl) : entityToks e.norm = entityToks e := by
  obtain ⟨name, ab, sup, sub, ex, de, iv, uq, wh⟩ := e
  cases sup with
  | none => rfl
  | some s =>
    unfold EntityDecl.norm entityToks
    simp only [Option.map_some, (supNorm_all s).1.1]

theorem wfEntity_norm (e : EntityDecl) (h : wfEntityP e) : wfEntity e.norm := by
  obtain ⟨name, ab, sup, sub, ex, de, iv, uq, wh⟩ := e
  refine ⟨?_, h.expl, h.der, h.inv, h.uniq⟩
  intro s hs
  cases sup with
  | none => simp [EntityDecl.norm] at hs
  | some s0 =>
    simp only [EntityDecl.norm, Option.map_some, Option.some.injEq] at hs
    subst hs
    exact (supNorm_all s0).2.1 (h.sup s0 rfl)

theorem entity_norm_id (e : EntityDecl) : e.norm = e := by
  obtain ⟨name, ab, sup, sub, ex, de, iv, uq, wh⟩ := e
  cases sup <;> simp [EntityDecl.norm, supNorm_id]

end StepModel.Express

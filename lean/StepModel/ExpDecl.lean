import StepModel.ExpParse
/-!
# declaration-level fragment order of exppp (property C07)

`SCHEMAout` (after the header comment), `SCOPEconsts_out`/`SCOPEconst_out`, `SCOPEtypes_out`/`TYPE_out`, `SCOPEentities_out`/
`ENTITY_out`, `ENTITYattrs_out` (explicit and DERIVE), `WHERE_out`, `TYPE_head_out`/`TYPE_body_out`/`EXPRbounds_out` for
simple, named and aggregation types, `tail_comment`, alphabetical order (`SCOPEadd_inorder`).
Not modelled (schemas with them are not generated): USE/REFERENCE, SUPERTYPE/SUBTYPE, INVERSE, UNIQUE, enumeration and select
types, functions, procedures, rules, statements.
-/
namespace StepModel.Express
open StepModel.Generated

inductive TypeRef
  | named (s : String)                     -- defined type or entity: has a symbol name
  | simple (kw : String)                   -- INTEGER REAL STRING BINARY BOOLEAN LOGICAL NUMBER
  | aggr (kind : String) (bounds : Option (Expr × Expr)) (uniq opt : Bool) (base : TypeRef)   -- ARRAY BAG SET LIST
  deriving Repr, Inhabited

structure Attr where
  name : String
  optional : Bool
  ty : TypeRef
  init : Option Expr
  deriving Repr, Inhabited

structure WhereRule where
  label : Option String        -- as written in the source
  expr : Expr
  deriving Repr, Inhabited

structure Entity where
  name : String
  attrs : List Attr
  wheres : List WhereRule
  deriving Repr, Inhabited

structure TypeDecl where
  name : String
  ty : TypeRef
  wheres : List WhereRule
  deriving Repr, Inhabited

structure Schema where
  name : String
  consts : List Attr
  types : List TypeDecl
  entities : List Entity
  deriving Repr, Inhabited

structure Opts where
  linelen : Nat := ExpPrec.defaultLineLength
  tail : Bool := false          -- -t
  wrapConsts : Bool := false    -- -c
  deriving Repr

def spaces (n : Nat) : List Char := List.replicate n ' '
def rawS (st : PState) (s : String) : PState := raw st s.toList
def wrapS (st : PState) (s : String) : PState := wrap st s.toList
/-- `%-*s` -/
def padRight (s : String) (w : Int) : List Char := s.toList ++ spaces (w.natAbs - s.length)

def exprOut (sh : Shared) (st : PState) (e : Expr) (paren : Bool) : PState := run st (exprFrags sh e paren none)

/-- label `WHERE_out` sees and prints: the parser's placeholder for unlabelled rules unless the printer suppresses it -/
def effLabel (w : WhereRule) : Option String :=
  let l := match w.label with
    | some l => some l
    | none => if ExpPrec.unnamedLabel = "" then none else some ExpPrec.unnamedLabel
  match l with
  | some l => if ExpPrec.whereNoLabelNames.contains l then none else some l
  | none => none

def whereOut (sh : Shared) (st : PState) (ws : List WhereRule) (level : Nat) : PState :=
  if ws.isEmpty then st else
  let st := raw st (spaces level ++ "WHERE\n".toList)
  let level := level + ExpPrec.nestingIndent
  let mx : Nat := ws.foldl (fun m w => match effLabel w with | some l => max m l.length | none => m) 0
  let mx := if mx > 10 then 4 else mx
  let st := { st with indent2 := level + mx + 2 + ExpPrec.continuationIndent }
  ws.foldl (fun st w =>
    let st := match effLabel w with
      | some l => raw st (spaces level ++ padRight l mx ++ ": ".toList)
      | none => raw st (spaces level ++ spaces mx ++ "  ".toList)
    let st := exprOut sh st w.expr (mx != 0)
    rawS st ";\n") st

def tailComment (o : Opts) (st : PState) (name : String) : PState :=
  let st := if o.tail then rawS st (" -- " ++ name) else st
  rawS st "\n"

mutual
/-- `TYPE_head_out( t, NOLEVEL )` -/
def typeHeadOut (sh : Shared) (st : PState) : TypeRef → PState
  | .named s =>
    let old := st.indent2
    let st := if st.indent2 + s.length > st.linelen then { st with indent2 := (st.indent2 - 1) / 2 } else st
    let st := wrapS st (" " ++ s)
    { st with indent2 := old }
  | t => typeBodyOut sh st t
def typeBodyOut (sh : Shared) (st : PState) : TypeRef → PState
  | .simple kw => wrapS st (" " ++ kw)
  | .named s => wrapS st (" " ++ s)
  | .aggr kind bounds uniq opt base =>
    let st := wrapS st (" " ++ kind)
    let st := match bounds with
      | some (lo, hi) =>
        let st := wrapS st " ["
        let st := exprOut sh st lo false
        let st := wrapS st " : "
        let st := exprOut sh st hi false
        rawS st "]"
      | none => st
    let st := wrapS st " OF"
    let st := if (kind = "ARRAY" || kind = "LIST") && uniq then wrapS st " UNIQUE" else st
    let st := if (kind = "ARRAY" || kind = "LIST") && opt then wrapS st " OPTIONAL" else st
    typeHeadOut sh st base
end

def attrsOut (o : Opts) (sh : Shared) (st : PState) (attrs : List Attr) (derived : Bool) (level : Nat) : PState :=
  let sel := attrs.filter (fun a => a.init.isSome == derived)
  let mx : Int := sel.foldl (fun m a => max m a.name.length) 0
  if mx = 0 then st else
  let st := if derived then raw st (spaces level ++ "DERIVE\n".toList) else st
  let level := level + ExpPrec.nestingIndent
  let mx : Int := if (level : Int) + mx > (o.linelen / 3 : Nat) then ((o.linelen / 3 : Nat) : Int) - level else mx
  let st := { st with indent2 := ((level : Int) + mx + 2 + ExpPrec.continuationIndent).toNat }
  sel.foldl (fun st a =>
    let st := raw st (spaces level)
    let st := wrapS st a.name
    let sp : Int := (level : Int) + mx + 2 - st.curpos
    let st := raw st (spaces sp.toNat ++ " :".toList)
    let st := if a.optional then wrapS st " OPTIONAL" else st
    let st := typeHeadOut sh st a.ty
    let st := match a.init with
      | some e => if derived then exprOut sh (wrapS st " := ") e false else st
      | none => st
    rawS st ";\n") st

def entityOut (o : Opts) (sh : Shared) (st : PState) (e : Entity) (level : Nat) : PState :=
  let st := rawS st "\n"
  let st := raw st (spaces level ++ "ENTITY ".toList ++ e.name.toList)
  let level := level + ExpPrec.nestingIndent
  let st := { st with indent2 := level + ExpPrec.continuationIndent }
  let st := rawS st ";\n"
  let st := attrsOut o sh st e.attrs false level
  let st := attrsOut o sh st e.attrs true level
  let st := whereOut sh st e.wheres level
  let level := level - ExpPrec.nestingIndent
  let st := raw st (spaces level ++ "END_ENTITY;".toList)
  tailComment o st e.name

def typeOut (o : Opts) (sh : Shared) (st : PState) (t : TypeDecl) (level : Nat) : PState :=
  let st := rawS st "\n"
  let st := raw st (spaces level ++ "TYPE ".toList ++ t.name.toList ++ " =".toList)
  let st := match t.ty with
    | .named s => wrapS st (" " ++ s)
    | ty => typeBodyOut sh st ty
  let st := rawS st ";\n"
  let st := whereOut sh st t.wheres level
  let st := raw st (spaces level ++ "END_TYPE;".toList)
  tailComment o st t.name

def constOut (o : Opts) (sh : Shared) (st : PState) (c : Attr) (level : Nat) (mx : Nat) : PState :=
  let st := raw st (spaces (level + 2) ++ padRight c.name mx ++ " :".toList)
  let st := if c.optional then wrapS st " OPTIONAL" else st
  let old := st.indent2
  let st := if st.indent2 > 4 then { st with indent2 := st.indent2 - 4 } else st
  let st := typeHeadOut sh st c.ty
  let st := { st with indent2 := old }
  let st := match c.init with
    | some e =>
      let oldll := st.linelen
      let st := rawS st " :="
      let st := raw st ('\n' :: spaces (st.indent2 - 2))
      let st := if o.wrapConsts then { st with linelen := st.indent2 } else st
      let st := exprOut sh st e false
      { st with linelen := oldll }
    | none => st
  rawS st ";\n"

/-- `SCOPEadd_inorder`: insert before the first element whose name is greater -/
def insertByName {α} (nm : α → String) (x : α) : List α → List α
  | [] => [x]
  | y :: ys => if nm x < nm y then x :: y :: ys else y :: insertByName nm x ys

def sortByName {α} (nm : α → String) (xs : List α) : List α := xs.foldl (fun acc x => insertByName nm x acc) []

def constsOut (o : Opts) (sh : Shared) (st : PState) (cs : List Attr) (level : Nat) : PState :=
  let mx : Nat := cs.foldl (fun m c => max m c.name.length) 0
  if mx = 0 then st else
  let st := rawS st "\n"
  let st := raw st (spaces level ++ "CONSTANT\n".toList)
  let mx := if mx + 20 > o.linelen / 2 then o.linelen / 3 else mx
  let st := { st with indent2 := level + mx + 4 + ExpPrec.continuationIndent }
  let st := (sortByName (·.name) cs).foldl (fun st c => constOut o sh st c level mx) st
  raw st (spaces level ++ "END_CONSTANT;\n".toList)

def exprsOfType : TypeRef → List Expr
  | .aggr _ (some (a, b)) _ _ base => a :: b :: exprsOfType base
  | .aggr _ none _ _ base => exprsOfType base
  | _ => []

/-- every expression of the schema, in source order (what the parser sees) -/
def Schema.exprs (s : Schema) : List Expr :=
  s.consts.flatMap (fun c => exprsOfType c.ty ++ c.init.toList)
    ++ s.types.flatMap (fun t => exprsOfType t.ty ++ t.wheres.map (·.expr))
    ++ s.entities.flatMap (fun e => e.attrs.flatMap (fun a => exprsOfType a.ty ++ a.init.toList) ++ e.wheres.map (·.expr))

/-- repeat flags left on the shared literal nodes after the whole file has been parsed -/
def Schema.shared (s : Schema) : Shared :=
  if ExpPrec.repeatOverwritesCountType then
    s.exprs.foldl (fun a e => sharedOf.or3 a (sharedOf e)) {}
  else Shared.clean

/-- `SCHEMAout` after the header comment -/
def schemaOut (o : Opts) (s : Schema) : PState :=
  let sh := s.shared
  let st : PState := { curpos := 1, linelen := o.linelen }
  let st := rawS st ("\nSCHEMA " ++ s.name ++ ";\n")
  let level := ExpPrec.nestingIndent
  let st := constsOut o sh st s.consts level
  let st := (sortByName (·.name) s.types).foldl (fun st t => typeOut o sh st t level) st
  let st := (sortByName (·.name) s.entities).foldl (fun st e => entityOut o sh st e level) st
  let st := rawS st "\nEND_SCHEMA;"
  tailComment o st s.name

end StepModel.Express

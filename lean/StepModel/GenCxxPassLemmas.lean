import StepModel.GenCxxPass
/-! Invariant of the pass decision under the original last case of `ENUMcanBeProcessed`: nothing is ever marked CANTPROCESS. -/
namespace StepModel.GenFiles.Pass
open StepModel.Generated.CxxPass

def NoCant (m : Marks) : Prop := ∀ k, m k ≠ .cantprocess

theorem noCant_set (m : Marks) (n : String) (v : Mark) (h : NoCant m) (hv : v ≠ .cantprocess) : NoCant (setMark m n v) := by
  intro k; unfold setMark; split
  · exact hv
  · exact h k

theorem enumCan_of_noCant (os : List Obj) (m : Marks) (e : String) (h : NoCant m) :
    enumCanBeProcessed .inSchemaOrProcessed os m e = true := by
  unfold enumCanBeProcessed
  cases hm : m e with
  | notknown =>
    simp only
    cases (lookup os e).bind (·.renameOf) with
    | none => rfl
    | some a => rfl
  | canprocess => rfl
  | processed => rfl
  | cantprocess => exact absurd hm (h e)

def Good (s : St) : Prop := NoCant s.marks ∧ s.schemaUnprocessed = false

theorem checkItem_good (os : List Obj) (s : St) (parent item : String) (noSel : Bool) (h : Good s) :
    Good (checkItem .inSchemaOrProcessed os s parent item noSel).1 ∧ (checkItem .inSchemaOrProcessed os s parent item noSel).2 = false := by
  unfold checkItem
  cases lookup os item with
  | none => exact ⟨h, rfl⟩
  | some o =>
    simp only
    by_cases he : o.isEnum = true
    · simp only [he, if_true, enumCan_of_noCant os s.marks item h.1, Bool.not_true, Bool.false_eq_true, if_false]
      exact ⟨h, trivial⟩
    · simp only [he, Bool.false_eq_true, if_false]
      by_cases hs : (o.isSelect && !noSel) = true
      · simp only [hs, if_true]
        cases hm : s.marks item with
        | cantprocess => exact absurd hm (h.1 item)
        | notknown => exact ⟨⟨noCant_set _ _ _ h.1 (by decide), h.2⟩, rfl⟩
        | canprocess => exact ⟨h, rfl⟩
        | processed => exact ⟨h, rfl⟩
      · simp only [hs, Bool.false_eq_true, if_false]
        exact ⟨h, trivial⟩

theorem checkItems_good (os : List Obj) (parent : String) (noSel : Bool) (items : List String) (s : St) (h : Good s) :
    Good (checkItems .inSchemaOrProcessed os parent noSel s items).1 ∧ (checkItems .inSchemaOrProcessed os parent noSel s items).2 = false := by
  induction items generalizing s with
  | nil => exact ⟨h, rfl⟩
  | cons i is ih =>
    have hc := checkItem_good os s parent i noSel h
    simp only [checkItems]
    rw [show (checkItem .inSchemaOrProcessed os s parent i noSel) =
      ((checkItem .inSchemaOrProcessed os s parent i noSel).1, (checkItem .inSchemaOrProcessed os s parent i noSel).2) from rfl]
    simp only [hc.2, Bool.false_eq_true, if_false]
    exact ih _ hc.1

theorem visit_good (os : List Obj) (s : St) (o : Obj) (h : Good s) : Good (visit .inSchemaOrProcessed os s o) := by
  unfold visit
  split
  · exact h
  · have h1 : Good { s with marks := setMark s.marks o.name .canprocess } :=
      ⟨noCant_set _ _ _ h.1 (by decide), h.2⟩
    have h2 := checkItems_good os o.name false o.items _ h1
    simp only
    rw [show (checkItems .inSchemaOrProcessed os o.name false { s with marks := setMark s.marks o.name .canprocess } o.items) =
      ((checkItems .inSchemaOrProcessed os o.name false { s with marks := setMark s.marks o.name .canprocess } o.items).1,
       (checkItems .inSchemaOrProcessed os o.name false { s with marks := setMark s.marks o.name .canprocess } o.items).2) from rfl]
    simp only [h2.2, Bool.false_eq_true, if_false]
    exact (checkItems_good os o.name true o.entAttrTypes _ h2.1).1

theorem sweep_good (os order : List Obj) (s : St) (h : Good s) : Good (sweep .inSchemaOrProcessed os order s) := by
  unfold sweep
  induction order generalizing s with
  | nil => exact h
  | cons o rest ih => exact ih _ (visit_good os s o h)

theorem sweeps_good (os order : List Obj) (n : Nat) (s : St) (h : Good s) : Good (sweeps .inSchemaOrProcessed os order n s) := by
  induction n generalizing s with
  | zero => exact h
  | succ n ih => exact ih _ (sweep_good os order s h)

end StepModel.GenFiles.Pass

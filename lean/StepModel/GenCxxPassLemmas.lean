import StepModel.GenCxxPass
/-! Invariants of the pass decision under the original last case of `ENUMcanBeProcessed`:
    nothing is ever marked CANTPROCESS, and `unknowncnt` accounts for every object a sweep leaves NOTKNOWN. -/
namespace StepModel.GenFiles.Pass
open StepModel.Generated.CxxPass

def NoCant (m : Marks) : Prop := ∀ k, m k ≠ .cantprocess

theorem noCant_set (m : Marks) (n : String) (v : Mark) (h : NoCant m) (hv : v ≠ .cantprocess) : NoCant (setMark m n v) := by
  intro k; unfold setMark; split
  · exact hv
  · exact h k

theorem enumCan_of_noCant (os : List Obj) (m : Marks) (e : String) (h : NoCant m) :
    enumCanBeProcessed .inSchemaOrProcessed os m e = true := by
  unfold enumCanBeProcessed
  cases hm : m e with
  | notknown =>
    simp only
    cases (lookup os e).bind (·.renameOf) with
    | none => rfl
    | some a => rfl
  | canprocess => rfl
  | processed => rfl
  | cantprocess => exact absurd hm (h e)

def Good (s : St) : Prop := NoCant s.marks ∧ s.schemaUnprocessed = false

/-- what one `checkItem` / a run of them may do to a Good state on behalf of `parent` -/
structure Rel (parent : String) (s s' : St) : Prop where
  good : Good s'
  mono : s.unknown ≤ s'.unknown
  others : ∀ k, k ≠ parent → s'.marks k = s.marks k
  counted : s'.marks parent = .notknown → s.marks parent = .notknown ∨ s.unknown + 1 ≤ s'.unknown

theorem Rel.refl (parent : String) (s : St) (h : Good s) : Rel parent s s :=
  ⟨h, Int.le_refl _, fun _ _ => rfl, fun hk => Or.inl hk⟩

theorem Rel.trans {parent : String} {a b c : St} (h1 : Rel parent a b) (h2 : Rel parent b c) : Rel parent a c := by
  refine ⟨h2.good, Int.le_trans h1.mono h2.mono, fun k hk => by rw [h2.others k hk, h1.others k hk], ?_⟩
  intro hc
  rcases h2.counted hc with hb | hb
  · rcases h1.counted hb with ha | ha
    · exact Or.inl ha
    · exact Or.inr (Int.le_trans ha h2.mono)
  · exact Or.inr (by have := h1.mono; omega)

theorem setMark_self (m : Marks) (n : String) (v : Mark) : setMark m n v n = v := by simp [setMark]
theorem setMark_other (m : Marks) (n k : String) (v : Mark) (h : k ≠ n) : setMark m n v k = m k := by simp [setMark, h]

theorem checkItem_rel (os : List Obj) (s : St) (parent item : String) (noSel : Bool) (h : Good s) :
    Rel parent s (checkItem .inSchemaOrProcessed os s parent item noSel).1 ∧
    (checkItem .inSchemaOrProcessed os s parent item noSel).2 = false := by
  unfold checkItem
  cases lookup os item with
  | none => exact ⟨Rel.refl _ _ h, rfl⟩
  | some o =>
    simp only
    by_cases he : o.isEnum = true
    · simp only [he, if_true, enumCan_of_noCant os s.marks item h.1, Bool.not_true, Bool.false_eq_true, if_false]
      exact ⟨Rel.refl _ _ h, trivial⟩
    · simp only [he, Bool.false_eq_true, if_false]
      by_cases hs : (o.isSelect && !noSel) = true
      · simp only [hs, if_true]
        cases hm : s.marks item with
        | cantprocess => exact absurd hm (h.1 item)
        | notknown =>
          simp only
          by_cases hp : s.marks parent = .notknown
          · simp only [hp, ne_eq, not_true_eq_false, if_false]
            exact ⟨Rel.refl _ _ h, trivial⟩
          · simp only [hp, ne_eq, not_false_eq_true, if_true]
            refine ⟨⟨⟨noCant_set _ _ _ h.1 (by decide), h.2⟩, by simp; omega, fun k hk => setMark_other _ _ _ _ hk, fun _ => Or.inr (by simp)⟩, trivial⟩
        | canprocess => exact ⟨Rel.refl _ _ h, rfl⟩
        | processed => exact ⟨Rel.refl _ _ h, rfl⟩
      · simp only [hs, Bool.false_eq_true, if_false]
        exact ⟨Rel.refl _ _ h, trivial⟩

theorem checkItems_rel (os : List Obj) (parent : String) (noSel : Bool) (items : List String) (s : St) (h : Good s) :
    Rel parent s (checkItems .inSchemaOrProcessed os parent noSel s items).1 ∧
    (checkItems .inSchemaOrProcessed os parent noSel s items).2 = false := by
  induction items generalizing s with
  | nil => exact ⟨Rel.refl _ _ h, rfl⟩
  | cons i is ih =>
    have hc := checkItem_rel os s parent i noSel h
    simp only [checkItems]
    rw [show (checkItem .inSchemaOrProcessed os s parent i noSel) =
      ((checkItem .inSchemaOrProcessed os s parent i noSel).1, (checkItem .inSchemaOrProcessed os s parent i noSel).2) from rfl]
    simp only [hc.2, Bool.false_eq_true, if_false]
    have := ih _ hc.1.good
    exact ⟨hc.1.trans this.1, this.2⟩

/-- one visit: a Good state stays Good, `unknowncnt` never decreases, only the visited object's mark changes, and if it
    ends NOTKNOWN it has been counted -/
theorem visit_rel (os : List Obj) (s : St) (o : Obj) (h : Good s) :
    Good (visit .inSchemaOrProcessed os s o) ∧ s.unknown ≤ (visit .inSchemaOrProcessed os s o).unknown ∧
    (∀ k, k ≠ o.name → (visit .inSchemaOrProcessed os s o).marks k = s.marks k) ∧
    ((visit .inSchemaOrProcessed os s o).marks o.name = .notknown → s.unknown + 1 ≤ (visit .inSchemaOrProcessed os s o).unknown) := by
  by_cases hn : s.marks o.name ≠ .notknown
  · have e : visit .inSchemaOrProcessed os s o = s := by unfold visit; rw [if_pos hn]
    rw [e]
    exact ⟨h, Int.le_refl _, fun _ _ => rfl, fun hk => absurd hk hn⟩
  · have h1 : Good { s with marks := setMark s.marks o.name .canprocess } :=
      ⟨noCant_set _ _ _ h.1 (by decide), h.2⟩
    have h2 := checkItems_rel os o.name false o.items _ h1
    have h3 := checkItems_rel os o.name true o.entAttrTypes _ h2.1.good
    have e : visit .inSchemaOrProcessed os s o =
        (checkItems .inSchemaOrProcessed os o.name true
          (checkItems .inSchemaOrProcessed os o.name false { s with marks := setMark s.marks o.name .canprocess } o.items).1
          o.entAttrTypes).1 := by
      unfold visit
      rw [if_neg hn]
      simp only [h2.2, Bool.false_eq_true, if_false]
    rw [e]
    have r := h2.1.trans h3.1
    refine ⟨r.good, r.mono, fun k hk => by rw [r.others k hk]; exact setMark_other _ _ _ _ hk, ?_⟩
    intro hk
    rcases r.counted hk with hc | hc
    · rw [show ({ s with marks := setMark s.marks o.name .canprocess } : St).marks o.name = .canprocess from setMark_self _ _ _] at hc
      exact absurd hc (by decide)
    · exact hc

theorem visit_good (os : List Obj) (s : St) (o : Obj) (h : Good s) : Good (visit .inSchemaOrProcessed os s o) :=
  (visit_rel os s o h).1

/-- invariant of a sweep started with `unknowncnt = u0`: every object of the visited prefix that is NOTKNOWN now has
    been counted -/
theorem sweep_counts (os : List Obj) (order : List Obj) (s : St) (u0 : Int) (P : String → Prop)
    (h : Good s) (hu : u0 ≤ s.unknown) (hP : ∀ k, P k → s.marks k = .notknown → u0 + 1 ≤ s.unknown) :
    Good (sweep .inSchemaOrProcessed os order s) ∧ u0 ≤ (sweep .inSchemaOrProcessed os order s).unknown ∧
    ∀ k, (P k ∨ ∃ o ∈ order, o.name = k) → (sweep .inSchemaOrProcessed os order s).marks k = .notknown →
      u0 + 1 ≤ (sweep .inSchemaOrProcessed os order s).unknown := by
  unfold sweep
  induction order generalizing s P with
  | nil =>
    refine ⟨h, hu, ?_⟩
    intro k hk hm
    rcases hk with hk | ⟨o, ho, _⟩
    · exact hP k hk hm
    · exact absurd ho List.not_mem_nil
  | cons o rest ih =>
    have v := visit_rel os s o h
    simp only [List.foldl_cons]
    have hP' : ∀ k, (P k ∨ k = o.name) → (visit .inSchemaOrProcessed os s o).marks k = .notknown →
        u0 + 1 ≤ (visit .inSchemaOrProcessed os s o).unknown := by
      intro k hk hm
      by_cases hko : k = o.name
      · subst hko
        have := v.2.2.2 hm
        omega
      · rcases hk with hk | hk
        · rw [v.2.2.1 k hko] at hm
          have := hP k hk hm
          have := v.2.1
          omega
        · exact absurd hk hko
    have r := ih (visit .inSchemaOrProcessed os s o) (fun k => P k ∨ k = o.name) v.1 (Int.le_trans hu v.2.1) hP'
    refine ⟨r.1, r.2.1, ?_⟩
    intro k hk hm
    apply r.2.2 k ?_ hm
    rcases hk with hk | ⟨o', ho', hn⟩
    · exact Or.inl (Or.inl hk)
    · rcases List.mem_cons.mp ho' with rfl | ho'
      · exact Or.inl (Or.inr hn.symm)
      · exact Or.inr ⟨o', ho', hn⟩

theorem sweep_good (os order : List Obj) (s : St) (h : Good s) : Good (sweep .inSchemaOrProcessed os order s) :=
  (sweep_counts os order s s.unknown (fun _ => False) h (Int.le_refl _) (fun _ hk => absurd hk id)).1

theorem sweeps_good (os order : List Obj) (n : Nat) (s : St) (h : Good s) : Good (sweeps .inSchemaOrProcessed os order n s) := by
  induction n generalizing s with
  | zero => exact h
  | succ n ih => exact ih _ (sweep_good os order s h)

theorem loopState_good (os order : List Obj) (k : Nat) : Good (loopState .inSchemaOrProcessed os order k) := by
  induction k with
  | zero => exact ⟨fun k => by simp [loopState, initial], rfl⟩
  | succ k ih => exact sweep_good os order _ ⟨ih.1, ih.2⟩

/-- if an iteration of the loop ends with `unknowncnt ≤ 0`, every object of the sweep order has a verdict -/
theorem settled_of_unknown_zero (os order : List Obj) (k : Nat)
    (h0 : (loopState .inSchemaOrProcessed os order (k + 1)).unknown ≤ 0) :
    Settled order (loopState .inSchemaOrProcessed os order (k + 1)) := by
  have g := loopState_good os order k
  have r := sweep_counts os order { loopState .inSchemaOrProcessed os order k with unknown := 0 } 0 (fun _ => False)
    ⟨g.1, g.2⟩ (Int.le_refl _) (fun _ hk => absurd hk id)
  intro o ho hm
  have hm' : (sweep .inSchemaOrProcessed os order { loopState .inSchemaOrProcessed os order k with unknown := 0 }).marks o.name = .notknown := hm
  have h0' : (sweep .inSchemaOrProcessed os order { loopState .inSchemaOrProcessed os order k with unknown := 0 }).unknown ≤ 0 := h0
  have := r.2.2 o.name (Or.inr ⟨o, ho, rfl⟩) hm'
  omega

end StepModel.GenFiles.Pass

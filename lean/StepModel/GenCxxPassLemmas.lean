import StepModel.GenCxxPass
/-! Invariants of the pass decision under the original last case of `ENUMcanBeProcessed`, for a schema all of whose
    foreign objects (reached through USE/REFERENCE) have already been PROCESSED:
    nothing is ever marked CANTPROCESS, and `unknowncnt` is exactly the number of objects a sweep leaves NOTKNOWN. -/
namespace StepModel.GenFiles.Pass
open StepModel.Generated.CxxPass

def NoCant (m : Marks) : Prop := ∀ k, m k ≠ .cantprocess

/-- every object of another schema the schema refers to has been PROCESSED -/
def FDone (os : List Obj) (m : Marks) : Prop := ∀ n, isForeign os n = true → m n = .processed

theorem noCant_set (m : Marks) (n : String) (v : Mark) (h : NoCant m) (hv : v ≠ .cantprocess) : NoCant (setMark m n v) := by
  intro k; unfold setMark; split
  · exact hv
  · exact h k

theorem setMark_self (m : Marks) (n : String) (v : Mark) : setMark m n v n = v := by simp [setMark]
theorem setMark_other (m : Marks) (n k : String) (v : Mark) (h : k ≠ n) : setMark m n v k = m k := by simp [setMark, h]

theorem fdone_of_others (os : List Obj) (m m' : Marks) (p : String) (hp : isForeign os p = false)
    (ho : ∀ k, k ≠ p → m' k = m k) (h : FDone os m) : FDone os m' := by
  intro n hn
  have : n ≠ p := fun e => by rw [e, hp] at hn; exact absurd hn (by decide)
  rw [ho n this]; exact h n hn

theorem isForeign_of_lookup (os : List Obj) (n : String) (o : Obj) (h : lookup os n = some o) : isForeign os n = o.foreign := by
  simp [isForeign, h]

theorem enumCan_of_noCant (os : List Obj) (m : Marks) (e : String) (h : NoCant m) (hf : FDone os m) :
    enumCanBeProcessed .inSchemaOrProcessed os m e = true := by
  unfold enumCanBeProcessed
  by_cases hfo : isForeign os e = true
  · rw [if_pos hfo, hf e hfo]; rfl
  · rw [if_neg hfo]
    cases hm : m e with
    | notknown =>
      simp only
      cases (lookup os e).bind (·.renameOf) with
      | none => rfl
      | some a => rfl
    | canprocess => rfl
    | processed => rfl
    | cantprocess => exact absurd hm (h e)

def Good (s : St) : Prop := NoCant s.marks ∧ s.schemaUnprocessed = false

/-- what one `checkItem` / a run of them may do to a Good state on behalf of `parent`: nothing, or lower `parent` from a
    decided mark to NOTKNOWN and count it — exactly once -/
structure Rel (parent : String) (s s' : St) : Prop where
  good : Good s'
  others : ∀ k, k ≠ parent → s'.marks k = s.marks k
  exact : (s'.marks parent = s.marks parent ∧ s'.unknown = s.unknown) ∨
          (s.marks parent ≠ .notknown ∧ s'.marks parent = .notknown ∧ s'.unknown = s.unknown + 1)

theorem Rel.refl (parent : String) (s : St) (h : Good s) : Rel parent s s :=
  ⟨h, fun _ _ => rfl, Or.inl ⟨rfl, rfl⟩⟩

theorem Rel.trans {parent : String} {a b c : St} (h1 : Rel parent a b) (h2 : Rel parent b c) : Rel parent a c := by
  refine ⟨h2.good, fun k hk => by rw [h2.others k hk, h1.others k hk], ?_⟩
  rcases h1.exact with ⟨m1, u1⟩ | ⟨n1, m1, u1⟩
  · rcases h2.exact with ⟨m2, u2⟩ | ⟨n2, m2, u2⟩
    · exact Or.inl ⟨by rw [m2, m1], by rw [u2, u1]⟩
    · exact Or.inr ⟨by rw [← m1]; exact n2, m2, by rw [u2, u1]⟩
  · rcases h2.exact with ⟨m2, u2⟩ | ⟨n2, _, _⟩
    · exact Or.inr ⟨n1, by rw [m2, m1], by rw [u2, u1]⟩
    · exact absurd m1 n2

theorem checkItem_rel (os : List Obj) (s : St) (parent item : String) (noSel : Bool) (h : Good s) (hf : FDone os s.marks) :
    Rel parent s (checkItem .inSchemaOrProcessed os s parent item noSel).1 ∧
    (checkItem .inSchemaOrProcessed os s parent item noSel).2 = false := by
  unfold checkItem
  cases hl : lookup os item with
  | none => exact ⟨Rel.refl _ _ h, rfl⟩
  | some o =>
    simp only
    by_cases he : o.isEnum = true
    · simp only [he, if_true, enumCan_of_noCant os s.marks item h.1 hf, Bool.not_true, Bool.false_eq_true, if_false]
      exact ⟨Rel.refl _ _ h, trivial⟩
    · simp only [he, Bool.false_eq_true, if_false]
      by_cases hs : (o.isSelect && !noSel) = true
      · simp only [hs, if_true]
        by_cases hfo : o.foreign = true
        · have hp : s.marks item = .processed := hf item (by rw [isForeign_of_lookup os item o hl]; exact hfo)
          simp only [hfo, if_true, hp, ne_eq, not_true_eq_false, if_false]
          exact ⟨Rel.refl _ _ h, trivial⟩
        · simp only [hfo, Bool.false_eq_true, if_false]
          cases hm : s.marks item with
          | cantprocess => exact absurd hm (h.1 item)
          | notknown =>
            simp only
            by_cases hp : s.marks parent = .notknown
            · simp only [hp, ne_eq, not_true_eq_false, if_false]
              exact ⟨Rel.refl _ _ h, trivial⟩
            · simp only [hp, ne_eq, not_false_eq_true, if_true]
              exact ⟨⟨⟨noCant_set _ _ _ h.1 (by decide), h.2⟩, fun k hk => setMark_other _ _ _ _ hk,
                Or.inr ⟨hp, setMark_self _ _ _, rfl⟩⟩, trivial⟩
          | canprocess => exact ⟨Rel.refl _ _ h, rfl⟩
          | processed => exact ⟨Rel.refl _ _ h, rfl⟩
      · simp only [hs, Bool.false_eq_true, if_false]
        exact ⟨Rel.refl _ _ h, trivial⟩

theorem checkItems_rel (os : List Obj) (parent : String) (hp : isForeign os parent = false) (noSel : Bool) (items : List String)
    (s : St) (h : Good s) (hf : FDone os s.marks) :
    Rel parent s (checkItems .inSchemaOrProcessed os parent noSel s items).1 ∧
    (checkItems .inSchemaOrProcessed os parent noSel s items).2 = false := by
  induction items generalizing s with
  | nil => exact ⟨Rel.refl _ _ h, rfl⟩
  | cons i is ih =>
    have hc := checkItem_rel os s parent i noSel h hf
    simp only [checkItems]
    rw [show (checkItem .inSchemaOrProcessed os s parent i noSel) =
      ((checkItem .inSchemaOrProcessed os s parent i noSel).1, (checkItem .inSchemaOrProcessed os s parent i noSel).2) from rfl]
    simp only [hc.2, Bool.false_eq_true, if_false]
    have := ih _ hc.1.good (fdone_of_others os _ _ parent hp hc.1.others hf)
    exact ⟨hc.1.trans this.1, this.2⟩

theorem foreignBlocked_false (os : List Obj) (m : Marks) (o : Obj) (hf : FDone os m) : foreignBlocked os m o = false := by
  unfold foreignBlocked
  rw [List.any_eq_false]
  intro n _
  by_cases hfo : isForeign os n = true
  · rw [hf n hfo]; simp
  · simp [hfo]

/-- one visit: a Good state stays Good, only the visited object's mark changes; an object that was not NOTKNOWN is skipped;
    one that was ends CANPROCESS (count unchanged) or NOTKNOWN (count + 1) -/
theorem visit_rel (os : List Obj) (s : St) (o : Obj) (h : Good s) (hf : FDone os s.marks) (hp : isForeign os o.name = false) :
    Good (visit .inSchemaOrProcessed os s o) ∧
    (∀ k, k ≠ o.name → (visit .inSchemaOrProcessed os s o).marks k = s.marks k) ∧
    (s.marks o.name ≠ .notknown → visit .inSchemaOrProcessed os s o = s) ∧
    (s.marks o.name = .notknown →
      ((visit .inSchemaOrProcessed os s o).marks o.name = .canprocess ∧ (visit .inSchemaOrProcessed os s o).unknown = s.unknown) ∨
      ((visit .inSchemaOrProcessed os s o).marks o.name = .notknown ∧ (visit .inSchemaOrProcessed os s o).unknown = s.unknown + 1)) := by
  by_cases hn : s.marks o.name ≠ .notknown
  · have e : visit .inSchemaOrProcessed os s o = s := by unfold visit; rw [if_pos hn]
    rw [e]
    exact ⟨h, fun _ _ => rfl, fun _ => rfl, fun hk => absurd hk hn⟩
  · have h1 : Good { s with marks := setMark s.marks o.name .canprocess } :=
      ⟨noCant_set _ _ _ h.1 (by decide), h.2⟩
    have hf1 : FDone os ({ s with marks := setMark s.marks o.name .canprocess } : St).marks :=
      fdone_of_others os s.marks _ o.name hp (fun k hk => setMark_other _ _ _ _ hk) hf
    have h2 := checkItems_rel os o.name hp false o.items _ h1 hf1
    have hf2 := fdone_of_others os _ _ o.name hp h2.1.others hf1
    have h3 := checkItems_rel os o.name hp true o.entAttrTypes _ h2.1.good hf2
    have e : visit .inSchemaOrProcessed os s o =
        (checkItems .inSchemaOrProcessed os o.name true
          (checkItems .inSchemaOrProcessed os o.name false { s with marks := setMark s.marks o.name .canprocess } o.items).1
          o.entAttrTypes).1 := by
      unfold visit
      rw [if_neg hn, foreignBlocked_false os s.marks o hf]
      simp only [Bool.false_eq_true, if_false, h2.2]
    rw [e]
    have r := h2.1.trans h3.1
    have hc : ({ s with marks := setMark s.marks o.name .canprocess } : St).marks o.name = .canprocess := setMark_self _ _ _
    refine ⟨r.good, fun k hk => by rw [r.others k hk]; exact setMark_other _ _ _ _ hk, fun hk => absurd hk hn, ?_⟩
    intro _
    rcases r.exact with ⟨m, u⟩ | ⟨_, m, u⟩
    · exact Or.inl ⟨by rw [m, hc], u⟩
    · exact Or.inr ⟨m, u⟩

theorem visit_fdone (os : List Obj) (s : St) (o : Obj) (h : Good s) (hf : FDone os s.marks) (hp : isForeign os o.name = false) :
    FDone os (visit .inSchemaOrProcessed os s o).marks :=
  fdone_of_others os s.marks _ o.name hp (visit_rel os s o h hf hp).2.1 hf

/-- number of objects of `l` that are NOTKNOWN under `m` -/
def cnt (l : List Obj) (m : Marks) : Nat := l.countP (fun o => decide (m o.name = .notknown))

/-- a sweep over the schema's own objects (pairwise different names), exactly: `unknowncnt` grows by the number of visited
    objects that are NOTKNOWN afterwards, objects outside the sweep keep their marks, and no object becomes NOTKNOWN that was not -/
theorem sweep_exact (os : List Obj) (order : List Obj) (hnd : (order.map (·.name)).Nodup)
    (hown : ∀ o ∈ order, isForeign os o.name = false) (s : St) (h : Good s) (hf : FDone os s.marks) :
    Good (sweep .inSchemaOrProcessed os order s) ∧ FDone os (sweep .inSchemaOrProcessed os order s).marks ∧
    (sweep .inSchemaOrProcessed os order s).unknown = s.unknown + cnt order (sweep .inSchemaOrProcessed os order s).marks ∧
    (∀ k, (∀ o ∈ order, o.name ≠ k) → (sweep .inSchemaOrProcessed os order s).marks k = s.marks k) ∧
    (∀ o ∈ order, (sweep .inSchemaOrProcessed os order s).marks o.name = .notknown → s.marks o.name = .notknown) := by
  unfold sweep
  induction order generalizing s with
  | nil => exact ⟨h, hf, by simp [cnt], fun _ _ => rfl, fun o ho => absurd ho List.not_mem_nil⟩
  | cons o rest ih =>
    simp only [List.map_cons, List.nodup_cons] at hnd
    have hpo := hown o List.mem_cons_self
    have v := visit_rel os s o h hf hpo
    have vf := visit_fdone os s o h hf hpo
    have r := ih hnd.2 (fun o' ho' => hown o' (List.mem_cons_of_mem _ ho')) (visit .inSchemaOrProcessed os s o) v.1 vf
    simp only [List.foldl_cons]
    have hfresh : ∀ o' ∈ rest, o'.name ≠ o.name := fun o' ho' e => hnd.1 (List.mem_map.mpr ⟨o', ho', e⟩)
    have hkeep : (List.foldl (visit .inSchemaOrProcessed os) (visit .inSchemaOrProcessed os s o) rest).marks o.name =
        (visit .inSchemaOrProcessed os s o).marks o.name := r.2.2.2.1 o.name hfresh
    refine ⟨r.1, r.2.1, ?_, ?_, ?_⟩
    · rw [r.2.2.1]
      have hc : cnt (o :: rest) (List.foldl (visit .inSchemaOrProcessed os) (visit .inSchemaOrProcessed os s o) rest).marks =
          cnt rest (List.foldl (visit .inSchemaOrProcessed os) (visit .inSchemaOrProcessed os s o) rest).marks +
          (if (visit .inSchemaOrProcessed os s o).marks o.name = .notknown then 1 else 0) := by
        unfold cnt
        rw [List.countP_cons, hkeep]
        simp
      rw [hc]
      by_cases hm : s.marks o.name = .notknown
      · rcases v.2.2.2 hm with ⟨m, u⟩ | ⟨m, u⟩
        · rw [u, m]; simp
        · rw [u, m]; simp; omega
      · have e := v.2.2.1 hm
        rw [e]
        simp [hm]
    · intro k hk
      rw [r.2.2.2.1 k (fun o' ho' => hk o' (List.mem_cons_of_mem _ ho'))]
      exact v.2.1 k (fun e => hk o List.mem_cons_self e.symm)
    · intro o' ho' hm
      rcases List.mem_cons.mp ho' with rfl | ho'
      · rw [hkeep] at hm
        by_cases hs : s.marks o'.name = .notknown
        · exact hs
        · rw [v.2.2.1 hs] at hm
          exact absurd hm hs
      · have := r.2.2.2.2 o' ho' hm
        rw [v.2.1 o'.name (hfresh o' ho')] at this
        exact this

theorem sweep_good (os order : List Obj) (hown : ∀ o ∈ order, isForeign os o.name = false) (s : St) (h : Good s) (hf : FDone os s.marks) :
    Good (sweep .inSchemaOrProcessed os order s) ∧ FDone os (sweep .inSchemaOrProcessed os order s).marks := by
  unfold sweep
  induction order generalizing s with
  | nil => exact ⟨h, hf⟩
  | cons o rest ih =>
    have hpo := hown o List.mem_cons_self
    exact ih (fun o' ho' => hown o' (List.mem_cons_of_mem _ ho')) _ (visit_rel os s o h hf hpo).1 (visit_fdone os s o h hf hpo)

theorem sweeps_good (os order : List Obj) (hown : ∀ o ∈ order, isForeign os o.name = false) (n : Nat) (s : St) (h : Good s) (hf : FDone os s.marks) :
    Good (sweeps .inSchemaOrProcessed os order n s) := by
  induction n generalizing s with
  | zero => exact h
  | succ n ih =>
    have := sweep_good os order hown s h hf
    exact ih _ this.1 this.2

theorem resetUnknown_good (s : St) (h : Good s) : Good (resetUnknown s) := ⟨h.1, h.2⟩

/-- a sweep started with `unknowncnt = 0`: afterwards `unknowncnt` IS the number of NOTKNOWN objects, and no object
    is NOTKNOWN that was not before -/
theorem sweep_from_zero (os order : List Obj) (hnd : (order.map (·.name)).Nodup) (hown : ∀ o ∈ order, isForeign os o.name = false)
    (s : St) (h : Good s) (hf : FDone os s.marks) :
    Good (sweep .inSchemaOrProcessed os order (resetUnknown s)) ∧ FDone os (sweep .inSchemaOrProcessed os order (resetUnknown s)).marks ∧
    (sweep .inSchemaOrProcessed os order (resetUnknown s)).unknown = cnt order (sweep .inSchemaOrProcessed os order (resetUnknown s)).marks ∧
    (∀ o ∈ order, (sweep .inSchemaOrProcessed os order (resetUnknown s)).marks o.name = .notknown → s.marks o.name = .notknown) := by
  have r := sweep_exact os order hnd hown (resetUnknown s) (resetUnknown_good s h) hf
  refine ⟨r.1, r.2.1, ?_, r.2.2.2.2⟩
  have := r.2.2.1
  have z : (resetUnknown s).unknown = 0 := rfl
  rw [z] at this
  omega

/-- a sweep started with `unknowncnt = 0` that ends with `unknowncnt ≤ 0` leaves no object of the sweep order NOTKNOWN -/
theorem settled_of_unknown_zero (os order : List Obj) (hnd : (order.map (·.name)).Nodup) (hown : ∀ o ∈ order, isForeign os o.name = false)
    (s : St) (h : Good s) (hf : FDone os s.marks)
    (h0 : (sweep .inSchemaOrProcessed os order (resetUnknown s)).unknown ≤ 0) :
    Settled order (sweep .inSchemaOrProcessed os order (resetUnknown s)) := by
  have r := sweep_from_zero os order hnd hown s h hf
  intro o ho hm
  have hpos : 0 < cnt order (sweep .inSchemaOrProcessed os order (resetUnknown s)).marks := by
    unfold cnt
    exact List.countP_pos_iff.mpr ⟨o, ho, by simp [hm]⟩
  have := r.2.2.1
  omega

theorem markRemaining_good (order : List Obj) (s : St) (h : Good s) : Good (markRemaining order s) := by
  refine ⟨?_, h.2⟩
  intro k
  simp only [markRemaining]
  split
  · decide
  · exact h.1 k

theorem markRemaining_fdone (os order : List Obj) (s : St) (hf : FDone os s.marks) : FDone os (markRemaining order s).marks := by
  intro n hn
  simp only [markRemaining]
  split
  · rename_i hc
    rw [hf n hn] at hc
    exact absurd hc.1 (by decide)
  · exact hf n hn

theorem markRemaining_settled (order : List Obj) (s : St) : Settled order (markRemaining order s) := by
  intro o ho
  simp only [markRemaining]
  split
  · decide
  · rename_i hc
    intro hm
    exact hc ⟨hm, List.any_eq_true.mpr ⟨o, ho, by simp⟩⟩

theorem iterate_exited (l : SweepLoop) (lc : EnumLastCase) (os order : List Obj) (ls : LoopSt) (k : Nat)
    (h : ls.exited = true) : iterate l lc os order ls k = ls := by
  unfold iterate; rw [if_pos h]

theorem iterate_settle (lc : EnumLastCase) (os order : List Obj) (ls : LoopSt) (k : Nat) (h : ls.exited = false) :
    iterate .untilSettled lc os order ls k =
      { st := sweep lc os order (resetUnknown ls.st), last := ls.last,
        exited := decide ((sweep lc os order (resetUnknown ls.st)).unknown ≤ 0) } := by
  unfold iterate; rw [if_neg (by rw [h]; decide)]

theorem iterate_stall (lc : EnumLastCase) (os order : List Obj) (ls : LoopSt) (k : Nat) (h : ls.exited = false)
    (hc : 0 < (sweep lc os order (resetUnknown ls.st)).unknown ∧ (sweep lc os order (resetUnknown ls.st)).unknown = ls.last) :
    iterate .untilSettledOrStalled lc os order ls k =
      { st := markRemaining order (sweep lc os order (resetUnknown ls.st)), last := ls.last, exited := true } := by
  unfold iterate; rw [if_neg (by rw [h]; decide)]; simp only; rw [if_pos hc]

theorem iterate_nostall (lc : EnumLastCase) (os order : List Obj) (ls : LoopSt) (k : Nat) (h : ls.exited = false)
    (hc : ¬ (0 < (sweep lc os order (resetUnknown ls.st)).unknown ∧ (sweep lc os order (resetUnknown ls.st)).unknown = ls.last)) :
    iterate .untilSettledOrStalled lc os order ls k =
      { st := sweep lc os order (resetUnknown ls.st), last := (sweep lc os order (resetUnknown ls.st)).unknown,
        exited := decide ((sweep lc os order (resetUnknown ls.st)).unknown ≤ 0) } := by
  unfold iterate; rw [if_neg (by rw [h]; decide)]; simp only; rw [if_neg hc]

/-- the hypotheses on a schema and the state its loop starts in: own objects have pairwise different names and none of
    them is foreign; no mark is CANTPROCESS; every foreign object has been PROCESSED -/
structure Ready (os order : List Obj) (s0 : St) : Prop where
  nodup : (order.map (·.name)).Nodup
  own : ∀ o ∈ order, isForeign os o.name = false
  good : Good s0
  fdone : FDone os s0.marks

/-- invariant of the loop (original last case of `ENUMcanBeProcessed`, loop shapes without a sweep bound): the state is
    Good, foreign objects stay PROCESSED, and once the loop has been left everything is settled -/
theorem run_inv (l : SweepLoop) (hl : l = .untilSettled ∨ l = .untilSettledOrStalled) (os order : List Obj) (s0 : St)
    (hr : Ready os order s0) (k : Nat) :
    Good (runFrom l .inSchemaOrProcessed os order s0 k).st ∧ FDone os (runFrom l .inSchemaOrProcessed os order s0 k).st.marks ∧
    ((runFrom l .inSchemaOrProcessed os order s0 k).exited = true → Settled order (runFrom l .inSchemaOrProcessed os order s0 k).st) := by
  induction k with
  | zero => exact ⟨hr.good, hr.fdone, fun h => by simp [runFrom] at h⟩
  | succ k ih =>
    have erun : runFrom l .inSchemaOrProcessed os order s0 (k + 1) =
        iterate l .inSchemaOrProcessed os order (runFrom l .inSchemaOrProcessed os order s0 k) (k + 1) := rfl
    rw [erun]
    cases he : (runFrom l .inSchemaOrProcessed os order s0 k).exited with
    | true => rw [iterate_exited _ _ _ _ _ _ he]; exact ih
    | false =>
      have g := sweep_good os order hr.own (resetUnknown (runFrom l .inSchemaOrProcessed os order s0 k).st) (resetUnknown_good _ ih.1) ih.2.1
      rcases hl with rfl | rfl
      · rw [iterate_settle _ _ _ _ _ he]
        exact ⟨g.1, g.2, fun hx => settled_of_unknown_zero os order hr.nodup hr.own _ ih.1 ih.2.1 (by simpa using hx)⟩
      · by_cases hc : 0 < (sweep .inSchemaOrProcessed os order (resetUnknown (runFrom .untilSettledOrStalled .inSchemaOrProcessed os order s0 k).st)).unknown ∧
            (sweep .inSchemaOrProcessed os order (resetUnknown (runFrom .untilSettledOrStalled .inSchemaOrProcessed os order s0 k).st)).unknown = (runFrom .untilSettledOrStalled .inSchemaOrProcessed os order s0 k).last
        · rw [iterate_stall _ _ _ _ _ he hc]
          exact ⟨markRemaining_good order _ g.1, markRemaining_fdone os order _ g.2, fun _ => markRemaining_settled order _⟩
        · rw [iterate_nostall _ _ _ _ _ he hc]
          exact ⟨g.1, g.2, fun hx => settled_of_unknown_zero os order hr.nodup hr.own _ ih.1 ih.2.1 (by simpa using hx)⟩

/-- while the stall-detecting loop runs, `lastunknowncnt` is the number of NOTKNOWN objects, and that number has gone down
    by at least one per completed iteration -/
theorem run_stalled_progress (os order : List Obj) (s0 : St) (hr : Ready os order s0) (k : Nat) :
    (runFrom .untilSettledOrStalled .inSchemaOrProcessed os order s0 (k + 1)).exited = false →
    (runFrom .untilSettledOrStalled .inSchemaOrProcessed os order s0 (k + 1)).last =
        cnt order (runFrom .untilSettledOrStalled .inSchemaOrProcessed os order s0 (k + 1)).st.marks ∧
    (cnt order (runFrom .untilSettledOrStalled .inSchemaOrProcessed os order s0 (k + 1)).st.marks : Int) + k ≤ order.length := by
  induction k with
  | zero =>
    intro _
    have he : (runFrom .untilSettledOrStalled .inSchemaOrProcessed os order s0 0).exited = false := rfl
    obtain ⟨_, _, hu, _⟩ := sweep_from_zero os order hr.nodup hr.own (runFrom .untilSettledOrStalled .inSchemaOrProcessed os order s0 0).st hr.good hr.fdone
    have hle : cnt order (sweep .inSchemaOrProcessed os order (resetUnknown (runFrom .untilSettledOrStalled .inSchemaOrProcessed os order s0 0).st)).marks ≤ order.length :=
      List.countP_le_length
    have hc : ¬ (0 < (sweep .inSchemaOrProcessed os order (resetUnknown (runFrom .untilSettledOrStalled .inSchemaOrProcessed os order s0 0).st)).unknown ∧
        (sweep .inSchemaOrProcessed os order (resetUnknown (runFrom .untilSettledOrStalled .inSchemaOrProcessed os order s0 0).st)).unknown = (runFrom .untilSettledOrStalled .inSchemaOrProcessed os order s0 0).last) := by
      intro ⟨h1, h2⟩
      have : (runFrom .untilSettledOrStalled .inSchemaOrProcessed os order s0 0).last = -1 := rfl
      omega
    have e : runFrom .untilSettledOrStalled .inSchemaOrProcessed os order s0 (0 + 1) = _ := iterate_nostall _ _ _ _ 1 he hc
    rw [e]
    exact ⟨hu, by simp only; omega⟩
  | succ k ih =>
    intro hne
    have hprev : (runFrom .untilSettledOrStalled .inSchemaOrProcessed os order s0 (k + 1)).exited = false := by
      cases hp : (runFrom .untilSettledOrStalled .inSchemaOrProcessed os order s0 (k + 1)).exited with
      | false => rfl
      | true =>
        have e : runFrom .untilSettledOrStalled .inSchemaOrProcessed os order s0 (k + 1 + 1) = _ := iterate_exited _ _ _ _ _ (k + 1 + 1) hp
        rw [e, hp] at hne; exact absurd hne (by decide)
    have ⟨hlast, hbound⟩ := ih hprev
    have g := run_inv .untilSettledOrStalled (Or.inr rfl) os order s0 hr (k + 1)
    obtain ⟨_, _, hu, hback⟩ := sweep_from_zero os order hr.nodup hr.own _ g.1 g.2.1
    have hmono : cnt order (sweep .inSchemaOrProcessed os order (resetUnknown (runFrom .untilSettledOrStalled .inSchemaOrProcessed os order s0 (k + 1)).st)).marks
        ≤ cnt order (runFrom .untilSettledOrStalled .inSchemaOrProcessed os order s0 (k + 1)).st.marks := by
      unfold cnt
      apply List.countP_mono_left
      intro o ho hm
      simp only [decide_eq_true_eq] at hm ⊢
      exact hback o ho hm
    by_cases hc : 0 < (sweep .inSchemaOrProcessed os order (resetUnknown (runFrom .untilSettledOrStalled .inSchemaOrProcessed os order s0 (k + 1)).st)).unknown ∧
        (sweep .inSchemaOrProcessed os order (resetUnknown (runFrom .untilSettledOrStalled .inSchemaOrProcessed os order s0 (k + 1)).st)).unknown = (runFrom .untilSettledOrStalled .inSchemaOrProcessed os order s0 (k + 1)).last
    · have e : runFrom .untilSettledOrStalled .inSchemaOrProcessed os order s0 (k + 1 + 1) = _ := iterate_stall _ _ _ _ (k + 1 + 1) hprev hc
      rw [e] at hne
      exact absurd hne (by simp)
    · have e : runFrom .untilSettledOrStalled .inSchemaOrProcessed os order s0 (k + 1 + 1) = _ := iterate_nostall _ _ _ _ (k + 1 + 1) hprev hc
      rw [e] at hne ⊢
      simp only [decide_eq_false_iff_not, Int.not_le] at hne
      refine ⟨hu, ?_⟩
      have hlt : (sweep .inSchemaOrProcessed os order (resetUnknown (runFrom .untilSettledOrStalled .inSchemaOrProcessed os order s0 (k + 1)).st)).unknown
          ≠ (runFrom .untilSettledOrStalled .inSchemaOrProcessed os order s0 (k + 1)).last := fun e => hc ⟨hne, e⟩
      simp only
      omega

/-- **Termination** of the stall-detecting loop: with `n` objects it has been left after at most `n + 2` iterations -/
theorem run_stalled_terminates (os order : List Obj) (s0 : St) (hr : Ready os order s0) :
    (runFrom .untilSettledOrStalled .inSchemaOrProcessed os order s0 (order.length + 2)).exited = true := by
  cases h : (runFrom .untilSettledOrStalled .inSchemaOrProcessed os order s0 (order.length + 1 + 1)).exited with
  | true => rfl
  | false =>
    have := (run_stalled_progress os order s0 hr (order.length + 1) h).2
    omega

/-- a self-contained schema (no object is foreign), everything NOTKNOWN: ready -/
theorem ready_initial (os order : List Obj) (hnd : (order.map (·.name)).Nodup) (hnf : ∀ n, isForeign os n = false) :
    Ready os order initial :=
  ⟨hnd, fun o _ => hnf o.name, ⟨fun k => by simp [initial], rfl⟩, fun n hn => by rw [hnf n] at hn; exact absurd hn (by decide)⟩

end StepModel.GenFiles.Pass

namespace StepModel.GenFiles.Pass
open StepModel.Generated.CxxPass

/-! ## entities (`checkEnts`): once every select is decided, one visit decides an entity -/

/-- every select the schema knows has a verdict -/
def SelSettled (os : List Obj) (m : Marks) : Prop := ∀ i o, lookup os i = some o → o.isSelect = true → m i ≠ .notknown

theorem checkItem_id (os : List Obj) (s : St) (parent item : String) (noSel : Bool) (h : Good s) (hf : FDone os s.marks)
    (hs : SelSettled os s.marks) : checkItem .inSchemaOrProcessed os s parent item noSel = (s, false) := by
  unfold checkItem
  cases hl : lookup os item with
  | none => rfl
  | some o =>
    simp only
    by_cases he : o.isEnum = true
    · simp only [he, if_true, enumCan_of_noCant os s.marks item h.1 hf, Bool.not_true, Bool.false_eq_true, if_false]
    · simp only [he, Bool.false_eq_true, if_false]
      by_cases hsel : (o.isSelect && !noSel) = true
      · simp only [hsel, if_true]
        have hiss : o.isSelect = true := by
          cases hh : o.isSelect with
          | true => rfl
          | false => rw [hh] at hsel; simp at hsel
        by_cases hfo : o.foreign = true
        · have hp : s.marks item = .processed := hf item (by rw [isForeign_of_lookup os item o hl]; exact hfo)
          simp only [hfo, if_true, hp, ne_eq, not_true_eq_false, if_false]
        · simp only [hfo, Bool.false_eq_true, if_false]
          cases hm : s.marks item with
          | cantprocess => exact absurd hm (h.1 item)
          | notknown => exact absurd hm (hs item o hl hiss)
          | canprocess => rfl
          | processed => rfl
      · simp only [hsel, Bool.false_eq_true, if_false]

theorem checkItems_id (os : List Obj) (parent : String) (noSel : Bool) (items : List String) (s : St) (h : Good s)
    (hf : FDone os s.marks) (hs : SelSettled os s.marks) :
    checkItems .inSchemaOrProcessed os parent noSel s items = (s, false) := by
  induction items with
  | nil => rfl
  | cons i is ih =>
    simp only [checkItems, checkItem_id os s parent i noSel h hf hs, Bool.false_eq_true, if_false]
    exact ih

/-- an object that is not itself a select, visited when every select is decided, ends CANPROCESS and nothing else changes -/
theorem visit_decides (os : List Obj) (s : St) (o : Obj) (h : Good s) (hf : FDone os s.marks) (hp : isForeign os o.name = false)
    (hs : SelSettled os s.marks) (hn : s.marks o.name = .notknown) :
    visit .inSchemaOrProcessed os s o = { s with marks := setMark s.marks o.name .canprocess } := by
  have h1 : Good { s with marks := setMark s.marks o.name .canprocess } := ⟨noCant_set _ _ _ h.1 (by decide), h.2⟩
  have hf1 : FDone os ({ s with marks := setMark s.marks o.name .canprocess } : St).marks :=
    fdone_of_others os s.marks _ o.name hp (fun k hk => setMark_other _ _ _ _ hk) hf
  have hs1 : SelSettled os ({ s with marks := setMark s.marks o.name .canprocess } : St).marks := by
    intro i o' hl hsel
    by_cases e : i = o.name
    · rw [e]; simp [setMark]
    · rw [show ({ s with marks := setMark s.marks o.name .canprocess } : St).marks i = s.marks i from setMark_other _ _ _ _ e]
      exact hs i o' hl hsel
  unfold visit
  rw [if_neg (by rw [hn]; simp), foreignBlocked_false os s.marks o hf]
  simp only [Bool.false_eq_true, if_false, checkItems_id os o.name false o.items _ h1 hf1 hs1,
    checkItems_id os o.name true o.entAttrTypes _ h1 hf1 hs1]

/-- `checkEnts` after a settled `checkTypes`: every entity that was NOTKNOWN is CANPROCESS afterwards; the state stays Good -/
theorem sweep_entities_decided (os ents : List Obj) (hown : ∀ o ∈ ents, isForeign os o.name = false) (s : St) (h : Good s)
    (hf : FDone os s.marks) (hs : SelSettled os s.marks) :
    Good (sweep .inSchemaOrProcessed os ents s) ∧ FDone os (sweep .inSchemaOrProcessed os ents s).marks ∧
    SelSettled os (sweep .inSchemaOrProcessed os ents s).marks ∧
    (∀ o ∈ ents, (sweep .inSchemaOrProcessed os ents s).marks o.name ≠ .notknown) ∧
    (∀ k, s.marks k ≠ .notknown → (sweep .inSchemaOrProcessed os ents s).marks k = s.marks k) := by
  unfold sweep
  induction ents generalizing s with
  | nil => exact ⟨h, hf, hs, fun o ho => absurd ho List.not_mem_nil, fun _ _ => rfl⟩
  | cons o rest ih =>
    simp only [List.foldl_cons]
    have hpo := hown o List.mem_cons_self
    by_cases hn : s.marks o.name = .notknown
    · have e := visit_decides os s o h hf hpo hs hn
      have g1 : Good (visit .inSchemaOrProcessed os s o) := (visit_rel os s o h hf hpo).1
      have f1 := visit_fdone os s o h hf hpo
      have s1 : SelSettled os (visit .inSchemaOrProcessed os s o).marks := by
        rw [e]
        intro i o' hl hsel
        by_cases ee : i = o.name
        · rw [ee]; simp [setMark]
        · rw [show ({ s with marks := setMark s.marks o.name .canprocess } : St).marks i = s.marks i from setMark_other _ _ _ _ ee]
          exact hs i o' hl hsel
      have r := ih (fun o' ho' => hown o' (List.mem_cons_of_mem _ ho')) _ g1 f1 s1
      have hdec : (visit .inSchemaOrProcessed os s o).marks o.name = .canprocess := by rw [e]; exact setMark_self _ _ _
      refine ⟨r.1, r.2.1, r.2.2.1, ?_, ?_⟩
      · intro o' ho'
        rcases List.mem_cons.mp ho' with rfl | ho'
        · rw [r.2.2.2.2 o'.name (by rw [hdec]; decide), hdec]; decide
        · exact r.2.2.2.1 o' ho'
      · intro k hk
        have : (visit .inSchemaOrProcessed os s o).marks k = s.marks k := by
          rw [e]
          by_cases ee : k = o.name
          · rw [ee] at hk; exact absurd hn hk
          · exact setMark_other _ _ _ _ ee
        rw [r.2.2.2.2 k (by rw [this]; exact hk), this]
    · have e : visit .inSchemaOrProcessed os s o = s := (visit_rel os s o h hf hpo).2.2.1 hn
      rw [e]
      have r := ih (fun o' ho' => hown o' (List.mem_cons_of_mem _ ho')) s h hf hs
      refine ⟨r.1, r.2.1, r.2.2.1, ?_, r.2.2.2.2⟩
      intro o' ho'
      rcases List.mem_cons.mp ho' with rfl | ho'
      · rw [r.2.2.2.2 o'.name hn]; exact hn
      · exact r.2.2.2.1 o' ho'

end StepModel.GenFiles.Pass

namespace StepModel.GenFiles.Pass
open StepModel.Generated.CxxPass

/-! ## one schema visited by `print_schemas_separate` after its suppliers -/

theorem unsetObjs_id (p : PSchema) (m : Marks) (h : NoCant m) : unsetObjs p m = m := by
  funext n
  unfold unsetObjs
  have : (m n == Mark.cantprocess) = false := by
    cases hm : m n <;> first | rfl | exact absurd hm (h n)
  simp [this]

/-- the structural hypotheses on a schema of the file model: own objects are not foreign and have pairwise different
    names, and every select the schema knows is one of its types or a foreign stub -/
structure WellFormed (p : PSchema) : Prop where
  nodup : (p.types.map (·.name)).Nodup
  ownT : ∀ o ∈ p.types, isForeign p.os o.name = false
  ownE : ∀ o ∈ p.ents, isForeign p.os o.name = false
  sel : ∀ i o, lookup p.os i = some o → o.isSelect = true → o.foreign = true ∨ ∃ t ∈ p.types, t.name = i

/-- `checkTypes` + `checkEnts` for a schema whose foreign objects are all PROCESSED, under the stall-detecting loop:
    the loop finishes, nothing is CANTPROCESS, the schema is not set back, and every own object is decided -/
theorem passResult_ready (p : PSchema) (m : Marks) (wf : WellFormed p) (hc : NoCant m) (hf : FDone p.os m) :
    ∃ s, passResult .untilSettledOrStalled .inSchemaOrProcessed p m = some s ∧ NoCant s.marks ∧ s.schemaUnprocessed = false ∧
      (∀ o ∈ p.own, s.marks o.name ≠ .notknown) ∧ (∀ k, m k ≠ .notknown → s.marks k = m k) := by
  have hr : Ready p.os p.types { marks := m, schemaUnprocessed := false } := ⟨wf.nodup, wf.ownT, ⟨hc, rfl⟩, hf⟩
  have hex := run_stalled_terminates p.os p.types _ hr
  have inv := run_inv .untilSettledOrStalled (Or.inr rfl) p.os p.types _ hr (p.types.length + 2)
  have hset := inv.2.2 hex
  have hss : SelSettled p.os (runFrom .untilSettledOrStalled .inSchemaOrProcessed p.os p.types { marks := m, schemaUnprocessed := false } (p.types.length + 2)).st.marks := by
    intro i o hl hs
    rcases wf.sel i o hl hs with hfo | ⟨t, ht, hn⟩
    · rw [inv.2.1 i (by rw [isForeign_of_lookup p.os i o hl]; exact hfo)]; decide
    · rw [← hn]; exact hset t ht
  have r := sweep_entities_decided p.os p.ents wf.ownE _ inv.1 inv.2.1 hss
  refine ⟨_, by unfold passResult; simp only [hex, if_true], r.1.1, r.1.2, ?_, ?_⟩
  · intro o ho
    rcases List.mem_append.mp ho with ht | he
    · rw [r.2.2.2.2 o.name (hset o ht)]; exact hset o ht
    · exact r.2.2.2.1 o he
  · intro k hk
    -- marks that were decided before the visit are not touched by the type loop …
    have keep : ∀ j, (runFrom .untilSettledOrStalled .inSchemaOrProcessed p.os p.types { marks := m, schemaUnprocessed := false } j).st.marks k = m k := by
      intro j
      induction j with
      | zero => rfl
      | succ j ih =>
        have erun : runFrom .untilSettledOrStalled .inSchemaOrProcessed p.os p.types { marks := m, schemaUnprocessed := false } (j + 1) =
            iterate .untilSettledOrStalled .inSchemaOrProcessed p.os p.types (runFrom .untilSettledOrStalled .inSchemaOrProcessed p.os p.types { marks := m, schemaUnprocessed := false } j) (j + 1) := rfl
        rw [erun]
        have invj := run_inv .untilSettledOrStalled (Or.inr rfl) p.os p.types _ hr j
        cases he : (runFrom .untilSettledOrStalled .inSchemaOrProcessed p.os p.types { marks := m, schemaUnprocessed := false } j).exited with
        | true => rw [iterate_exited _ _ _ _ _ _ he]; exact ih
        | false =>
          -- a sweep changes a mark only from NOTKNOWN (to CANPROCESS or back to NOTKNOWN); `k` is decided
          have hsw : ∀ (order : List Obj) (s : St), Good s → FDone p.os s.marks → (∀ o ∈ order, isForeign p.os o.name = false) →
              s.marks k ≠ .notknown → (sweep .inSchemaOrProcessed p.os order s).marks k = s.marks k := by
            intro order
            induction order with
            | nil => intro s _ _ _ _; rfl
            | cons o rest ihr =>
              intro s hg hfd hown hks
              have hpo := hown o List.mem_cons_self
              have v := visit_rel p.os s o hg hfd hpo
              have hvk : (visit .inSchemaOrProcessed p.os s o).marks k = s.marks k := by
                by_cases e : k = o.name
                · rw [e] at hks ⊢; rw [v.2.2.1 hks]
                · exact v.2.1 k e
              have := ihr (visit .inSchemaOrProcessed p.os s o) v.1 (visit_fdone p.os s o hg hfd hpo)
                (fun o' ho' => hown o' (List.mem_cons_of_mem _ ho')) (by rw [hvk]; exact hks)
              simp only [sweep, List.foldl_cons] at this ⊢
              rw [this, hvk]
          have hk' : (resetUnknown (runFrom .untilSettledOrStalled .inSchemaOrProcessed p.os p.types { marks := m, schemaUnprocessed := false } j).st).marks k ≠ .notknown := by
            show (runFrom .untilSettledOrStalled .inSchemaOrProcessed p.os p.types { marks := m, schemaUnprocessed := false } j).st.marks k ≠ .notknown
            rw [ih]; exact hk
          have hs1 := hsw p.types (resetUnknown (runFrom .untilSettledOrStalled .inSchemaOrProcessed p.os p.types { marks := m, schemaUnprocessed := false } j).st)
            (resetUnknown_good _ invj.1) invj.2.1 wf.ownT hk'
          by_cases hcc : 0 < (sweep .inSchemaOrProcessed p.os p.types (resetUnknown (runFrom .untilSettledOrStalled .inSchemaOrProcessed p.os p.types { marks := m, schemaUnprocessed := false } j).st)).unknown ∧
              (sweep .inSchemaOrProcessed p.os p.types (resetUnknown (runFrom .untilSettledOrStalled .inSchemaOrProcessed p.os p.types { marks := m, schemaUnprocessed := false } j).st)).unknown = (runFrom .untilSettledOrStalled .inSchemaOrProcessed p.os p.types { marks := m, schemaUnprocessed := false } j).last
          · rw [iterate_stall _ _ _ _ _ he hcc]
            simp only [markRemaining]
            have hne : (sweep .inSchemaOrProcessed p.os p.types (resetUnknown (runFrom .untilSettledOrStalled .inSchemaOrProcessed p.os p.types { marks := m, schemaUnprocessed := false } j).st)).marks k ≠ .notknown := by
              rw [hs1]; exact hk'
            rw [if_neg (fun hx => hne hx.1), hs1]
            exact ih
          · rw [iterate_nostall _ _ _ _ _ he hcc]
            simp only
            rw [hs1]; exact ih
    -- … nor by `checkEnts`
    rw [r.2.2.2.2 k (by rw [keep]; exact hk), keep]

end StepModel.GenFiles.Pass

namespace StepModel.GenFiles.Pass
open StepModel.Generated.CxxPass

/-- state of `print_schemas_separate` in which every `SCHEMAprint` call so far had suffix 0 and the schemas in `done`
    are completely PROCESSED -/
structure Clean (done : List PSchema) (fs : FileSt) : Prop where
  nocant : NoCant fs.marks
  nothung : fs.hung = false
  counters : ∀ n, fs.counter n = 0
  processed : ∀ q ∈ done, ∀ o ∈ q.own, fs.marks o.name = .processed
  finished : ∀ q ∈ done, fs.unprocessed q.name = false
  suffix0 : ∀ x ∈ fs.printed, x.2 = 0

/-- one schema visited after all its suppliers: it is printed (if it has anything to print) with suffix 0, completely, and
    the state stays clean -/
theorem visitSchema_clean (d : Bool) (done : List PSchema) (fs : FileSt) (p : PSchema) (hcl : Clean done fs) (wf : WellFormed p)
    (hun : fs.unprocessed p.name = true)
    (hdep : ∀ n, isForeign p.os n = true → ∃ q ∈ done, ∃ o ∈ q.own, o.name = n)
    (hnames : ∀ q ∈ done, q.name ≠ p.name) :
    Clean (done ++ [p]) (visitSchema d .untilSettledOrStalled .inSchemaOrProcessed fs p) ∧
    (∀ n, n ≠ p.name → (visitSchema d .untilSettledOrStalled .inSchemaOrProcessed fs p).unprocessed n = fs.unprocessed n) := by
  have hfd : FDone p.os fs.marks := by
    intro n hn
    obtain ⟨q, hq, o, ho, e⟩ := hdep n hn
    rw [← e]; exact hcl.processed q hq o ho
  obtain ⟨s, hs, hnc, hsu, hdec, hkeep⟩ := passResult_ready p fs.marks wf hcl.nocant hfd
  have ev : visitSchema d .untilSettledOrStalled .inSchemaOrProcessed fs p = finishVisit fs p s := by
    unfold visitSchema
    rw [if_neg (by rw [hun, hcl.nothung]; decide), unsetObjs_id p fs.marks hcl.nocant, hs]
    simp only [hsu, Bool.and_false, Bool.false_and, Bool.false_eq_true, if_false]
  rw [ev]
  have hsuf : (if s.schemaUnprocessed || fs.counter p.name > 0 then fs.counter p.name + 1 else 0) = 0 := by
    rw [hsu, hcl.counters p.name]; simp
  refine ⟨⟨?_, ?_, ?_, ?_, ?_, ?_⟩, ?_⟩
  · intro k
    simp only [finishVisit]
    split
    · decide
    · exact hnc k
  · simp [finishVisit, hcl.nothung]
  · intro n
    simp only [finishVisit, hsuf]
    rw [if_neg (by intro h; exact absurd h.2.2 (by decide))]
    exact hcl.counters n
  · intro q hq o ho
    simp only [finishVisit]
    rcases List.mem_append.mp hq with hq | hq
    · have hp := hcl.processed q hq o ho
      have : s.marks o.name = .processed := by rw [hkeep o.name (by rw [hp]; decide), hp]
      rw [this]; simp
    · have hqp : q = p := by simpa using hq
      subst hqp
      have h1 := hdec o ho
      have h2 := hnc o.name
      cases hm : s.marks o.name with
      | notknown => exact absurd hm h1
      | cantprocess => exact absurd hm h2
      | processed => simp
      | canprocess =>
        have hany : (q.own.any fun o => s.marks o.name == .canprocess) = true :=
          List.any_eq_true.mpr ⟨o, ho, by simp [hm]⟩
        have hown : (q.own.any fun o' => o'.name == o.name) = true := List.any_eq_true.mpr ⟨o, ho, by simp⟩
        simp [hany, hown]
  · intro q hq
    simp only [finishVisit]
    rcases List.mem_append.mp hq with hq | hq
    · rw [if_neg (hnames q hq)]; exact hcl.finished q hq
    · have hqp : q = p := by simpa using hq
      subst hqp
      simp [hsu]
  · intro x hx
    simp only [finishVisit, hsuf] at hx
    split at hx
    · rcases List.mem_append.mp hx with hx | hx
      · exact hcl.suffix0 x hx
      · have : x = (p.name, 0) := by simpa using hx
        rw [this]
    · exact hcl.suffix0 x hx
  · intro n hn
    simp only [finishVisit]
    rw [if_neg hn]

/-- the schemas of a file in an order in which every schema comes after all the schemas it takes objects from -/
def InDependencyOrder : List PSchema → List PSchema → Prop
  | _, [] => True
  | done, p :: rest =>
    WellFormed p ∧ (∀ n, isForeign p.os n = true → ∃ q ∈ done, ∃ o ∈ q.own, o.name = n) ∧
    (∀ q ∈ done, q.name ≠ p.name) ∧ (∀ q ∈ rest, q.name ≠ p.name) ∧ InDependencyOrder (done ++ [p]) rest

theorem round_clean (d : Bool) (done todo : List PSchema) (fs : FileSt) (hcl : Clean done fs) (hord : InDependencyOrder done todo)
    (hun : ∀ q ∈ todo, fs.unprocessed q.name = true) :
    Clean (done ++ todo) (todo.foldl (visitSchema d .untilSettledOrStalled .inSchemaOrProcessed) fs) := by
  induction todo generalizing done fs with
  | nil => simpa using hcl
  | cons p rest ih =>
    obtain ⟨wf, hdep, hn1, hn2, hrest⟩ := hord
    have st := visitSchema_clean d done fs p hcl wf (hun p List.mem_cons_self) hdep hn1
    simp only [List.foldl_cons]
    have := ih (done ++ [p]) _ st.1 hrest (fun q hq => by
      rw [st.2 q.name (hn2 q hq)]; exact hun q (List.mem_cons_of_mem _ hq))
    simpa using this

end StepModel.GenFiles.Pass

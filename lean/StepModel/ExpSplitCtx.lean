import StepModel.ExpLexGlue
/-!
Split string literals inside an arbitrary surrounding expression: the relation "`e'` is `e` with some of its simple string
literals replaced by left-nested sums of literals whose pieces concatenate to them", and what follows from it.
-/
namespace StepModel.Express
open StepModel.Generated

/-- `SplitOf e' e`: `e'` is `e` with string literals replaced by sums of their pieces (`sumExpr x ys`, `x ++ ys.flatten = s`) -/
inductive SplitOf : Expr → Expr → Prop
  | str (x : List Char) (ys : List (List Char)) : SplitOf (sumExpr x ys) (.lit (.str (x ++ ys.flatten)))
  | lit (l : Lit) : SplitOf (.lit l) (.lit l)
  | ident (s : String) : SplitOf (.ident s) (.ident s)
  | bin (o : BinOp) {a a' b b' : Expr} : SplitOf a' a → SplitOf b' b → SplitOf (.bin o a' b') (.bin o a b)
  | neg {a a' : Expr} : SplitOf a' a → SplitOf (.neg a') (.neg a)
  | not {a a' : Expr} : SplitOf a' a → SplitOf (.not a') (.not a)
  | dot {a a' : Expr} (f : String) : SplitOf a' a → SplitOf (.dot a' f) (.dot a f)
  | group {a a' : Expr} (f : String) : SplitOf a' a → SplitOf (.group a' f) (.group a f)
  | index {a a' i i' : Expr} : SplitOf a' a → SplitOf i' i → SplitOf (.index a' i') (.index a i)
  | range {a a' i i' j j' : Expr} : SplitOf a' a → SplitOf i' i → SplitOf j' j → SplitOf (.range a' i' j') (.range a i j)
  | query (v : String) {s s' c c' : Expr} : SplitOf s' s → SplitOf c' c → SplitOf (.query v s' c') (.query v s c)
  | call (f : String) {a a' : Expr} : SplitOf a' a → SplitOf (.call f a') (.call f a)
  | aggr {a a' : Expr} : SplitOf a' a → SplitOf (.aggr a') (.aggr a)
  | nil : SplitOf .nil .nil
  | cons {e e' t t' : Expr} : SplitOf e' e → SplitOf t' t → SplitOf (.cons e' t') (.cons e t)
  | rep {e e' c c' t t' : Expr} : SplitOf e' e → SplitOf c' c → SplitOf t' t → SplitOf (.rep e' c' t') (.rep e c t)

/-- re-joining undoes the replacement -/
theorem joinStr_splitOf {e' e : Expr} (h : SplitOf e' e) : joinStr e' = joinStr e := by
  induction h with
  | str x ys => rw [joinStr_sumExpr]; simp [joinStr]
  | lit l => rfl
  | ident s => rfl
  | bin o _ _ iha ihb => simp only [joinStr, iha, ihb]
  | neg _ ih => simp only [joinStr, ih]
  | not _ ih => simp only [joinStr, ih]
  | dot f _ ih => simp only [joinStr, ih]
  | group f _ ih => simp only [joinStr, ih]
  | index _ _ iha ihi => simp only [joinStr, iha, ihi]
  | range _ _ _ iha ihi ihj => simp only [joinStr, iha, ihi, ihj]
  | query v _ _ ihs ihc => simp only [joinStr, ihs, ihc]
  | call f _ ih => simp only [joinStr, ih]
  | aggr _ ih => simp only [joinStr, ih]
  | nil => rfl
  | cons _ _ ihe iht => simp only [joinStr, ihe, iht]
  | rep _ _ _ ihe ihc iht => simp only [joinStr, ihe, ihc, iht]

theorem sumExpr_isBinOrLit (x : List Char) (ys : List (List Char)) :
    (∃ o a b, sumExpr x ys = .bin o a b) ∨ sumExpr x ys = .lit (.str x) := by
  cases ys with
  | nil => exact Or.inr rfl
  | cons y ys' =>
    left
    rcases List.eq_nil_or_concat (y :: ys') with h | ⟨ys0, z, h⟩
    · cases h
    · rw [sumExpr_eq, h, List.concat_eq_append, sumFrom_snoc]; exact ⟨_, _, _, rfl⟩

/-- the replacement keeps expressions parser-buildable -/
theorem wf_splitOf {e' e : Expr} (h : SplitOf e' e) :
    (wfE e → wfE e') ∧ (wfArgs e → wfArgs e') ∧ (wfItems e → wfItems e') := by
  induction h with
  | str x ys => exact ⟨fun _ => wfE_sumExpr x ys, fun h => by simp [wfArgs] at h, fun h => by simp [wfItems] at h⟩
  | lit l => exact ⟨id, id, id⟩
  | ident s => exact ⟨id, id, id⟩
  | bin o _ _ iha ihb =>
    exact ⟨fun h => by simp only [wfE] at h ⊢; exact ⟨iha.1 h.1, ihb.1 h.2⟩, fun h => by simp [wfArgs] at h, fun h => by simp [wfItems] at h⟩
  | neg _ ih => exact ⟨fun h => by simp only [wfE] at h ⊢; exact ih.1 h, fun h => by simp [wfArgs] at h, fun h => by simp [wfItems] at h⟩
  | not _ ih => exact ⟨fun h => by simp only [wfE] at h ⊢; exact ih.1 h, fun h => by simp [wfArgs] at h, fun h => by simp [wfItems] at h⟩
  | dot f _ ih => exact ⟨fun h => by simp only [wfE] at h ⊢; exact ih.1 h, fun h => by simp [wfArgs] at h, fun h => by simp [wfItems] at h⟩
  | group f _ ih => exact ⟨fun h => by simp only [wfE] at h ⊢; exact ih.1 h, fun h => by simp [wfArgs] at h, fun h => by simp [wfItems] at h⟩
  | index _ _ iha ihi =>
    exact ⟨fun h => by simp only [wfE] at h ⊢; exact ⟨iha.1 h.1, ihi.1 h.2⟩, fun h => by simp [wfArgs] at h, fun h => by simp [wfItems] at h⟩
  | range _ _ _ iha ihi ihj =>
    exact ⟨fun h => by simp only [wfE] at h ⊢; exact ⟨iha.1 h.1, ihi.1 h.2.1, ihj.1 h.2.2⟩, fun h => by simp [wfArgs] at h,
      fun h => by simp [wfItems] at h⟩
  | query v _ _ ihs ihc =>
    exact ⟨fun h => by simp only [wfE] at h ⊢; exact ⟨ihs.1 h.1, ihc.1 h.2⟩, fun h => by simp [wfArgs] at h, fun h => by simp [wfItems] at h⟩
  | call f _ ih => exact ⟨fun h => by simp only [wfE] at h ⊢; exact ih.2.1 h, fun h => by simp [wfArgs] at h, fun h => by simp [wfItems] at h⟩
  | aggr _ ih => exact ⟨fun h => by simp only [wfE] at h ⊢; exact ih.2.2 h, fun h => by simp [wfArgs] at h, fun h => by simp [wfItems] at h⟩
  | nil => exact ⟨id, id, id⟩
  | cons _ _ ihe iht =>
    exact ⟨fun h => by simp [wfE] at h, fun h => by simp only [wfArgs] at h ⊢; exact ⟨ihe.1 h.1, iht.2.1 h.2⟩,
      fun h => by simp only [wfItems] at h ⊢; exact ⟨ihe.1 h.1, iht.2.2 h.2⟩⟩
  | rep _ _ _ ihe ihc iht =>
    exact ⟨fun h => by simp [wfE] at h, fun h => by simp [wfArgs] at h,
      fun h => by simp only [wfItems] at h ⊢; exact ⟨ihe.1 h.1, ihc.1 h.2.1, iht.2.2 h.2.2⟩⟩

/-! ### the tokens of the replaced expression: the tokens of the original, each split literal as a split rendering -/

theorem escQ_flatten (l : List (List Char)) : escQ l.flatten = (l.map escQ).flatten := by
  induction l with
  | nil => simp [escQ]
  | cons a l ih => simp [escQ_append, ih]

theorem toks_sumExpr_gen (x : List Char) (ys : List (List Char)) (hne : ys ≠ []) (p : Bool) (q : Option BinOp) :
    toks Shared.clean (sumExpr x ys) p q
      = (if binParen .plus p q then [.lp] else []) ++ sumToks ((x :: ys).map escQ) ++ (if binParen .plus p q then [.rp] else []) := by
  by_cases hp : binParen .plus p q = true
  · rcases List.eq_nil_or_concat ys with h | ⟨ys0, z, h⟩
    · exact absurd h hne
    · subst h
      have hr : rprev .plus = none := rprev_none .plus
      have hA := toks_sumExpr x ys0 true (some .plus) (fun _ => binParen_plus_chain)
      rw [sumExpr_eq, List.concat_eq_append, sumFrom_snoc, ← sumExpr_eq]
      simp only [toks, hp, if_true, hr, hA, litToks]
      rw [List.map_cons, sumToks_cons, List.map_cons, sumToks_cons]
      simp [List.flatMap_append, List.map_append]
  · have hf : binParen .plus p q = false := by simpa using hp
    simp only [hf, Bool.false_eq_true, if_false, List.nil_append, List.append_nil]
    exact toks_sumExpr x ys p q (fun _ => hf)

/-- a sum of pieces in place of a string literal prints a split rendering of that literal, in every context -/
theorem strSplit_sumExpr (x : List Char) (ys : List (List Char)) (p : Bool) (q : Option BinOp) :
    StrSplit (escQ (x ++ ys.flatten)) (toks Shared.clean (sumExpr x ys) p q) := by
  cases ys with
  | nil => simpa [sumExpr, toks, litToks] using (StrSplit.one (b := escQ x))
  | cons y ys' =>
    rw [toks_sumExpr_gen x (y :: ys') (by simp) p q]
    have hfl : ((x :: y :: ys').map escQ).flatten = escQ (x ++ (y :: ys').flatten) := by
      rw [← escQ_flatten]; simp
    exact StrSplit.sum ((x :: y :: ys').map escQ) (binParen .plus p q) (by simp) hfl
      (by intro g hg; obtain ⟨z, _, rfl⟩ := List.mem_map.mp hg; exact ⟨z, rfl⟩)

theorem joined_single {x : List Tok} {b : List Char} (h : StrSplit b x) : Joined x [.str b] := by
  have := Joined.str (a := []) (c := []) h Joined.nil
  simpa using this

/-- a replaced string literal, whatever the two printing contexts -/
theorem joined_leaf {i' : Expr} {s : List Char} (h : SplitOf i' (.lit (.str s))) (p : Bool) (q : Option BinOp) (p' : Bool)
    (q' : Option BinOp) : Joined (toks Shared.clean i' p q) (toks Shared.clean (.lit (.str s)) p' q') := by
  have hr : toks Shared.clean (.lit (.str s)) p' q' = [.str (escQ s)] := by simp [toks, litToks]
  rw [hr]
  generalize hl : Expr.lit (Lit.str s) = l at h
  cases h with
  | str x ys =>
    injection hl with h1; injection h1 with h2
    subst h2
    exact joined_single (strSplit_sumExpr x ys p q)
  | lit l0 =>
    injection hl with h1
    subst h1
    simpa [toks, litToks] using Joined.refl [Tok.str (escQ s)]
  | _ => cases hl

theorem indexParen_splitOf {i' i : Expr} (h : SplitOf i' i) : indexParen i' = indexParen i ∨ ∃ s, i = .lit (.str s) := by
  cases h with
  | str x ys => exact Or.inr ⟨_, rfl⟩
  | _ => exact Or.inl rfl

theorem sharedRep_clean' (e : Expr) : sharedRep Shared.clean e = false := sharedRep_clean e

/-- **the tokens of `e'` are the tokens of `e` with split literals**, in every context -/
theorem joined_splitOf {e' e : Expr} (h : SplitOf e' e) :
    (∀ p q, Joined (toks Shared.clean e' p q) (toks Shared.clean e p q))
    ∧ (∀ f, Joined (argToks Shared.clean e' f) (argToks Shared.clean e f))
    ∧ (∀ f, Joined (itemToks Shared.clean e' f) (itemToks Shared.clean e f)) := by
  have hrep : ExpPrec.repeatOverwritesCountType = false := rfl
  induction h with
  | str x ys =>
    refine ⟨fun p q => ?_, fun f => ?_, fun f => ?_⟩
    · have : toks Shared.clean (.lit (.str (x ++ ys.flatten))) p q = [.str (escQ (x ++ ys.flatten))] := by simp [toks, litToks]
      rw [this]; exact joined_single (strSplit_sumExpr x ys p q)
    · rcases sumExpr_isBinOrLit x ys with ⟨o, a, b, hb⟩ | hb <;> rw [hb] <;> simpa [argToks] using Joined.nil
    · rcases sumExpr_isBinOrLit x ys with ⟨o, a, b, hb⟩ | hb <;> rw [hb] <;> simpa [itemToks] using Joined.nil
  | lit l => exact ⟨fun _ _ => Joined.refl _, fun _ => Joined.refl _, fun _ => Joined.refl _⟩
  | ident s => exact ⟨fun _ _ => Joined.refl _, fun _ => Joined.refl _, fun _ => Joined.refl _⟩
  | bin o _ _ iha ihb =>
    refine ⟨fun p q => ?_, fun f => by simpa [argToks] using Joined.nil, fun f => by simpa [itemToks] using Joined.nil⟩
    simp only [toks]
    exact (((Joined.refl _).append (iha.1 true (some o))).append (Joined.refl [.op o])).append (ihb.1 true (rprev o)) |>.append (Joined.refl _)
  | neg _ ih =>
    refine ⟨fun p q => ?_, fun f => by simpa [argToks] using Joined.nil, fun f => by simpa [itemToks] using Joined.nil⟩
    simp only [toks]
    exact (((Joined.refl _).append (Joined.refl _)).append (ih.1 true none)).append (Joined.refl _)
  | not _ ih =>
    refine ⟨fun p q => ?_, fun f => by simpa [argToks] using Joined.nil, fun f => by simpa [itemToks] using Joined.nil⟩
    simp only [toks]
    exact (((Joined.refl _).append (Joined.refl _)).append (ih.1 true none)).append (Joined.refl _)
  | dot f _ ih =>
    refine ⟨fun p q => ?_, fun _ => by simpa [argToks] using Joined.nil, fun _ => by simpa [itemToks] using Joined.nil⟩
    simp only [toks]
    exact (ih.1 true none).append (Joined.refl _)
  | group f _ ih =>
    refine ⟨fun p q => ?_, fun _ => by simpa [argToks] using Joined.nil, fun _ => by simpa [itemToks] using Joined.nil⟩
    simp only [toks]
    exact (ih.1 true none).append (Joined.refl _)
  | @index a a' i i' hsa hsi iha ihi =>
    refine ⟨fun p q => ?_, fun _ => by simpa [argToks] using Joined.nil, fun _ => by simpa [itemToks] using Joined.nil⟩
    simp only [toks]
    have hi : Joined (toks Shared.clean i' (indexParen i') none) (toks Shared.clean i (indexParen i) none) := by
      rcases indexParen_splitOf hsi with he | ⟨s, rfl⟩
      · rw [he]; exact ihi.1 _ none
      · exact joined_leaf hsi _ _ _ _
    exact (((iha.1 true none).append (Joined.refl [.lb])).append hi).append (Joined.refl [.rb])
  | @range a a' i i' j j' hsa hsi hsj iha ihi ihj =>
    refine ⟨fun p q => ?_, fun _ => by simpa [argToks] using Joined.nil, fun _ => by simpa [itemToks] using Joined.nil⟩
    simp only [toks]
    have hi : Joined (toks Shared.clean i' (indexParen i') none) (toks Shared.clean i (indexParen i) none) := by
      rcases indexParen_splitOf hsi with he | ⟨s, rfl⟩
      · rw [he]; exact ihi.1 _ none
      · exact joined_leaf hsi _ _ _ _
    have hj : Joined (toks Shared.clean j' (indexParen j') none) (toks Shared.clean j (indexParen j) none) := by
      rcases indexParen_splitOf hsj with he | ⟨s, rfl⟩
      · rw [he]; exact ihj.1 _ none
      · exact joined_leaf hsj _ _ _ _
    exact (((((iha.1 true none).append (Joined.refl [.lb])).append hi).append (Joined.refl [.colon])).append hj).append (Joined.refl [.rb])
  | query v _ _ ihs ihc =>
    refine ⟨fun p q => ?_, fun _ => by simpa [argToks] using Joined.nil, fun _ => by simpa [itemToks] using Joined.nil⟩
    simp only [toks]
    exact ((((Joined.refl _).append (ihs.1 true none)).append (Joined.refl [.bar])).append (ihc.1 true none)).append (Joined.refl [.rp])
  | call f _ ih =>
    refine ⟨fun p q => ?_, fun _ => by simpa [argToks] using Joined.nil, fun _ => by simpa [itemToks] using Joined.nil⟩
    simp only [toks]
    exact ((Joined.refl _).append (ih.2.1 true)).append (Joined.refl [.rp])
  | aggr _ ih =>
    refine ⟨fun p q => ?_, fun _ => by simpa [argToks] using Joined.nil, fun _ => by simpa [itemToks] using Joined.nil⟩
    simp only [toks]
    exact ((Joined.refl _).append (ih.2.2 true)).append (Joined.refl [.rb])
  | nil => exact ⟨fun _ _ => Joined.refl _, fun _ => Joined.refl _, fun _ => Joined.refl _⟩
  | cons _ _ ihe iht =>
    refine ⟨fun p q => by simpa [toks] using Joined.nil, fun f => ?_, fun f => ?_⟩
    · simp only [argToks]
      exact ((Joined.refl _).append (ihe.1 false none)).append (iht.2.1 false)
    · simp only [itemToks, sharedRep_clean]
      exact ((Joined.refl _).append (ihe.1 false none)).append (iht.2.2 false)
  | rep _ _ _ ihe ihc iht =>
    refine ⟨fun p q => by simpa [toks] using Joined.nil, fun f => by simpa [argToks] using Joined.nil, fun f => ?_⟩
    simp only [itemToks, sharedRep_clean, hrep, Bool.false_eq_true, if_false]
    exact ((((Joined.refl _).append (ihe.1 false none)).append (Joined.refl [.colon])).append (ihc.1 false none)).append (iht.2.2 false)

end StepModel.Express

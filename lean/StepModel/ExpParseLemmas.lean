import StepModel.ExpParse
/-! Helper lemmas for `C07_parse_print_core`: the precedence parser on the token image of the printer. -/
namespace StepModel.Express
open StepModel.Generated

abbrev T := toks Shared.clean

/-- what may follow a complete expression at level `k` in printed text -/
def Fol (k : Nat) : List Tok → Prop
  | [] => True
  | .op o :: _ => o.bp < k
  | .rp :: _ | .rb :: _ | .comma :: _ | .colon :: _ | .bar :: _ => True
  | _ => False

/-- the next token does not continue a primary -/
def NoQ : List Tok → Prop
  | .dot :: _ | .bslash :: _ | .lb :: _ | .lp :: _ => False
  | _ => True

theorem Fol.noQ {k : Nat} {r : List Tok} (h : Fol k r) : NoQ r := by
  cases r with
  | nil => trivial
  | cons t r => cases t <;> simp_all [Fol, NoQ]

theorem parseLoop_stop (n k : Nat) (x : Expr) (r : List Tok) (h : Fol k r) : parseLoop (n + 1) k x r = some (x, r) := by
  cases r with
  | nil => simp [parseLoop]
  | cons t r =>
    cases t <;> simp_all [parseLoop, Fol]
    omega

theorem parsePostfix_stop (n : Nat) (x : Expr) (r : List Tok) (h : NoQ r) : parsePostfix (n + 1) x r = some (x, r) := by
  cases r with
  | nil => simp [parsePostfix]
  | cons t r =>
    cases t <;> simp_all [parsePostfix, NoQ]

/-- literals whose printed token is read back as the same literal -/
def LitWF : Lit → Prop
  | .real g => (real2exp g).all Char.isDigit = false     -- the printed real keeps its point / exponent
  | _ => True

/-- the operator core of the expression language: literals, identifiers, two-operand operators, negation, NOT -/
inductive Core : Expr → Prop
  | lit (l) : LitWF l → Core (.lit l)
  | ident (s) : Core (.ident s)
  | bin (o) {a b} : Core a → Core b → Core (.bin o a b)
  | neg {a} : Core a → Core (.neg a)
  | not {a} : Core a → Core (.not a)

def sz : Expr → Nat
  | .bin _ a b => sz a + sz b + 1
  | .neg a | .not a => sz a + 1
  | _ => 1

theorem sz_pos (e : Expr) : 1 ≤ sz e := by cases e <;> simp [sz]

theorem unescQ_escQ (s : List Char) : unescQ (escQ s) = s := by
  have h : ExpPrec.stringQuoteDoubled = true := rfl
  simp only [escQ, h, if_true]
  induction s with
  | nil => rfl
  | cons c s ih =>
    by_cases hc : c = '\''
    · subst hc
      simp only [List.flatMap_cons, if_true, List.cons_append, List.nil_append]
      rw [unescQ]; simp [ih]
    · simp only [List.flatMap_cons, hc, if_false, List.cons_append, List.nil_append]
      generalize hr : s.flatMap (fun c => if c = '\'' then ['\'', '\''] else [c]) = r at ih ⊢
      cases r with
      | nil => rw [unescQ]; simp [← ih, unescQ]
      | cons d r => rw [unescQ]; simp [hc, ih]

/-- a literal token is read back as the literal -/
theorem parseUnary_lit (l : Lit) (hl : LitWF l) (n : Nat) (r : List Tok) (h : NoQ r) :
    parseUnary (n + 2) (litToks l ++ r) = some (.lit l, r) := by
  have hb : ExpPrec.binaryPrintedFrom = ExpPrec.binaryStoredIn := by decide
  cases l with
  | real g =>
    have hg : (real2exp g).all Char.isDigit = false := hl
    simp only [litToks, hg]
    simp [parseUnary, parsePrimary, parsePostfix_stop _ _ _ h]
  | _ => simp_all [litToks, parseUnary, parsePrimary, parsePostfix_stop, kwLit, LitWF, unescQ_escQ]

theorem parseUnary_ident (s : String) (n : Nat) (r : List Tok) (h : NoQ r) :
    parseUnary (n + 2) (.id s :: r) = some (.ident s, r) := by
  cases r with
  | nil => simp [parseUnary, parsePrimary, parsePostfix]
  | cons t r =>
    cases t <;> first
      | (simp [NoQ] at h; done)
      | (simp only [parseUnary, parsePrimary]; exact parsePostfix_stop _ _ _ (by simp [NoQ]))

/-! ### the operator core -/

def Closed (e : Expr) (p : Bool) (q : Option BinOp) : Prop :=
  match e with
  | .bin o _ _ => binParen o p q = true
  | _ => True

def nextLvl (o : BinOp) : Nat := if o.rightAssoc then o.bp else o.bp + 1

theorem padded_all (o : BinOp) : o.padded = true := by cases o <;> decide
theorem omit_left (o : BinOp) (h : o.omitSame = true) : o.rightAssoc = false := by revert h; cases o <;> decide

theorem binParen_true (o : BinOp) (q : Option BinOp) : binParen o true q = (!o.omitSame || q != some o) := by
  simp [binParen, padded_all]

theorem norm_bin (o : BinOp) (a b : Expr) :
    norm (.bin o a b) = if o.omitSame then attach o (norm a) (norm b) else .bin o (norm a) (norm b) := rfl
theorem norm_neg (a : Expr) : norm (.neg a) = .neg (norm a) := rfl
theorem norm_not (a : Expr) : norm (.not a) = .not (norm a) := rfl

theorem attach_assoc (o : BinOp) (l x : Expr) : ∀ y, attach o (attach o l x) y = attach o l (attach o x y) := by
  intro y
  induction y with
  | bin o' y1 y2 ih1 _ =>
    by_cases ho : o' = o
    · subst ho; simp [attach, ih1]
    · simp [attach, ho]
  | _ => simp [attach]

theorem attach_other (o : BinOp) (l e : Expr) (h : ∀ x y, e ≠ .bin o x y) : attach o l e = .bin o l e := by
  cases e with
  | bin o' x y =>
    by_cases ho : o' = o
    · subst ho; exact absurd rfl (h x y)
    · simp [attach, ho]
  | _ => simp [attach]

theorem norm_top (e : Expr) (o : BinOp) (h : ∀ x y, e ≠ .bin o x y) (hc : Core e) : ∀ x y, norm e ≠ .bin o x y := by
  intro x y
  cases hc with
  | lit l _ => simp [norm, normWith]
  | ident s => simp [norm, normWith]
  | neg _ => simp [norm, normWith]
  | not _ => simp [norm, normWith]
  | @bin o' a b _ _ =>
    rw [norm_bin]
    have ho : o' ≠ o := fun hh => h a b (by rw [hh])
    split
    · cases hb : norm b with
      | bin o2 r1 r2 => by_cases h2 : o2 = o' <;> simp [attach, h2, ho]
      | _ => simp [attach, ho]
    · simp [ho]

/-- side condition of `ParseOK.loop`: an unparenthesised operator expression needs a level that admits its operator and a
follower that ends it -/
def LoopCond (e : Expr) (p : Bool) (q : Option BinOp) (m : Nat) (r : List Tok) : Prop :=
  match e with
  | .bin o _ _ => binParen o p q = true ∨ (m ≤ o.bp ∧ Fol (nextLvl o) r)
  | _ => True

structure ParseOK (e : Expr) : Prop where
  unary : ∀ p q, Closed e p q → ∀ n, 4 * sz e ≤ n + 1 → ∀ r, NoQ r → parseUnary n (T e p q ++ r) = some (norm e, r)
  loop : ∀ p q, ∃ c, c ≤ sz e ∧ 1 ≤ c ∧ ∀ n, 4 * sz e ≤ n → ∀ m r,
      LoopCond e p q m r → NoQ r →
      parseExpr n m (T e p q ++ r) = parseLoop (n - c) m (norm e) r
  chain : ∀ o, o.omitSame = true → ∃ d, d ≤ sz e ∧ 1 ≤ d ∧ ∀ n, 4 * sz e + 1 ≤ n → ∀ m l r, m ≤ o.bp → Fol (o.bp + 1) r →
      parseLoop n m l (.op o :: (T e true (some o) ++ r)) = parseLoop (n - d) m (attach o l (norm e)) r

/-- `loop` for a closed form follows from `unary` -/
theorem loop_of_unary (e : Expr) (p : Bool) (q : Option BinOp)
    (hu : ∀ n, 4 * sz e ≤ n + 1 → ∀ r, NoQ r → parseUnary n (T e p q ++ r) = some (norm e, r))
    (n : Nat) (hn : 4 * sz e ≤ n) (m : Nat) (r : List Tok) (hr : NoQ r) :
    parseExpr n m (T e p q ++ r) = parseLoop (n - 1) m (norm e) r := by
  have := sz_pos e
  obtain ⟨k, rfl⟩ : ∃ k, n = k + 1 := ⟨n - 1, by omega⟩
  rw [parseExpr, hu k (by omega) r hr]
  simp

/-- `chain` for an operand that is not itself a chain of `o` -/
theorem chain_of_loop (e : Expr) (o : BinOp) (ho : o.omitSame = true) (hc : Core e) (hne : ∀ x y, e ≠ .bin o x y)
    (hl : ∀ n, 4 * sz e ≤ n → ∀ m r, NoQ r → parseExpr n m (T e true (some o) ++ r) = parseLoop (n - 1) m (norm e) r)
    (n : Nat) (hn : 4 * sz e + 1 ≤ n) (m : Nat) (l : Expr) (r : List Tok) (hm : m ≤ o.bp) (hr : Fol (o.bp + 1) r) :
    parseLoop n m l (.op o :: (T e true (some o) ++ r)) = parseLoop (n - 1) m (attach o l (norm e)) r := by
  have := sz_pos e
  obtain ⟨k, rfl⟩ : ∃ k, n = k + 1 := ⟨n - 1, by omega⟩
  rw [parseLoop]
  simp only [hm, if_true, omit_left o ho, Bool.false_eq_true, if_false]
  rw [hl k (by omega) _ r hr.noQ]
  obtain ⟨j, hj⟩ : ∃ j, k - 1 = j + 1 := ⟨k - 2, by omega⟩
  rw [hj, parseLoop_stop j _ _ r hr]
  simp [attach_other o l (norm e) (norm_top e o hne hc)]

theorem closed_true_none (e : Expr) : Closed e true none := by
  cases e <;> simp [Closed, binParen_true]

theorem T_lit (l : Lit) (p : Bool) (q : Option BinOp) : T (.lit l) p q = litToks l := by simp [T, toks]
theorem T_ident (s : String) (p : Bool) (q : Option BinOp) : T (.ident s) p q = [.id s] := by simp [T, toks]
theorem T_neg (a : Expr) (p : Bool) (q : Option BinOp) :
    T (.neg a) p q = (if p then [.lp] else []) ++ [.op .minus] ++ T a true none ++ (if p then [.rp] else []) := by simp [T, toks]
theorem T_not (a : Expr) (p : Bool) (q : Option BinOp) :
    T (.not a) p q = (if p then [.lp] else []) ++ [.not] ++ T a true none ++ (if p then [.rp] else []) := by simp [T, toks]
theorem T_bin (o : BinOp) (a b : Expr) (p : Bool) (q : Option BinOp) :
    T (.bin o a b) p q = (if binParen o p q then [.lp] else []) ++ T a true (some o) ++ [.op o] ++ T b true (some o)
      ++ (if binParen o p q then [.rp] else []) := by simp [T, toks]

/-- a parenthesised expression as a primary -/
theorem parseUnary_paren (inner : List Tok) (x : Expr) (n c : Nat) (r : List Tok) (hr : NoQ r) (hc : c + 1 ≤ n)
    (h : parseExpr n 0 (inner ++ .rp :: r) = parseLoop (n - c) 0 x (.rp :: r)) :
    parseUnary (n + 2) (.lp :: (inner ++ .rp :: r)) = some (x, r) := by
  obtain ⟨j, hj⟩ : ∃ j, n - c = j + 1 := ⟨n - c - 1, by omega⟩
  rw [hj, parseLoop_stop j 0 x (.rp :: r) (by simp [Fol])] at h
  simp only [parseUnary, parsePrimary, h]
  exact parsePostfix_stop _ _ _ hr

theorem parseOK_lit (l : Lit) (hl : LitWF l) : ParseOK (.lit l) := by
  have hu : ∀ p q n, 4 * sz (.lit l) ≤ n + 1 → ∀ r, NoQ r → parseUnary n (T (.lit l) p q ++ r) = some (norm (.lit l), r) := by
    intro p q n hn r hr
    obtain ⟨k, rfl⟩ : ∃ k, n = k + 2 := ⟨n - 2, by simp [sz] at hn; omega⟩
    rw [T_lit]; exact parseUnary_lit l hl k r hr
  refine ⟨fun p q _ => hu p q, fun p q => ⟨1, by simp [sz], by omega, fun n hn m r _ hr => loop_of_unary _ p q (hu p q) n hn m r hr⟩,
    fun o ho => ⟨1, by simp [sz], by omega, fun n hn m l' r hm hr =>
      chain_of_loop _ o ho (Core.lit l hl) (by simp) (fun n hn m r hr => loop_of_unary _ _ _ (hu _ _) n hn m r hr) n hn m l' r hm hr⟩⟩

theorem parseOK_ident (s : String) : ParseOK (.ident s) := by
  have hu : ∀ p q n, 4 * sz (.ident s) ≤ n + 1 → ∀ r, NoQ r → parseUnary n (T (.ident s) p q ++ r) = some (norm (.ident s), r) := by
    intro p q n hn r hr
    obtain ⟨k, rfl⟩ : ∃ k, n = k + 2 := ⟨n - 2, by simp [sz] at hn; omega⟩
    rw [T_ident]; exact parseUnary_ident s k r hr
  refine ⟨fun p q _ => hu p q, fun p q => ⟨1, by simp [sz], by omega, fun n hn m r _ hr => loop_of_unary _ p q (hu p q) n hn m r hr⟩,
    fun o ho => ⟨1, by simp [sz], by omega, fun n hn m l' r hm hr =>
      chain_of_loop _ o ho (Core.ident s) (by simp) (fun n hn m r hr => loop_of_unary _ _ _ (hu _ _) n hn m r hr) n hn m l' r hm hr⟩⟩

/-- prefix operators: `tok` is `.op .minus` or `.not`, `mk` the constructor -/
theorem parseOK_prefix (tok : Tok) (mk : Expr → Expr) (e a : Expr)
    (hstep : ∀ n ts, parseUnary (n + 1) (tok :: ts) = match parseUnary n ts with | some (x, r') => some (mk x, r') | none => none)
    (hT : ∀ p q, T e p q = (if p then [.lp] else []) ++ [tok] ++ T a true none ++ (if p then [.rp] else []))
    (hnorm : norm e = mk (norm a)) (hsz : sz e = sz a + 1) (hcore : Core e) (hnb : ∀ o x y, e ≠ .bin o x y)
    (A : ParseOK a) : ParseOK e := by
  have hu : ∀ p q n, 4 * sz e ≤ n + 1 → ∀ r, NoQ r → parseUnary n (T e p q ++ r) = some (norm e, r) := by
    intro p q n hn r hr
    have := sz_pos a
    rw [hsz] at hn
    rw [hT, hnorm]
    cases p with
    | false =>
      obtain ⟨k, rfl⟩ : ∃ k, n = k + 1 := ⟨n - 1, by omega⟩
      simp only [Bool.false_eq_true, if_false, List.nil_append, List.append_nil, List.singleton_append, List.cons_append]
      rw [hstep, A.unary true none (closed_true_none a) k (by omega) r hr]
    | true =>
      obtain ⟨k, rfl⟩ : ∃ k, n = k + 4 := ⟨n - 4, by omega⟩
      simp only [if_true, List.singleton_append, List.cons_append, List.append_assoc, List.nil_append]
      have h := parseUnary_paren (tok :: T a true none) (mk (norm a)) (k + 2) 1 r hr (by omega) (by
        rw [parseExpr]
        simp only [List.cons_append]
        rw [hstep, A.unary true none (closed_true_none a) k (by omega) (.rp :: r) (by simp [NoQ])]
        simp)
      simpa using h
  refine ⟨fun p q _ => hu p q, fun p q => ⟨1, by omega, by omega, fun n hn m r _ hr => loop_of_unary _ p q (hu p q) n hn m r hr⟩,
    fun o ho => ⟨1, by omega, by omega, fun n hn m l' r hm hr =>
      chain_of_loop _ o ho hcore (hnb o) (fun n hn m r hr => loop_of_unary _ _ _ (hu _ _) n hn m r hr) n hn m l' r hm hr⟩⟩

theorem parseOK_neg (a : Expr) (hc : Core a) (A : ParseOK a) : ParseOK (.neg a) :=
  parseOK_prefix (.op .minus) .neg (.neg a) a (fun n ts => by simp only [parseUnary]; cases parseUnary n ts with | none => rfl | some v => cases v; rfl) (T_neg a) rfl (by simp [sz]) (Core.neg hc)
    (by simp) A

theorem parseOK_not (a : Expr) (hc : Core a) (A : ParseOK a) : ParseOK (.not a) :=
  parseOK_prefix .not .not (.not a) a (fun n ts => by simp only [parseUnary]; cases parseUnary n ts with | none => rfl | some v => cases v; rfl) (T_not a) rfl (by simp [sz]) (Core.not hc)
    (by simp) A

theorem nextLvl_omit (o : BinOp) (h : o.omitSame = true) : nextLvl o = o.bp + 1 := by simp [nextLvl, omit_left o h]

/-- the side condition of `ParseOK.loop` for a child printed with `(true, some o)` -/
theorem child_cond (o : BinOp) (e : Expr) (m : Nat) (rest : List Tok)
    (h : o.omitSame = true → m ≤ o.bp ∧ Fol (o.bp + 1) rest) : LoopCond e true (some o) m rest := by
  cases e with
  | bin o' x y =>
    simp only [LoopCond]
    by_cases hp : binParen o' true (some o) = true
    · exact Or.inl hp
    · right
      rw [binParen_true] at hp
      simp at hp
      obtain ⟨h1, h2⟩ := hp
      subst h2
      rw [nextLvl_omit o h1]
      exact h h1
  | _ => simp [LoopCond]

theorem open_bin (o : BinOp) (a b : Expr) (A : ParseOK a) (B : ParseOK b) :
    ∃ c, c ≤ sz a + sz b ∧ 1 ≤ c ∧ ∀ n, 4 * (sz a + sz b + 1) ≤ n + 3 → ∀ m r, m ≤ o.bp → Fol (nextLvl o) r →
      parseExpr n m (T a true (some o) ++ .op o :: (T b true (some o) ++ r)) = parseLoop (n - c) m (norm (.bin o a b)) r := by
  have hsa := sz_pos a
  have hsb := sz_pos b
  obtain ⟨ca, hca, hca1, La⟩ := A.loop true (some o)
  by_cases ho : o.omitSame = true
  · obtain ⟨db, hdb, hdb1, Cb⟩ := B.chain o ho
    refine ⟨ca + db, by omega, by omega, ?_⟩
    intro n hn m r hm hr
    have hnl := nextLvl_omit o ho
    rw [La n (by omega) m _ (child_cond o a m _ (fun _ => ⟨hm, by simp [Fol]⟩)) (by simp [NoQ])]
    rw [Cb (n - ca) (by omega) m (norm a) r hm (hnl ▸ hr)]
    rw [norm_bin, if_pos ho, Nat.sub_sub]
  · obtain ⟨cb, hcb, hcb1, Lb⟩ := B.loop true (some o)
    refine ⟨ca + 1, by omega, by omega, ?_⟩
    intro n hn m r hm hr
    rw [La n (by omega) m _ (child_cond o a m _ (fun h => absurd h ho)) (by simp [NoQ])]
    obtain ⟨k, hk⟩ : ∃ k, n - ca = k + 1 := ⟨n - ca - 1, by omega⟩
    rw [hk, parseLoop]
    simp only [hm, if_true]
    have hl : (if o.rightAssoc = true then o.bp else o.bp + 1) = nextLvl o := rfl
    rw [hl, Lb k (by omega) (nextLvl o) r (child_cond o b _ _ (fun h => absurd h ho)) hr.noQ]
    obtain ⟨j, hj⟩ : ∃ j, k - cb = j + 1 := ⟨k - cb - 1, by omega⟩
    rw [hj, parseLoop_stop j _ _ r hr]
    simp only []
    rw [norm_bin, if_neg ho]
    congr 1
    omega

theorem parseOK_bin (o : BinOp) (a b : Expr) (ha : Core a) (hb : Core b) (A : ParseOK a) (B : ParseOK b) :
    ParseOK (.bin o a b) := by
  have hsa := sz_pos a
  have hsb := sz_pos b
  have hsz : sz (.bin o a b) = sz a + sz b + 1 := by simp [sz]
  obtain ⟨c0, hc0, hc01, Hopen⟩ := open_bin o a b A B
  have hu : ∀ p q, binParen o p q = true → ∀ n, 4 * sz (.bin o a b) ≤ n + 1 → ∀ r, NoQ r →
      parseUnary n (T (.bin o a b) p q ++ r) = some (norm (.bin o a b), r) := by
    intro p q hp n hn r hr
    rw [hsz] at hn
    obtain ⟨k, rfl⟩ : ∃ k, n = k + 2 := ⟨n - 2, by omega⟩
    rw [T_bin]
    simp only [hp, if_true, List.singleton_append, List.cons_append, List.append_assoc, List.nil_append]
    have h := parseUnary_paren (T a true (some o) ++ .op o :: T b true (some o)) (norm (.bin o a b)) k c0 r hr (by omega) (by
      have := Hopen k (by omega) 0 (.rp :: r) (Nat.zero_le _) (by simp [Fol])
      simpa [List.append_assoc] using this)
    simpa [List.append_assoc] using h
  refine ⟨fun p q hc => hu p q hc, ?_, ?_⟩
  · intro p q
    by_cases hp : binParen o p q = true
    · exact ⟨1, by omega, by omega, fun n hn m r _ hr => loop_of_unary _ p q (hu p q hp) n hn m r hr⟩
    · refine ⟨c0, by omega, hc01, ?_⟩
      intro n hn m r hcond _
      rw [hsz] at hn
      simp only [LoopCond] at hcond
      rcases hcond with h | ⟨hm, hf⟩
      · exact absurd h hp
      · rw [T_bin]
        simp only [hp, Bool.false_eq_true, if_false, List.nil_append, List.append_nil, List.append_assoc, List.singleton_append]
        exact Hopen n (by omega) m r hm hf
  · intro o' ho'
    by_cases hp : binParen o true (some o') = true
    · have hne : o ≠ o' := by
        intro h; subst h
        rw [binParen_true] at hp
        simp [ho'] at hp
      exact ⟨1, by omega, by omega, fun n hn m l r hm hr =>
        chain_of_loop _ o' ho' (Core.bin o ha hb) (by intro x y h; injection h with h1; exact hne h1)
          (fun n hn m r hr => loop_of_unary _ _ _ (hu _ _ hp) n hn m r hr) n hn m l r hm hr⟩
    · rw [binParen_true] at hp
      simp at hp
      obtain ⟨h1, h2⟩ := hp
      subst h2
      obtain ⟨da, hda, hda1, Ca⟩ := A.chain o' h1
      obtain ⟨db, hdb, hdb1, Cb⟩ := B.chain o' h1
      refine ⟨da + db, by omega, by omega, ?_⟩
      intro n hn m l r hm hr
      rw [hsz] at hn
      have hbp : binParen o' true (some o') = false := by rw [binParen_true]; simp [h1]
      rw [T_bin]
      simp only [hbp, Bool.false_eq_true, if_false, List.nil_append, List.append_nil, List.append_assoc, List.singleton_append]
      rw [Ca n (by omega) m l _ hm (by simp [Fol])]
      rw [List.cons_append, Cb (n - da) (by omega) m _ r hm hr]
      rw [norm_bin, if_pos h1, attach_assoc, Nat.sub_sub]

/-- the precedence parser reads the printed tokens of every core expression back as its normal form -/
theorem parseOK_core : ∀ e, Core e → ParseOK e := by
  intro e hc
  induction hc with
  | lit l hl => exact parseOK_lit l hl
  | ident s => exact parseOK_ident s
  | bin o ha hb iha ihb => exact parseOK_bin o _ _ ha hb iha ihb
  | neg ha iha => exact parseOK_neg _ ha iha
  | not ha iha => exact parseOK_not _ ha iha

theorem toks_length_ge (e : Expr) (hc : Core e) (p : Bool) (q : Option BinOp) : sz e ≤ (T e p q).length := by
  induction hc generalizing p q with
  | lit l hl => cases l <;> simp [T_lit, litToks, sz] <;> split <;> simp
  | ident s => simp [T_ident, sz]
  | bin o ha hb iha ihb =>
    rw [T_bin]; simp only [List.length_append, sz]
    have := iha true (some o); have := ihb true (some o)
    simp; omega
  | neg ha iha => rw [T_neg]; simp only [List.length_append, sz]; have := iha true none; simp; omega
  | not ha iha => rw [T_not]; simp only [List.length_append, sz]; have := iha true none; simp; omega

end StepModel.Express

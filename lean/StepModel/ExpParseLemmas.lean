import StepModel.ExpParse
/-! Helper lemmas for `C07_parse_print_core`: the precedence parser on the token image of the printer. -/
namespace StepModel.Express
open StepModel.Generated

abbrev T := toks Shared.clean

/-- what may follow a complete expression at level `k` in printed text -/
def Fol (k : Nat) : List Tok → Prop
  | [] => True
  | .op o :: _ => o.bp < k
  | .rp :: _ | .rb :: _ | .comma :: _ | .colon :: _ | .bar :: _ => True
  | _ => False

/-- the next token does not continue a primary -/
def NoQ : List Tok → Prop
  | .dot :: _ | .bslash :: _ | .lb :: _ | .lp :: _ => False
  | _ => True

theorem Fol.noQ {k : Nat} {r : List Tok} (h : Fol k r) : NoQ r := by
  cases r with
  | nil => trivial
  | cons t r => cases t <;> simp_all [Fol, NoQ]

theorem parseLoop_stop (n k : Nat) (x : Expr) (r : List Tok) (h : Fol k r) : parseLoop (n + 1) k x r = some (x, r) := by
  cases r with
  | nil => simp [parseLoop]
  | cons t r =>
    cases t <;> simp_all [parseLoop, Fol]
    omega

theorem parsePostfix_stop (n : Nat) (x : Expr) (r : List Tok) (h : NoQ r) : parsePostfix (n + 1) x r = some (x, r) := by
  cases r with
  | nil => simp [parsePostfix]
  | cons t r =>
    cases t <;> simp_all [parsePostfix, NoQ]

/-- literals whose printed token is read back as the same literal: the text `printf("%#.15g")` gives for a finite
real always contains a decimal point (the `#` flag) -/
def LitWF : Lit → Prop
  | .real g => '.' ∈ g
  | _ => True

theorem dropWhile_nil_of {α} (p : α → Bool) : ∀ l : List α, l.dropWhile p = [] → ∀ x ∈ l, p x = true := by
  intro l
  induction l with
  | nil => intro _ x hx; cases hx
  | cons a l ih =>
    intro h x hx
    by_cases ha : p a = true
    · simp [List.dropWhile, ha] at h
      rcases List.mem_cons.mp hx with rfl | hx
      · exact ha
      · exact ih h x hx
    · simp [List.dropWhile, ha] at h

/-- the words exppp writes for the constants are the scanner's keywords for them -/
@[simp] theorem constTok_pi : constTok ExpPrec.piText "TOK_PI" = .kw "PI" := by decide
@[simp] theorem constTok_e : constTok ExpPrec.eText "TOK_E" = .kw "CONST_E" := by decide

/-- **`real2exp` keeps the decimal point**: whatever trailing zeros it removes, the spelling of a real that had a point
still has one, so it is never an integer literal -/
theorem real2exp_keeps_point (g : List Char) (h : '.' ∈ g) : '.' ∈ real2exp g := by
  have hflag : ExpPrec.realDropsPoint = false := rfl
  unfold real2exp
  simp only []
  split
  · next hd =>
    have := dropWhile_nil_of (fun c => decide (c ≠ '.')) g hd '.' h
    simp at this
  · next c rest hd =>
    split
    · exact h
    · split
      · simp [hflag]
      · simp

theorem real2exp_not_all_digits (g : List Char) (h : '.' ∈ g) : (real2exp g).all Char.isDigit = false := by
  have := real2exp_keeps_point g h
  simp only [List.all_eq_false]
  exact ⟨'.', this, by decide⟩

/-- the operator core of the expression language: literals, identifiers, two-operand operators, negation, NOT -/
inductive Core : Expr → Prop
  | lit (l) : LitWF l → Core (.lit l)
  | ident (s) : Core (.ident s)
  | bin (o) {a b} : Core a → Core b → Core (.bin o a b)
  | neg {a} : Core a → Core (.neg a)
  | not {a} : Core a → Core (.not a)

def sz : Expr → Nat
  | .bin _ a b => sz a + sz b + 1
  | .neg a | .not a | .dot a _ | .group a _ | .call _ a | .aggr a => sz a + 1
  | .index a b | .query _ a b | .cons a b => sz a + sz b + 1
  | .range a b c | .rep a b c => sz a + sz b + sz c + 1
  | _ => 1

theorem sz_pos (e : Expr) : 1 ≤ sz e := by cases e <;> simp [sz]

theorem unescQ_escQ (s : List Char) : unescQ (escQ s) = s := by
  have h : ExpPrec.stringQuoteDoubled = true := rfl
  simp only [escQ, h, if_true]
  induction s with
  | nil => rfl
  | cons c s ih =>
    by_cases hc : c = '\''
    · subst hc
      simp only [List.flatMap_cons, if_true, List.cons_append, List.nil_append]
      rw [unescQ]; simp [ih]
    · simp only [List.flatMap_cons, hc, if_false, List.cons_append, List.nil_append]
      generalize hr : s.flatMap (fun c => if c = '\'' then ['\'', '\''] else [c]) = r at ih ⊢
      cases r with
      | nil => rw [unescQ]; simp [← ih, unescQ]
      | cons d r => rw [unescQ]; simp [hc, ih]

/-- a literal token is read back as the literal -/
theorem parseUnary_lit (l : Lit) (hl : LitWF l) (n : Nat) (r : List Tok) (h : NoQ r) :
    parseUnary (n + 2) (litToks l ++ r) = some (.lit l, r) := by
  have hb : ExpPrec.binaryPrintedFrom = ExpPrec.binaryStoredIn := by decide
  cases l with
  | real g =>
    have hg : (real2exp g).all Char.isDigit = false := real2exp_not_all_digits g hl
    simp only [litToks, hg]
    simp [parseUnary, parsePrimary, parsePostfix_stop _ _ _ h]
  | _ => simp_all [litToks, parseUnary, parsePrimary, parsePostfix_stop, kwLit, LitWF, unescQ_escQ, constTok_pi, constTok_e]

theorem parseUnary_ident (s : String) (n : Nat) (r : List Tok) (h : NoQ r) :
    parseUnary (n + 2) (.id s :: r) = some (.ident s, r) := by
  cases r with
  | nil => simp [parseUnary, parsePrimary, parsePostfix]
  | cons t r =>
    cases t <;> first
      | (simp [NoQ] at h; done)
      | (simp only [parseUnary, parsePrimary]; exact parsePostfix_stop _ _ _ (by simp [NoQ]))

/-! ### the operator core -/

def Closed (e : Expr) (p : Bool) (q : Option BinOp) : Prop :=
  match e with
  | .bin o _ _ => binParen o p q = true
  | _ => True

def nextLvl (o : BinOp) : Nat := if o.rightAssoc then o.bp else o.bp + 1

theorem padded_all (o : BinOp) : o.padded = true := by cases o <;> decide
theorem omit_left (o : BinOp) (h : o.omitSame = true) : o.rightAssoc = false := by revert h; cases o <;> decide

theorem binParen_true (o : BinOp) (q : Option BinOp) : binParen o true q = (!o.omitSame || q != some o) := by
  simp [binParen, padded_all]

theorem norm_bin (o : BinOp) (a b : Expr) :
    norm (.bin o a b) = if o.chainR then attach o (norm a) (norm b) else .bin o (norm a) (norm b) := rfl

theorem chainR_omit {o : BinOp} (h : o.chainR = true) : o.omitSame = true := by
  simp only [BinOp.chainR, Bool.and_eq_true] at h; exact h.1
theorem chainR_flag {o : BinOp} (h : o.chainR = true) : ExpPrec.rightOperandSeesParent = true := by
  simp only [BinOp.chainR, Bool.and_eq_true] at h; exact h.2
theorem rprev_of_chainR {o : BinOp} (h : o.chainR = true) : rprev o = some o := by simp [rprev, chainR_flag h]
/-- a right operand is printed in parentheses whenever it is an operator expression that does not continue the chain -/
theorem rprev_paren (o o' : BinOp) (h : o.chainR = false) : binParen o' true (rprev o) = true := by
  rw [binParen_true]
  unfold rprev
  by_cases hf : ExpPrec.rightOperandSeesParent = true
  · simp only [hf, if_true]
    simp only [BinOp.chainR, hf, Bool.and_true] at h
    by_cases hoo : o' = o
    · subst hoo; simp [h]
    · simp [hoo, Ne.symm hoo]
  · simp [hf]
theorem norm_neg (a : Expr) : norm (.neg a) = .neg (norm a) := rfl
theorem norm_not (a : Expr) : norm (.not a) = .not (norm a) := rfl

theorem flag_false : ExpPrec.rightOperandSeesParent = false := rfl
/-- no operator lets a right operand continue its chain: `EXPRop2__out` hands `OP_UNKNOWN` to the right operand -/
theorem chainR_false (o : BinOp) : o.chainR = false := by simp [BinOp.chainR, flag_false]
theorem rprev_none (o : BinOp) : rprev o = none := by simp [rprev, flag_false]

theorem normWith_id (f : BinOp → Bool) (hf : ∀ o, f o = false) : ∀ e : Expr, normWith f e = e := by
  intro e
  induction e with
  | bin o a b iha ihb => simp [normWith, hf, iha, ihb]
  | neg a ih => simp [normWith, ih]
  | not a ih => simp [normWith, ih]
  | dot a f ih => simp [normWith, ih]
  | group a f ih => simp [normWith, ih]
  | index a i iha ihi => simp [normWith, iha, ihi]
  | range a i j iha ihi ihj => simp [normWith, iha, ihi, ihj]
  | query v s c ihs ihc => simp [normWith, ihs, ihc]
  | call f a ih => simp [normWith, ih]
  | aggr a ih => simp [normWith, ih]
  | cons e t ihe iht => simp [normWith, ihe, iht]
  | rep e c t ihe ihc iht => simp [normWith, ihe, ihc, iht]
  | _ => simp [normWith]

/-- what the parser reads back is the expression itself -/
theorem norm_id (e : Expr) : norm e = e := normWith_id _ chainR_false e

theorem attach_assoc (o : BinOp) (l x : Expr) : ∀ y, attach o (attach o l x) y = attach o l (attach o x y) := by
  intro y
  induction y with
  | bin o' y1 y2 ih1 _ =>
    by_cases ho : o' = o
    · subst ho; simp [attach, ih1]
    · simp [attach, ho]
  | _ => simp [attach]

theorem attach_other (o : BinOp) (l e : Expr) (h : ∀ x y, e ≠ .bin o x y) : attach o l e = .bin o l e := by
  cases e with
  | bin o' x y =>
    by_cases ho : o' = o
    · subst ho; exact absurd rfl (h x y)
    · simp [attach, ho]
  | _ => simp [attach]

theorem norm_top (e : Expr) (o : BinOp) (h : ∀ x y, e ≠ .bin o x y) : ∀ x y, norm e ≠ .bin o x y := by
  intro x y
  cases e with
  | bin o' a b =>
    rw [norm_bin]
    have ho : o' ≠ o := fun hh => h a b (by rw [hh])
    split
    · cases hb : norm b with
      | bin o2 r1 r2 => by_cases h2 : o2 = o' <;> simp [attach, h2, ho]
      | _ => simp [attach, ho]
    · simp [ho]
  | _ => simp [norm, normWith]

/-- primary followed by its qualifiers (the default branch of `parseUnary`) -/
def parsePP (n : Nat) (ts : List Tok) : Option (Expr × List Tok) :=
  match parsePrimary n ts with
  | some (p, r) => parsePostfix n p r
  | none => none

/-- the next token is not `(` (an identifier followed by `(` would be read as a call) -/
def NoLp : List Tok → Prop
  | .lp :: _ => False
  | _ => True

theorem NoQ.noLp {r : List Tok} (h : NoQ r) : NoLp r := by
  cases r with
  | nil => trivial
  | cons t r => cases t <;> simp_all [NoQ, NoLp]

/-- the printed form is a primary with qualifiers -/
def PShape (e : Expr) (p : Bool) (q : Option BinOp) : Prop :=
  match e with
  | .bin o _ _ => binParen o p q = true
  | .neg _ | .not _ => p = true
  | .nil | .cons _ _ | .rep _ _ _ => False
  | _ => True

/-- side condition of `ParseOK.loop`: an unparenthesised operator expression needs a level that admits its operator and a
follower that ends it -/
def LoopCond (e : Expr) (p : Bool) (q : Option BinOp) (m : Nat) (r : List Tok) : Prop :=
  match e with
  | .bin o _ _ => binParen o p q = true ∨ (m ≤ o.bp ∧ Fol (nextLvl o) r)
  | _ => True

structure ParseOK (e : Expr) : Prop where
  pp : ∀ p q, PShape e p q → ∃ c, c ≤ sz e ∧ ∀ n, 4 * sz e ≤ n + 2 → ∀ r, NoLp r →
      parsePP n (T e p q ++ r) = parsePostfix (n - c) (norm e) r
  unary : ∀ p q, Closed e p q → ∀ n, 4 * sz e ≤ n + 1 → ∀ r, NoQ r → parseUnary n (T e p q ++ r) = some (norm e, r)
  loop : ∀ p q, ∃ c, c ≤ sz e ∧ 1 ≤ c ∧ ∀ n, 4 * sz e ≤ n → ∀ m r,
      LoopCond e p q m r → NoQ r →
      parseExpr n m (T e p q ++ r) = parseLoop (n - c) m (norm e) r
  chain : ∀ o, o.chainR = true → ∃ d, d ≤ sz e ∧ 1 ≤ d ∧ ∀ n, 4 * sz e + 1 ≤ n → ∀ m l r, m ≤ o.bp → Fol (o.bp + 1) r →
      parseLoop n m l (.op o :: (T e true (some o) ++ r)) = parseLoop (n - d) m (attach o l (norm e)) r

/-- `loop` for a closed form follows from `unary` -/
theorem loop_of_unary (e : Expr) (p : Bool) (q : Option BinOp)
    (hu : ∀ n, 4 * sz e ≤ n + 1 → ∀ r, NoQ r → parseUnary n (T e p q ++ r) = some (norm e, r))
    (n : Nat) (hn : 4 * sz e ≤ n) (m : Nat) (r : List Tok) (hr : NoQ r) :
    parseExpr n m (T e p q ++ r) = parseLoop (n - 1) m (norm e) r := by
  have := sz_pos e
  obtain ⟨k, rfl⟩ : ∃ k, n = k + 1 := ⟨n - 1, by omega⟩
  rw [parseExpr, hu k (by omega) r hr]
  simp

/-- `chain` for an operand that is not itself a chain of `o` -/
theorem chain_of_loop (e : Expr) (o : BinOp) (hoc : o.chainR = true) (hne : ∀ x y, e ≠ .bin o x y)
    (hl : ∀ n, 4 * sz e ≤ n → ∀ m r, NoQ r → parseExpr n m (T e true (some o) ++ r) = parseLoop (n - 1) m (norm e) r)
    (n : Nat) (hn : 4 * sz e + 1 ≤ n) (m : Nat) (l : Expr) (r : List Tok) (hm : m ≤ o.bp) (hr : Fol (o.bp + 1) r) :
    parseLoop n m l (.op o :: (T e true (some o) ++ r)) = parseLoop (n - 1) m (attach o l (norm e)) r := by
  have ho := chainR_omit hoc
  have := sz_pos e
  obtain ⟨k, rfl⟩ : ∃ k, n = k + 1 := ⟨n - 1, by omega⟩
  rw [parseLoop]
  simp only [hm, if_true, omit_left o ho, Bool.false_eq_true, if_false]
  rw [hl k (by omega) _ r hr.noQ]
  obtain ⟨j, hj⟩ : ∃ j, k - 1 = j + 1 := ⟨k - 2, by omega⟩
  rw [hj, parseLoop_stop j _ _ r hr]
  simp [attach_other o l (norm e) (norm_top e o hne)]

theorem closed_true_none (e : Expr) : Closed e true none := by
  cases e <;> simp [Closed, binParen_true]

theorem T_lit (l : Lit) (p : Bool) (q : Option BinOp) : T (.lit l) p q = litToks l := by simp [T, toks]
theorem T_ident (s : String) (p : Bool) (q : Option BinOp) : T (.ident s) p q = [.id s] := by simp [T, toks]
theorem T_neg (a : Expr) (p : Bool) (q : Option BinOp) :
    T (.neg a) p q = (if p then [.lp] else []) ++ [.op .minus] ++ T a true none ++ (if p then [.rp] else []) := by simp [T, toks]
theorem T_not (a : Expr) (p : Bool) (q : Option BinOp) :
    T (.not a) p q = (if p then [.lp] else []) ++ [.not] ++ T a true none ++ (if p then [.rp] else []) := by simp [T, toks]
theorem T_bin (o : BinOp) (a b : Expr) (p : Bool) (q : Option BinOp) :
    T (.bin o a b) p q = (if binParen o p q then [.lp] else []) ++ T a true (some o) ++ [.op o] ++ T b true (rprev o)
      ++ (if binParen o p q then [.rp] else []) := by simp [T, toks]

/-- a parenthesised expression as a primary -/
theorem parseUnary_paren (inner : List Tok) (x : Expr) (n c : Nat) (r : List Tok) (hr : NoQ r) (hc : c + 1 ≤ n)
    (h : parseExpr n 0 (inner ++ .rp :: r) = parseLoop (n - c) 0 x (.rp :: r)) :
    parseUnary (n + 2) (.lp :: (inner ++ .rp :: r)) = some (x, r) := by
  obtain ⟨j, hj⟩ : ∃ j, n - c = j + 1 := ⟨n - c - 1, by omega⟩
  rw [hj, parseLoop_stop j 0 x (.rp :: r) (by simp [Fol])] at h
  simp only [parseUnary, parsePrimary, h]
  exact parsePostfix_stop _ _ _ hr

theorem parsePrimary_lit (l : Lit) (hl : LitWF l) (n : Nat) (r : List Tok) :
    parsePrimary (n + 1) (litToks l ++ r) = some (.lit l, r) := by
  have hb : ExpPrec.binaryPrintedFrom = ExpPrec.binaryStoredIn := by decide
  cases l with
  | real g =>
    have hg : (real2exp g).all Char.isDigit = false := real2exp_not_all_digits g hl
    simp only [litToks, hg]
    simp [parsePrimary]
  | _ => simp_all [litToks, parsePrimary, kwLit, LitWF, unescQ_escQ, constTok_pi, constTok_e]

theorem parsePrimary_ident (s : String) (n : Nat) (r : List Tok) (h : NoLp r) :
    parsePrimary (n + 1) (.id s :: r) = some (.ident s, r) := by
  cases r with
  | nil => simp [parsePrimary]
  | cons t r => cases t <;> simp_all [parsePrimary, NoLp]

theorem parsePrimary_paren (inner : List Tok) (x : Expr) (n c : Nat) (r : List Tok) (hc : c + 1 ≤ n)
    (h : parseExpr n 0 (inner ++ .rp :: r) = parseLoop (n - c) 0 x (.rp :: r)) :
    parsePrimary (n + 1) (.lp :: (inner ++ .rp :: r)) = some (x, r) := by
  obtain ⟨j, hj⟩ : ∃ j, n - c = j + 1 := ⟨n - c - 1, by omega⟩
  rw [hj, parseLoop_stop j 0 x (.rp :: r) (by simp [Fol])] at h
  simp only [parsePrimary, h]

theorem parsePP_of_primary {n : Nat} {ts : List Tok} {x : Expr} {r : List Tok} (h : parsePrimary n ts = some (x, r)) :
    parsePP n ts = parsePostfix n x r := by simp [parsePP, h]

theorem parseOK_lit (l : Lit) (hl : LitWF l) : ParseOK (.lit l) := by
  have hu : ∀ p q n, 4 * sz (.lit l) ≤ n + 1 → ∀ r, NoQ r → parseUnary n (T (.lit l) p q ++ r) = some (norm (.lit l), r) := by
    intro p q n hn r hr
    obtain ⟨k, rfl⟩ : ∃ k, n = k + 2 := ⟨n - 2, by simp [sz] at hn; omega⟩
    rw [T_lit]; exact parseUnary_lit l hl k r hr
  refine ⟨fun p q _ => ⟨0, by omega, fun n hn r _ => by
      obtain ⟨k, rfl⟩ : ∃ k, n = k + 1 := ⟨n - 1, by simp [sz] at hn; omega⟩
      rw [T_lit, parsePP_of_primary (parsePrimary_lit l hl k r)]; rfl⟩, fun p q _ => hu p q, fun p q => ⟨1, by simp [sz], by omega, fun n hn m r _ hr => loop_of_unary _ p q (hu p q) n hn m r hr⟩,
    fun o ho => ⟨1, by simp [sz], by omega, fun n hn m l' r hm hr =>
      chain_of_loop _ o ho (by simp) (fun n hn m r hr => loop_of_unary _ _ _ (hu _ _) n hn m r hr) n hn m l' r hm hr⟩⟩

theorem parseOK_ident (s : String) : ParseOK (.ident s) := by
  have hu : ∀ p q n, 4 * sz (.ident s) ≤ n + 1 → ∀ r, NoQ r → parseUnary n (T (.ident s) p q ++ r) = some (norm (.ident s), r) := by
    intro p q n hn r hr
    obtain ⟨k, rfl⟩ : ∃ k, n = k + 2 := ⟨n - 2, by simp [sz] at hn; omega⟩
    rw [T_ident]; exact parseUnary_ident s k r hr
  refine ⟨fun p q _ => ⟨0, by omega, fun n hn r hr => by
      obtain ⟨k, rfl⟩ : ∃ k, n = k + 1 := ⟨n - 1, by simp [sz] at hn; omega⟩
      rw [T_ident]
      show parsePP (k + 1) (.id s :: r) = _
      rw [parsePP_of_primary (parsePrimary_ident s k r hr)]; rfl⟩, fun p q _ => hu p q, fun p q => ⟨1, by simp [sz], by omega, fun n hn m r _ hr => loop_of_unary _ p q (hu p q) n hn m r hr⟩,
    fun o ho => ⟨1, by simp [sz], by omega, fun n hn m l' r hm hr =>
      chain_of_loop _ o ho (by simp) (fun n hn m r hr => loop_of_unary _ _ _ (hu _ _) n hn m r hr) n hn m l' r hm hr⟩⟩

/-- prefix operators: `tok` is `.op .minus` or `.not`, `mk` the constructor -/
theorem parseOK_prefix (tok : Tok) (mk : Expr → Expr) (e a : Expr)
    (hstep : ∀ n ts, parseUnary (n + 1) (tok :: ts) = match parseUnary n ts with | some (x, r') => some (mk x, r') | none => none)
    (hT : ∀ p q, T e p q = (if p then [.lp] else []) ++ [tok] ++ T a true none ++ (if p then [.rp] else []))
    (hnorm : norm e = mk (norm a)) (hsz : sz e = sz a + 1) (hshape : ∀ p q, PShape e p q → p = true) (hnb : ∀ o x y, e ≠ .bin o x y)
    (A : ParseOK a) : ParseOK e := by
  have hu : ∀ p q n, 4 * sz e ≤ n + 1 → ∀ r, NoQ r → parseUnary n (T e p q ++ r) = some (norm e, r) := by
    intro p q n hn r hr
    have := sz_pos a
    rw [hsz] at hn
    rw [hT, hnorm]
    cases p with
    | false =>
      obtain ⟨k, rfl⟩ : ∃ k, n = k + 1 := ⟨n - 1, by omega⟩
      simp only [Bool.false_eq_true, if_false, List.nil_append, List.append_nil, List.singleton_append, List.cons_append]
      rw [hstep, A.unary true none (closed_true_none a) k (by omega) r hr]
    | true =>
      obtain ⟨k, rfl⟩ : ∃ k, n = k + 4 := ⟨n - 4, by omega⟩
      simp only [if_true, List.singleton_append, List.cons_append, List.append_assoc, List.nil_append]
      have h := parseUnary_paren (tok :: T a true none) (mk (norm a)) (k + 2) 1 r hr (by omega) (by
        rw [parseExpr]
        simp only [List.cons_append]
        rw [hstep, A.unary true none (closed_true_none a) k (by omega) (.rp :: r) (by simp [NoQ])]
        simp)
      simpa using h
  have hpp : ∀ p q, PShape e p q → ∃ c, c ≤ sz e ∧ ∀ n, 4 * sz e ≤ n + 2 → ∀ r, NoLp r →
      parsePP n (T e p q ++ r) = parsePostfix (n - c) (norm e) r := by
    intro p q hp
    have hp' : p = true := hshape p q hp
    subst hp'
    refine ⟨0, by omega, fun n hn r _ => ?_⟩
    have := sz_pos a
    rw [hsz] at hn
    obtain ⟨k, rfl⟩ : ∃ k, n = k + 3 := ⟨n - 3, by omega⟩
    rw [hT, hnorm]
    simp only [if_true, List.cons_append, List.append_assoc, List.nil_append]
    have h := parsePrimary_paren (tok :: T a true none) (mk (norm a)) (k + 2) 1 r (by omega) (by
      rw [parseExpr]
      simp only [List.cons_append]
      rw [hstep, A.unary true none (closed_true_none a) k (by omega) (.rp :: r) (by simp [NoQ])]
      simp)
    have h2 := parsePP_of_primary h
    simpa using h2
  refine ⟨hpp, fun p q _ => hu p q, fun p q => ⟨1, by omega, by omega, fun n hn m r _ hr => loop_of_unary _ p q (hu p q) n hn m r hr⟩,
    fun o ho => ⟨1, by omega, by omega, fun n hn m l' r hm hr =>
      chain_of_loop _ o ho (hnb o) (fun n hn m r hr => loop_of_unary _ _ _ (hu _ _) n hn m r hr) n hn m l' r hm hr⟩⟩

theorem parseOK_neg (a : Expr) (A : ParseOK a) : ParseOK (.neg a) :=
  parseOK_prefix (.op .minus) .neg (.neg a) a (fun n ts => by simp only [parseUnary]; cases parseUnary n ts with | none => rfl | some v => cases v; rfl) (T_neg a) rfl (by simp [sz]) (fun p q h => h)
    (by simp) A

theorem parseOK_not (a : Expr) (A : ParseOK a) : ParseOK (.not a) :=
  parseOK_prefix .not .not (.not a) a (fun n ts => by simp only [parseUnary]; cases parseUnary n ts with | none => rfl | some v => cases v; rfl) (T_not a) rfl (by simp [sz]) (fun p q h => h)
    (by simp) A

theorem nextLvl_omit (o : BinOp) (h : o.omitSame = true) : nextLvl o = o.bp + 1 := by simp [nextLvl, omit_left o h]

/-- the side condition of `ParseOK.loop` for a child printed with `(true, some o)` -/
theorem child_cond (o : BinOp) (e : Expr) (m : Nat) (rest : List Tok)
    (h : o.omitSame = true → m ≤ o.bp ∧ Fol (o.bp + 1) rest) : LoopCond e true (some o) m rest := by
  cases e with
  | bin o' x y =>
    simp only [LoopCond]
    by_cases hp : binParen o' true (some o) = true
    · exact Or.inl hp
    · right
      rw [binParen_true] at hp
      simp at hp
      obtain ⟨h1, h2⟩ := hp
      subst h2
      rw [nextLvl_omit o h1]
      exact h h1
  | _ => simp [LoopCond]

theorem child_closed (o : BinOp) (e : Expr) (m : Nat) (rest : List Tok) (h : o.chainR = false) : LoopCond e true (rprev o) m rest := by
  cases e with
  | bin o' x y => exact Or.inl (rprev_paren o o' h)
  | _ => simp [LoopCond]

theorem open_bin (o : BinOp) (a b : Expr) (A : ParseOK a) (B : ParseOK b) :
    ∃ c, c ≤ sz a + sz b ∧ 1 ≤ c ∧ ∀ n, 4 * (sz a + sz b + 1) ≤ n + 3 → ∀ m r, m ≤ o.bp → Fol (nextLvl o) r →
      parseExpr n m (T a true (some o) ++ .op o :: (T b true (rprev o) ++ r)) = parseLoop (n - c) m (norm (.bin o a b)) r := by
  have hsa := sz_pos a
  have hsb := sz_pos b
  obtain ⟨ca, hca, hca1, La⟩ := A.loop true (some o)
  by_cases ho : o.chainR = true
  · have hom := chainR_omit ho
    obtain ⟨db, hdb, hdb1, Cb⟩ := B.chain o ho
    refine ⟨ca + db, by omega, by omega, ?_⟩
    intro n hn m r hm hr
    have hnl := nextLvl_omit o hom
    rw [rprev_of_chainR ho]
    rw [La n (by omega) m _ (child_cond o a m _ (fun _ => ⟨hm, by simp [Fol]⟩)) (by simp [NoQ])]
    rw [Cb (n - ca) (by omega) m (norm a) r hm (hnl ▸ hr)]
    rw [norm_bin, if_pos ho, Nat.sub_sub]
  · have hof : o.chainR = false := by simpa using ho
    obtain ⟨cb, hcb, hcb1, Lb⟩ := B.loop true (rprev o)
    refine ⟨ca + 1, by omega, by omega, ?_⟩
    intro n hn m r hm hr
    rw [La n (by omega) m _ (child_cond o a m _ (fun _ => ⟨hm, by simp [Fol]⟩)) (by simp [NoQ])]
    obtain ⟨k, hk⟩ : ∃ k, n - ca = k + 1 := ⟨n - ca - 1, by omega⟩
    rw [hk, parseLoop]
    simp only [hm, if_true]
    have hl : (if o.rightAssoc = true then o.bp else o.bp + 1) = nextLvl o := rfl
    rw [hl, Lb k (by omega) (nextLvl o) r (child_closed o b _ _ hof) hr.noQ]
    obtain ⟨j, hj⟩ : ∃ j, k - cb = j + 1 := ⟨k - cb - 1, by omega⟩
    rw [hj, parseLoop_stop j _ _ r hr]
    simp only []
    rw [norm_bin, if_neg ho]
    congr 1
    omega

theorem parseOK_bin (o : BinOp) (a b : Expr) (A : ParseOK a) (B : ParseOK b) :
    ParseOK (.bin o a b) := by
  have hsa := sz_pos a
  have hsb := sz_pos b
  have hsz : sz (.bin o a b) = sz a + sz b + 1 := by simp [sz]
  obtain ⟨c0, hc0, hc01, Hopen⟩ := open_bin o a b A B
  have hu : ∀ p q, binParen o p q = true → ∀ n, 4 * sz (.bin o a b) ≤ n + 1 → ∀ r, NoQ r →
      parseUnary n (T (.bin o a b) p q ++ r) = some (norm (.bin o a b), r) := by
    intro p q hp n hn r hr
    rw [hsz] at hn
    obtain ⟨k, rfl⟩ : ∃ k, n = k + 2 := ⟨n - 2, by omega⟩
    rw [T_bin]
    simp only [hp, if_true, List.singleton_append, List.cons_append, List.append_assoc, List.nil_append]
    have h := parseUnary_paren (T a true (some o) ++ .op o :: T b true (rprev o)) (norm (.bin o a b)) k c0 r hr (by omega) (by
      have := Hopen k (by omega) 0 (.rp :: r) (Nat.zero_le _) (by simp [Fol])
      simpa [List.append_assoc] using this)
    simpa [List.append_assoc] using h
  refine ⟨?_, fun p q hc => hu p q hc, ?_, ?_⟩
  · intro p q hp
    have hp : binParen o p q = true := hp
    refine ⟨0, by omega, fun n hn r _ => ?_⟩
    rw [hsz] at hn
    obtain ⟨k, rfl⟩ : ∃ k, n = k + 1 := ⟨n - 1, by omega⟩
    rw [T_bin]
    simp only [hp, if_true, List.singleton_append, List.cons_append, List.append_assoc, List.nil_append]
    have h := parsePrimary_paren (T a true (some o) ++ .op o :: T b true (rprev o)) (norm (.bin o a b)) k c0 r (by omega) (by
      have := Hopen k (by omega) 0 (.rp :: r) (Nat.zero_le _) (by simp [Fol])
      simpa [List.append_assoc] using this)
    have h2 := parsePP_of_primary h
    simpa [List.append_assoc] using h2
  · intro p q
    by_cases hp : binParen o p q = true
    · exact ⟨1, by omega, by omega, fun n hn m r _ hr => loop_of_unary _ p q (hu p q hp) n hn m r hr⟩
    · refine ⟨c0, by omega, hc01, ?_⟩
      intro n hn m r hcond _
      rw [hsz] at hn
      simp only [LoopCond] at hcond
      rcases hcond with h | ⟨hm, hf⟩
      · exact absurd h hp
      · rw [T_bin]
        simp only [hp, Bool.false_eq_true, if_false, List.nil_append, List.append_nil, List.append_assoc, List.singleton_append]
        exact Hopen n (by omega) m r hm hf
  · intro o' ho'
    have hom' := chainR_omit ho'
    by_cases hp : binParen o true (some o') = true
    · have hne : o ≠ o' := by
        intro h; subst h
        rw [binParen_true] at hp
        simp [hom'] at hp
      exact ⟨1, by omega, by omega, fun n hn m l r hm hr =>
        chain_of_loop _ o' ho' (by intro x y h; injection h with h1; exact hne h1)
          (fun n hn m r hr => loop_of_unary _ _ _ (hu _ _ hp) n hn m r hr) n hn m l r hm hr⟩
    · rw [binParen_true] at hp
      simp at hp
      obtain ⟨h1, h2⟩ := hp
      subst h2
      obtain ⟨da, hda, hda1, Ca⟩ := A.chain o' ho'
      obtain ⟨db, hdb, hdb1, Cb⟩ := B.chain o' ho'
      refine ⟨da + db, by omega, by omega, ?_⟩
      intro n hn m l r hm hr
      rw [hsz] at hn
      have hbp : binParen o' true (some o') = false := by rw [binParen_true]; simp [h1]
      rw [T_bin, rprev_of_chainR ho']
      simp only [hbp, Bool.false_eq_true, if_false, List.nil_append, List.append_nil, List.append_assoc, List.singleton_append]
      rw [Ca n (by omega) m l _ hm (by simp [Fol])]
      rw [List.cons_append, Cb (n - da) (by omega) m _ r hm hr]
      rw [norm_bin, if_pos ho', attach_assoc, Nat.sub_sub]

/-! ### qualifiers, calls, aggregate initialisers, QUERY -/

/-- the first token does not start a prefix operator -/
def HeadP : List Tok → Prop
  | .not :: _ => False
  | .op .minus :: _ => False
  | .op .plus :: _ => False
  | _ => True

theorem parseUnary_default (n : Nat) (ts : List Tok) (h : HeadP ts) : parseUnary (n + 1) ts = parsePP n ts := by
  have fin : ∀ x : Option (Expr × List Tok),
      (match x with | some (p, r) => parsePostfix n p r | none => none) =
      (match x with | some (p, r) => parsePostfix n p r | none => none) := fun _ => rfl
  cases ts with
  | nil =>
    simp only [parseUnary, parsePP]
    generalize parsePrimary n [] = x
    cases x with
    | none => rfl
    | some v => cases v; rfl
  | cons t r =>
    cases t with
    | op o =>
      cases o <;> first
        | (simp [HeadP] at h; done)
        | (simp only [parseUnary, parsePP]
           generalize parsePrimary n _ = x
           cases x with
           | none => rfl
           | some v => cases v; rfl)
    | not => simp [HeadP] at h
    | _ =>
      simp only [parseUnary, parsePP]
      generalize parsePrimary n _ = x
      cases x with
      | none => rfl
      | some v => cases v; rfl

/-- not one of the list spines -/
def IsExpr : Expr → Prop
  | .nil | .cons _ _ | .rep _ _ _ => False
  | _ => True

theorem pshape_true_none (e : Expr) (h : IsExpr e) : PShape e true none := by
  cases e <;> simp_all [PShape, IsExpr, binParen_true]

/-- everything about a node that is printed as a primary with qualifiers (not an operator node) follows from `pp` -/
theorem parseOK_of_pp (e : Expr) (hnb : ∀ o x y, e ≠ .bin o x y) (hshape : ∀ p q, PShape e p q)
    (hpp : ∀ p q, ∃ c, c ≤ sz e ∧ ∀ n, 4 * sz e ≤ n + 2 → ∀ r, NoLp r →
      parsePP n (T e p q ++ r) = parsePostfix (n - c) (norm e) r)
    (hh : ∀ p q r, HeadP (T e p q ++ r)) : ParseOK e := by
  have hs := sz_pos e
  have hu : ∀ p q n, 4 * sz e ≤ n + 1 → ∀ r, NoQ r → parseUnary n (T e p q ++ r) = some (norm e, r) := by
    intro p q n hn r hr
    obtain ⟨c, hc, H⟩ := hpp p q
    obtain ⟨k, rfl⟩ : ∃ k, n = k + 1 := ⟨n - 1, by omega⟩
    rw [parseUnary_default k _ (hh p q r), H k (by omega) r hr.noLp]
    obtain ⟨j, hj⟩ : ∃ j, k - c = j + 1 := ⟨k - c - 1, by omega⟩
    rw [hj, parsePostfix_stop j _ r hr]
  exact ⟨fun p q _ => hpp p q, fun p q _ => hu p q,
    fun p q => ⟨1, by omega, by omega, fun n hn m r _ hr => loop_of_unary _ p q (hu p q) n hn m r hr⟩,
    fun o ho => ⟨1, by omega, by omega, fun n hn m l' r hm hr =>
      chain_of_loop _ o ho (hnb o) (fun n hn m r hr => loop_of_unary _ _ _ (hu _ _) n hn m r hr) n hn m l' r hm hr⟩⟩

theorem T_dot (a : Expr) (f : String) (p : Bool) (q : Option BinOp) : T (.dot a f) p q = T a true none ++ [.dot, .id f] := by simp [T, toks]
theorem T_group (a : Expr) (f : String) (p : Bool) (q : Option BinOp) : T (.group a f) p q = T a true none ++ [.bslash, .id f] := by simp [T, toks]
theorem T_index (a i : Expr) (p : Bool) (q : Option BinOp) :
    T (.index a i) p q = T a true none ++ [.lb] ++ T i (indexParen i) none ++ [.rb] := by simp [T, toks]
theorem T_range (a i j : Expr) (p : Bool) (q : Option BinOp) :
    T (.range a i j) p q = T a true none ++ [.lb] ++ T i (indexParen i) none ++ [.colon] ++ T j (indexParen j) none ++ [.rb] := by
  simp [T, toks]

/-- head of the printed form of an expression that is a primary with qualifiers -/
def HeadOK (e : Expr) : Prop := ∀ p q, PShape e p q → ∀ r, HeadP (T e p q ++ r)

theorem headOK_lit (l : Lit) : HeadOK (.lit l) := by
  intro p q _ r
  rw [T_lit]
  cases l with
  | real g => simp only [litToks]; split <;> simp [HeadP]
  | _ => simp [litToks, HeadP, constTok_pi, constTok_e]

theorem headOK_paren (e : Expr) (h : ∀ p q, PShape e p q → ∃ ts, T e p q = .lp :: ts) : HeadOK e := by
  intro p q hp r
  obtain ⟨ts, hts⟩ := h p q hp
  simp [hts, HeadP]

theorem headOK_append (a : Expr) (ha : HeadOK a) (hs : PShape a true none) (tl : List Tok) (r : List Tok)
    (hne : T a true none ≠ []) : HeadP (T a true none ++ tl ++ r) := by
  have := ha true none hs (tl ++ r)
  simpa [List.append_assoc] using this

theorem dot_step (n : Nat) (l : Expr) (f : String) (r : List Tok) :
    parsePostfix (n + 1) l (.dot :: .id f :: r) = parsePostfix n (.dot l f) r := by simp [parsePostfix]
theorem group_step (n : Nat) (l : Expr) (f : String) (r : List Tok) :
    parsePostfix (n + 1) l (.bslash :: .id f :: r) = parsePostfix n (.group l f) r := by simp [parsePostfix]

theorem norm_dot (a : Expr) (f : String) : norm (.dot a f) = .dot (norm a) f := rfl
theorem norm_group (a : Expr) (f : String) : norm (.group a f) = .group (norm a) f := rfl
theorem norm_index (a i : Expr) : norm (.index a i) = .index (norm a) (norm i) := rfl
theorem norm_range (a i j : Expr) : norm (.range a i j) = .range (norm a) (norm i) (norm j) := rfl

theorem parseOK_field (mk : Expr → String → Expr) (tok : Tok)
    (hstep : ∀ n l f r, parsePostfix (n + 1) l (tok :: .id f :: r) = parsePostfix n (mk l f) r)
    (hlp : ∀ r, NoLp (tok :: r))
    (a : Expr) (f : String) (hT : ∀ p q, T (mk a f) p q = T a true none ++ [tok, .id f])
    (hnorm : norm (mk a f) = mk (norm a) f) (hsz : sz (mk a f) = sz a + 1)
    (hnb : ∀ o x y, mk a f ≠ .bin o x y) (hshape : ∀ p q, PShape (mk a f) p q)
    (hx : IsExpr a) (A : ParseOK a) (hha : HeadOK a) : ParseOK (mk a f) ∧ HeadOK (mk a f) := by
  have hs := sz_pos a
  have hpa := pshape_true_none a hx
  constructor
  · apply parseOK_of_pp _ hnb hshape
    · intro p q
      obtain ⟨ca, hca, Ha⟩ := A.pp true none hpa
      refine ⟨ca + 1, by omega, fun n hn r _ => ?_⟩
      rw [hsz] at hn
      rw [hT, hnorm, List.append_assoc]
      simp only [List.cons_append, List.nil_append]
      rw [Ha n (by omega) _ (hlp _)]
      obtain ⟨k, hk⟩ : ∃ k, n - ca = k + 1 := ⟨n - ca - 1, by omega⟩
      rw [hk, hstep]
      congr 1; omega
    · intro p q r
      rw [hT, List.append_assoc]
      exact hha true none hpa _
  · intro p q _ r
    rw [hT, List.append_assoc]
    exact hha true none hpa _

theorem parseOK_dot (a : Expr) (f : String) (hx : IsExpr a) (A : ParseOK a) (hha : HeadOK a) :
    ParseOK (.dot a f) ∧ HeadOK (.dot a f) :=
  parseOK_field .dot .dot dot_step (fun _ => by simp [NoLp]) a f (T_dot a f) rfl (by simp [sz]) (by simp) (by simp [PShape]) hx A hha

theorem parseOK_group (a : Expr) (f : String) (hx : IsExpr a) (A : ParseOK a) (hha : HeadOK a) :
    ParseOK (.group a f) ∧ HeadOK (.group a f) :=
  parseOK_field .group .bslash group_step (fun _ => by simp [NoLp]) a f (T_group a f) rfl (by simp [sz]) (by simp) (by simp [PShape]) hx A hha

/-- an operator whose expression is printed without parentheses between `[ ]` is a `simple_expression` operator -/
theorem index_level (o : BinOp) (h : ExpPrec.indexParenOps.contains o.code = false) : simpleMin ≤ o.bp := by
  revert h; cases o <;> decide

/-- an index operand, printed with `paren = indexParen i`, followed by `]` or `:` -/
theorem bracket_operand (i : Expr) (I : ParseOK i) (n : Nat) (hn : 4 * sz i ≤ n) (tl : List Tok)
    (htl : ∃ r, tl = .rb :: r ∨ tl = .colon :: r) :
    parseExpr n simpleMin (T i (indexParen i) none ++ tl) = some (norm i, tl) := by
  have hs := sz_pos i
  obtain ⟨c, hc, hc1, L⟩ := I.loop (indexParen i) none
  have hfol : ∀ k, Fol k tl := by
    intro k; obtain ⟨r, h | h⟩ := htl <;> subst h <;> simp [Fol]
  have hcond : LoopCond i (indexParen i) none simpleMin tl := by
    cases i with
    | bin o x y =>
      simp only [LoopCond]
      by_cases hip : indexParen (.bin o x y) = true
      · left; rw [hip, binParen_true]; simp
      · right
        have : ExpPrec.indexParenOps.contains o.code = false := by simpa [indexParen] using hip
        exact ⟨index_level o this, hfol _⟩
    | _ => simp [LoopCond]
  rw [L n hn simpleMin tl hcond (hfol 0).noQ]
  obtain ⟨j, hj⟩ : ∃ j, n - c = j + 1 := ⟨n - c - 1, by omega⟩
  rw [hj, parseLoop_stop j _ _ tl (hfol _)]

theorem index_step (n : Nat) (l i : Expr) (rest r : List Tok)
    (h : parseExpr n simpleMin rest = some (i, .rb :: r)) :
    parsePostfix (n + 1) l (.lb :: rest) = parsePostfix n (.index l i) r := by
  simp [parsePostfix, h]

theorem range_step (n : Nat) (l i j : Expr) (rest r' r : List Tok)
    (h1 : parseExpr n simpleMin rest = some (i, .colon :: r'))
    (h2 : parseExpr n simpleMin r' = some (j, .rb :: r)) :
    parsePostfix (n + 1) l (.lb :: rest) = parsePostfix n (.range l i j) r := by
  simp [parsePostfix, h1, h2]

theorem parseOK_index (a i : Expr) (hx : IsExpr a) (A : ParseOK a) (hha : HeadOK a) (I : ParseOK i) :
    ParseOK (.index a i) ∧ HeadOK (.index a i) := by
  have hsa := sz_pos a
  have hsi := sz_pos i
  have hpa := pshape_true_none a hx
  have hsz : sz (.index a i) = sz a + sz i + 1 := by simp [sz]
  constructor
  · apply parseOK_of_pp _ (by simp) (by simp [PShape])
    · intro p q
      obtain ⟨ca, hca, Ha⟩ := A.pp true none hpa
      refine ⟨ca + 1, by omega, fun n hn r _ => ?_⟩
      rw [hsz] at hn
      rw [T_index, norm_index]
      simp only [List.append_assoc, List.cons_append, List.nil_append]
      rw [Ha n (by omega) _ (by simp [NoLp])]
      obtain ⟨k, hk⟩ : ∃ k, n - ca = k + 1 := ⟨n - ca - 1, by omega⟩
      rw [hk, index_step k _ (norm i) _ r (bracket_operand i I k (by omega) _ ⟨r, Or.inl rfl⟩)]
      congr 1; omega
    · intro p q r
      rw [T_index]; simp only [List.append_assoc]
      exact hha true none hpa _
  · intro p q _ r
    rw [T_index]; simp only [List.append_assoc]
    exact hha true none hpa _

theorem parseOK_range (a i j : Expr) (hx : IsExpr a) (A : ParseOK a) (hha : HeadOK a) (I : ParseOK i) (J : ParseOK j) :
    ParseOK (.range a i j) ∧ HeadOK (.range a i j) := by
  have hsa := sz_pos a
  have hsi := sz_pos i
  have hsj := sz_pos j
  have hpa := pshape_true_none a hx
  have hsz : sz (.range a i j) = sz a + sz i + sz j + 1 := by simp [sz]
  constructor
  · apply parseOK_of_pp _ (by simp) (by simp [PShape])
    · intro p q
      obtain ⟨ca, hca, Ha⟩ := A.pp true none hpa
      refine ⟨ca + 1, by omega, fun n hn r _ => ?_⟩
      rw [hsz] at hn
      rw [T_range, norm_range]
      simp only [List.append_assoc, List.cons_append, List.nil_append]
      rw [Ha n (by omega) _ (by simp [NoLp])]
      obtain ⟨k, hk⟩ : ∃ k, n - ca = k + 1 := ⟨n - ca - 1, by omega⟩
      rw [hk, range_step k _ (norm i) (norm j) _ _ r
        (bracket_operand i I k (by omega) _ ⟨_, Or.inr rfl⟩)
        (bracket_operand j J k (by omega) _ ⟨r, Or.inl rfl⟩)]
      congr 1; omega
    · intro p q r
      rw [T_range]; simp only [List.append_assoc]
      exact hha true none hpa _
  · intro p q _ r
    rw [T_range]; simp only [List.append_assoc]
    exact hha true none hpa _

/-! ### well-formed expressions, list spines -/

mutual
/-- expressions the parser can build (argument and item lists are proper `cons`/`rep` spines) -/
def wfE : Expr → Prop
  | .lit l => LitWF l
  | .ident _ => True
  | .bin _ a b => wfE a ∧ wfE b
  | .neg a | .not a | .dot a _ | .group a _ => wfE a
  | .index a i => wfE a ∧ wfE i
  | .range a i j => wfE a ∧ wfE i ∧ wfE j
  | .query _ s c => wfE s ∧ wfE c
  | .call _ as => wfArgs as
  | .aggr is => wfItems is
  | .nil | .cons _ _ | .rep _ _ _ => False
def wfArgs : Expr → Prop
  | .nil => True
  | .cons e t => wfE e ∧ wfArgs t
  | _ => False
def wfItems : Expr → Prop
  | .nil => True
  | .cons e t => wfE e ∧ wfItems t
  | .rep e c t => wfE e ∧ wfE c ∧ wfItems t
  | _ => False
end

theorem wfE.isExpr {e : Expr} (h : wfE e) : IsExpr e := by
  cases e <;> simp_all [wfE, IsExpr]

/-- tokens an expression can start with -/
def Starter : Tok → Prop
  | .rp | .rb | .comma | .colon | .dot | .bslash | .bar | .allIn => False
  | .op o => o = .minus
  | _ => True

theorem head_append {t : Tok} {ts X : List Tok} (h : X = t :: ts) (Y : List Tok) : ∃ ts', X ++ Y = t :: ts' :=
  ⟨ts ++ Y, by rw [h]; rfl⟩

theorem T_start : ∀ e, wfE e → ∀ p q, ∃ t ts, T e p q = t :: ts ∧ Starter t := by
  intro e
  induction e with
  | lit l =>
    intro _ p q
    rw [T_lit]
    cases l with
    | real g => simp only [litToks]; split <;> exact ⟨_, _, rfl, by simp [Starter]⟩
    | _ => exact ⟨_, _, rfl, by simp [Starter, constTok_pi, constTok_e]⟩
  | ident s => intro _ p q; exact ⟨_, _, T_ident s p q, by simp [Starter]⟩
  | bin o a b iha _ =>
    intro h p q
    rw [T_bin]
    by_cases hp : binParen o p q = true
    · simp only [hp, if_true]; exact ⟨.lp, _, rfl, by simp [Starter]⟩
    · obtain ⟨t, ts, ht, hs⟩ := iha h.1 true (some o)
      simp only [hp, Bool.false_eq_true, if_false, List.nil_append, List.append_nil, List.append_assoc]
      obtain ⟨ts', h'⟩ := head_append ht ([Tok.op o] ++ T b true (rprev o))
      exact ⟨t, ts', h', hs⟩
  | neg a _ =>
    intro _ p q; rw [T_neg]
    cases p
    · exact ⟨.op .minus, _, rfl, by simp [Starter]⟩
    · exact ⟨.lp, _, rfl, by simp [Starter]⟩
  | not a _ =>
    intro _ p q; rw [T_not]
    cases p
    · exact ⟨.not, _, rfl, by simp [Starter]⟩
    · exact ⟨.lp, _, rfl, by simp [Starter]⟩
  | dot a f iha =>
    intro h p q; obtain ⟨t, ts, ht, hs⟩ := iha h true none
    rw [T_dot]; obtain ⟨ts', h'⟩ := head_append ht _; exact ⟨t, ts', h', hs⟩
  | group a f iha =>
    intro h p q; obtain ⟨t, ts, ht, hs⟩ := iha h true none
    rw [T_group]; obtain ⟨ts', h'⟩ := head_append ht _; exact ⟨t, ts', h', hs⟩
  | index a i iha _ =>
    intro h p q; obtain ⟨t, ts, ht, hs⟩ := iha h.1 true none
    rw [T_index]; simp only [List.append_assoc]
    obtain ⟨ts', h'⟩ := head_append ht _; exact ⟨t, ts', h', hs⟩
  | range a i j iha _ _ =>
    intro h p q; obtain ⟨t, ts, ht, hs⟩ := iha h.1 true none
    rw [T_range]; simp only [List.append_assoc]
    obtain ⟨ts', h'⟩ := head_append ht _; exact ⟨t, ts', h', hs⟩
  | query v s c _ _ => intro _ p q; exact ⟨.kw "QUERY", _, rfl, by simp [Starter]⟩
  | call f as _ => intro _ p q; exact ⟨.id f, _, rfl, by simp [Starter]⟩
  | aggr is _ => intro _ p q; exact ⟨.lb, _, rfl, by simp [Starter]⟩
  | nil => intro h; simp [wfE] at h
  | cons e t _ _ => intro h; simp [wfE] at h
  | rep e c t _ _ _ => intro h; simp [wfE] at h

/-- a complete expression in a position printed with `paren = 0` (argument, element, count), followed by a closer -/
theorem top_expr (e : Expr) (E : ParseOK e) (n : Nat) (hn : 4 * sz e ≤ n) (tl : List Tok) (hfol : ∀ k, Fol k tl) :
    parseExpr n 0 (T e false none ++ tl) = some (norm e, tl) := by
  have hs := sz_pos e
  obtain ⟨c, hc, hc1, L⟩ := E.loop false none
  have hcond : LoopCond e false none 0 tl := by
    cases e <;> simp [LoopCond]
    exact Or.inr (hfol _)
  rw [L n hn 0 tl hcond (hfol 0).noQ]
  obtain ⟨j, hj⟩ : ∃ j, n - c = j + 1 := ⟨n - c - 1, by omega⟩
  rw [hj, parseLoop_stop j _ _ tl (hfol _)]

/-- the same for a position printed with `paren = 1` (the operands of QUERY) -/
theorem closed_expr (e : Expr) (E : ParseOK e) (n : Nat) (hn : 4 * sz e ≤ n) (tl : List Tok) (hfol : ∀ k, Fol k tl) :
    parseExpr n 0 (T e true none ++ tl) = some (norm e, tl) := by
  have hs := sz_pos e
  obtain ⟨c, hc, hc1, L⟩ := E.loop true none
  have hcond : LoopCond e true none 0 tl := by
    cases e <;> simp [LoopCond, binParen_true]
  rw [L n hn 0 tl hcond (hfol 0).noQ]
  obtain ⟨j, hj⟩ : ∃ j, n - c = j + 1 := ⟨n - c - 1, by omega⟩
  rw [hj, parseLoop_stop j _ _ tl (hfol _)]

abbrev AT := argToks Shared.clean
abbrev IT := itemToks Shared.clean

def ArgsOK (s : Expr) : Prop :=
  ∀ n, 4 * sz s ≤ n → ∀ r, parseArgs n (AT s true ++ .rp :: r) = some (norm s, .rp :: r)
def ItemsOK (s : Expr) : Prop :=
  ∀ n, 4 * sz s ≤ n → ∀ r, parseItems n (IT s true ++ .rb :: r) = some (norm s, .rb :: r)

theorem AT_cons (e t : Expr) (first : Bool) :
    AT (.cons e t) first = (if first then [] else [.comma]) ++ T e false none ++ AT t false := by simp [AT, T, argToks]
theorem AT_nil (first : Bool) : AT .nil first = [] := by simp [AT, argToks]
theorem norm_cons (e t : Expr) : norm (.cons e t) = .cons (norm e) (norm t) := rfl
theorem norm_rep (e c t : Expr) : norm (.rep e c t) = .rep (norm e) (norm c) (norm t) := rfl
theorem norm_nil : norm .nil = .nil := rfl

theorem argsOK_cons (e t : Expr) (E : ParseOK e) (ht : t = .nil ∨ ((∃ e2 t2, t = .cons e2 t2) ∧ ArgsOK t)) : ArgsOK (.cons e t) := by
  intro n hn r
  have hse := sz_pos e
  have hst := sz_pos t
  have hsz : sz (.cons e t) = sz e + sz t + 1 := by simp [sz]
  rw [hsz] at hn
  obtain ⟨k, rfl⟩ : ∃ k, n = k + 1 := ⟨n - 1, by omega⟩
  rcases ht with rfl | ⟨⟨e2, t2, rfl⟩, H⟩
  · rw [AT_cons, AT_nil]
    simp only [if_true, List.nil_append, List.append_nil]
    rw [parseArgs, top_expr e E k (by omega) _ (by intro k; simp [Fol])]
    simp [norm_cons, norm_nil]
  · rw [AT_cons, AT_cons]
    simp only [if_true, Bool.false_eq_true, if_false, List.nil_append, List.append_assoc, List.singleton_append, List.cons_append]
    rw [parseArgs, top_expr e E k (by omega) _ (by intro k; simp [Fol])]
    have := H k (by omega) r
    rw [AT_cons] at this
    simp only [if_true, List.nil_append, List.append_assoc] at this
    simp only [this, norm_cons]

theorem sharedRep_clean (e : Expr) : sharedRep Shared.clean e = false := by
  unfold sharedRep; split <;> rfl

theorem IT_cons (e t : Expr) (first : Bool) :
    IT (.cons e t) first = (if first then [] else [.comma]) ++ T e false none ++ IT t false := by
  simp only [IT, T, itemToks, sharedRep_clean]
  simp

theorem IT_rep (e c t : Expr) (first : Bool) :
    IT (.rep e c t) first = (if first then [] else [.comma]) ++ T e false none ++ [.colon] ++ T c false none ++ IT t false := by
  have h : ExpPrec.repeatOverwritesCountType = false := rfl
  simp only [IT, T, itemToks, sharedRep_clean, h]
  simp

theorem IT_nil (first : Bool) : IT .nil first = [] := by simp [IT, itemToks]

/-- a non-empty item spine -/
def NEItems (t : Expr) : Prop := (∃ e2 t2, t = .cons e2 t2) ∨ (∃ e2 c2 t2, t = .rep e2 c2 t2)

theorem IT_false (t : Expr) (h : NEItems t) : IT t false = .comma :: IT t true := by
  rcases h with ⟨e2, t2, rfl⟩ | ⟨e2, c2, t2, rfl⟩
  · simp [IT_cons]
  · simp [IT_rep]

theorem itemsOK_cons (e t : Expr) (E : ParseOK e) (ht : t = .nil ∨ (NEItems t ∧ ItemsOK t)) : ItemsOK (.cons e t) := by
  intro n hn r
  have hse := sz_pos e
  have hst := sz_pos t
  have hsz : sz (.cons e t) = sz e + sz t + 1 := by simp [sz]
  rw [hsz] at hn
  obtain ⟨k, rfl⟩ : ∃ k, n = k + 1 := ⟨n - 1, by omega⟩
  rcases ht with rfl | ⟨hne, H⟩
  · rw [IT_cons, IT_nil]
    simp only [if_true, List.nil_append, List.append_nil]
    rw [parseItems, top_expr e E k (by omega) _ (by intro k; simp [Fol])]
    simp [norm_cons, norm_nil]
  · rw [IT_cons, IT_false t hne]
    simp only [if_true, List.nil_append, List.append_assoc, List.cons_append]
    rw [parseItems, top_expr e E k (by omega) _ (by intro k; simp [Fol])]
    simp only [H k (by omega) r, norm_cons]

theorem itemsOK_rep (e c t : Expr) (E : ParseOK e) (C : ParseOK c) (ht : t = .nil ∨ (NEItems t ∧ ItemsOK t)) :
    ItemsOK (.rep e c t) := by
  intro n hn r
  have hse := sz_pos e
  have hsc := sz_pos c
  have hst := sz_pos t
  have hsz : sz (.rep e c t) = sz e + sz c + sz t + 1 := by simp [sz]
  rw [hsz] at hn
  obtain ⟨k, rfl⟩ : ∃ k, n = k + 1 := ⟨n - 1, by omega⟩
  rcases ht with rfl | ⟨hne, H⟩
  · rw [IT_rep, IT_nil]
    simp only [if_true, List.nil_append, List.append_nil, List.append_assoc, List.singleton_append, List.cons_append]
    rw [parseItems, top_expr e E k (by omega) _ (by intro k; simp [Fol])]
    simp only []
    rw [top_expr c C k (by omega) _ (by intro k; simp [Fol])]
    simp [norm_rep, norm_nil]
  · rw [IT_rep, IT_false t hne]
    simp only [if_true, List.nil_append, List.append_assoc, List.singleton_append, List.cons_append]
    rw [parseItems, top_expr e E k (by omega) _ (by intro k; simp [Fol])]
    simp only []
    rw [top_expr c C k (by omega) _ (by intro k; simp [Fol])]
    simp only [H k (by omega) r, norm_rep]

/-- `f( args )` -/
theorem primary_call (n : Nat) (f : String) (full : List Tok) (x : Expr) (r : List Tok)
    (hst : ∃ t ts, full = t :: ts ∧ Starter t) (H : parseArgs n full = some (x, .rp :: r)) :
    parsePrimary (n + 1) (.id f :: .lp :: full) = some (.call f x, r) := by
  obtain ⟨t, ts, rfl, hs⟩ := hst
  cases t <;> simp_all [parsePrimary, Starter]

/-- `[ items ]` -/
theorem primary_aggr (n : Nat) (full : List Tok) (x : Expr) (r : List Tok)
    (hst : ∃ t ts, full = t :: ts ∧ Starter t) (H : parseItems n full = some (x, .rb :: r)) :
    parsePrimary (n + 1) (.lb :: full) = some (.aggr x, r) := by
  obtain ⟨t, ts, rfl, hs⟩ := hst
  cases t <;> simp_all [parsePrimary, Starter]

theorem primary_query (n : Nat) (v : String) (rest r' r : List Tok) (s c : Expr)
    (h1 : parseExpr n 0 rest = some (s, .bar :: r')) (h2 : parseExpr n 0 r' = some (c, .rp :: r)) :
    parsePrimary (n + 1) (.kw "QUERY" :: .lp :: .id v :: .allIn :: rest) = some (.query v s c, r) := by
  simp [parsePrimary, h1, h2]

theorem T_call (f : String) (as : Expr) (p : Bool) (q : Option BinOp) :
    T (.call f as) p q = [.id f, .lp] ++ AT as true ++ [.rp] := by simp [T, AT, toks]
theorem T_aggr (is : Expr) (p : Bool) (q : Option BinOp) :
    T (.aggr is) p q = [.lb] ++ IT is true ++ [.rb] := by simp [T, IT, toks]
theorem T_query (v : String) (s c : Expr) (p : Bool) (q : Option BinOp) :
    T (.query v s c) p q = [.kw "QUERY", .lp, .id v, .allIn] ++ T s true none ++ [.bar] ++ T c true none ++ [.rp] := by
  simp [T, toks]

theorem parseOK_call (f : String) (as : Expr)
    (has : as = .nil ∨ (∃ e t, as = .cons e t ∧ wfE e ∧ ArgsOK as)) : ParseOK (.call f as) ∧ HeadOK (.call f as) := by
  have hsz : sz (.call f as) = sz as + 1 := by simp [sz]
  have hs := sz_pos as
  constructor
  · apply parseOK_of_pp _ (by simp) (by simp [PShape])
    · intro p q
      refine ⟨0, by omega, fun n hn r _ => ?_⟩
      rw [hsz] at hn
      obtain ⟨k, rfl⟩ : ∃ k, n = k + 1 := ⟨n - 1, by omega⟩
      rw [T_call]
      rcases has with rfl | ⟨e, t, rfl, hwe, H⟩
      · rw [AT_nil]
        show parsePP (k + 1) (.id f :: .lp :: .rp :: r) = _
        have : parsePrimary (k + 1) (.id f :: .lp :: .rp :: r) = some (.call f .nil, r) := by simp [parsePrimary]
        rw [parsePP_of_primary this]; rfl
      · simp only [List.append_assoc, List.cons_append, List.nil_append]
        have hst : ∃ t0 ts, AT (.cons e t) true ++ ([Tok.rp] ++ r) = t0 :: ts ∧ Starter t0 := by
          obtain ⟨t0, ts, ht, hs0⟩ := T_start e hwe false none
          rw [AT_cons]; simp only [if_true, List.nil_append, List.append_assoc]
          obtain ⟨ts', h'⟩ := head_append ht (AT t false ++ ([Tok.rp] ++ r))
          exact ⟨t0, ts', h', hs0⟩
        have := primary_call k f _ (norm (.cons e t)) r hst (by
          have := H k (by omega) r
          simpa using this)
        simp only [List.singleton_append] at this
        rw [parsePP_of_primary this]; rfl
    · intro p q r; rw [T_call]; simp [HeadP]
  · intro p q _ r; rw [T_call]; simp [HeadP]

theorem parseOK_aggr (is : Expr)
    (his : is = .nil ∨ (NEItems is ∧ (∃ t0 ts, ∀ X, IT is true ++ X = t0 :: (ts ++ X) ∧ Starter t0) ∧ ItemsOK is)) :
    ParseOK (.aggr is) ∧ HeadOK (.aggr is) := by
  have hsz : sz (.aggr is) = sz is + 1 := by simp [sz]
  have hs := sz_pos is
  constructor
  · apply parseOK_of_pp _ (by simp) (by simp [PShape])
    · intro p q
      refine ⟨0, by omega, fun n hn r _ => ?_⟩
      rw [hsz] at hn
      obtain ⟨k, rfl⟩ : ∃ k, n = k + 1 := ⟨n - 1, by omega⟩
      rw [T_aggr]
      rcases his with rfl | ⟨_, ⟨t0, ts, hst⟩, H⟩
      · rw [IT_nil]
        show parsePP (k + 1) (.lb :: .rb :: r) = _
        have : parsePrimary (k + 1) (.lb :: .rb :: r) = some (.aggr .nil, r) := by simp [parsePrimary]
        rw [parsePP_of_primary this]; rfl
      · simp only [List.append_assoc, List.cons_append, List.nil_append]
        have := primary_aggr k (IT is true ++ (.rb :: r)) (norm is) r ⟨t0, _, (hst (.rb :: r)).1, (hst (.rb :: r)).2⟩ (H k (by omega) r)
        rw [parsePP_of_primary this]; rfl
    · intro p q r; rw [T_aggr]; simp [HeadP]
  · intro p q _ r; rw [T_aggr]; simp [HeadP]

theorem parseOK_query (v : String) (s c : Expr) (S : ParseOK s) (C : ParseOK c) :
    ParseOK (.query v s c) ∧ HeadOK (.query v s c) := by
  have hsz : sz (.query v s c) = sz s + sz c + 1 := by simp [sz]
  have hss := sz_pos s
  have hsc := sz_pos c
  constructor
  · apply parseOK_of_pp _ (by simp) (by simp [PShape])
    · intro p q
      refine ⟨0, by omega, fun n hn r _ => ?_⟩
      rw [hsz] at hn
      obtain ⟨k, rfl⟩ : ∃ k, n = k + 1 := ⟨n - 1, by omega⟩
      rw [T_query]
      simp only [List.append_assoc, List.cons_append, List.nil_append]
      have := primary_query k v _ _ r (norm s) (norm c)
        (closed_expr s S k (by omega) (.bar :: (T c true none ++ .rp :: r)) (by intro k; simp [Fol]))
        (closed_expr c C k (by omega) (.rp :: r) (by intro k; simp [Fol]))
      rw [parsePP_of_primary this]; rfl
    · intro p q r; rw [T_query]; simp [HeadP]
  · intro p q _ r; rw [T_query]; simp [HeadP]

theorem headOK_ident (s : String) : HeadOK (.ident s) := by
  intro p q _ r; rw [T_ident]; simp [HeadP]

/-- the whole expression grammar -/
theorem parseOK_all : ∀ e : Expr,
    (wfE e → ParseOK e ∧ HeadOK e) ∧ (wfArgs e → (∃ a t, e = .cons a t) → ArgsOK e) ∧ (wfItems e → NEItems e → ItemsOK e) := by
  intro e
  induction e with
  | lit l => exact ⟨fun h => ⟨parseOK_lit l h, headOK_lit l⟩, fun h => by simp [wfArgs] at h, fun h => by simp [wfItems] at h⟩
  | ident s => exact ⟨fun _ => ⟨parseOK_ident s, headOK_ident s⟩, fun h => by simp [wfArgs] at h, fun h => by simp [wfItems] at h⟩
  | bin o a b iha ihb =>
    refine ⟨fun h => ⟨parseOK_bin o a b (iha.1 h.1).1 (ihb.1 h.2).1, ?_⟩, fun h => by simp [wfArgs] at h, fun h => by simp [wfItems] at h⟩
    apply headOK_paren
    intro p q hp
    have hp : binParen o p q = true := hp
    rw [T_bin]; simp only [hp, if_true]; exact ⟨_, rfl⟩
  | neg a iha =>
    refine ⟨fun h => ⟨parseOK_neg a (iha.1 h).1, ?_⟩, fun h => by simp [wfArgs] at h, fun h => by simp [wfItems] at h⟩
    apply headOK_paren
    intro p q hp
    have hp : p = true := hp
    subst hp; rw [T_neg]; exact ⟨_, rfl⟩
  | not a iha =>
    refine ⟨fun h => ⟨parseOK_not a (iha.1 h).1, ?_⟩, fun h => by simp [wfArgs] at h, fun h => by simp [wfItems] at h⟩
    apply headOK_paren
    intro p q hp
    have hp : p = true := hp
    subst hp; rw [T_not]; exact ⟨_, rfl⟩
  | dot a f iha =>
    exact ⟨fun h => parseOK_dot a f (wfE.isExpr h) (iha.1 h).1 (iha.1 h).2, fun h => by simp [wfArgs] at h, fun h => by simp [wfItems] at h⟩
  | group a f iha =>
    exact ⟨fun h => parseOK_group a f (wfE.isExpr h) (iha.1 h).1 (iha.1 h).2, fun h => by simp [wfArgs] at h, fun h => by simp [wfItems] at h⟩
  | index a i iha ihi =>
    exact ⟨fun h => parseOK_index a i (wfE.isExpr h.1) (iha.1 h.1).1 (iha.1 h.1).2 (ihi.1 h.2).1,
      fun h => by simp [wfArgs] at h, fun h => by simp [wfItems] at h⟩
  | range a i j iha ihi ihj =>
    exact ⟨fun h => parseOK_range a i j (wfE.isExpr h.1) (iha.1 h.1).1 (iha.1 h.1).2 (ihi.1 h.2.1).1 (ihj.1 h.2.2).1,
      fun h => by simp [wfArgs] at h, fun h => by simp [wfItems] at h⟩
  | query v s c ihs ihc =>
    exact ⟨fun h => parseOK_query v s c (ihs.1 h.1).1 (ihc.1 h.2).1, fun h => by simp [wfArgs] at h, fun h => by simp [wfItems] at h⟩
  | call f as ih =>
    refine ⟨fun h => parseOK_call f as ?_, fun h => by simp [wfArgs] at h, fun h => by simp [wfItems] at h⟩
    have h : wfArgs as := h
    cases as with
    | nil => exact Or.inl rfl
    | cons e t => exact Or.inr ⟨e, t, rfl, h.1, ih.2.1 h ⟨e, t, rfl⟩⟩
    | _ => simp [wfArgs] at h
  | aggr is ih =>
    refine ⟨fun h => parseOK_aggr is ?_, fun h => by simp [wfArgs] at h, fun h => by simp [wfItems] at h⟩
    have h : wfItems is := h
    cases is with
    | nil => exact Or.inl rfl
    | cons e t =>
      have hne : NEItems (.cons e t) := Or.inl ⟨e, t, rfl⟩
      obtain ⟨t0, ts, ht, hs0⟩ := T_start e h.1 false none
      refine Or.inr ⟨hne, ⟨t0, ts ++ IT t false, fun X => ⟨?_, hs0⟩⟩, ih.2.2 h hne⟩
      rw [IT_cons]; simp [ht]
    | rep e c t =>
      have hne : NEItems (.rep e c t) := Or.inr ⟨e, c, t, rfl⟩
      obtain ⟨t0, ts, ht, hs0⟩ := T_start e h.1 false none
      refine Or.inr ⟨hne, ⟨t0, ts ++ ([.colon] ++ T c false none ++ IT t false), fun X => ⟨?_, hs0⟩⟩, ih.2.2 h hne⟩
      rw [IT_rep]; simp [ht]
    | _ => simp [wfItems] at h
  | nil =>
    refine ⟨fun h => by simp [wfE] at h, fun _ h => ?_, fun _ h => ?_⟩
    · obtain ⟨a, t, h⟩ := h; cases h
    · rcases h with ⟨a, t, h⟩ | ⟨a, c, t, h⟩ <;> cases h
  | cons e t ihe iht =>
    refine ⟨fun h => by simp [wfE] at h, fun h _ => ?_, fun h _ => ?_⟩
    · have h : wfE e ∧ wfArgs t := h
      apply argsOK_cons e t (ihe.1 h.1).1
      cases t with
      | nil => exact Or.inl rfl
      | cons e2 t2 => exact Or.inr ⟨⟨e2, t2, rfl⟩, iht.2.1 h.2 ⟨e2, t2, rfl⟩⟩
      | _ => have := h.2; simp [wfArgs] at this
    · have h : wfE e ∧ wfItems t := h
      apply itemsOK_cons e t (ihe.1 h.1).1
      cases t with
      | nil => exact Or.inl rfl
      | cons e2 t2 => exact Or.inr ⟨Or.inl ⟨e2, t2, rfl⟩, iht.2.2 h.2 (Or.inl ⟨e2, t2, rfl⟩)⟩
      | rep e2 c2 t2 => exact Or.inr ⟨Or.inr ⟨e2, c2, t2, rfl⟩, iht.2.2 h.2 (Or.inr ⟨e2, c2, t2, rfl⟩)⟩
      | _ => have := h.2; simp [wfItems] at this
  | rep e c t ihe ihc iht =>
    refine ⟨fun h => by simp [wfE] at h, fun h => by simp [wfArgs] at h, fun h _ => ?_⟩
    have h : wfE e ∧ wfE c ∧ wfItems t := h
    apply itemsOK_rep e c t (ihe.1 h.1).1 (ihc.1 h.2.1).1
    cases t with
    | nil => exact Or.inl rfl
    | cons e2 t2 => exact Or.inr ⟨Or.inl ⟨e2, t2, rfl⟩, iht.2.2 h.2.2 (Or.inl ⟨e2, t2, rfl⟩)⟩
    | rep e2 c2 t2 => exact Or.inr ⟨Or.inr ⟨e2, c2, t2, rfl⟩, iht.2.2 h.2.2 (Or.inr ⟨e2, c2, t2, rfl⟩)⟩
    | _ => have := h.2.2; simp [wfItems] at this

theorem len_AT_false (t : Expr) : (AT t true).length ≤ (AT t false).length := by
  cases t <;> simp [AT, argToks]
theorem len_IT_false (t : Expr) : (IT t true).length ≤ (IT t false).length := by
  cases t with
  | cons e t => simp [IT_cons]
  | rep e c t => simp [IT_rep]
  | _ => simp [IT, itemToks]

/-- the printed form has at least half as many tokens as the expression has nodes -/
theorem sz_le_toks : ∀ e : Expr,
    (wfE e → ∀ p q, sz e + 1 ≤ 2 * (T e p q).length) ∧ (wfArgs e → sz e ≤ 2 * (AT e true).length + 1)
      ∧ (wfItems e → sz e ≤ 2 * (IT e true).length + 1) := by
  intro e
  induction e with
  | lit l =>
    refine ⟨fun _ p q => ?_, fun h => by simp [wfArgs] at h, fun h => by simp [wfItems] at h⟩
    rw [T_lit]; cases l <;> simp [litToks, sz] <;> split <;> simp
  | ident s => exact ⟨fun _ p q => by simp [T_ident, sz], fun h => by simp [wfArgs] at h, fun h => by simp [wfItems] at h⟩
  | bin o a b iha ihb =>
    refine ⟨fun h p q => ?_, fun h => by simp [wfArgs] at h, fun h => by simp [wfItems] at h⟩
    have := iha.1 h.1 true (some o); have := ihb.1 h.2 true (rprev o)
    rw [T_bin]; simp only [List.length_append, sz]; simp; omega
  | neg a iha =>
    refine ⟨fun h p q => ?_, fun h => by simp [wfArgs] at h, fun h => by simp [wfItems] at h⟩
    have := iha.1 h true none
    rw [T_neg]; simp only [List.length_append, sz]; simp; omega
  | not a iha =>
    refine ⟨fun h p q => ?_, fun h => by simp [wfArgs] at h, fun h => by simp [wfItems] at h⟩
    have := iha.1 h true none
    rw [T_not]; simp only [List.length_append, sz]; simp; omega
  | dot a f iha =>
    refine ⟨fun h p q => ?_, fun h => by simp [wfArgs] at h, fun h => by simp [wfItems] at h⟩
    have := iha.1 h true none
    rw [T_dot]; simp only [List.length_append, sz]; simp; omega
  | group a f iha =>
    refine ⟨fun h p q => ?_, fun h => by simp [wfArgs] at h, fun h => by simp [wfItems] at h⟩
    have := iha.1 h true none
    rw [T_group]; simp only [List.length_append, sz]; simp; omega
  | index a i iha ihi =>
    refine ⟨fun h p q => ?_, fun h => by simp [wfArgs] at h, fun h => by simp [wfItems] at h⟩
    have := iha.1 h.1 true none; have := ihi.1 h.2 (indexParen i) none
    rw [T_index]; simp only [List.length_append, sz]; simp; omega
  | range a i j iha ihi ihj =>
    refine ⟨fun h p q => ?_, fun h => by simp [wfArgs] at h, fun h => by simp [wfItems] at h⟩
    have := iha.1 h.1 true none; have := ihi.1 h.2.1 (indexParen i) none; have := ihj.1 h.2.2 (indexParen j) none
    rw [T_range]; simp only [List.length_append, sz]; simp; omega
  | query v s c ihs ihc =>
    refine ⟨fun h p q => ?_, fun h => by simp [wfArgs] at h, fun h => by simp [wfItems] at h⟩
    have := ihs.1 h.1 true none; have := ihc.1 h.2 true none
    rw [T_query]; simp only [List.length_append, sz]; simp; omega
  | call f as ih =>
    refine ⟨fun h p q => ?_, fun h => by simp [wfArgs] at h, fun h => by simp [wfItems] at h⟩
    have := ih.2.1 h
    rw [T_call]; simp only [List.length_append, sz]; simp; omega
  | aggr is ih =>
    refine ⟨fun h p q => ?_, fun h => by simp [wfArgs] at h, fun h => by simp [wfItems] at h⟩
    have := ih.2.2 h
    rw [T_aggr]; simp only [List.length_append, sz]; simp; omega
  | nil => exact ⟨fun h => by simp [wfE] at h, fun _ => by simp [sz, AT_nil], fun _ => by simp [sz, IT_nil]⟩
  | cons e t ihe iht =>
    refine ⟨fun h => by simp [wfE] at h, fun h => ?_, fun h => ?_⟩
    · have h : wfE e ∧ wfArgs t := h
      have := ihe.1 h.1 false none; have := iht.2.1 h.2; have := len_AT_false t
      rw [AT_cons]; simp only [List.length_append, sz]; simp; omega
    · have h : wfE e ∧ wfItems t := h
      have := ihe.1 h.1 false none; have := iht.2.2 h.2; have := len_IT_false t
      rw [IT_cons]; simp only [List.length_append, sz]; simp; omega
  | rep e c t ihe ihc iht =>
    refine ⟨fun h => by simp [wfE] at h, fun h => by simp [wfArgs] at h, fun h => ?_⟩
    have h : wfE e ∧ wfE c ∧ wfItems t := h
    have := ihe.1 h.1 false none; have := ihc.1 h.2.1 false none; have := iht.2.2 h.2.2; have := len_IT_false t
    rw [IT_rep]; simp only [List.length_append, sz]; simp; omega

end StepModel.Express

import StepModel.Generated.Enums
/-!
`enum Severity` (include/clutils/errordesc.h) and `ErrorDescriptor::GreaterSeverity`.
The numeric values are tied to the header by `Sev.table_eq_generated` (Generated/Enums.lean is re-extracted on every run):
lower value = more severe; `GreaterSeverity s` keeps the lower of the two.
-/
namespace StepModel

inductive Sev where
  | max | dump | exit | bug | inputError | warning | incomplete | usermsg | null
  deriving DecidableEq, Repr, Inhabited

namespace Sev

def rank : Sev → Int
  | .max => -5 | .dump => -4 | .exit => -3 | .bug => -2 | .inputError => -1
  | .warning => 0 | .incomplete => 1 | .usermsg => 2 | .null => 3

def cname : Sev → String
  | .max => "SEVERITY_MAX" | .dump => "SEVERITY_DUMP" | .exit => "SEVERITY_EXIT" | .bug => "SEVERITY_BUG"
  | .inputError => "SEVERITY_INPUT_ERROR" | .warning => "SEVERITY_WARNING" | .incomplete => "SEVERITY_INCOMPLETE"
  | .usermsg => "SEVERITY_USERMSG" | .null => "SEVERITY_NULL"

/-- short names used on the line protocol (same as harness/h_p21.cc `sevName`) -/
def short : Sev → String
  | .max => "MAX" | .dump => "DUMP" | .exit => "EXIT" | .bug => "BUG" | .inputError => "INPUT_ERROR"
  | .warning => "WARNING" | .incomplete => "INCOMPLETE" | .usermsg => "USERMSG" | .null => "NULL"

def all : List Sev := [.max, .dump, .exit, .bug, .inputError, .warning, .incomplete, .usermsg, .null]

def ofShort (s : String) : Option Sev := all.find? (fun v => v.short == s)

/-- the enum as the model sees it -/
def table : List (String × Int) := all.map (fun s => (s.cname, s.rank))

/-- `a.lt b` : `a < b` on the C enum values (a is more severe) -/
def lt (a b : Sev) : Bool := decide (a.rank < b.rank)
def le (a b : Sev) : Bool := decide (a.rank ≤ b.rank)

/-- `ErrorDescriptor::GreaterSeverity`: `(s < _severity) ? _severity = s : _severity` with `cur = _severity` -/
def greater (cur s : Sev) : Sev := if s.lt cur then s else cur

end Sev
end StepModel

import StepModel.GenCxxCalls
/-! When does the creator-aware search of `populateAttrList` (fix C02-8, `populate`) find what the search by name
(`populateN`, the subject of the chain and closed-form proofs) finds?  Two decidable conditions on the schema alone, for a
resolved schema (`Spec.WF`). -/
namespace StepModel.GenCxx
open StepModel.Generated Spec

/-- the entity declares attribute `x` itself (not as a redeclaration) — the test of exp2cxx `ATTRdeclarer` -/
def declares (c : Entity) (x : String) : Bool := c.attrs.any (fun b => b.name == x && b.redecl.isNone)

/-- A redeclared attribute name is declared in one line only: whichever entity of the schema DECLARES an attribute named like a
    redeclaration `SELF\sup.x`, it is `sup` or a supertype of `sup`.  (The shape outside: one attribute name declared in two lines
    of supertypes — `C02_derived_calls_two_creators_witness`.) -/
def RedeclNamesOneLine (s : Schema) : Prop :=
  ∀ e ∈ s.entities, ∀ a ∈ e.attrs, ∀ sup ∈ a.redecl,
    ∀ c ∈ s.entities, declares c a.name = true → isSelfOrSuper s (fuelOf s) sup c.name = true

/-- Every redeclaration `SELF\sup.x` is written in a subtype of `sup`, and `sup` or one of its supertypes declares `x`
    (ISO 10303-11 9.2.3.4; what `check-express` demands of a schema). -/
def RedeclResolves (s : Schema) : Prop :=
  ∀ e ∈ s.entities, ∀ a ∈ e.attrs, ∀ sup ∈ a.redecl,
    e.supers.any (fun p => isSelfOrSuper s (fuelOf s) p sup) = true ∧ (attrDeclarer s (fuelOf s) sup a.name).isSome = true

instance (s : Schema) : Decidable (RedeclNamesOneLine s) := by unfold RedeclNamesOneLine; infer_instance
instance (s : Schema) : Decidable (RedeclResolves s) := by unfold RedeclResolves; infer_instance

/-- the entry was created by an entity of the schema that declares an attribute of that name -/
def DeclBy (s : Schema) (o : OA) : Prop := ∃ c ∈ s.entities, c.name = o.creator ∧ declares c o.name = true
def AllDecl (s : Schema) (l : List OA) : Prop := ∀ o ∈ l, DeclBy s o

/-! ## marking keeps names and creators -/

theorem markFirst_names {nm : String} : ∀ {l l' : List OA}, markFirst nm l = some l' → names l' = names l
  | [], _, h => by simp [markFirst] at h
  | x :: xs, l', h => by
    simp only [markFirst] at h
    by_cases hx : (x.name == nm) = true
    · simp only [hx, if_true, Option.some.injEq] at h
      subst h; rfl
    · simp only [hx, Bool.false_eq_true, if_false] at h
      cases hm : markFirst nm xs with
      | none => simp [hm] at h
      | some r =>
        simp only [hm, Option.map_some, Option.some.injEq] at h
        subst h
        simp only [names, List.map_cons]
        have := markFirst_names hm
        simp only [names] at this
        rw [this]

theorem markFirst_allDecl {s : Schema} {nm : String} : ∀ {l l' : List OA}, markFirst nm l = some l' → AllDecl s l → AllDecl s l'
  | [], _, h, _ => by simp [markFirst] at h
  | x :: xs, l', h, hc => by
    simp only [markFirst] at h
    by_cases hx : (x.name == nm) = true
    · simp only [hx, if_true, Option.some.injEq] at h
      subst h
      intro o ho
      rcases List.mem_cons.1 ho with rfl | ho
      · exact hc x (by simp)
      · exact hc o (by simp [ho])
    · simp only [hx, Bool.false_eq_true, if_false] at h
      cases hm : markFirst nm xs with
      | none => simp [hm] at h
      | some r =>
        simp only [hm, Option.map_some, Option.some.injEq] at h
        subst h
        have := markFirst_allDecl hm (fun o ho => hc o (by simp [ho]))
        intro o ho
        rcases List.mem_cons.1 ho with rfl | ho
        · exact hc _ (by simp)
        · exact this o ho

theorem names_append (a b : List OA) : names (a ++ b) = names a ++ names b := by simp [names]

/-- one step keeps the names that are there and makes the attribute's name known -/
theorem popStep_names_mono (acc : List OA) (p : String × Attr) :
    (∀ x ∈ names acc, x ∈ names (popStep acc p)) ∧ p.2.name ∈ names (popStep acc p) := by
  rw [popStep_def]
  cases hm : markFirst p.2.name acc with
  | none =>
    simp only [names_append]
    exact ⟨fun x hx => List.mem_append_left _ hx, List.mem_append_right _ (by simp [names, newOA])⟩
  | some acc' =>
    have hn := markFirst_names hm
    have hin : p.2.name ∈ names acc := by
      by_cases h : p.2.name ∈ names acc
      · exact h
      · rw [markFirst_none.2 h] at hm; cases hm
    simp only
    split
    · rw [hn]; exact ⟨fun x hx => hx, hin⟩
    · exact ⟨fun x hx => hx, hin⟩

theorem fold_names_mono (ps : List (String × Attr)) : ∀ (acc : List OA),
    (∀ x ∈ names acc, x ∈ names (ps.foldl popStep acc)) ∧ (∀ p ∈ ps, p.2.name ∈ names (ps.foldl popStep acc)) := by
  induction ps with
  | nil => intro acc; exact ⟨fun x hx => hx, fun p hp => by simp at hp⟩
  | cons q qs ih =>
    intro acc
    simp only [List.foldl_cons]
    obtain ⟨h1, h2⟩ := ih (popStep acc q)
    obtain ⟨m1, m2⟩ := popStep_names_mono acc q
    refine ⟨fun x hx => h1 x (m1 x hx), ?_⟩
    intro p hp
    rcases List.mem_cons.1 hp with rfl | hp
    · exact h1 _ m2
    · exact h2 p hp

theorem names_flatMap_mem {L : List String} {g : String → List OA} {q : String} (hq : q ∈ L) {x : String} (hx : x ∈ names (g q)) :
    x ∈ names (L.flatMap g) := by
  simp only [names, List.mem_map, List.mem_flatMap] at *
  obtain ⟨o, ho, rfl⟩ := hx
  exact ⟨o, ⟨q, hq, ho⟩, rfl⟩

theorem seg_succ (s : Schema) (f : Nat) (n : String) :
    seg s (f + 1) n = match s.findE n with
      | none => []
      | some e => (e.attrs.map (fun a => (n, a))).foldl popStep (e.supers.flatMap (seg s f)) := rfl

/-! ## a declared attribute is known to every subtype's list -/

theorem seg_knows_declared {s : Schema} {rank : String → Nat} (wf : WF s rank) (x : String) :
    ∀ (g f : Nat) (c : String), rank c < f → (attrDeclarer s g c x).isSome = true → x ∈ names (seg s f c) := by
  intro g
  induction g with
  | zero => intro f c _ h; simp [attrDeclarer] at h
  | succ g ih =>
    intro f c hr h
    cases f with
    | zero => omega
    | succ f =>
      rw [seg_succ]
      unfold attrDeclarer at h
      cases hE : s.findE c with
      | none => simp [hE] at h
      | some e =>
        simp only [hE] at h
        simp only
        by_cases hd : e.attrs.any (fun a => a.name == x && a.redecl.isNone) = true
        · obtain ⟨b, hb, hbx⟩ := List.any_eq_true.1 hd
          have hbn : b.name = x := by
            simp only [Bool.and_eq_true, beq_iff_eq] at hbx
            exact hbx.1
          have := (fold_names_mono (e.attrs.map (fun a => (c, a))) (e.supers.flatMap (seg s f))).2 (c, b)
            (List.mem_map.2 ⟨b, hb, rfl⟩)
          rw [← hbn]; exact this
        · simp only [hd, Bool.false_eq_true, if_false] at h
          obtain ⟨p, hp, hps⟩ := List.exists_of_findSome?_eq_some (Option.isSome_iff_exists.1 h).choose_spec
          have hrp := (wf.supers c e hE p hp).2
          have hk := ih f p (by omega) (by rw [hps]; rfl)
          exact (fold_names_mono _ _).1 x (names_flatMap_mem hp hk)

theorem seg_knows_via {s : Schema} {rank : String → Nat} (wf : WF s rank) (x sup : String)
    (hd : (attrDeclarer s (fuelOf s) sup x).isSome = true) :
    ∀ (g f : Nat) (p : String), rank p < f → isSelfOrSuper s g p sup = true → x ∈ names (seg s f p) := by
  intro g
  induction g with
  | zero =>
    intro f p hr h
    have : p = sup := by simpa [isSelfOrSuper] using h
    subst this
    exact seg_knows_declared wf x _ f p hr hd
  | succ g ih =>
    intro f p hr h
    unfold isSelfOrSuper at h
    by_cases hps : (p == sup) = true
    · have : p = sup := by simpa using hps
      subst this
      exact seg_knows_declared wf x _ f p hr hd
    · simp only [hps, Bool.false_or] at h
      cases hE : s.findE p with
      | none => simp [hE] at h
      | some e =>
        simp only [hE] at h
        obtain ⟨q, hq, hqs⟩ := List.any_eq_true.1 h
        cases f with
        | zero => omega
        | succ f =>
          have hrq := (wf.supers p e hE q hq).2
          have hk := ih f q (by omega) hqs
          rw [seg_succ]
          simp only [hE]
          exact (fold_names_mono _ _).1 x (names_flatMap_mem hq hk)

/-! ## one own attribute -/

/-- invariant of the own-attribute loop of entity `e` (= `n`): every entry was created by a declaring entity, and the names
    known to the supertypes' lists are still known -/
theorem popStep_inv {s : Schema} {rank : String → Nat} (wf : WF s rank) (rr : RedeclResolves s)
    {n : String} {e : Entity} (hE : s.findE n = some e) {f : Nat} (hr : rank n < f + 1)
    {a : Attr} (ha : a ∈ e.attrs) {acc : List OA} (hc : AllDecl s acc)
    (hsub : ∀ x ∈ names (e.supers.flatMap (seg s f)), x ∈ names acc) :
    AllDecl s (popStep acc (n, a)) ∧ (∀ x ∈ names (e.supers.flatMap (seg s f)), x ∈ names (popStep acc (n, a))) := by
  refine ⟨?_, fun x hx => (popStep_names_mono acc (n, a)).1 x (hsub x hx)⟩
  rw [popStep_def]
  cases hm : markFirst a.name acc with
  | some acc' =>
    simp only
    split
    · exact markFirst_allDecl hm hc
    · exact hc
  | none =>
    simp only
    have hnot := markFirst_none.1 hm
    have he := findE_mem hE
    have hn := findE_name hE
    -- a redeclaration would have found its target
    have hred : a.redecl = none := by
      cases hrd : a.redecl with
      | none => rfl
      | some sup =>
        exfalso
        obtain ⟨h1, h2⟩ := rr e he a ha sup (by rw [hrd]; rfl)
        obtain ⟨p, hp, hps⟩ := List.any_eq_true.1 h1
        have hrp := (wf.supers n e hE p hp).2
        have hk := seg_knows_via wf a.name sup h2 (fuelOf s) f p (by omega) hps
        exact hnot (hsub _ (names_flatMap_mem hp hk))
    intro o ho
    rcases List.mem_append.1 ho with ho | ho
    · exact hc o ho
    · simp only [List.mem_singleton] at ho
      subst ho
      refine ⟨e, he, hn, ?_⟩
      exact List.any_eq_true.2 ⟨a, ha, by simp [newOA, hred]⟩

/-- the entries of every entity's own list were created by declaring entities -/
theorem seg_allDecl {s : Schema} {rank : String → Nat} (wf : WF s rank) (rr : RedeclResolves s) :
    ∀ (f : Nat) (c : String), rank c < f → AllDecl s (seg s f c) := by
  intro f
  induction f with
  | zero => intro c h; omega
  | succ f ih =>
    intro c hr
    rw [seg_succ]
    cases hE : s.findE c with
    | none => intro o ho; simp at ho
    | some e =>
      simp only
      have h0 : AllDecl s (e.supers.flatMap (seg s f)) := by
        intro o ho
        obtain ⟨q, hq, hoq⟩ := List.mem_flatMap.1 ho
        exact ih q (by have := (wf.supers c e hE q hq).2; omega) o hoq
      have hfold : ∀ (as : List Attr), (∀ a ∈ as, a ∈ e.attrs) → ∀ acc : List OA, AllDecl s acc →
          (∀ x ∈ names (e.supers.flatMap (seg s f)), x ∈ names acc) →
          AllDecl s ((as.map (fun a => (c, a))).foldl popStep acc) := by
        intro as
        induction as with
        | nil => intro _ acc h _; exact h
        | cons a as iha =>
          intro hmem acc hacc hsub
          simp only [List.map_cons, List.foldl_cons]
          obtain ⟨i1, i2⟩ := popStep_inv wf rr hE hr (hmem a (by simp)) hacc hsub
          exact iha (fun b hb => hmem b (by simp [hb])) _ i1 i2
      exact hfold e.attrs (fun a ha => ha) _ h0 (fun x hx => hx)

/-! ## the creator-aware search -/

theorem markFirstP_congr {p q : OA → Bool} : ∀ (l : List OA), (∀ o ∈ l, p o = q o) → markFirstP p l = markFirstP q l
  | [], _ => rfl
  | x :: xs, h => by
    simp only [markFirstP]
    rw [h x (by simp), markFirstP_congr xs (fun o ho => h o (by simp [ho]))]

theorem markFirst_eq_P (nm : String) : ∀ l : List OA, markFirst nm l = markFirstP (fun o => o.name == nm) l
  | [] => rfl
  | x :: xs => by simp only [markFirst, markFirstP]; rw [markFirst_eq_P nm xs]

theorem markFromP_ctx (l x : List OA) (p : OA → Bool) :
    markFromP l.length p (l ++ x) = (markFirstP p x).map (l ++ ·) := by
  unfold markFromP
  simp

theorem populate_succ (s : Schema) (f : Nat) (n : String) (l : List OA) :
    populate s (f + 1) n l =
      match s.findE n with
      | none => l
      | some e =>
        e.attrs.foldl (fun acc a =>
          match markFromP l.length (fun o => o.name == a.name && creatorOK s a o.creator) acc with
          | some acc' => if marksDerived a then acc' else acc
          | none => acc ++ [{ name := a.name, creator := n, deriver := a.kind == .derived }])
          (e.supers.foldl (fun acc sup => populate s f sup acc) l) := rfl

/-- the end of a chain of redeclarations of `x` that starts at a supertype named by some redeclaration of `x`: every entity that
    declares `x` is that end or one of its supertypes (each link of the chain is a redeclaration, to which `r1` applies) -/
theorem redeclTarget_ok {s : Schema} (r1 : RedeclNamesOneLine s) {c : Entity} (hc : c ∈ s.entities) (x : String)
    (hcd : declares c x = true) : ∀ (f : Nat) (sup : String),
    (∃ e0 ∈ s.entities, ∃ a0 ∈ e0.attrs, a0.name = x ∧ a0.redecl = some sup) →
    isSelfOrSuper s (fuelOf s) (redeclTarget s f sup x) c.name = true := by
  intro f
  induction f with
  | zero =>
    intro sup ⟨e0, he0, a0, ha0, hn0, hr0⟩
    exact r1 e0 he0 a0 ha0 sup (by rw [hr0]; rfl) c hc (by rw [hn0]; exact hcd)
  | succ f ih =>
    intro sup hsup
    have base : isSelfOrSuper s (fuelOf s) sup c.name = true := by
      obtain ⟨e0, he0, a0, ha0, hn0, hr0⟩ := hsup
      exact r1 e0 he0 a0 ha0 sup (by rw [hr0]; rfl) c hc (by rw [hn0]; exact hcd)
    unfold redeclTarget
    cases hE : s.findE sup with
    | none => exact base
    | some e =>
      simp only
      cases hb : e.attrs.find? (fun b => b.name == x) with
      | none => exact base
      | some b =>
        simp only
        cases hq : b.redecl with
        | none => exact base
        | some q =>
          simp only
          by_cases hqs : (q == sup) = true
          · simp only [hqs, if_true]; exact base
          · simp only [hqs]
            have hbx : b.name = x := by
              have := List.find?_some hb
              simpa using this
            exact ih q ⟨e, findE_mem hE, b, List.mem_of_find?_eq_some hb, hbx, hq⟩

/-- on entries created by declaring entities the creator test of a redeclaration always passes -/
theorem creatorOK_of_decl {s : Schema} (r1 : RedeclNamesOneLine s) {e : Entity} (he : e ∈ s.entities) {a : Attr} (ha : a ∈ e.attrs)
    {o : OA} (ho : DeclBy s o) (hnm : o.name = a.name) : creatorOK s a o.creator = true := by
  unfold creatorOK
  cases hr : a.redecl with
  | none => rfl
  | some sup =>
    obtain ⟨c, hcm, hcn, hcd⟩ := ho
    have hcd' : declares c a.name = true := by rw [← hnm]; exact hcd
    have h1 := r1 e he a ha sup (by rw [hr]; rfl) c hcm hcd'
    have h2 := redeclTarget_ok r1 hcm a.name hcd' (fuelOf s) sup ⟨e, he, a, ha, rfl, hr⟩
    simp only
    by_cases hf : redeclFollowsChain = true
    · simp [hf, hcn ▸ h2]
    · simp [hf, hcn ▸ h1]

/-- `populate_ctx` for the creator-aware search, at sufficient fuel -/
theorem populateP_ctx {s : Schema} {rank : String → Nat} (wf : WF s rank) (rr : RedeclResolves s) (r1 : RedeclNamesOneLine s) :
    ∀ (f : Nat) (n : String) (l : List OA), rank n < f → populate s f n l = l ++ seg s f n := by
  intro f
  induction f with
  | zero => intro n l h; omega
  | succ f ih =>
    intro n l hr
    rw [populate_succ, seg_succ]
    cases hE : s.findE n with
    | none => simp
    | some e =>
      simp only
      have he := findE_mem hE
      have hsup : ∀ (L : List String), (∀ q ∈ L, q ∈ e.supers) → ∀ (acc : List OA),
          L.foldl (fun acc sup => populate s f sup acc) acc = acc ++ L.flatMap (seg s f) := by
        intro L
        induction L with
        | nil => intro _ acc; simp
        | cons q qs ihq =>
          intro hm acc
          simp only [List.foldl_cons, List.flatMap_cons]
          have hrq := (wf.supers n e hE q (hm q (by simp))).2
          rw [ih q acc (by omega), ihq (fun r hr' => hm r (by simp [hr'])), List.append_assoc]
      rw [hsup e.supers (fun q hq => hq)]
      have h0 : AllDecl s (e.supers.flatMap (seg s f)) := by
        intro o ho
        obtain ⟨q, hq, hoq⟩ := List.mem_flatMap.1 ho
        exact seg_allDecl wf rr f q (by have := (wf.supers n e hE q hq).2; omega) o hoq
      have hown : ∀ (as : List Attr), (∀ a ∈ as, a ∈ e.attrs) → ∀ x : List OA, AllDecl s x →
          (∀ y ∈ names (e.supers.flatMap (seg s f)), y ∈ names x) →
          as.foldl (fun acc a =>
            match markFromP l.length (fun o => o.name == a.name && creatorOK s a o.creator) acc with
            | some acc' => if marksDerived a then acc' else acc
            | none => acc ++ [{ name := a.name, creator := n, deriver := a.kind == AKind.derived }]) (l ++ x) =
          l ++ (as.map (fun a => (n, a))).foldl popStep x := by
        intro as
        induction as with
        | nil => intro _ x _ _; rfl
        | cons a as iha =>
          intro hmem x hx hsub
          have ha := hmem a (by simp)
          simp only [List.foldl_cons, List.map_cons]
          have hpq : ∀ o ∈ x, (o.name == a.name && creatorOK s a o.creator) = (o.name == a.name) := by
            intro o ho
            by_cases hnm : (o.name == a.name) = true
            · rw [hnm, Bool.true_and]
              exact creatorOK_of_decl r1 he ha (hx o ho) (by simpa using hnm)
            · simp [hnm]
          rw [markFromP_ctx, markFirstP_congr _ hpq, ← markFirst_eq_P, popStep_def]
          obtain ⟨i1, i2⟩ := popStep_inv wf rr hE hr ha hx hsub
          rw [popStep_def] at i1 i2
          cases hm : markFirst a.name x with
          | none =>
            simp only [Option.map_none]
            rw [List.append_assoc]
            simp only [hm] at i1 i2
            exact iha (fun b hb => hmem b (by simp [hb])) _ i1 i2
          | some x' =>
            simp only [Option.map_some]
            simp only [hm] at i1 i2
            by_cases hk : marksDerived a = true
            · simp only [hk, ↓reduceIte] at i1 i2 ⊢
              exact iha (fun b hb => hmem b (by simp [hb])) _ i1 i2
            · simp only [hk] at i1 i2 ⊢
              exact iha (fun b hb => hmem b (by simp [hb])) _ i1 i2
      exact hown e.attrs (fun a ha => ha) _ h0 (fun y hy => hy)

/-- for a resolved schema whose redeclarations resolve and whose redeclared names are declared in one line, the creator-aware
    search of `populateAttrList` finds what the search by name finds: the two call lists are the same -/
theorem derivedCalls_agree {s : Schema} {rank : String → Nat} (wf : WF s rank) (rr : RedeclResolves s) (r1 : RedeclNamesOneLine s)
    (n : String) : derivedCalls s n = derivedCallsN s n := by
  unfold derivedCalls derivedCallsN
  cases hE : s.findE n with
  | none =>
    have hf : fuelOf s = (fuelOf s - 1) + 1 := by unfold fuelOf; omega
    rw [hf, populate_succ, populateN_succ, hE]
  | some e =>
    rw [populateP_ctx wf rr r1 (fuelOf s) n [] (wf.bound n e hE), populate_ctx]

/-! ## a simple class of schemas: no attribute name is declared twice -/

/-- no two entities of the schema declare (not: redeclare) an attribute of the same name -/
def DeclaredOnce (s : Schema) : Prop :=
  ∀ c1 ∈ s.entities, ∀ c2 ∈ s.entities, ∀ b ∈ c1.attrs, b.redecl.isNone = true → declares c2 b.name = true → c1.name = c2.name

instance (s : Schema) : Decidable (DeclaredOnce s) := by unfold DeclaredOnce; infer_instance

theorem attrDeclarer_spec (s : Schema) (x : String) : ∀ (g : Nat) (c d : String), attrDeclarer s g c x = some d →
    isSelfOrSuper s g c d = true ∧ ∃ e, s.findE d = some e ∧ declares e x = true := by
  intro g
  induction g with
  | zero => intro c d h; simp [attrDeclarer] at h
  | succ g ih =>
    intro c d h
    unfold attrDeclarer at h
    cases hE : s.findE c with
    | none => simp [hE] at h
    | some e =>
      simp only [hE] at h
      by_cases hd : e.attrs.any (fun a => a.name == x && a.redecl.isNone) = true
      · simp only [hd, if_true, Option.some.injEq] at h
        subst h
        exact ⟨by unfold isSelfOrSuper; simp, e, hE, hd⟩
      · simp only [hd, Bool.false_eq_true, if_false] at h
        obtain ⟨p, hp, hps⟩ := List.exists_of_findSome?_eq_some h
        obtain ⟨i1, i2⟩ := ih p d hps
        refine ⟨?_, i2⟩
        unfold isSelfOrSuper
        simp only [hE, Bool.or_eq_true]
        exact Or.inr (List.any_eq_true.2 ⟨p, hp, i1⟩)

theorem declares_iff (c : Entity) (x : String) : declares c x = true ↔ ∃ b ∈ c.attrs, b.name = x ∧ b.redecl.isNone = true := by
  unfold declares
  simp only [List.any_eq_true, Bool.and_eq_true, beq_iff_eq]

/-- with every attribute name declared once, a redeclared name is declared in one line -/
theorem oneLine_of_declaredOnce {s : Schema} (rr : RedeclResolves s) (d1 : DeclaredOnce s) : RedeclNamesOneLine s := by
  intro e he a ha sup hsup c hc hcd
  obtain ⟨_, h2⟩ := rr e he a ha sup hsup
  obtain ⟨d, hd⟩ := Option.isSome_iff_exists.1 h2
  obtain ⟨i1, e', hE', hde'⟩ := attrDeclarer_spec s a.name (fuelOf s) sup d hd
  obtain ⟨b, hb, hbn, hbr⟩ := (declares_iff c a.name).1 hcd
  have := d1 c hc e' (findE_mem hE') b hb hbr (by rw [hbn]; exact hde')
  rw [this, findE_name hE']
  exact i1

/-- both conditions are decidable and hold on the plain shapes: `b SUBTYPE OF (a)` redeclaring `a.x` in its DERIVE clause and
    `d SUBTYPE OF (b)` redeclaring it again -/
example : let s : Schema :=
    { name := "s", entities := [{ name := "a", attrs := [{ name := "x", type := .base .integer }] },
                                 { name := "b", supers := ["a"],
                                   attrs := [{ name := "x", redecl := some "a", kind := .derived, type := .base .integer }] },
                                 { name := "d", supers := ["b"],
                                   attrs := [{ name := "x", redecl := some "a", type := .base .integer }] }] }
    RedeclResolves s ∧ RedeclNamesOneLine s ∧ DeclaredOnce s := by
  decide

/-- … and fail on the excluded shape: `x` declared by `p` and by `q`, `w` below both redeclaring `SELF\\q.x` -/
example : ¬ RedeclNamesOneLine
    { name := "s", entities := [{ name := "p", attrs := [{ name := "x", type := .base .integer }] },
                                 { name := "q", attrs := [{ name := "x", type := .base .integer }] },
                                 { name := "u", supers := ["p", "q"] },
                                 { name := "w", supers := ["u"],
                                   attrs := [{ name := "x", redecl := some "q", kind := .derived, type := .base .integer }] }] } := by
  decide

end StepModel.GenCxx

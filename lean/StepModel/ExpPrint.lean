import StepModel.Generated.ExpPrec
/-!
# `Express.Print` — model of exppp's layout engine and expression printer (property C07)

Layout layer (`src/exppp/exppp.c`): `exp_output`/`printedSpaceLast`, `raw`, `wrap`, `curpos`, `indent2`,
`exppp_linelength`, `breakLongStr` (`nextBreakpoint`, `shouldBreak`, `maybeBreak`), the tail of `real2exp`.
Structure layer (`src/exppp/pretty_expr.c`): `EXPR__out`, `EXPRop__out`, `EXPRop2__out`, `EXPRop1_out` as a function
from expressions to fragments (`Frag`), with the operator dispatch, tokens and padding taken from
`Generated.ExpPrec` (regenerated from the source on every run).

Numbers are `Nat`: `curpos`, `indent2`, `exppp_linelength` never go negative in the code that is modelled.
Not modelled: the 10000-byte `vsprintf` buffers of `wrap`/`raw` (property C06), output to a string buffer.
-/
namespace StepModel.Express
open StepModel.Generated

/-! ## operators -/

/-- two-operand operators created by the `expression` / `simple_expression` rules of expparse.y -/
inductive BinOp
  | and | or | xor | lt | gt | eq | le | ge | ne | instEq | instNe | in_ | like
  | concat | exp | times | div | realDiv | mod | plus | minus
  deriving DecidableEq, Repr, Inhabited

def BinOp.all : List BinOp :=
  [.and, .or, .xor, .lt, .gt, .eq, .le, .ge, .ne, .instEq, .instNe, .in_, .like,
   .concat, .exp, .times, .div, .realDiv, .mod, .plus, .minus]

/-- the `Op_Code` enumerator -/
def BinOp.code : BinOp → String
  | .and => "OP_AND" | .or => "OP_OR" | .xor => "OP_XOR" | .lt => "OP_LESS_THAN" | .gt => "OP_GREATER_THAN"
  | .eq => "OP_EQUAL" | .le => "OP_LESS_EQUAL" | .ge => "OP_GREATER_EQUAL" | .ne => "OP_NOT_EQUAL"
  | .instEq => "OP_INST_EQUAL" | .instNe => "OP_INST_NOT_EQUAL" | .in_ => "OP_IN" | .like => "OP_LIKE"
  | .concat => "OP_CONCAT" | .exp => "OP_EXP" | .times => "OP_TIMES" | .div => "OP_DIV"
  | .realDiv => "OP_REAL_DIV" | .mod => "OP_MOD" | .plus => "OP_PLUS" | .minus => "OP_MINUS"

def lookup2 (k : String) : List (String × String) → Option String
  | [] => none
  | (a, b) :: t => if a = k then some b else lookup2 k t

def rlookup2 (k : String) : List (String × String) → Option String
  | [] => none
  | (a, b) :: t => if b = k then some a else rlookup2 k t

/-- grammar token of the operator (`TOK_…`), from the rule that creates it -/
def BinOp.tokName (o : BinOp) : String :=
  ((rlookup2 o.code ExpPrec.exprRules).orElse fun _ => rlookup2 o.code ExpPrec.simpleRules).getD ""

/-- 0 : created by an `expression` rule; 1 : by a `simple_expression` rule (binds tighter than every `expression` operator) -/
def BinOp.stratum (o : BinOp) : Nat :=
  if (rlookup2 o.code ExpPrec.exprRules).isSome then 0 else 1

def precLevelOf (tok : String) : List (String × List String) → Nat → Option (Nat × String)
  | [], _ => none
  | (a, ts) :: rest, n => if ts.contains tok then some (n, a) else precLevelOf tok rest (n + 1)

/-- position of the operator's token in the `%left/%right` declarations (1 = lowest) -/
def BinOp.level (o : BinOp) : Nat := ((precLevelOf o.tokName ExpPrec.precDecls 1).map (·.1)).getD 0
def BinOp.rightAssoc (o : BinOp) : Bool := ((precLevelOf o.tokName ExpPrec.precDecls 1).map (·.2)) == some "right"
/-- binding power used by the precedence parser: stratum first, then declared level -/
def BinOp.bp (o : BinOp) : Nat := o.stratum * 16 + o.level

def dispatchOf (code : String) : List (String × String × String × Bool) → Option (String × String × Bool)
  | [] => none
  | (c, k, t, p) :: rest => if c = code then some (k, t, p) else dispatchOf code rest

/-- `EXPRop__out` sends the operator through `EXPRop2__out( …, previous_op )`: parentheses are omitted under an equal parent -/
def BinOp.omitSame (o : BinOp) : Bool := ((dispatchOf o.code ExpPrec.opDispatch).map (·.1)) == some "op2prev"
def BinOp.padded (o : BinOp) : Bool := ((dispatchOf o.code ExpPrec.opDispatch).map (·.2.2)).getD false
/-- printed token: the override string of the dispatch, else `EXPop_table[op].token` -/
def BinOp.text (o : BinOp) : String :=
  match dispatchOf o.code ExpPrec.opDispatch with
  | some (_, t, _) => if t = "" then (lookup2 o.code ExpPrec.opTable).getD "(* unknown op-expression *)" else t
  | none => "(* unknown op-expression *)"

/-! ## expressions -/

inductive Lit
  | int (n : Nat)
  | real (g : List Char)       -- the text `printf("%#.15g")` gives for the value
  | str (s : List Char)        -- value of a simple string literal (apostrophes not doubled)
  | estr (s : String) | bin (s : String)
  | ltrue | lfalse | lunknown | pi | e | infinity | self
  deriving DecidableEq, Repr, Inhabited

/-- Expressions as the parser builds them.  Argument lists and aggregate-initialiser item lists are the
`nil/cons/rep` spines (`rep e c t` : element `e` repeated `c` times, then `t`). -/
inductive Expr
  | lit (l : Lit) | ident (s : String)
  | bin (o : BinOp) (a b : Expr)
  | neg (a : Expr) | not (a : Expr)
  | dot (a : Expr) (f : String) | group (a : Expr) (f : String)
  | index (a i : Expr) | range (a i j : Expr)
  | query (v : String) (src cond : Expr)
  | call (f : String) (args : Expr) | aggr (items : Expr)
  | nil | cons (e t : Expr) | rep (e c t : Expr)
  deriving DecidableEq, Repr, Inhabited

/-! ## layout engine -/

inductive Frag
  | raw (s : List Char)       -- `raw( … )`
  | wrap (s : List Char)      -- `wrap( … )`
  | str (s : List Char) (paren : Bool := false)      -- `breakLongStr_paren( s, paren )`
  deriving Repr, DecidableEq

structure PState where
  pieces : List (List Char) := []      -- what `exp_output` was given, most recent first
  curpos : Nat := 1
  indent2 : Nat := 0
  linelen : Nat := ExpPrec.defaultLineLength
  spaceLast : Bool := false            -- `printedSpaceLast`
  deriving Repr

def PState.text (st : PState) : List Char := st.pieces.reverse.flatten

def lastIsSpace (s : List Char) (dflt : Bool) : Bool :=
  match s.getLast? with
  | some c => c == ' '
  | none => dflt

/-- number of characters after the last newline, if there is one -/
def afterNl : List Char → Option Nat
  | [] => none
  | c :: cs =>
    match afterNl cs with
    | some k => some k
    | none => if c = '\n' then some cs.length else none

/-- `curpos` after printing `s` (`strrchr( s, '\n' )`) -/
def advance (cur : Nat) (s : List Char) : Nat :=
  match afterNl s with
  | some k => k + 1
  | none => cur + s.length

/-- `exp_output`; `dflt` is what the byte before the buffer start is when the buffer is empty -/
def emit (st : PState) (s : List Char) (dflt : Bool) : PState :=
  { st with pieces := s :: st.pieces, spaceLast := lastIsSpace s dflt }

def raw (st : PState) (s : List Char) : PState :=
  { emit st s st.spaceLast with curpos := advance st.curpos s }

/-- the "eliminate leading whitespace" loop of `wrap` -/
def strip (sl : Bool) : List Char → List Char
  | [] => []
  | c :: rest => if c = ' ' ∧ (sl = true ∨ rest.head? = some ' ') then strip sl rest else c :: rest

def newlinePiece (n : Nat) : List Char := '\n' :: List.replicate n ' '

def wrapBreaks (st : PState) (len : Nat) : Bool :=
  (decide (st.curpos + len > st.linelen) && decide (st.indent2 + len < st.linelen))
    || (decide (st.linelen = st.indent2) && decide (st.curpos > st.indent2))

def wrap (st : PState) (s : List Char) : PState :=
  let s1 := strip st.spaceLast s
  let st1 := if wrapBreaks st s1.length
             then { emit st (newlinePiece st.indent2) false with curpos := st.indent2 }
             else st
  let s2 := strip st1.spaceLast s1
  { emit st1 s2 (decide (s2.length < s.length) || st1.spaceLast) with curpos := advance st1.curpos s2 }

/-- apostrophes doubled when the repaired `breakLongStr` does so -/
def escQ (s : List Char) : List Char :=
  if ExpPrec.stringQuoteDoubled then s.flatMap (fun c => if c = '\'' then ['\'', '\''] else [c]) else s

/-- `nextBreakpoint` applied repeatedly: pieces ending in '.', the last one possibly without -/
def splitDots : List Char → List (List Char)
  | [] => []
  | c :: cs =>
    if c = '.' then [c] :: splitDots cs
    else match splitDots cs with
      | [] => [[c]]
      | p :: ps => (c :: p) :: ps

def shouldBreak (st : PState) (len : Nat) : Bool :=
  decide (st.curpos > st.indent2) && decide (st.curpos + len > st.linelen)

def breakSepFirst (n : Nat) : List Char := newlinePiece n ++ ['\'']
def breakSep (n : Nat) : List Char := '\'' :: newlinePiece n ++ ['+', ' ', '\'']

def maybeBreak (st : PState) (len : Nat) (first : Bool) : PState :=
  if shouldBreak st len then
    if first then raw st (breakSepFirst st.indent2) else raw st (breakSep st.indent2)
  else if first then raw st (if st.spaceLast then ['\''] else [' ', '\''])
  else st

def breakPieces (st : PState) : List (List Char) → Bool → PState
  | [], _ => st
  | p :: ps, first => breakPieces (raw (maybeBreak st p.length first) p) ps false

/-- `literalSplits`: would the pieces, printed from column `cur`, be split into `'a' + 'b'` -/
def literalSplits (st : PState) : List (List Char) → Nat → Bool → Bool → Bool
  | [], _, _, _ => false
  | p :: ps, cur, sl, first =>
    if decide (cur > st.indent2) && decide (cur + p.length > st.linelen) then
      if first then literalSplits st ps (st.indent2 + 2 + p.length) sl false else true
    else literalSplits st ps ((if first then cur + (if sl then 1 else 2) else cur) + p.length) sl false

def openParen : List Char := ['(', ' ']

/-- does `breakLongStr_paren( s, paren )` on its split path put the literal in parentheses -/
def splitParen (st : PState) (ps : List (List Char)) (paren : Bool) : Bool :=
  paren && (literalSplits st ps (if wrapBreaks st 2 then st.indent2 + 2 else st.curpos + 2) true true
            || literalSplits st ps st.curpos st.spaceLast true)

def breakLongStr (st : PState) (s0 : List Char) (paren : Bool := false) : PState :=
  let s := escQ s0
  if s.length = 0 ∨ s.length + st.curpos < st.linelen then
    raw st ((if st.spaceLast then [] else [' ']) ++ ['\''] ++ s ++ ['\''])
  else
    let par := splitParen st (splitDots s) paren
    let st1 := if par then wrap st openParen else st
    raw (breakPieces st1 (splitDots s) true) (if par then ['\'', ' ', ')'] else ['\'', ' '])

def step (st : PState) : Frag → PState
  | .raw s => raw st s
  | .wrap s => wrap st s
  | .str s p => breakLongStr st s p

def run (st : PState) (fs : List Frag) : PState := fs.foldl step st

/-- the part of `real2exp` after `snprintf( "%#.*g", DBL_DIG, r )`: trailing zeros of the mantissa are removed -/
def real2exp (g : List Char) : List Char :=
  let intPart := g.takeWhile (· ≠ '.')
  match g.dropWhile (· ≠ '.') with
  | [] => g
  | _ :: rest =>
    let frac := rest.takeWhile Char.isDigit
    let tail := rest.dropWhile Char.isDigit
    let keep := (frac.reverse.dropWhile (· = '0')).reverse
    if keep.length = frac.length then g
    else if keep.isEmpty && tail.isEmpty then (if ExpPrec.realDropsPoint then intPart else intPart ++ ['.'])
    else intPart ++ ['.'] ++ keep ++ tail

/-! ## expression printer -/

/-- repetition flags sitting on the parser's shared literal nodes `0`, `1`, `?` -/
structure Shared where
  zero : Bool := false
  one : Bool := false
  inf : Bool := false
  deriving Repr, DecidableEq

def Shared.clean : Shared := {}

def W (s : String) : Frag := .wrap s.toList
def R (s : String) : Frag := .raw s.toList

def litFrag (strParen : Bool := false) : Lit → Frag
  | .int n => W (toString n)
  | .real g => .wrap (real2exp g)
  | .str s => .str s (strParen && ExpPrec.splitLiteralParen)
  | .estr s => W ("\"" ++ s ++ "\"")
  | .bin s => W ("%" ++ (if ExpPrec.binaryPrintedFrom = ExpPrec.binaryStoredIn then s else "(null)"))
  | .ltrue => W "TRUE" | .lfalse => W "FALSE" | .lunknown => W "UNKNOWN"
  | .pi => W ExpPrec.piText | .e => W ExpPrec.eText | .infinity => W "?" | .self => W "SELF"

/-- does this element carry the `repeat` flag although it is not a count -/
def sharedRep (sh : Shared) : Expr → Bool
  | .lit (.int 0) => sh.zero
  | .lit (.int 1) => sh.one
  | .lit .infinity => sh.inf
  | _ => false

/-- `previous_op` that `EXPRop2__out` hands to its RIGHT operand: its own operator (then a right operand with the same operator
loses its parentheses) or `OP_UNKNOWN` — regenerated -/
def rprev (o : BinOp) : Option BinOp := if ExpPrec.rightOperandSeesParent then some o else none

/-- a right operand with the same operator continues the chain without parentheses -/
def BinOp.chainR (o : BinOp) : Bool := o.omitSame && ExpPrec.rightOperandSeesParent

def binParen (o : BinOp) (paren : Bool) (prev : Option BinOp) : Bool :=
  o.padded && paren && (!o.omitSame || prev != some o)

/-- a count whose own type was overwritten with the integer type `Type_Repeat` is printed with "%d" from `u.integer` -/
def countFrag : Expr → Frag
  | .lit (.int n) => W (toString n)
  | .lit .infinity => W "?"
  | _ => W "0"

/-- `EXPRindex_paren`: the paren argument for an index operand -/
def indexParen : Expr → Bool
  | .bin o _ _ => ExpPrec.indexParenOps.contains o.code
  | _ => false

mutual
/-- `EXPR__out( e, paren, previous_op )` -/
def exprFrags (sh : Shared) : Expr → Bool → Option BinOp → List Frag
  | .lit l, paren, prev => [litFrag (paren && prev != some .plus) l]
  | .ident s, _, _ => [W s]
  | .bin o a b, paren, prev =>
    (if binParen o paren prev then [W "( "] else [])
      ++ exprFrags sh a true (some o) ++ (if o.padded then [R " "] else []) ++ [W o.text]
      ++ (if o.padded then [W " "] else []) ++ exprFrags sh b true (rprev o)
      ++ (if binParen o paren prev then [R " )"] else [])
  | .neg a, paren, _ =>
    (if paren then [W "( "] else []) ++ [W "-"] ++ exprFrags sh a true none ++ (if paren then [R " )"] else [])
  | .not a, paren, _ =>
    (if paren then [W "( "] else []) ++ [W "NOT "] ++ exprFrags sh a true none ++ (if paren then [R " )"] else [])
  | .dot a f, _, _ => exprFrags sh a true none ++ [W ".", W f]
  | .group a f, _, _ => exprFrags sh a true none ++ [W "\\", W f]
  | .index a i, _, _ => exprFrags sh a true none ++ [W "["] ++ exprFrags sh i (indexParen i) none ++ [R "]"]
  | .range a i j, _, _ =>
    exprFrags sh a true none ++ [W "["] ++ exprFrags sh i (indexParen i) none ++ [W " : "] ++ exprFrags sh j (indexParen j) none ++ [R "]"]
  | .query v s c, _, _ =>
    [W ("QUERY ( " ++ v ++ " <* ")] ++ exprFrags sh s true none ++ [W " | "] ++ exprFrags sh c true none ++ [R " )"]
  | .call f args, _, _ => [W (f ++ "( ")] ++ argFrags sh args true ++ [R " )"]
  | .aggr items, _, _ => [W "["] ++ itemFrags sh items true ++ [R "]"]
  | .nil, _, _ => []
  | .cons _ _, _, _ => []
  | .rep _ _ _, _, _ => []
/-- arguments of a function call -/
def argFrags (sh : Shared) : Expr → Bool → List Frag
  | .cons e t, first => (if first then [] else [R ", "]) ++ exprFrags sh e false none ++ argFrags sh t false
  | _, _ => []
/-- elements of an aggregate initialiser; the separator before an element is " : " when the element carries the repeat flag -/
def itemFrags (sh : Shared) : Expr → Bool → List Frag
  | .cons e t, first =>
    (if first then [] else [R (if sharedRep sh e then " : " else ", ")]) ++ exprFrags sh e false none ++ itemFrags sh t false
  | .rep e c t, first =>
    (if first then [] else [R (if sharedRep sh e then " : " else ", ")]) ++ exprFrags sh e false none ++ [R " : "]
      ++ (if ExpPrec.repeatOverwritesCountType then
            -- the count's own type was overwritten with the integer type `Type_Repeat`: it is printed with "%d" from `u.integer`
            [countFrag c]
          else exprFrags sh c false none)
      ++ itemFrags sh t false
  | _, _ => []
end

/-- which shared literal nodes get the repeat flag while this expression is parsed -/
def sharedOf : Expr → Shared
  | .bin _ a b => or3 (sharedOf a) (sharedOf b)
  | .neg a | .not a | .dot a _ | .group a _ => sharedOf a
  | .index a i => or3 (sharedOf a) (sharedOf i)
  | .range a i j => or3 (sharedOf a) (or3 (sharedOf i) (sharedOf j))
  | .query _ s c => or3 (sharedOf s) (sharedOf c)
  | .call _ args => sharedOf args
  | .aggr items => sharedOf items
  | .cons e t => or3 (sharedOf e) (sharedOf t)
  | .rep e c t =>
    or3 (or3 (sharedOf e) (sharedOf t))
      (match c with
       | .lit (.int 0) => { zero := true }
       | .lit (.int 1) => { one := true }
       | .lit .infinity => { inf := true }
       | _ => sharedOf c)
  | _ => {}
where or3 (a b : Shared) : Shared := ⟨a.zero || b.zero, a.one || b.one, a.inf || b.inf⟩

end StepModel.Express

import StepModel.GenCxx
/-!
# Which entities a SELECT type can hold (C02)

`src/clstepcore/selectTypeDescriptor.cc` `SelectTypeDescriptor::CanBe( const TypeDescriptor * )`, `CanBe( const char * )`,
`CanBeSet( const char *, schNm )`, `entityDescriptor.h` `EntityDescriptor::CanBe` (= the other `IsA` this), `EntityDescriptor::IsA`
(the entity or one of its supertypes, transitively), `TypeDescriptor::CanBe/CanBeSet` (a defined type that is not a select only
matches itself), asked with an ENTITY as the argument.  The element list of a select descriptor is the member list of the select
declaration its name stands for (a renamed select `TYPE r = sel;` has a select descriptor of its own with `sel`'s members).
-/
namespace StepModel.GenCxx
open StepModel.Generated

/-- the member list of the SELECT a type name stands for, through renames -/
def selectMembers (s : Schema) (t : String) : Option (List TRef) :=
  match resolve s (s.types.length + 1) t with
  | some td => (match td.body with
      | .select ms => some ms
      | _ => none)
  | none => none

/-- declared as a SELECT itself (not a rename of one): `Type() == sdaiSELECT` -/
def isPlainSelect (s : Schema) (t : String) : Bool :=
  match s.findT t with
  | some td => (match td.body with
      | .select _ => true
      | _ => false)
  | none => false

/-- `t->CanBe( e_desc )`: some member is an entity that `e` is (a subtype of), or a select that can be `e` (every element is asked
    in turn — regenerated `selectCanBeRecurses`) -/
def canBeTd (s : Schema) : Nat → String → String → Bool
  | 0, _, _ => false
  | f + 1, t, e =>
    match selectMembers s t with
    | some ms => ms.any (fun m => match m with
        | .entity m' => isSelfOrSuper s (fuelOf s) e m'
        | .named n => selectCanBeRecurses && canBeTd s f n e
        | _ => false)
    | none => false

/-- `t->CanBe( "E" )`: by name — a member entity named so, at any select nesting depth (subtypes do not count) -/
def canBeName (s : Schema) : Nat → String → String → Bool
  | 0, _, _ => false
  | f + 1, t, e =>
    match selectMembers s t with
    | some ms => ms.any (fun m => match m with
        | .entity m' => m' == e
        | .named n => canBeName s f n e
        | _ => false)
    | none => false

/-- `t->CanBeSet( "E", 0 )`: as `CanBe( "E" )`, but a member that is a RENAMED select is not looked into (ISO 10303-21 TC: its
    name has to be written, so its members are not choices of this select) -/
def canBeSet (s : Schema) : Nat → String → String → Bool
  | 0, _, _ => false
  | f + 1, t, e =>
    match selectMembers s t with
    | some ms => ms.any (fun m => match m with
        | .entity m' => m' == e
        | .named n => isPlainSelect s n && canBeSet s f n e
        | _ => false)
    | none => false

def selectFuel (s : Schema) : Nat := s.types.length + 1

end StepModel.GenCxx

import StepModel.WsBytesLemmas
import StepModel.P21.ReaderLemmas18
/-!
The byte-level working-session layer (`StepModel/WsBytes.lean`) over ABSTRACT records: the loops of both passes proved for the
`Item`s of the C01/C03 lemma base (`P21/ReaderLemmas18.lean`: a record is its text, its layout, the instance pass 1 makes and
the instance pass 2 leaves, with the two record-level facts `Item1OK` / `Item2OK`), so that every record shape the C01 reader
theorems cover — internally and externally mapped — is covered at text level in a working-session file as well.
-/
namespace StepModel.WsBytes
open StepModel StepModel.IStream StepModel.P21 StepModel.P21.Lemmas StepModel.P21.Grammar StepModel.P21.RLemmas

variable {F : Type}

/-- entries of a working-session DATA section over abstract records -/
def wsRenderI : List (Letter × Item F) → List Byte → List Byte
  | [], fin => fin
  | (L, x) :: xs, fin => L.byte :: 35 :: (x.body ++ (x.g ++ wsRenderI xs fin))

theorem wsRenderI_head (xs : List (Letter × Item F)) (sp tail : List Byte) :
    ∃ c k, wsRenderI xs (endsec sp tail) = c :: k ∧ isSpace c = false ∧ c ≠ 47 ∧ c ≠ 92 := by
  cases xs with
  | nil => exact ⟨69, _, rfl, by decide, by decide, by decide⟩
  | cons x xs =>
    obtain ⟨L, y⟩ := x
    obtain ⟨h1, h2, h3, _, _, _⟩ := letter_facts L
    exact ⟨L.byte, _, rfl, h1, h2, h3⟩

theorem wsRenderI_length (xs : List (Letter × Item F)) (fin : List Byte) : xs.length ≤ (wsRenderI xs fin).length := by
  induction xs with
  | nil => simp
  | cons x xs ih =>
    obtain ⟨L, y⟩ := x
    simp only [wsRenderI, List.length_cons, List.length_append]; omega

theorem foundEndSec_wsgapI (g : List Byte) (hg : Seps g) (rs : List (Letter × Item F)) (sp tail : List Byte)
    (hsp : sp.all isSpace = true) (l : List Byte) (sk : Bool) :
    (rs = [] ∧ ∃ l', foundEndSec (G l (g ++ wsRenderI rs (endsec sp tail)) sk) = (true, G l' tail sk)) ∨
    (∃ l' t, Seps t ∧ foundEndSec (G l (g ++ wsRenderI rs (endsec sp tail)) sk) = (false, G l' (t ++ wsRenderI rs (endsec sp tail)) sk)) := by
  obtain ⟨sp0, t, hgt, hsp0, ht, htc⟩ := hg.split
  rcases htc with rfl | ⟨u, rfl⟩
  · cases rs with
    | nil =>
      left
      refine ⟨rfl, ?_⟩
      rw [hgt]
      simpa [wsRenderI] using foundEndSec_yes l sp0 sp tail sk hsp0 hsp
    | cons x rs =>
      right
      obtain ⟨L, y⟩ := x
      obtain ⟨h1, _, _, h69, _, _⟩ := letter_facts L
      refine ⟨sp0.reverse ++ l, [], Seps.blanks [] (by simp), ?_⟩
      rw [hgt]
      simpa [wsRenderI] using foundEndSec_no l sp0 L.byte _ sk hsp0 h1 h69
  · right
    refine ⟨sp0.reverse ++ l, 47 :: u, ht, ?_⟩
    rw [hgt]
    simpa using foundEndSec_no l sp0 47 (u ++ wsRenderI rs (endsec sp tail)) sk hsp0 (by decide) (by decide)

/-- the instance pass 1 appends / pass 2 leaves for an entry -/
def wsMkI (x : Letter × Item F) : MInst F := { x.2.mkI with state := x.1.state }
def wsOutI (x : Letter × Item F) : MInst F := { x.2.out with state := x.1.state }

/-! ### pass 1 -/

theorem wsData1Loop_items (cfg : RWCfg) (d : Dict) (sp tail : List Byte) (hsp : sp.all isSpace = true) :
    ∀ (rs : List (Letter × Item F)) (st : P1 F) (g0 l : List Byte) (fuel : Nat),
      Seps g0 → st.s = G l (g0 ++ wsRenderI rs (endsec sp tail)) false → rs.length + 2 ≤ fuel →
      (∀ x ∈ rs, x.1 ≠ .D ∧ Item1OK cfg d x.2) → (rs.map (·.2.id)).Nodup → (∀ i ∈ st.mgr.insts, ∀ x ∈ rs, i.id ≠ x.2.id) →
      ∃ l', wsData1Loop cfg d fuel st false =
        .ok { mgr := { insts := st.mgr.insts ++ rs.map wsMkI }, count := st.count + rs.length,
              notCreated := st.notCreated, s := G l' tail false } := by
  intro rs
  induction rs with
  | nil =>
    intro st g0 l fuel hg0 hs hf _ _ _
    obtain ⟨l', h⟩ := wsData1Loop_end cfg d st g0 l sp tail hg0 hsp hs fuel (by simpa using hf)
    exact ⟨l', by simpa using h⟩
  | cons x rs ih =>
    intro st g0 l fuel hg0 hs hf hok hnd hfresh
    obtain ⟨L, y⟩ := x
    obtain ⟨hLD, hg, hmkid, hstep⟩ := hok (L, y) (by simp)
    obtain ⟨hLs, hL47, hL92, _, _, _⟩ := letter_facts L
    match fuel, hf with
    | n + 1, hf =>
      obtain ⟨c, k, hKe, hcs1, hcs2, hcs3⟩ := wsRenderI_head rs sp tail
      have hnone : st.mgr.find? y.id = none := find?_none st.mgr y.id (fun i hi => hfresh i hi (L, y) (by simp))
      obtain ⟨l1, hci⟩ := hstep st.mgr hnone (35 :: L.byte :: (g0.reverse ++ l)) c k hcs1 hcs2 hcs3
      rw [← hKe] at hci
      unfold wsData1Loop
      rw [hs]
      simp only [G_good, Bool.not_false, Bool.and_self, if_true, bind, Except.bind, wsRenderI]
      simp only [readTokenSeparator_seps g0 hg0 l L.byte _ false hLs hL47 hL92, shiftInto_ns, prefixStep_letter,
        bne_self_eq_false, Bool.false_eq_true, if_false, pure, Except.pure, Option.getD_some, hLD, hci]
      have hnd' : (rs.map (·.2.id)).Nodup := (List.nodup_cons.mp hnd).2
      have hrid : ∀ x ∈ rs, y.id ≠ x.2.id := by
        intro x hx heq
        exact (List.nodup_cons.mp hnd).1 (by
          show y.id ∈ _; rw [heq]; exact List.mem_map_of_mem (f := fun x : Letter × Item F => x.2.id) hx)
      rcases foundEndSec_wsgapI [] (Seps.blanks [] (by simp)) rs sp tail hsp l1 false with ⟨hnil, l2, hfe⟩ | ⟨l2, t, ht, hfe⟩
      · simp only [List.nil_append] at hfe
        rw [hfe]
        subst hnil
        refine ⟨l2, ?_⟩
        obtain ⟨m, rfl⟩ : ∃ m, n = m + 1 := ⟨n - 1, by simp only [List.length_cons] at hf; omega⟩
        unfold wsData1Loop
        simp [wsMkI]
        rfl
      · simp only [List.nil_append] at hfe
        rw [hfe]
        simp only
        obtain ⟨l3, hih⟩ := ih (⟨⟨st.mgr.insts ++ [wsMkI (L, y)]⟩, st.count + 1, st.notCreated,
            G l2 (t ++ wsRenderI rs (endsec sp tail)) false⟩ : P1 F) t l2 n ht rfl
          (by simp only [List.length_cons] at hf; omega) (fun x hx => hok x (by simp [hx])) hnd'
          (by
            intro i hi x hx
            simp only [List.mem_append, List.mem_singleton] at hi
            rcases hi with hi | rfl
            · exact hfresh i hi x (by simp [hx])
            · show y.mkI.id ≠ x.2.id
              rw [hmkid]; exact hrid x hx)
        refine ⟨l3, ?_⟩
        have hw : ({ y.mkI with state := L.state } : MInst F) = wsMkI (L, y) := rfl
        simp only [hw]
        rw [hih]
        simp [Nat.add_assoc, Nat.add_comm 1]

/-! ### pass 2 -/

/-- `ReadInstance` on one entry: the record-level fact of the C01 reader, run on the manager viewed as new, the state kept -/
theorem wsReadInstance_item (ops : FloatOps F) (lex : LexCfg) (cfg : RWCfg) (d : Dict) (strict : Bool) (lk : Lookup)
    (L : Letter) (x : Item F) (hx : Item2OK ops lex cfg d strict lk x) (hnew : x.mkI.state = .new)
    (st : P2 F) (l rest : List Byte) (sk : Bool) (hs : st.s = G l (x.body ++ rest) sk)
    (hfind : st.mgr.find? x.id = some (wsMkI (L, x))) (hlk : Mgr.lookup d st.mgr = lk) :
    ∃ l' sk', wsReadInstance ops lex cfg d strict st =
      .ok { s := G l' rest sk', inst := some (wsOutI (L, x)), reported := some x.sev, left := some .null } := by
  obtain ⟨_, _, hoid, _, hstep⟩ := hx
  have hfv : (viewNew st.mgr).find? x.id = some x.mkI := by
    rw [find?_viewNew, hfind]
    show some ({ wsMkI (L, x) with state := NState.new } : MInst F) = some x.mkI
    cases hm : x.mkI with
    | mk id parts complex state =>
      rw [hm] at hnew
      simp only at hnew
      subst hnew
      simp [wsMkI, hm]
  obtain ⟨l', sk', h⟩ := hstep { st with mgr := viewNew st.mgr } l rest sk hfv (by rw [lookup_viewNew]; exact hlk) hs
  refine ⟨l', sk', ?_⟩
  unfold wsReadInstance
  simp only [bind, Except.bind, h, pure, Except.pure, Option.map_some]
  have hf' : st.mgr.find? x.out.id = some (wsMkI (L, x)) := by rw [hoid]; exact hfind
  rw [hf']
  rfl

theorem wsData2Loop_items (ops : FloatOps F) (lex : LexCfg) (cfg : RWCfg) (d : Dict) (strict : Bool) (lk : Lookup)
    (sp tail : List Byte) (hsp : sp.all isSpace = true) :
    ∀ (xs : List (Letter × Item F)) (st : P2 F) (pre : List (MInst F)) (g0 l : List Byte) (sk del : Bool) (fuel : Nat),
      Seps g0 → st.s = G l (g0 ++ wsRenderI xs (endsec sp tail)) sk → xs.length + 2 ≤ fuel →
      st.mgr.insts = pre ++ xs.map wsMkI → (∀ i ∈ pre, ∀ x ∈ xs, i.id ≠ x.2.id) → (xs.map (·.2.id)).Nodup →
      Mgr.lookup d st.mgr = lk →
      (∀ x ∈ xs, x.1 ≠ .D ∧ x.2.mkI.state = .new ∧ Item2OK ops lex cfg d strict lk x.2) →
      ∃ st', wsData2Loop ops lex cfg d strict fuel st del false = .ok st' ∧
        P2Items st st' (pre ++ xs.map wsOutI) (xs.map (·.2)) tail := by
  intro xs
  induction xs with
  | nil =>
    intro st pre g0 l sk del fuel hg0 hs hf hm _ _ _ _
    obtain ⟨l', h⟩ := wsData2Loop_end ops lex cfg d strict st g0 l sp tail sk del hg0 hsp hs fuel (by simpa using hf)
    exact ⟨_, h, ⟨by simpa using hm, rfl, rfl, rfl, rfl, rfl, ⟨l', sk, rfl⟩, by simp⟩⟩
  | cons x xs ih =>
    intro st pre g0 l sk del fuel hg0 hs hf hm hfresh hnd hlk hok
    obtain ⟨L, y⟩ := x
    obtain ⟨hLD, hnew, hy⟩ := hok (L, y) (by simp)
    have hy' := hy
    obtain ⟨hg, hmkid, hid0, hkey, _⟩ := hy'
    obtain ⟨hLs, hL47, hL92, _, _, _⟩ := letter_facts L
    have hLD' : decide (L = Letter.D) = false := by simpa using hLD
    have hnd' : (xs.map (·.2.id)).Nodup := (List.nodup_cons.mp hnd).2
    have hrid : ∀ z ∈ xs, y.id ≠ z.2.id := by
      intro z hz heq
      exact (List.nodup_cons.mp hnd).1 (by
        show y.id ∈ _; rw [heq]; exact List.mem_map_of_mem (f := fun z : Letter × Item F => z.2.id) hz)
    have hmgr : st.mgr = { insts := pre ++ wsMkI (L, y) :: xs.map wsMkI } := Mgr.eq_of_insts _ _ hm
    have hmkid' : (wsMkI (L, y)).id = y.id := hmkid
    have hpre : ∀ i ∈ pre, i.id ≠ (wsMkI (L, y)).id := fun i hi => by rw [hmkid']; exact hfresh i hi (L, y) (by simp)
    have hpost : ∀ i ∈ xs.map wsMkI, i.id ≠ (wsMkI (L, y)).id := by
      intro i hi
      obtain ⟨z, hz, rfl⟩ := List.mem_map.mp hi
      obtain ⟨_, _, _, hzmk, _⟩ := hok z (by simp [hz])
      show z.2.mkI.id ≠ _
      rw [hzmk, hmkid']
      exact fun h => hrid z hz h.symm
    have hoid : (wsOutI (L, y)).id = (wsMkI (L, y)).id := by
      show y.out.id = y.mkI.id
      rw [hid0, hmkid]
    match fuel, hf with
    | n + 1, hf =>
      obtain ⟨l1, sk1, hri⟩ := wsReadInstance_item ops lex cfg d strict lk L y hy hnew
        { st with s := G (35 :: L.byte :: (g0.reverse ++ l)) (y.body ++ (y.g ++ wsRenderI xs (endsec sp tail))) sk } _ _ sk rfl
        (by show st.mgr.find? _ = _; rw [hmgr, ← hmkid']; exact find?_mid pre _ (wsMkI (L, y)) hpre) hlk
      have hupd : st.mgr.update (wsOutI (L, y)) = { insts := pre ++ wsOutI (L, y) :: xs.map wsMkI } := by
        rw [hmgr]; exact update_mid pre _ (wsMkI (L, y)) (wsOutI (L, y)) hoid hpre hpost
      unfold wsData2Loop
      rw [hs]
      simp only [G_good, Bool.not_false, Bool.and_self, if_true, bind, Except.bind, wsRenderI]
      simp only [readTokenSeparator_seps g0 hg0 l L.byte _ sk hLs hL47 hL92, shiftInto_good 0 _ L.byte _ sk hLs,
        prefixStep_letter, bne_self_eq_false, Bool.false_eq_true, if_false, pure, Except.pure, hLD', hri]
      have hap : applyOutcome st
          { s := G l1 (y.g ++ wsRenderI xs (endsec sp tail)) sk1, inst := some (wsOutI (L, y)),
            reported := some y.sev, left := some .null } =
          { st with mgr := st.mgr.update (wsOutI (L, y)), fileErr := appendEntityError st.fileErr y.sev,
                    reported := y.sev :: st.reported,
                    s := G l1 (y.g ++ wsRenderI xs (endsec sp tail)) sk1, total := st.total + 1, valid := st.valid + 1 } := rfl
      rw [hap, hupd]
      rcases foundEndSec_wsgapI y.g hg xs sp tail hsp l1 sk1 with ⟨hnil, l2, hfe⟩ | ⟨l2, t, ht, hfe⟩
      · simp only [hfe]
        subst hnil
        obtain ⟨m, rfl⟩ : ∃ m, n = m + 1 := ⟨n - 1, by simp only [List.length_cons] at hf; omega⟩
        unfold wsData2Loop
        simp only [G_good, Bool.not_true, Bool.and_false, Bool.false_eq_true, if_false, pure, Except.pure]
        exact ⟨_, rfl, ⟨by simp, by simp [errAfterI], rfl, rfl, rfl, rfl, ⟨l2, sk1, rfl⟩, by simp⟩⟩
      · simp only [hfe]
        obtain ⟨st', hrun, hdone⟩ := ih
          ({ st with mgr := { insts := pre ++ wsOutI (L, y) :: xs.map wsMkI },
                     fileErr := appendEntityError st.fileErr y.sev, reported := y.sev :: st.reported,
                     s := G l2 (t ++ wsRenderI xs (endsec sp tail)) sk1, total := st.total + 1, valid := st.valid + 1 } : P2 F)
          (pre ++ [wsOutI (L, y)]) t l2 sk1 false n ht rfl (by simp only [List.length_cons] at hf; omega) (by simp)
          (by
            intro i hi z hz
            simp only [List.mem_append, List.mem_singleton] at hi
            rcases hi with hi | rfl
            · exact hfresh i hi z (by simp [hz])
            · show y.out.id ≠ z.2.id
              rw [hid0]; exact hrid z hz)
          hnd'
          (by
            rw [← hlk, hmgr]
            apply lookup_congr
            have : keyOf (wsOutI (L, y)) = keyOf (wsMkI (L, y)) := hkey
            simp only [List.map_append, List.map_cons, this])
          (fun z hz => hok z (by simp [hz]))
        refine ⟨st', hrun, ⟨?_, ?_, ?_, ?_, ?_, ?_, hdone.s, ?_⟩⟩
        · rw [hdone.mgr]; simp
        · rw [hdone.err]; simp [errAfterI]
        · rw [hdone.total]; simp only [List.length_cons, List.map_cons]; omega
        · rw [hdone.valid]; simp only [List.length_cons, List.map_cons]; omega
        · rw [hdone.invalid]
        · rw [hdone.incomplete]
        · rw [hdone.rep]; simp

/-! ### both passes -/

theorem wsData1_items (cfg : RWCfg) (d : Dict) (sp tail : List Byte)
    (hsp : sp.all isSpace = true) (rs : List (Letter × Item F)) (g0 : List Byte) (hg0 : Seps g0)
    (hok : ∀ x ∈ rs, x.1 ≠ .D ∧ Item1OK cfg d x.2) (hnd : (rs.map (·.2.id)).Nodup) :
    ∃ l', wsData1 (F := F) cfg d { right := g0 ++ wsRenderI rs (endsec sp tail), skipws := false } =
      .ok { mgr := { insts := rs.map wsMkI }, count := rs.length, notCreated := 0, s := G l' tail false } := by
  unfold wsData1
  rcases foundEndSec_wsgapI g0 hg0 rs sp tail hsp [] false with ⟨hnil, l2, hfe⟩ | ⟨l2, t, ht, hfe⟩
  · have hfe' : foundEndSec { right := g0 ++ wsRenderI rs (endsec sp tail), skipws := false } = (true, G l2 tail false) := hfe
    rw [hfe']
    subst hnil
    refine ⟨l2, ?_⟩
    simp only
    unfold wsData1Loop
    simp
    rfl
  · have hfe' : foundEndSec { right := g0 ++ wsRenderI rs (endsec sp tail), skipws := false } =
        (false, G l2 (t ++ wsRenderI rs (endsec sp tail)) false) := hfe
    rw [hfe']
    simp only
    obtain ⟨l3, h⟩ := wsData1Loop_items cfg d sp tail hsp rs
      (⟨{}, 0, 0, G l2 (t ++ wsRenderI rs (endsec sp tail)) false⟩ : P1 F) t l2
      ((t ++ wsRenderI rs (endsec sp tail)).length + 3) ht rfl
      (by have := wsRenderI_length rs (endsec sp tail); simp only [List.length_append]; omega) hok hnd
      (by intro i hi; simp at hi)
    refine ⟨l3, ?_⟩
    simpa using h

/-- the two passes of a working-session read over the text of entries `L#<record>` whose records are ANY items with the two
    record-level facts of the C01 reader (internally or externally mapped), `L` one of C, I, N -/
theorem wsReadData_items (ops : FloatOps F) (lex : LexCfg) (cfg : RWCfg) (d : Dict) (strict : Bool)
    (sp tail : List Byte) (hsp : sp.all isSpace = true)
    (rs : List (Letter × Item F)) (g0 : List Byte) (hg0 : Seps g0)
    (h1 : ∀ x ∈ rs, x.1 ≠ .D ∧ Item1OK cfg d x.2) (hnd : (rs.map (·.2.id)).Nodup)
    (h2 : ∀ x ∈ rs, x.2.mkI.state = .new ∧
      Item2OK ops lex cfg d strict (Mgr.lookup d ({ insts := rs.map wsMkI } : Mgr F)) x.2) :
    ∃ p1 p2, wsReadData ops lex cfg d strict (g0 ++ wsRenderI rs (endsec sp tail)) = .ok (p1, p2) ∧
      p2.mgr.insts = rs.map wsOutI ∧ p1.count = rs.length ∧ p1.notCreated = 0 ∧
      p2.fileErr = errAfterI .null (rs.map (·.2)) ∧ p2.valid = rs.length ∧ p2.invalid = 0 ∧ p2.incomplete = 0 ∧
      (∃ l' sk', p2.s = G l' tail sk') := by
  obtain ⟨l1, hp1⟩ := wsData1_items cfg d sp tail hsp rs g0 hg0 h1 hnd
  unfold wsReadData
  simp only [bind, Except.bind, hp1, Nat.lt_irrefl, gt_iff_lt, if_false, pure, Except.pure]
  have key : ∃ st', wsData2Loop ops lex cfg d strict
      ((foundEndSec { right := g0 ++ wsRenderI rs (endsec sp tail), skipws := false }).2.right.length + 3)
      { mgr := { insts := rs.map wsMkI }, fileErr := .null, total := 0, valid := 0, invalid := 0, incomplete := 0,
        warnings := 0, s := (foundEndSec { right := g0 ++ wsRenderI rs (endsec sp tail), skipws := false }).2 } false
      (foundEndSec { right := g0 ++ wsRenderI rs (endsec sp tail), skipws := false }).1 = .ok st' ∧
      st'.mgr.insts = rs.map wsOutI ∧ st'.fileErr = errAfterI .null (rs.map (·.2)) ∧ st'.valid = rs.length ∧ st'.invalid = 0 ∧
      st'.incomplete = 0 ∧ (∃ l' sk', st'.s = G l' tail sk') := by
    rcases foundEndSec_wsgapI g0 hg0 rs sp tail hsp [] false with ⟨hnil, l2, hfe⟩ | ⟨l2, t, ht, hfe⟩
    · have hfe' : foundEndSec { right := g0 ++ wsRenderI rs (endsec sp tail), skipws := false } = (true, G l2 tail false) := hfe
      rw [hfe']
      subst hnil
      refine ⟨({ mgr := { insts := [] }, fileErr := .null, total := 0, valid := 0, invalid := 0, incomplete := 0,
                 warnings := 0, s := G l2 tail false } : P2 F), ?_, ?_⟩
      · simp only
        unfold wsData2Loop
        simp only [G_good, Bool.not_true, Bool.and_false, Bool.false_eq_true, if_false, pure, Except.pure]
        rfl
      · exact ⟨rfl, rfl, rfl, rfl, rfl, ⟨l2, false, rfl⟩⟩
    · have hfe' : foundEndSec { right := g0 ++ wsRenderI rs (endsec sp tail), skipws := false } =
          (false, G l2 (t ++ wsRenderI rs (endsec sp tail)) false) := hfe
      rw [hfe']
      obtain ⟨st', hrun, hdone⟩ := wsData2Loop_items ops lex cfg d strict
        (Mgr.lookup d ({ insts := rs.map wsMkI } : Mgr F)) sp tail hsp rs
        ({ mgr := { insts := rs.map wsMkI }, fileErr := .null, total := 0, valid := 0, invalid := 0, incomplete := 0,
           warnings := 0, s := G l2 (t ++ wsRenderI rs (endsec sp tail)) false } : P2 F) [] t l2 false false
        ((t ++ wsRenderI rs (endsec sp tail)).length + 3) ht rfl
        (by have := wsRenderI_length rs (endsec sp tail); simp only [List.length_append]; omega)
        (by simp) (by intro i hi; simp at hi) hnd rfl (fun x hx => ⟨(h1 x hx).1, (h2 x hx).1, (h2 x hx).2⟩)
      refine ⟨st', hrun, ?_, hdone.err, ?_, hdone.invalid, hdone.incomplete, hdone.s⟩
      · simpa using hdone.mgr
      · simpa using hdone.valid
  obtain ⟨st', hrun, hm, herr, hv, hinv, hinc, hs⟩ := key
  rw [hrun]
  exact ⟨_, _, rfl, hm, rfl, rfl, herr, hv, hinv, hinc, hs⟩

end StepModel.WsBytes

import StepModel.Generated.CxxPassGen
/-!
# exp2cxx's pass decision for a self-contained schema (src/exp2cxx/multpass.c)

`print_schemas_separate` calls `checkTypes` / `checkEnts` for a schema; an object marked CANTPROCESS sets the schema back to
UNPROCESSED, and a schema that is still UNPROCESSED after its first visit is printed with the suffixes `_1`, `_2`, …
(`SCHEMAprint(schema, …, suffix)`), otherwise once with suffix 0.  For a schema all of whose types, supertypes and
attribute types are its own (`sameSchema` / `inSchema` always true) the model keeps everything that can make a mark
CANTPROCESS: `ENUMcanBeProcessed` (its last case regenerated from the C source: `EnumLastCase`), `checkItem`, `markDescs`,
one visit of a type / an entity, a sweep over the symbol table in *any* order, any number of sweeps (the
`do … while( unknowncnt > 0 )` loop).  Same structure as the exp2python copy modelled in `GenPyPass.lean` (C18).
-/
namespace StepModel.GenFiles.Pass
open StepModel.Generated.CxxPass

inductive Mark | notknown | canprocess | cantprocess | processed
  deriving DecidableEq, Repr

/-- what the pass logic looks at in a type or entity of the schema -/
structure Obj where
  name : String
  isEnum : Bool := false
  isSelect : Bool := false
  renameOf : Option String := none   -- enumeration/select that is a rename: its ancestor (TYPEget_ancestor)
  items : List String := []          -- select: its non-entity items; entity: the types of its attributes (one aggregate level stripped)
  entAttrTypes : List String := []   -- select: attribute types of its not yet processed entity items
  descendants : List String := []    -- entity: all its subtypes, transitively (`markDescs`)
  supers : List String := []         -- entity: its direct supertypes
  foreign : Bool := false            -- declared in ANOTHER schema (`!sameSchema` / `!inSchema`): reached through USE/REFERENCE
  deriving Repr

abbrev Marks := String → Mark

def setMark (m : Marks) (n : String) (v : Mark) : Marks := fun k => if k = n then v else m k

def lookup (os : List Obj) (n : String) : Option Obj := os.find? (fun o => o.name == n)

def isForeign (os : List Obj) (n : String) : Bool := (lookup os n).any (·.foreign)

/-- `ENUMcanBeProcessed( e, s )`: for an enumeration of another schema `e->search_id == PROCESSED`, otherwise by its mark
    (last case regenerated) -/
def enumCanBeProcessed (lc : EnumLastCase) (os : List Obj) (m : Marks) (e : String) : Bool :=
  if isForeign os e then m e == .processed else
  match m e with
  | .notknown =>
    match (lookup os e).bind (·.renameOf) with
    | none => true
    | some a =>
      match lc with
      | .inSchemaOrProcessed => true
      | .processedOnly => m a == .processed
      | .ancestorMark => m a == .canprocess || m a == .processed      -- search_id >= CANPROCESS
  | .canprocess => true
  | .processed => true
  | .cantprocess => false

structure St where
  marks : Marks
  schemaUnprocessed : Bool
  /-- `unknowncnt` of `checkTypes`: reset to 0 before every sweep, the loop goes on while it is > 0 -/
  unknown : Int := 0

/-- `checkItem( t, parent, schema, …, noSel )`: the new state and whether `parent` became unprocessable -/
def checkItem (lc : EnumLastCase) (os : List Obj) (s : St) (parent item : String) (noSel : Bool) : St × Bool :=
  match lookup os item with
  | none => (s, false)
  | some o =>
    if o.isEnum then
      if !enumCanBeProcessed lc os s.marks item then
        ({ marks := setMark s.marks parent .cantprocess, schemaUnprocessed := true,
           unknown := if s.marks parent = .notknown then s.unknown - 1 else s.unknown }, true)
      else (s, false)
    else if o.isSelect && !noSel then
      if o.foreign then
        -- `!sameSchema( i, parent )`: a select of another schema must have been PROCESSED already
        if s.marks item ≠ .processed then
          ({ marks := setMark s.marks parent .cantprocess, schemaUnprocessed := true,
             unknown := if s.marks parent = .notknown then s.unknown - 1 else s.unknown }, true)
        else (s, false)
      else
      match s.marks item with
      | .cantprocess => ({ marks := setMark s.marks parent .cantprocess, schemaUnprocessed := true,
                           unknown := if s.marks parent = .notknown then s.unknown - 1 else s.unknown }, true)
      | .notknown =>
        -- "we haven't processed i this pass": lower parent to NOTKNOWN (once) and count it
        if s.marks parent ≠ .notknown then ({ s with marks := setMark s.marks parent .notknown, unknown := s.unknown + 1 }, false)
        else (s, false)
      | _ => (s, false)
    else (s, false)

def checkItems (lc : EnumLastCase) (os : List Obj) (parent : String) (noSel : Bool) : St → List String → St × Bool
  | s, [] => (s, false)
  | s, i :: is =>
    let (s', stop) := checkItem lc os s parent i noSel
    if stop then (s', true) else checkItems lc os parent noSel s' is

/-- `markDescs( ent )` -/
def markDescs (s : St) (o : Obj) : St :=
  { s with marks := (o.name :: o.descendants).foldl (fun m n => setMark m n .cantprocess) s.marks }

/-- a renamed enumeration/select whose original, or an entity one of whose supertypes, is declared in another schema and
    has not been PROCESSED yet (`!sameSchema( i, type ) && i->search_id != PROCESSED`, `!sameSchema( ent, super ) && …`) -/
def foreignBlocked (os : List Obj) (m : Marks) (o : Obj) : Bool :=
  (o.renameOf.toList ++ o.supers).any fun n => isForeign os n && m n != .processed

/-- one object visited by `checkTypes` (types) / `checkEnts` (entities).  (In the C the foreign-original test of a renamed
    select comes after its items and only fires while the select is still CANPROCESS; here it comes first — the verdict
    CANTPROCESS and the pass decision are the same.) -/
def visit (lc : EnumLastCase) (os : List Obj) (s : St) (o : Obj) : St :=
  if s.marks o.name ≠ .notknown then s else
  if foreignBlocked os s.marks o then
    (if o.isSelect || o.isEnum then { s with marks := setMark s.marks o.name .cantprocess, schemaUnprocessed := true }
     else { markDescs s o with schemaUnprocessed := true })
  else
  let s1 : St := { s with marks := setMark s.marks o.name .canprocess }
  let (s2, stop) := checkItems lc os o.name false s1 o.items
  if stop then (if o.isSelect || o.isEnum then s2 else markDescs s2 o)
  else (checkItems lc os o.name true s2 o.entAttrTypes).1

def sweep (lc : EnumLastCase) (os order : List Obj) (s : St) : St := order.foldl (visit lc os) s

def sweeps (lc : EnumLastCase) (os order : List Obj) : Nat → St → St
  | 0, s => s
  | n + 1, s => sweeps lc os order n (sweep lc os order s)

def initial : St := { marks := fun _ => .notknown, schemaUnprocessed := false }

/-- the suffixes `SCHEMAprint` is called with for the schema -/
def suffixes (s : St) : List Nat := if s.schemaUnprocessed then [1, 2] else [0]

/-- state of the sweep loop of `checkTypes`: the pass state, `lastunknowncnt`, and whether the loop has been left -/
structure LoopSt where
  st : St
  last : Int := -1
  exited : Bool := false

/-- the stall exit: every type of the schema that is still NOTKNOWN becomes CANPROCESS -/
def markRemaining (order : List Obj) (s : St) : St :=
  { s with marks := fun k => if s.marks k = .notknown ∧ order.any (fun o => o.name == k) then .canprocess else s.marks k }

/-- `unknowncnt = 0;` at the top of a sweep -/
def resetUnknown (s : St) : St := { marks := s.marks, schemaUnprocessed := s.schemaUnprocessed, unknown := 0 }

/-- iteration number `k` (1-based) of `do { unknowncnt = 0; <sweep>; <stall test> } while( … )` under the regenerated
    shape of the loop -/
def iterate (l : SweepLoop) (lc : EnumLastCase) (os order : List Obj) (ls : LoopSt) (k : Nat) : LoopSt :=
  if ls.exited then ls else
  let s' := sweep lc os order (resetUnknown ls.st)
  match l with
  | .untilSettled => { st := s', last := ls.last, exited := decide (s'.unknown ≤ 0) }
  | .bounded n => { st := s', last := ls.last, exited := decide (s'.unknown ≤ 0) || decide (n ≤ k) }
  | .untilSettledOrStalled =>
    if 0 < s'.unknown ∧ s'.unknown = ls.last then { st := markRemaining order s', last := ls.last, exited := true }
    else { st := s', last := s'.unknown, exited := decide (s'.unknown ≤ 0) }

/-- the loop started in pass state `s0` (marks of the schema's own objects NOTKNOWN, of foreign ones whatever the
    schemas printed so far left) -/
def runFrom (l : SweepLoop) (lc : EnumLastCase) (os order : List Obj) (s0 : St) : Nat → LoopSt
  | 0 => { st := s0 }
  | k + 1 => iterate l lc os order (runFrom l lc os order s0 k) (k + 1)

/-- … for a self-contained schema: everything NOTKNOWN -/
def run (l : SweepLoop) (lc : EnumLastCase) (os order : List Obj) (k : Nat) : LoopSt := runFrom l lc os order initial k

/-- nothing is left undecided: every object of the sweep order was given a verdict -/
def Settled (order : List Obj) (s : St) : Prop := ∀ o ∈ order, s.marks o.name ≠ .notknown

/-! ## the whole file: `print_schemas_separate` -/

/-- a schema as the pass logic sees it: its own types (in DICTdo order), its own entities (in DICTdo order), and stubs
    (`foreign := true`) for the objects of other schemas it refers to.  Names are qualified (`schema.name`), so that one
    global mark function serves all schemas. -/
structure PSchema where
  name : String
  types : List Obj
  ents : List Obj
  stubs : List Obj := []
  deriving Repr

def PSchema.os (p : PSchema) : List Obj := p.types ++ p.ents ++ p.stubs
def PSchema.own (p : PSchema) : List Obj := p.types ++ p.ents

structure FileSt where
  marks : Marks
  unprocessed : String → Bool          -- schema->search_id == UNPROCESSED
  counter : String → Nat               -- *( int * )schema->clientData
  printed : List (String × Nat)        -- SCHEMAprint( schema, …, suffix ) calls, in order
  hung : Bool := false                 -- a sweep loop did not finish within its fuel
  progress : Bool := true              -- `progress`: did the previous round over the schemas print anything?
  printedNow : Bool := false           -- `printed`: has the current round printed anything yet?

/-- `unsetObjs( schema )`: the schema's own CANTPROCESS objects become NOTKNOWN again -/
def unsetObjs (p : PSchema) (m : Marks) : Marks :=
  fun n => if p.own.any (fun o => o.name == n) && m n == .cantprocess then .notknown else m n

/-- `checkTypes` (its sweep loop, run with enough fuel for the stall-detecting shape) followed by `checkEnts`;
    `none` = the loop did not finish -/
def passResult (l : SweepLoop) (lc : EnumLastCase) (p : PSchema) (m : Marks) : Option St :=
  let loop := runFrom l lc p.os p.types { marks := m, schemaUnprocessed := false } (p.types.length + 2)
  if loop.exited then some (sweep lc p.os p.ents loop.st) else none

/-- the `SCHEMAprint` decision and — through SCOPEPrint — CANPROCESS objects becoming PROCESSED -/
def finishVisit (fs : FileSt) (p : PSchema) (s : St) : FileSt :=
  let isOwn (n : String) : Bool := p.own.any (fun o => o.name == n)
  let any := p.own.any fun o => s.marks o.name == .canprocess                                               -- val1 || val2
  let suffix := if s.schemaUnprocessed || fs.counter p.name > 0 then fs.counter p.name + 1 else 0
  { marks := fun n => if any && isOwn n && s.marks n == .canprocess then .processed else s.marks n,
    unprocessed := fun n => if n = p.name then s.schemaUnprocessed else fs.unprocessed n,
    counter := fun n => if n = p.name ∧ any ∧ suffix > 0 then suffix else fs.counter n,
    printed := if any then fs.printed ++ [(p.name, suffix)] else fs.printed,
    hung := fs.hung, progress := fs.progress, printedNow := fs.printedNow || any }

/-- the deferral (fix C17-5): nothing is printed, `resetCanProcess` takes the CANPROCESS verdicts of the schema's own objects
    back, the schema stays UNPROCESSED -/
def deferVisit (fs : FileSt) (p : PSchema) (s : St) : FileSt :=
  let isOwn (n : String) : Bool := p.own.any (fun o => o.name == n)
  { marks := fun n => if isOwn n && s.marks n == .canprocess then .notknown else s.marks n,
    unprocessed := fun n => if n = p.name then true else fs.unprocessed n,
    counter := fs.counter, printed := fs.printed, hung := fs.hung, progress := fs.progress, printedNow := fs.printedNow }

/-- one visit of a schema that is still UNPROCESSED in `print_schemas_separate`; `defer` = the tree has the deferral of
    partially printable schemas (regenerated: `deferPartial`) -/
def visitSchema (defer : Bool) (l : SweepLoop) (lc : EnumLastCase) (fs : FileSt) (p : PSchema) : FileSt :=
  if !fs.unprocessed p.name || fs.hung then fs else
  match passResult l lc p (unsetObjs p fs.marks) with
  | none => { fs with hung := true }
  | some s =>
    if defer && (p.own.any fun o => s.marks o.name == .canprocess) && s.schemaUnprocessed && fs.counter p.name == 0 && fs.progress
    then deferVisit fs p s else finishVisit fs p s

/-- one round of `while( !complete )`: every schema in DICTdo order; `progress = printed` at its end -/
def round (defer : Bool) (l : SweepLoop) (lc : EnumLastCase) (schemas : List PSchema) (fs : FileSt) : FileSt :=
  let r := schemas.foldl (visitSchema defer l lc) { fs with printedNow := false }
  { r with progress := r.printedNow }

def rounds (defer : Bool) (l : SweepLoop) (lc : EnumLastCase) (schemas : List PSchema) : Nat → FileSt → FileSt
  | 0, fs => fs
  | n + 1, fs => if schemas.any (fun p => fs.unprocessed p.name) && !fs.hung then rounds defer l lc schemas n (round defer l lc schemas fs) else fs

def fileStart : FileSt :=
  { marks := fun _ => .notknown, unprocessed := fun _ => true, counter := fun _ => 0, printed := [] }

/-- the `SCHEMAprint` calls exp2cxx makes for a file (fuel = number of rounds allowed) -/
def printFile (l : SweepLoop) (lc : EnumLastCase) (schemas : List PSchema) (fuel : Nat) (defer : Bool := deferPartial) : FileSt :=
  rounds defer l lc schemas fuel fileStart

end StepModel.GenFiles.Pass

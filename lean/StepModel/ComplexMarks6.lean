import StepModel.ComplexMarks5
/-! What the invariants give at an acceptance: the held names extend to a derivation of the list inside the request. -/
namespace StepModel.Complex.Match
open StepModel.Generated StepModel.Complex

/-- the names `t` holds extend to a derivation of `t` that lies inside the request -/
def Ext (N : List Name) (t : ST) : Prop :=
  ∃ Y ∈ denote (trV (skel t)), (∀ n ∈ holds t, n ∈ Y) ∧ (∀ y ∈ Y, y ∈ N)

theorem ext_of_sat {N : List Name} {t : ST} (h0 : holds t = []) (hs : satO N (trV (skel t)) = true) : Ext N t := by
  obtain ⟨Y, hY, hsub⟩ := (satO_iff N _).mp hs
  exact ⟨Y, hY, (fun n hn => by rw [h0] at hn; cases hn), hsub⟩

theorem mem_holdsL {cs : List ST} {n : Name} : n ∈ holdsL cs ↔ ∃ c ∈ cs, n ∈ holds c := by
  induction cs with
  | nil => simp [holdsL]
  | cons a l ih => simp [holdsL, ih]

theorem ext_prod (N : List Name) : ∀ (cs : List ST), (∀ c ∈ cs, Ext N c) →
    ∃ Y ∈ prodD (denoteL (trVL (skelL cs))), (∀ n ∈ holdsL cs, n ∈ Y) ∧ (∀ y ∈ Y, y ∈ N)
  | [], _ => ⟨[], by simp [skelL, trVL, denoteL, prodD], fun n hn => by simp [holdsL] at hn, fun y hy => by cases hy⟩
  | c :: cs, h => by
    obtain ⟨Y1, h1, a1, b1⟩ := h c (by simp)
    obtain ⟨Y2, h2, a2, b2⟩ := ext_prod N cs (fun x hx => h x (List.mem_cons_of_mem _ hx))
    refine ⟨Y1 ++ Y2, ?_, fun n hn => ?_, fun y hy => ?_⟩
    · simp only [skelL, trVL, denoteL]
      exact mem_prodD_cons''.mpr ⟨Y1, h1, Y2, h2, rfl⟩
    · simp only [holdsL, List.mem_append] at hn
      rcases hn with e | e
      · exact List.mem_append.mpr (Or.inl (a1 n e))
      · exact List.mem_append.mpr (Or.inr (a2 n e))
    · rcases List.mem_append.mp hy with e | e
      · exact b1 y e
      · exact b2 y e

theorem ext_sel (N : List Name) : ∀ (cs : List ST), (∀ c ∈ cs, holds c = [] ∨ Ext N c) → holdsL cs ≠ [] →
    ∃ Y ∈ selD (denoteL (trVL (skelL cs))), (∀ n ∈ holdsL cs, n ∈ Y) ∧ (∀ y ∈ Y, y ∈ N)
  | [], _, hne => absurd rfl hne
  | c :: cs, h, hne => by
    have hrest := fun x hx => h x (List.mem_cons_of_mem _ hx)
    by_cases hc0 : holds c = []
    · have hne' : holdsL cs ≠ [] := by
        intro e; apply hne; simp [holdsL, hc0, e]
      obtain ⟨Y2, h2, a2, b2⟩ := ext_sel N cs hrest hne'
      refine ⟨Y2, ?_, fun n hn => ?_, b2⟩
      · simp only [skelL, trVL, denoteL]
        exact mem_selD_cons''.mpr (Or.inl h2)
      · simp only [holdsL, hc0, List.nil_append] at hn; exact a2 n hn
    · obtain ⟨Y1, h1, a1, b1⟩ : Ext N c := by
        rcases h c (by simp) with e | e
        · exact absurd e hc0
        · exact e
      by_cases hr0 : holdsL cs = []
      · refine ⟨Y1, ?_, fun n hn => ?_, b1⟩
        · simp only [skelL, trVL, denoteL]
          exact mem_selD_cons''.mpr (Or.inr (Or.inl h1))
        · simp only [holdsL, hr0, List.append_nil] at hn; exact a1 n hn
      · obtain ⟨Y2, h2, a2, b2⟩ := ext_sel N cs hrest hr0
        refine ⟨Y1 ++ Y2, ?_, fun n hn => ?_, fun y hy => ?_⟩
        · simp only [skelL, trVL, denoteL]
          exact mem_selD_cons''.mpr (Or.inr (Or.inr ⟨Y1, h1, Y2, h2, rfl⟩))
        · simp only [holdsL, List.mem_append] at hn
          rcases hn with e | e
          · exact List.mem_append.mpr (Or.inl (a1 n e))
          · exact List.mem_append.mpr (Or.inr (a2 n e))
        · rcases List.mem_append.mp hy with e | e
          · exact b1 y e
          · exact b2 y e

theorem denote_mem_flatten {cs : List ST} {ch : ST} (hch : ch ∈ cs) {Y : List Name} (hY : Y ∈ denote (trV (skel ch))) :
    Y ∈ (denoteL (trVL (skelL cs))).flatten := by
  induction cs with
  | nil => cases hch
  | cons a l ih =>
    simp only [skelL, trVL, denoteL, List.flatten_cons, List.mem_append]
    rcases List.mem_cons.mp hch with e | e
    · subst e; exact Or.inl hY
    · exact Or.inr (ih e)

mutual
  /-- **a list that counts extends what it holds to a derivation inside the request** -/
  theorem claim (N : List Name) : ∀ (t : ST), Tidy t → SemV N (skel t) → Kr t.viable → Ext N t
    | .simple n v im, _, hs, hk => by
      simp only [skel] at hs
      have hK : K v := Kr_K hk hs.2.2
      have hn : n ∈ N := by simpa using hs.2.1 hK
      refine ⟨[n], by simp [skel, trV, denote], fun x hx => ?_, fun y hy => ?_⟩
      · simp only [holds] at hx
        split at hx
        · cases hx
        · exact hx
      · simp only [List.mem_singleton] at hy; rw [hy]; exact hn
    | .mult .and v c c1 k cs, ht, hs, hk => by
      simp only [Tidy] at ht
      obtain ⟨htl, hkc, _, _⟩ := ht
      have hs' := hs
      simp only [skel] at hs'
      obtain ⟨_, hsl, _, hsat, hstv, _⟩ := hs'
      have hK : K v := Kr_K hk hstv
      have hsatv := hsat hK
      simp only [trV, satO] at hsatv
      have hall := (satOAll_all N _).mp hsatv
      have hext : ∀ ch ∈ cs, Ext N ch := by
        intro ch hch
        rcases hkc hk ch hch with e | e
        · exact ext_of_sat e (hall _ (trVL_mem (mem_skelL hch)))
        · exact claimL N cs htl hsl ch hch e
      obtain ⟨Y, hY, a, b⟩ := ext_prod N cs hext
      exact ⟨Y, by simp only [skel, trV, denote]; exact hY, by simp only [holds]; exact a, b⟩
    | .mult .andor v c c1 k cs, ht, hs, hk => by
      simp only [Tidy] at ht
      obtain ⟨htl, hkc, _, _⟩ := ht
      have hs' := hs
      simp only [skel] at hs'
      obtain ⟨_, hsl, _, hsat, hstv, _⟩ := hs'
      have hK : K v := Kr_K hk hstv
      by_cases h0 : holdsL cs = []
      · exact ext_of_sat (by simp only [holds]; exact h0) (by simp only [skel]; exact hsat hK)
      · have hext : ∀ ch ∈ cs, holds ch = [] ∨ Ext N ch := by
          intro ch hch
          rcases hkc hk ch hch with e | e
          · exact Or.inl e
          · exact Or.inr (claimL N cs htl hsl ch hch e)
        obtain ⟨Y, hY, a, b⟩ := ext_sel N cs hext h0
        exact ⟨Y, by simp only [skel, trV, denote]; exact hY, by simp only [holds]; exact a, b⟩
    | .mult .or v c c1 k cs, ht, hs, hk => by
      simp only [Tidy] at ht
      obtain ⟨htl, hkc, _, hor⟩ := ht
      have hs' := hs
      simp only [skel] at hs'
      obtain ⟨_, hsl, _, hsat, hstv, _⟩ := hs'
      have hK : K v := Kr_K hk hstv
      by_cases h0 : holdsL cs = []
      · exact ext_of_sat (by simp only [holds]; exact h0) (by simp only [skel]; exact hsat hK)
      · -- some child holds a mark: it is the `choice` child, and the only one
        have : ∃ ch ∈ cs, holds ch ≠ [] := by
          apply Classical.byContradiction
          intro hno
          apply h0
          apply (holdsL_nil_iff cs).mpr
          intro c0 hc0
          apply Classical.byContradiction
          intro hne; exact hno ⟨c0, hc0, hne⟩
        obtain ⟨ch, hch, hne⟩ := this
        obtain ⟨i, hi⟩ := List.getElem?_of_mem hch
        have hir : inRange c cs.length = some i := by
          apply Classical.byContradiction
          intro hni; exact hne (hor trivial i ch hi hni)
        have hkr : Kr ch.viable := by
          rcases hkc hk ch hch with e | e
          · exact absurd e hne
          · exact e
        obtain ⟨Y, hY, a, b⟩ := claimL N cs htl hsl ch hch hkr
        refine ⟨Y, by simp only [skel, trV, denote]; exact denote_mem_flatten hch hY, fun n hn => ?_, b⟩
        simp only [holds] at hn
        obtain ⟨c0, hc0, hn0⟩ := mem_holdsL.mp hn
        obtain ⟨p, hp⟩ := List.getElem?_of_mem hc0
        by_cases hpi : p = i
        · subst hpi; rw [hi] at hp; cases hp; exact a n hn0
        · have : holds c0 = [] := hor trivial p c0 hp (by rw [hir]; intro e; cases e; exact hpi rfl)
          rw [this] at hn0; cases hn0
  theorem claimL (N : List Name) : ∀ (cs : List ST), TidyL cs → SemVL N (skelL cs) → ∀ ch ∈ cs, Kr ch.viable → Ext N ch
    | [], _, _, ch, hch, _ => by cases hch
    | c :: cs, ht, hs, ch, hch, hk => by
      simp only [TidyL] at ht
      simp only [skelL, SemVL] at hs
      rcases List.mem_cons.mp hch with e | e
      · rw [e]; exact claim N c ht.1 hs.1 (by rw [← e]; exact hk)
      · exact claimL N cs ht.2 hs.2 ch e hk
end

end StepModel.Complex.Match

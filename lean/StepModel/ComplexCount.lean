import StepModel.ComplexExhaust
/-! `OrList::choiceCount` after `OrList::matchORs`: the number of alternatives that count (viable ≥ MATCHSOME); `choice1`
is the first of them.  What the `choiceCount == 1` shortcut of `OrList::tryNext` relies on. -/
namespace StepModel.Complex.Match
open StepModel.Generated StepModel.Complex

/-- the value a matching function returns reaches MATCHSOME exactly when the value it stored does -/
def RS (r : MT) (t : ST) : Prop := MT.rank .some_ ≤ r.rank ↔ t.atLeastSome = true

theorem RS_self (t : ST) : RS t.viable t := by
  unfold RS ST.atLeastSome; exact decide_eq_true_iff.symm

theorem getElem_of_skelL {a b : List ST} (h : skelL a = skelL b) {i : Nat} {x : ST} (hx : a[i]? = some x) :
    ∃ y, b[i]? = some y ∧ skel x = skel y := by
  rw [skelL_eq_map, skelL_eq_map] at h
  have h1 : (a.map skel)[i]? = some (skel x) := by rw [List.getElem?_map, hx]; rfl
  rw [h, List.getElem?_map] at h1
  cases hb : b[i]? with
  | none => rw [hb] at h1; cases h1
  | some y => rw [hb] at h1; exact ⟨y, rfl, (Option.some.inj h1).symm⟩

theorem countP_of_skelL : ∀ {a b : List ST}, skelL a = skelL b →
    a.countP (·.atLeastSome) = b.countP (·.atLeastSome)
  | [], [], _ => rfl
  | [], _ :: _, h => by simp [skelL] at h
  | _ :: _, [], h => by simp [skelL] at h
  | x :: xs, y :: ys, h => by
    simp only [skelL] at h
    obtain ⟨h1, h2⟩ := List.cons.inj h
    simp only [List.countP_cons, atLeastSome_of_skel h1, countP_of_skelL h2]

/-- loop invariant of `OrList::matchORs` for `choiceCount`, `choice`, `choice1` -/
structure CInv (done : List ST) (v : MT) (c c1 : Int) (k : Nat) : Prop where
  cnt : k = done.countP (·.atLeastSome)
  vk : MT.rank .some_ ≤ v.rank ↔ 0 < k
  c0 : k = 0 → c = -1
  first : 0 < k → ∃ i : Nat, c = (i : Int) ∧ c1 = (i : Int) ∧ (∃ d, done[i]? = some d ∧ d.atLeastSome = true) ∧
    ∀ p d, p < i → done[p]? = some d → d.atLeastSome = false

theorem CInv_of_skelL {a b : List ST} (h : skelL a = skelL b) {v : MT} {c c1 : Int} {k : Nat} (I : CInv b v c c1 k) :
    CInv a v c c1 k := by
  refine ⟨by rw [countP_of_skelL h]; exact I.cnt, I.vk, I.c0, fun hk => ?_⟩
  obtain ⟨i, e1, e2, ⟨d, hd, hda⟩, hf⟩ := I.first hk
  obtain ⟨d', hd', hs⟩ := getElem_of_skelL h.symm hd
  refine ⟨i, e1, e2, ⟨d', hd', by rw [← atLeastSome_of_skel hs]; exact hda⟩, fun p x hp hx => ?_⟩
  obtain ⟨y, hy, hs'⟩ := getElem_of_skelL h hx
  rw [atLeastSome_of_skel hs']; exact hf p y hp hy

theorem CInv_step {done : List ST} {v : MT} {c c1 : Int} {k : Nat} {ch3 : ST} {rv2 : MT} {b s : Bool} {idx : Nat}
    (I : CInv done v c c1 k) (R : RS rv2 ch3) (hidx : idx = done.length)
    (hs : s = true ↔ MT.rank .some_ ≤ rv2.rank)
    (hb : b = true ↔ (MT.rank .some_ ≤ rv2.rank ∧ c = -1)) :
    CInv (done ++ [ch3]) (if v.rank < rv2.rank then rv2 else v) (if b = true then (idx : Int) else c)
      (if b = true then (idx : Int) else c1) (if s = true then k + 1 else k) := by
  have hcnt : (done ++ [ch3]).countP (·.atLeastSome) = k + (if ch3.atLeastSome = true then 1 else 0) := by
    rw [List.countP_append, ← I.cnt]; simp [List.countP_cons]
  have hmr : MT.rank .some_ ≤ (if v.rank < rv2.rank then rv2 else v).rank ↔
      (MT.rank .some_ ≤ v.rank ∨ MT.rank .some_ ≤ rv2.rank) := by
    split <;> omega
  have hkeep : ∀ i : Nat, (∃ d, done[i]? = some d ∧ d.atLeastSome = true) →
      (∀ p d, p < i → done[p]? = some d → d.atLeastSome = false) →
      (∃ d, (done ++ [ch3])[i]? = some d ∧ d.atLeastSome = true) ∧
        ∀ p d, p < i → (done ++ [ch3])[p]? = some d → d.atLeastSome = false := by
    intro i ⟨d, hd, hda⟩ hf
    have hil : i < done.length := by
      rcases Nat.lt_or_ge i done.length with h' | h'
      · exact h'
      · rw [List.getElem?_eq_none h'] at hd; cases hd
    refine ⟨⟨d, getElem?_append_some hd _, hda⟩, fun p x hp hx => ?_⟩
    rw [List.getElem?_append_left (by omega)] at hx
    exact hf p x hp hx
  by_cases ha : ch3.atLeastSome = true
  · have hr : MT.rank .some_ ≤ rv2.rank := R.mpr ha
    have hst : s = true := hs.mpr hr
    simp only [hst, if_true]
    by_cases hk : k = 0
    · have hbt : b = true := hb.mpr ⟨hr, I.c0 hk⟩
      simp only [hbt, if_true]
      refine ⟨by rw [hcnt]; simp [ha], hmr.trans ⟨fun _ => by omega, fun _ => Or.inr hr⟩, fun h => by omega,
        fun _ => ⟨idx, rfl, rfl, ⟨ch3, by simp [hidx], ha⟩, fun p x hp hx => ?_⟩⟩
      rw [List.getElem?_append_left (by omega)] at hx
      have hz : done.countP (·.atLeastSome) = 0 := by rw [← I.cnt]; exact hk
      have := (List.countP_eq_zero.mp hz) x (List.mem_of_getElem? hx)
      simpa using this
    · obtain ⟨i, e1, e2, g1, g2⟩ := I.first (by omega)
      have hbf : ¬ b = true := by
        intro hbt; have := (hb.mp hbt).2; omega
      simp only [hbf, if_false]
      obtain ⟨k1, k2⟩ := hkeep i g1 g2
      exact ⟨by rw [hcnt]; simp [ha], hmr.trans ⟨fun _ => by omega, fun _ => Or.inr hr⟩, fun h => by omega,
        fun _ => ⟨i, e1, e2, k1, k2⟩⟩
  · have hr : ¬ MT.rank .some_ ≤ rv2.rank := fun h => ha (R.mp h)
    have hst : ¬ s = true := fun h => hr (hs.mp h)
    have hbf : ¬ b = true := fun h => hr (hb.mp h).1
    simp only [hst, hbf, if_false]
    refine ⟨by rw [hcnt]; simp [ha], hmr.trans ⟨fun h => ?_, fun h => Or.inl (I.vk.mpr h)⟩, I.c0, fun hk => ?_⟩
    · rcases h with h | h
      · exact I.vk.mp h
      · exact absurd h hr
    · obtain ⟨i, e1, e2, g1, g2⟩ := I.first hk
      obtain ⟨k1, k2⟩ := hkeep i g1 g2
      exact ⟨i, e1, e2, k1, k2⟩

/-- `OrList::matchORs` on a freshly reset OrList: what it returns reaches MATCHSOME iff what it stores does, and it leaves
`choiceCount` = number of alternatives with viable ≥ MATCHSOME, `choice1` = the first of them (`c0`: the value of
`choice` before the final `acceptChoice`) -/
theorem ors_count (N : List Name) (hN : N.Pairwise (· < ·)) : ∀ f : Nat,
    (∀ t es r, matchORs f t es = .ok r → Pend t → SemV N (skel t) → names es = N →
      RS r.2.2 r.1 ∧ (t.isOr = true → ∃ v c c1 k cs c0, r.1 = .mult .or v c c1 k cs ∧ CInv cs v c0 c1 k)) ∧
    (∀ restT idx done es rv v c c1 k r, orORs f idx done (freshL restT) es rv v c c1 k = .ok r →
      treeWFL restT = true → names es = N → idx = done.length → CInv done v c c1 k →
      CInv r.1 r.2.2.2.1 r.2.2.2.2.1 r.2.2.2.2.2.1 r.2.2.2.2.2.2) := by
  intro f
  induction f with
  | zero => exact ⟨fun _ _ _ h => by simp [matchORs] at h, fun _ _ _ _ _ _ _ _ _ _ h => by simp [orORs] at h⟩
  | succ f ih =>
    obtain ⟨ih1, ih2⟩ := ih
    refine ⟨?_, ?_⟩
    · intro t es r h hp hs hnm
      cases t with
      | simple n v im => simp [matchORs] at h
      | mult j v c c1 k cs =>
        cases j with
        | and =>
          simp only [matchORs] at h
          split at h
          · cases h
          · obtain ⟨⟨cs', es', failed⟩, h1, h2⟩ := bind_ok' h
            refine ⟨?_, fun ho => by simp [ST.isOr] at ho⟩
            cases failed with
            | true => simp only [if_true] at h2; cases h2; exact RS_self (.mult .and .unsat c c1 k cs')
            | false =>
              simp only [Bool.false_eq_true, if_false] at h2; cases h2
              exact RS_self (.mult .and (setViableVal cs' es') c c1 k cs')
        | andor =>
          simp only [matchORs] at h
          split at h
          · cases h
          · obtain ⟨⟨cs', es', x⟩, h1, h2⟩ := bind_ok' h
            cases h2
            exact ⟨RS_self (.mult .andor (setViableVal cs' es') c c1 k cs'), fun ho => by simp [ST.isOr] at ho⟩
        | or =>
          simp only [Pend] at hp
          obtain ⟨ts, hts, hwf⟩ := hp
          simp only [fresh] at hts
          injection hts with _ hv hc hc1 hk hcs
          subst hv hc hc1 hk hcs
          simp only [treeWF, Bool.and_eq_true, Bool.not_eq_true', List.isEmpty_eq_false_iff] at hwf
          simp only [matchORs] at h
          obtain ⟨⟨cs', es', rv', v', c', c1', k'⟩, h1, h2⟩ := bind_ok' h
          have I0 : CInv [] .unknown orInitChoice orInitChoice1 orInitCount :=
            ⟨rfl, by decide, fun _ => rfl, fun h => absurd h (by decide)⟩
          have I := ih2 ts 0 [] es _ _ _ _ _ _ h1 hwf.2 hnm rfl I0
          simp only at h2 I
          obtain ⟨⟨node', es''⟩, hA, hB⟩ := ite_bind_ok h2
          have hshape : ∃ c'' cs'', node' = .mult .or v' c'' c1' k' cs'' ∧ skelL cs'' = skelL cs' := by
            split at hA
            · obtain ⟨c'', cs'', a1, a2, _⟩ := acceptDrop_shape f v' c' c1' k' cs' es' _ hA
              exact ⟨c'', cs'', a1, a2⟩
            · cases hA; exact ⟨c', cs', rfl, rfl⟩
          obtain ⟨c'', cs'', hnd, hsk⟩ := hshape
          subst hnd
          have I2 : CInv cs'' v' c' c1' k' := CInv_of_skelL hsk I
          simp only at hB
          by_cases hall : v' = .all
          · subst hall
            simp only [if_true] at hB
            have hkpos : 0 < k' := I2.vk.mp (by decide)
            obtain ⟨i0, _, hi0, ⟨d, hd, hda⟩, _⟩ := I2.first hkpos
            split at hB
            · cases hB
            · rename_i i hir
              split at hB
              · cases hB
              · rename_i ch hch
                cases hB
                rw [hi0] at hir
                have hii := inRange_nat hir
                rw [hii, hd] at hch
                have hdc := Option.some.inj hch
                refine ⟨?_, fun _ => ⟨_, _, _, _, _, c', rfl, I2⟩⟩
                rw [← hdc]
                unfold RS
                exact ⟨fun _ => rfl, fun _ => of_decide_eq_true hda⟩
          · simp only [hall, if_false] at hB
            cases hB
            exact ⟨RS_self (.mult .or v' c'' c1' k' cs''), fun _ => ⟨_, _, _, _, _, c', rfl, I2⟩⟩
    · intro restT idx done es rv v c c1 k r h hwf hnm hidx I
      cases restT with
      | nil =>
        simp only [freshL, orORs] at h; cases h
        exact I
      | cons t rest =>
        simp only [treeWFL, Bool.and_eq_true] at hwf
        simp only [freshL, orORs] at h
        obtain ⟨⟨ch1, es1, rv1⟩, hA, hB⟩ := ite_bind_ok h
        have A : SemV N (skel ch1) ∧ names es1 = N ∧ (ch1.viable = .unknown → Pend ch1) ∧
            (ch1.viable ≠ .unknown → rv1 = ch1.viable) := by
          split at hA
          · rename_i hno
            have P := (nonors_sem N hN f).1 t es _ hA hwf.1 hnm
            have hnot : isOrT t = false := by rw [← isOr_fresh']; simpa using hno
            exact ⟨P.sem, P.nm, P.pend, fun _ => (P.via hnot).symm⟩
          · rename_i hno
            cases hA
            have hor : isOrT t = true := by rw [← isOr_fresh']; simpa using hno
            refine ⟨fresh_SemV N t hwf.1, hnm, fun _ => ?_, fun hne => absurd (fresh_viable t) hne⟩
            cases t with
            | or ts => exact ⟨ts, rfl, hwf.1⟩
            | simple n => cases hor
            | and ts => cases hor
            | andor ts => cases hor
        obtain ⟨a1, a3, a4, a5⟩ := A
        simp only at hB
        obtain ⟨⟨ch2, es2, rv2⟩, hC, hD⟩ := ite_bind_ok hB
        have B : names es2 = N ∧ RS rv2 ch2 := by
          split at hC
          · rename_i hu
            split at hC
            · cases hC
            · have O := (ors_sem N hN f).1 ch1 es1 _ hC (a4 hu) a1 a3
              exact ⟨O.nm, (ih1 ch1 es1 _ hC (a4 hu) a1 a3).1⟩
          · rename_i hu
            cases hC
            refine ⟨a3, ?_⟩
            rw [a5 hu]
            exact RS_self ch1
        obtain ⟨b3, b4⟩ := B
        simp only at hD
        obtain ⟨⟨ch3, es3⟩, hE, hF⟩ := bind_ok' hD
        have hs3 := (unmark_skel f).1 ch2 es2 _ hE
        have hn3 : names es3 = N := by rw [(unmark_names f).1 ch2 es2 _ hE]; exact b3
        simp only at hF hs3
        have b4' : RS rv2 ch3 := by unfold RS; rw [atLeastSome_of_skel hs3]; exact b4
        have I' := CInv_step (b := decide (MT.rank .some_ ≤ rv2.rank) && decide (c = -1))
          (s := decide (MT.rank .some_ ≤ rv2.rank)) (idx := idx) I b4' hidx (by simp) (by simp)
        have := ih2 rest (idx + 1) (done ++ [ch3]) es3 _ _ _ _ _ r hF hwf.2 hn3 (by simp [hidx]) I'
        simpa using this

theorem countP_one_unique (P : ST → Bool) : ∀ (l : List ST) (i q : Nat) (d d' : ST), l.countP P = 1 →
    l[i]? = some d → P d = true → l[q]? = some d' → P d' = true → i = q
  | [], _, _, _, _, _, h, _, _, _ => by simp at h
  | x :: xs, i, q, d, d', hc, hi, hd, hq, hd' => by
    have hzero : xs.countP P = 0 → ∀ (j : Nat) (y : ST), xs[j]? = some y → P y = true → False := by
      intro hz j y hy hp
      exact (List.countP_eq_zero.mp hz) y (List.mem_of_getElem? hy) hp
    rw [List.countP_cons] at hc
    cases i with
    | zero =>
      cases q with
      | zero => rfl
      | succ q =>
        simp only [List.getElem?_cons_zero, Option.some.injEq] at hi
        subst hi
        simp only [hd, if_true] at hc
        simp only [List.getElem?_cons_succ] at hq
        exact (hzero (by omega) q d' hq hd').elim
    | succ i =>
      simp only [List.getElem?_cons_succ] at hi
      cases q with
      | zero =>
        simp only [List.getElem?_cons_zero, Option.some.injEq] at hq
        subst hq
        simp only [hd', if_true] at hc
        exact (hzero (by omega) i d hi hd).elim
      | succ q =>
        simp only [List.getElem?_cons_succ] at hq
        by_cases hx : P x = true
        · simp only [hx, if_true] at hc
          exact (hzero (by omega) i d hi hd).elim
        · have hxf : P x = false := by simpa using hx
          rw [hxf] at hc
          have := countP_one_unique P xs i q d d' (by simpa using hc) hi hd hq hd'
          omega

/-- `OrList::matchORs` on a freshly reset OrList, packaged -/
theorem orlist_count (f : Nat) (ts : List Tree) (es : Ents) (r : ST × Ents × MT) (hwf : treeWF (.or ts) = true)
    (hs : (names es).Pairwise (· < ·)) (h : matchORs f (fresh (.or ts)) es = .ok r) :
    ∃ v c c1 k cs, r.1 = .mult .or v c c1 k cs ∧ k = cs.countP (·.atLeastSome) ∧ (MT.rank .some_ ≤ v.rank ↔ 0 < k) ∧
      (0 < k → ∃ i : Nat, c1 = (i : Int) ∧ (∃ d, cs[i]? = some d ∧ d.atLeastSome = true) ∧
        ∀ p d, p < i → cs[p]? = some d → d.atLeastSome = false) ∧
      (k = 1 → ∀ (p : Nat) (d : ST), cs[p]? = some d → d.atLeastSome = true → (p : Int) = c1) := by
  obtain ⟨_, hh⟩ := (ors_count (names es) hs f).1 (fresh (.or ts)) es r h ⟨ts, rfl, hwf⟩
    (fresh_SemV (names es) (.or ts) hwf) rfl
  obtain ⟨v, c, c1, k, cs, c0, e, I⟩ := hh rfl
  refine ⟨v, c, c1, k, cs, e, I.cnt, I.vk, fun hk => ?_, fun hk p d hp hd => ?_⟩
  · obtain ⟨i, _, e2, g1, g2⟩ := I.first hk
    exact ⟨i, e2, g1, g2⟩
  · obtain ⟨i, _, e2, ⟨d0, hd0, hda0⟩, _⟩ := I.first (by omega)
    have := countP_one_unique (·.atLeastSome) cs p i d d0 (by rw [← I.cnt]; exact hk) hp hd hd0 hda0
    rw [e2, this]

end StepModel.Complex.Match

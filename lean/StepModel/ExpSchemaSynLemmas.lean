import StepModel.ExpSchemaSyn
import StepModel.ExpTypeDeclSynLemmas
/-! Lemmas for `StepModel/ExpSchemaSyn.lean`: the declaration reader on the printer's tokens. -/
namespace StepModel.Express

def wfParams (ps : List Param) : Prop := (∀ p ∈ ps, wfTy p.ty) ∧ (∀ a ∈ ps, ∀ b ∈ ps, a.obj = b.obj → a.ty = b.ty)
def wfLocals (ls : List Local) : Prop := (∀ l ∈ ls, l.name.length ≠ 0) ∧ (∀ l ∈ ls, wfTy l.ty)

mutual
/-- declarations the grammar can produce -/
def wfDecl : Decl → Prop
  | .typeD d => wfTypeDecl d
  | .entityD e => wfEntityP e
  | .alg _ ps ret nested cs ls b =>
    wfParams ps ∧ (∀ t, ret = some t → wfTy t) ∧ wfDecls nested ∧ (∀ c ∈ cs, wfTy c.ty) ∧ wfLocals ls ∧ wfStmts b
  | .rule _ ents nested cs ls b _ => ents ≠ [] ∧ wfDecls nested ∧ (∀ c ∈ cs, wfTy c.ty) ∧ wfLocals ls ∧ wfStmts b
  | .nil | .cons _ _ => False
def wfDecls : Decl → Prop
  | .nil => True
  | .cons d t => wfDecl d ∧ wfDecls t
  | _ => False
end

/-- the token after an algorithm's statements -/
def EndTok (E : List DTok) : Prop := ∃ k rest, E = .kw k :: rest ∧ k ∈ ["END_FUNCTION", "END_PROCEDURE", "END_RULE", "WHERE"]

theorem stmt_not_decl (ts : List DTok) (h : startsStmt ts = true) :
    startsDecl ts = false ∧ (∀ r', ts ≠ .kw "CONSTANT" :: r') ∧ (∀ r', ts ≠ .kw "LOCAL" :: r') := by
  cases ts with
  | nil => simp [startsStmt] at h
  | cons t ts =>
    cases t with
    | kw k =>
      simp only [startsStmt, stmtStarters, List.contains_cons, List.contains_nil, Bool.or_false, Bool.or_eq_true, beq_iff_eq] at h
      rcases h with rfl | rfl | rfl | rfl | rfl | rfl | rfl | rfl <;> simp [startsDecl, declStarters]
    | _ => simp [startsDecl]

theorem endTok_facts (E : List DTok) (h : EndTok E) :
    startsStmt E = false ∧ (∀ r', E ≠ .kw "LOCAL" :: r') ∧ startsDecl E = false ∧ (∀ r', E ≠ .kw "CONSTANT" :: r') := by
  obtain ⟨k, rest, rfl, hk⟩ := h
  simp only [List.mem_cons, List.mem_nil_iff, or_false] at hk
  rcases hk with rfl | rfl | rfl | rfl <;> simp [startsStmt, stmtStarters, startsDecl, declStarters]

theorem stmts_head (b : Stmt) (hb : wfStmts b) (E : List DTok) (hE : EndTok E) :
    startsDecl (stmtsToks b ++ E) = false ∧ (∀ r', stmtsToks b ++ E ≠ .kw "CONSTANT" :: r')
      ∧ (∀ r', stmtsToks b ++ E ≠ .kw "LOCAL" :: r') := by
  cases b with
  | cons s t =>
    simp only [wfStmts] at hb
    have := stmt_starts s hb.1 (stmtsToks t ++ E)
    simp only [stmtsToks, List.append_assoc]
    exact stmt_not_decl _ this
  | _ =>
    obtain ⟨h1, h2, h3, h4⟩ := endTok_facts E hE
    all_goals simp [stmtsToks, h1, h2, h3, h4]

theorem body_head (ls : List Local) (b : Stmt) (hb : wfStmts b) (E : List DTok) (hE : EndTok E) :
    startsDecl (algBodyToks ls b ++ E) = false ∧ (∀ r', algBodyToks ls b ++ E ≠ .kw "CONSTANT" :: r') := by
  unfold algBodyToks localsToks
  by_cases h0 : localsWidth ls = 0
  · simp only [h0, if_true, List.nil_append]
    exact ⟨(stmts_head b hb E hE).1, (stmts_head b hb E hE).2.1⟩
  · simp [h0, startsDecl, declStarters]

theorem consts_head (cs : List ConstDeclS) (Y : List DTok) (h : startsDecl Y = false) : startsDecl (constsToks cs ++ Y) = false := by
  unfold constsToks
  by_cases h0 : cs = []
  · simp [h0, h]
  · simp [h0, startsDecl, declStarters]

/-- the part of an algorithm between its header and its end: nested declarations, CONSTANT block, LOCAL block, statements -/
theorem scope_rt (nested : Decl) (cs : List ConstDeclS) (ls : List Local) (b : Stmt) (E : List DTok) (hE : EndTok E)
    (hcs : ∀ c ∈ cs, wfTy c.ty) (hls : wfLocals ls) (hb : wfStmts b)
    (ihN : ∀ r, startsDecl r = false → Ev (fun n => parseDecls n (declsToks nested ++ r)) (nested.erase, r)) :
    ∃ n0, ∀ n, n0 ≤ n →
      parseDecls n (declsToks nested ++ (constsToks cs ++ (algBodyToks ls b ++ E)))
          = some (nested.erase, constsToks cs ++ (algBodyToks ls b ++ E))
      ∧ parseConsts n (constsToks cs ++ (algBodyToks ls b ++ E)) = some (cs, algBodyToks ls b ++ E)
      ∧ parseAlgBody n (algBodyToks ls b ++ E) = some ((ls, b), E) := by
  obtain ⟨hb1, hb2⟩ := body_head ls b hb E hE
  obtain ⟨e1, e2, _, _⟩ := endTok_facts E hE
  obtain ⟨n1, h1⟩ := ihN (constsToks cs ++ (algBodyToks ls b ++ E)) (consts_head cs _ hb1)
  obtain ⟨n2, h2⟩ := consts_rt cs hcs (algBodyToks ls b ++ E) hb2
  obtain ⟨n3, h3⟩ := algBody_rt ls b hls.1 hls.2 hb E e1 e2
  exact ⟨max n1 (max n2 n3), fun n hn => ⟨h1 n (by omega), h2 n (by omega), h3 n (by omega)⟩⟩

theorem paramsOpt_rt (ps : List Param) (hw : wfParams ps) (X : List DTok) (hX : ∀ r', X ≠ .sym "(" :: r') :
    Ev (fun n => parseParamsOpt n (paramsToks ps ++ X)) (ps.map fun p => mkParam p.triple, X) := by
  obtain ⟨D, hD⟩ := exists_bound ps (fun p => tyDepth p.ty)
  refine ⟨ps.length + D + 1, fun n hn => ?_⟩
  dsimp only
  unfold paramsToks
  by_cases h0 : ps = []
  · subst h0
    simp only [if_true, List.nil_append, List.map_nil]
    unfold parseParamsOpt
    split
    · exact absurd rfl (hX _)
    · rfl
  · have := params_roundtrip ps.length ps (Nat.le_refl _) h0 hw.1 hw.2 D hD n hn X
    simp only [h0, if_false, List.append_assoc, List.cons_append, List.nil_append, parseParamsOpt, this, List.map_map]
    rfl

theorem decl_starts (d : Decl) (h : wfDecl d) (r : List DTok) : startsDecl (declToks d ++ r) = true := by
  cases d with
  | typeD d => simp [declToks, typeDeclToks, startsDecl, declStarters]
  | entityD e => simp [declToks, entityToks, startsDecl, declStarters]
  | alg name ps ret nested cs ls b => cases ret <;> simp [declToks, startsDecl, declStarters]
  | rule name ents nested cs ls b dom => simp [declToks, startsDecl, declStarters]
  | nil => simp [wfDecl] at h
  | cons _ _ => simp [wfDecl] at h

theorem entityP_rt (e : EntityDecl) (h : wfEntityP e) (r : List DTok) :
    Ev (fun n => parseEntity n (entityToks e ++ r)) (e.norm, r) := by
  have := entity_rt e.norm (wfEntity_norm e h) r
  rw [entityToks_norm] at this
  exact this

theorem decl_rt (d : Decl) :
    (wfDecl d → ∀ r, Ev (fun n => parseDecl n (declToks d ++ r)) (d.erase, r))
    ∧ (wfDecls d → ∀ r, startsDecl r = false → Ev (fun n => parseDecls n (declsToks d ++ r)) (d.erase, r)) := by
  induction d with
  | typeD d =>
    refine ⟨fun h r => ?_, fun h => absurd h (by simp [wfDecls])⟩
    simp only [wfDecl] at h
    obtain ⟨n1, h1⟩ := typeDecl_rt d h r
    refine ⟨n1 + 1, fun n hn => ?_⟩
    obtain ⟨k, rfl⟩ : ∃ k, n = k + 1 := ⟨n - 1, by omega⟩
    have e1 := h1 k (by omega)
    dsimp only at e1 ⊢
    have hd : typeDeclToks d ++ r = .kw "TYPE" :: (typeDeclToks d ++ r).tail := by simp [typeDeclToks]
    simp only [declToks]
    rw [hd, parseDecl, ← hd, e1]
    rfl
  | entityD e =>
    refine ⟨fun h r => ?_, fun h => absurd h (by simp [wfDecls])⟩
    simp only [wfDecl] at h
    obtain ⟨n1, h1⟩ := entityP_rt e h r
    refine ⟨n1 + 1, fun n hn => ?_⟩
    obtain ⟨k, rfl⟩ : ∃ k, n = k + 1 := ⟨n - 1, by omega⟩
    have e1 := h1 k (by omega)
    dsimp only at e1 ⊢
    have hd : entityToks e ++ r = .kw "ENTITY" :: (entityToks e ++ r).tail := by simp [entityToks]
    simp only [declToks]
    rw [hd, parseDecl, ← hd, e1]
    rfl
  | alg name ps ret nested cs ls b ihN =>
    refine ⟨fun h r => ?_, fun h => absurd h (by simp [wfDecls])⟩
    simp only [wfDecl] at h
    obtain ⟨hps, hret, hnest, hcs, hls, hb⟩ := h
    cases ret with
    | some t =>
      have hE : EndTok (.kw "END_FUNCTION" :: .sym ";" :: r) := ⟨_, _, rfl, by simp⟩
      obtain ⟨n1, h1⟩ := scope_rt nested cs ls b _ hE hcs hls hb (ihN.2 hnest)
      obtain ⟨n2, h2⟩ := paramsOpt_rt ps hps
        (.sym ":" :: (tyToks t ++ .sym ";" :: (declsToks nested ++ (constsToks cs ++ (algBodyToks ls b ++ .kw "END_FUNCTION" :: .sym ";" :: r)))))
        (by intro r' hh; simp at hh)
      refine ⟨max n1 n2 + tyDepth t + 1, fun n hn => ?_⟩
      obtain ⟨k, rfl⟩ : ∃ k, n = k + 1 := ⟨n - 1, by omega⟩
      obtain ⟨a1, a2, a3⟩ := h1 k (by omega)
      have a0 := h2 k (by omega)
      have aty := type_roundtrip t (hret t rfl) k (by omega)
        (.sym ";" :: (declsToks nested ++ (constsToks cs ++ (algBodyToks ls b ++ .kw "END_FUNCTION" :: .sym ";" :: r)))) (by simp [TyFol])
      dsimp only at a0 ⊢
      simp only [declToks, List.append_assoc, List.cons_append, List.nil_append, parseDecl, a0, aty, a1, a2, a3, Decl.erase]
    | none =>
      have hE : EndTok (.kw "END_PROCEDURE" :: .sym ";" :: r) := ⟨_, _, rfl, by simp⟩
      obtain ⟨n1, h1⟩ := scope_rt nested cs ls b _ hE hcs hls hb (ihN.2 hnest)
      obtain ⟨n2, h2⟩ := paramsOpt_rt ps hps
        (.sym ";" :: (declsToks nested ++ (constsToks cs ++ (algBodyToks ls b ++ .kw "END_PROCEDURE" :: .sym ";" :: r))))
        (by intro r' hh; simp at hh)
      refine ⟨max n1 n2 + 1, fun n hn => ?_⟩
      obtain ⟨k, rfl⟩ : ∃ k, n = k + 1 := ⟨n - 1, by omega⟩
      obtain ⟨a1, a2, a3⟩ := h1 k (by omega)
      have a0 := h2 k (by omega)
      dsimp only at a0 ⊢
      simp only [declToks, List.append_assoc, List.cons_append, List.nil_append, parseDecl, a0, a1, a2, a3, Decl.erase]
  | rule name ents nested cs ls b dom ihN =>
    refine ⟨fun h r => ?_, fun h => absurd h (by simp [wfDecls])⟩
    simp only [wfDecl] at h
    obtain ⟨hents, hnest, hcs, hls, hb⟩ := h
    have hE : EndTok ((if dom = [] then [] else .kw "WHERE" :: dom.flatMap domToks) ++ (.kw "END_RULE" :: .sym ";" :: r)) := by
      by_cases hd : dom = []
      · exact ⟨"END_RULE", .sym ";" :: r, by simp [hd], by simp⟩
      · exact ⟨"WHERE", dom.flatMap domToks ++ .kw "END_RULE" :: .sym ";" :: r, by simp [hd], by simp⟩
    obtain ⟨n1, h1⟩ := scope_rt nested cs ls b _ hE hcs hls hb (ihN.2 hnest)
    refine ⟨n1 + ents.length + dom.length + 2, fun n hn => ?_⟩
    obtain ⟨k, rfl⟩ : ∃ k, n = k + 1 := ⟨n - 1, by omega⟩
    obtain ⟨a1, a2, a3⟩ := h1 k (by omega)
    have a0 := parseIdList_rt ents hents k (by omega)
      (.sym ";" :: (declsToks nested ++ (constsToks cs ++ (algBodyToks ls b ++
        ((if dom = [] then [] else .kw "WHERE" :: dom.flatMap domToks) ++ (.kw "END_RULE" :: .sym ";" :: r))))))
    have a4 := clause_rt "WHERE" (parseDom k) domToks dom (.kw "END_RULE" :: .sym ";" :: r) ⟨"END_RULE", _, rfl, by decide⟩
      (fun _ => parseDom_rt dom k (by omega) _ trivial)
    dsimp only
    simp only [declToks, List.append_assoc, List.cons_append, List.nil_append, parseDecl, a0, a1, a2, a3, a4, Decl.erase]
  | nil =>
    refine ⟨fun h => absurd h (by simp [wfDecl]), fun _ r hr => ?_⟩
    refine ⟨1, fun n hn => ?_⟩
    obtain ⟨k, rfl⟩ : ∃ k, n = k + 1 := ⟨n - 1, by omega⟩
    simp [declsToks, parseDecls, hr, Decl.erase]
  | cons d t ihd iht =>
    refine ⟨fun h => absurd h (by simp [wfDecl]), fun h r hr => ?_⟩
    simp only [wfDecls] at h
    obtain ⟨n2, h2⟩ := iht.2 h.2 r hr
    obtain ⟨n1, h1⟩ := ihd.1 h.1 (declsToks t ++ r)
    refine ⟨max n1 n2 + 1, fun n hn => ?_⟩
    obtain ⟨k, rfl⟩ : ∃ k, n = k + 1 := ⟨n - 1, by omega⟩
    have e1 := h1 k (by omega)
    have e2 := h2 k (by omega)
    dsimp only at e1 e2 ⊢
    have hst := decl_starts d h.1 (declsToks t ++ r)
    simp [declsToks, parseDecls, List.append_assoc, hst, e1, e2, Decl.erase]

def wfSchema (s : SchemaS) : Prop := (∀ c ∈ s.consts, wfTy c.ty) ∧ wfDecls s.decls

/-- **Schemas: print/parse round trip at token level.** -/
theorem schema_rt (s : SchemaS) (h : wfSchema s) (r : List DTok) :
    Ev (fun n => parseSchema n (schemaToks s ++ r)) (s.erase, r) := by
  obtain ⟨name, cs, ds⟩ := s
  obtain ⟨hcs, hds⟩ := h
  simp only at hcs hds
  obtain ⟨n2, h2⟩ := (decl_rt ds).2 hds (.kw "END_SCHEMA" :: .sym ";" :: r) (by simp [startsDecl, declStarters])
  have hhead : ∀ r', declsToks ds ++ .kw "END_SCHEMA" :: .sym ";" :: r ≠ .kw "CONSTANT" :: r' := by
    cases ds with
    | cons d t =>
      intro r' hh
      have := decl_starts d hds.1 (declsToks t ++ .kw "END_SCHEMA" :: .sym ";" :: r)
      simp only [declsToks, List.append_assoc] at hh
      rw [hh] at this
      simp [startsDecl, declStarters] at this
    | _ => intro r' hh; simp [declsToks] at hh
  obtain ⟨n1, h1⟩ := consts_rt cs hcs (declsToks ds ++ .kw "END_SCHEMA" :: .sym ";" :: r) hhead
  refine ⟨max n1 n2, fun n hn => ?_⟩
  have e1 := h1 n (by omega)
  have e2 := h2 n (by omega)
  dsimp only at e1 e2 ⊢
  simp only [schemaToks, List.append_assoc, List.cons_append, List.nil_append, parseSchema, e1, e2, SchemaS.erase]

end StepModel.Express

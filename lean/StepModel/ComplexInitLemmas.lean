import StepModel.ComplexInit
/-! Lemmas about `EntNode::sort` (`sortNodes`). -/
namespace StepModel.Complex.Match
open StepModel.Generated StepModel.Complex

theorem sortFrom_succ (ns : Bool) (f : Nat) (L : List Name) (i : Nat) :
    sortFrom ns (f + 1) L i =
      (match L[i]?, L[i + 1]? with
       | some a, some v =>
         if a > v then
           match sortSwitch ns L i v with
           | .ok (L', i') => sortFrom ns f L' i'
           | .crash c => .crash c
           | .outOfFuel => .outOfFuel
         else sortFrom ns f L (i + 1)
       | _, _ => .ok L) := rfl

/-- an already ascending list (aliases that do not change the order, or no alias at all) is left as it is by
`EntNode::sort`, whichever comparisons `lastSmaller` uses -/
theorem sortFrom_ascending (ns : Bool) (L : List Name) (h : L.Pairwise (· ≤ ·)) :
    ∀ (f i : Nat), L.length ≤ f + i → sortFrom ns (f + 1) L i = .ok L := by
  intro f
  induction f with
  | zero =>
    intro i hi
    have : L[i]? = none := by simp; omega
    rw [sortFrom_succ, this]
  | succ f ih =>
    intro i hi
    rw [sortFrom_succ]
    cases h1 : L[i]? with
    | none => rfl
    | some a =>
      cases h2 : L[i + 1]? with
      | none => rfl
      | some v =>
        have hl1 : i < L.length := (List.getElem?_eq_some_iff.mp h1).1
        have hl2 : i + 1 < L.length := (List.getElem?_eq_some_iff.mp h2).1
        have ha : L[i] = a := (List.getElem?_eq_some_iff.mp h1).2
        have hv : L[i + 1] = v := (List.getElem?_eq_some_iff.mp h2).2
        have hle : a ≤ v := by
          have := (List.pairwise_iff_getElem.mp h) i (i + 1) hl1 hl2 (by omega)
          rw [ha, hv] at this; exact this
        have hng : ¬ a > v := Nat.not_lt.mpr hle
        simp only [hng, if_false]
        exact ih (i + 1) (by omega)

theorem sortNodes_ascending (ns : Bool) (L : List Name) (h : L.Pairwise (· ≤ ·)) : sortNodesWith ns L = .ok L := by
  unfold sortNodesWith
  have hlen : L.length ≤ 2 * L.length * L.length + 7 + 0 := by
    have := Nat.le_mul_self L.length
    have h2 : 2 * L.length * L.length = L.length * L.length + L.length * L.length := by
      rw [Nat.mul_assoc, Nat.two_mul]
    omega
  exact sortFrom_ascending ns L h (2 * L.length * L.length + 7) 0 hlen

end StepModel.Complex.Match

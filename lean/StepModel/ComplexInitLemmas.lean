import StepModel.ComplexInit
/-! `EntNode::sort` (`sortSeg`/`sortNodes`): ascending lists are left alone (both `lastSmaller` variants); with the
non-strict `lastSmaller` every list is sorted: the result is an ascending permutation, without crash, within the fuel. -/
namespace StepModel.Complex.Match
open StepModel.Generated StepModel.Complex

def Asc (l : List Name) : Prop := l.Pairwise (· ≤ ·)

theorem asc_append {a b : List Name} : Asc (a ++ b) ↔ Asc a ∧ Asc b ∧ ∀ x ∈ a, ∀ y ∈ b, x ≤ y := by
  unfold Asc; exact List.pairwise_append

theorem getLast?_append_singleton (P : List Name) (n : Name) : (P ++ [n]).getLast? = some n := by simp

theorem getLast?_mem {P : List Name} {x : Name} (h : P.getLast? = some x) : x ∈ P := List.mem_of_getLast? h

theorem asc_getLast {P : List Name} {x : Name} (hP : Asc P) (h : P.getLast? = some x) : ∀ y ∈ P, y ≤ x := by
  induction P with
  | nil => simp at h
  | cons a P ih =>
    have hp := List.pairwise_cons.mp hP
    cases P with
    | nil => simp at h; subst h; intro y hy; simp at hy; rw [hy]; exact Nat.le_refl _
    | cons b P' =>
      have h' : (b :: P').getLast? = some x := by simpa [List.getLast?_cons_cons] using h
      intro y hy
      rcases List.mem_cons.mp hy with e | e
      · rw [e]; exact hp.1 x (getLast?_mem h')
      · exact ih hp.2 h' y e

/-- an ascending list is left as it is, with strict or non-strict `lastSmaller` -/
theorem sortSeg_ascending (ns : Bool) : ∀ (R P : List Name) (f : Nat), R.length < f → P ≠ [] → Asc (P ++ R) →
    sortSeg ns f P R = .ok (P ++ R)
  | [], P, f, hf, _, _ => by
    cases f with
    | zero => simp at hf
    | succ f => simp [sortSeg]
  | n :: R', P, f, hf, hne, hasc => by
    cases f with
    | zero => simp at hf
    | succ f =>
      simp only [sortSeg]
      cases hl : P.getLast? with
      | none => exact absurd (List.getLast?_eq_none_iff.mp hl) hne
      | some x =>
        have hx : x ∈ P := getLast?_mem hl
        have hle : x ≤ n := (asc_append.mp hasc).2.2 x hx n (by simp)
        have : ¬ x > n := Nat.not_lt.mpr hle
        simp only [this, if_false]
        have := sortSeg_ascending ns R' (P ++ [n]) f (by simp at hf; omega) (by simp) (by simpa using hasc)
        simpa using this

theorem sortNodes_ascending (ns : Bool) (L : List Name) (h : L.Pairwise (· ≤ ·)) : sortNodesWith ns L = .ok L := by
  cases L with
  | nil => rfl
  | cons a t =>
    simp only [sortNodesWith]
    have := sortSeg_ascending ns t [a] (t.length + 1) (by omega) (by simp) (by unfold Asc; simpa using h)
    simpa using this

-- ------------------------------------------------------------------ the non-strict `lastSmaller`
theorem lsCond_true (p e v : Name) : lsCond true p e v = true ↔ p ≤ e ∧ e ≤ v := by
  simp only [lsCond, if_true, Bool.and_eq_true, Bool.not_eq_true', decide_eq_false_iff_not, Nat.not_lt]

theorem chainSplit_spec (v : Name) : ∀ (l : List Name) (p : Name),
    (chainSplit true v p l).1 ++ (chainSplit true v p l).2 = l ∧
    Asc (p :: (chainSplit true v p l).1) ∧ (∀ x ∈ (chainSplit true v p l).1, x ≤ v) ∧
    (∀ t r, (chainSplit true v p l).2 = t :: r → ∀ y, (p :: (chainSplit true v p l).1).getLast? = some y →
      ¬ (y ≤ t ∧ t ≤ v))
  | [], p => by simp [chainSplit, Asc]
  | e :: es, p => by
    simp only [chainSplit]
    by_cases hc : lsCond true p e v = true
    · obtain ⟨h1, h2⟩ := (lsCond_true p e v).mp hc
      obtain ⟨a1, a2, a3, a4⟩ := chainSplit_spec v es e
      simp only [hc, if_true]
      refine ⟨by simp [a1], ?_, ?_, ?_⟩
      · have ha := List.pairwise_cons.mp a2
        refine List.pairwise_cons.mpr ⟨?_, a2⟩
        intro y hy
        rcases List.mem_cons.mp hy with e' | e'
        · rw [e']; exact h1
        · exact Nat.le_trans h1 (ha.1 y e')
      · intro x hx
        rcases List.mem_cons.mp hx with e' | e'
        · rw [e']; exact h2
        · exact a3 x e'
      · intro t r ht y hy
        exact a4 t r ht y (by simpa [List.getLast?_cons_cons] using hy)
    · simp only [hc, Bool.false_eq_true, if_false]
      refine ⟨rfl, by simp [Asc], by simp, ?_⟩
      intro t r ht y hy
      simp only [List.cons.injEq] at ht
      obtain ⟨rfl, _⟩ := ht
      simp only [List.getLast?_singleton, Option.some.injEq] at hy
      subst hy
      intro h
      exact hc ((lsCond_true _ _ v).mpr h)


/-- `lastSmaller` (non-strict) on a linked list -/
theorem lastSmallerL_spec (l : List Name) (v : Name) :
    (lastSmallerL true l v = none ↔ ∀ h t, l = h :: t → h > v) ∧
    ∀ A B, lastSmallerL true l v = some (A, B) →
      A ++ B = l ∧ A ≠ [] ∧ Asc A ∧ (∀ x ∈ A, x ≤ v) ∧ A.head? = l.head? ∧
      (∀ t r, B = t :: r → ∀ y, A.getLast? = some y → ¬ (y ≤ t ∧ t ≤ v)) := by
  cases l with
  | nil => simp [lastSmallerL]
  | cons h t =>
    simp only [lastSmallerL]
    by_cases hv : h > v
    · simp only [hv, if_true, true_iff]
      exact ⟨fun h' t' e => by cases e; exact hv, fun A B e => by cases e⟩
    · simp only [hv, if_false]
      refine ⟨⟨fun h' => (by cases h'), fun hn => absurd (hn h t rfl) hv⟩, ?_⟩
      intro A B e
      simp only [Option.some.injEq, Prod.mk.injEq] at e
      obtain ⟨rfl, rfl⟩ := e
      obtain ⟨a1, a2, a3, a4⟩ := chainSplit_spec v t h
      refine ⟨by simp [a1], by simp, a2, ?_, by simp, a4⟩
      intro x hx
      rcases List.mem_cons.mp hx with e | e
      · rw [e]; exact Nat.not_lt.mp hv
      · exact a3 x e

theorem asc_head_le {h : Name} {t : List Name} (ha : Asc (h :: t)) : ∀ y ∈ h :: t, h ≤ y := by
  intro y hy
  rcases List.mem_cons.mp hy with e | e
  · rw [e]; exact Nat.le_refl _
  · exact (List.pairwise_cons.mp ha).1 y e

/-- **`EntNode::sort` sorts** (non-strict `lastSmaller`): started on an ascending non-empty prefix `P` and any rest `R`
with fuel above the length of `R`, it ends without crash on an ascending permutation of `P ++ R`. -/
theorem sortSeg_correct : ∀ (f : Nat) (R P : List Name), R.length < f → P ≠ [] → Asc P →
    ∃ L', sortSeg true f P R = .ok L' ∧ L'.Perm (P ++ R) ∧ Asc L' := by
  intro f
  induction f with
  | zero => intro R P h; simp at h
  | succ f ih =>
    intro R P hf hne hP
    cases R with
    | nil => exact ⟨P, by simp [sortSeg], by simp, hP⟩
    | cons n R' =>
      have hfR : R'.length < f := by simp at hf; omega
      simp only [sortSeg]
      cases hl : P.getLast? with
      | none => exact absurd (List.getLast?_eq_none_iff.mp hl) hne
      | some x =>
        have hxP : x ∈ P := getLast?_mem hl
        have hxmax := asc_getLast hP hl
        simp only
        by_cases hgt : x > n
        · simp only [hgt, if_true]
          cases P with
          | nil => exact absurd rfl hne
          | cons h P0 =>
            have hhead := asc_head_le hP
            obtain ⟨s0, s1⟩ := lastSmallerL_spec ((h :: P0) ++ n :: R') n
            cases hls : lastSmallerL true ((h :: P0) ++ n :: R') n with
            | none =>
              -- the first node is greater than `next`: the run goes to the front
              have hhn : h > n := s0.mp hls h (P0 ++ n :: R') rfl
              obtain ⟨t0, t1⟩ := lastSmallerL_spec (n :: R') h
              cases hls2 : lastSmallerL true (n :: R') h with
              | none =>
                have := t0.mp hls2 n R' rfl
                exact absurd hhn (Nat.lt_asymm this)
              | some CR =>
                obtain ⟨C, R''⟩ := CR
                obtain ⟨c1, c2, c3, c4, c5, _⟩ := t1 C R'' hls2
                have hlen : R''.length < f := by
                  have := congrArg List.length c1
                  simp only [List.length_append, List.length_cons] at this
                  have hC : 0 < C.length := List.length_pos_iff.mpr c2
                  omega
                have hasc : Asc (C ++ (h :: P0)) := by
                  refine asc_append.mpr ⟨c3, hP, fun c hc p hp => ?_⟩
                  exact Nat.le_trans (c4 c hc) (hhead p hp)
                obtain ⟨L', e1, e2, e3⟩ := ih R'' (C ++ (h :: P0)) hlen (by simp) hasc
                refine ⟨L', by simpa [hls2] using e1, ?_, e3⟩
                refine e2.trans ?_
                rw [← c1]
                simp only [List.append_assoc]
                exact (List.perm_append_comm_assoc C (h :: P0) R'')
            | some AB =>
              obtain ⟨A, B'⟩ := AB
              obtain ⟨a1, a2, a3, a4, _, a6⟩ := s1 A B' hls
              simp only
              -- A is a proper prefix of P
              rcases List.append_eq_append_iff.mp a1 with ⟨a', hPa, hB⟩ | ⟨c', hAc, _⟩
              · cases a' with
                | nil =>
                  simp only [List.append_nil] at hPa
                  rw [hPa] at hxP
                  exact absurd (a4 x hxP) (Nat.not_le.mpr hgt)
                | cons t a'' =>
                  simp only [List.cons_append] at hB
                  rw [hB]
                  simp only
                  -- the node behind A is greater than `next`
                  have hlastA : ∃ y, A.getLast? = some y := by
                    cases hA : A.getLast? with
                    | none => exact absurd (List.getLast?_eq_none_iff.mp hA) a2
                    | some y => exact ⟨y, rfl⟩
                  obtain ⟨y, hy⟩ := hlastA
                  have hPsplit := asc_append.mp (by rw [hPa] at hP; exact hP)
                  have hyt : y ≤ t := hPsplit.2.2 y (getLast?_mem hy) t (by simp)
                  have htn : t > n := by
                    have := a6 t (a'' ++ n :: R') hB y hy
                    exact Nat.not_le.mp (fun hle => this ⟨hyt, hle⟩)
                  obtain ⟨t0, t1⟩ := lastSmallerL_spec (n :: R') t
                  cases hls2 : lastSmallerL true (n :: R') t with
                  | none =>
                    have := t0.mp hls2 n R' rfl
                    exact absurd htn (Nat.lt_asymm this)
                  | some CR =>
                    obtain ⟨C, R''⟩ := CR
                    obtain ⟨c1, c2, c3, c4, c5, _⟩ := t1 C R'' hls2
                    simp only
                    have hdrop : (h :: P0).drop A.length = t :: a'' := by
                      rw [hPa]; simp
                    rw [hdrop]
                    have hlen : R''.length < f := by
                      have := congrArg List.length c1
                      simp only [List.length_append, List.length_cons] at this
                      have hC : 0 < C.length := List.length_pos_iff.mpr c2
                      omega
                    have hCn : ∀ c ∈ C, n ≤ c := by
                      cases C with
                      | nil => exact absurd rfl c2
                      | cons c0 C' =>
                        simp at c5; subst c5
                        exact asc_head_le c3
                    have hasc : Asc (A ++ C ++ (t :: a'')) := by
                      refine asc_append.mpr ⟨asc_append.mpr ⟨a3, c3, fun a ha c hc => Nat.le_trans (a4 a ha) (hCn c hc)⟩,
                        hPsplit.2.1, fun z hz p hp => ?_⟩
                      rcases List.mem_append.mp hz with e | e
                      · exact hPsplit.2.2 z e p hp
                      · exact Nat.le_trans (c4 z e) (asc_head_le hPsplit.2.1 p hp)
                    obtain ⟨L', e1, e2, e3⟩ := ih R'' (A ++ C ++ (t :: a'')) hlen (by simp [a2]) hasc
                    refine ⟨L', by simpa using e1, ?_, e3⟩
                    refine e2.trans ?_
                    rw [hPa, ← c1]
                    simp only [List.append_assoc]
                    refine List.Perm.append_left A ?_
                    exact (List.perm_append_comm_assoc C (t :: a'') R'')
              · -- A would contain `this`, which is greater than `next`
                have : x ∈ A := by rw [hAc]; exact List.mem_append.mpr (Or.inl hxP)
                exact absurd (a4 x this) (Nat.not_le.mpr hgt)
        · simp only [hgt, if_false]
          have hle : x ≤ n := Nat.not_lt.mp hgt
          have hasc : Asc (P ++ [n]) := asc_append.mpr ⟨hP, by simp [Asc], fun p hp y hy => by
            simp only [List.mem_singleton] at hy; rw [hy]; exact Nat.le_trans (hxmax p hp) hle⟩
          obtain ⟨L', e1, e2, e3⟩ := ih R' (P ++ [n]) hfR (by simp) hasc
          exact ⟨L', e1, by simpa using e2, e3⟩

/-- every request list, however the renaming left it, is sorted by `EntNode::sort` (non-strict `lastSmaller`) -/
theorem sortNodes_correct (L : List Name) : ∃ L', sortNodesWith true L = .ok L' ∧ L'.Perm L ∧ Asc L' := by
  cases L with
  | nil => exact ⟨[], rfl, List.Perm.refl _, by simp [Asc]⟩
  | cons h t =>
    simp only [sortNodesWith]
    obtain ⟨L', e1, e2, e3⟩ := sortSeg_correct (t.length + 1) t [h] (by omega) (by simp) (by simp [Asc])
    exact ⟨L', e1, by simpa using e2, e3⟩

end StepModel.Complex.Match

import StepModel.GenCxxRedefSpec
/-! Several supertypes: the constructor of an `AppendMultInstance` part (and everything it constructs) only ever flags
`STEPattribute` objects it created itself — it searches its own `attributes` list.  Hence the flags of every object that
existed before a part constructor ran are not changed by it ("frame property"). -/
namespace StepModel.GenCxx
open StepModel.Generated

def flagsAt (st : IState) (j : Nat) : Option (Bool × Bool) := (st.objs[j]?).map (fun o => (o.derive, o.redef))

/-- `st'` has at least the objects of `st`, and the flags of the objects below `b` are the same -/
def SameBelow (b : Nat) (st st' : IState) : Prop :=
  st.objs.length ≤ st'.objs.length ∧ ∀ j, j < b → flagsAt st' j = flagsAt st j

theorem SameBelow.refl (b : Nat) (st : IState) : SameBelow b st st := ⟨Nat.le_refl _, fun _ _ => rfl⟩
theorem SameBelow.trans {b : Nat} {x y z : IState} (h1 : SameBelow b x y) (h2 : SameBelow b y z) : SameBelow b x z :=
  ⟨Nat.le_trans h1.1 h2.1, fun j hj => (h2.2 j hj).trans (h1.2 j hj)⟩

theorem flagsAt_modAt (st : IState) (i j : Nat) (f : Obj → Obj) (h : j ≠ i) :
    ((modAt st.objs i f)[j]?).map (fun o => (o.derive, o.redef)) = flagsAt st j := by
  unfold flagsAt
  rw [modAt_getElem]
  have : (j == i) = false := beq_eq_false_iff_ne.mpr h
  cases st.objs[j]? <;> simp [this]

theorem sameBelow_setDerive (b : Nat) (st : IState) (i : Nat) (hi : b ≤ i) : SameBelow b st (setDerive st i) :=
  ⟨by simp [setDerive, modAt_length], fun j hj => by
    have := flagsAt_modAt st i j (fun o => { o with derive := true }) (by omega)
    simpa [flagsAt, setDerive] using this⟩

theorem sameBelow_setRedef (b : Nat) (st : IState) (i : Nat) (hi : b ≤ i) : SameBelow b st (setRedef st i) :=
  ⟨by simp [setRedef, modAt_length], fun j hj => by
    have := flagsAt_modAt st i j (fun o => { o with redef := true }) (by omega)
    simpa [flagsAt, setRedef] using this⟩

theorem findAttr_mem {st : IState} {l : List Nat} {nm : String} {ow : Option String} {i : Nat}
    (h : findAttr st l nm ow = some i) : i ∈ l := by
  unfold findAttr at h
  exact List.mem_of_find?_eq_some h

theorem applyDerived_frame (b : Nat) (calls : List (String × String)) (st : IState) (l : List Nat)
    (hl : ∀ id ∈ l, b ≤ id) : SameBelow b st (applyDerived st l calls) := by
  unfold applyDerived
  induction calls generalizing st with
  | nil => exact SameBelow.refl b st
  | cons c cs ih =>
    simp only [List.foldl_cons]
    cases hf : findAttr st l c.1 (some c.2) with
    | none => exact ih st
    | some i => exact (sameBelow_setDerive b st i (hl i (findAttr_mem hf))).trans (ih _)

theorem pushId_mem {st : IState} {l : List Nat} {id x : Nat} (h : x ∈ pushId st l id) : x ∈ l ∨ x = id := by
  unfold pushId at h
  split at h
  · exact Or.inl h
  · rcases List.mem_append.mp h with h | h
    · exact Or.inl h
    · exact Or.inr (by simpa using h)

/-- one own attribute of a part -/
theorem ownStep_frame (ro : Attr → Option String) (b : Nat) (e : Entity) (st : IState) (l : List Nat) (a : Attr)
    (hb : b ≤ st.objs.length) (hl : ∀ id ∈ l, b ≤ id) :
    SameBelow b st (ownStep ro e (st, some l) a).1 ∧
    ∃ l', (ownStep ro e (st, some l) a).2 = some l' ∧ ∀ id ∈ l', b ≤ id := by
  let sa : SA := { owner := e.name, name := dictAttrName a, kind := attrDKind a }
  let st1 : IState := { st with objs := st.objs ++ [{ sa := sa }] }
  let l' := pushId st1 l st.objs.length
  let st2 : IState := { st1 with head := pushId st1 st1.head st.objs.length }
  have hl' : ∀ id ∈ l', b ≤ id := by
    intro id hid
    rcases pushId_mem hid with h | h
    · exact hl id h
    · omega
  have h12 : SameBelow b st st2 := by
    refine ⟨by simp [st2, st1], fun j hj => ?_⟩
    show ((st.objs ++ [({ sa := sa } : Obj)])[j]?).map _ = _
    unfold flagsAt
    rw [List.getElem?_append_left (by omega)]
  have hres : ownStep ro e (st, some l) a =
      ((if a.redecl.isSome then
          (match findAttr st2 l' a.name (ro a) with | some j => setRedef st2 j | none => st2) else st2), some l') := rfl
  rw [hres]
  refine ⟨?_, l', rfl, hl'⟩
  by_cases hr : a.redecl.isSome = true
  · simp only [hr, ↓reduceIte]
    cases hf : findAttr st2 l' a.name (ro a) with
    | none => exact h12
    | some j => exact h12.trans (sameBelow_setRedef b st2 j (hl' j (findAttr_mem hf)))
  · simp only [hr]; exact h12

theorem ownLoop_frame (ro : Attr → Option String) (b : Nat) (e : Entity) (st : IState) (l : List Nat)
    (hb : b ≤ st.objs.length) (hl : ∀ id ∈ l, b ≤ id) :
    SameBelow b st (ownLoop ro e st (some l)).1 ∧
    ∃ l', (ownLoop ro e st (some l)).2 = some l' ∧ ∀ id ∈ l', b ≤ id := by
  unfold ownLoop
  generalize e.attrs.filter (fun a => a.kind == .explicit) = as
  induction as generalizing st l with
  | nil => exact ⟨SameBelow.refl b st, l, rfl, hl⟩
  | cons a as ih =>
    simp only [List.foldl_cons]
    obtain ⟨s1, l1, e1, hl1⟩ := ownStep_frame ro b e st l a hb hl
    have hpair : ownStep ro e (st, some l) a = ((ownStep ro e (st, some l) a).1, some l1) := Prod.ext rfl e1
    rw [hpair]
    obtain ⟨s2, l2, e2, hl2⟩ := ih (ownStep ro e (st, some l) a).1 l1 (Nat.le_trans hb s1.1) hl1
    exact ⟨s1.trans s2, l2, e2, hl2⟩

/-- **Frame property of part constructors.**  `ctorWF` (the constructor with arguments, running on an instance with its own
    attribute list `cur`) leaves the flags of every object older than `b` alone, as long as its own list only holds objects
    not older than `b` — in particular a part constructed with an empty list changes no flag of any object that existed. -/
theorem ctorWF_frame (s : Schema) (b : Nat) (f : Nat) :
    ∀ n st cur, b ≤ st.objs.length → (∀ id ∈ cur, b ≤ id) →
      SameBelow b st (ctorWF s f n st cur).1 ∧ ∀ id ∈ (ctorWF s f n st cur).2, b ≤ id := by
  induction f with
  | zero => intro n st cur _ hc; exact ⟨SameBelow.refl b st, hc⟩
  | succ f ih =>
    intro n st cur hb hc
    rw [ctorWF_succ]
    cases hE : s.findE n with
    | none => exact ⟨SameBelow.refl b st, hc⟩
    | some e =>
      simp only
      -- the other supertypes: parts of their own, fresh lists
      have hfold : ∀ (L : List String) (st' : IState), b ≤ st'.objs.length →
          SameBelow b st' (L.foldl (fun st q => (ctorWF s f q st []).1) st') := by
        intro L
        induction L with
        | nil => intro st' _; exact SameBelow.refl b st'
        | cons q qs ihq =>
          intro st' hb'
          simp only [List.foldl_cons]
          have h1 := (ih q st' [] hb' (by intro id h; simp at h)).1
          exact h1.trans (ihq _ (Nat.le_trans hb' h1.1))
      -- everything after the principal supertype's constructor, for any result `p1` of it
      have body : ∀ (p1 : IState × List Nat) (tail : List String), SameBelow b st p1.1 → (∀ id ∈ p1.2, b ≤ id) →
          SameBelow b st
            (applyDerived (ownLoop (redefOwner s) e (tail.foldl (fun st q => (ctorWF s f q st []).1) p1.1) (some p1.2)).1
              ((ownLoop (redefOwner s) e (tail.foldl (fun st q => (ctorWF s f q st []).1) p1.1) (some p1.2)).2.getD []) (derivedCalls s n)) ∧
          ∀ id ∈ (ownLoop (redefOwner s) e (tail.foldl (fun st q => (ctorWF s f q st []).1) p1.1) (some p1.2)).2.getD [], b ≤ id := by
        intro p1 tail hp1 hp2
        have hb1 : b ≤ p1.1.objs.length := Nat.le_trans hb hp1.1
        have h2 := hfold tail p1.1 hb1
        generalize tail.foldl (fun st q => (ctorWF s f q st []).1) p1.1 = st2 at h2
        obtain ⟨h3, l3, e3, hl3⟩ := ownLoop_frame (redefOwner s) b e st2 p1.2 (Nat.le_trans hb1 h2.1) hp2
        have hget : (ownLoop (redefOwner s) e st2 (some p1.2)).2.getD [] = l3 := by rw [e3]; rfl
        rw [hget]
        exact ⟨((hp1.trans h2).trans h3).trans (applyDerived_frame b _ _ l3 hl3), hl3⟩
      cases hs : e.supers with
      | nil => exact body (st, cur) [] (SameBelow.refl b st) hc
      | cons p ps =>
        obtain ⟨i1, i2⟩ := ih p st cur hb hc
        exact body (ctorWF s f p st cur) ps i1 i2

/-! ## the principal line -/

/-- the head's attributes are told apart by (owner, registered name) -/
def HeadKeyInj (st : IState) : Prop :=
  ∀ i ∈ st.head, ∀ j ∈ st.head, ∀ a b, saAt st i = some a → saAt st j = some b → keyOf a = keyOf b → i = j

/-- `MakeDerived` calls executed on the head list of ANY state: an attribute on the head is derived afterwards iff it was, or
    one of the calls names it -/
theorem applyDerived_on_head (calls : List (String × String)) (st : IState) (hk : HeadKeyInj st) :
    (applyDerived st st.head calls).head = st.head ∧
    (∀ j, saAt (applyDerived st st.head calls) j = saAt st j) ∧
    ∀ j ∈ st.head, ∀ a, saAt st j = some a →
      (dAt (applyDerived st st.head calls) j = true ↔ dAt st j = true ∨ (a.name, a.owner) ∈ calls) := by
  induction calls generalizing st with
  | nil => exact ⟨rfl, fun _ => rfl, fun j _ a _ => by simp [applyDerived]⟩
  | cons c cs ih =>
    obtain ⟨x, cr⟩ := c
    simp only [applyDerived, List.foldl_cons]
    cases hf : findAttr st st.head x (some cr) with
    | none =>
      have := ih st hk
      simp only [applyDerived] at this
      obtain ⟨t1, t2, t3⟩ := this
      refine ⟨t1, t2, fun j hj a ha => ?_⟩
      rw [t3 j hj a ha]
      have hno := findAttr_none hf j hj a ha
      constructor
      · rintro (h | h)
        · exact Or.inl h
        · exact Or.inr (List.mem_cons_of_mem _ h)
      · rintro (h | h)
        · exact Or.inl h
        · rcases List.mem_cons.mp h with e | h
          · simp only [Prod.mk.injEq] at e; exact absurd e hno
          · exact Or.inr h
    | some i =>
      obtain ⟨hi, a0, ha0, hn0, ho0⟩ := findAttr_some hf
      have hsa : ∀ j, saAt (setDerive st i) j = saAt st j := saAt_setDerive st i
      have hk' : HeadKeyInj (setDerive st i) := by
        intro i1 h1 j1 h2 a b ha hb hab
        exact hk i1 h1 j1 h2 a b (by rw [← hsa]; exact ha) (by rw [← hsa]; exact hb) hab
      have := ih (setDerive st i) hk'
      simp only [applyDerived] at this
      obtain ⟨t1, t2, t3⟩ := this
      have hhead : (setDerive st i).head = st.head := rfl
      rw [hhead] at t1 t2 t3
      refine ⟨t1, fun j => (t2 j).trans (hsa j), fun j hj a ha => ?_⟩
      rw [t3 j hj a (by rw [hsa]; exact ha), dAt_setDerive]
      have hlt := saAt_lt ha
      simp only [Bool.or_eq_true, Bool.and_eq_true, beq_iff_eq, decide_eq_true_eq, hlt, and_true]
      constructor
      · rintro ((h | h) | h)
        · exact Or.inl h
        · subst h
          rw [ha0] at ha; cases ha
          exact Or.inr (by simp [hn0, ho0])
        · exact Or.inr (List.mem_cons_of_mem _ h)
      · rintro (h | h)
        · exact Or.inl (Or.inl h)
        · rcases List.mem_cons.mp h with e | h
          · simp only [Prod.mk.injEq] at e
            have : j = i := hk j hj i hi a a0 ha ha0 (by simp [keyOf, e.1, e.2, hn0, ho0])
            exact Or.inl (Or.inr this)
          · exact Or.inr h

/-- the own-attribute loop of a head constructor creates objects and sets `_redefAttr`; it never touches `_derive` -/
theorem ownStep_none_dAt (ro : Attr → Option String) (e : Entity) (st : IState) (a : Attr) :
    (ownStep ro e (st, none) a).2 = none ∧ st.objs.length ≤ (ownStep ro e (st, none) a).1.objs.length ∧
    (∀ j, j < st.objs.length → dAt (ownStep ro e (st, none) a).1 j = dAt st j ∧
      saAt (ownStep ro e (st, none) a).1 j = saAt st j) := by
  let sa : SA := { owner := e.name, name := dictAttrName a, kind := attrDKind a }
  let st1 : IState := { st with objs := st.objs ++ [{ sa := sa }] }
  let st2 : IState := { st1 with head := pushId st1 st1.head st.objs.length }
  have h2 : ∀ j, j < st.objs.length → dAt st2 j = dAt st j ∧ saAt st2 j = saAt st j := by
    intro j hj
    constructor
    · show (match (st.objs ++ [({ sa := sa } : Obj)])[j]? with | some o => o.derive | none => false) = dAt st j
      unfold dAt; rw [List.getElem?_append_left hj]; rfl
    · show ((st.objs ++ [({ sa := sa } : Obj)])[j]?).map (·.sa) = saAt st j
      unfold saAt; rw [List.getElem?_append_left hj]
  have hres : ownStep ro e (st, none) a =
      ((if a.redecl.isSome then
          (match findAttr st2 st2.head a.name (ro a) with | some j => setRedef st2 j | none => st2) else st2), none) := rfl
  rw [hres]
  refine ⟨rfl, ?_, ?_⟩
  · by_cases hr : a.redecl.isSome = true
    · simp only [hr, ↓reduceIte]
      cases findAttr st2 st2.head a.name (ro a) with
      | none => simp [st2, st1]
      | some j => simp [setRedef, modAt_length, st2, st1]
    · simp only [hr]; simp [st2, st1]
  · intro j hj
    by_cases hr : a.redecl.isSome = true
    · simp only [hr, ↓reduceIte]
      cases findAttr st2 st2.head a.name (ro a) with
      | none => exact h2 j hj
      | some i => exact ⟨by rw [dAt_setRedef]; exact (h2 j hj).1, by rw [saAt_setRedef]; exact (h2 j hj).2⟩
    · simp only [hr]; exact h2 j hj

theorem ownLoop_none_dAt (ro : Attr → Option String) (e : Entity) (st : IState) :
    st.objs.length ≤ (ownLoop ro e st none).1.objs.length ∧
    ∀ j, j < st.objs.length → dAt (ownLoop ro e st none).1 j = dAt st j ∧ saAt (ownLoop ro e st none).1 j = saAt st j := by
  unfold ownLoop
  generalize e.attrs.filter (fun a => a.kind == .explicit) = as
  induction as generalizing st with
  | nil => exact ⟨Nat.le_refl _, fun j _ => ⟨rfl, rfl⟩⟩
  | cons a as ih =>
    simp only [List.foldl_cons]
    obtain ⟨e1, l1, d1⟩ := ownStep_none_dAt ro e st a
    have hpair : ownStep ro e (st, none) a = ((ownStep ro e (st, none) a).1, none) := Prod.ext rfl e1
    rw [hpair]
    obtain ⟨l2, d2⟩ := ih (ownStep ro e (st, none) a).1
    refine ⟨Nat.le_trans l1 l2, fun j hj => ?_⟩
    have := d2 j (Nat.lt_of_lt_of_le hj l1)
    exact ⟨this.1.trans (d1 j hj).1, this.2.trans (d1 j hj).2⟩

theorem dAt_of_flagsAt {st st' : IState} {j : Nat} (h : flagsAt st' j = flagsAt st j) : dAt st' j = dAt st j := by
  unfold flagsAt at h
  unfold dAt
  cases h1 : st'.objs[j]? <;> cases h2 : st.objs[j]? <;> simp_all

end StepModel.GenCxx

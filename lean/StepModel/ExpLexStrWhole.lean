import StepModel.ExpSplitCtx
/-!
String literals without a dot are never split: `nextBreakpoint` cuts only after dots, so `breakLongStr` writes them whole at every
line length, and the character-level round trip is exact for expressions whose string literals contain no dot.
-/
namespace StepModel.Express
open StepModel.Generated

theorem splitDots_nodot : ∀ (s : List Char), s ≠ [] → (∀ c ∈ s, c ≠ '.') → splitDots s = [s] := by
  intro s
  induction s with
  | nil => intro h; exact absurd rfl h
  | cons c r ih =>
    intro _ hd
    have hc : c ≠ '.' := hd c (by simp)
    cases r with
    | nil => simp [splitDots, hc]
    | cons d r' =>
      have := ih (by simp) (fun x hx => hd x (List.mem_cons_of_mem _ hx))
      rw [splitDots]
      simp only [hc, if_false, this]

theorem escQ_nodot (s : List Char) (h : ∀ c ∈ s, c ≠ '.') : ∀ c ∈ escQ s, c ≠ '.' := by
  intro c hc
  rcases mem_escQ c s hc with h1 | h1
  · exact h c h1
  · subst h1; decide

theorem literalSplits_single (st : PState) (p : List Char) (cur : Nat) (sl : Bool) : literalSplits st [p] cur sl true = false := by
  simp [literalSplits]

/-- a dot-free literal: one token, at every line length -/
theorem K_str_whole (st : PState) (TS : List Tok) (lt : Option Tok) (s0 : List Char) (paren : Bool) (hK : K st TS lt)
    (hd : ∀ c ∈ s0, c ≠ '.') :
    ∃ lt', K (breakLongStr st s0 paren) (TS ++ [.str (escQ s0)]) lt' ∧ (lt' = none ∨ lt' = some (.str (escQ s0))) := by
  have hinvF := inv_breakLongStr st s0 paren hK.1
  have hwf : TokWF (.str (escQ s0)) := wf_str ⟨s0, rfl⟩
  unfold breakLongStr at hinvF ⊢
  simp only [] at hinvF ⊢
  split
  · rename_i hshort
    simp only [hshort, if_true] at hinvF
    by_cases hsl : st.spaceLast = true
    · have hlt : lt = none := hK.2.2 (hK.1 hsl)
      obtain ⟨lt', hK', hr'⟩ := K_raw st TS lt none ⟨false, 0, [(.str (escQ s0), 0)]⟩ hK (Or.inl hlt)
        ⟨hwf, fun t0 h0 => by simp [AFrag.prev] at h0, trivial⟩
      refine ⟨lt', ?_, ?_⟩
      · simpa [AFrag.text, AFrag.toks, bodyText, blanks, sp, hsl, List.append_assoc] using hK'
      · simpa [AFrag.flow, AFrag.prev, endAfter, nxt] using hr'
    · obtain ⟨lt', hK', hr'⟩ := K_raw st TS lt lt ⟨false, 1, [(.str (escQ s0), 0)]⟩ hK (Or.inr rfl)
        ⟨hwf, fun t0 h0 => by simp [AFrag.prev] at h0, trivial⟩
      refine ⟨lt', ?_, ?_⟩
      · simpa [AFrag.text, AFrag.toks, bodyText, blanks, sp, hsl, List.append_assoc] using hK'
      · simpa [AFrag.flow, AFrag.prev, endAfter, nxt] using hr'
  · rename_i hlong
    simp only [hlong, if_false] at hinvF
    have hne : escQ s0 ≠ [] := by intro h; simp [h] at hlong
    have hps : splitDots (escQ s0) = [escQ s0] := splitDots_nodot _ hne (escQ_nodot s0 hd)
    have hpar : splitParen st [escQ s0] paren = false := by simp [splitParen, literalSplits_single]
    rw [hps] at hinvF ⊢
    simp only [hpar, Bool.false_eq_true, if_false] at hinvF ⊢
    obtain ⟨W, hW, hWws, hW0, _⟩ := maybeBreak_first st (escQ s0).length
    have hsafe : bodySafe (if W = [] then lt else none) [(.str (escQ s0), 1)] := by
      refine ⟨hwf, fun t0 h0 => ?_, trivial⟩
      by_cases hw : W = []
      · have hlt : lt = none := hK.2.2 (hK.1 (hW0 hw))
        rw [if_pos hw, hlt] at h0; cases h0
      · rw [if_neg hw] at h0; cases h0
    have hl := lexInv_piece st.text TS lt hK.2.1 hK.2.2 W hWws [(.str (escQ s0), 1)] hsafe
    have htext : (raw (breakPieces st [escQ s0] true) ['\'', ' ']).text
        = st.text ++ W ++ bodyText [(.str (escQ s0), 1)] := by
      simp [breakPieces, text_raw, hW, bodyText, sp, blanks, List.append_assoc]
    refine ⟨none, ⟨hinvF, ?_, fun _ => rfl⟩, Or.inl rfl⟩
    rw [htext]
    simpa [endAfter, nxt] using hl.1

theorem mem_escQ_of (c : Char) (s : List Char) (h : c ∈ s) : c ∈ escQ s := by
  have hq : ExpPrec.stringQuoteDoubled = true := rfl
  simp only [escQ, hq, if_true, List.mem_flatMap]
  refine ⟨c, h, ?_⟩
  by_cases hc : c = '\'' <;> simp [hc]

/-- Part I with whole string literals: exact tokens -/
theorem K_runW (xs : List SeqEl) : ∀ (st : PState) (TS : List Tok) (lt slt : Option Tok), K st TS lt → (lt = none ∨ lt = slt) →
    SafeSeqS slt xs → (∀ s p, SeqEl.strF s p ∈ xs → ∀ c ∈ s, c ≠ '.') →
    ∃ lt', K (run st (xs.map SeqEl.frag)) (TS ++ xs.flatMap SeqEl.toks) lt' ∧ (lt' = none ∨ lt' = flowSeqS slt xs) := by
  induction xs with
  | nil => intro st TS lt slt hK hr _ _; exact ⟨lt, by simpa [run] using hK, hr⟩
  | cons x xs ih =>
    intro st TS lt slt hK hr hs hd
    have hd' : ∀ s p, SeqEl.strF s p ∈ xs → ∀ c ∈ s, c ≠ '.' := fun s p h => hd s p (List.mem_cons_of_mem _ h)
    cases x with
    | af a =>
      obtain ⟨lt1, hK1, hr1⟩ := K_step st TS lt slt a hK hr hs.1
      obtain ⟨lt2, hK2, hr2⟩ := ih (step st a.frag) (TS ++ a.toks) lt1 (a.flow slt) hK1 hr1 hs.2 hd'
      exact ⟨lt2, by simpa [run, SeqEl.frag, SeqEl.toks, List.append_assoc] using hK2, hr2⟩
    | strF s p =>
      obtain ⟨lt1, hK1, hr1⟩ := K_str_whole st TS lt s p hK (hd s p (by simp))
      obtain ⟨lt2, hK2, hr2⟩ := ih (breakLongStr st s p) (TS ++ [.str (escQ s)]) lt1 (some (.str (escQ s))) hK1 hr1 hs.2 hd'
      exact ⟨lt2, by simpa [run, SeqEl.frag, SeqEl.toks, step, List.append_assoc] using hK2, hr2⟩

end StepModel.Express

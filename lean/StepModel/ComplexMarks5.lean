import StepModel.ComplexMarks4
/-! `matchORs`: marks through the AndList / AndOrList loops (an UNSATISFIED child of an AndOrList is unmarked) and through
`OrList::matchORs` (every alternative is tried and unmarked again, then `acceptChoice` marks the first choice). -/
namespace StepModel.Complex.Match
open StepModel.Generated StepModel.Complex

theorem Kr_K {v : MT} (hk : Kr v) (hs : Stored v) : K v := by
  rcases stored_cases hs with h | h | h
  · rw [h] at hk; simp [Kr, MT.rank] at hk
  · rw [h] at hk; simp [Kr, MT.rank] at hk
  · exact h

/-- when the stored value of a list is the maximum of its children's and counts, the children that hold marks count -/
theorem kc_of_node {N : List Name} {j : Join} {v : MT} {c c1 : Int} {k : Nat} {cs : List ST} {es : Ents}
    (hsem : SemV N (skel (.mult j v c c1 k cs))) (hv : v = setViableVal cs es) (huc : j = .and ∨ UC cs) :
    Kr v → KC cs := by
  intro hk ch hch
  simp only [skel] at hsem
  obtain ⟨hne0, hsl, _, hsat, hstv, _⟩ := hsem
  have hne : cs ≠ [] := by intro e; subst e; exact hne0 rfl
  have hst : ∀ c ∈ cs, Stored c.viable := fun c hc => by
    have := SemV_stored (SemV_child hsl hc); rwa [viable_skel'] at this
  obtain ⟨s1, s2, s3⟩ := setViableVal_props cs es hne hst
  have hnu : setViableVal cs es ≠ .unknown := by
    intro e; rw [hv, e] at hk; simp [Kr, MT.rank] at hk
  have hcu : ch.viable ≠ .unknown := fun e => hnu (s2.mpr ⟨ch, hch, e⟩)
  rcases stored_W (hst ch hch) with a | a | a
  · exact absurd a hcu
  · rcases huc with hj | huc
    · exfalso
      subst hj
      have := hsat (Kr_K hk hstv)
      simp only [trV, satO] at this
      have hall := (satOAll_all N _).mp this
      have hcs := SemV_unsat (SemV_child hsl hch) (by rw [viable_skel']; exact a)
      rw [hall _ (trVL_mem (mem_skelL hch))] at hcs; cases hcs
    · exact Or.inl (huc ch hch a)
  · exact Or.inr a

structure OMPost (o : Name → Nat) (t : ST) (es : Ents) (r : ST × Ents × MT) : Prop where
  fr : Fr o r.1 r.2.1
  same : SameOut o es r.2.1
  tidy : Tidy r.1
  all : t.isOr = false → r.2.2 = .all → allMarked r.2.1 = true

theorem unsat_of_viable {r v : MT} (h : RetOK r v) (hv : v = .unsat) : r = .unsat := by
  rcases h.2.2 with h' | h'
  · exact h'
  · have := h.2.1 h'; rw [hv] at this; exact absurd rfl (K_ne_unsat this)

theorem ors_marks (N : List Name) (hN : N.Pairwise (· < ·)) : ∀ f : Nat,
    (∀ t es r o, matchORs f t es = .ok r → Pend t → SemV N (skel t) → names es = N → Fr o t es → Tidy t →
      OMPost o t es r) ∧
    (∀ isAnd done rest es r o, joinORs f isAnd done rest es = .ok r → PendL rest → SemVL N (skelL rest) → names es = N →
      FrL o rest es → TidyL rest → (isAnd = false → UC rest) →
      ∃ tail, r.1 = done ++ tail ∧ FrL o tail r.2.1 ∧ SameOut o es r.2.1 ∧ TidyL tail ∧ (isAnd = false → UC tail)) ∧
    (∀ restT idx done es rv v c c1 k r o, orORs f idx done (freshL restT) es rv v c c1 k = .ok r →
      treeWFL restT = true → names es = N → Fr0 o es →
      ∃ tail, r.1 = done ++ tail ∧ holdsL tail = [] ∧ Fr0 o r.2.1 ∧ SameOut o es r.2.1) := by
  intro f
  induction f with
  | zero =>
    exact ⟨fun _ _ _ _ h => by simp [matchORs] at h, fun _ _ _ _ _ _ h => by simp [joinORs] at h,
      fun _ _ _ _ _ _ _ _ _ _ _ h => by simp [orORs] at h⟩
  | succ f ih =>
    obtain ⟨ih1, ih2, ih3⟩ := ih
    refine ⟨?_, ?_, ?_⟩
    · intro t es r o h hp hs hnm hfr htidy
      have O := (ors_sem N hN (f + 1)).1 t es r h hp hs hnm
      cases t with
      | simple n v im => exact absurd hp (by simp [Pend])
      | mult j v c c1 k cs =>
        obtain ⟨hc, hl⟩ := hfr
        simp only [Loc] at hl
        simp only [Tidy] at htidy
        obtain ⟨htl, _, huc, _⟩ := htidy
        cases j with
        | and =>
          simp only [Pend] at hp
          have hs' := hs
          simp only [skel] at hs'
          have hne : cs ≠ [] := by intro e; subst e; exact hs'.1 rfl
          have hemp : cs.isEmpty = false := by cases cs with | nil => exact absurd rfl hne | cons => rfl
          simp only [matchORs, hemp, Bool.false_eq_true, if_false] at h
          obtain ⟨⟨cs', es', failed⟩, h1, h2⟩ := bind_ok' h
          obtain ⟨tail, htail, hfr2, hsame, htd, _⟩ := ih2 true [] cs es _ o h1 hp.2 hs'.2.1 hnm ⟨hc, hl⟩ htl
            (fun h' => by cases h')
          simp only [List.nil_append] at htail
          subst htail
          cases failed with
          | true =>
            simp only [if_true] at h2; cases h2
            refine ⟨⟨hfr2.1, hfr2.2⟩, hsame, ?_, fun _ h' => by cases h'⟩
            simp only [Tidy]
            exact ⟨htd, fun hk => by simp [Kr, MT.rank] at hk, fun h' => absurd rfl h', fun h' => by cases h'⟩
          | false =>
            simp only [Bool.false_eq_true, if_false] at h2; cases h2
            refine ⟨⟨hfr2.1, hfr2.2⟩, hsame, ?_, fun _ h' => setViableVal_all h'⟩
            simp only [Tidy]
            exact ⟨htd, kc_of_node O.sem rfl (Or.inl rfl), fun h' => absurd rfl h', fun h' => by cases h'⟩
        | andor =>
          simp only [Pend] at hp
          have hs' := hs
          simp only [skel] at hs'
          have hne : cs ≠ [] := by intro e; subst e; exact hs'.1 rfl
          have hemp : cs.isEmpty = false := by cases cs with | nil => exact absurd rfl hne | cons => rfl
          simp only [matchORs, hemp, Bool.false_eq_true, if_false] at h
          obtain ⟨⟨cs', es', flag⟩, h1, h2⟩ := bind_ok' h
          obtain ⟨tail, htail, hfr2, hsame, htd, huc2⟩ := ih2 false [] cs es _ o h1 hp.2 hs'.2.1 hnm ⟨hc, hl⟩ htl
            (fun _ => huc (by simp))
          simp only [List.nil_append] at htail
          subst htail
          cases h2
          refine ⟨⟨hfr2.1, hfr2.2⟩, hsame, ?_, fun _ h' => setViableVal_all h'⟩
          simp only [Tidy]
          exact ⟨htd, kc_of_node O.sem rfl (Or.inr (huc2 rfl)), fun _ => huc2 rfl, fun h' => by cases h'⟩
        | or =>
          simp only [Pend] at hp
          obtain ⟨ts, hts, hwf⟩ := hp
          simp only [fresh] at hts
          injection hts with _ hv hc' hc1 hk hcs
          subst hv hc' hc1 hk hcs
          simp only [treeWF, Bool.and_eq_true, Bool.not_eq_true', List.isEmpty_eq_false_iff] at hwf
          have h00 : holdsL (freshL ts) = [] := holdsL_fresh ts
          have hf0 : Fr0 o es := fun x => by
            have := hc x; simpa [cnt, holds, h00] using this
          simp only [matchORs] at h
          obtain ⟨⟨cs', es', rv', v', c', c1', k'⟩, h1, h2⟩ := bind_ok' h
          obtain ⟨tail, htail, ht0, hf1, hsame1⟩ := ih3 ts 0 [] es _ _ _ _ _ _ o h1 hwf.2 hnm hf0
          simp only [List.nil_append] at htail
          subst htail
          have hn1 : names es' = N := by
            have I0 : OInv [] .unknown orInitChoice orInitChoice1 :=
              ⟨(fun d hd => by cases hd), Or.inl rfl, fun _ => rfl, (fun h => by cases h),
                (fun h => absurd rfl (K_ne_unknown h)), (fun h => by simp [MT.rank] at h), fun _ => rfl⟩
            exact ((ors_sem N hN f).2.2 ts 0 [] es _ _ _ _ _ _ h1 hwf.2 hnm rfl I0).1
          simp only at h2 ht0 hf1 hsame1
          obtain ⟨⟨node', es''⟩, hA, hB⟩ := ite_bind_ok h2
          have hnode : Fr o node' es'' ∧ SameOut o es' es'' ∧ Tidy node' := by
            split at hA
            · unfold acceptDrop at hA
              obtain ⟨⟨n', e', b⟩, a1, a2⟩ := bind_ok' hA
              cases a2
              have hh : holds (ST.mult .or v' c' c1' k' cs') = [] := by simp only [holds]; exact ht0
              have P := (accept_marks N hN f).1 _ es' _ o a1 hn1 (Fr_of_H0 hh hf1) (Tidy_of_H0 _ hh)
                (by simp only [Idle]; exact ht0) (fun h' => by cases h')
              exact ⟨P.fr, P.same, P.tidy⟩
            · cases hA
              have hh : holds (ST.mult .or v' c' c1' k' cs') = [] := by simp only [holds]; exact ht0
              exact ⟨Fr_of_H0 hh hf1, fun _ _ => rfl, Tidy_of_H0 _ hh⟩
          obtain ⟨n1, n2, n3⟩ := hnode
          have hres : r.1 = node' ∧ r.2.1 = es'' := by
            simp only at hB
            split at hB
            · split at hB
              · split at hB
                · cases hB
                · split at hB
                  · cases hB
                  · cases hB; exact ⟨rfl, rfl⟩
              · cases hB
            · cases hB; exact ⟨rfl, rfl⟩
          obtain ⟨hr1, hr2⟩ := hres
          refine ⟨?_, ?_, ?_, fun h' => by cases h'⟩
          · rw [hr1, hr2]; exact n1
          · rw [hr2]; exact fun x hx => by rw [n2 x hx]; exact hsame1 x hx
          · rw [hr1]; exact n3
    -- ---------------------------------------------------------- loops of AndList/AndOrList::matchORs
    · intro isAnd done rest es r o h hpl hsl hnm hfr htidy huc
      cases rest with
      | nil =>
        simp only [joinORs] at h; cases h
        exact ⟨[], (by simp), hfr, fun _ _ => rfl, trivial, fun _ c hc => by cases hc⟩
      | cons ch rest =>
        obtain ⟨hc, hl⟩ := hfr
        simp only [LocL] at hl
        simp only [TidyL] at htidy
        simp only [PendL] at hpl
        simp only [skelL, SemVL] at hsl
        simp only [joinORs] at h
        have hfrc : Fr (fun n => o n + cntL n rest) ch es := by
          refine ⟨fun x => ?_, hl.1⟩
          have := hc x
          rw [cntL_cons] at this
          show o x + cntL x rest + cnt x ch = _
          omega
        have hucr : isAnd = false → UC rest := fun hi c0 hc0 => huc hi c0 (List.mem_cons_of_mem _ hc0)
        -- continuing with child `x` in place, the request being `es1`
        have cont : ∀ (x : ST) (es1 : Ents), Fr (fun n => o n + cntL n rest) x es1 →
            SameOut (fun n => o n + cntL n rest) es es1 → Tidy x → names es1 = N →
            (isAnd = false → x.viable = .unsat → holds x = []) →
            joinORs f isAnd (done ++ [x]) rest es1 = .ok r →
            ∃ tail, r.1 = done ++ tail ∧ FrL o tail r.2.1 ∧ SameOut o es r.2.1 ∧ TidyL tail ∧ (isAnd = false → UC tail) := by
          intro x es1 hx hsx htx hn1 hux hrec
          have hfrr : FrL (fun n => o n + cnt n x) rest es1 := by
            refine ⟨fun y => ?_, LocL_congr rest (fun y hy => hsx y (by show 0 < o y + cntL y rest; omega)) hl.2⟩
            have h' : o y + cntL y rest + cnt y x = (if markAt es1 y = Mark.no then 0 else 1) := hx.1 y
            show o y + cnt y x + cntL y rest = _
            omega
          obtain ⟨tail2, ht2, hfr2, hs2, htd2, huc2⟩ := ih2 isAnd (done ++ [x]) rest es1 r _ hrec hpl.2 hsl.2 hn1 hfrr htidy.2 hucr
          refine ⟨x :: tail2, by rw [ht2]; simp, ⟨fun y => ?_, ?_⟩, fun y hy => ?_, ⟨htx, htd2⟩, fun hi c0 hc0 => ?_⟩
          · have h' : o y + cnt y x + cntL y tail2 = (if markAt r.2.1 y = Mark.no then 0 else 1) := hfr2.1 y
            rw [cntL_cons]; omega
          · exact ⟨Loc_congr x (fun y hy => hs2 y (by show 0 < o y + cnt y x; omega)) hx.2, hfr2.2⟩
          · rw [hs2 y (by show 0 < o y + cnt y x; omega)]; exact hsx y (by show 0 < o y + cntL y rest; omega)
          · rcases List.mem_cons.mp hc0 with e | e
            · rw [e]; exact hux hi
            · exact huc2 hi c0 e
        split at h
        · rename_i hu
          split at h
          · cases h
          · obtain ⟨⟨ch', es1, rc⟩, h1, h2⟩ := bind_ok' h
            have hpend : Pend ch := by
              rcases hpl.1 with h' | h'
              · exact absurd hu h'
              · exact h'
            have P := ih1 ch es _ _ h1 hpend hsl.1 hnm hfrc htidy.1
            have O := (ors_sem N hN f).1 ch es _ h1 hpend hsl.1 hnm
            simp only at h2
            split at h2
            · rename_i hrc
              cases isAnd with
              | true =>
                simp only [if_true] at h2; cases h2
                refine ⟨ch' :: rest, rfl, ⟨fun y => ?_, ⟨P.fr.2, ?_⟩⟩, fun y hy => P.same y (by show 0 < o y + cntL y rest; omega),
                  ⟨P.tidy, htidy.2⟩, fun h' => by cases h'⟩
                · have h' : o y + cntL y rest + cnt y ch' = (if markAt es1 y = Mark.no then 0 else 1) := P.fr.1 y
                  show o y + cntL y (ch' :: rest) = (if markAt es1 y = Mark.no then 0 else 1)
                  rw [cntL_cons]; omega
                · exact LocL_congr rest (fun y hy => P.same y (by show 0 < o y + cntL y rest; omega)) hl.2
              | false =>
                simp only [Bool.false_eq_true, if_false] at h2
                obtain ⟨⟨ch2, es2⟩, h3, h4⟩ := bind_ok' h2
                have U := (unmark_marks N hN f).1 ch' es1 _ _ h3 O.nm P.fr (OrT_of_Tidy _ P.tidy)
                have hn2 : names es2 = N := by rw [(unmark_names f).1 ch' es1 _ h3]; exact O.nm
                exact cont ch2 es2 (Fr_of_H0 U.h0 U.fr) (fun y hy => by rw [U.same y hy]; exact P.same y hy)
                  (Tidy_of_H0 _ U.h0) hn2 (fun _ _ => U.h0) h4
            · rename_i hrc
              refine cont ch' es1 P.fr P.same P.tidy O.nm (fun _ hv => ?_) h2
              exact absurd (unsat_of_viable O.ret hv) hrc
        · exact cont ch es hfrc (fun _ _ => rfl) htidy.1 hnm (fun hi hv => huc hi ch (by simp) hv) h
    -- ---------------------------------------------------------- loop of OrList::matchORs
    · intro restT idx done es rv v c c1 k r o h hwf hnm hf
      cases restT with
      | nil =>
        simp only [freshL, orORs] at h; cases h
        exact ⟨[], (by simp), rfl, hf, fun _ _ => rfl⟩
      | cons t rest =>
        simp only [treeWFL, Bool.and_eq_true] at hwf
        simp only [freshL, orORs] at h
        obtain ⟨⟨ch1, es1, rv1⟩, hA, hB⟩ := ite_bind_ok h
        have SA := orstep_A N hN f t es rv _ hwf.1 hnm hA
        have A : Fr o ch1 es1 ∧ SameOut o es es1 ∧ Tidy ch1 := by
          split at hA
          · have P := (nonors_marks N hN f).1 t es _ o hA hwf.1 hnm hf
            exact ⟨P.fr, P.same, P.tidy⟩
          · cases hA
            exact ⟨Fr_of_H0 (holds_fresh t) hf, fun _ _ => rfl, Tidy_of_H0 _ (holds_fresh t)⟩
        obtain ⟨a1, a2, a3⟩ := A
        simp only at hB SA
        obtain ⟨⟨ch2, es2, rv2⟩, hC, hD⟩ := ite_bind_ok hB
        have SB := orstep_B N hN f t (ch1, es1, rv1) (ch2, es2, rv2) SA hC
        have B : Fr o ch2 es2 ∧ SameOut o es1 es2 ∧ Tidy ch2 := by
          split at hC
          · rename_i hu
            split at hC
            · cases hC
            · have P := ih1 ch1 es1 _ o hC (SA.2.2.2 hu) SA.1 SA.2.2.1 a1 a3
              exact ⟨P.fr, P.same, P.tidy⟩
          · cases hC; exact ⟨a1, fun _ _ => rfl, a3⟩
        obtain ⟨b1, b2, b3⟩ := B
        simp only at hD SB
        obtain ⟨⟨ch3, es3⟩, hE, hF⟩ := bind_ok' hD
        have U := (unmark_marks N hN f).1 ch2 es2 _ o hE SB.2 b1 (OrT_of_Tidy _ b3)
        have hn3 : names es3 = N := by rw [(unmark_names f).1 ch2 es2 _ hE]; exact SB.2
        simp only at hF U
        obtain ⟨tail2, ht2, h02, hf2, hs2⟩ := ih3 rest (idx + 1) (done ++ [ch3]) es3 _ _ _ _ _ r o hF hwf.2 hn3 U.fr
        refine ⟨ch3 :: tail2, by rw [ht2]; simp, by simp only [holdsL, U.h0, h02, List.append_nil], hf2, fun x hx => ?_⟩
        rw [hs2 x hx, U.same x hx, b2 x hx]; exact a2 x hx

end StepModel.Complex.Match

import StepModel.P21SafeData2Lemmas
/-! `ReadHeader` (helper file for Props/C05): the loop over the header instances, `FindHeaderSection` in potential
form, and the composition. -/
namespace StepModel.P21Safe

/-! ### what `GetKeyword` stores it has consumed -/

theorem getKwLoop_len (delims : List Byte) : ∀ (fuel : Nat) (s : IS) (c : Byte) (sz : Nat) (acc : List Byte) (steps : Nat)
    (s' : IS) (acc' : List Byte) (st : Nat), getKwLoop delims fuel s c sz acc steps = .ok (s', acc', st) →
      s'.m + acc'.length ≤ s.m + 1 + acc.length := by
  intro fuel
  induction fuel with
  | zero => intro s c sz acc steps s' acc' st h; simp [getKwLoop] at h
  | succ fuel ih =>
    intro s c sz acc steps s' acc' st
    show getKwStep (getKwLoop delims fuel) delims s c sz acc steps = _ → _
    unfold getKwStep
    split
    · intro h
      cases h
      have := putback_m s c
      omega
    · rename_i hcond
      have hg : s.good = true := by
        simp at hcond
        exact hcond.2
      have hpos := good_m_pos hg
      have hgm := get_m s
      intro h
      have := ih _ _ _ _ _ _ _ _ h
      simp only [List.length_cons] at this
      rcases hgm with hh | hh <;> omega

/-- a keyword reader as the header loop uses it: a stage with constant 1 that has consumed what it returns -/
def GkOk (R : Nat) (gk : IS → Out (IS × List Byte × Nat)) (B : Nat) : Prop :=
  ∀ s, s.m ≤ B → ∃ s' acc st, gk s = .ok (s', acc, st) ∧ s'.m ≤ s.m ∧ st + pot R s' ≤ pot R s + 1 ∧
    (1 ≤ acc.length → s'.m + 1 ≤ s.m ∨ s'.m = 0)

theorem getKeywordFull_gk (R : Nat) (delims : List Byte) (F : Nat) (hF : 1 ≤ F) : GkOk R (getKeywordFull delims F) (F - 1) := by
  intro s hB
  unfold getKeywordFull
  have hgm := get_m s
  obtain ⟨s', acc', st, a, b, c0, d⟩ := getKwLoop_ok R delims F (s.get).1 ((s.get).2.getD 0) 1 [] 1
    (by rcases hgm with hh | hh <;> omega)
  have hl := getKwLoop_len delims F _ _ _ _ _ _ _ _ a
  simp only [List.length_nil] at hl
  refine ⟨s', acc', st, a, ?_, ?_, ?_⟩
  · rcases hgm with hh | hh
    · omega
    · have := (c0 hh).1; omega
  · rcases hgm with hh | hh
    · have := pot_drop (R := R) hh (Nat.le_refl 1); omega
    · obtain ⟨hz, hst⟩ := c0 hh
      rw [pot_zero hz]
      omega
  · intro hal
    rcases hgm with hh | hh
    · left; omega
    · right; exact (c0 hh).1

/-! ### the loop over the header instances -/

/-- a function that leaves a stream that is not good alone -/
def Inert (f : IS → Out LoopRes) : Prop := ∀ s, s.good = false → ∃ r, f s = .ok r ∧ r.s = s ∧ r.steps = 0

/-- a function that consumes from a good stream, or leaves it failed -/
def Strict (f : IS → Out LoopRes) (B : Nat) : Prop := ∀ s r, s.m ≤ B → s.good = true → f s = .ok r → r.s.m + 1 ≤ s.m ∨ r.s.m = 0

def hdrPot (D R : Nat) (s : IS) : Nat := pot R s + D * s.m

theorem hdrLoop_ok {R B Kh D : Nat} {tok skip : IS → Out LoopRes} {gk : IS → Out (IS × List Byte × Nat)}
    {rdh : List Byte → IS → Out LoopRes} {known : List Byte → Bool}
    (ht : StageOk R tok 1 B) (hti : Inert tok) (hs : StageOk R skip 1 B) (hsi : Inert skip) (hss : Strict skip B)
    (hgk : GkOk R gk B) (hrd : ∀ kw, StageOk R (rdh kw) Kh B) (hk : known [] = false) (hKh : 1 ≤ Kh) (hD : Kh + 5 ≤ D) :
    ∀ (fuel : Nat) (s : IS) (c : Byte) (n steps : Nat), (if s.good = true then s.m + 2 else 1) ≤ fuel → s.m ≤ B →
      ∃ r, hdrLoop tok skip gk rdh known fuel s c n steps = .ok r ∧ r.s.m ≤ s.m ∧
        r.steps + hdrPot D R r.s ≤ steps + hdrPot D R s + (if s.good = true then Kh + 6 else 0) := by
  intro fuel
  induction fuel with
  | zero => intro s c n steps h; split at h <;> omega
  | succ fuel ih =>
    intro s c n steps h hB
    show ∃ r, hdrStep (hdrLoop tok skip gk rdh known fuel) tok skip gk rdh known s c n steps = .ok r ∧ _
    unfold hdrStep
    obtain ⟨r0, a0, b0, c0⟩ := ht s hB
    rw [a0]
    simp only []
    by_cases hg0 : r0.s.good = true
    case neg =>
      simp only [Bool.not_eq_true] at hg0
      simp only [hg0, Bool.not_false, if_true]
      refine ⟨_, rfl, b0, ?_⟩
      have hm0 := mul_mono' D b0
      simp only [hdrPot]
      by_cases hsg : s.good = true
      · rw [if_pos hsg]; omega
      · simp only [Bool.not_eq_true] at hsg
        obtain ⟨r', e', hs', hst'⟩ := hti s hsg
        rw [a0] at e'
        cases e'
        rw [hs', hst']
        simp [hsg]
    case pos =>
      have hsg : s.good = true := by
        by_cases hsg : s.good = true
        · exact hsg
        · simp only [Bool.not_eq_true] at hsg
          obtain ⟨r', e', hs', _⟩ := hti s hsg
          rw [a0] at e'
          cases e'
          rw [hs'] at hg0
          rw [hg0] at hsg
          cases hsg
      rw [if_pos hsg] at h ⊢
      have hspos := good_m_pos hsg
      simp only [hg0, Bool.not_true, Bool.false_eq_true, if_false]
      -- the recursion, once: a next state that is good has made progress
      have key : ∀ (nx : IS) (c' : Byte) (n' st' : Nat), nx.m ≤ s.m → (nx.good = true → nx.m + 1 ≤ s.m) →
          st' + pot R nx ≤ steps + pot R s + (Kh + 5) →
          ∃ r, hdrLoop tok skip gk rdh known fuel nx c' n' st' = .ok r ∧ r.s.m ≤ s.m ∧
            r.steps + hdrPot D R r.s ≤ steps + hdrPot D R s + (Kh + 6) := by
        intro nx c' n' st' hm hprog hcost
        by_cases hng : nx.good = true
        · have hp := hprog hng
          obtain ⟨r, a, b, cc⟩ := ih nx c' n' st' (by rw [if_pos hng]; omega) (by omega)
          rw [if_pos hng] at cc
          have := mul_drop' D hp
          simp only [hdrPot] at cc ⊢
          exact ⟨r, a, by omega, by omega⟩
        · obtain ⟨r, a, b, cc⟩ := ih nx c' n' st' (by rw [if_neg hng]; omega) (by omega)
          rw [if_neg hng] at cc
          have := mul_mono' D hm
          simp only [hdrPot] at cc ⊢
          exact ⟨r, a, by omega, by omega⟩
      have hgm := get_m r0.s
      generalize hc1 : (r0.s.get).2.getD c = c1
      have hs2m : (if c1 = chBang then (r0.s.get).1 else (r0.s.get).1.putback c1).m ≤ r0.s.m := by
        split
        · rcases hgm with hh | hh <;> omega
        · rcases hgm with hh | hh
          · have := putback_m (r0.s.get).1 c1; omega
          · have := putback_m_zero (r0.s.get).1 c1 hh; omega
      generalize (if c1 = chBang then (r0.s.get).1 else (r0.s.get).1.putback c1) = s2 at hs2m
      have hp2 := pot_mono (R := R) hs2m
      obtain ⟨s3, acc, st3, a3, b3, c3, d3⟩ := hgk s2 (by omega)
      rw [a3]
      simp only []
      obtain ⟨r1, a1, b1, c1'⟩ := ht s3 (by omega)
      rw [a1]
      simp only []
      split
      · -- ENDSEC
        have hgf := get_m_le r1.s
        have hpf := pot_mono (R := R) hgf
        have := mul_mono' D (show (r1.s.get).1.m ≤ s.m by omega)
        refine ⟨_, rfl, by simp only []; omega, ?_⟩
        simp only [hdrPot]
        omega
      · split
        · -- a user-defined entity: skipped, the loop is left
          obtain ⟨r2, a2, b2, c2⟩ := hs r1.s (by omega)
          rw [a2]
          simp only []
          have := mul_mono' D (show r2.s.m ≤ s.m by omega)
          refine ⟨_, rfl, by simp only []; omega, ?_⟩
          simp only [hdrPot]
          omega
        · split
          · -- no such header entity: skipped
            obtain ⟨r2, a2, b2, c2⟩ := hs r1.s (by omega)
            rw [a2]
            simp only []
            refine key r2.s _ _ _ (by omega) (fun hg2 => ?_) (by omega)
            have hpos2 := good_m_pos hg2
            by_cases hg1 : r1.s.good = true
            · rcases hss r1.s r2 (by omega) hg1 a2 with hh | hh <;> omega
            · simp only [Bool.not_eq_true] at hg1
              obtain ⟨r', e', hs', _⟩ := hsi r1.s hg1
              rw [a2] at e'
              cases e'
              rw [hs'] at hg2
              rw [hg2] at hg1
              cases hg1
          · -- a header entity: read, then the `;`
            rename_i hkn
            have hal : 1 ≤ acc.length := by
              cases acc with
              | nil => simp [hk] at hkn
              | cons a l => simp
            have hprog3 := d3 hal
            obtain ⟨r2, a2, b2, c2⟩ := hrd acc.reverse r1.s (by omega)
            rw [a2]
            simp only []
            have hw := ws_m r2.s
            have hpk := peek_m r2.s.ws
            split
            · have hpn := pot_mono (R := R) (show (r2.s.ws.peek).1.m ≤ r2.s.m by omega)
              refine key _ _ _ _ (by omega) (fun hgn => ?_) (by omega)
              have := good_m_pos hgn
              rcases hprog3 with hh | hh <;> omega
            · have hex := extract_m (r2.s.ws.peek).1
              have hxm : ((r2.s.ws.peek).1.extract).1.m ≤ r2.s.m := by rcases hex with hh | hh <;> omega
              have hpn := pot_mono (R := R) hxm
              refine key _ _ _ _ (by omega) (fun hgn => ?_) (by omega)
              have := good_m_pos hgn
              rcases hprog3 with hh | hh <;> omega

/-! ### the stages of `ReadHeader` -/

theorem readTokenSeparator_inert (cm : Bool) (iters F : Nat) (hF : 1 ≤ F) : Inert (readTokenSeparator cm iters F) := by
  intro s hg
  unfold readTokenSeparator
  by_cases he : s.eof = true
  · simp [he]
  · have hf : s.fail = true := by
      simp only [Bool.not_eq_true] at he
      simp [IS.good, he] at hg
      exact hg
    obtain ⟨F', rfl⟩ : ∃ F', F = F' + 1 := ⟨F - 1, by omega⟩
    simp only [he, Bool.false_eq_true, if_false]
    show ∃ r, tokSepStep (tokSepLoop cm iters F') (skipInstance cm iters (F' + 1)) iters s 0 = .ok r ∧ _
    unfold tokSepStep
    simp [hf]

theorem skipInstance_inert (cm : Bool) (iters F : Nat) (hF : 1 ≤ F) : Inert (skipInstance cm iters F) := by
  intro s hg
  obtain ⟨F', rfl⟩ : ∃ F', F = F' + 1 := ⟨F - 1, by omega⟩
  unfold skipInstance
  show ∃ r, scanStep (scanUntil chSemi false cm iters F') chSemi false cm iters s 0 0 0 = .ok r ∧ _
  unfold scanStep
  simp [hg]

theorem skipInstance_strict (cm : Bool) (iters F : Nat) : Strict (skipInstance cm iters F) (F - 1) := by
  intro s r hB hg h
  have hpos := good_m_pos hg
  exact scanUntil_strict iters chSemi cm iters (Nat.le_refl _) F s 0 0 0 (by omega) hg r h

/-- `getline` on a good stream: it has consumed what it stored and the delimiter, or it leaves a stream that is not good
having consumed what it stored -/
theorem getline_m (n : Nat) (d : Byte) (s : IS) (hg : s.good = true) :
    ((getline n d s).1.good = false ∧ (getline n d s).1.m + (getline n d s).2.length ≤ s.m ∧ (getline n d s).1.m + 1 ≤ s.m) ∨
    (getline n d s).1.m + (getline n d s).2.length + 1 ≤ s.m := by
  obtain ⟨pre, rest, eof, fail, sk⟩ := s
  simp [IS.good] at hg
  obtain ⟨rfl, rfl⟩ := hg
  unfold getline
  simp [IS.good]
  have hl := takeLine_length d (n - 1) rest
  generalize takeLine d (n - 1) rest = tl at hl
  obtain ⟨t, r⟩ := tl
  simp at hl ⊢
  cases r with
  | nil =>
    simp at hl
    cases t with
    | nil => simp [IS.m, IS.good]
    | cons a l => simp [IS.m, IS.good] at hl ⊢; omega
  | cons c r' =>
    by_cases hc : c = d
    · simp [hc, IS.m, IS.good]
      simp at hl; omega
    · simp [hc, IS.m, IS.good]
      simp at hl; omega

/-- the search loop of `FindHeaderSection` (give-up test `!in.good()`) in potential form -/
theorem headerLoop_pot (R n : Nat) : ∀ (fuel : Nat) (s : IS) (buf : List Byte) (steps : Nat), s.m + 1 ≤ fuel →
    ∃ r, headerLoop n .notGood fuel s buf steps = .ok r ∧ r.s.m ≤ s.m ∧
      r.steps + pot R r.s ≤ steps + pot R s + (if s.good = true then 1 else 0) := by
  intro fuel
  induction fuel with
  | zero => intro s buf steps h; omega
  | succ fuel ih =>
    intro s buf steps h
    unfold headerLoop
    by_cases hc : containsSub kwHEADER (cstr buf) = true
    · simp only [hc, if_true]
      exact ⟨_, rfl, Nat.le_refl _, by simp only []; omega⟩
    · simp only [hc, Bool.false_eq_true, if_false]
      by_cases hg : s.good = true
      · simp only [hg, Bool.not_true, Bool.false_eq_true, if_false, if_true]
        have hpos := good_m_pos hg
        have hm := getline_m n chSemi s hg
        generalize getline n chSemi s = gl at hm
        obtain ⟨s1, buf1⟩ := gl
        simp only [] at hm ⊢
        rcases hm with ⟨hng, h1, h2⟩ | h1
        · obtain ⟨r, hr, hrm, hrp⟩ := ih s1 buf1 (steps + 1 + buf1.length) (by omega)
          simp only [hng, Bool.false_eq_true, if_false] at hrp
          refine ⟨r, hr, by omega, ?_⟩
          by_cases hz : s1.m = 0
          · rw [pot_zero hz] at hrp
            rw [pot_pos hpos]
            omega
          · rw [pot_pos (a := s1) (by omega)] at hrp
            rw [pot_pos hpos]
            omega
        · obtain ⟨r, hr, hrm, hrp⟩ := ih s1 buf1 (steps + 1 + buf1.length) (by omega)
          have hd := pot_drop (R := R) (a := s1) (b := s) (d := buf1.length + 1) (by omega) (by omega)
          refine ⟨r, hr, by omega, ?_⟩
          have : (if s1.good = true then 1 else 0) ≤ 1 := by split <;> omega
          omega
      · simp only [Bool.not_eq_true] at hg
        simp only [hg, Bool.not_false, if_true, Bool.false_eq_true, if_false]
        exact ⟨_, rfl, Nat.le_refl _, by simp only []; omega⟩

theorem findHeaderSection_ok (cm : Bool) (iters n F : Nat) (hF : 1 ≤ F) :
    StageOk iters (findHeaderSectionWith cm iters n .notGood F) 2 (F - 1) := by
  intro s hB
  unfold findHeaderSectionWith
  obtain ⟨r0, a0, b0, c0⟩ := readTokenSeparator_pot iters cm iters (Nat.le_refl _) F s (by omega)
  rw [a0]
  simp only []
  obtain ⟨r, a, b, c⟩ := headerLoop_pot iters n F r0.s [] r0.steps (by omega)
  have : (if r0.s.good = true then 1 else 0) ≤ 1 := by split <;> omega
  exact ⟨r, a, by omega, by omega⟩

/-- `ReadHeader` for every header-entity reader `rdh` that is a stage with constant `Kh`, for any fuel above the stream
measure: it ends, never un-reads, and its steps are paid by the potential `pot + (Kh + 5)·m` up to `Kh + 9` -/
theorem readHeader_okF (known : List Byte → Bool) (rdh : List Byte → IS → Out LoopRes) (Kh : Nat) (hKh : 1 ≤ Kh)
    (hk : known [] = false) (cm : Bool) (iters n : Nat) (s : IS) (F : Nat) (hm : s.m + 1 ≤ F)
    (hrd : ∀ kw, StageOk iters (rdh kw) Kh (F - 1)) :
    ∃ r, readHeader known rdh cm iters n .notGood F s = .ok r ∧ r.s.m ≤ s.m ∧
      r.steps + hdrPot (Kh + 5) iters r.s ≤ hdrPot (Kh + 5) iters s + (Kh + 9) := by
  obtain ⟨ht, hs, _⟩ := stages cm iters F (by omega)
  unfold readHeader
  obtain ⟨r0, a0, b0, c0⟩ := ht s (by omega)
  rw [a0]
  simp only []
  obtain ⟨r1, a1, b1, c1⟩ := findHeaderSection_ok cm iters n F (by omega) r0.s (by omega)
  rw [a1]
  simp only []
  have hm1 := mul_mono' (Kh + 5) (show r1.s.m ≤ s.m by omega)
  split
  · refine ⟨_, rfl, by simp only []; omega, ?_⟩
    simp only [hdrPot]
    omega
  · obtain ⟨r, a, b, c⟩ := hdrLoop_ok (D := Kh + 5) ht (readTokenSeparator_inert cm iters F (by omega)) hs
      (skipInstance_inert cm iters F (by omega)) (skipInstance_strict cm iters F) (getKeywordFull_gk iters hdrDelims F (by omega))
      hrd hk hKh (Nat.le_refl _) (2 * F) r1.s 0 0 (r0.steps + r1.steps)
      (by split <;> omega) (by omega)
    have : (if r1.s.good = true then Kh + 6 else 0) ≤ Kh + 6 := by split <;> omega
    simp only [hdrPot] at c ⊢
    exact ⟨r, a, by omega, by omega⟩

theorem hdrPot_le {D R : Nat} (s : IS) : hdrPot D R s ≤ (4 + D) * s.m + R := by
  have := pot_le (R := R) s
  simp only [hdrPot, Nat.add_mul]; omega

/-! ### AppendFile: the two passes -/

/-- a bound in a linear potential holds in every steeper one -/
theorem hdrPot_lift {a A R : Nat} {s s' : IS} {st c : Nat} (haA : a ≤ A) (hm : s'.m ≤ s.m)
    (h : st + hdrPot a R s' ≤ hdrPot a R s + c) : st + hdrPot A R s' ≤ hdrPot A R s + c := by
  obtain ⟨k, rfl⟩ := Nat.exists_eq_add_of_le haA
  have := Nat.mul_le_mul_left k hm
  simp only [hdrPot, Nat.add_mul] at h ⊢
  omega

theorem pot_eq_hdrPot (R : Nat) (s : IS) : pot R s = hdrPot 0 R s := by simp [hdrPot]
theorem dataPot_eq_hdrPot (D R : Nat) (s : IS) : dataPot D R s = hdrPot (28 + D) R s := by
  simp only [dataPot, bigPot, hdrPot, Nat.add_mul]; omega

/-- a stage in the steeper potential -/
theorem StageOk.lift {R c B : Nat} {f : IS → Out LoopRes} (h : StageOk R f c B) (A : Nat) (s : IS) (hB : s.m ≤ B) :
    ∃ r, f s = .ok r ∧ r.s.m ≤ s.m ∧ r.steps + hdrPot A R r.s ≤ hdrPot A R s + c := by
  obtain ⟨r, a, b, cc⟩ := h s hB
  refine ⟨r, a, b, hdrPot_lift (Nat.zero_le A) b ?_⟩
  rw [← pot_eq_hdrPot, ← pot_eq_hdrPot]
  exact cc

/-- pass 1 of `AppendFile` — start keyword, `ReadHeader`, `FindDataSection`, `ReadData1` — for every input, oracle and
header-entity reader that is a stage with constant `Kh`: it ends with fuel `|bytes| + 2`, never un-reads, and makes at most
`(Kh + 54)·(|bytes| + 1) + iters + Kh + 36` steps over all nesting levels -/
theorem appendFile1_ok (o : Oracle) (known : List Byte → Bool) (rdh : List Byte → IS → Out LoopRes) (Kh : Nat) (hKh : 1 ≤ Kh)
    (hk : known [] = false) (stay : Bool) (guard : Option Nat) (cm goOn : Bool) (iters n maxErr : Nat) (s : IS)
    (hrd : ∀ kw, StageOk iters (rdh kw) Kh (s.rest.length + 1)) :
    ∃ r, appendFile1 o known rdh stay guard cm goOn iters n .notGood maxErr (s.rest.length + 2) s = .ok r ∧ r.s.m ≤ s.m ∧
      r.steps ≤ (Kh + 54) * (s.rest.length + 1) + iters + Kh + 36 := by
  have hm : s.m ≤ s.rest.length + 1 := by unfold IS.m; split <;> omega
  generalize hF : s.rest.length + 2 = F at *
  have hF1 : s.rest.length + 1 = F - 1 := by omega
  rw [hF1] at hrd
  obtain ⟨ht, _, _⟩ := stages cm iters F (by omega)
  have hA : ∀ x : IS, hdrPot (Kh + 50) iters x ≤ (Kh + 54) * x.m + iters := by
    intro x
    have := hdrPot_le (D := Kh + 50) (R := iters) x
    have e : 4 + (Kh + 50) = Kh + 54 := by omega
    rw [e] at this
    exact this
  have hfin : ∀ (st : Nat) (x : IS), x.m ≤ s.m → st + hdrPot (Kh + 50) iters x ≤ hdrPot (Kh + 50) iters s + (Kh + 36) →
      st ≤ (Kh + 54) * (s.rest.length + 1) + iters + Kh + 36 := by
    intro st x _ h
    have h1 := hA s
    have h2 : (Kh + 54) * s.m ≤ (Kh + 54) * (s.rest.length + 1) := Nat.mul_le_mul_left _ (by omega)
    omega
  unfold appendFile1
  obtain ⟨r0, a0, b0, c0⟩ := ht.lift (Kh + 50) s (by omega)
  rw [a0]
  simp only []
  obtain ⟨s1, acc, st1, a1, b1, c1, _⟩ := getKeywordFull_gk iters startDelims F (by omega) r0.s (by omega)
  rw [a1]
  simp only []
  have c1' : st1 + hdrPot (Kh + 50) iters s1 ≤ hdrPot (Kh + 50) iters r0.s + 1 :=
    hdrPot_lift (Nat.zero_le _) b1 (by rw [← pot_eq_hdrPot, ← pot_eq_hdrPot]; exact c1)
  have hg := get_m_le s1
  have c2 : hdrPot (Kh + 50) iters (s1.get).1 ≤ hdrPot (Kh + 50) iters s1 := by
    have := pot_mono (R := iters) hg
    have := mul_mono' (Kh + 50) hg
    simp only [hdrPot]
    omega
  split
  · exact ⟨_, rfl, by simp only []; omega, hfin _ (s1.get).1 (by omega) (by simp only []; omega)⟩
  · rename_i ws _
    obtain ⟨r2, a2, b2, c2'⟩ := readHeader_okF known rdh Kh hKh hk cm iters n (s1.get).1 F (by omega) hrd
    rw [a2]
    simp only []
    have c2'' := hdrPot_lift (A := Kh + 50) (by omega) b2 c2'
    split
    · exact ⟨_, rfl, by simp only []; omega, hfin _ r2.s (by omega) (by simp only []; omega)⟩
    · obtain ⟨r3, a3, b3, c3⟩ := dataSecLoop_pot iters cm iters F (Nat.le_refl _) F (Nat.le_refl _) r2.s 0 (by omega)
      have a3' : findDataSection cm iters F r2.s = .ok r3 := a3
      rw [a3']
      simp only []
      have c3' : r3.steps + hdrPot (Kh + 50) iters r3.s ≤ hdrPot (Kh + 50) iters r2.s + 1 :=
        hdrPot_lift (Nat.zero_le _) b3 (by rw [← pot_eq_hdrPot, ← pot_eq_hdrPot]; omega)
      split
      · exact ⟨_, rfl, by simp only []; omega, hfin _ r3.s (by omega) (by simp only []; omega)⟩
      · obtain ⟨r4, a4, b4, c4, _, _⟩ := readData1_okF o stay guard cm ws iters maxErr r3.s F (by omega)
        rw [a4]
        simp only []
        rw [dataPot_eq_hdrPot, dataPot_eq_hdrPot] at c4
        have c4' := hdrPot_lift (A := Kh + 50) (by omega) b4 c4
        exact ⟨_, rfl, by simp only []; omega, hfin _ r4.s (by omega) (by simp only []; omega)⟩

/-- pass 2 of `AppendFile` — `FindDataSection`, `ReadData2`, the count comparison and the end-of-file keyword — for every
per-instance reader `ri` that is a stage with constant `K` -/
theorem appendFile2_ok (ri : IS → Out LoopRes) (K : Nat) (hK : 1 ≤ K) (cm ws : Bool) (iters maxErr total : Nat) (s : IS)
    (hri : StageOk iters ri K (s.rest.length + 1)) :
    ∃ r, appendFile2 ri cm ws iters maxErr total (s.rest.length + 2) s = .ok r ∧ r.s.m ≤ s.m ∧
      r.steps ≤ (K + 39) * (s.rest.length + 1) + iters + K + 13 := by
  have hm : s.m ≤ s.rest.length + 1 := by unfold IS.m; split <;> omega
  generalize hF : s.rest.length + 2 = F at *
  have hF1 : s.rest.length + 1 = F - 1 := by omega
  rw [hF1] at hri
  obtain ⟨ht, _, _⟩ := stages cm iters F (by omega)
  have hfin : ∀ (st : Nat) (x : IS), x.m ≤ s.m → st + hdrPot (K + 35) iters x ≤ hdrPot (K + 35) iters s + (K + 13) →
      st ≤ (K + 39) * (s.rest.length + 1) + iters + K + 13 := by
    intro st x _ h
    have h1 := hdrPot_le (D := K + 35) (R := iters) s
    have e : 4 + (K + 35) = K + 39 := by omega
    rw [e] at h1
    have h2 : (K + 39) * s.m ≤ (K + 39) * (s.rest.length + 1) := Nat.mul_le_mul_left _ (by omega)
    omega
  unfold appendFile2
  obtain ⟨r0, a0, b0, c0⟩ := dataSecLoop_pot iters cm iters F (Nat.le_refl _) F (Nat.le_refl _) s 0 (by omega)
  have a0' : findDataSection cm iters F s = .ok r0 := a0
  rw [a0']
  simp only []
  have c0' : r0.steps + hdrPot (K + 35) iters r0.s ≤ hdrPot (K + 35) iters s + 1 :=
    hdrPot_lift (Nat.zero_le _) b0 (by rw [← pot_eq_hdrPot, ← pot_eq_hdrPot]; omega)
  split
  · exact ⟨_, rfl, by simp only []; omega, hfin _ r0.s (by omega) (by simp only []; omega)⟩
  · obtain ⟨r1, a1, b1, c1, _, _⟩ := readData2_okF ri K hK cm ws iters maxErr r0.s F (by omega) hri
    rw [a1]
    simp only []
    rw [dataPot_eq_hdrPot, dataPot_eq_hdrPot] at c1
    have c1' := hdrPot_lift (A := K + 35) (by omega) b1 c1
    obtain ⟨r2, a2, b2, c2⟩ := ht.lift (K + 35) r1.s (by omega)
    rw [a2]
    simp only []
    split
    · exact ⟨_, rfl, by simp only []; omega, hfin _ r2.s (by omega) (by simp only []; omega)⟩
    · split
      · exact ⟨_, rfl, by simp only []; omega, hfin _ r2.s (by omega) (by simp only []; omega)⟩
      · obtain ⟨r3, a3, b3, c3⟩ := ht.lift (K + 35) r2.s (by omega)
        rw [a3]
        simp only []
        obtain ⟨s4, acc, st4, a4, b4, c4, _⟩ := getKeywordFull_gk iters endDelims F (by omega) r3.s (by omega)
        rw [a4]
        simp only []
        have c4' : st4 + hdrPot (K + 35) iters s4 ≤ hdrPot (K + 35) iters r3.s + 1 :=
          hdrPot_lift (Nat.zero_le _) b4 (by rw [← pot_eq_hdrPot, ← pot_eq_hdrPot]; exact c4)
        have hg := get_m_le s4
        have c5 : hdrPot (K + 35) iters (s4.get).1 ≤ hdrPot (K + 35) iters s4 := by
          have := pot_mono (R := iters) hg
          have := mul_mono' (K + 35) hg
          simp only [hdrPot]
          omega
        exact ⟨_, rfl, by simp only []; omega, hfin _ (s4.get).1 (by omega) (by simp only []; omega)⟩

/-- `ReadHeader` with fuel `|bytes| + 2` -/
theorem readHeader_ok (known : List Byte → Bool) (rdh : List Byte → IS → Out LoopRes) (Kh : Nat) (hKh : 1 ≤ Kh)
    (hk : known [] = false) (cm : Bool) (iters n : Nat) (s : IS)
    (hrd : ∀ kw, StageOk iters (rdh kw) Kh (s.rest.length + 1)) :
    ∃ r, readHeader known rdh cm iters n .notGood (s.rest.length + 2) s = .ok r ∧ r.s.m ≤ s.m ∧
      r.steps ≤ (Kh + 9) * (s.rest.length + 1) + iters + Kh + 9 := by
  have hm : s.m ≤ s.rest.length + 1 := by unfold IS.m; split <;> omega
  obtain ⟨r, a, b, c⟩ := readHeader_okF known rdh Kh hKh hk cm iters n s (s.rest.length + 2) (by omega) hrd
  refine ⟨r, a, b, ?_⟩
  have h1 := hdrPot_le (D := Kh + 5) (R := iters) s
  have e : 4 + (Kh + 5) = Kh + 9 := by omega
  rw [e] at h1
  have h2 : (Kh + 9) * s.m ≤ (Kh + 9) * (s.rest.length + 1) := Nat.mul_le_mul_left _ (by omega)
  omega

end StepModel.P21Safe

import StepModel.GenCxxPassLemmas
/-!
# Which `SCHEMAprint` calls the pass model makes (lemmas linking `GenCxxPass.lean` to the file-set model)

* `NP`: nothing in `checkTypes` / `checkEnts` ever writes PROCESSED (only `SCOPEPrint`, i.e. `finishVisit`, does);
* `visitSchema_prints`: a schema visited after its suppliers, none of whose own objects is PROCESSED yet, is printed exactly when
  it has an own object — with suffix 0 — and only its own objects become PROCESSED;
* `printFile_printed`: for a file in dependency order the `SCHEMAprint` calls are exactly one `(name, 0)` per schema that has a
  type or an entity, in dictionary order.
-/
namespace StepModel.GenFiles.Pass
open StepModel.Generated.CxxPass

/-- `m'` has no PROCESSED mark that `m` did not have -/
def NP (m m' : Marks) : Prop := ∀ k, m' k = .processed → m k = .processed

theorem NP.refl (m : Marks) : NP m m := fun _ h => h
theorem NP.trans {a b c : Marks} (h1 : NP a b) (h2 : NP b c) : NP a c := fun k h => h1 k (h2 k h)

theorem np_setMark (m : Marks) (n : String) (v : Mark) (hv : v ≠ .processed) : NP m (setMark m n v) := by
  intro k h
  unfold setMark at h
  split at h
  · exact absurd h hv
  · exact h

theorem np_checkItem (lc : EnumLastCase) (os : List Obj) (s : St) (parent item : String) (noSel : Bool) :
    NP s.marks (checkItem lc os s parent item noSel).1.marks := by
  unfold checkItem
  split
  · exact NP.refl _
  · split
    · split
      · exact np_setMark _ _ _ (by decide)
      · exact NP.refl _
    · split
      · split
        · split
          · exact np_setMark _ _ _ (by decide)
          · exact NP.refl _
        · split
          · exact np_setMark _ _ _ (by decide)
          · split
            · exact np_setMark _ _ _ (by decide)
            · exact NP.refl _
          · exact NP.refl _
      · exact NP.refl _

theorem np_checkItems (lc : EnumLastCase) (os : List Obj) (parent : String) (noSel : Bool) (s : St) (is : List String) :
    NP s.marks (checkItems lc os parent noSel s is).1.marks := by
  induction is generalizing s with
  | nil => exact NP.refl _
  | cons i r ih =>
    simp only [checkItems]
    have h1 := np_checkItem lc os s parent i noSel
    cases hc : checkItem lc os s parent i noSel with
    | mk s' stop =>
      rw [hc] at h1
      simp only
      cases stop with
      | true => simpa using h1
      | false => simpa using h1.trans (ih s')

theorem np_fold_setMark (names : List String) (m : Marks) : NP m (names.foldl (fun m n => setMark m n .cantprocess) m) := by
  induction names generalizing m with
  | nil => exact NP.refl _
  | cons a r ih => exact (np_setMark m a .cantprocess (by decide)).trans (ih _)

theorem np_markDescs (s : St) (o : Obj) : NP s.marks (markDescs s o).marks := np_fold_setMark _ _

theorem np_visit (lc : EnumLastCase) (os : List Obj) (s : St) (o : Obj) : NP s.marks (visit lc os s o).marks := by
  unfold visit
  split
  · exact NP.refl _
  · split
    · split
      · exact np_setMark _ _ _ (by decide)
      · exact np_markDescs s o
    · have h1 : NP s.marks (setMark s.marks o.name .canprocess) := np_setMark _ _ _ (by decide)
      have h2 := np_checkItems lc os o.name false { s with marks := setMark s.marks o.name .canprocess } o.items
      cases hc : checkItems lc os o.name false { s with marks := setMark s.marks o.name .canprocess } o.items with
      | mk s2 stop =>
        rw [hc] at h2
        cases stop with
        | true =>
          simp only [hc, if_true]
          split
          · exact h1.trans h2
          · exact (h1.trans h2).trans (np_markDescs s2 o)
        | false =>
          simp only [hc, Bool.false_eq_true, if_false]
          exact (h1.trans h2).trans (np_checkItems lc os o.name true s2 o.entAttrTypes)

theorem np_sweep (lc : EnumLastCase) (os order : List Obj) (s : St) : NP s.marks (sweep lc os order s).marks := by
  unfold sweep
  induction order generalizing s with
  | nil => exact NP.refl _
  | cons o r ih => exact (np_visit lc os s o).trans (ih _)

theorem np_markRemaining (order : List Obj) (s : St) : NP s.marks (markRemaining order s).marks := by
  intro k h
  simp only [markRemaining] at h
  split at h
  · cases h
  · exact h

theorem np_iterate (l : SweepLoop) (lc : EnumLastCase) (os order : List Obj) (ls : LoopSt) (k : Nat) :
    NP ls.st.marks (iterate l lc os order ls k).st.marks := by
  unfold iterate
  split
  · exact NP.refl _
  · have hs : NP ls.st.marks (sweep lc os order (resetUnknown ls.st)).marks := np_sweep lc os order (resetUnknown ls.st)
    cases l with
    | untilSettled => exact hs
    | bounded n => exact hs
    | untilSettledOrStalled =>
      simp only
      split
      · exact hs.trans (np_markRemaining order _)
      · exact hs

theorem np_runFrom (l : SweepLoop) (lc : EnumLastCase) (os order : List Obj) (s0 : St) (k : Nat) :
    NP s0.marks (runFrom l lc os order s0 k).st.marks := by
  induction k with
  | zero => exact NP.refl _
  | succ k ih => exact ih.trans (np_iterate l lc os order _ (k + 1))

theorem np_passResult (l : SweepLoop) (lc : EnumLastCase) (p : PSchema) (m : Marks) (s : St)
    (h : passResult l lc p m = some s) : NP m s.marks := by
  unfold passResult at h
  simp only at h
  split at h
  · have := Option.some.inj h
    subst this
    exact (np_runFrom l lc p.os p.types { marks := m, schemaUnprocessed := false } (p.types.length + 2)).trans (np_sweep lc p.os p.ents _)
  · cases h

/-- one `(name, 0)` per schema that has an own object -/
def expectedPrinted (schemas : List PSchema) : List (String × Nat) :=
  (schemas.filter fun q => !q.own.isEmpty).map fun q => (q.name, 0)

/-- own objects of different schemas have different (qualified) names -/
def OwnDisjoint : List PSchema → Prop
  | [] => True
  | p :: rest => (∀ q ∈ rest, ∀ o ∈ q.own, ∀ o' ∈ p.own, o'.name ≠ o.name) ∧ OwnDisjoint rest

theorem visitSchema_prints (d : Bool) (done : List PSchema) (fs : FileSt) (p : PSchema) (hcl : Clean done fs) (wf : WellFormed p)
    (hun : fs.unprocessed p.name = true)
    (hdep : ∀ n, isForeign p.os n = true → ∃ q ∈ done, ∃ o ∈ q.own, o.name = n)
    (hnames : ∀ q ∈ done, q.name ≠ p.name)
    (hfresh : ∀ o ∈ p.own, fs.marks o.name ≠ .processed) :
    (visitSchema d .untilSettledOrStalled .inSchemaOrProcessed fs p).printed
        = fs.printed ++ (if p.own.isEmpty then [] else [(p.name, 0)]) ∧
    (∀ k, (∀ o ∈ p.own, o.name ≠ k) → (visitSchema d .untilSettledOrStalled .inSchemaOrProcessed fs p).marks k = .processed →
        fs.marks k = .processed) := by
  have hclean := (visitSchema_clean d done fs p hcl wf hun hdep hnames).1
  have hfd : FDone p.os fs.marks := by
    intro n hn
    obtain ⟨q, hq, o, ho, e⟩ := hdep n hn
    rw [← e]; exact hcl.processed q hq o ho
  obtain ⟨s, hs, _, hsu, _, _⟩ := passResult_ready p fs.marks wf hcl.nocant hfd
  have ev : visitSchema d .untilSettledOrStalled .inSchemaOrProcessed fs p = finishVisit fs p s := by
    unfold visitSchema
    rw [if_neg (by rw [hun, hcl.nothung]; decide), unsetObjs_id p fs.marks hcl.nocant, hs]
    simp only [hsu, Bool.and_false, Bool.false_and, Bool.false_eq_true, if_false]
  have hnp : NP fs.marks s.marks := np_passResult _ _ p fs.marks s hs
  have hsuf : (if s.schemaUnprocessed || fs.counter p.name > 0 then fs.counter p.name + 1 else 0) = 0 := by
    rw [hsu, hcl.counters p.name]; simp
  rw [ev] at hclean ⊢
  refine ⟨?_, ?_⟩
  · by_cases hemp : p.own.isEmpty = true
    · have : p.own = [] := List.isEmpty_iff.mp hemp
      simp [finishVisit, this]
    · -- some own object: it is PROCESSED afterwards, it was not before, so SCOPEPrint ran
      have hne : p.own ≠ [] := fun e => hemp (List.isEmpty_iff.mpr e)
      obtain ⟨o, ho⟩ := List.exists_mem_of_ne_nil _ hne
      have hproc := hclean.processed p (by simp) o ho
      have hany : (p.own.any fun o => s.marks o.name == .canprocess) = true := by
        cases hA : (p.own.any fun o => s.marks o.name == .canprocess) with
        | true => rfl
        | false =>
          exfalso
          simp only [finishVisit, hA, Bool.false_and, Bool.false_eq_true, if_false] at hproc
          exact hfresh o ho (hnp _ hproc)
      simp only [finishVisit, hany, if_true, hsuf, hemp, Bool.false_eq_true, if_false]
  · intro k hk hp
    simp only [finishVisit] at hp
    have hown : (p.own.any fun o => o.name == k) = false := by
      rw [List.any_eq_false]
      intro o ho
      simpa using hk o ho
    simp only [hown, Bool.and_false, Bool.false_and, Bool.false_eq_true, if_false] at hp
    exact hnp k hp

theorem round_prints (d : Bool) (done todo : List PSchema) (fs : FileSt) (hcl : Clean done fs) (hord : InDependencyOrder done todo)
    (hun : ∀ q ∈ todo, fs.unprocessed q.name = true)
    (hfresh : ∀ q ∈ todo, ∀ o ∈ q.own, fs.marks o.name ≠ .processed) (hdj : OwnDisjoint todo) :
    (todo.foldl (visitSchema d .untilSettledOrStalled .inSchemaOrProcessed) fs).printed = fs.printed ++ expectedPrinted todo := by
  induction todo generalizing done fs with
  | nil => simp [expectedPrinted]
  | cons p rest ih =>
    obtain ⟨wf, hdep, hn1, hn2, hrest⟩ := hord
    have st := visitSchema_clean d done fs p hcl wf (hun p List.mem_cons_self) hdep hn1
    have pr := visitSchema_prints d done fs p hcl wf (hun p List.mem_cons_self) hdep hn1 (hfresh p List.mem_cons_self)
    simp only [List.foldl_cons]
    rw [ih (done ++ [p]) _ st.1 hrest
      (fun q hq => by rw [st.2 q.name (hn2 q hq)]; exact hun q (List.mem_cons_of_mem _ hq))
      (fun q hq o ho hproc => hfresh q (List.mem_cons_of_mem _ hq) o ho
        (pr.2 o.name (fun o' ho' => hdj.1 q hq o ho o' ho') hproc))
      hdj.2, pr.1]
    by_cases hemp : p.own.isEmpty = true
    · simp [expectedPrinted, hemp]
    · simp [expectedPrinted, hemp]

/-- for a file in dependency order everything happens in the first round (with or without the deferral, which never fires) -/
theorem printFile_first_round (d : Bool) (schemas : List PSchema) (hord : InDependencyOrder [] schemas) (fuel : Nat) :
    (printFile .untilSettledOrStalled .inSchemaOrProcessed schemas (fuel + 1) d).printed
        = (schemas.foldl (visitSchema d .untilSettledOrStalled .inSchemaOrProcessed) fileStart).printed ∧
    (printFile .untilSettledOrStalled .inSchemaOrProcessed schemas (fuel + 1) d).hung
        = (schemas.foldl (visitSchema d .untilSettledOrStalled .inSchemaOrProcessed) fileStart).hung ∧
    (printFile .untilSettledOrStalled .inSchemaOrProcessed schemas (fuel + 1) d).unprocessed
        = (schemas.foldl (visitSchema d .untilSettledOrStalled .inSchemaOrProcessed) fileStart).unprocessed := by
  have h0 : Clean [] fileStart :=
    ⟨fun k => by simp [fileStart], rfl, fun _ => rfl, fun q hq => absurd hq List.not_mem_nil,
     fun q hq => absurd hq List.not_mem_nil, fun x hx => absurd hx List.not_mem_nil⟩
  have h1 := round_clean d [] schemas fileStart h0 hord (fun _ _ => rfl)
  simp only [List.nil_append] at h1
  have hstop : ∀ n (fs : FileSt), (∀ q ∈ schemas, fs.unprocessed q.name = false) →
      rounds d .untilSettledOrStalled .inSchemaOrProcessed schemas n fs = fs := by
    intro n fs hfin
    cases n with
    | zero => rfl
    | succ n =>
      simp only [rounds]
      have : schemas.any (fun p => fs.unprocessed p.name) = false := by
        rw [List.any_eq_false]; intro q hq; rw [hfin q hq]; decide
      simp [this]
  have hfin : ∀ q ∈ schemas, (round d .untilSettledOrStalled .inSchemaOrProcessed schemas fileStart).unprocessed q.name = false :=
    fun q hq => h1.finished q hq
  unfold printFile
  simp only [rounds]
  split
  · rw [hstop fuel _ hfin]
    exact ⟨rfl, rfl, rfl⟩
  · rename_i hany
    have hemp : schemas = [] := by
      cases schemas with
      | nil => rfl
      | cons a r => simp [fileStart] at hany
    subst hemp
    exact ⟨rfl, rfl, rfl⟩

/-- **the `SCHEMAprint` calls of a file in dependency order**: one `(name, 0)` per schema with an own object, nothing else -/
theorem printFile_printed (d : Bool) (schemas : List PSchema) (hord : InDependencyOrder [] schemas) (hdj : OwnDisjoint schemas) (fuel : Nat) :
    (printFile .untilSettledOrStalled .inSchemaOrProcessed schemas (fuel + 1) d).printed = expectedPrinted schemas := by
  rw [(printFile_first_round d schemas hord fuel).1]
  have h0 : Clean [] fileStart :=
    ⟨fun k => by simp [fileStart], rfl, fun _ => rfl, fun q hq => absurd hq List.not_mem_nil,
     fun q hq => absurd hq List.not_mem_nil, fun x hx => absurd hx List.not_mem_nil⟩
  have := round_prints d [] schemas fileStart h0 hord (fun _ _ => rfl) (fun q _ o _ => by simp [fileStart]) hdj
  simpa [fileStart] using this

end StepModel.GenFiles.Pass

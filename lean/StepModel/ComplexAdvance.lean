import StepModel.ComplexCount
/-! The positive step of an odometer digit: `OrList::tryNext` moves to the next alternative that counts, if there is one. -/
namespace StepModel.Complex.Match
open StepModel.Generated StepModel.Complex

theorem inRange_some {c : Int} {n i : Nat} (h : inRange c n = some i) : c = (i : Int) ∧ i < n := by
  unfold inRange at h
  split at h
  · rename_i hc
    have := Option.some.inj h
    omega
  · cases h

/-- `acceptOr_progress` with the hypotheses on the leaves restricted to the alternative at `p`: the other alternatives
may repeat its names (`OR(b, AND(b, …))`) -/
theorem acceptOr_progress' (N : List Name) (hN : N.Pairwise (· < ·)) : ∀ (f : Nat) (cs : List ST) (i : Nat) (es : Ents)
    (r : List ST × Ents × Option Nat) (o : Name → Nat) (p : Nat) (chp : ST),
    acceptOr f cs i es = .ok r → names es = N → FrL o cs es → holdsL cs = [] → (lvS chp).Nodup →
    (∀ n ∈ lvS chp, o n = 0) → TidyL cs → i ≤ p → cs[p]? = some chp → PA N chp →
    ∃ j, r.2.2 = some j ∧ i ≤ j ∧ j ≤ p := by
  intro f
  induction f with
  | zero => intro cs i es r o p chp h; simp [acceptOr] at h
  | succ f ih =>
    intro cs i es r o p chp h hnm hfr h0 hnd hout htidy hip hp hpa
    have hf0 : Fr0 o es := fun x => by
      have := hfr.1 x
      have hz : cntL x cs = 0 := by simp [cntL, h0]
      rw [hz, Nat.add_zero] at this; exact this
    have hplt : p < cs.length := (List.getElem?_eq_some_iff.mp hp).1
    simp only [acceptOr] at h
    cases hci : cs[i]? with
    | none =>
      have := List.getElem?_eq_none_iff.mp hci
      omega
    | some ch =>
      simp only [hci] at h
      have hch0 : holds ch = [] := (holdsL_nil_iff cs).mp h0 ch (List.mem_of_getElem? hci)
      by_cases hal : ch.atLeastSome = true
      · simp only [hal, if_true] at h
        obtain ⟨⟨ch', es1, b⟩, h1, h2⟩ := bind_ok' h
        have hfrc : Fr o ch es := Fr_of_H0 hch0 hf0
        have htc : Tidy ch := (TidyL_iff cs).mp htidy ch (List.mem_of_getElem? hci)
        have PM := (accept_marks N hN f).1 ch es _ o h1 hnm hfrc htc (Idle_of_H0 ch hch0) (fun _ => hal)
        simp only at h2
        cases b with
        | true =>
          simp only [if_true] at h2
          cases h2
          exact ⟨i, rfl, Nat.le_refl _, hip⟩
        | false =>
          simp only [Bool.false_eq_true, if_false] at h2
          have hpi : p ≠ i := by
            intro e; subst e
            have hcc : ch = chp := by rw [hci] at hp; exact Option.some.inj hp
            have hpa' : PA N ch := by rw [hcc]; exact hpa
            have := ((accept_pos N hN f).1 ch es _ o h1 hnm hfrc hch0 (by rw [hcc]; exact hnd)
              (fun n hn => hout n (by rw [← hcc]; exact hn)) hpa' htc).2.1
            simp at this
          obtain ⟨q1, q2⟩ := PM.noop rfl
          have hn1 : names es1 = N := by rw [(accept_names f).1 ch es _ h1]; exact hnm
          have hch'0 : holds ch' = [] := by rw [q1]; exact hch0
          have hothers : ∀ q c0, cs[q]? = some c0 → q ≠ i → holds c0 = [] :=
            fun q c0 hq _ => (holdsL_nil_iff cs).mp h0 c0 (List.mem_of_getElem? hq)
          have h0' : holdsL (cs.set i ch') = [] := holdsL_set_nil hothers hch'0
          have hf1 : Fr0 o es1 := fun x => by rw [q2 x]; exact hf0 x
          have htd' : TidyL (cs.set i ch') := TidyL_set htidy PM.tidy
          obtain ⟨j, hj1, hj2, hj3⟩ := ih (cs.set i ch') (i + 1) es1 r o p chp h2 hn1 (FrL_of_H0 h0' hf1) h0'
            hnd hout htd' (by omega)
            (by rw [List.getElem?_set_ne (fun e => hpi e.symm)]; exact hp) hpa
          exact ⟨j, hj1, by omega, hj3⟩
      · simp only [hal, Bool.false_eq_true, if_false] at h
        have hpi : p ≠ i := by
          intro e; subst e
          have hcc : ch = chp := by rw [hci] at hp; exact Option.some.inj hp
          exact hal (by rw [hcc]; exact PA_als hpa)
        obtain ⟨j, hj1, hj2, hj3⟩ := ih cs (i + 1) es r o p chp h hnm hfr h0 hnd hout htidy (by omega) hp hpa
        exact ⟨j, hj1, by omega, hj3⟩

/-- **the positive step of a digit.**  An OrList at alternative `c` with a later alternative `p` that counts and is free
(`PA`, distinct leaves none of which is held outside the OrList), `choiceCount ≠ 1`: `OrList::tryNext` answers MATCHALL or
NEWCHOICE — never NOMORE — and its new `choice` lies in `[c, p]` (`c` itself when the current alternative could step). -/
theorem tryNext_or_advances (N : List Name) (hN : N.Pairwise (· < ·)) (f : Nat) (v : MT) (c c1 : Int) (k : Nat)
    (cs : List ST) (es : Ents) (r : ST × Ents × MT) (o : Name → Nat) (p : Nat) (chp : ST)
    (h : tryNext f (.mult .or v c c1 k cs) es = .ok r) (hnm : names es = N)
    (hfr : Fr o (.mult .or v c c1 k cs) es) (htidy : Tidy (.mult .or v c c1 k cs)) (hchk : ChK (.mult .or v c c1 k cs))
    (hsm : smallOr (skel (.mult .or v c c1 k cs))) (hk : k ≠ 1)
    (hcp : c < (p : Int)) (hp : cs[p]? = some chp) (hpa : PA N chp) (hnd : (lvS chp).Nodup)
    (hout : ∀ n ∈ lvS chp, o n = 0) :
    (r.2.2 = .all ∨ r.2.2 = .newchoice) ∧ ∃ c' cs', r.1 = .mult .or v c' c1 k cs' ∧ c ≤ c' ∧ c' ≤ (p : Int) := by
  obtain ⟨hc, hl⟩ := hfr
  simp only [Loc] at hl
  simp only [Tidy] at htidy
  obtain ⟨htl, hkc, huc, hor⟩ := htidy
  simp only [ChK] at hchk
  obtain ⟨hck, hcho⟩ := hchk
  simp only [skel, smallOr] at hsm
  obtain ⟨hsmo, hsmL⟩ := hsm
  have hlen : (cs.length : Int) < listEnd := by
    have := hsmo trivial; simpa [skelL_length] using this
  have hplt : p < cs.length := (List.getElem?_eq_some_iff.mp hp).1
  have hce : c ≠ listEnd := by omega
  cases f with
  | zero => simp [tryNext] at h
  | succ f =>
    simp only [tryNext, hce, if_false] at h
    cases hir : inRange c cs.length with
    | none => simp only [hir] at h; cases h
    | some i =>
      simp only [hir] at h
      obtain ⟨hci, hilt⟩ := inRange_some hir
      cases hch : cs[i]? with
      | none => simp only [hch] at h; cases h
      | some ch =>
        simp only [hch] at h
        have hothers : ∀ p c0, cs[p]? = some c0 → p ≠ i → holds c0 = [] :=
          fun p c0 hp hne => hor trivial p c0 hp (by rw [hir]; intro e; cases e; exact hne rfl)
        have hfrc : Fr o ch es := by
          refine ⟨fun x => ?_, (LocL_iff es cs).mp hl ch (List.mem_of_getElem? hch)⟩
          have := hc x
          rw [cnt_mult, cntL_only hch hothers x] at this; exact this
        have htch : Tidy ch := (TidyL_iff cs).mp htl ch (List.mem_of_getElem? hch)
        have hcch : ChK ch := (ChKL_iff cs).mp hck ch (List.mem_of_getElem? hch)
        have hsch : smallOr (skel ch) := smallOrL_mem hsmL hch
        obtain ⟨⟨ch1, es1, r1⟩, h1, h2⟩ := ite_bind_ok h
        have A : Fr o ch1 es1 ∧ Tidy ch1 ∧ names es1 = N := by
          split at h1
          · have P := (trynext_marks N hN f).1 ch es _ o h1 hnm hfrc htch hcch hsch
            exact ⟨P.fr, P.tidy, P.nm⟩
          · cases h1
            exact ⟨hfrc, htch, hnm⟩
        obtain ⟨a1, a3, a5⟩ := A
        have hothers1 : ∀ p c0, (cs.set i ch1)[p]? = some c0 → p ≠ i → holds c0 = [] := by
          intro p c0 hp hne
          rw [List.getElem?_set_ne (fun e => hne e.symm)] at hp
          exact hothers p c0 hp hne
        simp only at h2
        split at h2
        · cases h2
          exact ⟨Or.inl rfl, c, _, rfl, Int.le_refl _, by omega⟩
        · split at h2
          · cases h2
            exact ⟨Or.inr rfl, c, _, rfl, Int.le_refl _, by omega⟩
          · obtain ⟨⟨ch2, es2⟩, h3, h4⟩ := bind_ok' h2
            have U := (unmark_marks N hN f).1 ch1 es1 _ o h3 a5 a1 (OrT_of_Tidy _ a3)
            have hn2 : names es2 = N := by rw [(unmark_names f).1 ch1 es1 _ h3]; exact a5
            have h02 : holdsL ((cs.set i ch1).set i ch2) = [] := holdsL_set_nil hothers1 U.h0
            simp only [hk, if_false] at h4
            obtain ⟨⟨node, es3, b⟩, h5, h6⟩ := bind_ok' h4
            cases f with
            | zero => simp [acceptChoice] at h5
            | succ g =>
              have hne1 : c + 1 ≠ listEnd := by omega
              have hipl : i + 1 ≤ p := by omega
              simp only [acceptChoice, hne1, if_false] at h5
              have hir1 : inRange (c + 1) ((cs.set i ch1).set i ch2).length = some (i + 1) := by
                have : c + 1 = ((i + 1 : Nat) : Int) := by omega
                rw [this]
                exact inRange_cast (by simp only [List.length_set]; omega)
              simp only [hir1] at h5
              obtain ⟨⟨cs', es', ro⟩, h7, h8⟩ := bind_ok' h5
              have hpi : p ≠ i := by omega
              have hp2 : ((cs.set i ch1).set i ch2)[p]? = some chp := by
                rw [List.getElem?_set_ne (fun e => hpi e.symm), List.getElem?_set_ne (fun e => hpi e.symm)]; exact hp
              obtain ⟨j, hj1, hj2, hj3⟩ := acceptOr_progress' N hN g _ (i + 1) es2 _ o p chp h7 hn2
                (FrL_of_H0 h02 U.fr) h02 hnd hout (TidyL_of_H0 _ h02) hipl hp2 hpa
              simp only at hj1 h8
              subst hj1
              simp only at h8
              cases h8
              simp only [if_true] at h6
              cases h6
              refine ⟨?_, (j : Int), cs', rfl, by omega, by omega⟩
              simp only
              split
              · exact Or.inl rfl
              · exact Or.inr rfl

/-- **the digit restarts at its first value.**  Re-acceptance (`tryFwd` → `OrList::acceptChoice`) of an exhausted OrList
(`choice = LISTEND`) scans from `choice1`: with an alternative `p ≥ choice1` that counts and is free it accepts, and the
new `choice` lies in `[choice1, p]`. -/
theorem reaccept_restarts (N : List Name) (hN : N.Pairwise (· < ·)) (f : Nat) (v : MT) (c1 : Int) (k : Nat)
    (cs : List ST) (es : Ents) (r : ST × Ents × Bool) (o : Name → Nat) (p : Nat) (chp : ST)
    (h : acceptChoice f (.mult .or v listEnd c1 k cs) es = .ok r) (hnm : names es = N)
    (hfr : FrL o cs es) (h0 : holdsL cs = []) (htidy : TidyL cs)
    (hc1 : 0 ≤ c1) (hcp : c1 ≤ (p : Int)) (hp : cs[p]? = some chp) (hpa : PA N chp) (hnd : (lvS chp).Nodup)
    (hout : ∀ n ∈ lvS chp, o n = 0) :
    r.2.2 = true ∧ ∃ (j : Nat) (cs' : List ST), r.1 = .mult .or v (j : Int) c1 k cs' ∧ c1 ≤ (j : Int) ∧ j ≤ p := by
  have hplt : p < cs.length := (List.getElem?_eq_some_iff.mp hp).1
  cases f with
  | zero => simp [acceptChoice] at h
  | succ f =>
    simp only [acceptChoice, if_true] at h
    obtain ⟨i, hi⟩ : ∃ i : Nat, c1 = (i : Int) := ⟨c1.toNat, by omega⟩
    have hir : inRange c1 cs.length = some i := by rw [hi]; exact inRange_cast (by omega)
    simp only [hir] at h
    obtain ⟨⟨cs', es', ro⟩, h1, h2⟩ := bind_ok' h
    obtain ⟨j, hj1, hj2, hj3⟩ := acceptOr_progress' N hN f cs i es _ o p chp h1 hnm hfr h0 hnd hout htidy (by omega) hp hpa
    simp only at hj1 h2
    subst hj1
    simp only at h2
    cases h2
    exact ⟨rfl, j, cs', rfl, by omega, hj3⟩

/-- the states the retry loop of `ComplexList::matches` passes through: each step is a `tryNext` that answered NEWCHOICE,
or MATCHALL with `hitMultNodes` failing -/
inductive RetryReach (combo : Bool) : ST → Ents → ST → Ents → Prop
  | refl (h : ST) (e : Ents) : RetryReach combo h e h e
  | step {h : ST} {e : Ents} {h1 : ST} {e1 : Ents} {h2 : ST} {e2 : Ents} (g : Nat) (r : MT) :
      tryNext g h e = .ok (h1, e1, r) → (r = .newchoice ∨ (r = .all ∧ hitMultNodes combo h1 e1 = false)) →
      RetryReach combo h1 e1 h2 e2 → RetryReach combo h e h2 e2

/-- a refusal by the retry loop: the loop reached a state on which `tryNext` answered NOMORE, leaving every steppable
OrList at LISTEND -/
theorem retry_false_last (combo : Bool) : ∀ (f : Nat) (head : ST) (es : Ents), retry f combo head es = .ok false →
    ∃ (head' : ST) (es' : Ents) (g : Nat) (r : ST × Ents × MT), RetryReach combo head es head' es' ∧
      tryNext g head' es' = .ok r ∧ r.2.2 ≠ .all ∧ r.2.2 ≠ .newchoice ∧ Exh r.1 := by
  intro f
  induction f with
  | zero => intro head es h; simp [retry] at h
  | succ f ih =>
    intro head es h
    simp only [retry] at h
    obtain ⟨⟨head1, es1, r⟩, h1, h2⟩ := bind_ok' h
    simp only at h2
    split at h2
    · rename_i hall
      split at h2
      · cases h2
      · rename_i hhit
        obtain ⟨h', e', g, r', R, q⟩ := ih head1 es1 h2
        exact ⟨h', e', g, r', .step f r h1 (Or.inr ⟨hall, by simpa using hhit⟩) R, q⟩
    · rename_i hna
      split at h2
      · rename_i hnew
        obtain ⟨h', e', g, r', R, q⟩ := ih head1 es1 h2
        exact ⟨h', e', g, r', .step f r h1 (Or.inl hnew) R, q⟩
      · rename_i hnn
        exact ⟨head, es, f, _, .refl head es, h1, hna, hnn, (nomore_exh f).1 head es _ h1 hna hnn⟩

end StepModel.Complex.Match

import StepModel.GenCxxLemmas
/-! `Spec.Mirror` (what "the dictionary mirrors the schema" means) and the lemmas that describe the result of
the registry mutation sequence `entityOps` entity by entity.  Used by `Props/C02.lean`. -/
namespace StepModel.GenCxx
open StepModel.Generated

/-! ## Specification -/
namespace Spec

/-- element-wise relation between two lists of the same length, in order -/
inductive Forall2 {α β : Type} (R : α → β → Prop) : List α → List β → Prop
  | nil : Forall2 R [] []
  | cons {a b l l'} : R a b → Forall2 R l l' → Forall2 R (a :: l) (b :: l')

/-- a descriptor reference mirrors a type expression: same named type / entity / built-in; an unnamed aggregate
    is an aggregate descriptor of the same kind, with the declared bounds (`?` = the generator's "unbounded"
    constant, no bound specification = unset), UNIQUE flag, OPTIONAL flag (only ARRAY has one), and a mirroring
    element type -/
inductive MirrorRef : TRef → DRef → Prop
  | base (b : Base) : MirrorRef (.base b) (.base b)
  | named (n : String) : MirrorRef (.named n) (.named n)
  | entity (n : String) : MirrorRef (.entity n) (.entity n)
  | aggrNoBounds (k : AggKind) (u o : Bool) (el : TRef) (el' : DRef) : MirrorRef el el' →
      MirrorRef (.aggr k none u o el) (.aggr k none none u (o && k == .array) el')
  | aggrLit (k : AggKind) (lo hi : Int) (u o : Bool) (el : TRef) (el' : DRef) : MirrorRef el el' →
      MirrorRef (.aggr k (some (lo, .lit hi)) u o el) (.aggr k (some lo) (some hi) u (o && k == .array) el')
  | aggrInf (k : AggKind) (lo : Int) (u o : Bool) (el : TRef) (el' : DRef) : MirrorRef el el' →
      MirrorRef (.aggr k (some (lo, .inf)) u o el) (.aggr k (some lo) (some literalInfinity) u (o && k == .array) el')

def isInverse (a : Attr) : Bool := a.kind == .inverse

/-- name under which an attribute is registered: `x`, or `sup.x` for a redeclaration `SELF\sup.x` -/
def registeredName (a : Attr) : String :=
  match a.redecl with
  | none => a.name
  | some sup => sup ++ "." ++ a.name

structure MirrorAttr (owner : String) (a : Attr) (d : DAttr) : Prop where
  name : d.name = registeredName a
  opt : d.opt = a.optional
  owner : d.owner = owner
  type : MirrorRef a.type d.type
  kind : d.kind = (if a.kind == .derived then DKind.D else if a.redecl.isSome then DKind.R else DKind.E)

/-- the entity whose attribute an INVERSE attribute inverts: `inv : e FOR x` or `inv : SET|BAG [..] OF e FOR x` -/
inductive InvTarget : TRef → String → Prop
  | single (n : String) : InvTarget (.entity n) n
  | many (k : AggKind) (b : Option (Int × Upper)) (u o : Bool) (n : String) : InvTarget (.aggr k b u o (.entity n)) n

structure MirrorInv (owner : String) (a : Attr) (d : DInv) : Prop where
  name : d.name = registeredName a
  opt : d.opt = a.optional
  owner : d.owner = owner
  type : MirrorRef a.type d.type
  invAttr : d.invAttr = a.invAttr
  /-- `inverted_entity_id_` names the entity the declaration names -/
  invEntity : ∀ n, InvTarget a.type n → d.invEntity = n

structure MirrorEntity (s : Schema) (e : Entity) (d : DEntity) : Prop where
  name : d.name = e.name
  abstract : d.abstract = e.abstract
  supers : d.supers = e.supers
  attrs : Forall2 (MirrorAttr e.name) (e.attrs.filter (fun a => !isInverse a)) d.attrs
  invs : Forall2 (MirrorInv e.name) (e.attrs.filter isInverse) d.invs
  subs : ∀ x, x ∈ d.subs ↔ ∃ e' ∈ s.entities, e'.name = x ∧ e.name ∈ e'.supers

/-- `r` is the declaration that carries the body of the type named `n` (following `TYPE a = b;` renames) -/
inductive RootOf (s : Schema) : String → TypeDecl → Prop
  | here (n : String) (td : TypeDecl) : s.findT n = some td → (∀ m, td.body ≠ .alias (.named m)) → RootOf s n td
  | step (n m : String) (td r : TypeDecl) : s.findT n = some td → td.body = .alias (.named m) → RootOf s m r → RootOf s n r

structure MirrorType (s : Schema) (td : TypeDecl) (d : DType) : Prop where
  name : d.name = td.name
  enum : ∀ items, td.body = .enum items → d.ft = .enumeration ∧ d.items = some items
  select : ∀ ms, td.body = .select ms → d.ft = .select ∧ ∃ ms', d.members = some ms' ∧ Forall2 MirrorRef ms ms'
  simple : ∀ b, td.body = .alias (.base b) → d.ft = baseFT b ∧ d.ref = .base b
  aggr : ∀ k bnds u o el, td.body = .alias (.aggr k bnds u o el) →
    d.ft = aggFT k ∧ ∃ b1 b2 el', d.aggr = some (k, b1, b2, u, o && k == .array) ∧ d.ref = el' ∧
      MirrorRef (.aggr k bnds u o el) (.aggr k b1 b2 u (o && k == .array) el')
  renamed : ∀ m, td.body = .alias (.named m) → d.ft = .ref ∧ d.ref = .named m ∧
    ∀ r, RootOf s m r →
      (∀ items, r.body = .enum items → d.items = some items) ∧
      (∀ ms, r.body = .select ms → ∃ ms', d.members = some ms' ∧ Forall2 MirrorRef ms ms')

/-- the dictionary contains exactly the schema's entities and named types, each mirrored -/
structure Mirror (s : Schema) (d : Dict) : Prop where
  schema : d.schema = s.name
  exactlyEntities : (d.entities.map (·.name)).Perm (s.entities.map (·.name))
  entities : ∀ e ∈ s.entities, ∃ de ∈ d.entities, MirrorEntity s e de
  types : Forall2 (MirrorType s) s.types d.types

/-- type renames are acyclic and refer to declared types -/
structure WFT (s : Schema) (trank : String → Nat) : Prop where
  rename : ∀ td ∈ s.types, ∀ m, td.body = .alias (.named m) → (s.findT m).isSome ∧ trank m < trank td.name
  bound : ∀ td ∈ s.types, trank td.name < s.types.length

/-- `TYPE t = <aggregate> OF sel` where `sel` is (another name for) a SELECT -/
def AggrOfSelect (s : Schema) (td : TypeDecl) : Prop :=
  ∃ k bnds u o el, td.body = .alias (.aggr k bnds u o el) ∧ elemIsSelect s el = true

end Spec
open Spec

/-! ## type expressions -/

theorem mirrorRef_refOf (t : TRef) : MirrorRef t (refOf t) := by
  induction t with
  | base b => exact .base b
  | named n => exact .named n
  | entity n => exact .entity n
  | aggr k bnds u o el ih =>
    cases bnds with
    | none => exact .aggrNoBounds k u o el _ ih
    | some b =>
      obtain ⟨lo, hi⟩ := b
      cases hi with
      | lit h => exact .aggrLit k lo h u o el _ ih
      | inf => exact .aggrInf k lo u o el _ ih

theorem forall2_map_refOf (ms : List TRef) : Forall2 MirrorRef ms (ms.map refOf) := by
  induction ms with
  | nil => exact .nil
  | cons x xs ih => exact .cons (mirrorRef_refOf x) ih

/-! ## rename chains -/

theorem rootOf_unique {s : Schema} {n : String} {r r' : TypeDecl} (h : RootOf s n r) (h' : RootOf s n r') : r = r' := by
  induction h generalizing r' with
  | here n td hf hb =>
    cases h' with
    | here _ _ hf' _ => rw [hf] at hf'; exact Option.some.inj hf'
    | step _ m _ _ hf' hb' _ => rw [hf] at hf'; cases Option.some.inj hf'; exact absurd hb' (hb m)
  | step n m td r hf hb _ ih =>
    cases h' with
    | here _ _ hf' hb' => rw [hf] at hf'; cases Option.some.inj hf'; exact absurd hb (hb' m)
    | step _ m' _ _ hf' hb' hr' =>
      rw [hf] at hf'; cases Option.some.inj hf'
      rw [hb] at hb'
      have : m = m' := by injection hb' with h1; injection h1
      subst this
      exact ih hr'

theorem resolve_root {s : Schema} {trank : String → Nat} (wf : WFT s trank) :
    ∀ f n, trank n < f → (s.findT n).isSome → ∃ r, RootOf s n r ∧ resolve s f n = some r := by
  intro f
  induction f with
  | zero => intro n h; omega
  | succ f ih =>
    intro n hr hex
    obtain ⟨td, hT⟩ := Option.isSome_iff_exists.mp hex
    have htm : td ∈ s.types := by unfold Schema.findT at hT; exact List.mem_of_find?_eq_some hT
    have htn : td.name = n := by
      unfold Schema.findT at hT
      have := List.find?_some hT
      simpa using this
    have hres : resolve s (f + 1) n =
        match s.findT n with
        | none => none
        | some td =>
          match td.body with
          | .alias (.named m) => resolve s f m
          | _ => some td := rfl
    rw [hres, hT]
    simp only []
    cases hb : td.body with
    | enum items => exact ⟨td, .here n td hT (by intro m; rw [hb]; simp), rfl⟩
    | select ms => exact ⟨td, .here n td hT (by intro m; rw [hb]; simp), rfl⟩
    | alias t =>
      cases t with
      | named m =>
        have := wf.rename td htm m hb
        rw [htn] at this
        obtain ⟨r, hr1, hr2⟩ := ih m (by omega) this.1
        exact ⟨r, .step n m td r hT hb hr1, hr2⟩
      | base b => exact ⟨td, .here n td hT (by intro m; rw [hb]; simp), rfl⟩
      | entity e => exact ⟨td, .here n td hT (by intro m; rw [hb]; simp), rfl⟩
      | aggr k bn u o el => exact ⟨td, .here n td hT (by intro m; rw [hb]; simp), rfl⟩

/-! ## defined types -/

theorem mirrorType_typeOfM {s : Schema} {trank : String → Nat} (wf : WFT s trank) (mode : DescCreation)
    (td : TypeDecl) (htd : td ∈ s.types) (hm : mode = .beforeInits ∨ ¬ AggrOfSelect s td) :
    MirrorType s td (typeOfM mode s td) := by
  have hname : (typeOfM mode s td).name = td.name := by
    unfold typeOfM
    split <;> try rfl
    split <;> rfl
  refine ⟨hname, ?_, ?_, ?_, ?_, ?_⟩
  · intro items hb; unfold typeOfM; rw [hb]; exact ⟨rfl, rfl⟩
  · intro ms hb; unfold typeOfM; rw [hb]; exact ⟨rfl, _, rfl, forall2_map_refOf ms⟩
  · intro b hb; unfold typeOfM; rw [hb]; exact ⟨rfl, rfl⟩
  · intro k bnds u o el hb
    have hnull : (mode == DescCreation.ownInit && elemIsSelect s el) = false := by
      rcases hm with h | h
      · subst h; rfl
      · have : elemIsSelect s el ≠ true := fun he => h ⟨k, bnds, u, o, el, hb, he⟩
        simp [this]
    unfold typeOfM; rw [hb]
    simp only [hnull]
    refine ⟨trivial, _, _, _, rfl, rfl, ?_⟩
    have := mirrorRef_refOf (.aggr k bnds u o el)
    simpa [refOf] using this
  · intro m hb
    have hex := wf.rename td htd m hb
    obtain ⟨r0, hr0, hres⟩ := resolve_root wf (s.types.length) m
      (by
        obtain ⟨tm, hTm⟩ := Option.isSome_iff_exists.mp hex.1
        have h1 : tm ∈ s.types := by unfold Schema.findT at hTm; exact List.mem_of_find?_eq_some hTm
        have h2 : tm.name = m := by
          unfold Schema.findT at hTm
          have := List.find?_some hTm
          simpa using this
        have := wf.bound tm h1
        rw [h2] at this; exact this) hex.1
    unfold typeOfM; rw [hb]
    simp only [hres]
    obtain ⟨rn, rb⟩ := r0
    cases rb with
    | enum items =>
      refine ⟨rfl, rfl, ?_⟩
      intro r hr
      have := rootOf_unique hr hr0
      subst this
      exact ⟨fun it h => (by cases h; rfl), fun ms h => (by cases h)⟩
    | select ms =>
      refine ⟨rfl, rfl, ?_⟩
      intro r hr
      have := rootOf_unique hr hr0
      subst this
      exact ⟨fun it h => (by cases h), fun ms' h => (by cases h; exact ⟨_, rfl, forall2_map_refOf _⟩)⟩
    | alias t =>
      refine ⟨rfl, rfl, ?_⟩
      intro r hr
      have := rootOf_unique hr hr0
      subst this
      exact ⟨fun it h => (by cases h), fun ms h => (by cases h)⟩

/-! ## the getters follow a rename chain of any length -/

theorem typeOfM_name (mode : DescCreation) (s : Schema) (td : TypeDecl) : (typeOfM mode s td).name = td.name := by
  unfold typeOfM
  split <;> try rfl
  split <;> rfl

theorem find_map_typeOf (s : Schema) (l : List TypeDecl) (n : String) :
    (l.map (typeOf s)).find? (fun t => t.name == n) = (l.find? (fun t => t.name == n)).map (typeOf s) := by
  induction l with
  | nil => rfl
  | cons x xs ih =>
    simp only [List.map_cons, List.find?_cons]
    have : (typeOf s x).name = x.name := typeOfM_name _ s x
    rw [this]
    cases x.name == n <;> simp [ih]

theorem viewOf_named (s : Schema) (n : String) (td : TypeDecl) (h : s.findT n = some td) :
    viewOf (s.types.map (typeOf s)) (.named n) = some ((typeOf s td).ft, (typeOf s td).ref) := by
  show Option.map (fun t => (t.ft, t.ref)) ((s.types.map (typeOf s)).find? (fun t => t.name == n)) = _
  rw [find_map_typeOf]
  unfold Schema.findT at h
  rw [h]; rfl

theorem baseFT_ne_ref (b : Base) : baseFT b ≠ FT.ref := by cases b <;> simp [baseFT]
theorem aggFT_ne_ref (k : AggKind) : aggFT k ≠ FT.ref := by cases k <;> simp [aggFT]

/-- a root declaration (body not `= <type name>`, and not the ill-formed `= <entity>`) stops the loop -/
theorem nonRefTD_root (s : Schema) (f : Nat) (n : String) (td : TypeDecl) (h : s.findT n = some td)
    (hroot : ∀ m, td.body ≠ .alias (.named m)) (hent : ∀ e, td.body ≠ .alias (.entity e)) :
    nonRefTD (s.types.map (typeOf s)) (f + 1) (.named n) = .named n := by
  have hv := viewOf_named s n td h
  show (match viewOf (s.types.map (typeOf s)) (.named n) with
    | none => DRef.named n
    | some (ft, ref) => if ref == DRef.null then DRef.named n else if ft != FT.ref then DRef.named n
        else nonRefTD (s.types.map (typeOf s)) f ref) = DRef.named n
  rw [hv]
  simp only
  unfold typeOf typeOfM
  cases hb : td.body with
  | enum items => simp
  | select ms => simp
  | alias t =>
    cases t with
    | base b => simp [baseFT_ne_ref b]
    | named m => exact absurd hb (hroot m)
    | entity e => exact absurd hb (hent e)
    | aggr k bn u o el => simp [aggFT_ne_ref k]

/-- a rename step is followed -/
theorem nonRefTD_step (s : Schema) (f : Nat) (n m : String) (td : TypeDecl) (h : s.findT n = some td)
    (hb : td.body = .alias (.named m)) :
    nonRefTD (s.types.map (typeOf s)) (f + 1) (.named n) = nonRefTD (s.types.map (typeOf s)) f (.named m) := by
  have hv := viewOf_named s n td h
  show (match viewOf (s.types.map (typeOf s)) (.named n) with
    | none => DRef.named n
    | some (ft, ref) => if ref == DRef.null then DRef.named n else if ft != FT.ref then DRef.named n
        else nonRefTD (s.types.map (typeOf s)) f ref) = _
  rw [hv]
  have h1 : (typeOf s td).ft = .ref ∧ (typeOf s td).ref = .named m := by
    unfold typeOf typeOfM
    rw [hb]
    simp only
    split <;> exact ⟨rfl, rfl⟩
  simp only [h1.1, h1.2]
  simp

theorem nonRefTD_chain {s : Schema} {trank : String → Nat} (wf : WFT s trank) {n : String} {r : TypeDecl}
    (h : RootOf s n r) (hent : ∀ e, r.body ≠ .alias (.entity e)) :
    ∀ f, trank n < f → nonRefTD (s.types.map (typeOf s)) f (.named n) = .named r.name := by
  induction h with
  | here n td hT hroot =>
    intro f hf
    cases f with
    | zero => omega
    | succ f =>
      have hn : td.name = n := by
        unfold Schema.findT at hT
        have := List.find?_some hT
        simpa using this
      rw [nonRefTD_root s f n td hT hroot hent, hn]
  | step n m td r hT hb _ ih =>
    intro f hf
    cases f with
    | zero => omega
    | succ f =>
      have htm : td ∈ s.types := by unfold Schema.findT at hT; exact List.mem_of_find?_eq_some hT
      have htn : td.name = n := by
        unfold Schema.findT at hT
        have := List.find?_some hT
        simpa using this
      have hlt := (wf.rename td htm m hb).2
      rw [htn] at hlt
      rw [nonRefTD_step s f n m td hT hb]
      exact ih hent f (by omega)

/-! ## `BaseTypeDescriptor()` and `AggrElemTypeDescriptor()` -/

namespace Spec
/-- the descriptor at the end of all referent links of a type expression, with the number of links followed:
    a built-in or an entity is its own end; an aggregate's end is its element's; a defined type's end is that of what it is
    declared as — an enumeration or select is its own end -/
inductive BaseEnd (s : Schema) : TRef → DRef → Nat → Prop
  | base (b : Base) : BaseEnd s (.base b) (.base b) 0
  | entity (e : String) : BaseEnd s (.entity e) (.entity e) 0
  | aggr (k : AggKind) (bn : Option (Int × Upper)) (u o : Bool) (el : TRef) (d : DRef) (c : Nat) :
      BaseEnd s el d c → BaseEnd s (.aggr k bn u o el) d (c + 1)
  | enum (n : String) (td : TypeDecl) (items : List String) : s.findT n = some td → td.body = .enum items →
      BaseEnd s (.named n) (.named n) 0
  | select (n : String) (td : TypeDecl) (ms : List TRef) : s.findT n = some td → td.body = .select ms →
      BaseEnd s (.named n) (.named n) 0
  | alias (n : String) (td : TypeDecl) (t : TRef) (d : DRef) (c : Nat) : s.findT n = some td → td.body = .alias t →
      (∀ k bn u o el, t ≠ .aggr k bn u o el) → BaseEnd s t d c → BaseEnd s (.named n) d (c + 1)
  | aliasAggr (n : String) (td : TypeDecl) (k : AggKind) (bn : Option (Int × Upper)) (u o : Bool) (el : TRef) (d : DRef)
      (c : Nat) : s.findT n = some td → td.body = .alias (.aggr k bn u o el) →
      BaseEnd s el d c → BaseEnd s (.named n) d (c + 1)
end Spec

theorem viewOf_refOf_base (ts : List DType) (b : Base) : viewOf ts (.base b) = some (baseFT b, .null) := rfl

/-- `BaseTypeDescriptor()` reaches the end the specification names, whenever it is given at least as many loop iterations as
    there are links (the C++ loop has no bound) -/
theorem baseTD_end {s : Schema} (hc : descCreation = .beforeInits) {t : TRef} {d : DRef} {c : Nat}
    (h : BaseEnd s t d c) : ∀ f, c < f → baseTD (s.types.map (typeOf s)) f (refOf t) = d := by
  induction h with
  | base b => intro f hf; cases f with
    | zero => omega
    | succ f => rfl
  | entity e => intro f hf; cases f with
    | zero => omega
    | succ f => rfl
  | aggr k bn u o el d c _ ih =>
    intro f hf
    cases f with
    | zero => omega
    | succ f =>
      have hne : (refOf el == DRef.null) = false := by cases el <;> rfl
      show (match viewOf (s.types.map (typeOf s)) (refOf (.aggr k bn u o el)) with
        | none => refOf (.aggr k bn u o el)
        | some (_, ref) => if ref == DRef.null then refOf (.aggr k bn u o el) else baseTD _ f ref) = d
      simp only [refOf, viewOf, hne, Bool.false_eq_true, ↓reduceIte]
      exact ih f (by omega)
  | enum n td items hT hb =>
    intro f hf
    cases f with
    | zero => omega
    | succ f =>
      show (match viewOf (s.types.map (typeOf s)) (.named n) with
        | none => DRef.named n
        | some (_, ref) => if ref == DRef.null then DRef.named n else baseTD _ f ref) = DRef.named n
      rw [viewOf_named s n td hT]
      unfold typeOf typeOfM; rw [hb]; simp
  | select n td ms hT hb =>
    intro f hf
    cases f with
    | zero => omega
    | succ f =>
      show (match viewOf (s.types.map (typeOf s)) (.named n) with
        | none => DRef.named n
        | some (_, ref) => if ref == DRef.null then DRef.named n else baseTD _ f ref) = DRef.named n
      rw [viewOf_named s n td hT]
      unfold typeOf typeOfM; rw [hb]; simp
  | alias n td t d c hT hb hna _ ih =>
    intro f hf
    cases f with
    | zero => omega
    | succ f =>
      show (match viewOf (s.types.map (typeOf s)) (.named n) with
        | none => DRef.named n
        | some (_, ref) => if ref == DRef.null then DRef.named n else baseTD _ f ref) = d
      rw [viewOf_named s n td hT]
      have href : (typeOf s td).ref = refOf t := by
        unfold typeOf typeOfM; rw [hb]
        cases t with
        | base b => rfl
        | entity e => rfl
        | aggr k bn u o el => exact absurd rfl (hna k bn u o el)
        | named m => simp only [refOf]; split <;> rfl
      have hne : (refOf t == DRef.null) = false := by cases t <;> rfl
      simp only [href, hne, Bool.false_eq_true, ↓reduceIte]
      exact ih f (by omega)
  | aliasAggr n td k bn u o el d c hT hb _ ih =>
    intro f hf
    cases f with
    | zero => omega
    | succ f =>
      show (match viewOf (s.types.map (typeOf s)) (.named n) with
        | none => DRef.named n
        | some (_, ref) => if ref == DRef.null then DRef.named n else baseTD _ f ref) = d
      rw [viewOf_named s n td hT]
      have href : (typeOf s td).ref = refOf el := by
        unfold typeOf typeOfM; rw [hb, hc]; rfl
      have hne : (refOf el == DRef.null) = false := by cases el <;> rfl
      simp only [href, hne, Bool.false_eq_true, ↓reduceIte]
      exact ih f (by omega)

theorem rootOf_find {s : Schema} {n : String} {r : TypeDecl} (h : RootOf s n r) : s.findT r.name = some r := by
  induction h with
  | here n td hT _ =>
    have : td.name = n := by
      unfold Schema.findT at hT
      have := List.find?_some hT
      simpa using this
    rw [this]; exact hT
  | step _ _ _ _ _ _ _ ih => exact ih

/-- the non-reference descriptor of an element written in place (not a type name) is that element's own descriptor -/
theorem nonRefTD_inplace (ts : List DType) (f : Nat) (el : TRef) (h : ∀ m, el ≠ .named m) :
    nonRefTD ts (f + 1) (refOf el) = refOf el := by
  cases el with
  | base b => rfl
  | entity e => rfl
  | named m => exact absurd rfl (h m)
  | aggr k bn u o el' =>
    have hne : (refOf el' == DRef.null) = false := by cases el' <;> rfl
    show (match viewOf ts (refOf (.aggr k bn u o el')) with
      | none => refOf (.aggr k bn u o el')
      | some (ft, ref) => if ref == DRef.null then refOf (.aggr k bn u o el') else if ft != FT.ref then refOf (.aggr k bn u o el')
          else nonRefTD ts f ref) = _
    simp only [refOf, viewOf, hne, Bool.false_eq_true, ↓reduceIte]
    have : (aggFT k != FT.ref) = true := by cases k <;> rfl
    simp [this]

/-! ## the registry mutation sequence, entity by entity -/

def blank (e : Entity) : DEntity := { name := e.name, abstract := e.abstract }

/-- effect of one mutation on one registered entity -/
def Op.app : Op → DEntity → DEntity
  | .newEntity _ _, d => d
  | .addSuper e sup, d => if d.name == e then { d with supers := d.supers ++ [sup] } else d
  | .addSub sup e, d => if d.name == sup then { d with subs := d.subs ++ [e] } else d
  | .addAttr e a, d => if d.name == e then { d with attrs := d.attrs ++ [a] } else d
  | .addInv e i, d => if d.name == e then { d with invs := d.invs ++ [i] } else d

def Op.isNew : Op → Bool
  | .newEntity _ _ => true
  | _ => false

theorem run_eq_map (o : Op) (h : o.isNew = false) (es : List DEntity) : o.run es = es.map o.app := by
  cases o <;> simp [Op.isNew] at h <;> rfl

theorem runOps_append (a b : List Op) (es : List DEntity) : runOps (a ++ b) es = runOps b (runOps a es) := by
  simp [runOps, List.foldl_append]

theorem runOps_new (es : List Entity) (acc : List DEntity) :
    runOps (es.map (fun e => Op.newEntity e.name e.abstract)) acc = acc ++ es.map blank := by
  induction es generalizing acc with
  | nil => simp [runOps]
  | cons x xs ih =>
    have : runOps ((x :: xs).map (fun e => Op.newEntity e.name e.abstract)) acc =
        runOps (xs.map (fun e => Op.newEntity e.name e.abstract)) (acc ++ [blank x]) := rfl
    rw [this, ih]; simp

def applyAll (ops : List Op) (d : DEntity) : DEntity := ops.foldl (fun d o => o.app d) d

theorem runOps_upd (ops : List Op) (h : ∀ o ∈ ops, o.isNew = false) (es : List DEntity) :
    runOps ops es = es.map (applyAll ops) := by
  induction ops generalizing es with
  | nil =>
    have : applyAll [] = id := rfl
    simp [runOps, this]
  | cons o os ih =>
    have : runOps (o :: os) es = runOps os (o.run es) := rfl
    rw [this, run_eq_map o (h o (by simp)), ih (fun o' ho' => h o' (by simp [ho'])), List.map_map]
    rfl

theorem initOps_notNew (e : Entity) : ∀ o ∈ initOps e, o.isNew = false := by
  intro o ho
  unfold initOps at ho
  rcases List.mem_append.mp ho with h | h
  · simp only [List.mem_flatMap] at h
    obtain ⟨sup, _, h⟩ := h
    simp at h
    rcases h with rfl | rfl <;> rfl
  · simp only [List.mem_map] at h
    obtain ⟨a, _, rfl⟩ := h
    split <;> rfl

theorem app_name (o : Op) (d : DEntity) : (o.app d).name = d.name := by
  cases o <;> simp only [Op.app] <;> split <;> rfl

theorem app_abstract (o : Op) (d : DEntity) : (o.app d).abstract = d.abstract := by
  cases o <;> simp only [Op.app] <;> split <;> rfl

theorem applyAll_name (ops : List Op) (d : DEntity) : (applyAll ops d).name = d.name := by
  induction ops generalizing d with
  | nil => rfl
  | cons o os ih => show (applyAll os (o.app d)).name = d.name; rw [ih, app_name]

theorem applyAll_abstract (ops : List Op) (d : DEntity) : (applyAll ops d).abstract = d.abstract := by
  induction ops generalizing d with
  | nil => rfl
  | cons o os ih => show (applyAll os (o.app d)).abstract = d.abstract; rw [ih, app_abstract]

/-- a list-valued field that every mutation either leaves alone or extends by one element -/
theorem proj_fold {α : Type} (get : DEntity → List α) (sel : Op → String → Option α)
    (hget : ∀ o d, get (o.app d) = get d ++ (sel o d.name).toList)
    (ops : List Op) (d : DEntity) :
    get (applyAll ops d) = get d ++ ops.filterMap (fun o => sel o d.name) := by
  induction ops generalizing d with
  | nil => simp [applyAll]
  | cons o os ih =>
    show get (applyAll os (o.app d)) = _
    rw [ih, hget, app_name, List.filterMap_cons]
    cases sel o d.name <;> simp

def selSuper : Op → String → Option String
  | .addSuper e sup, n => if n == e then some sup else none
  | _, _ => none
def selSub : Op → String → Option String
  | .addSub sup e, n => if n == sup then some e else none
  | _, _ => none
def selAttr : Op → String → Option DAttr
  | .addAttr e a, n => if n == e then some a else none
  | _, _ => none
def selInv : Op → String → Option DInv
  | .addInv e i, n => if n == e then some i else none
  | _, _ => none

theorem get_supers (o : Op) (d : DEntity) : (o.app d).supers = d.supers ++ (selSuper o d.name).toList := by
  cases o <;> simp only [Op.app, selSuper] <;> (try split) <;> simp_all
theorem get_subs (o : Op) (d : DEntity) : (o.app d).subs = d.subs ++ (selSub o d.name).toList := by
  cases o <;> simp only [Op.app, selSub] <;> (try split) <;> simp_all
theorem get_attrs (o : Op) (d : DEntity) : (o.app d).attrs = d.attrs ++ (selAttr o d.name).toList := by
  cases o <;> simp only [Op.app, selAttr] <;> (try split) <;> simp_all
theorem get_invs (o : Op) (d : DEntity) : (o.app d).invs = d.invs ++ (selInv o d.name).toList := by
  cases o <;> simp only [Op.app, selInv] <;> (try split) <;> simp_all

theorem filterMap_flatMap {α β γ : Type} (f : β → Option γ) (g : α → List β) (l : List α) :
    (l.flatMap g).filterMap f = l.flatMap (fun x => (g x).filterMap f) := by
  induction l with
  | nil => rfl
  | cons x xs ih => simp [List.flatMap_cons, List.filterMap_append, ih]

theorem filterMap_none {α β : Type} (f : α → Option β) (l : List α) (h : ∀ x ∈ l, f x = none) :
    l.filterMap f = [] := by
  induction l with
  | nil => rfl
  | cons x xs ih => rw [List.filterMap_cons, h x (by simp)]; exact ih (fun y hy => h y (by simp [hy]))

def attrOp (e : Entity) (a : Attr) : Op :=
  if a.kind == .inverse then Op.addInv e.name (dinvOf e.name a) else Op.addAttr e.name (dattrOf e.name a)

theorem initOps_eq (e : Entity) : initOps e =
    e.supers.flatMap (fun sup => [Op.addSuper e.name sup, Op.addSub sup e.name]) ++ e.attrs.map (attrOp e) := rfl

theorem sel_initOps_super (e : Entity) (n : String) :
    (initOps e).filterMap (fun o => selSuper o n) = if n == e.name then e.supers else [] := by
  rw [initOps_eq, List.filterMap_append]
  have h2 : (e.attrs.map (attrOp e)).filterMap (fun o => selSuper o n) = [] := by
    apply filterMap_none
    intro o ho
    obtain ⟨a, _, rfl⟩ := List.mem_map.mp ho
    unfold attrOp; split <;> rfl
  rw [h2, List.append_nil, filterMap_flatMap]
  generalize e.supers = l
  induction l with
  | nil => simp
  | cons x xs ih =>
    rw [List.flatMap_cons, ih]
    by_cases h : n = e.name <;> simp [selSuper, h]

theorem sel_initOps_sub (e : Entity) (n : String) :
    (initOps e).filterMap (fun o => selSub o n) = e.supers.filterMap (fun sup => if n == sup then some e.name else none) := by
  rw [initOps_eq, List.filterMap_append]
  have h2 : (e.attrs.map (attrOp e)).filterMap (fun o => selSub o n) = [] := by
    apply filterMap_none
    intro o ho
    obtain ⟨a, _, rfl⟩ := List.mem_map.mp ho
    unfold attrOp; split <;> rfl
  rw [h2, List.append_nil, filterMap_flatMap]
  generalize e.supers = l
  induction l with
  | nil => rfl
  | cons x xs ih =>
    rw [List.flatMap_cons, ih, List.filterMap_cons]
    by_cases h : n = x <;> simp [selSub, h]

theorem sel_initOps_attr (e : Entity) (n : String) :
    (initOps e).filterMap (fun o => selAttr o n) =
      if n == e.name then (e.attrs.filter (fun a => !isInverse a)).map (dattrOf e.name) else [] := by
  rw [initOps_eq, List.filterMap_append]
  have h1 : (e.supers.flatMap (fun sup => [Op.addSuper e.name sup, Op.addSub sup e.name])).filterMap (fun o => selAttr o n) = [] := by
    apply filterMap_none
    intro o ho
    obtain ⟨sup, _, h⟩ := List.mem_flatMap.mp ho
    simp at h
    rcases h with rfl | rfl <;> rfl
  rw [h1, List.nil_append]
  generalize e.attrs = l
  induction l with
  | nil => simp
  | cons a as ih =>
    rw [List.map_cons, List.filterMap_cons, ih]
    by_cases hk : a.kind = .inverse
    · by_cases h : n = e.name <;> simp [attrOp, isInverse, selAttr, hk, h]
    · by_cases h : n = e.name <;> simp [attrOp, isInverse, selAttr, hk, h]

theorem sel_initOps_inv (e : Entity) (n : String) :
    (initOps e).filterMap (fun o => selInv o n) =
      if n == e.name then (e.attrs.filter isInverse).map (dinvOf e.name) else [] := by
  rw [initOps_eq, List.filterMap_append]
  have h1 : (e.supers.flatMap (fun sup => [Op.addSuper e.name sup, Op.addSub sup e.name])).filterMap (fun o => selInv o n) = [] := by
    apply filterMap_none
    intro o ho
    obtain ⟨sup, _, h⟩ := List.mem_flatMap.mp ho
    simp at h
    rcases h with rfl | rfl <;> rfl
  rw [h1, List.nil_append]
  generalize e.attrs = l
  induction l with
  | nil => simp
  | cons a as ih =>
    rw [List.map_cons, List.filterMap_cons, ih]
    by_cases hk : a.kind = .inverse
    · by_cases h : n = e.name <;> simp [attrOp, isInverse, selInv, hk, h]
    · by_cases h : n = e.name <;> simp [attrOp, isInverse, selInv, hk, h]

/-- among entities with distinct names, only `e` contributes to the fields of the entity registered as `e.name` -/
theorem flatMap_only {α : Type} (g : Entity → List α) (es : List Entity) (hn : (es.map (·.name)).Nodup)
    (e : Entity) (he : e ∈ es) :
    es.flatMap (fun e' => if e.name == e'.name then g e' else []) = g e := by
  induction es with
  | nil => simp at he
  | cons x xs ih =>
    simp only [List.map_cons, List.nodup_cons] at hn
    rw [List.flatMap_cons]
    rcases List.mem_cons.mp he with rfl | hx
    · have h0 : xs.flatMap (fun e' => if e.name == e'.name then g e' else []) = [] := by
        rw [List.flatMap_eq_nil_iff]
        intro y hy
        have hne : e.name ≠ y.name := by intro h; exact hn.1 (by rw [h]; exact List.mem_map_of_mem hy)
        have : (e.name == y.name) = false := by simpa using hne
        rw [this]; rfl
      rw [h0]; simp
    · have hne : e.name ≠ x.name := by intro h; exact hn.1 (by rw [← h]; exact List.mem_map_of_mem hx)
      have : (e.name == x.name) = false := by simpa using hne
      rw [this, ih hn.2 hx]; rfl

/-- the registered descriptor of `e` after all mutations for the entities `es` -/
def finalOf (es : List Entity) (e : Entity) : DEntity := applyAll (es.flatMap initOps) (blank e)

theorem entities_eq (s : Schema) (order : List String) :
    runOps (entityOps s order) [] = (order.filterMap s.findE).map (finalOf (order.filterMap s.findE)) := by
  unfold entityOps
  simp only
  rw [runOps_append, runOps_new, List.nil_append, runOps_upd, List.map_map]
  · rfl
  · intro o ho
    obtain ⟨e, _, h⟩ := List.mem_flatMap.mp ho
    exact initOps_notNew e o h

section fields
variable (es : List Entity) (hn : (es.map (·.name)).Nodup) (e : Entity) (he : e ∈ es)
include hn he

theorem final_supers : (finalOf es e).supers = e.supers := by
  unfold finalOf
  rw [proj_fold (·.supers) selSuper get_supers, filterMap_flatMap]
  simp only [blank, List.nil_append, sel_initOps_super]
  exact flatMap_only (fun e' => e'.supers) es hn e he

theorem final_attrs : (finalOf es e).attrs = (e.attrs.filter (fun a => !isInverse a)).map (dattrOf e.name) := by
  unfold finalOf
  rw [proj_fold (·.attrs) selAttr get_attrs, filterMap_flatMap]
  simp only [blank, List.nil_append, sel_initOps_attr]
  exact flatMap_only (fun e' => (e'.attrs.filter (fun a => !isInverse a)).map (dattrOf e'.name)) es hn e he

theorem final_invs : (finalOf es e).invs = (e.attrs.filter isInverse).map (dinvOf e.name) := by
  unfold finalOf
  rw [proj_fold (·.invs) selInv get_invs, filterMap_flatMap]
  simp only [blank, List.nil_append, sel_initOps_inv]
  exact flatMap_only (fun e' => (e'.attrs.filter isInverse).map (dinvOf e'.name)) es hn e he

omit hn he in
theorem final_subs : (finalOf es e).subs =
    es.flatMap (fun e' => e'.supers.filterMap (fun sup => if e.name == sup then some e'.name else none)) := by
  unfold finalOf
  rw [proj_fold (·.subs) selSub get_subs, filterMap_flatMap]
  simp only [blank, List.nil_append, sel_initOps_sub]

end fields

theorem forall2_map {α β : Type} {R : α → β → Prop} (f : α → β) (l : List α) (h : ∀ a ∈ l, R a (f a)) :
    Forall2 R l (l.map f) := by
  induction l with
  | nil => exact .nil
  | cons x xs ih => exact .cons (h x (by simp)) (ih (fun a ha => h a (by simp [ha])))

theorem mirrorAttr_dattrOf (owner : String) (a : Attr) : MirrorAttr owner a (dattrOf owner a) :=
  { name := by unfold dattrOf dictAttrName registeredName; cases a.redecl <;> rfl
    opt := rfl, owner := rfl, type := mirrorRef_refOf _, kind := rfl }

theorem mirrorInv_dinvOf (owner : String) (a : Attr) : MirrorInv owner a (dinvOf owner a) :=
  { name := by unfold dinvOf dictAttrName registeredName; cases a.redecl <;> rfl
    opt := rfl, owner := rfl, type := mirrorRef_refOf _, invAttr := rfl
    invEntity := by
      intro n h
      unfold dinvOf
      simp only
      generalize a.type = t at h
      cases h <;> rfl }

end StepModel.GenCxx

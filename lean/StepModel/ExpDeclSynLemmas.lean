import StepModel.ExpDeclSyn
/-! Lemmas for the type / formal-parameter round trip (property C07). -/
namespace StepModel.Express
open StepModel.Generated

/-- first token of a printed type -/
def TyHead : List DTok → Prop
  | .id _ :: _ => True
  | .kw k :: _ => k ∈ simpleKinds ∨ k ∈ aggrKinds ∨ k = "GENERIC" ∨ k = "AGGREGATE"
  | _ => False

theorem tyToks_head (t : Ty) (hw : wfTy t) (r : List DTok) : TyHead (tyToks t ++ r) := by
  cases t with
  | named s => simp [tyToks, TyHead]
  | simple k p f => simp [tyToks, TyHead, wfTy] at *; exact Or.inl hw.1
  | aggr k b u o base => simp [tyToks, TyHead, wfTy] at *; exact Or.inr (Or.inl hw.1)
  | generic l => cases l <;> simp [tyToks, TyHead]
  | aggregate l b => cases l <;> simp [tyToks, TyHead]

theorem takeKw_hit (k : String) (r : List DTok) : takeKw k (.kw k :: r) = (true, r) := by simp [takeKw]

theorem takeKw_UO (X : List DTok) : takeKw "UNIQUE" (.kw "OPTIONAL" :: X) = (false, .kw "OPTIONAL" :: X) := by
  simp [takeKw]

theorem takeKw_miss_head (k : String) (ts : List DTok) (h : TyHead ts) (hk : k = "UNIQUE" ∨ k = "OPTIONAL") :
    takeKw k ts = (false, ts) := by
  cases ts with
  | nil => simp [TyHead] at h
  | cons t r =>
    cases t with
    | kw k' =>
      have : k' ≠ k := by
        intro hh; subst hh
        simp [TyHead, simpleKinds, aggrKinds] at h
        rcases hk with rfl | rfl <;> simp at h
      simp [takeKw, this]
    | _ => simp [takeKw]

theorem takeKw_miss_fol (ts : List DTok) (h : TyFol ts) : takeKw "FIXED" ts = (false, ts) := by
  cases ts with
  | nil => simp [takeKw]
  | cons t r =>
    cases t with
    | kw k' => simp [TyFol] at h; simp [takeKw, h]
    | _ => simp [takeKw]

theorem takePrec_miss_fol (ts : List DTok) (h : TyFol ts) : takePrec ts = (none, ts) := by
  cases ts with
  | nil => simp [takePrec]
  | cons t r =>
    cases t with
    | sym s =>
      simp [TyFol] at h
      unfold takePrec
      split
      · rename_i heq; simp at heq; exact absurd heq.1 h.1
      · rfl
    | _ => simp [takePrec]

theorem takePrec_miss_kw (k : String) (r : List DTok) : takePrec (.kw k :: r) = (none, .kw k :: r) := by simp [takePrec]

theorem takeBounds_miss_kw (k : String) (r : List DTok) : takeBounds (.kw k :: r) = (none, .kw k :: r) := by simp [takeBounds]

/-- **Types: print/parse round trip.**  For every type the grammar can produce (`wfTy`: simple types with optional
`( precision )` and `FIXED`, ARRAY/BAG/LIST/SET with optional bounds, UNIQUE, OPTIONAL, GENERIC[:label],
AGGREGATE[:label] OF, named types, nested to any depth) the reader returns exactly the type from the tokens exppp prints,
whatever follows (`TyFol`: not `(`, `:` or FIXED). -/
theorem type_roundtrip : ∀ (t : Ty), wfTy t → ∀ n, tyDepth t ≤ n → ∀ r, TyFol r → parseTy n (tyToks t ++ r) = some (t, r) := by
  have hp : ∀ k, k ∈ ["INTEGER", "REAL", "STRING", "BINARY"] → ExpPrec.precisionKinds.contains k = true := by
    intro k hk; simp at hk; rcases hk with rfl | rfl | rfl | rfl <;> decide
  intro t
  induction t with
  | named s =>
    intro _ n hn r _
    obtain ⟨k, rfl⟩ : ∃ k, n = k + 1 := ⟨n - 1, by simp [tyDepth] at hn; omega⟩
    simp [tyToks, parseTy]
  | generic l =>
    intro _ n hn r hr
    obtain ⟨k, rfl⟩ : ∃ k, n = k + 1 := ⟨n - 1, by simp [tyDepth] at hn; omega⟩
    cases l with
    | some l => simp [tyToks, parseTy]
    | none =>
      simp only [tyToks, List.cons_append, List.nil_append, parseTy, if_true]
      cases r with
      | nil => rfl
      | cons t r =>
        cases t with
        | sym s => simp [TyFol] at hr; split <;> simp_all
        | _ => rfl
  | aggregate l b ih =>
    intro hw n hn r hr
    have hwb : wfTy b := hw
    obtain ⟨k, rfl⟩ : ∃ k, n = k + 1 := ⟨n - 1, by simp [tyDepth] at hn; omega⟩
    have hd : tyDepth b ≤ k := by simp [tyDepth] at hn; omega
    cases l with
    | some l =>
      simp only [tyToks, List.cons_append, List.nil_append, List.append_assoc, parseTy]
      simp [ih hwb k hd r hr]
    | none =>
      simp only [tyToks, List.cons_append, List.nil_append, List.append_assoc, parseTy]
      simp [ih hwb k hd r hr]
  | simple kd prec fixed =>
    intro hw n hn r hr
    obtain ⟨hk, hprec, hfix⟩ : kd ∈ simpleKinds ∧ (prec.isSome → kd ∈ ["INTEGER", "REAL", "STRING", "BINARY"]) ∧
        (fixed = true → kd ∈ ["STRING", "BINARY"]) := hw
    obtain ⟨k, rfl⟩ : ∃ k, n = k + 1 := ⟨n - 1, by simp [tyDepth] at hn; omega⟩
    have hng : kd ≠ "GENERIC" := by intro h; subst h; simp [simpleKinds] at hk
    have hna : kd ≠ "AGGREGATE" := by intro h; subst h; simp [simpleKinds] at hk
    have hnk : aggrKinds.contains kd = false := by
      simp [simpleKinds] at hk; rcases hk with rfl | rfl | rfl | rfl | rfl | rfl | rfl <;> decide
    have hsk : simpleKinds.contains kd = true := by simpa using hk
    cases prec with
    | some e =>
      have hpk := hp kd (hprec rfl)
      cases fixed with
      | true =>
        simp only [tyToks, hpk, if_true, Bool.true_and, List.cons_append, List.nil_append, List.append_assoc, parseTy, hng, hna,
          if_false, hnk, hsk, Bool.false_eq_true, takePrec, takeKw_hit]
      | false =>
        simp only [tyToks, hpk, if_true, Bool.false_and, Bool.false_eq_true, if_false, List.cons_append, List.nil_append,
          List.append_nil, List.append_assoc, parseTy, hng, hna, hnk, hsk, takePrec, takeKw_miss_fol r hr]
    | none =>
      cases fixed with
      | true =>
        have hpk : ExpPrec.precisionKinds.contains kd = true := by
          have := hfix rfl; simp at this; rcases this with rfl | rfl <;> decide
        simp only [tyToks, hpk, if_true, Bool.true_and, List.cons_append, List.nil_append, List.append_assoc, parseTy, hng, hna,
          if_false, hnk, hsk, Bool.false_eq_true, takePrec_miss_kw, takeKw_hit]
      | false =>
        simp only [tyToks, Bool.false_and, Bool.false_eq_true, if_false, List.cons_append, List.nil_append, List.append_nil,
          parseTy, hng, hna, hnk, hsk, takePrec_miss_fol r hr, takeKw_miss_fol r hr, if_true]
  | aggr kd bounds uq op base ih =>
    intro hw n hn r hr
    obtain ⟨hk, huq, hop, hwb⟩ : kd ∈ aggrKinds ∧ (uq = true → kd = "ARRAY" ∨ kd = "LIST") ∧ (op = true → kd = "ARRAY") ∧ wfTy base := hw
    obtain ⟨k, rfl⟩ : ∃ k, n = k + 1 := ⟨n - 1, by simp [tyDepth] at hn; omega⟩
    have hd : tyDepth base ≤ k := by simp [tyDepth] at hn; omega
    have hng : kd ≠ "GENERIC" := by intro h; subst h; simp [aggrKinds] at hk
    have hna : kd ≠ "AGGREGATE" := by intro h; subst h; simp [aggrKinds] at hk
    have hak : aggrKinds.contains kd = true := by simpa using hk
    have hbase := ih hwb k hd r hr
    have hhead : ∀ X, TyHead (tyToks base ++ X) := tyToks_head base hwb
    have flagU : ∀ X, takeKw "UNIQUE" ((if (kd = "ARRAY" ∨ kd = "LIST") ∧ uq = true then [DTok.kw "UNIQUE"] else []) ++ X) =
        (uq, X) ∨ True := fun _ => Or.inr trivial
    -- the two flags
    have hU : (kd = "ARRAY" ∨ kd = "LIST") ∧ uq = true ↔ uq = true := ⟨fun h => h.2, fun h => ⟨huq h, h⟩⟩
    have hO : (kd = "ARRAY" ∨ kd = "LIST") ∧ op = true ↔ op = true := ⟨fun h => h.2, fun h => ⟨Or.inl (hop h), h⟩⟩
    cases bounds with
    | some lh =>
      obtain ⟨lo, hi⟩ := lh
      simp only [tyToks, List.cons_append, List.nil_append, List.append_assoc, parseTy, hng, hna, if_false, hak, if_true, takeBounds, hU, hO]
      have h1 := takeKw_miss_head "UNIQUE" _ (hhead r) (Or.inl rfl)
      have h2 := takeKw_miss_head "OPTIONAL" _ (hhead r) (Or.inr rfl)
      cases uq <;> cases op <;> simp [takeKw_hit, takeKw_UO, h1, h2, hbase]
    | none =>
      simp only [tyToks, List.cons_append, List.nil_append, List.append_assoc, parseTy, hng, hna, if_false, hak, if_true,
        takeBounds_miss_kw, hU, hO]
      have h1 := takeKw_miss_head "UNIQUE" _ (hhead r) (Or.inl rfl)
      have h2 := takeKw_miss_head "OPTIONAL" _ (hhead r) (Or.inr rfl)
      cases uq <;> cases op <;> simp [takeKw_hit, takeKw_UO, h1, h2, hbase]

/-! ### formal parameters -/

def idsToks (run : List Param) : List DTok := run.flatMap (fun q => [.sym ",", .id q.name])

/-- what follows the group that starts at `p`: nothing, or `;` and the next group -/
def afterGroup : List Param → List DTok
  | [] => []
  | q :: rest => [.sym ";"] ++ (if q.var then [.kw "VAR"] else []) ++ [.id q.name] ++ argsLoop q rest

theorem argsToks_cons (p : Param) (qs : List Param) :
    argsToks (p :: qs) = (if p.var then [.kw "VAR"] else []) ++ [.id p.name] ++ argsLoop p qs := rfl

theorem afterGroup_cons (q : Param) (rest : List Param) : afterGroup (q :: rest) = .sym ";" :: argsToks (q :: rest) := by
  simp [afterGroup, argsToks_cons]

/-- the parameters `ALGargs_out` puts into the group of `p`, and the rest -/
theorem argsLoop_run : ∀ (qs : List Param) (p : Param),
    (∀ a ∈ p :: qs, ∀ b ∈ p :: qs, a.obj = b.obj → a.ty = b.ty) →
    ∃ run rest, qs = run ++ rest ∧ (∀ q ∈ run, q.var = p.var ∧ q.ty = p.ty) ∧
      argsLoop p qs = idsToks run ++ [.sym ":"] ++ tyToks p.ty ++ afterGroup rest := by
  have hflag : ExpPrec.argsMergeChecksVar = true := rfl
  intro qs
  induction qs with
  | nil => intro p _; exact ⟨[], [], rfl, by simp, by simp [argsLoop, idsToks, afterGroup]⟩
  | cons q qs ih =>
    intro p hobj
    by_cases hg : newGroup p q = true
    · refine ⟨[], q :: qs, rfl, by simp, ?_⟩
      simp [argsLoop, hg, idsToks, afterGroup]
    · have hsame : p.obj = q.obj ∧ p.var = q.var := by
        simp [newGroup, hflag] at hg; exact hg
      have hty : q.ty = p.ty := (hobj p (by simp) q (by simp) hsame.1).symm
      obtain ⟨run, rest, hqs, hrun, hloop⟩ := ih q (fun a ha b hb => hobj a (List.mem_cons_of_mem _ ha) b (List.mem_cons_of_mem _ hb))
      refine ⟨q :: run, rest, by simp [hqs], ?_, ?_⟩
      · intro x hx
        rcases List.mem_cons.mp hx with rfl | hx
        · exact ⟨hsame.2.symm, hty⟩
        · have := hrun x hx; exact ⟨this.1.trans hsame.2.symm, this.2.trans hty⟩
      · simp only [argsLoop, hg, Bool.false_eq_true, if_false, hloop, hty, idsToks, List.flatMap_cons, List.append_assoc,
          List.cons_append, List.nil_append]

theorem parseIds_run : ∀ (run : List Param) (n : Nat), run.length ≤ n → ∀ tl : List DTok,
    (∀ s r, tl ≠ .sym "," :: .id s :: r) → parseIds n (idsToks run ++ tl) = (run.map (·.name), tl) := by
  intro run
  induction run with
  | nil =>
    intro n _ tl htl
    cases n with
    | zero => simp [parseIds, idsToks]
    | succ n =>
      simp only [idsToks, List.flatMap_nil, List.nil_append, List.map_nil]
      unfold parseIds
      split
      · next s' r' => exact absurd rfl (htl s' r')
      · rfl
  | cons q run ih =>
    intro n hn tl htl
    obtain ⟨k, rfl⟩ : ∃ k, n = k + 1 := ⟨n - 1, by simp at hn; omega⟩
    have := ih k (by simp at hn; omega) tl htl
    simp only [idsToks, List.flatMap_cons, List.cons_append, List.nil_append, List.append_assoc] at this ⊢
    simp [parseIds, this]

/-- **Formal parameters: print/parse round trip.**  `ALGargs_out` merges adjacent parameters while the type object and the
VAR flag stay the same; reading its tokens back by `formal_parameter_list` / `formal_parameter` of the grammar gives, for every
list of parameters, exactly the (name, VAR, type) triples it was given — grouping is layout, VAR-ness and type are not.
Hypotheses: types are `wfTy`; parameters that share a type object have the same type (`obj` is `v->type`). -/
theorem params_roundtrip : ∀ (k : Nat) (ps : List Param), ps.length ≤ k → ps ≠ [] →
    (∀ p ∈ ps, wfTy p.ty) → (∀ a ∈ ps, ∀ b ∈ ps, a.obj = b.obj → a.ty = b.ty) →
    ∀ D, (∀ p ∈ ps, tyDepth p.ty ≤ D) → ∀ n, ps.length + D + 1 ≤ n → ∀ r,
    parseParams n (argsToks ps ++ .sym ")" :: r) = some (ps.map Param.triple, .sym ")" :: r) := by
  intro k
  induction k with
  | zero => intro ps hl hne; cases ps <;> simp_all
  | succ k ih =>
    intro ps hl hne hwf hobj D hD n hn r
    cases ps with
    | nil => exact absurd rfl hne
    | cons p qs =>
      obtain ⟨run, rest, hqs, hrun, hloop⟩ := argsLoop_run qs p hobj
      obtain ⟨m, rfl⟩ : ∃ m, n = m + 1 := ⟨n - 1, by omega⟩
      have hlen : qs.length = run.length + rest.length := by rw [hqs]; simp
      simp only [List.length_cons] at hl hn
      have hids := parseIds_run run m (by omega)
      have hty : ∀ X, TyFol X → parseTy m (tyToks p.ty ++ X) = some (p.ty, X) :=
        fun X hX => type_roundtrip p.ty (hwf p (by simp)) m (by have := hD p (by simp); omega) X hX
      have hgrp : (p.name :: run.map (·.name)).map (fun x => (x, p.var, p.ty)) = (p :: run).map Param.triple := by
        simp only [List.map_cons, Param.triple, List.map_map]
        congr 1
        apply List.map_congr_left
        intro q hq
        simp [Param.triple, (hrun q hq).1, (hrun q hq).2]
      rw [argsToks_cons, hloop]
      cases rest with
      | nil =>
        simp only [afterGroup, List.append_nil, List.append_assoc]
        have h1 := hids ([.sym ":"] ++ (tyToks p.ty ++ .sym ")" :: r)) (by intro s r' h; simp at h)
        have h2 := hty (.sym ")" :: r) (by simp [TyFol])
        have hps : p :: qs = p :: run := by rw [hqs]; simp
        cases hv : p.var <;>
          simp [parseParams, hv, h1, h2, hps, ← hgrp] <;> simp_all
      | cons q rest' =>
        have hshort : (q :: rest').length ≤ k := by simp at hlen ⊢; omega
        have hsub : ∀ x, x ∈ q :: rest' → x ∈ p :: qs := by
          intro x hx; rw [hqs]; simp at hx ⊢; rcases hx with rfl | hx <;> simp [*]
        have hrec := ih (q :: rest') hshort (by simp) (fun x hx => hwf x (hsub x hx))
          (fun a ha b hb => hobj a (hsub a ha) b (hsub b hb)) D (fun x hx => hD x (hsub x hx)) m (by simp at hlen ⊢; omega) r
        rw [afterGroup_cons]
        simp only [List.append_assoc, List.cons_append]
        have h1 := hids ([.sym ":"] ++ (tyToks p.ty ++ (.sym ";" :: (argsToks (q :: rest') ++ .sym ")" :: r)))) (by intro s r' h; simp at h)
        have h2 := hty (.sym ";" :: (argsToks (q :: rest') ++ .sym ")" :: r)) (by simp [TyFol])
        have hps : (p :: qs).map Param.triple = (p :: run).map Param.triple ++ (q :: rest').map Param.triple := by
          rw [hqs]; simp
        cases hv : p.var <;>
          simp [parseParams, hv, h1, h2, hrec, hps, ← hgrp] <;> simp_all

/-! ### LOCAL block -/

theorem foldl_max_ge (ls : List Local) (m : Nat) : m ≤ ls.foldl (fun m l => max m l.name.length) m := by
  induction ls generalizing m with
  | nil => exact Nat.le_refl _
  | cons l ls ih => exact Nat.le_trans (Nat.le_max_left _ _) (ih _)

/-- the name column has width 0 exactly when there is no local (names are not empty) -/
theorem localsWidth_zero_iff (ls : List Local) (hn : ∀ l ∈ ls, l.name.length ≠ 0) : localsWidth ls = 0 ↔ ls = [] := by
  have hflag : ExpPrec.localsWidthIsNameLength = true := rfl
  simp only [localsWidth, hflag, if_true]
  cases ls with
  | nil => simp
  | cons l ls =>
    simp only [List.foldl_cons, Nat.zero_max]
    have := foldl_max_ge ls l.name.length
    have := hn l (by simp)
    constructor
    · intro h; omega
    · intro h; cases h

theorem parseLocalList_roundtrip : ∀ (ls : List Local), (∀ l ∈ ls, wfTy l.ty) → ∀ D, (∀ l ∈ ls, tyDepth l.ty ≤ D) →
    ∀ n, ls.length + D + 1 ≤ n → ∀ r,
    parseLocalList n (ls.flatMap localToks ++ .kw "END_LOCAL" :: .sym ";" :: r) = some (ls, r) := by
  intro ls
  induction ls with
  | nil =>
    intro _ D _ n hn r
    obtain ⟨k, rfl⟩ : ∃ k, n = k + 1 := ⟨n - 1, by omega⟩
    simp [parseLocalList]
  | cons l ls ih =>
    intro hwf D hD n hn r
    obtain ⟨k, rfl⟩ : ∃ k, n = k + 1 := ⟨n - 1, by simp at hn; omega⟩
    have hrec := ih (fun x hx => hwf x (List.mem_cons_of_mem _ hx)) D (fun x hx => hD x (List.mem_cons_of_mem _ hx)) k
      (by simp at hn; omega) r
    have hd : tyDepth l.ty ≤ k := by have := hD l (by simp); simp at hn; omega
    have hwl : wfTy l.ty := hwf l (by simp)
    obtain ⟨name, ty, init⟩ := l
    cases init with
    | some e =>
      have hty := type_roundtrip ty hwl k hd
        (.sym ":=" :: .ex e :: .sym ";" :: (ls.flatMap localToks ++ .kw "END_LOCAL" :: .sym ";" :: r)) (by simp [TyFol])
      simp only [List.flatMap_cons, localToks, List.append_assoc, List.cons_append, List.nil_append, parseLocalList]
      rw [hty]; simp [hrec]
    | none =>
      have hty := type_roundtrip ty hwl k hd
        (.sym ";" :: (ls.flatMap localToks ++ .kw "END_LOCAL" :: .sym ";" :: r)) (by simp [TyFol])
      simp only [List.flatMap_cons, localToks, List.append_assoc, List.cons_append, List.nil_append, parseLocalList]
      rw [hty]; simp [hrec]

/-- **LOCAL block: print/parse round trip, independent of the line length.**  The block is printed exactly when the
algorithm has local variables, and reading it back gives the same variables with the same types and initialisers. -/
theorem locals_roundtrip (ls : List Local) (hn : ∀ l ∈ ls, l.name.length ≠ 0) (hwf : ∀ l ∈ ls, wfTy l.ty)
    (D : Nat) (hD : ∀ l ∈ ls, tyDepth l.ty ≤ D) (r : List DTok) (hr : ∀ r', r ≠ .kw "LOCAL" :: r') :
    parseLocals (ls.length + D + 1) (localsToks ls ++ r) = some (ls, r) := by
  unfold localsToks
  by_cases h0 : localsWidth ls = 0
  · have : ls = [] := (localsWidth_zero_iff ls hn).mp h0
    subst this
    simp only [h0, if_true, List.nil_append]
    unfold parseLocals
    split
    · next r' => exact absurd rfl (hr r')
    · rfl
  · simp only [h0, if_false, List.append_assoc, List.cons_append, List.nil_append, parseLocals]
    exact parseLocalList_roundtrip ls hwf D hD _ (Nat.le_refl _) r

end StepModel.Express

import StepModel.GenCxxMarks
/-! # Lemma about `GenCxxMarks.lean`: with an empty clobber relation the entity loop prints exactly the CANPROCESS entities -/
namespace StepModel.Marks

theorem entityLoop_private (ents : List String) (hnd : ents.Nodup) (st : PrintSt) :
    (entityLoop (fun _ => []) ents st).printed = st.printed ++ ents.filter (fun e => st.marks e = .canprocess) ∧
    ∀ x, x ∉ ents → (entityLoop (fun _ => []) ents st).marks x = st.marks x := by
  induction ents generalizing st with
  | nil => simp [entityLoop]
  | cons e r ih =>
    have hn := List.nodup_cons.mp hnd
    simp only [entityLoop, List.foldl_cons]
    have ih' := ih hn.2 (printStep (fun _ => []) st e)
    simp only [entityLoop] at ih'
    have hm : ∀ x, x ≠ e → (printStep (fun _ => []) st e).marks x = st.marks x := by
      intro x hx
      unfold printStep
      split <;> simp [hx]
    have hf : r.filter (fun x => (printStep (fun _ => []) st e).marks x = .canprocess) = r.filter (fun x => st.marks x = .canprocess) := by
      apply List.filter_congr
      intro x hx
      rw [hm x (by intro e'; subst e'; exact hn.1 hx)]
    refine ⟨?_, ?_⟩
    · rw [ih'.1, hf]
      unfold printStep
      by_cases hc : st.marks e = .canprocess
      · simp [hc]
      · simp [hc]
    · intro x hx
      have hx' : x ≠ e ∧ x ∉ r := by simpa using hx
      rw [ih'.2 x hx'.2, hm x hx'.1]

end StepModel.Marks

import StepModel.Generated.GenPyGen
/-!
# Order in which `SCOPEPrint` (src/exp2python/src/classes_wrapper_python.cc) writes the defined types

A defined type over a builtin is written as `class t(REAL)`, a rename as `class t(original)`: Python needs the original
class to exist when the `class` statement runs.  `SCOPEPrint` scans the symbol table (in dictionary = hash order, here
*any* order) and writes a type only when its original (`TYPEget_head`) is absent or already written; it repeats the scan
until nothing was skipped (`typeRescan`, regenerated from the C source).  Without the repetition the skipped types are
written by a later loop in dictionary order.
-/
namespace StepModel.GenPy.Order
open StepModel.Generated

structure DT where
  name : String
  head : Option String          -- the defined type it renames (`TYPEget_head`), `none`: it stands on a builtin type
  deriving DecidableEq, Repr

def written (done : List DT) (n : String) : Bool := done.any (fun d => d.name == n)

/-- one scan over the symbol table; `done` lists what is written, newest first -/
def scan : List DT → List DT → List DT
  | done, [] => done
  | done, t :: ts =>
    if written done t.name then scan done ts
    else match t.head with
      | none => scan (t :: done) ts
      | some h => if written done h then scan (t :: done) ts else scan done ts

def scans (order : List DT) : Nat → List DT → List DT
  | 0, done => done
  | n + 1, done => scans order n (scan done order)

/-- the later loop: whatever is still unwritten, in dictionary order, unconditionally -/
def leftovers : List DT → List DT → List DT
  | done, [] => done
  | done, t :: ts => if written done t.name then leftovers done ts else leftovers (t :: done) ts

/-- the defined types in the order they are written (newest first) -/
def emitted (order : List DT) : List DT :=
  if typeRescan then scans order order.length [] else leftovers (scan [] order) order

/-- every type is written after the type it renames -/
def RespectsOriginals : List DT → Prop
  | [] => True
  | t :: older => (∀ h, t.head = some h → written older h = true) ∧ RespectsOriginals older

end StepModel.GenPy.Order

import StepModel.LazyDictGen
import StepModel.LazyDictLemmas
import StepModel.GenCxxMirror
/-! Lemmas for `Props/C11.lean`: the registry built by the generated schema init code (C02's `Mirror`) has subtype lists that are
the inverse of its supertype lists, and is acyclic — read through an injective naming. -/
namespace StepModel.LazyRefs
open StepModel.GenCxx StepModel.GenCxx.Spec

theorem find_of_mem_nodup {α β} [DecidableEq β] (key : α → β) (l : List α) (hn : (l.map key).Nodup) (a : α) (ha : a ∈ l) :
    l.find? (fun x => key x == key a) = some a := by
  cases hf : l.find? (fun x => key x == key a) with
  | none =>
    rw [List.find?_eq_none] at hf
    exact absurd (by simp) (hf a ha)
  | some a' =>
    have h1 := List.mem_of_find?_eq_some hf
    have h2 : key a' = key a := by simpa using List.find?_some hf
    rw [eq_of_nodup_keys key l hn a' h1 a ha h2]

/-- the registry seen through the naming: finding by number is finding by name -/
theorem find_num (num : String → Nat) (hinj : ∀ a b, num a = num b → a = b) (gd : List DEntity)
    (hn : (gd.map (·.name)).Nodup) (de : DEntity) (hde : de ∈ gd) :
    gd.find? (fun x => num x.name == num de.name) = some de := by
  have hn' : (gd.map (fun x => num x.name)).Nodup := by
    have : gd.map (fun x => num x.name) = (gd.map (·.name)).map num := by simp
    rw [this]
    clear hde
    generalize gd.map (·.name) = l at hn
    induction l with
    | nil => simp
    | cons a t ih =>
      simp only [List.nodup_cons, List.map_cons, List.mem_map, not_exists, not_and] at hn ⊢
      exact ⟨fun x hx hxa => hn.1 (by rw [← hinj _ _ hxa]; exact hx), ih hn.2⟩
  exact find_of_mem_nodup (fun x : DEntity => num x.name) gd hn' de hde

theorem supsOf_same (num : String → Nat) : ∀ (gd : List DEntity) (d : Dict), SameHierarchy num gd d → ∀ n,
    supsOf d n = match gd.find? (fun de => num de.name == n) with
                 | some de => de.supers.map num
                 | none => [] := by
  intro gd
  induction gd with
  | nil =>
    intro d h n
    cases d with
    | nil => rfl
    | cons _ _ => simp [SameHierarchy] at h
  | cons g t ih =>
    intro d h n
    cases d with
    | nil => simp [SameHierarchy] at h
    | cons e r =>
      simp only [SameHierarchy, List.map_cons, List.cons.injEq, Prod.mk.injEq] at h
      obtain ⟨⟨h1, h2⟩, h3⟩ := h
      unfold supsOf Dict.ent
      simp only [List.find?_cons]
      rw [h1]
      by_cases hc : (num g.name == n) = true
      · simp only [hc]; exact h2
      · simp only [hc]
        have := ih r h3 n
        unfold supsOf Dict.ent at this
        exact this

theorem same_length (num : String → Nat) (gd : List DEntity) (d : Dict) (h : SameHierarchy num gd d) : d.length = gd.length := by
  have := congrArg List.length h
  simpa using this

theorem same_mem (num : String → Nat) (gd : List DEntity) (d : Dict) (h : SameHierarchy num gd d) (e : EntityD) (he : e ∈ d) :
    ∃ de ∈ gd, e.name = num de.name ∧ e.sups = de.supers.map num := by
  have : (e.name, e.sups) ∈ d.map (fun e => (e.name, e.sups)) := List.mem_map.mpr ⟨e, he, rfl⟩
  rw [h, List.mem_map] at this
  obtain ⟨de, hde, heq⟩ := this
  simp only [Prod.mk.injEq] at heq
  exact ⟨de, hde, heq.1.symm, heq.2.symm⟩

theorem findE_of_mem (s : Schema) (hn : (s.entities.map (·.name)).Nodup) (e : Entity) (he : e ∈ s.entities) :
    s.findE e.name = some e :=
  find_of_mem_nodup (fun x : Entity => x.name) s.entities hn e he

/-- what C02's `Mirror` gives, entity by entity, in both directions -/
structure Mirrored (s : Schema) (gd : List DEntity) : Prop where
  nodupS : (s.entities.map (·.name)).Nodup
  nodupG : (gd.map (·.name)).Nodup
  len : gd.length = s.entities.length
  fwd : ∀ e ∈ s.entities, ∃ de ∈ gd, MirrorEntity s e de
  bwd : ∀ de ∈ gd, ∃ e ∈ s.entities, MirrorEntity s e de

theorem mirrored_of_mirror (s : Schema) (gd : GenCxx.Dict) (hn : (s.entities.map (·.name)).Nodup) (m : Mirror s gd) :
    Mirrored s gd.entities := by
  have hng : (gd.entities.map (·.name)).Nodup := (m.exactlyEntities.nodup_iff).mpr hn
  refine ⟨hn, hng, ?_, m.entities, ?_⟩
  · have := m.exactlyEntities.length_eq
    simpa using this
  · intro de hde
    have h1 : de.name ∈ s.entities.map (·.name) :=
      (m.exactlyEntities.mem_iff).mp (List.mem_map.mpr ⟨de, hde, rfl⟩)
    obtain ⟨e, he, hen⟩ := List.mem_map.mp h1
    obtain ⟨de2, hde2, hm⟩ := m.entities e he
    have : de2 = de := eq_of_nodup_keys (fun x : DEntity => x.name) gd.entities hng de2 hde2 de hde (by rw [hm.name, hen])
    rw [this] at hm
    exact ⟨e, he, hm⟩

/-- **the registry's subtype lists are the inverse of its supertype lists**, through the naming -/
theorem regSubs_inverse (s : Schema) (rank : String → Nat) (wf : WF s rank) (gd : List DEntity) (m : Mirrored s gd)
    (num : String → Nat) (hinj : ∀ a b, num a = num b → a = b) (d : Dict) (hd : SameHierarchy num gd d) (n x : Nat) :
    x ∈ regSubs num gd n ↔ n ∈ supsOf d x := by
  rw [supsOf_same num gd d hd]
  unfold regSubs
  constructor
  · intro h
    cases hf : gd.find? (fun de => num de.name == n) with
    | none => simp [hf] at h
    | some de =>
      simp only [hf, List.mem_map] at h
      obtain ⟨y, hy, hyx⟩ := h
      have hde := List.mem_of_find?_eq_some hf
      have hdn : num de.name = n := by simpa using List.find?_some hf
      obtain ⟨e, he, me⟩ := m.bwd de hde
      obtain ⟨e', he', hn', hsup⟩ := (me.subs y).mp hy
      obtain ⟨de', hde', me'⟩ := m.fwd e' he'
      have hfind : gd.find? (fun z => num z.name == x) = some de' := by
        have := find_num num hinj gd m.nodupG de' hde'
        rw [me'.name, hn', hyx] at this
        exact this
      simp only [hfind, List.mem_map]
      refine ⟨de.name, ?_, hdn⟩
      rw [me'.supers, me.name]; exact hsup
  · intro h
    cases hf : gd.find? (fun de => num de.name == x) with
    | none => simp [hf] at h
    | some de' =>
      simp only [hf, List.mem_map] at h
      obtain ⟨y, hy, hyn⟩ := h
      have hde' := List.mem_of_find?_eq_some hf
      have hdx : num de'.name = x := by simpa using List.find?_some hf
      obtain ⟨e', he', me'⟩ := m.bwd de' hde'
      rw [me'.supers] at hy
      have hfe' := findE_of_mem s m.nodupS e' he'
      have hsome := (wf.supers e'.name e' hfe' y hy).1
      cases hfy : s.findE y with
      | none => rw [hfy] at hsome; cases hsome
      | some e =>
        have hey : e.name = y := findE_name hfy
        have he : e ∈ s.entities := List.mem_of_find?_eq_some hfy
        obtain ⟨de, hde, me⟩ := m.fwd e he
        have hfind : gd.find? (fun z => num z.name == n) = some de := by
          have := find_num num hinj gd m.nodupG de hde
          rw [me.name, hey, hyn] at this
          exact this
        simp only [hfind, List.mem_map]
        refine ⟨de'.name, ?_, hdx⟩
        rw [me.subs]
        exact ⟨e', he', me'.name.symm, by rw [hey]; exact hy⟩

/-- the registry is acyclic in the resolver's sense -/
theorem ranked_of_mirror (s : Schema) (rank : String → Nat) (wf : WF s rank) (gd : List DEntity) (m : Mirrored s gd)
    (num : String → Nat) (hinj : ∀ a b, num a = num b → a = b) (d : Dict) (hd : SameHierarchy num gd d) :
    Ranked d (regRank num gd rank) := by
  constructor
  · intro e he sp hsp
    obtain ⟨de, hde, hname, hsups⟩ := same_mem num gd d hd e he
    rw [hsups, List.mem_map] at hsp
    obtain ⟨y, hy, hysp⟩ := hsp
    obtain ⟨e0, he0, me0⟩ := m.bwd de hde
    rw [me0.supers] at hy
    have hfe0 := findE_of_mem s m.nodupS e0 he0
    obtain ⟨hsome, hlt⟩ := wf.supers e0.name e0 hfe0 y hy
    cases hfy : s.findE y with
    | none => rw [hfy] at hsome; cases hsome
    | some ey =>
      have hey : ey.name = y := findE_name hfy
      obtain ⟨dy, hdy, my⟩ := m.fwd ey (List.mem_of_find?_eq_some hfy)
      have h1 : regRank num gd rank sp = rank y := by
        unfold regRank
        have := find_num num hinj gd m.nodupG dy hdy
        rw [my.name, hey, hysp] at this
        rw [this]; simp only; rw [my.name, hey]
      have h2 : regRank num gd rank e.name = rank e0.name := by
        unfold regRank
        have := find_num num hinj gd m.nodupG de hde
        rw [← hname] at this
        rw [this]; simp only; rw [me0.name]
      rw [h1, h2]; exact hlt
  · intro n
    unfold regRank
    cases hf : gd.find? (fun de => num de.name == n) with
    | none => simp
    | some de =>
      simp only
      obtain ⟨e0, he0, me0⟩ := m.bwd de (List.mem_of_find?_eq_some hf)
      have hb := wf.bound e0.name e0 (findE_of_mem s m.nodupS e0 he0)
      rw [me0.name, same_length num gd d hd, m.len]
      unfold fuelOf at hb
      omega

theorem sameHierarchy_ofGen (num : String → Nat) (gd : List DEntity) : SameHierarchy num gd (ofGen num gd) := by
  unfold SameHierarchy ofGen
  simp [List.map_map, Function.comp_def, ofGenEntity]

end StepModel.LazyRefs

import StepModel.ExpStmtSyn
import StepModel.ExpEntitySynLemmas
/-! Lemmas for `StepModel/ExpStmtSyn.lean`: the statement reader on the printer's tokens. -/
namespace StepModel.Express

def labelsTail (es : List Expr) : List DTok := es.flatMap (fun e => [.sym ",", .ex e])

theorem refsToks_cons (l : Expr) (es : List Expr) : refsToks (l :: es) = .ex l :: labelsTail es := by
  induction es generalizing l with
  | nil => rfl
  | cons e es ih => simp [refsToks, labelsTail, ih e]

theorem parseLabels_rt : ∀ (es : List Expr) (n : Nat), es.length + 1 ≤ n → ∀ r,
    parseLabels n (labelsTail es ++ .sym ":" :: r) = some (es, r) := by
  intro es
  induction es with
  | nil =>
    intro n hn r
    obtain ⟨k, rfl⟩ : ∃ k, n = k + 1 := ⟨n - 1, by omega⟩
    simp [labelsTail, parseLabels]
  | cons e es ih =>
    intro n hn r
    obtain ⟨k, rfl⟩ : ∃ k, n = k + 1 := ⟨n - 1, by simp at hn; omega⟩
    have := ih k (by simp at hn; omega) r
    simp only [labelsTail] at this
    simp [labelsTail, parseLabels, this]

theorem parseCallArgs_rt : ∀ (es : List Expr) (n : Nat), es.length + 1 ≤ n → ∀ r,
    parseCallArgs n (refsToks es ++ .sym ")" :: r) = some (es, r) := by
  intro es
  induction es with
  | nil =>
    intro n hn r
    obtain ⟨k, rfl⟩ : ∃ k, n = k + 1 := ⟨n - 1, by omega⟩
    simp [refsToks, parseCallArgs]
  | cons e es ih =>
    intro n hn r
    obtain ⟨k, rfl⟩ : ∃ k, n = k + 1 := ⟨n - 1, by simp at hn; omega⟩
    cases es with
    | nil => simp [refsToks, parseCallArgs]
    | cons e' es' =>
      have := ih k (by simp at hn ⊢; omega) r
      simp only [refsToks, List.cons_append, parseCallArgs] at this ⊢
      simp [this]

theorem takeIncr_rt (incr : Option (String × Expr × Expr × Expr)) (X : List DTok) (hX : ∀ v r, X ≠ .id v :: r) :
    takeIncr (incrToks incr ++ X) = (incr, X) := by
  cases incr with
  | some q => obtain ⟨v, a, b, c⟩ := q; simp [incrToks, takeIncr]
  | none =>
    simp only [incrToks, List.nil_append]
    unfold takeIncr
    split
    · exact absurd rfl (hX _ _)
    · rfl

theorem takeKwEx_rt (k : String) (o : Option Expr) (X : List DTok) (hX : ∀ e r, X ≠ .kw k :: .ex e :: r) :
    takeKwEx k (optKwEx k o ++ X) = (o, X) := by
  cases o with
  | some e => simp [optKwEx, takeKwEx]
  | none =>
    simp only [optKwEx, List.nil_append]
    unfold takeKwEx
    split
    · rename_i k' e r
      by_cases hk : k' = k
      · subst hk; exact absurd rfl (hX e r)
      · simp [hk]
    · rfl

def NoEx (r : List DTok) : Prop := ∀ e r', r ≠ .ex e :: r'

theorem stmt_starts (s : Stmt) (h : wfStmt s) (r : List DTok) : startsStmt (stmtToks s ++ r) = true := by
  cases s with
  | ret v => cases v <;> simp [stmtToks, startsStmt, stmtStarters]
  | item _ _ => simp [wfStmt] at h
  | nil => simp [wfStmt] at h
  | cons _ _ => simp [wfStmt] at h
  | _ => simp [stmtToks, startsStmt, stmtStarters]

theorem stmt_rt (s : Stmt) :
    (wfStmt s → ∀ r, Ev (fun n => parseStmt n (stmtToks s ++ r)) (s, r))
    ∧ (wfStmts s → ∀ r, startsStmt r = false → Ev (fun n => parseStmts n (stmtsToks s ++ r)) (s, r))
    ∧ (wfCaseItems s → ∀ r, NoEx r → Ev (fun n => parseCaseItems n (caseItemsToks s ++ r)) (s, r))
    ∧ (∀ ls a, s = .item ls a → wfStmt a → ∀ r, Ev (fun n => parseStmt n (stmtToks a ++ r)) (a, r)) := by
  induction s with
  | assign l r0 =>
    refine ⟨fun _ r => ?_, fun h => absurd h (by simp [wfStmts]), fun h => absurd h (by simp [wfCaseItems]), fun _ _ h => by cases h⟩
    refine ⟨1, fun n hn => ?_⟩
    obtain ⟨k, rfl⟩ : ∃ k, n = k + 1 := ⟨n - 1, by omega⟩
    simp [stmtToks, parseStmt]
  | call f as =>
    refine ⟨fun _ r => ?_, fun h => absurd h (by simp [wfStmts]), fun h => absurd h (by simp [wfCaseItems]), fun _ _ h => by cases h⟩
    refine ⟨as.length + 2, fun n hn => ?_⟩
    obtain ⟨k, rfl⟩ : ∃ k, n = k + 1 := ⟨n - 1, by omega⟩
    have := parseCallArgs_rt as k (by omega) (.sym ";" :: r)
    simp [stmtToks, parseStmt, this]
  | ret v =>
    refine ⟨fun _ r => ?_, fun h => absurd h (by simp [wfStmts]), fun h => absurd h (by simp [wfCaseItems]), fun _ _ h => by cases h⟩
    refine ⟨1, fun n hn => ?_⟩
    obtain ⟨k, rfl⟩ : ∃ k, n = k + 1 := ⟨n - 1, by omega⟩
    cases v <;> simp [stmtToks, parseStmt]
  | skip =>
    refine ⟨fun _ r => ?_, fun h => absurd h (by simp [wfStmts]), fun h => absurd h (by simp [wfCaseItems]), fun _ _ h => by cases h⟩
    refine ⟨1, fun n hn => ?_⟩
    obtain ⟨k, rfl⟩ : ∃ k, n = k + 1 := ⟨n - 1, by omega⟩
    simp [stmtToks, parseStmt]
  | escape =>
    refine ⟨fun _ r => ?_, fun h => absurd h (by simp [wfStmts]), fun h => absurd h (by simp [wfCaseItems]), fun _ _ h => by cases h⟩
    refine ⟨1, fun n hn => ?_⟩
    obtain ⟨k, rfl⟩ : ∃ k, n = k + 1 := ⟨n - 1, by omega⟩
    simp [stmtToks, parseStmt]
  | compound b ihb =>
    refine ⟨fun h r => ?_, fun h => absurd h (by simp [wfStmts]), fun h => absurd h (by simp [wfCaseItems]), fun _ _ h => by cases h⟩
    simp only [wfStmt] at h
    obtain ⟨n1, h1⟩ := ihb.2.1 h (.kw "END" :: .sym ";" :: r) (by simp [startsStmt, stmtStarters])
    refine ⟨n1 + 1, fun n hn => ?_⟩
    obtain ⟨k, rfl⟩ : ∃ k, n = k + 1 := ⟨n - 1, by omega⟩
    have e1 := h1 k (by omega)
    dsimp only at e1
    simp [stmtToks, parseStmt, e1]
  | cond c th he el ihth ihel =>
    refine ⟨fun h r => ?_, fun h => absurd h (by simp [wfStmts]), fun h => absurd h (by simp [wfCaseItems]), fun _ _ h => by cases h⟩
    simp only [wfStmt] at h
    cases he with
    | true =>
      obtain ⟨n1, h1⟩ := ihth.2.1 h.1 (.kw "ELSE" :: (stmtsToks el ++ .kw "END_IF" :: .sym ";" :: r)) (by simp [startsStmt, stmtStarters])
      obtain ⟨n2, h2⟩ := ihel.2.1 h.2.1 (.kw "END_IF" :: .sym ";" :: r) (by simp [startsStmt, stmtStarters])
      refine ⟨max n1 n2 + 1, fun n hn => ?_⟩
      obtain ⟨k, rfl⟩ : ∃ k, n = k + 1 := ⟨n - 1, by omega⟩
      have e1 := h1 k (by omega)
      have e2 := h2 k (by omega)
      dsimp only at e1 e2
      simp [stmtToks, parseStmt, e1, e2]
    | false =>
      have hel : el = .nil := h.2.2 rfl
      subst hel
      obtain ⟨n1, h1⟩ := ihth.2.1 h.1 (.kw "END_IF" :: .sym ";" :: r) (by simp [startsStmt, stmtStarters])
      refine ⟨n1 + 1, fun n hn => ?_⟩
      obtain ⟨k, rfl⟩ : ∃ k, n = k + 1 := ⟨n - 1, by omega⟩
      have e1 := h1 k (by omega)
      dsimp only at e1
      simp [stmtToks, parseStmt, e1]
  | case sel its ho o ihits iho =>
    refine ⟨fun h r => ?_, fun h => absurd h (by simp [wfStmts]), fun h => absurd h (by simp [wfCaseItems]), fun _ _ h => by cases h⟩
    simp only [wfStmt] at h
    cases ho with
    | true =>
      obtain ⟨n1, h1⟩ := ihits.2.2.1 h.1 (.kw "OTHERWISE" :: .sym ":" :: (stmtToks o ++ .kw "END_CASE" :: .sym ";" :: r))
        (by intro e r' hh; cases hh)
      obtain ⟨n2, h2⟩ := iho.1 (h.2.1 rfl) (.kw "END_CASE" :: .sym ";" :: r)
      refine ⟨max n1 n2 + 1, fun n hn => ?_⟩
      obtain ⟨k, rfl⟩ : ∃ k, n = k + 1 := ⟨n - 1, by omega⟩
      have e1 := h1 k (by omega)
      have e2 := h2 k (by omega)
      dsimp only at e1 e2
      simp [stmtToks, parseStmt, e1, e2]
    | false =>
      have ho' : o = .nil := h.2.2 rfl
      subst ho'
      obtain ⟨n1, h1⟩ := ihits.2.2.1 h.1 (.kw "END_CASE" :: .sym ";" :: r) (by intro e r' hh; cases hh)
      refine ⟨n1 + 1, fun n hn => ?_⟩
      obtain ⟨k, rfl⟩ : ∃ k, n = k + 1 := ⟨n - 1, by omega⟩
      have e1 := h1 k (by omega)
      dsimp only at e1
      simp [stmtToks, parseStmt, e1]
  | item ls a iha =>
    refine ⟨fun h => absurd h (by simp [wfStmt]), fun h => absurd h (by simp [wfStmts]), fun h => absurd h (by simp [wfCaseItems]), ?_⟩
    intro ls' a' he hw r
    cases he
    exact iha.1 hw r
  | loop incr wh un b ihb =>
    refine ⟨fun h r => ?_, fun h => absurd h (by simp [wfStmts]), fun h => absurd h (by simp [wfCaseItems]), fun _ _ h => by cases h⟩
    simp only [wfStmt] at h
    obtain ⟨n1, h1⟩ := ihb.2.1 h (.kw "END_REPEAT" :: .sym ";" :: r) (by simp [startsStmt, stmtStarters])
    refine ⟨n1 + 1, fun n hn => ?_⟩
    obtain ⟨k, rfl⟩ : ∃ k, n = k + 1 := ⟨n - 1, by omega⟩
    have e1 := h1 k (by omega)
    dsimp only at e1
    have t3 := takeKwEx_rt "UNTIL" un (.sym ";" :: (stmtsToks b ++ .kw "END_REPEAT" :: .sym ";" :: r)) (by intro e r' hh; cases hh)
    have t2 := takeKwEx_rt "WHILE" wh (optKwEx "UNTIL" un ++ .sym ";" :: (stmtsToks b ++ .kw "END_REPEAT" :: .sym ";" :: r))
      (by intro e r' hh; cases un <;> simp [optKwEx] at hh)
    have t1 := takeIncr_rt incr (optKwEx "WHILE" wh ++ (optKwEx "UNTIL" un ++ .sym ";" :: (stmtsToks b ++ .kw "END_REPEAT" :: .sym ";" :: r)))
      (by intro v r' hh; cases wh <;> cases un <;> simp [optKwEx] at hh)
    simp only [stmtToks, List.append_assoc, List.cons_append, List.nil_append, parseStmt, t1, t2, t3, e1]
  | alias a e b ihb =>
    refine ⟨fun h r => ?_, fun h => absurd h (by simp [wfStmts]), fun h => absurd h (by simp [wfCaseItems]), fun _ _ h => by cases h⟩
    simp only [wfStmt] at h
    obtain ⟨n1, h1⟩ := ihb.2.1 h (.kw "END_ALIAS" :: .sym ";" :: r) (by simp [startsStmt, stmtStarters])
    refine ⟨n1 + 1, fun n hn => ?_⟩
    obtain ⟨k, rfl⟩ : ∃ k, n = k + 1 := ⟨n - 1, by omega⟩
    have e1 := h1 k (by omega)
    dsimp only at e1
    simp [stmtToks, parseStmt, e1]
  | nil =>
    refine ⟨fun h => absurd h (by simp [wfStmt]), fun _ r hr => ?_, fun _ r hr => ?_, fun _ _ h => by cases h⟩
    · refine ⟨1, fun n hn => ?_⟩
      obtain ⟨k, rfl⟩ : ∃ k, n = k + 1 := ⟨n - 1, by omega⟩
      simp [stmtsToks, parseStmts, hr]
    · refine ⟨1, fun n hn => ?_⟩
      obtain ⟨k, rfl⟩ : ∃ k, n = k + 1 := ⟨n - 1, by omega⟩
      dsimp only
      simp only [caseItemsToks, List.nil_append]
      unfold parseCaseItems
      split
      · exact absurd rfl (hr _ _)
      · rfl
  | cons s t ihs iht =>
    refine ⟨fun h => absurd h (by simp [wfStmt]), fun h r hr => ?_, fun h r hr => ?_, fun _ _ h => by cases h⟩
    · simp only [wfStmts] at h
      obtain ⟨n2, h2⟩ := iht.2.1 h.2 r hr
      obtain ⟨n1, h1⟩ := ihs.1 h.1 (stmtsToks t ++ r)
      refine ⟨max n1 n2 + 1, fun n hn => ?_⟩
      obtain ⟨k, rfl⟩ : ∃ k, n = k + 1 := ⟨n - 1, by omega⟩
      have e1 := h1 k (by omega)
      have e2 := h2 k (by omega)
      dsimp only at e1 e2
      have hst := stmt_starts s h.1 (stmtsToks t ++ r)
      simp [stmtsToks, parseStmts, List.append_assoc, hst, e1, e2]
    · cases s with
      | item ls a =>
        simp only [wfCaseItems] at h
        cases ls with
        | nil => exact absurd rfl h.1
        | cons l ls' =>
          obtain ⟨n3, h3⟩ := iht.2.2.1 h.2.2 r hr
          obtain ⟨n2, h2⟩ := ihs.2.2.2 (l :: ls') a rfl h.2.1 (caseItemsToks t ++ r)
          refine ⟨max n2 n3 + ls'.length + 2, fun n hn => ?_⟩
          obtain ⟨k, rfl⟩ : ∃ k, n = k + 1 := ⟨n - 1, by omega⟩
          have e2 := h2 k (by omega)
          have e3 := h3 k (by omega)
          have e1 := parseLabels_rt ls' k (by omega) (stmtToks a ++ (caseItemsToks t ++ r))
          dsimp only at e2 e3
          simp [caseItemsToks, stmtToks, refsToks_cons, parseCaseItems, List.append_assoc, e1, e2, e3]
      | _ => simp [wfCaseItems] at h

/-- **Statements: print/parse round trip at token level.** -/
theorem stmt_roundtrip (s : Stmt) (h : wfStmt s) (r : List DTok) : Ev (fun n => parseStmt n (stmtToks s ++ r)) (s, r) :=
  (stmt_rt s).1 h r

theorem stmts_roundtrip (s : Stmt) (h : wfStmts s) (r : List DTok) (hr : startsStmt r = false) :
    Ev (fun n => parseStmts n (stmtsToks s ++ r)) (s, r) :=
  (stmt_rt s).2.1 h r hr

end StepModel.Express

import StepModel.GenPyStmt
/-!
# `Gen.Py.Case` — CASE in a FUNCTION body (`CASEout`), an extension of `Gen.Py.Stmt` in a file of its own

`CASE sel OF l1 : a1; l2 : a2; … OTHERWISE : o; END_CASE` is written

    case_selector = <sel>
    if  case_selector == l1:  <a1>   elif case_selector == l2:  <a2>   …   else:  <o>

(one `if`/`elif` per label; an item with several labels is several items with the same action; without OTHERWISE there is
no `else`).  The selector is kept in a Python variable of the fixed name `case_selector`.  The actions are statements of
`Gen.Py.Stmt` (no CASE inside a CASE here); labels are non-negative integer literals.

`pyExecCase` is Python's reading of that text in one step: the assignment, then the first test that holds — every test
looks the temporary up in the environment as it is *before* any action has run.  `uses` says whether a written
expression / statement reads or assigns a given Python name: the freshness condition of the translation theorem.
-/
namespace StepModel.GenPy.Stmt
open StepModel.Generated StepModel.GenPy StepModel.GenPy.Body

/-- the name `CASEout` gives the temporary -/
def caseTemp : String := "case_selector"

structure Case where
  sel : Expr
  items : List (Nat × Stmt)        -- (label, action), in the order written
  other : Option Stmt              -- OTHERWISE
  deriving Repr

structure PyCase where
  sel : PyExpr
  items : List (Nat × PyStmt)
  other : PyStmt                   -- `pass` when there is no `else`
  deriving Repr

def trItems : List (Nat × Stmt) → Option (List (Nat × PyStmt))
  | [] => some []
  | (l, a) :: rest => do let pa ← tr a; let pr ← trItems rest; pure ((l, pa) :: pr)

/-- OTHERWISE; no `else` part when there is none -/
def trOther : Option Stmt → Option PyStmt
  | none => some .pass
  | some s => tr s

/-- `CASEout` -/
def trCase (c : Case) : Option PyCase := do
  let ps ← readWith exprCfg c.sel
  let pi ← trItems c.items
  let po ← trOther c.other
  pure { sel := ps, items := pi, other := po }

/-- the action Python reaches: the first item whose test `case_selector == l` holds, else the `else` part -/
def pyPick (v : V) : List (Nat × PyStmt) → PyStmt → PyStmt
  | [], o => o
  | (l, a) :: rest, o => if cmpOp .eq v.toInt (l : Int) then a else pyPick v rest o

/-- Python: `case_selector = sel`, then the chosen action in the environment that now holds the temporary -/
def pyExecCase (fuel : Nat) (env : Env) (c : PyCase) : Option (Env × Out) :=
  match pyEval env c.sel with
  | some v => pyExec fuel ((caseTemp, v) :: env) (pyPick v c.items c.other)
  | none => none

/-- does the written expression read the Python name `n`? -/
def exprUses (n : String) : PyExpr → Bool
  | .attr s => s == n
  | .un _ x => exprUses n x
  | .bin _ l r => exprUses n l || exprUses n r
  | .chain _ l r => exprUses n l || exprUses n r
  | _ => false

def optUses (n : String) : Option PyExpr → Bool
  | none => false
  | some e => exprUses n e

/-- does the written statement read or assign the Python name `n`? -/
def stmtUses (n : String) : PyStmt → Bool
  | .seq a b => stmtUses n a || stmtUses n b
  | .assign x e => x == n || exprUses n e
  | .ite c t e => exprUses n c || stmtUses n t || stmtUses n e
  | .forRange i a b _ wh un body => i == n || exprUses n a || exprUses n b || optUses n wh || optUses n un || stmtUses n body
  | .while_ c un body => optUses n c || optUses n un || stmtUses n body
  | .ret e => exprUses n e
  | _ => false

/-- does the EXPRESS expression mention the identifier `n`? -/
def exprMentions (n : String) : Expr → Bool
  | .attr s => s == n
  | .selfAttr s => s == n
  | .un _ x => exprMentions n x
  | .bin _ l r => exprMentions n l || exprMentions n r
  | _ => false

def optMentions (n : String) : Option Expr → Bool
  | none => false
  | some e => exprMentions n e

/-- does the EXPRESS statement mention the identifier `n` (as a variable read, assigned, or as a loop variable)? -/
def stmtMentions (n : String) : Stmt → Bool
  | .seq a b => stmtMentions n a || stmtMentions n b
  | .assign x e => x == n || exprMentions n e
  | .ite c t e => exprMentions n c || stmtMentions n t || stmtMentions n e
  | .repeatInc i a b _ wh un body => i == n || exprMentions n a || exprMentions n b || optMentions n wh || optMentions n un || stmtMentions n body
  | .repeatWhile wh un body => optMentions n wh || optMentions n un || stmtMentions n body
  | .ret e => exprMentions n e
  | _ => false

/-- no identifier of the CASE is called like the temporary -/
def Case.fresh (c : Case) : Bool :=
  c.items.all (fun it => !stmtMentions caseTemp it.2) && (match c.other with | none => true | some o => !stmtMentions caseTemp o)

end StepModel.GenPy.Stmt

namespace StepModel.GenPy.Spec.Stmt
open StepModel.GenPy.Body StepModel.GenPy.Stmt

/-- ISO 10303-11 13.4: the selector is evaluated once; the action of the first item whose label has its value is executed;
if there is none, the OTHERWISE action; if there is none either, nothing -/
def pick (v : Int) : List (Nat × Stmt) → Option Stmt → Stmt
  | [], none => .nop
  | [], some o => o
  | (l, a) :: rest, o => if v == (l : Int) then a else pick v rest o

def execCase (fuel : Nat) (env : Env) (c : Case) : Option (Env × Out) :=
  match Spec.Body.eval env c.sel with
  | some (.int v) => exec fuel env (pick v c.items c.other)
  | _ => none

end StepModel.GenPy.Spec.Stmt

import StepModel.ExpLexLayout
/-!
String literals at the character level: what the scanner reads from the text `breakLongStr` writes — one literal, or the literal
split into `'a' + 'b' + …` (optionally in parentheses), the bodies concatenating to the doubled-apostrophe form of the string.
-/
namespace StepModel.Express
open StepModel.Generated

/-- bodies of string literals as the printer writes them: apostrophes doubled -/
def IsEsc (b : List Char) : Prop := ∃ x, b = escQ x

theorem escQ_append (a b : List Char) : escQ (a ++ b) = escQ a ++ escQ b := by
  simp only [escQ]; split <;> simp

theorem IsEsc.append {a b : List Char} (ha : IsEsc a) (hb : IsEsc b) : IsEsc (a ++ b) := by
  obtain ⟨x, rfl⟩ := ha; obtain ⟨y, rfl⟩ := hb; exact ⟨x ++ y, (escQ_append x y).symm⟩

theorem isEsc_nil : IsEsc [] := ⟨[], by simp [escQ]⟩

/-- `nextBreakpoint` cuts the doubled form where it cuts the string: after the dots -/
theorem splitDots_escQ (s : List Char) : splitDots (escQ s) = (splitDots s).map escQ := by
  have hq : ExpPrec.stringQuoteDoubled = true := rfl
  have hcons : ∀ (c : Char) (r : List Char), escQ (c :: r) = (if c = '\'' then ['\'', '\''] else [c]) ++ escQ r := by
    intro c r; simp [escQ, hq]
  induction s with
  | nil => simp [escQ, splitDots]
  | cons c r ih =>
    rw [hcons]
    by_cases hdot : c = '.'
    · subst hdot
      have h1 : escQ ['.'] = ['.'] := by simp [escQ, hq]
      simp [splitDots, ih, h1]
    · by_cases hq' : c = '\''
      · subst hq'
        simp only [if_true, List.cons_append, List.nil_append]
        have e2 : escQ ['\''] = ['\'', '\''] := by simp [escQ, hq]
        cases hr : splitDots r with
        | nil =>
          rw [hr] at ih
          have hd : ('\'' : Char) ≠ '.' := by decide
          simp only [splitDots, hd, if_false, ih, hr, List.map]
          simp [e2]
        | cons p ps =>
          rw [hr] at ih
          have : escQ ('\'' :: p) = '\'' :: '\'' :: escQ p := by simp [escQ, hq]
          simp [splitDots, ih, hr, this]
      · simp only [hq', if_false, List.cons_append, List.nil_append]
        cases hr : splitDots r with
        | nil =>
          rw [hr] at ih
          have e1 : escQ [c] = [c] := by simp [escQ, hq, hq']
          simp only [splitDots, hdot, if_false, ih, hr, List.map]
          simp [e1]
        | cons p ps =>
          rw [hr] at ih
          have : escQ (c :: p) = c :: escQ p := by simp [escQ, hq, hq']
          simp [splitDots, ih, hr, hdot, this]

theorem pieces_isEsc (s : List Char) : ∀ p ∈ splitDots (escQ s), IsEsc p := by
  rw [splitDots_escQ]
  intro p hp
  obtain ⟨x, _, rfl⟩ := List.mem_map.mp hp
  exact ⟨x, rfl⟩

/-- after `)` anything may follow -/
theorem LexInv.rp_none {T : List Char} {TS : List Tok} (h : LexInv T TS (some .rp)) : LexInv T TS none := by
  intro rest ts _ hl
  apply h rest ts _ hl
  cases rest with
  | nil => trivial
  | cons c r => simp [StartOK, NoGlue, nextOK]

theorem wf_str {b : List Char} (h : IsEsc b) : TokWF (.str b) := h

theorem newlinePiece_ws (n : Nat) : (newlinePiece n).all isWsC = true := by
  simp only [newlinePiece, List.all_cons, List.all_eq_true, Bool.and_eq_true]
  refine ⟨by decide, ?_⟩
  intro c hc
  rw [List.mem_replicate] at hc
  rw [hc.2]; decide

/-- tokens of the literals closed so far: each followed by the `+` that joins it to the next -/
def closed (gs : List (List Char)) : List Tok := gs.flatMap fun g => [.str g, .op .plus]

theorem closed_append (a b : List (List Char)) : closed (a ++ b) = closed a ++ closed b := by simp [closed]

/-- closing the current literal -/
theorem close_lit {T0 : List Char} {TSa : List Tok} {cur : List Char} (h : LexInv T0 TSa none) (hc : IsEsc cur) :
    LexInv (T0 ++ '\'' :: cur ++ ['\'']) (TSa ++ [.str cur]) (some (.str cur)) := by
  have := h.tok (.str cur) (reads_of_wf _ (wf_str hc)) (by simp [sp]) (fun t0 h0 => by cases h0)
  simpa [sp, List.append_assoc] using this

/-- the text of `breakPieces` after the opening apostrophe: pieces, some of them preceded by the separator `'⏎ + '` -/
theorem weave_lex (n : Nat) : ∀ (ps seps : List (List Char)) (T0 : List Char) (TSa : List Tok) (cur : List Char),
    seps.length = ps.length → (∀ x ∈ seps, x = [] ∨ x = breakSep n) → LexInv T0 TSa none → IsEsc cur → (∀ p ∈ ps, IsEsc p) →
    ∃ T0' gs cur', T0 ++ '\'' :: cur ++ weave seps ps = T0' ++ '\'' :: cur' ∧ LexInv T0' (TSa ++ closed gs) none ∧ IsEsc cur'
      ∧ (∀ g ∈ gs, IsEsc g) ∧ gs.flatten ++ cur' = cur ++ ps.flatten := by
  intro ps
  induction ps with
  | nil =>
    intro seps T0 TSa cur _ _ h hc _
    exact ⟨T0, [], cur, by cases seps <;> simp [weave], by simpa [closed] using h, hc, by simp, by simp⟩
  | cons p ps ih =>
    intro seps T0 TSa cur hlen hseps h hc hps
    cases seps with
    | nil => simp at hlen
    | cons sep seps =>
      have hp : IsEsc p := hps p (by simp)
      rcases hseps sep (by simp) with rfl | rfl
      · -- no break: the piece continues the current literal
        obtain ⟨T0', gs, cur', ht, hl, hc', hgs, hfl⟩ := ih seps T0 TSa (cur ++ p) (by simpa using hlen)
          (fun x hx => hseps x (List.mem_cons_of_mem _ hx)) h (hc.append hp) (fun q hq => hps q (List.mem_cons_of_mem _ hq))
        refine ⟨T0', gs, cur', ?_, hl, hc', hgs, by simpa [List.append_assoc] using hfl⟩
        rw [← ht]; simp [weave, List.append_assoc]
      · -- break: close the literal, `+`, open the next one
        have h1 := close_lit h hc
        have h2 := h1.ws (newlinePiece n) (newlinePiece_ws n) (by simp [newlinePiece])
        have h3 := h2.tok (.op .plus) (reads_of_wf _ trivial) (by decide) (fun t0 h0 => by cases h0)
        have h4 := h3.ws [' '] (by decide) (by simp)
        have hplus : sp (.op .plus) = ['+'] := by decide
        obtain ⟨T0', gs, cur', ht, hl, hc', hgs, hfl⟩ := ih seps
          (T0 ++ '\'' :: cur ++ ['\''] ++ newlinePiece n ++ sp (.op .plus) ++ [' ']) (TSa ++ [.str cur] ++ [.op .plus]) p
          (by simpa using hlen) (fun x hx => hseps x (List.mem_cons_of_mem _ hx)) h4 hp (fun q hq => hps q (List.mem_cons_of_mem _ hq))
        refine ⟨T0', cur :: gs, cur', ?_, ?_, hc', ?_, ?_⟩
        · rw [← ht, hplus]; simp [weave, breakSep, List.append_assoc]
        · simpa [closed, List.append_assoc] using hl
        · intro g hg
          rcases List.mem_cons.mp hg with rfl | hg
          · exact hc
          · exact hgs g hg
        · simp only [List.flatten_cons, List.append_assoc]; rw [hfl]

/-- a sum of string literals: `'a' + 'b' + …` -/
def sumToks : List (List Char) → List Tok
  | [] => []
  | [g] => [.str g]
  | g :: g' :: gs => .str g :: .op .plus :: sumToks (g' :: gs)

theorem closed_sum (gs : List (List Char)) (cur : List Char) : closed gs ++ [.str cur] = sumToks (gs ++ [cur]) := by
  induction gs with
  | nil => rfl
  | cons g gs ih =>
    cases gs with
    | nil => simp [closed, sumToks]
    | cons g' gs' =>
      simp only [closed, List.flatMap_cons, List.cons_append, List.nil_append, sumToks, List.append_assoc] at ih ⊢
      rw [ih]

/-- what the scanner reads where the printer wrote the string literal with (doubled-apostrophe) body `b`: the literal, or a sum
of literals whose bodies concatenate to `b`, in parentheses or not -/
inductive StrSplit (b : List Char) : List Tok → Prop
  | one : StrSplit b [.str b]
  | sum (gs : List (List Char)) (par : Bool) : gs ≠ [] → gs.flatten = b → (∀ g ∈ gs, IsEsc g) →
      StrSplit b ((if par then [.lp] else []) ++ sumToks gs ++ (if par then [.rp] else []))

theorem maybeBreak_first (st : PState) (len : Nat) :
    ∃ W, (maybeBreak st len true).text = st.text ++ W ++ ['\''] ∧ W.all isWsC = true ∧ (W = [] → st.spaceLast = true)
      ∧ (maybeBreak st len true).indent2 = st.indent2 := by
  unfold maybeBreak
  split
  · exact ⟨newlinePiece st.indent2, by simp [text_raw, breakSepFirst], newlinePiece_ws _, by simp [newlinePiece], by simp [raw_indent2]⟩
  · by_cases h : st.spaceLast = true
    · exact ⟨[], by simp [text_raw, h], rfl, fun _ => h, by simp [raw_indent2]⟩
    · exact ⟨[' '], by simp [text_raw, h], by decide, by simp, by simp [raw_indent2]⟩

theorem splitParen_paren (st : PState) (ps : List (List Char)) (paren : Bool) (h : splitParen st ps paren = true) : paren = true := by
  simp only [splitParen, Bool.and_eq_true] at h; exact h.1

/-- **`breakLongStr` and the scanner**: from a state that satisfies `K`, whatever the line length, the text `breakLongStr` adds is
read as the string literal or as a split rendering of it -/
theorem K_str (st : PState) (TS : List Tok) (lt slt : Option Tok) (s0 : List Char) (paren : Bool) (hK : K st TS lt)
    (hr : lt = none ∨ lt = slt) (hsafe : paren = true → ∀ t0, slt = some t0 → adjOK t0 .lp = true) :
    ∃ ts lt', K (breakLongStr st s0 paren) (TS ++ ts) lt' ∧ (lt' = none ∨ lt' = some (.str (escQ s0))) ∧ StrSplit (escQ s0) ts := by
  have hinvF := inv_breakLongStr st s0 paren hK.1
  unfold breakLongStr at hinvF ⊢
  simp only [] at hinvF ⊢
  split
  · -- one piece
    rename_i hshort
    simp only [hshort, if_true] at hinvF
    by_cases hsl : st.spaceLast = true
    · have hlt : lt = none := hK.2.2 (hK.1 hsl)
      obtain ⟨lt', hK', hr'⟩ := K_raw st TS lt none ⟨false, 0, [(.str (escQ s0), 0)]⟩ hK (Or.inl hlt)
        ⟨wf_str ⟨s0, rfl⟩, fun t0 h0 => by simp [AFrag.prev] at h0, trivial⟩
      refine ⟨[.str (escQ s0)], lt', ?_, ?_, StrSplit.one⟩
      · simpa [AFrag.text, AFrag.toks, bodyText, blanks, sp, hsl, List.append_assoc] using hK'
      · simpa [AFrag.flow, AFrag.prev, endAfter, nxt] using hr'
    · obtain ⟨lt', hK', hr'⟩ := K_raw st TS lt slt ⟨false, 1, [(.str (escQ s0), 0)]⟩ hK hr
        ⟨wf_str ⟨s0, rfl⟩, fun t0 h0 => by simp [AFrag.prev] at h0, trivial⟩
      refine ⟨[.str (escQ s0)], lt', ?_, ?_, StrSplit.one⟩
      · simpa [AFrag.text, AFrag.toks, bodyText, blanks, sp, hsl, List.append_assoc] using hK'
      · simpa [AFrag.flow, AFrag.prev, endAfter, nxt] using hr'
  · -- split
    rename_i hlong
    simp only [hlong, if_false] at hinvF
    obtain ⟨p1, ps', hps⟩ : ∃ p1 ps', splitDots (escQ s0) = p1 :: ps' := by
      cases hp : splitDots (escQ s0) with
      | nil => have := splitDots_eq_nil _ hp; simp [this] at hlong
      | cons p1 ps' => exact ⟨p1, ps', rfl⟩
    have hesc := pieces_isEsc s0
    rw [hps] at hesc
    have hflat : p1 ++ ps'.flatten = escQ s0 := by
      have := C07_splitDots_flatten (escQ s0); rw [hps] at this; simpa using this
    -- the state after the optional opening parenthesis
    obtain ⟨st1, TS1, lt1, hst1, hK1, hTS1⟩ : ∃ st1 TS1 lt1,
        st1 = (if splitParen st (splitDots (escQ s0)) paren = true then wrap st openParen else st) ∧ K st1 TS1 lt1
        ∧ TS1 = TS ++ (if splitParen st (splitDots (escQ s0)) paren = true then [.lp] else []) := by
      by_cases hpar : splitParen st (splitDots (escQ s0)) paren = true
      · have hp := splitParen_paren _ _ _ hpar
        obtain ⟨lt1, hK1, _⟩ := K_wrap st TS lt slt ⟨true, 0, [(.lp, 1)]⟩ hK hr
          ⟨trivial, fun t0 h0 => hsafe hp t0 (by simpa [AFrag.prev] using h0), trivial⟩
        have htx : (⟨true, 0, [(.lp, 1)]⟩ : AFrag).text = openParen := by decide
        rw [htx] at hK1
        exact ⟨_, _, lt1, rfl, by simpa [hpar, AFrag.toks] using hK1, by simp [hpar]⟩
      · exact ⟨st, TS, lt, by simp [hpar], hK, by simp [hpar]⟩
    rw [← hst1] at hinvF ⊢
    rw [hps] at hinvF ⊢
    -- the opening apostrophe
    obtain ⟨W, hW, hWws, hW0, hind⟩ := maybeBreak_first st1 p1.length
    have hT0 : LexInv (st1.text ++ W) TS1 none := by
      by_cases hw : W = []
      · have hlt1 : lt1 = none := hK1.2.2 (hK1.1 (hW0 hw))
        subst hw
        have := hK1.2.1
        rw [hlt1] at this
        simpa using this
      · exact hK1.2.1.ws W hWws hw
    -- the pieces
    obtain ⟨seps, hlen, hall, ht⟩ := breakPieces_weave ps' (raw (maybeBreak st1 p1.length true) p1)
    rw [raw_indent2, hind] at hall
    obtain ⟨T0', gs, cur', hT, hL, hc', hgs, hfl⟩ := weave_lex st1.indent2 ps' seps (st1.text ++ W) TS1 p1 hlen hall hT0
      (hesc p1 (by simp)) (fun q hq => hesc q (List.mem_cons_of_mem _ hq))
    have htext : (breakPieces st1 (p1 :: ps') true).text = T0' ++ '\'' :: cur' := by
      simp only [breakPieces, ht, text_raw, hW]
      rw [← hT]; simp [List.append_assoc]
    have hcl := close_lit hL hc'
    have hws := hcl.ws [' '] (by decide) (by simp)
    have hsum : gs.flatten ++ cur' = escQ s0 := by rw [hfl, hflat]
    by_cases hpar : splitParen st (p1 :: ps') paren = true
    · have hpar' : splitParen st (splitDots (escQ s0)) paren = true := by rw [hps]; exact hpar
      have hrp := (hws.tok .rp (reads_of_wf _ trivial) (by decide) (fun t0 h0 => by cases h0)).rp_none
      refine ⟨[.lp] ++ sumToks (gs ++ [cur']) ++ [.rp], none, ⟨?_, ?_, fun _ => rfl⟩, Or.inl rfl, ?_⟩
      · simpa [hpar] using hinvF
      · simp only [hpar, if_true, text_raw, htext]
        have : TS ++ ([Tok.lp] ++ sumToks (gs ++ [cur']) ++ [Tok.rp]) = TS1 ++ closed gs ++ [Tok.str cur'] ++ [Tok.rp] := by
          rw [hTS1, ← closed_sum]; simp [hpar', List.append_assoc]
        rw [this]
        have hsp : sp .rp = [')'] := rfl
        rw [hsp] at hrp
        simpa [List.append_assoc] using hrp
      · have := StrSplit.sum (b := escQ s0) (gs ++ [cur']) true (by simp) (by simpa using hsum)
          (by intro g hg; rcases List.mem_append.mp hg with hg | hg
              · exact hgs g hg
              · simp at hg; subst hg; exact hc')
        simpa using this
    · have hpar' : ¬ splitParen st (splitDots (escQ s0)) paren = true := by rw [hps]; exact hpar
      refine ⟨sumToks (gs ++ [cur']), none, ⟨?_, ?_, fun _ => rfl⟩, Or.inl rfl, ?_⟩
      · simpa [hpar] using hinvF
      · simp only [hpar, text_raw, htext]
        have : TS ++ sumToks (gs ++ [cur']) = TS1 ++ closed gs ++ [Tok.str cur'] := by
          rw [hTS1, ← closed_sum]; simp [hpar', List.append_assoc]
        rw [this]
        simpa [List.append_assoc] using hws
      · have := StrSplit.sum (b := escQ s0) (gs ++ [cur']) false (by simp) (by simpa using hsum)
          (by intro g hg; rcases List.mem_append.mp hg with hg | hg
              · exact hgs g hg
              · simp at hg; subst hg; exact hc')
        simpa using this

end StepModel.Express

import StepModel.ExpLexLayout
/-!
String literals at the character level: what the scanner reads from the text `breakLongStr` writes — one literal, or the literal
split into `'a' + 'b' + …` (optionally in parentheses), the bodies concatenating to the doubled-apostrophe form of the string.
-/
namespace StepModel.Express
open StepModel.Generated

/-- bodies of string literals as the printer writes them: apostrophes doubled -/
def IsEsc (b : List Char) : Prop := ∃ x, b = escQ x

theorem escQ_append (a b : List Char) : escQ (a ++ b) = escQ a ++ escQ b := by
  simp only [escQ]; split <;> simp

theorem IsEsc.append {a b : List Char} (ha : IsEsc a) (hb : IsEsc b) : IsEsc (a ++ b) := by
  obtain ⟨x, rfl⟩ := ha; obtain ⟨y, rfl⟩ := hb; exact ⟨x ++ y, (escQ_append x y).symm⟩

theorem isEsc_nil : IsEsc [] := ⟨[], by simp [escQ]⟩

/-- `nextBreakpoint` cuts the doubled form where it cuts the string: after the dots -/
theorem splitDots_escQ (s : List Char) : splitDots (escQ s) = (splitDots s).map escQ := by
  have hq : ExpPrec.stringQuoteDoubled = true := rfl
  have hcons : ∀ (c : Char) (r : List Char), escQ (c :: r) = (if c = '\'' then ['\'', '\''] else [c]) ++ escQ r := by
    intro c r; simp [escQ, hq]
  induction s with
  | nil => simp [escQ, splitDots]
  | cons c r ih =>
    rw [hcons]
    by_cases hdot : c = '.'
    · subst hdot
      have h1 : escQ ['.'] = ['.'] := by simp [escQ, hq]
      simp [splitDots, ih, h1]
    · by_cases hq' : c = '\''
      · subst hq'
        simp only [if_true, List.cons_append, List.nil_append]
        have e2 : escQ ['\''] = ['\'', '\''] := by simp [escQ, hq]
        cases hr : splitDots r with
        | nil =>
          rw [hr] at ih
          have hd : ('\'' : Char) ≠ '.' := by decide
          simp only [splitDots, hd, if_false, ih, hr, List.map]
          simp [e2]
        | cons p ps =>
          rw [hr] at ih
          have : escQ ('\'' :: p) = '\'' :: '\'' :: escQ p := by simp [escQ, hq]
          simp [splitDots, ih, hr, this]
      · simp only [hq', if_false, List.cons_append, List.nil_append]
        cases hr : splitDots r with
        | nil =>
          rw [hr] at ih
          have e1 : escQ [c] = [c] := by simp [escQ, hq, hq']
          simp only [splitDots, hdot, if_false, ih, hr, List.map]
          simp [e1]
        | cons p ps =>
          rw [hr] at ih
          have : escQ (c :: p) = c :: escQ p := by simp [escQ, hq, hq']
          simp [splitDots, ih, hr, hdot, this]

theorem pieces_isEsc (s : List Char) : ∀ p ∈ splitDots (escQ s), IsEsc p := by
  rw [splitDots_escQ]
  intro p hp
  obtain ⟨x, _, rfl⟩ := List.mem_map.mp hp
  exact ⟨x, rfl⟩

/-- after `)` anything may follow -/
theorem LexInv.rp_none {T : List Char} {TS : List Tok} (h : LexInv T TS (some .rp)) : LexInv T TS none := by
  intro rest ts _ hl
  apply h rest ts _ hl
  cases rest with
  | nil => trivial
  | cons c r => simp [StartOK, NoGlue, nextOK]

theorem wf_str {b : List Char} (h : IsEsc b) : TokWF (.str b) := h

theorem newlinePiece_ws (n : Nat) : (newlinePiece n).all isWsC = true := by
  simp only [newlinePiece, List.all_cons, List.all_eq_true, Bool.and_eq_true]
  refine ⟨by decide, ?_⟩
  intro c hc
  rw [List.mem_replicate] at hc
  rw [hc.2]; decide

/-- tokens of the literals closed so far: each followed by the `+` that joins it to the next -/
def closed (gs : List (List Char)) : List Tok := gs.flatMap fun g => [.str g, .op .plus]

theorem closed_append (a b : List (List Char)) : closed (a ++ b) = closed a ++ closed b := by simp [closed]

/-- closing the current literal -/
theorem close_lit {T0 : List Char} {TSa : List Tok} {cur : List Char} (h : LexInv T0 TSa none) (hc : IsEsc cur) :
    LexInv (T0 ++ '\'' :: cur ++ ['\'']) (TSa ++ [.str cur]) (some (.str cur)) := by
  have := h.tok (.str cur) (reads_of_wf _ (wf_str hc)) (by simp [sp]) (fun t0 h0 => by cases h0)
  simpa [sp, List.append_assoc] using this

/-- the text of `breakPieces` after the opening apostrophe: pieces, some of them preceded by the separator `'⏎ + '` -/
theorem weave_lex (n : Nat) : ∀ (ps seps : List (List Char)) (T0 : List Char) (TSa : List Tok) (cur : List Char),
    seps.length = ps.length → (∀ x ∈ seps, x = [] ∨ x = breakSep n) → LexInv T0 TSa none → IsEsc cur → (∀ p ∈ ps, IsEsc p) →
    ∃ T0' gs cur', T0 ++ '\'' :: cur ++ weave seps ps = T0' ++ '\'' :: cur' ∧ LexInv T0' (TSa ++ closed gs) none ∧ IsEsc cur'
      ∧ (∀ g ∈ gs, IsEsc g) ∧ gs.flatten ++ cur' = cur ++ ps.flatten := by
  intro ps
  induction ps with
  | nil =>
    intro seps T0 TSa cur _ _ h hc _
    exact ⟨T0, [], cur, by cases seps <;> simp [weave], by simpa [closed] using h, hc, by simp, by simp⟩
  | cons p ps ih =>
    intro seps T0 TSa cur hlen hseps h hc hps
    cases seps with
    | nil => simp at hlen
    | cons sep seps =>
      have hp : IsEsc p := hps p (by simp)
      rcases hseps sep (by simp) with rfl | rfl
      · -- no break: the piece continues the current literal
        obtain ⟨T0', gs, cur', ht, hl, hc', hgs, hfl⟩ := ih seps T0 TSa (cur ++ p) (by simpa using hlen)
          (fun x hx => hseps x (List.mem_cons_of_mem _ hx)) h (hc.append hp) (fun q hq => hps q (List.mem_cons_of_mem _ hq))
        refine ⟨T0', gs, cur', ?_, hl, hc', hgs, by simpa [List.append_assoc] using hfl⟩
        rw [← ht]; simp [weave, List.append_assoc]
      · -- break: close the literal, `+`, open the next one
        have h1 := close_lit h hc
        have h2 := h1.ws (newlinePiece n) (newlinePiece_ws n) (by simp [newlinePiece])
        have h3 := h2.tok (.op .plus) (reads_of_wf _ trivial) (by decide) (fun t0 h0 => by cases h0)
        have h4 := h3.ws [' '] (by decide) (by simp)
        have hplus : sp (.op .plus) = ['+'] := by decide
        obtain ⟨T0', gs, cur', ht, hl, hc', hgs, hfl⟩ := ih seps
          (T0 ++ '\'' :: cur ++ ['\''] ++ newlinePiece n ++ sp (.op .plus) ++ [' ']) (TSa ++ [.str cur] ++ [.op .plus]) p
          (by simpa using hlen) (fun x hx => hseps x (List.mem_cons_of_mem _ hx)) h4 hp (fun q hq => hps q (List.mem_cons_of_mem _ hq))
        refine ⟨T0', cur :: gs, cur', ?_, ?_, hc', ?_, ?_⟩
        · rw [← ht, hplus]; simp [weave, breakSep, List.append_assoc]
        · simpa [closed, List.append_assoc] using hl
        · intro g hg
          rcases List.mem_cons.mp hg with rfl | hg
          · exact hc
          · exact hgs g hg
        · simp only [List.flatten_cons, List.append_assoc]; rw [hfl]

/-- a sum of string literals: `'a' + 'b' + …` -/
def sumToks : List (List Char) → List Tok
  | [] => []
  | [g] => [.str g]
  | g :: g' :: gs => .str g :: .op .plus :: sumToks (g' :: gs)

theorem closed_sum (gs : List (List Char)) (cur : List Char) : closed gs ++ [.str cur] = sumToks (gs ++ [cur]) := by
  induction gs with
  | nil => rfl
  | cons g gs ih =>
    cases gs with
    | nil => simp [closed, sumToks]
    | cons g' gs' =>
      simp only [closed, List.flatMap_cons, List.cons_append, List.nil_append, sumToks, List.append_assoc] at ih ⊢
      rw [ih]

/-- what the scanner reads where the printer wrote the string literal with (doubled-apostrophe) body `b`: the literal, or a sum
of literals whose bodies concatenate to `b`, in parentheses or not -/
inductive StrSplit (b : List Char) : List Tok → Prop
  | one : StrSplit b [.str b]
  | sum (gs : List (List Char)) (par : Bool) : gs ≠ [] → gs.flatten = b → (∀ g ∈ gs, IsEsc g) →
      StrSplit b ((if par then [.lp] else []) ++ sumToks gs ++ (if par then [.rp] else []))

theorem maybeBreak_first (st : PState) (len : Nat) :
    ∃ W, (maybeBreak st len true).text = st.text ++ W ++ ['\''] ∧ W.all isWsC = true ∧ (W = [] → st.spaceLast = true)
      ∧ (maybeBreak st len true).indent2 = st.indent2 := by
  unfold maybeBreak
  split
  · exact ⟨newlinePiece st.indent2, by simp [text_raw, breakSepFirst], newlinePiece_ws _, by simp [newlinePiece], by simp [raw_indent2]⟩
  · by_cases h : st.spaceLast = true
    · exact ⟨[], by simp [text_raw, h], rfl, fun _ => h, by simp [raw_indent2]⟩
    · exact ⟨[' '], by simp [text_raw, h], by decide, by simp, by simp [raw_indent2]⟩

theorem splitParen_paren (st : PState) (ps : List (List Char)) (paren : Bool) (h : splitParen st ps paren = true) : paren = true := by
  simp only [splitParen, Bool.and_eq_true] at h; exact h.1

/-- **`breakLongStr` and the scanner**: from a state that satisfies `K`, whatever the line length, the text `breakLongStr` adds is
read as the string literal or as a split rendering of it -/
theorem K_str (st : PState) (TS : List Tok) (lt slt : Option Tok) (s0 : List Char) (paren : Bool) (hK : K st TS lt)
    (hr : lt = none ∨ lt = slt) (hsafe : paren = true → ∀ t0, slt = some t0 → adjOK t0 .lp = true) :
    ∃ ts lt', K (breakLongStr st s0 paren) (TS ++ ts) lt' ∧ (lt' = none ∨ lt' = some (.str (escQ s0))) ∧ StrSplit (escQ s0) ts
      ∧ (lt' ≠ none → (breakLongStr st s0 paren).text.getLast? = some '\'') := by
  have hinvF := inv_breakLongStr st s0 paren hK.1
  unfold breakLongStr at hinvF ⊢
  simp only [] at hinvF ⊢
  split
  · -- one piece
    rename_i hshort
    simp only [hshort, if_true] at hinvF
    by_cases hsl : st.spaceLast = true
    · have hlt : lt = none := hK.2.2 (hK.1 hsl)
      obtain ⟨lt', hK', hr'⟩ := K_raw st TS lt none ⟨false, 0, [(.str (escQ s0), 0)]⟩ hK (Or.inl hlt)
        ⟨wf_str ⟨s0, rfl⟩, fun t0 h0 => by simp [AFrag.prev] at h0, trivial⟩
      refine ⟨[.str (escQ s0)], lt', ?_, ?_, StrSplit.one, fun _ => ?_⟩
      · simpa [AFrag.text, AFrag.toks, bodyText, blanks, sp, hsl, List.append_assoc] using hK'
      · simpa [AFrag.flow, AFrag.prev, endAfter, nxt] using hr'
      · simp only [text_raw, ← List.append_assoc]; rw [List.getLast?_append]; rfl
    · obtain ⟨lt', hK', hr'⟩ := K_raw st TS lt slt ⟨false, 1, [(.str (escQ s0), 0)]⟩ hK hr
        ⟨wf_str ⟨s0, rfl⟩, fun t0 h0 => by simp [AFrag.prev] at h0, trivial⟩
      refine ⟨[.str (escQ s0)], lt', ?_, ?_, StrSplit.one, fun _ => ?_⟩
      · simpa [AFrag.text, AFrag.toks, bodyText, blanks, sp, hsl, List.append_assoc] using hK'
      · simpa [AFrag.flow, AFrag.prev, endAfter, nxt] using hr'
      · simp only [text_raw, ← List.append_assoc]; rw [List.getLast?_append]; rfl
  · -- split
    rename_i hlong
    simp only [hlong, if_false] at hinvF
    obtain ⟨p1, ps', hps⟩ : ∃ p1 ps', splitDots (escQ s0) = p1 :: ps' := by
      cases hp : splitDots (escQ s0) with
      | nil => have := splitDots_eq_nil _ hp; simp [this] at hlong
      | cons p1 ps' => exact ⟨p1, ps', rfl⟩
    have hesc := pieces_isEsc s0
    rw [hps] at hesc
    have hflat : p1 ++ ps'.flatten = escQ s0 := by
      have := C07_splitDots_flatten (escQ s0); rw [hps] at this; simpa using this
    -- the state after the optional opening parenthesis
    obtain ⟨st1, TS1, lt1, hst1, hK1, hTS1⟩ : ∃ st1 TS1 lt1,
        st1 = (if splitParen st (splitDots (escQ s0)) paren = true then wrap st openParen else st) ∧ K st1 TS1 lt1
        ∧ TS1 = TS ++ (if splitParen st (splitDots (escQ s0)) paren = true then [.lp] else []) := by
      by_cases hpar : splitParen st (splitDots (escQ s0)) paren = true
      · have hp := splitParen_paren _ _ _ hpar
        obtain ⟨lt1, hK1, _⟩ := K_wrap st TS lt slt ⟨true, 0, [(.lp, 1)]⟩ hK hr
          ⟨trivial, fun t0 h0 => hsafe hp t0 (by simpa [AFrag.prev] using h0), trivial⟩
        have htx : (⟨true, 0, [(.lp, 1)]⟩ : AFrag).text = openParen := by decide
        rw [htx] at hK1
        exact ⟨_, _, lt1, rfl, by simpa [hpar, AFrag.toks] using hK1, by simp [hpar]⟩
      · exact ⟨st, TS, lt, by simp [hpar], hK, by simp [hpar]⟩
    rw [← hst1] at hinvF ⊢
    rw [hps] at hinvF ⊢
    -- the opening apostrophe
    obtain ⟨W, hW, hWws, hW0, hind⟩ := maybeBreak_first st1 p1.length
    have hT0 : LexInv (st1.text ++ W) TS1 none := by
      by_cases hw : W = []
      · have hlt1 : lt1 = none := hK1.2.2 (hK1.1 (hW0 hw))
        subst hw
        have := hK1.2.1
        rw [hlt1] at this
        simpa using this
      · exact hK1.2.1.ws W hWws hw
    -- the pieces
    obtain ⟨seps, hlen, hall, ht⟩ := breakPieces_weave ps' (raw (maybeBreak st1 p1.length true) p1)
    rw [raw_indent2, hind] at hall
    obtain ⟨T0', gs, cur', hT, hL, hc', hgs, hfl⟩ := weave_lex st1.indent2 ps' seps (st1.text ++ W) TS1 p1 hlen hall hT0
      (hesc p1 (by simp)) (fun q hq => hesc q (List.mem_cons_of_mem _ hq))
    have htext : (breakPieces st1 (p1 :: ps') true).text = T0' ++ '\'' :: cur' := by
      simp only [breakPieces, ht, text_raw, hW]
      rw [← hT]; simp [List.append_assoc]
    have hcl := close_lit hL hc'
    have hws := hcl.ws [' '] (by decide) (by simp)
    have hsum : gs.flatten ++ cur' = escQ s0 := by rw [hfl, hflat]
    by_cases hpar : splitParen st (p1 :: ps') paren = true
    · have hpar' : splitParen st (splitDots (escQ s0)) paren = true := by rw [hps]; exact hpar
      have hrp := (hws.tok .rp (reads_of_wf _ trivial) (by decide) (fun t0 h0 => by cases h0)).rp_none
      refine ⟨[.lp] ++ sumToks (gs ++ [cur']) ++ [.rp], none, ⟨?_, ?_, fun _ => rfl⟩, Or.inl rfl, ?_, fun h => absurd rfl h⟩
      · simpa [hpar] using hinvF
      · simp only [hpar, if_true, text_raw, htext]
        have : TS ++ ([Tok.lp] ++ sumToks (gs ++ [cur']) ++ [Tok.rp]) = TS1 ++ closed gs ++ [Tok.str cur'] ++ [Tok.rp] := by
          rw [hTS1, ← closed_sum]; simp [hpar', List.append_assoc]
        rw [this]
        have hsp : sp .rp = [')'] := rfl
        rw [hsp] at hrp
        simpa [List.append_assoc] using hrp
      · have := StrSplit.sum (b := escQ s0) (gs ++ [cur']) true (by simp) (by simpa using hsum)
          (by intro g hg; rcases List.mem_append.mp hg with hg | hg
              · exact hgs g hg
              · simp at hg; subst hg; exact hc')
        simpa using this
    · have hpar' : ¬ splitParen st (splitDots (escQ s0)) paren = true := by rw [hps]; exact hpar
      refine ⟨sumToks (gs ++ [cur']), none, ⟨?_, ?_, fun _ => rfl⟩, Or.inl rfl, ?_, fun h => absurd rfl h⟩
      · simpa [hpar] using hinvF
      · simp only [hpar, text_raw, htext]
        have : TS ++ sumToks (gs ++ [cur']) = TS1 ++ closed gs ++ [Tok.str cur'] := by
          rw [hTS1, ← closed_sum]; simp [hpar', List.append_assoc]
        rw [this]
        simpa [List.append_assoc] using hws
      · have := StrSplit.sum (b := escQ s0) (gs ++ [cur']) false (by simp) (by simpa using hsum)
          (by intro g hg; rcases List.mem_append.mp hg with hg | hg
              · exact hgs g hg
              · simp at hg; subst hg; exact hc')
        simpa using this

/-! ### fragment sequences with string literals -/

inductive SeqEl
  | af (a : AFrag)
  | strF (s : List Char) (paren : Bool)

def SeqEl.frag : SeqEl → Frag
  | .af a => a.frag
  | .strF s p => .str s p

/-- the tokens the parser expects: a string literal is one token -/
def SeqEl.toks : SeqEl → List Tok
  | .af a => a.toks
  | .strF s _ => [.str (escQ s)]

def SeqEl.safe (slt : Option Tok) : SeqEl → Prop
  | .af a => bodySafe (a.prev slt) a.body
  | .strF _ p => p = true → ∀ t0, slt = some t0 → adjOK t0 .lp = true

def SeqEl.flow (slt : Option Tok) : SeqEl → Option Tok
  | .af a => a.flow slt
  | .strF s _ => some (.str (escQ s))

def SafeSeqS : Option Tok → List SeqEl → Prop
  | _, [] => True
  | slt, x :: xs => x.safe slt ∧ SafeSeqS (x.flow slt) xs

def flowSeqS : Option Tok → List SeqEl → Option Tok
  | slt, [] => slt
  | slt, x :: xs => flowSeqS (x.flow slt) xs

theorem safeSeqS_append (as bs : List SeqEl) : ∀ slt, SafeSeqS slt (as ++ bs) ↔ SafeSeqS slt as ∧ SafeSeqS (flowSeqS slt as) bs := by
  induction as with
  | nil => intro slt; simp [SafeSeqS, flowSeqS]
  | cons a as ih => intro slt; simp [SafeSeqS, flowSeqS, ih, and_assoc]

theorem flowSeqS_append (as bs : List SeqEl) : ∀ slt, flowSeqS slt (as ++ bs) = flowSeqS (flowSeqS slt as) bs := by
  induction as with
  | nil => intro slt; rfl
  | cons a as ih => intro slt; simp [flowSeqS, ih]

theorem safeSeqS_map (as : List AFrag) : ∀ slt, SafeSeqS slt (as.map SeqEl.af) ↔ SafeSeq slt as := by
  induction as with
  | nil => intro slt; simp [SafeSeqS, SafeSeq]
  | cons a as ih => intro slt; simp [SafeSeqS, SafeSeq, SeqEl.safe, SeqEl.flow, ih]

theorem flowSeqS_map (as : List AFrag) : ∀ slt, flowSeqS slt (as.map SeqEl.af) = flowSeq slt as := by
  induction as with
  | nil => intro slt; rfl
  | cons a as ih => intro slt; simp [flowSeqS, flowSeq, SeqEl.flow, ih]

/-- the tokens read (`ts`) against the tokens the parser expects: equal, except that a string literal may have been read as a
split rendering of it -/
inductive Joined : List Tok → List Tok → Prop
  | nil : Joined [] []
  | tok (t : Tok) {a b : List Tok} : Joined a b → Joined (t :: a) (t :: b)
  | str {x : List Tok} {b : List Char} {a c : List Tok} : StrSplit b x → Joined a c → Joined (x ++ a) (.str b :: c)

theorem Joined.refl : ∀ ts : List Tok, Joined ts ts
  | [] => .nil
  | t :: ts => .tok t (Joined.refl ts)

theorem Joined.append {a b c d : List Tok} (h1 : Joined a b) (h2 : Joined c d) : Joined (a ++ c) (b ++ d) := by
  induction h1 with
  | nil => simpa using h2
  | tok t _ ih => exact .tok t ih
  | str hs _ ih => rw [List.append_assoc]; exact .str hs ih

/-- Part I with string literals -/
theorem K_runS (xs : List SeqEl) : ∀ (st : PState) (TS : List Tok) (lt slt : Option Tok), K st TS lt → (lt = none ∨ lt = slt) →
    SafeSeqS slt xs →
    ∃ ts lt', K (run st (xs.map SeqEl.frag)) (TS ++ ts) lt' ∧ (lt' = none ∨ lt' = flowSeqS slt xs) ∧ Joined ts (xs.flatMap SeqEl.toks) := by
  induction xs with
  | nil => intro st TS lt slt hK hr _; exact ⟨[], lt, by simpa [run] using hK, hr, .nil⟩
  | cons x xs ih =>
    intro st TS lt slt hK hr hs
    cases x with
    | af a =>
      obtain ⟨lt1, hK1, hr1⟩ := K_step st TS lt slt a hK hr hs.1
      obtain ⟨ts2, lt2, hK2, hr2, hj⟩ := ih (step st a.frag) (TS ++ a.toks) lt1 (a.flow slt) hK1 hr1 hs.2
      refine ⟨a.toks ++ ts2, lt2, ?_, hr2, ?_⟩
      · simpa [run, SeqEl.frag, List.append_assoc] using hK2
      · simpa [SeqEl.toks] using (Joined.refl a.toks).append hj
    | strF s p =>
      obtain ⟨ts1, lt1, hK1, hr1, hsp, _⟩ := K_str st TS lt slt s p hK hr hs.1
      obtain ⟨ts2, lt2, hK2, hr2, hj⟩ := ih (breakLongStr st s p) (TS ++ ts1) lt1 (some (.str (escQ s))) hK1 hr1 hs.2
      refine ⟨ts1 ++ ts2, lt2, ?_, hr2, ?_⟩
      · simpa [run, SeqEl.frag, step, List.append_assoc] using hK2
      · have := Joined.str (a := ts2) (c := xs.flatMap SeqEl.toks) hsp hj
        simpa [SeqEl.toks] using this

def sW (body : List (Tok × Nat)) (lead : Nat := 0) : SeqEl := .af (aW body lead)
def sR (body : List (Tok × Nat)) (lead : Nat := 0) : SeqEl := .af (aR body lead)
theorem frag_sW (b : List (Tok × Nat)) (l : Nat) : (sW b l).frag = (aW b l).frag := rfl
theorem frag_sR (b : List (Tok × Nat)) (l : Nat) : (sR b l).frag = (aR b l).frag := rfl
theorem toks_sW (b : List (Tok × Nat)) (l : Nat) : (sW b l).toks = b.map (·.1) := rfl
theorem toks_sR (b : List (Tok × Nat)) (l : Nat) : (sR b l).toks = b.map (·.1) := rfl

mutual
/-- `exprFrags Shared.clean` annotated, string literals as `breakLongStr` fragments -/
def annotS : Expr → Bool → Option BinOp → List SeqEl
  | .lit (.str s), paren, prev => [.strF s (paren && prev != some .plus && ExpPrec.splitLiteralParen)]
  | .lit l, _, _ => [sW ((litToks l).map fun t => (t, 0))]
  | .ident s, _, _ => [sW [(.id s, 0)]]
  | .bin o a b, paren, prev =>
    (if binParen o paren prev then [sW [(.lp, 1)]] else [])
      ++ annotS a true (some o) ++ [sR [] 1, sW [(.op o, 0)], sW [] 1] ++ annotS b true (rprev o)
      ++ (if binParen o paren prev then [sR [(.rp, 0)] 1] else [])
  | .neg a, paren, _ =>
    (if paren then [sW [(.lp, 1)]] else []) ++ [sW [(.op .minus, 0)]] ++ annotS a true none ++ (if paren then [sR [(.rp, 0)] 1] else [])
  | .not a, paren, _ =>
    (if paren then [sW [(.lp, 1)]] else []) ++ [sW [(.not, 1)]] ++ annotS a true none ++ (if paren then [sR [(.rp, 0)] 1] else [])
  | .dot a f, _, _ => annotS a true none ++ [sW [(.dot, 0)], sW [(.id f, 0)]]
  | .group a f, _, _ => annotS a true none ++ [sW [(.bslash, 0)], sW [(.id f, 0)]]
  | .index a i, _, _ => annotS a true none ++ [sW [(.lb, 0)]] ++ annotS i (indexParen i) none ++ [sR [(.rb, 0)]]
  | .range a i j, _, _ =>
    annotS a true none ++ [sW [(.lb, 0)]] ++ annotS i (indexParen i) none ++ [sW [(.colon, 1)] 1] ++ annotS j (indexParen j) none ++ [sR [(.rb, 0)]]
  | .query v s c, _, _ =>
    [sW [(.kw "QUERY", 1), (.lp, 1), (.id v, 1), (.allIn, 1)]] ++ annotS s true none ++ [sW [(.bar, 1)] 1] ++ annotS c true none ++ [sR [(.rp, 0)] 1]
  | .call f args, _, _ => [sW [(.id f, 0), (.lp, 1)]] ++ argAS args true ++ [sR [(.rp, 0)] 1]
  | .aggr items, _, _ => [sW [(.lb, 0)]] ++ itemAS items true ++ [sR [(.rb, 0)]]
  | .nil, _, _ => []
  | .cons _ _, _, _ => []
  | .rep _ _ _, _, _ => []
def argAS : Expr → Bool → List SeqEl
  | .cons e t, first => (if first then [] else [sR [(.comma, 1)]]) ++ annotS e false none ++ argAS t false
  | _, _ => []
def itemAS : Expr → Bool → List SeqEl
  | .cons e t, first => (if first then [] else [sR [(.comma, 1)]]) ++ annotS e false none ++ itemAS t false
  | .rep e c t, first =>
    (if first then [] else [sR [(.comma, 1)]]) ++ annotS e false none ++ [sR [(.colon, 1)] 1]
      ++ (if ExpPrec.repeatOverwritesCountType then [sW [(countTok c, 0)]] else annotS c false none)
      ++ itemAS t false
  | _, _ => []
end

/-- as `LitLex`, simple string literals allowed -/
def LitLexS : Lit → Prop
  | .str _ => True
  | l => LitLex l

mutual
/-- as `lexWF`, simple string literals allowed -/
def lexWFS : Expr → Prop
  | .lit l => LitLexS l
  | .ident s => TokWF (.id s)
  | .bin _ a b => lexWFS a ∧ lexWFS b
  | .neg a | .not a => lexWFS a
  | .dot a f => lexWFS a ∧ TokWF (.id f) ∧ ∀ n, a ≠ .lit (.int n)
  | .group a f => lexWFS a ∧ TokWF (.id f)
  | .index a i => lexWFS a ∧ lexWFS i
  | .range a i j => lexWFS a ∧ lexWFS i ∧ lexWFS j
  | .query v s c => TokWF (.id v) ∧ lexWFS s ∧ lexWFS c
  | .call f as => TokWF (.id f) ∧ lexArgsS as
  | .aggr is => lexItemsS is
  | .nil | .cons _ _ | .rep _ _ _ => False
def lexArgsS : Expr → Prop
  | .nil => True
  | .cons e t => lexWFS e ∧ lexArgsS t
  | _ => False
def lexItemsS : Expr → Prop
  | .nil => True
  | .cons e t => lexWFS e ∧ lexItemsS t
  | .rep e c t => lexWFS e ∧ lexWFS c ∧ lexItemsS t
  | _ => False
end

/-- the annotation is the printer's fragment list and carries the printer's tokens -/
theorem annotS_eq (e : Expr) :
    (∀ p q, lexWFS e → (annotS e p q).map SeqEl.frag = exprFrags Shared.clean e p q
        ∧ (annotS e p q).flatMap SeqEl.toks = toks Shared.clean e p q)
    ∧ (∀ fst, lexArgsS e → (argAS e fst).map SeqEl.frag = argFrags Shared.clean e fst
        ∧ (argAS e fst).flatMap SeqEl.toks = argToks Shared.clean e fst)
    ∧ (∀ fst, lexItemsS e → (itemAS e fst).map SeqEl.frag = itemFrags Shared.clean e fst
        ∧ (itemAS e fst).flatMap SeqEl.toks = itemToks Shared.clean e fst) := by
  have hrep : ExpPrec.repeatOverwritesCountType = false := rfl
  induction e with
  | lit l =>
    refine ⟨?_, fun _ h => absurd h (by simp [lexArgsS]), fun _ h => absurd h (by simp [lexItemsS])⟩
    intro p q h
    simp only [lexWFS] at h
    by_cases hs : ∃ s, l = .str s
    · obtain ⟨s, rfl⟩ := hs
      simp [annotS, exprFrags, toks, litFrag, litToks, SeqEl.frag, SeqEl.toks]
    · have hl : LitLex l := by cases l <;> first | exact h | exact absurd ⟨_, rfl⟩ hs
      have ha : annotS (.lit l) p q = (annot (.lit l) p q).map SeqEl.af := by
        cases l <;> first | rfl | exact absurd ⟨_, rfl⟩ hs
      obtain ⟨e1, e2⟩ := (annot_eq (.lit l)).1 p q (by simpa [lexWF] using hl)
      rw [ha]
      refine ⟨?_, ?_⟩
      · rw [List.map_map, ← e1]; rfl
      · rw [← e2, List.flatMap_map]; rfl
  | ident s =>
    refine ⟨?_, fun _ h => absurd h (by simp [lexArgsS]), fun _ h => absurd h (by simp [lexItemsS])⟩
    intro p q _
    simp [annotS, exprFrags, toks, frag_id, toks_sW, frag_sW, toks_aW]
  | bin o a b iha ihb =>
    refine ⟨?_, fun _ h => absurd h (by simp [lexArgsS]), fun _ h => absurd h (by simp [lexItemsS])⟩
    intro p q h
    simp only [lexWFS] at h
    obtain ⟨a1, a2⟩ := iha.1 true (some o) h.1
    obtain ⟨b1, b2⟩ := ihb.1 true (rprev o) h.2
    by_cases hp : binParen o p q = true <;>
      simp [annotS, exprFrags, toks, hp, a1, a2, b1, b2, padded_all, frag_lp, frag_rp, frag_sp_r, frag_sp_w, frag_op, toks_sW, toks_sR, frag_sW, frag_sR, toks_aW, toks_sR, frag_sR, toks_aR]
  | neg a iha =>
    refine ⟨?_, fun _ h => absurd h (by simp [lexArgsS]), fun _ h => absurd h (by simp [lexItemsS])⟩
    intro p q h
    simp only [lexWFS] at h
    obtain ⟨a1, a2⟩ := iha.1 true none h
    have hm : BinOp.minus.text = "-" := by decide
    cases p <;> simp [annotS, exprFrags, toks, a1, a2, frag_lp, frag_rp, frag_minus, toks_sW, toks_sR, frag_sW, frag_sR, toks_aW, toks_sR, frag_sR, toks_aR]
  | not a iha =>
    refine ⟨?_, fun _ h => absurd h (by simp [lexArgsS]), fun _ h => absurd h (by simp [lexItemsS])⟩
    intro p q h
    simp only [lexWFS] at h
    obtain ⟨a1, a2⟩ := iha.1 true none h
    cases p <;> simp [annotS, exprFrags, toks, a1, a2, frag_lp, frag_rp, frag_not, toks_sW, toks_sR, frag_sW, frag_sR, toks_aW, toks_sR, frag_sR, toks_aR]
  | dot a f iha =>
    refine ⟨?_, fun _ h => absurd h (by simp [lexArgsS]), fun _ h => absurd h (by simp [lexItemsS])⟩
    intro p q h
    simp only [lexWFS] at h
    obtain ⟨a1, a2⟩ := iha.1 true none h.1
    simp [annotS, exprFrags, toks, a1, a2, frag_dot, frag_id, toks_sW, frag_sW, toks_aW]
  | group a f iha =>
    refine ⟨?_, fun _ h => absurd h (by simp [lexArgsS]), fun _ h => absurd h (by simp [lexItemsS])⟩
    intro p q h
    simp only [lexWFS] at h
    obtain ⟨a1, a2⟩ := iha.1 true none h.1
    simp [annotS, exprFrags, toks, a1, a2, frag_bslash, frag_id, toks_sW, frag_sW, toks_aW]
  | index a i iha ihi =>
    refine ⟨?_, fun _ h => absurd h (by simp [lexArgsS]), fun _ h => absurd h (by simp [lexItemsS])⟩
    intro p q h
    simp only [lexWFS] at h
    obtain ⟨a1, a2⟩ := iha.1 true none h.1
    obtain ⟨i1, i2⟩ := ihi.1 (indexParen i) none h.2
    simp [annotS, exprFrags, toks, a1, a2, i1, i2, frag_lb, frag_rb, toks_sW, toks_sR, frag_sW, frag_sR, toks_aW, toks_sR, frag_sR, toks_aR]
  | range a i j iha ihi ihj =>
    refine ⟨?_, fun _ h => absurd h (by simp [lexArgsS]), fun _ h => absurd h (by simp [lexItemsS])⟩
    intro p q h
    simp only [lexWFS] at h
    obtain ⟨a1, a2⟩ := iha.1 true none h.1
    obtain ⟨i1, i2⟩ := ihi.1 (indexParen i) none h.2.1
    obtain ⟨j1, j2⟩ := ihj.1 (indexParen j) none h.2.2
    simp [annotS, exprFrags, toks, a1, a2, i1, i2, j1, j2, frag_lb, frag_rb, frag_colon_w, toks_sW, toks_sR, frag_sW, frag_sR, toks_aW, toks_sR, frag_sR, toks_aR]
  | query v s c ihs ihc =>
    refine ⟨?_, fun _ h => absurd h (by simp [lexArgsS]), fun _ h => absurd h (by simp [lexItemsS])⟩
    intro p q h
    simp only [lexWFS] at h
    obtain ⟨s1, s2⟩ := ihs.1 true none h.2.1
    obtain ⟨c1, c2⟩ := ihc.1 true none h.2.2
    simp [annotS, exprFrags, toks, s1, s2, c1, c2, frag_query, frag_bar, frag_rp, toks_sW, toks_sR, frag_sW, frag_sR, toks_aW, toks_sR, frag_sR, toks_aR]
  | call f args ih =>
    refine ⟨?_, fun _ h => absurd h (by simp [lexArgsS]), fun _ h => absurd h (by simp [lexItemsS])⟩
    intro p q h
    simp only [lexWFS] at h
    obtain ⟨s1, s2⟩ := ih.2.1 true h.2
    simp [annotS, exprFrags, toks, s1, s2, frag_call, frag_rp, toks_sW, toks_sR, frag_sW, frag_sR, toks_aW, toks_sR, frag_sR, toks_aR]
  | aggr items ih =>
    refine ⟨?_, fun _ h => absurd h (by simp [lexArgsS]), fun _ h => absurd h (by simp [lexItemsS])⟩
    intro p q h
    simp only [lexWFS] at h
    obtain ⟨s1, s2⟩ := ih.2.2 true h
    simp [annotS, exprFrags, toks, s1, s2, frag_lb, frag_rb, toks_sW, toks_sR, frag_sW, frag_sR, toks_aW, toks_sR, frag_sR, toks_aR]
  | nil =>
    refine ⟨fun _ _ h => absurd h (by simp [lexWFS]), ?_, ?_⟩
    · intro fst _; simp [argAS, argFrags, argToks]
    · intro fst _; simp [itemAS, itemFrags, itemToks]
  | cons e t ihe iht =>
    refine ⟨fun _ _ h => absurd h (by simp [lexWFS]), ?_, ?_⟩
    · intro fst h
      simp only [lexArgsS] at h
      obtain ⟨e1, e2⟩ := ihe.1 false none h.1
      obtain ⟨t1, t2⟩ := iht.2.1 false h.2
      cases fst <;> simp [argAS, argFrags, argToks, e1, e2, t1, t2, frag_comma, toks_sR, frag_sR, toks_aR]
    · intro fst h
      simp only [lexItemsS] at h
      obtain ⟨e1, e2⟩ := ihe.1 false none h.1
      obtain ⟨t1, t2⟩ := iht.2.2 false h.2
      cases fst <;> simp [itemAS, itemFrags, itemToks, e1, e2, t1, t2, frag_comma, toks_sR, frag_sR, toks_aR, sharedRep_clean]
  | rep e c t ihe ihc iht =>
    refine ⟨fun _ _ h => absurd h (by simp [lexWFS]), fun _ h => absurd h (by simp [lexArgsS]), ?_⟩
    intro fst h
    simp only [lexItemsS] at h
    obtain ⟨e1, e2⟩ := ihe.1 false none h.1
    obtain ⟨c1, c2⟩ := ihc.1 false none h.2.1
    obtain ⟨t1, t2⟩ := iht.2.2 false h.2.2
    cases fst <;> simp [itemAS, itemFrags, itemToks, e1, e2, c1, c2, t1, t2, frag_comma, frag_colon_r, toks_sR, frag_sR, toks_aR, sharedRep_clean, hrep]


theorem safe_allS (e : Expr) :
    (∀ p q slt, lexWFS e → Pre slt p → SafeSeqS slt (annotS e p q) ∧ Post e p q (flowSeqS slt (annotS e p q)))
    ∧ (∀ fst slt, lexArgsS e → (fst = true → slt = none) → (fst = false → EndO slt) → SafeSeqS slt (argAS e fst))
    ∧ (∀ fst slt, lexItemsS e → (fst = true → slt = some .lb) → (fst = false → EndO slt) →
        SafeSeqS slt (itemAS e fst) ∧ EndO (flowSeqS slt (itemAS e fst))) := by
  have hrep : ExpPrec.repeatOverwritesCountType = false := rfl
  have lpm : ∀ r, sp .lp ≠ '-' :: r := no_minus_of _ rfl
  have lbm : ∀ r, sp .lb ≠ '-' :: r := no_minus_of _ rfl
  induction e with
  | lit l =>
    refine ⟨?_, fun _ _ h => absurd h (by simp [lexArgsS]), fun _ _ h => absurd h (by simp [lexItemsS])⟩
    intro p q slt h hpre
    simp only [lexWFS] at h
    by_cases hs : ∃ s, l = .str s
    · obtain ⟨s, rfl⟩ := hs
      simp only [annotS, SafeSeqS, flowSeqS, SeqEl.safe, SeqEl.flow, and_true]
      refine ⟨?_, post_some (.str (escQ s)) rfl (fun _ n hn => by cases hn)⟩
      intro _ t0 h0
      exact pre_adj hpre .lp (fun _ => no_minus_of _ rfl) t0 h0
    · have hl : LitLex l := by cases l <;> first | exact h | exact absurd ⟨_, rfl⟩ hs
      have := safe_lit l hl p q slt hpre
      have ha : annotS (.lit l) p q = (annot (.lit l) p q).map SeqEl.af := by
        cases l <;> first | rfl | exact absurd ⟨_, rfl⟩ hs
      rw [ha, safeSeqS_map, flowSeqS_map]
      exact this
  | ident s =>
    refine ⟨?_, fun _ _ h => absurd h (by simp [lexArgsS]), fun _ _ h => absurd h (by simp [lexItemsS])⟩
    intro p q slt h hpre
    simp only [lexWFS] at h
    simp only [annotS, SafeSeqS, flowSeqS, SeqEl.safe, SeqEl.flow, sW, sR, AFrag.prev, AFrag.flow, aW, bodySafe, endAfter, nxt, if_true, and_true]
    exact ⟨⟨h, pre_adj hpre _ (fun _ => id_no_minus s h)⟩, post_some (.id s) rfl (fun _ n hn => by cases hn)⟩
  | bin o a b iha ihb =>
    refine ⟨?_, fun _ _ h => absurd h (by simp [lexArgsS]), fun _ _ h => absurd h (by simp [lexItemsS])⟩
    intro p q slt h hpre
    simp only [lexWFS] at h
    obtain ⟨b1, b2⟩ := ihb.1 true (rprev o) none h.2 (Or.inl rfl)
    by_cases hp : binParen o p q = true
    · obtain ⟨a1, a2⟩ := iha.1 true (some o) none h.1 (Or.inl rfl)
      simp [annotS, hp, safeSeqS_append, flowSeqS_append, SafeSeqS, flowSeqS, SeqEl.safe, SeqEl.flow, sW, sR, AFrag.prev, AFrag.flow, aW, aR, bodySafe, endAfter, nxt, wf_lp, wf_rp, wf_lb, wf_rb, wf_comma, wf_colon, wf_dot, wf_bslash, wf_bar, wf_allIn, wf_op, wf_not, wf_query, a1, b1]
      exact ⟨pre_adj hpre _ (fun _ => lpm), post_some .rp rfl (fun _ n hn => by cases hn)⟩
    · obtain ⟨a1, a2⟩ := iha.1 true (some o) slt h.1 (pre_true hpre)
      simp [annotS, hp, safeSeqS_append, flowSeqS_append, SafeSeqS, flowSeqS, SeqEl.safe, SeqEl.flow, sW, sR, AFrag.prev, AFrag.flow, aW, aR, bodySafe, endAfter, nxt, wf_lp, wf_rp, wf_lb, wf_rb, wf_comma, wf_colon, wf_dot, wf_bslash, wf_bar, wf_allIn, wf_op, wf_not, wf_query, a1, b1]
      exact ⟨b2.1, fun hi => b2.2 (by simpa [intEnd, hp] using hi)⟩
  | neg a iha =>
    refine ⟨?_, fun _ _ h => absurd h (by simp [lexArgsS]), fun _ _ h => absurd h (by simp [lexItemsS])⟩
    intro p q slt h hpre
    simp only [lexWFS] at h
    obtain ⟨a1, a2⟩ := iha.1 true none (some (.op .minus)) h (Or.inr (Or.inr ⟨rfl, rfl⟩))
    cases p with
    | true =>
      simp [annotS, safeSeqS_append, flowSeqS_append, SafeSeqS, flowSeqS, SeqEl.safe, SeqEl.flow, sW, sR, AFrag.prev, AFrag.flow, aW, aR, bodySafe, endAfter, nxt, wf_lp, wf_rp, wf_lb, wf_rb, wf_comma, wf_colon, wf_dot, wf_bslash, wf_bar, wf_allIn, wf_op, wf_not, wf_query, a1]
      exact ⟨pre_adj hpre _ (fun _ => lpm), post_some .rp rfl (fun _ n hn => by cases hn)⟩
    | false =>
      simp [annotS, safeSeqS_append, flowSeqS_append, SafeSeqS, flowSeqS, SeqEl.safe, SeqEl.flow, sW, sR, AFrag.prev, AFrag.flow, aW, aR, bodySafe, endAfter, nxt, wf_lp, wf_rp, wf_lb, wf_rb, wf_comma, wf_colon, wf_dot, wf_bslash, wf_bar, wf_allIn, wf_op, wf_not, wf_query, a1]
      refine ⟨pre_adj hpre _ (fun hh => by cases hh), a2.1, fun hi => a2.2 (by simpa [intEnd] using hi)⟩
  | not a iha =>
    refine ⟨?_, fun _ _ h => absurd h (by simp [lexArgsS]), fun _ _ h => absurd h (by simp [lexItemsS])⟩
    intro p q slt h hpre
    simp only [lexWFS] at h
    obtain ⟨a1, a2⟩ := iha.1 true none none h (Or.inl rfl)
    cases p with
    | true =>
      simp [annotS, safeSeqS_append, flowSeqS_append, SafeSeqS, flowSeqS, SeqEl.safe, SeqEl.flow, sW, sR, AFrag.prev, AFrag.flow, aW, aR, bodySafe, endAfter, nxt, wf_lp, wf_rp, wf_lb, wf_rb, wf_comma, wf_colon, wf_dot, wf_bslash, wf_bar, wf_allIn, wf_op, wf_not, wf_query, a1]
      exact ⟨pre_adj hpre _ (fun _ => lpm), post_some .rp rfl (fun _ n hn => by cases hn)⟩
    | false =>
      simp [annotS, safeSeqS_append, flowSeqS_append, SafeSeqS, flowSeqS, SeqEl.safe, SeqEl.flow, sW, sR, AFrag.prev, AFrag.flow, aW, aR, bodySafe, endAfter, nxt, wf_lp, wf_rp, wf_lb, wf_rb, wf_comma, wf_colon, wf_dot, wf_bslash, wf_bar, wf_allIn, wf_op, wf_not, wf_query, a1]
      refine ⟨pre_adj hpre _ (fun hh => by cases hh), a2.1, fun hi => a2.2 (by simpa [intEnd] using hi)⟩
  | dot a f iha =>
    refine ⟨?_, fun _ _ h => absurd h (by simp [lexArgsS]), fun _ _ h => absurd h (by simp [lexItemsS])⟩
    intro p q slt h hpre
    simp only [lexWFS] at h
    obtain ⟨a1, a2⟩ := iha.1 true none slt h.1 (pre_true hpre)
    have hni := a2.2 (intEnd_operand a h.2.2)
    simp [annotS, safeSeqS_append, flowSeqS_append, SafeSeqS, flowSeqS, SeqEl.safe, SeqEl.flow, sW, sR, AFrag.prev, AFrag.flow, aW, aR, bodySafe, endAfter, nxt, wf_lp, wf_rp, wf_lb, wf_rb, wf_comma, wf_colon, wf_dot, wf_bslash, wf_bar, wf_allIn, wf_op, wf_not, wf_query, a1]
    exact ⟨⟨fun t0 h0 => (adj_end t0 (a2.1 t0 h0)).2.2.2.2 (fun n hn => hni n (by rw [h0, hn])), h.2.1, adj_dot _⟩,
      post_some (.id f) rfl (fun _ n hn => by cases hn)⟩
  | group a f iha =>
    refine ⟨?_, fun _ _ h => absurd h (by simp [lexArgsS]), fun _ _ h => absurd h (by simp [lexItemsS])⟩
    intro p q slt h hpre
    simp only [lexWFS] at h
    obtain ⟨a1, a2⟩ := iha.1 true none slt h.1 (pre_true hpre)
    simp [annotS, safeSeqS_append, flowSeqS_append, SafeSeqS, flowSeqS, SeqEl.safe, SeqEl.flow, sW, sR, AFrag.prev, AFrag.flow, aW, aR, bodySafe, endAfter, nxt, wf_lp, wf_rp, wf_lb, wf_rb, wf_comma, wf_colon, wf_dot, wf_bslash, wf_bar, wf_allIn, wf_op, wf_not, wf_query, a1]
    exact ⟨⟨(endO_adj a2.1).2.2.2, h.2, adj_bslash _⟩, post_some (.id f) rfl (fun _ n hn => by cases hn)⟩
  | index a i iha ihi =>
    refine ⟨?_, fun _ _ h => absurd h (by simp [lexArgsS]), fun _ _ h => absurd h (by simp [lexItemsS])⟩
    intro p q slt h hpre
    simp only [lexWFS] at h
    obtain ⟨a1, a2⟩ := iha.1 true none slt h.1 (pre_true hpre)
    obtain ⟨i1, i2⟩ := ihi.1 (indexParen i) none (some .lb) h.2 (Or.inr (Or.inl rfl))
    simp [annotS, safeSeqS_append, flowSeqS_append, SafeSeqS, flowSeqS, SeqEl.safe, SeqEl.flow, sW, sR, AFrag.prev, AFrag.flow, aW, aR, bodySafe, endAfter, nxt, wf_lp, wf_rp, wf_lb, wf_rb, wf_comma, wf_colon, wf_dot, wf_bslash, wf_bar, wf_allIn, wf_op, wf_not, wf_query, a1, i1]
    exact ⟨⟨(endO_adj a2.1).2.2.1, (endO_adj i2.1).2.1⟩, post_some .rb rfl (fun _ n hn => by cases hn)⟩
  | range a i j iha ihi ihj =>
    refine ⟨?_, fun _ _ h => absurd h (by simp [lexArgsS]), fun _ _ h => absurd h (by simp [lexItemsS])⟩
    intro p q slt h hpre
    simp only [lexWFS] at h
    obtain ⟨a1, a2⟩ := iha.1 true none slt h.1 (pre_true hpre)
    obtain ⟨i1, i2⟩ := ihi.1 (indexParen i) none (some .lb) h.2.1 (Or.inr (Or.inl rfl))
    obtain ⟨j1, j2⟩ := ihj.1 (indexParen j) none none h.2.2 (Or.inl rfl)
    simp [annotS, safeSeqS_append, flowSeqS_append, SafeSeqS, flowSeqS, SeqEl.safe, SeqEl.flow, sW, sR, AFrag.prev, AFrag.flow, aW, aR, bodySafe, endAfter, nxt, wf_lp, wf_rp, wf_lb, wf_rb, wf_comma, wf_colon, wf_dot, wf_bslash, wf_bar, wf_allIn, wf_op, wf_not, wf_query, a1, i1, j1]
    exact ⟨⟨(endO_adj a2.1).2.2.1, (endO_adj j2.1).2.1⟩, post_some .rb rfl (fun _ n hn => by cases hn)⟩
  | query v s c ihs ihc =>
    refine ⟨?_, fun _ _ h => absurd h (by simp [lexArgsS]), fun _ _ h => absurd h (by simp [lexItemsS])⟩
    intro p q slt h hpre
    simp only [lexWFS] at h
    obtain ⟨s1, s2⟩ := ihs.1 true none none h.2.1 (Or.inl rfl)
    obtain ⟨c1, c2⟩ := ihc.1 true none none h.2.2 (Or.inl rfl)
    simp [annotS, safeSeqS_append, flowSeqS_append, SafeSeqS, flowSeqS, SeqEl.safe, SeqEl.flow, sW, sR, AFrag.prev, AFrag.flow, aW, aR, bodySafe, endAfter, nxt, wf_lp, wf_rp, wf_lb, wf_rb, wf_comma, wf_colon, wf_dot, wf_bslash, wf_bar, wf_allIn, wf_op, wf_not, wf_query, s1, c1]
    exact ⟨⟨pre_adj hpre _ (fun _ => no_minus_of _ (by decide)), h.1⟩, post_some .rp rfl (fun _ n hn => by cases hn)⟩
  | call f args ih =>
    refine ⟨?_, fun _ _ h => absurd h (by simp [lexArgsS]), fun _ _ h => absurd h (by simp [lexItemsS])⟩
    intro p q slt h hpre
    simp only [lexWFS] at h
    have s1 := ih.2.1 true none h.2 (fun _ => rfl) (fun hh => by cases hh)
    simp [annotS, safeSeqS_append, flowSeqS_append, SafeSeqS, flowSeqS, SeqEl.safe, SeqEl.flow, sW, sR, AFrag.prev, AFrag.flow, aW, aR, bodySafe, endAfter, nxt, wf_lp, wf_rp, wf_lb, wf_rb, wf_comma, wf_colon, wf_dot, wf_bslash, wf_bar, wf_allIn, wf_op, wf_not, wf_query, s1]
    exact ⟨⟨h.1, pre_adj hpre _ (fun _ => id_no_minus f h.1), adj_id_lp f⟩, post_some .rp rfl (fun _ n hn => by cases hn)⟩
  | aggr items ih =>
    refine ⟨?_, fun _ _ h => absurd h (by simp [lexArgsS]), fun _ _ h => absurd h (by simp [lexItemsS])⟩
    intro p q slt h hpre
    simp only [lexWFS] at h
    obtain ⟨s1, s2⟩ := ih.2.2 true (some .lb) h (fun _ => rfl) (fun hh => by cases hh)
    simp [annotS, safeSeqS_append, flowSeqS_append, SafeSeqS, flowSeqS, SeqEl.safe, SeqEl.flow, sW, sR, AFrag.prev, AFrag.flow, aW, aR, bodySafe, endAfter, nxt, wf_lp, wf_rp, wf_lb, wf_rb, wf_comma, wf_colon, wf_dot, wf_bslash, wf_bar, wf_allIn, wf_op, wf_not, wf_query, s1]
    exact ⟨⟨pre_adj hpre _ (fun _ => lbm), (endO_adj s2).2.1⟩, post_some .rb rfl (fun _ n hn => by cases hn)⟩
  | nil =>
    refine ⟨fun _ _ _ h => absurd h (by simp [lexWFS]), ?_, ?_⟩
    · intro fst slt _ _ _; simp [argAS, SafeSeqS]
    · intro fst slt _ h1 h2
      simp only [itemAS, SafeSeqS, flowSeqS, true_and]
      cases fst with
      | true => rw [h1 rfl]; intro t ht; cases ht; rfl
      | false => exact h2 rfl
  | cons e t ihe iht =>
    refine ⟨fun _ _ _ h => absurd h (by simp [lexWFS]), ?_, ?_⟩
    · intro fst slt h h1 h2
      simp only [lexArgsS] at h
      cases fst with
      | true =>
        obtain ⟨e1, e2⟩ := ihe.1 false none slt h.1 (Or.inl (h1 rfl))
        have t1 := iht.2.1 false _ h.2 (fun hh => by cases hh) (fun _ => e2.1)
        simp [argAS, safeSeqS_append, flowSeqS_append, SafeSeqS, flowSeqS, SeqEl.safe, SeqEl.flow, sW, sR, AFrag.prev, AFrag.flow, aW, aR, bodySafe, endAfter, nxt, wf_lp, wf_rp, wf_lb, wf_rb, wf_comma, wf_colon, wf_dot, wf_bslash, wf_bar, wf_allIn, wf_op, wf_not, wf_query, e1, t1]
      | false =>
        obtain ⟨e1, e2⟩ := ihe.1 false none none h.1 (Or.inl rfl)
        have t1 := iht.2.1 false _ h.2 (fun hh => by cases hh) (fun _ => e2.1)
        simp [argAS, safeSeqS_append, flowSeqS_append, SafeSeqS, flowSeqS, SeqEl.safe, SeqEl.flow, sW, sR, AFrag.prev, AFrag.flow, aW, aR, bodySafe, endAfter, nxt, wf_lp, wf_rp, wf_lb, wf_rb, wf_comma, wf_colon, wf_dot, wf_bslash, wf_bar, wf_allIn, wf_op, wf_not, wf_query, e1, t1]
        exact (endO_adj (h2 rfl)).1
    · intro fst slt h h1 h2
      simp only [lexItemsS] at h
      cases fst with
      | true =>
        obtain ⟨e1, e2⟩ := ihe.1 false none slt h.1 (Or.inr (Or.inl (h1 rfl)))
        obtain ⟨t1, t2⟩ := iht.2.2 false _ h.2 (fun hh => by cases hh) (fun _ => e2.1)
        simp [itemAS, safeSeqS_append, flowSeqS_append, SafeSeqS, flowSeqS, SeqEl.safe, SeqEl.flow, sW, sR, AFrag.prev, AFrag.flow, aW, aR, bodySafe, endAfter, nxt, wf_lp, wf_rp, wf_lb, wf_rb, wf_comma, wf_colon, wf_dot, wf_bslash, wf_bar, wf_allIn, wf_op, wf_not, wf_query, e1, t1]
        exact t2
      | false =>
        obtain ⟨e1, e2⟩ := ihe.1 false none none h.1 (Or.inl rfl)
        obtain ⟨t1, t2⟩ := iht.2.2 false _ h.2 (fun hh => by cases hh) (fun _ => e2.1)
        simp [itemAS, safeSeqS_append, flowSeqS_append, SafeSeqS, flowSeqS, SeqEl.safe, SeqEl.flow, sW, sR, AFrag.prev, AFrag.flow, aW, aR, bodySafe, endAfter, nxt, wf_lp, wf_rp, wf_lb, wf_rb, wf_comma, wf_colon, wf_dot, wf_bslash, wf_bar, wf_allIn, wf_op, wf_not, wf_query, e1, t1]
        exact ⟨(endO_adj (h2 rfl)).1, t2⟩
  | rep e c t ihe ihc iht =>
    refine ⟨fun _ _ _ h => absurd h (by simp [lexWFS]), fun _ _ h => absurd h (by simp [lexArgsS]), ?_⟩
    intro fst slt h h1 h2
    simp only [lexItemsS] at h
    obtain ⟨c1, c2⟩ := ihc.1 false none none h.2.1 (Or.inl rfl)
    obtain ⟨t1, t2⟩ := iht.2.2 false _ h.2.2 (fun hh => by cases hh) (fun _ => c2.1)
    cases fst with
    | true =>
      obtain ⟨e1, e2⟩ := ihe.1 false none slt h.1 (Or.inr (Or.inl (h1 rfl)))
      simp [itemAS, hrep, safeSeqS_append, flowSeqS_append, SafeSeqS, flowSeqS, SeqEl.safe, SeqEl.flow, sW, sR, AFrag.prev, AFrag.flow, aW, aR, bodySafe, endAfter, nxt, wf_lp, wf_rp, wf_lb, wf_rb, wf_comma, wf_colon, wf_dot, wf_bslash, wf_bar, wf_allIn, wf_op, wf_not, wf_query, e1, c1, t1]
      exact t2
    | false =>
      obtain ⟨e1, e2⟩ := ihe.1 false none none h.1 (Or.inl rfl)
      simp [itemAS, hrep, safeSeqS_append, flowSeqS_append, SafeSeqS, flowSeqS, SeqEl.safe, SeqEl.flow, sW, sR, AFrag.prev, AFrag.flow, aW, aR, bodySafe, endAfter, nxt, wf_lp, wf_rp, wf_lb, wf_rb, wf_comma, wf_colon, wf_dot, wf_bslash, wf_bar, wf_allIn, wf_op, wf_not, wf_query, e1, c1, t1]
      exact ⟨(endO_adj (h2 rfl)).1, t2⟩


theorem litFrag_respellS (l : Lit) (h : LitLexS (respellLit l)) (b : Bool) : litFrag b (respellLit l) = litFrag b l := by
  cases l with
  | real g => simp only [respellLit, LitLexS, LitLex] at h; simp [respellLit, litFrag, h.2]
  | _ => rfl

/-- the fragments of an expression depend on its real literals only through their printed spelling -/
theorem frags_respellS (e : Expr) :
    (∀ p q, lexWFS (respell e) → exprFrags Shared.clean (respell e) p q = exprFrags Shared.clean e p q)
    ∧ (∀ fst, lexArgsS (respell e) → argFrags Shared.clean (respell e) fst = argFrags Shared.clean e fst)
    ∧ (∀ fst, lexItemsS (respell e) → itemFrags Shared.clean (respell e) fst = itemFrags Shared.clean e fst) := by
  have hrep : ExpPrec.repeatOverwritesCountType = false := rfl
  induction e with
  | lit l =>
    refine ⟨fun p q h => ?_, fun _ _ => rfl, fun _ _ => rfl⟩
    simp only [respell, lexWFS] at h
    simp [respell, exprFrags, litFrag_respellS l h]
  | ident s => exact ⟨fun _ _ _ => rfl, fun _ _ => rfl, fun _ _ => rfl⟩
  | bin o a b iha ihb =>
    refine ⟨fun p q h => ?_, fun _ _ => rfl, fun _ _ => rfl⟩
    simp only [respell, lexWFS] at h
    simp [respell, exprFrags, iha.1 _ _ h.1, ihb.1 _ _ h.2]
  | neg a iha =>
    refine ⟨fun p q h => ?_, fun _ _ => rfl, fun _ _ => rfl⟩
    simp only [respell, lexWFS] at h
    simp [respell, exprFrags, iha.1 _ _ h]
  | not a iha =>
    refine ⟨fun p q h => ?_, fun _ _ => rfl, fun _ _ => rfl⟩
    simp only [respell, lexWFS] at h
    simp [respell, exprFrags, iha.1 _ _ h]
  | dot a f iha =>
    refine ⟨fun p q h => ?_, fun _ _ => rfl, fun _ _ => rfl⟩
    simp only [respell, lexWFS] at h
    simp [respell, exprFrags, iha.1 _ _ h.1]
  | group a f iha =>
    refine ⟨fun p q h => ?_, fun _ _ => rfl, fun _ _ => rfl⟩
    simp only [respell, lexWFS] at h
    simp [respell, exprFrags, iha.1 _ _ h.1]
  | index a i iha ihi =>
    refine ⟨fun p q h => ?_, fun _ _ => rfl, fun _ _ => rfl⟩
    simp only [respell, lexWFS] at h
    have := ihi.1 (indexParen i) none h.2
    simp [respell, exprFrags, iha.1 _ _ h.1, indexParen_respell, this]
  | range a i j iha ihi ihj =>
    refine ⟨fun p q h => ?_, fun _ _ => rfl, fun _ _ => rfl⟩
    simp only [respell, lexWFS] at h
    have h1 := ihi.1 (indexParen i) none h.2.1
    have h2 := ihj.1 (indexParen j) none h.2.2
    simp [respell, exprFrags, iha.1 _ _ h.1, indexParen_respell, h1, h2]
  | query v s c ihs ihc =>
    refine ⟨fun p q h => ?_, fun _ _ => rfl, fun _ _ => rfl⟩
    simp only [respell, lexWFS] at h
    simp [respell, exprFrags, ihs.1 _ _ h.2.1, ihc.1 _ _ h.2.2]
  | call f as ih =>
    refine ⟨fun p q h => ?_, fun _ _ => rfl, fun _ _ => rfl⟩
    simp only [respell, lexWFS] at h
    simp [respell, exprFrags, ih.2.1 _ h.2]
  | aggr is ih =>
    refine ⟨fun p q h => ?_, fun _ _ => rfl, fun _ _ => rfl⟩
    simp only [respell, lexWFS] at h
    simp [respell, exprFrags, ih.2.2 _ h]
  | nil => exact ⟨fun _ _ _ => rfl, fun _ _ => rfl, fun _ _ => rfl⟩
  | cons e t ihe iht =>
    refine ⟨fun _ _ _ => rfl, fun fst h => ?_, fun fst h => ?_⟩
    · simp only [respell, lexArgsS] at h
      simp [respell, argFrags, ihe.1 _ _ h.1, iht.2.1 _ h.2]
    · simp only [respell, lexItemsS] at h
      simp [respell, itemFrags, ihe.1 _ _ h.1, iht.2.2 _ h.2, sharedRep_clean]
  | rep e c t ihe ihc iht =>
    refine ⟨fun _ _ _ => rfl, fun _ _ => rfl, fun fst h => ?_⟩
    simp only [respell, lexItemsS] at h
    simp [respell, itemFrags, ihe.1 _ _ h.1, ihc.1 _ _ h.2.1, iht.2.2 _ h.2.2, sharedRep_clean, hrep]


/-! ### the prediction `literalSplits` (repair C07-7) is sound: where the printer leaves out the parentheses, the literal is whole -/

theorem afterNl_none (s : List Char) (h : '\n' ∉ s) : afterNl s = none := by
  induction s with
  | nil => rfl
  | cons c r ih =>
    have hc : c ≠ '\n' := fun hh => h (by simp [hh])
    have hr : '\n' ∉ r := fun hh => h (List.mem_cons_of_mem _ hh)
    simp [afterNl, ih hr, hc]

theorem raw_curpos (st : PState) (s : List Char) (h : '\n' ∉ s) : (raw st s).curpos = st.curpos + s.length := by
  simp [raw, emit, advance, afterNl_none s h]

theorem raw_linelen (st : PState) (s : List Char) : (raw st s).linelen = st.linelen := by simp [raw, emit]
theorem raw_spaceLast_nonempty (st : PState) (s : List Char) : (raw st s).indent2 = st.indent2 := by simp [raw, emit]

theorem afterNl_breakSepFirst (n : Nat) : afterNl (breakSepFirst n) = some (n + 1) := by
  have h1 : afterNl (List.replicate n ' ' ++ ['\'']) = none := afterNl_none _ (by simp)
  simp [breakSepFirst, newlinePiece, afterNl, h1]

/-- pieces after the first: if the prediction says "no split", `breakPieces` inserts no separator -/
theorem literalSplits_rest (st0 : PState) (sl : Bool) : ∀ (ps : List (List Char)) (st : PState),
    st.indent2 = st0.indent2 → st.linelen = st0.linelen → (∀ p ∈ ps, '\n' ∉ p) →
    literalSplits st0 ps st.curpos sl false = false → (breakPieces st ps false).text = st.text ++ ps.flatten := by
  intro ps
  induction ps with
  | nil => intro st _ _ _ _; simp [breakPieces]
  | cons p ps ih =>
    intro st hi hl hnl h
    have hp : '\n' ∉ p := hnl p (by simp)
    simp only [literalSplits] at h
    by_cases hc : (decide (st.curpos > st0.indent2) && decide (st.curpos + p.length > st0.linelen)) = true
    · simp [hc] at h
    · simp only [hc, Bool.false_eq_true, if_false] at h
      have hsb : shouldBreak st p.length = false := by
        simp only [shouldBreak, hi, hl]; simpa using hc
      have hmb : maybeBreak st p.length false = st := by simp [maybeBreak, hsb]
      have := ih (raw st p) (by simp [raw_indent2, hi]) (by simp [raw_linelen, hl]) (fun q hq => hnl q (List.mem_cons_of_mem _ hq))
        (by rw [raw_curpos st p hp]; exact h)
      simp only [breakPieces, hmb, this, text_raw, List.flatten_cons, List.append_assoc]

/-- all pieces: if the prediction from the current state says "no split", the literal is written in one piece (after at most a
line break or a blank) -/
theorem literalSplits_first (st : PState) (p : List Char) (ps : List (List Char)) (hnl : ∀ q ∈ p :: ps, '\n' ∉ q)
    (h : literalSplits st (p :: ps) st.curpos st.spaceLast true = false) :
    ∃ W, W.all isWsC = true ∧ (breakPieces st (p :: ps) true).text = st.text ++ W ++ ['\''] ++ (p :: ps).flatten := by
  have hp : '\n' ∉ p := hnl p (by simp)
  have hps : ∀ q ∈ ps, '\n' ∉ q := fun q hq => hnl q (List.mem_cons_of_mem _ hq)
  simp only [literalSplits] at h
  by_cases hc : (decide (st.curpos > st.indent2) && decide (st.curpos + p.length > st.linelen)) = true
  · simp only [hc, if_true] at h
    have hsb : shouldBreak st p.length = true := by simpa [shouldBreak] using hc
    have hmb : maybeBreak st p.length true = raw st (breakSepFirst st.indent2) := by simp [maybeBreak, hsb]
    have hcur : (raw (raw st (breakSepFirst st.indent2)) p).curpos = st.indent2 + 2 + p.length := by
      rw [raw_curpos _ p hp]
      simp [raw, emit, advance, afterNl_breakSepFirst]
    have := literalSplits_rest st st.spaceLast ps (raw (raw st (breakSepFirst st.indent2)) p) (by simp [raw_indent2])
      (by simp [raw_linelen]) hps (by rw [hcur]; exact h)
    refine ⟨newlinePiece st.indent2, newlinePiece_ws _, ?_⟩
    simp only [breakPieces, hmb]
    rw [this]
    simp [text_raw, breakSepFirst, List.append_assoc]
  · simp only [hc, Bool.false_eq_true, if_false, if_true] at h
    have hsb : shouldBreak st p.length = false := by simp only [shouldBreak]; simpa using hc
    by_cases hsl : st.spaceLast = true
    · have hmb : maybeBreak st p.length true = raw st ['\''] := by simp [maybeBreak, hsb, hsl]
      have hcur : (raw (raw st ['\'']) p).curpos = st.curpos + 1 + p.length := by
        rw [raw_curpos _ p hp, raw_curpos _ _ (by simp)]; simp
      have := literalSplits_rest st st.spaceLast ps (raw (raw st ['\'']) p) (by simp [raw_indent2]) (by simp [raw_linelen]) hps
        (by rw [hcur]; simpa [hsl] using h)
      refine ⟨[], rfl, ?_⟩
      simp only [breakPieces, hmb]
      rw [this]
      simp [text_raw, List.append_assoc]
    · have hmb : maybeBreak st p.length true = raw st [' ', '\''] := by simp [maybeBreak, hsb, hsl]
      have hcur : (raw (raw st [' ', '\'']) p).curpos = st.curpos + 2 + p.length := by
        rw [raw_curpos _ p hp, raw_curpos _ _ (by simp)]; simp
      have := literalSplits_rest st st.spaceLast ps (raw (raw st [' ', '\'']) p) (by simp [raw_indent2]) (by simp [raw_linelen]) hps
        (by rw [hcur]; simpa [hsl] using h)
      refine ⟨[' '], by decide, ?_⟩
      simp only [breakPieces, hmb]
      rw [this]
      simp [text_raw, List.append_assoc]

theorem mem_escQ (c : Char) (s : List Char) (h : c ∈ escQ s) : c ∈ s ∨ c = '\'' := by
  simp only [escQ] at h
  split at h
  · simp only [List.mem_flatMap] at h
    obtain ⟨x, hx, hc⟩ := h
    by_cases hq : x = '\''
    · simp [hq] at hc; exact Or.inr hc
    · simp [hq] at hc; subst hc; exact Or.inl hx
  · exact Or.inl h

theorem pieces_no_newline (s : List Char) (hnl : '\n' ∉ s) : ∀ q ∈ splitDots (escQ s), '\n' ∉ q := by
  intro q hq hc
  have : '\n' ∈ (splitDots (escQ s)).flatten := List.mem_flatten.mpr ⟨q, hq, hc⟩
  rw [C07_splitDots_flatten] at this
  rcases mem_escQ _ _ this with h | h
  · exact hnl h
  · cases h

/-- in operand position (`paren = true`): either the literal is written whole — `'…'` after at most a blank or a line break — or
`breakLongStr` has decided to parenthesise (`splitParen`); an unparenthesised `'a.' + 'b'` cannot arise there -/
theorem operand_literal_whole_or_paren (st : PState) (s : List Char) (hnl : '\n' ∉ s) :
    (∃ W tail, W.all isWsC = true ∧ (tail = [] ∨ tail = [' ']) ∧
        (breakLongStr st s true).text = st.text ++ W ++ ['\''] ++ escQ s ++ ['\''] ++ tail)
    ∨ splitParen st (splitDots (escQ s)) true = true := by
  by_cases hpar : splitParen st (splitDots (escQ s)) true = true
  · exact Or.inr hpar
  · left
    unfold breakLongStr
    simp only []
    split
    · by_cases h : st.spaceLast = true
      · exact ⟨[], [], rfl, Or.inl rfl, by simp [text_raw, h]⟩
      · exact ⟨[' '], [], by decide, Or.inl rfl, by simp [text_raw, h]⟩
    · rename_i hlong
      obtain ⟨p1, ps', hps⟩ : ∃ p1 ps', splitDots (escQ s) = p1 :: ps' := by
        cases hp : splitDots (escQ s) with
        | nil => have := splitDots_eq_nil _ hp; simp [this] at hlong
        | cons p1 ps' => exact ⟨p1, ps', rfl⟩
      have hno := pieces_no_newline s hnl
      have hB : literalSplits st (splitDots (escQ s)) st.curpos st.spaceLast true = false := by
        simp only [splitParen, Bool.true_and, Bool.or_eq_true, not_or, Bool.not_eq_true] at hpar
        exact hpar.2
      rw [hps] at hB hno
      obtain ⟨W, hW, ht⟩ := literalSplits_first st p1 ps' hno hB
      have hflat : (p1 :: ps').flatten = escQ s := by rw [← hps]; exact C07_splitDots_flatten _
      refine ⟨W, [' '], hW, Or.inr rfl, ?_⟩
      simp only [hpar, Bool.false_eq_true, if_false, text_raw, hps, ht, hflat]
      simp [List.append_assoc]

end StepModel.Express

import StepModel.ComplexMarks7
/-! Tools for `tryNext`: updating one child of a list under the frame invariant; the candidates `firstCandidate` /
`nextCandidate` skip. -/
namespace StepModel.Complex.Match
open StepModel.Generated StepModel.Complex

theorem cntL_set_eq (n : Name) : ∀ (cs : List ST) (i : Nat) (ch ch' : ST), cs[i]? = some ch →
    cntL n (cs.set i ch') + cnt n ch = cntL n cs + cnt n ch'
  | [], i, _, _, h => by simp at h
  | a :: l, 0, ch, ch', h => by
    simp at h; subst h
    simp only [List.set_cons_zero, cntL_cons]; omega
  | a :: l, i + 1, ch, ch', h => by
    have h' : l[i]? = some ch := by simpa using h
    have := cntL_set_eq n l i ch ch' h'
    simp only [List.set_cons_succ, cntL_cons]; omega

theorem cnt_le_cntL (n : Name) {cs : List ST} {i : Nat} {ch : ST} (h : cs[i]? = some ch) : cnt n ch ≤ cntL n cs := by
  have := cntL_set_eq n cs i ch (.simple 0 .unknown .no) h
  have h0 : cnt n (ST.simple 0 .unknown .no) = 0 := by simp [cnt, holds]
  omega

theorem cntL_two (n : Name) : ∀ (cs : List ST) (i p : Nat) (ch c0 : ST), cs[i]? = some ch → cs[p]? = some c0 → p ≠ i →
    cnt n c0 + cnt n ch ≤ cntL n cs
  | [], i, _, _, _, h, _, _ => by simp at h
  | a :: l, 0, 0, _, _, _, _, hne => absurd rfl hne
  | a :: l, 0, p + 1, ch, c0, h, hp, _ => by
    simp at h; subst h
    have hp' : l[p]? = some c0 := by simpa using hp
    have := cnt_le_cntL n hp'
    rw [cntL_cons]; omega
  | a :: l, i + 1, 0, ch, c0, h, hp, _ => by
    simp at hp; subst hp
    have h' : l[i]? = some ch := by simpa using h
    have := cnt_le_cntL n h'
    rw [cntL_cons]; omega
  | a :: l, i + 1, p + 1, ch, c0, h, hp, hne => by
    have h' : l[i]? = some ch := by simpa using h
    have hp' : l[p]? = some c0 := by simpa using hp
    have := cntL_two n l i p ch c0 h' hp' (by omega)
    rw [cntL_cons]; omega

theorem fr_child {o : Name → Nat} {cs : List ST} {es : Ents} {i : Nat} {ch : ST} (hfr : FrL o cs es) (hch : cs[i]? = some ch) :
    Fr (fun n => o n + cntL n cs - cnt n ch) ch es := by
  refine ⟨fun n => ?_, (LocL_iff es cs).mp hfr.2 ch (List.mem_of_getElem? hch)⟩
  have := hfr.1 n
  have hle := cnt_le_cntL n hch
  show o n + cntL n cs - cnt n ch + cnt n ch = _
  omega

theorem frL_set {o : Name → Nat} {cs : List ST} {es es' : Ents} {i : Nat} {ch ch' : ST} (hfr : FrL o cs es)
    (hch : cs[i]? = some ch) (hfr' : Fr (fun n => o n + cntL n cs - cnt n ch) ch' es')
    (hsame : SameOut (fun n => o n + cntL n cs - cnt n ch) es es') :
    FrL o (cs.set i ch') es' ∧ SameOut o es es' := by
  have hilt : i < cs.length := (List.getElem?_eq_some_iff.mp hch).1
  refine ⟨⟨fun n => ?_, ?_⟩, fun n hn => hsame n ?_⟩
  · have h1 : o n + cntL n cs - cnt n ch + cnt n ch' = (if markAt es' n = Mark.no then 0 else 1) := hfr'.1 n
    have h2 := cntL_set_eq n cs i ch ch' hch
    have hle := cnt_le_cntL n hch
    omega
  · apply (LocL_iff _ _).mpr
    intro c0 hc0
    obtain ⟨p, hp⟩ := List.getElem?_of_mem hc0
    by_cases hpi : p = i
    · subst hpi
      simp [hilt] at hp
      rw [← hp]; exact hfr'.2
    · rw [List.getElem?_set_ne (fun e => hpi e.symm)] at hp
      refine Loc_congr c0 (fun n hn => hsame n ?_) ((LocL_iff es cs).mp hfr.2 c0 (List.mem_of_getElem? hp))
      have := cntL_two n cs i p ch c0 hch hp hpi
      show 0 < o n + cntL n cs - cnt n ch
      omega
  · have hle := cnt_le_cntL n hch
    show 0 < o n + cntL n cs - cnt n ch
    omega

theorem TidyL_set {cs : List ST} {i : Nat} {ch' : ST} (h : TidyL cs) (h' : Tidy ch') : TidyL (cs.set i ch') := by
  apply (TidyL_iff _).mpr
  intro c hc
  rcases List.mem_or_eq_of_mem_set hc with e | e
  · exact (TidyL_iff cs).mp h c e
  · rw [e]; exact h'

theorem KC_set {cs : List ST} {i : Nat} {ch' : ST} (h : KC cs) (h' : holds ch' = [] ∨ Kr ch'.viable) : KC (cs.set i ch') := by
  intro c hc
  rcases List.mem_or_eq_of_mem_set hc with e | e
  · exact h c e
  · rw [e]; exact h'

theorem UC_set {cs : List ST} {i : Nat} {ch' : ST} (h : UC cs) (h' : ch'.viable = .unsat → holds ch' = []) : UC (cs.set i ch') := by
  intro c hc
  rcases List.mem_or_eq_of_mem_set hc with e | e
  · exact h c e
  · rw [e]; exact h'

/-- a candidate of `firstCandidate` / `nextCandidate`: a non-SIMPLE child with `viable ≥ MATCHSOME` -/
def Cand (ch : ST) : Prop := ch.isSimple = false ∧ ch.atLeastSome = true

theorem cand_iff (c : ST) : (!c.isSimple && c.atLeastSome) = true ↔ Cand c := by
  simp [Cand]

theorem firstCand_gap (cs : List ST) : ∀ (s i : Nat), firstCand cs s = some i →
    ∀ p c0, i < p → p ≤ s → cs[p]? = some c0 → ¬ Cand c0 := by
  intro s
  induction s with
  | zero => intro i _ p c0 h1 h2; omega
  | succ k ih =>
    intro i h p c0 h1 h2 hp
    unfold firstCand at h
    split at h
    · rename_i c hc
      split at h
      · cases h; omega
      · rename_i hnc
        by_cases hpk : p = k + 1
        · subst hpk; rw [hc] at hp; cases hp
          intro hcand; exact hnc ((cand_iff c0).mpr hcand)
        · exact ih i h p c0 h1 (by omega) hp
    · rename_i hc
      by_cases hpk : p = k + 1
      · subst hpk; rw [hc] at hp; cases hp
      · exact ih i h p c0 h1 (by omega) hp

theorem firstCand_none (cs : List ST) : ∀ (s : Nat), firstCand cs s = none →
    ∀ p c0, p ≤ s → cs[p]? = some c0 → ¬ Cand c0 := by
  intro s
  induction s with
  | zero =>
    intro h p c0 hp hc
    have : p = 0 := by omega
    subst this
    unfold firstCand at h
    rw [hc] at h
    simp only at h
    split at h
    · cases h
    · rename_i hnc; intro hcand; exact hnc ((cand_iff c0).mpr hcand)
  | succ k ih =>
    intro h p c0 hp hc
    unfold firstCand at h
    split at h
    · rename_i c hck
      split at h
      · cases h
      · rename_i hnc
        by_cases hpk : p = k + 1
        · subst hpk; rw [hck] at hc; cases hc
          intro hcand; exact hnc ((cand_iff c0).mpr hcand)
        · exact ih h p c0 (by omega) hc
    · rename_i hck
      by_cases hpk : p = k + 1
      · subst hpk; rw [hck] at hc; cases hc
      · exact ih h p c0 (by omega) hc

theorem nextCands_cand (cs : List ST) (i j : Nat) (h : j ∈ nextCands cs i) : ∀ ch, cs[j]? = some ch → Cand ch := by
  intro ch hch
  simp only [nextCands, List.mem_filter, hch, Bool.and_eq_true, Bool.not_eq_true'] at h
  exact ⟨h.2.2.1, h.2.2.2⟩

theorem nextCands_nodup (cs : List ST) (i : Nat) : (nextCands cs i).Nodup := by
  unfold nextCands
  exact List.Pairwise.filter _ List.nodup_range

theorem IdleL_iff (cs : List ST) : IdleL cs ↔ ∀ c ∈ cs, c.atLeastSome = true → Idle c := by
  induction cs with
  | nil => simp [IdleL]
  | cons a l ih => simp [IdleL, ih]

theorem Idle_simple {c : ST} (h : c.isSimple = true) : Idle c := by
  cases c with
  | simple => trivial
  | mult => simp [ST.isSimple] at h

theorem inRange_listEnd {n : Nat} (h : (n : Int) < listEnd) : inRange listEnd n = none := by
  unfold inRange
  have : ¬ (0 ≤ listEnd ∧ listEnd < (n : Int)) := by omega
  simp [this]

end StepModel.Complex.Match

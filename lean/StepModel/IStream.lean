/-!
# `IStream` — the subset of libstdc++'s `std::istream` (over a `std::istringstream`) that stepcode's Part 21
reader relies on.

Modelled operations (names as in C++): `in >> ws`, `peek`, `get()`/`get(c)`, `putback(c)`, `ignore()`,
`in >> c` (char), `in >> long` / `in >> int`, the *lexical stage* of `in >> double`, `eof/fail/bad/good`,
`clear`, `unsetf(skipws)`/`flags`.  Semantics follow libstdc++ 12 (`bits/istream.tcc`, `bits/locale_facets.tcc`,
"C" locale): every operation starts with a `sentry`; a sentry on a stream that is not `good()` sets `failbit`;
the whitespace skip of a formatted extractor that reaches the end sets `eofbit|failbit`; `peek` at the end sets
`eofbit`; `get` at the end sets `eofbit|failbit` and leaves its argument alone; `putback` first clears `eofbit`;
`>> long` consumes *all* digits even when the value overflows, then stores the clamp value and sets `failbit`.

This file is part of the trusted base ("modelled, not verified").  Its own tie is `harness/h_stream.cc`:
exhaustive/random operation scripts run on a real `std::istringstream` and on this model (driver `m_c09`,
command `st`), comparing returned values, state bits and position after every step.

Interface for users (`P21.Lex`, later the full reader):
* `IStream.ofBytes bs` — a fresh stream; `s.pos`, `s.right` (unread bytes), `s.good/failed/eof`.
* every operation is a pure function `IStream → (result ×) IStream`.
* bytes are `Nat` (`Byte`); drivers only ever feed values `< 256`; the theorems hold for all `Nat`.
-/
namespace StepModel

/-- A byte of input.  `Nat` keeps the proofs inside `omega`/`decide`; drivers feed values `< 256`. -/
abbrev Byte := Nat

/-- `isspace` in the "C" locale: space, `\t \n \v \f \r`. -/
def isSpace (b : Byte) : Bool := b == 32 || (9 ≤ b && b ≤ 13)
/-- `isdigit` -/
def isDigit (b : Byte) : Bool := 48 ≤ b && b ≤ 57
/-- `isupper`/`islower`/`isalpha`/`isalnum`/`isxdigit` in the "C" locale -/
def isUpper (b : Byte) : Bool := 65 ≤ b && b ≤ 90
def isLower (b : Byte) : Bool := 97 ≤ b && b ≤ 122
def isAlpha (b : Byte) : Bool := isUpper b || isLower b
def isAlnum (b : Byte) : Bool := isAlpha b || isDigit b
def isXDigit (b : Byte) : Bool := isDigit b || (65 ≤ b && b ≤ 70) || (97 ≤ b && b ≤ 102)
/-- `toupper` in the "C" locale -/
def toUpper (b : Byte) : Byte := if isLower b then b - 32 else b

/-- value of a list of ASCII digits, most significant first -/
def digitsVal : List Byte → Nat → Nat
  | [], acc => acc
  | d :: ds, acc => digitsVal ds (acc * 10 + (d - 48))

/-- the state of a `std::istringstream` -/
structure IStream where
  /-- bytes already consumed, most recent first (what `putback` can return) -/
  left : List Byte := []
  /-- bytes not yet consumed -/
  right : List Byte := []
  eof : Bool := false
  fail : Bool := false
  bad : Bool := false
  /-- `ios::skipws` format flag (on by default; `SDAI_String::STEPread` switches it off and does not always restore it) -/
  skipws : Bool := true
deriving Repr, DecidableEq, Inhabited

namespace IStream

def ofBytes (bs : List Byte) : IStream := { right := bs }

/-- `in.good()` -/
def good (s : IStream) : Bool := !s.eof && !s.fail && !s.bad
/-- `in.fail()` (failbit or badbit) -/
def failed (s : IStream) : Bool := s.fail || s.bad
/-- offset from the start of the buffer (`tellg` on a cleared stream) -/
def pos (s : IStream) : Nat := s.left.length
/-- `in.clear()` -/
def clear (s : IStream) : IStream := { s with eof := false, fail := false, bad := false }
/-- `in.unsetf(ios::skipws)` / `in.flags(saved)` -/
def setSkipws (b : Bool) (s : IStream) : IStream := { s with skipws := b }

/-- move leading whitespace from `r` to the consumed side -/
def dropSpaces : List Byte → List Byte → List Byte × List Byte
  | l, [] => (l, [])
  | l, c :: r => if isSpace c then dropSpaces (c :: l) r else (l, c :: r)

/-- `istream::sentry(in, noskipws)`; returns the stream and whether the operation may proceed -/
def sentry (noskip : Bool) (s : IStream) : IStream × Bool :=
  if s.good then
    if !noskip && s.skipws then
      let lr := dropSpaces s.left s.right
      if lr.2.isEmpty then ({ s with left := lr.1, right := lr.2, eof := true, fail := true }, false)
      else ({ s with left := lr.1, right := lr.2 }, true)
    else (s, true)
  else ({ s with fail := true }, false)

/-- `in >> ws` -/
def ws (s : IStream) : IStream :=
  let (s1, ok) := sentry true s
  if ok then
    let lr := dropSpaces s1.left s1.right
    { s1 with left := lr.1, right := lr.2, eof := lr.2.isEmpty }
  else s1

/-- `in.peek()`: `none` is `traits::eof()` (−1) -/
def peek (s : IStream) : Option Byte × IStream :=
  let (s1, ok) := sentry true s
  if ok then
    match s1.right with
    | [] => (none, { s1 with eof := true })
    | c :: _ => (some c, s1)
  else (none, s1)

/-- `char c = in.peek()`: the code stores the int in a `char`, so end of input reads as byte 255 -/
def peekC (s : IStream) : Byte × IStream :=
  let (o, s1) := peek s
  (o.getD 255, s1)

/-- `in.get()` / `in.get(c)`: `none` = nothing extracted (`c` keeps its old value) -/
def get (s : IStream) : Option Byte × IStream :=
  let (s1, ok) := sentry true s
  if ok then
    match s1.right with
    | [] => (none, { s1 with eof := true, fail := true })
    | c :: r => (some c, { s1 with left := c :: s1.left, right := r })
  else (none, s1)

/-- `in.putback(c)` -/
def putback (c : Byte) (s : IStream) : IStream :=
  let (s1, ok) := sentry true { s with eof := false }
  if ok then
    match s1.left with
    | x :: l => if x == c then { s1 with left := l, right := x :: s1.right } else { s1 with bad := true }
    | [] => { s1 with bad := true }
  else s1

/-- `in.ignore()` (one character) -/
def ignore1 (s : IStream) : IStream :=
  let (s1, ok) := sentry true s
  if ok then
    match s1.right with
    | [] => { s1 with eof := true }
    | c :: r => { s1 with left := c :: s1.left, right := r }
  else s1

/-- `in >> c` for a `char` -/
def getChar (s : IStream) : Option Byte × IStream :=
  let (s1, ok) := sentry false s
  if ok then
    match s1.right with
    | [] => (none, { s1 with eof := true, fail := true })
    | c :: r => (some c, { s1 with left := c :: s1.left, right := r })
  else (none, s1)

/-- longest prefix of digits: (digits, consumed side, rest) -/
def spanDigits : List Byte → List Byte → List Byte → List Byte × List Byte × List Byte
  | ds, l, [] => (ds.reverse, l, [])
  | ds, l, c :: r => if isDigit c then spanDigits (c :: ds) (c :: l) r else (ds.reverse, l, c :: r)

/-- optional sign: (negative, consumed side, rest) -/
def takeSign (left right : List Byte) : Bool × List Byte × List Byte :=
  match right with
  | 45 :: r => (true, 45 :: left, r)
  | 43 :: r => (false, 43 :: left, r)
  | _ => (false, left, right)

/-- result of the `num_get` stage for integers: value stored, and whether `failbit` is raised -/
structure IntResult where
  value : Int
  fail : Bool
deriving Repr, DecidableEq

/-- `num_get::_M_extract_int` in base 10 for a signed type with range `[lo, hi]`: optional sign, all digits,
    failure when there is no digit, clamp + failure on overflow -/
def scanInt (lo hi : Int) (left right : List Byte) : IntResult × List Byte × List Byte :=
  let (neg, l1, r1) := takeSign left right
  let (ds, l2, r2) := spanDigits [] l1 r1
  let n : Int := ((digitsVal ds 0 : Nat) : Int)
  let res : IntResult :=
    if ds.isEmpty then ⟨0, true⟩
    else if neg then (if -n < lo then ⟨lo, true⟩ else ⟨-n, false⟩)
    else (if n > hi then ⟨hi, true⟩ else ⟨n, false⟩)
  (res, l2, r2)

def longMin : Int := -9223372036854775808
def longMax : Int := 9223372036854775807
def intMin : Int := -2147483648
def intMax : Int := 2147483647

/-- `in >> i` for `long i`: `none` = the sentry refused, `i` untouched -/
def extractLong (s : IStream) : Option Int × IStream :=
  let (s1, ok) := sentry false s
  if ok then
    let (res, l, r) := scanInt longMin longMax s1.left s1.right
    (some res.value, { s1 with left := l, right := r, eof := r.isEmpty, fail := res.fail })
  else (none, s1)

/-- `in >> id` for `int id`: extracted as `long`, then range-checked (LWG 696) -/
def extractInt32 (s : IStream) : Option Int × IStream :=
  let (s1, ok) := sentry false s
  if ok then
    let (res, l, r) := scanInt longMin longMax s1.left s1.right
    let (v, f) : Int × Bool :=
      if res.value < intMin then (intMin, true)
      else if res.value > intMax then (intMax, true)
      else (res.value, res.fail)
    (some v, { s1 with left := l, right := r, eof := r.isEmpty, fail := f })
  else (none, s1)

/-- main loop of `num_get::_M_extract_float` ("C" locale): `fm` found a mantissa digit, `fd` found the decimal
    point, `fs` found the exponent letter, `ae` the previous character was the exponent letter (a sign may follow).
    `x` is the text handed to `strtod` (reversed), `l` the consumed side. -/
def floatLoop : Bool → Bool → Bool → Bool → List Byte → List Byte → List Byte → List Byte × List Byte × List Byte
  | _, _, _, _, x, l, [] => (x, l, [])
  | fm, fd, fs, ae, x, l, c :: r =>
    if ae && (c == 43 || c == 45) then floatLoop fm fd fs false (c :: x) (c :: l) r
    else if isDigit c then floatLoop true fd fs false (c :: x) (c :: l) r
    else if c == 46 && !fd && !fs then floatLoop fm true fs false (46 :: x) (46 :: l) r
    else if (c == 101 || c == 69) && !fs && fm then floatLoop fm fd true true (101 :: x) (c :: l) r
    else (x, l, c :: r)

/-- skip leading zeros: (found any, consumed side, rest) -/
def dropZeros : Bool → List Byte → List Byte → Bool × List Byte × List Byte
  | f, l, [] => (f, l, [])
  | f, l, c :: r => if c == 48 then dropZeros true (c :: l) r else (f, l, c :: r)

/-- optional sign as text: (`+`/`-` or nothing, rest) -/
def signPrefix (r : List Byte) : List Byte × List Byte :=
  match r with
  | 45 :: t => ([45], t)
  | 43 :: t => ([43], t)
  | _ => ([], r)

/-- the lexical stage of `in >> double`: the text accumulated for `strtod` (in order), new consumed side, rest -/
def scanFloat (left right : List Byte) : List Byte × List Byte × List Byte :=
  let sp := signPrefix right
  let dz := dropZeros false (sp.1.reverse ++ left) sp.2
  let x1 := if dz.1 then 48 :: sp.1.reverse else sp.1.reverse
  let q := floatLoop dz.1 false false false x1 dz.2.1 dz.2.2
  (q.1.reverse, q.2.1, q.2.2)

/-- the lexical stage of `in >> d` on the stream: `none` = sentry refused; otherwise the text given to `strtod`.
    The caller decides `failbit` from the conversion (`IStream.setFail`). `eofbit` is set when the scan reached the end. -/
def extractFloatText (s : IStream) : Option (List Byte) × IStream :=
  let (s1, ok) := sentry false s
  if ok then
    let (x, l, r) := scanFloat s1.left s1.right
    (some x, { s1 with left := l, right := r, eof := r.isEmpty })
  else (none, s1)

def setFail (b : Bool) (s : IStream) : IStream := { s with fail := s.fail || b }

end IStream
end StepModel

import StepModel.GenPyModule
/-!
# Lemmas about the order of a Python module's definitions (`GenPyModule.lean`)

`types_order_perm`: the defined types a module defines before and after the entity classes are a permutation of the schema's
defined types — each exactly once — for every dictionary order, via the invariant of the rename-after-original scans
(`Sub`: the scans write names once, and only types of the scanned table).
-/
namespace StepModel.PyModule
open StepModel.GenPy

theorem written_iff (done : List Order.DT) (n : String) : Order.written done n = true ↔ n ∈ done.map (·.name) := by
  unfold Order.written
  simp only [List.any_eq_true, beq_iff_eq, List.mem_map]

/-- what the scans keep: names written once, only types of the scanned table -/
def Sub (order done : List Order.DT) : Prop := (done.map (·.name)).Nodup ∧ ∀ d ∈ done, d ∈ order

theorem scan_sub (order : List Order.DT) (ts done : List Order.DT) (hts : ∀ t ∈ ts, t ∈ order) (h : Sub order done) :
    Sub order (Order.scan done ts) := by
  induction ts generalizing done with
  | nil => exact h
  | cons t ts ih =>
    have hts' : ∀ x ∈ ts, x ∈ order := fun x hx => hts x (List.mem_cons_of_mem _ hx)
    have hadd : Order.written done t.name = false → Sub order (t :: done) := by
      intro hw
      refine ⟨?_, ?_⟩
      · simp only [List.map_cons, List.nodup_cons]
        refine ⟨?_, h.1⟩
        intro hm
        have := (written_iff done t.name).mpr hm
        rw [hw] at this; cases this
      · intro d hd
        rcases List.mem_cons.mp hd with e | e
        · subst e; exact hts _ List.mem_cons_self
        · exact h.2 d e
    simp only [Order.scan]
    by_cases hw : Order.written done t.name = true
    · rw [if_pos hw]; exact ih done hts' h
    · rw [if_neg hw]
      have hw' : Order.written done t.name = false := by simpa using hw
      cases hh : t.head with
      | none => exact ih _ hts' (hadd hw')
      | some o =>
        simp only
        by_cases ho : Order.written done o = true
        · rw [if_pos ho]; exact ih _ hts' (hadd hw')
        · rw [if_neg ho]; exact ih done hts' h

theorem scans_sub (order : List Order.DT) (n : Nat) (done : List Order.DT) (h : Sub order done) : Sub order (Order.scans order n done) := by
  induction n generalizing done with
  | zero => exact h
  | succ n ih => exact ih _ (scan_sub order order done (fun _ h => h) h)

def simplesOf (types : List T) : List Order.DT :=
  (types.filter (·.kind == .simple)).map fun t => ({ name := t.name, head := t.head } : Order.DT)

theorem firstLoop_sub (types : List T) : Sub (simplesOf types) (firstLoop types) := by
  unfold firstLoop
  show Sub (simplesOf types) (if Generated.typeRescan then Order.scans (simplesOf types) (simplesOf types).length []
                              else Order.scan [] (simplesOf types))
  split
  · exact scans_sub _ _ [] ⟨by simp, by simp⟩
  · exact scan_sub _ _ [] (fun _ h => h) ⟨by simp, by simp⟩


/-- names of the types satisfying `p`, in table order -/
def namesOf (types : List T) (p : T → Bool) : List String := (types.filter p).map (·.name)

theorem mem_namesOf (types : List T) (p : T → Bool) (n : String) : n ∈ namesOf types p ↔ ∃ t ∈ types, p t = true ∧ t.name = n := by
  unfold namesOf
  simp only [List.mem_map, List.mem_filter]
  constructor
  · rintro ⟨t, ⟨h1, h2⟩, h3⟩; exact ⟨t, h1, h2, h3⟩
  · rintro ⟨t, h1, h2, h3⟩; exact ⟨t, ⟨h1, h2⟩, h3⟩

theorem namesOf_nodup (types : List T) (p : T → Bool) (hnd : (types.map (·.name)).Nodup) : (namesOf types p).Nodup :=
  List.Nodup.sublist (List.Sublist.map _ List.filter_sublist) hnd

theorem inj_of_nodup_names (types : List T) (hnd : (types.map (·.name)).Nodup) :
    ∀ t ∈ types, ∀ u ∈ types, t.name = u.name → t = u := by
  induction types with
  | nil => intro t ht; cases ht
  | cons a r ih =>
    have h : a.name ∉ r.map (·.name) ∧ (r.map (·.name)).Nodup := by
      have : (a.name :: r.map (·.name)).Nodup := hnd
      exact List.nodup_cons.mp this
    intro t ht u hu e
    rcases List.mem_cons.mp ht with e1 | e1
    · rcases List.mem_cons.mp hu with e2 | e2
      · rw [e1, e2]
      · exfalso; apply h.1; rw [← e1, e]; exact List.mem_map.mpr ⟨u, e2, rfl⟩
    · rcases List.mem_cons.mp hu with e2 | e2
      · exfalso; apply h.1; rw [← e2, ← e]; exact List.mem_map.mpr ⟨t, e1, rfl⟩
      · exact ih h.2 t e1 u e2 e

/-- two lists of names that come from types with incompatible properties share no name -/
theorem disjoint_of (types : List T) (hnd : (types.map (·.name)).Nodup) (X Y : List String) (P Q : T → Prop)
    (hX : ∀ n ∈ X, ∃ t ∈ types, P t ∧ t.name = n) (hY : ∀ n ∈ Y, ∃ t ∈ types, Q t ∧ t.name = n)
    (hPQ : ∀ t, P t → Q t → False) : ∀ a ∈ X, ∀ b ∈ Y, a ≠ b := by
  intro a ha b hb e
  obtain ⟨t, ht, pt, rfl⟩ := hX a ha
  obtain ⟨u, hu, qu, hun⟩ := hY b hb
  have : t = u := inj_of_nodup_names types hnd t ht u hu (by rw [hun]; exact e)
  subst this
  exact hPQ t pt qu

/-- **every defined type is defined exactly once in the module** (before or after the entity classes) -/
theorem types_order_perm (types : List T) (hnd : (types.map (·.name)).Nodup) :
    (typesBeforeEntities types ++ typesAfterEntities types).Perm (types.map (·.name)) := by
  have hsub := firstLoop_sub types
  -- the first loop's names: simple types of the table, written
  have hA : ∀ n ∈ (firstLoop types).reverse.map (·.name), ∃ t ∈ types, (t.kind = .simple ∧ Order.written (firstLoop types) t.name = true) ∧ t.name = n := by
    intro n hn
    obtain ⟨d, hd, rfl⟩ := List.mem_map.mp hn
    have hd' := List.mem_reverse.mp hd
    have := hsub.2 d hd'
    unfold simplesOf at this
    obtain ⟨t, ht, rfl⟩ := List.mem_map.mp this
    have hf := List.mem_filter.mp ht
    exact ⟨t, hf.1, ⟨by simpa using hf.2, (written_iff _ _).mpr (List.mem_map.mpr ⟨_, hd', rfl⟩)⟩, rfl⟩
  have hAnd : ((firstLoop types).reverse.map (·.name)).Nodup := by
    rw [List.map_reverse]; exact (List.reverse_perm _).nodup_iff.mpr hsub.1
  -- the four dictionary walks
  let pB : T → Bool := fun t => (t.kind == .simple && !Order.written (firstLoop types) t.name) || (t.kind == .enum && t.head.isNone)
  let pC : T → Bool := fun t => t.kind == .enum && t.head.isSome
  let pD : T → Bool := fun t => t.kind == .select
  let pE : T → Bool := fun t => t.kind == .aggregate
  have hdef : typesBeforeEntities types ++ typesAfterEntities types
      = (firstLoop types).reverse.map (·.name) ++ (namesOf types pB ++ (namesOf types pC ++ (namesOf types pD ++ namesOf types pE))) := by
    simp only [typesBeforeEntities, typesAfterEntities, namesOf, List.append_assoc]
    rfl
  rw [hdef]
  have chr : ∀ (p : T → Bool) (n : String), n ∈ namesOf types p → ∃ t ∈ types, (p t = true) ∧ t.name = n :=
    fun p n h => (mem_namesOf types p n).mp h
  refine (List.perm_ext_iff_of_nodup ?_ hnd).mpr ?_
  · -- no name twice
    refine List.nodup_append.mpr ⟨hAnd, ?_, ?_⟩
    · refine List.nodup_append.mpr ⟨namesOf_nodup types pB hnd, ?_, ?_⟩
      · refine List.nodup_append.mpr ⟨namesOf_nodup types pC hnd, ?_, ?_⟩
        · refine List.nodup_append.mpr ⟨namesOf_nodup types pD hnd, namesOf_nodup types pE hnd, ?_⟩
          exact disjoint_of types hnd _ _ (fun t => pD t = true) (fun t => pE t = true) (chr pD) (chr pE)
            (by intro t h1 h2; simp only [pD, pE, beq_iff_eq] at h1 h2; rw [h1] at h2; cases h2)
        · refine disjoint_of types hnd _ _ (fun t => pC t = true) (fun t => pD t = true ∨ pE t = true) (chr pC) ?_ ?_
          · intro n hn
            rcases List.mem_append.mp hn with h | h
            · obtain ⟨t, ht, p, e⟩ := chr pD n h; exact ⟨t, ht, Or.inl p, e⟩
            · obtain ⟨t, ht, p, e⟩ := chr pE n h; exact ⟨t, ht, Or.inr p, e⟩
          · intro t h1 h2
            simp only [pC, pD, pE, Bool.and_eq_true, beq_iff_eq] at h1 h2
            rcases h2 with h2 | h2 <;> (rw [h1.1] at h2; cases h2)
      · refine disjoint_of types hnd _ _ (fun t => pB t = true) (fun t => pC t = true ∨ pD t = true ∨ pE t = true) (chr pB) ?_ ?_
        · intro n hn
          rcases List.mem_append.mp hn with h | h
          · obtain ⟨t, ht, p, e⟩ := chr pC n h; exact ⟨t, ht, Or.inl p, e⟩
          · rcases List.mem_append.mp h with h | h
            · obtain ⟨t, ht, p, e⟩ := chr pD n h; exact ⟨t, ht, Or.inr (Or.inl p), e⟩
            · obtain ⟨t, ht, p, e⟩ := chr pE n h; exact ⟨t, ht, Or.inr (Or.inr p), e⟩
        · intro t h1 h2
          simp only [pB, pC, pD, pE, Bool.or_eq_true, Bool.and_eq_true, beq_iff_eq] at h1 h2
          rcases h1 with h1 | h1
          · rcases h2 with h2 | h2 | h2
            · rw [h1.1] at h2; cases h2.1
            · rw [h1.1] at h2; cases h2
            · rw [h1.1] at h2; cases h2
          · rcases h2 with h2 | h2 | h2
            · cases hh : t.head <;> simp [hh] at h1 h2
            · rw [h1.1] at h2; cases h2
            · rw [h1.1] at h2; cases h2
    · refine disjoint_of types hnd _ _ (fun t => t.kind = .simple ∧ Order.written (firstLoop types) t.name = true)
        (fun t => pB t = true ∨ pC t = true ∨ pD t = true ∨ pE t = true) hA ?_ ?_
      · intro n hn
        rcases List.mem_append.mp hn with h | h
        · obtain ⟨t, ht, p, e⟩ := chr pB n h; exact ⟨t, ht, Or.inl p, e⟩
        · rcases List.mem_append.mp h with h | h
          · obtain ⟨t, ht, p, e⟩ := chr pC n h; exact ⟨t, ht, Or.inr (Or.inl p), e⟩
          · rcases List.mem_append.mp h with h | h
            · obtain ⟨t, ht, p, e⟩ := chr pD n h; exact ⟨t, ht, Or.inr (Or.inr (Or.inl p)), e⟩
            · obtain ⟨t, ht, p, e⟩ := chr pE n h; exact ⟨t, ht, Or.inr (Or.inr (Or.inr p)), e⟩
      · intro t h1 h2
        simp only [pB, pC, pD, pE, Bool.or_eq_true, Bool.and_eq_true, beq_iff_eq, Bool.not_eq_true'] at h2
        rcases h2 with h2 | h2 | h2 | h2
        · rcases h2 with h2 | h2
          · rw [h1.2] at h2; cases h2.2
          · rw [h1.1] at h2; cases h2.1
        · rw [h1.1] at h2; cases h2.1
        · rw [h1.1] at h2; cases h2
        · rw [h1.1] at h2; cases h2
  · -- the same names
    intro n
    simp only [List.mem_append]
    constructor
    · intro h
      rcases h with h | h | h | h | h
      · obtain ⟨t, ht, _, e⟩ := hA n h; exact List.mem_map.mpr ⟨t, ht, e⟩
      · obtain ⟨t, ht, _, e⟩ := chr pB n h; exact List.mem_map.mpr ⟨t, ht, e⟩
      · obtain ⟨t, ht, _, e⟩ := chr pC n h; exact List.mem_map.mpr ⟨t, ht, e⟩
      · obtain ⟨t, ht, _, e⟩ := chr pD n h; exact List.mem_map.mpr ⟨t, ht, e⟩
      · obtain ⟨t, ht, _, e⟩ := chr pE n h; exact List.mem_map.mpr ⟨t, ht, e⟩
    · intro h
      obtain ⟨t, ht, rfl⟩ := List.mem_map.mp h
      cases hk : t.kind with
      | simple =>
        by_cases hw : Order.written (firstLoop types) t.name = true
        · left
          have := (written_iff _ _).mp hw
          rw [List.map_reverse]; exact List.mem_reverse.mpr this
        · right; left
          exact (mem_namesOf types pB t.name).mpr ⟨t, ht, by simp [pB, hk, hw], rfl⟩
      | enum =>
        cases hh : t.head with
        | none => right; left; exact (mem_namesOf types pB t.name).mpr ⟨t, ht, by simp [pB, hk, hh], rfl⟩
        | some o => right; right; left; exact (mem_namesOf types pC t.name).mpr ⟨t, ht, by simp [pC, hk, hh], rfl⟩
      | select => right; right; right; left; exact (mem_namesOf types pD t.name).mpr ⟨t, ht, by simp [pD, hk], rfl⟩
      | aggregate => right; right; right; right; exact (mem_namesOf types pE t.name).mpr ⟨t, ht, by simp [pE, hk], rfl⟩

end StepModel.PyModule

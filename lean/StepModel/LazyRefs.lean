import StepModel.Generated.LazyGen
/-!
# Model of `lazyRefs` (src/cllazyfile/lazyRefs.h): resolving the INVERSE attributes of a freshly loaded instance

`pop` is the population in ascending id order (the order in which `_refMap` / the candidate `std::set` are iterated).
An instance carries the entity named by its keyword with all supertypes (`types`; empty for a complex instance, whose
keyword is empty) and its explicit attributes in Part 21 order, each with the descriptor's owner and name and the ids
it mentions.  An inverse attribute: `over`/`attrName` = `inverted_entity_id`/`inverted_attr_id`, `attrOwner` = the
entity that declares the inverted attribute (`EntityDescriptor::InitIAttrs` finds it in `over` or a supertype).
The shape of the code is regenerated from the source (`Generated.refs*`).
-/
namespace StepModel.LazyRefs
open StepModel.Generated

structure Attr where
  owner : Nat
  name : Nat
  aggr : Bool
  refs : List Nat
  deriving Repr, DecidableEq

structure Inst where
  id : Nat
  types : List Nat
  attrs : List Attr
  deriving Repr, DecidableEq

structure InvAttr where
  key : Nat
  aggr : Bool
  over : Nat
  attrName : Nat
  attrOwner : Nat
  deriving Repr, DecidableEq

structure Flags where
  perAttr : Bool        -- candidates are collected per inverse attribute
  skipMissing : Bool    -- a candidate without the inverted attribute is skipped
  byDescriptor : Bool   -- the inverted attribute is found by descriptor, not by (name, owner = inverted entity)
  aggrByInverse : Bool  -- storage follows the inverse attribute's own type
  accumulates : Bool    -- the stored aggregate is re-read for every referrer
  deriving Repr, DecidableEq

def fromSource : Flags :=
  { perAttr := refsPerAttrCandidates, skipMissing := refsSkipMissingAttr, byDescriptor := refsAttrByDescriptor,
    aggrByInverse := refsAggrByInverse, accumulates := refsAggrAccumulates }

inductive Outcome (α : Type) where
  | ok (a : α)
  | crash
  deriving Repr, DecidableEq

/-- `_lim->getRevRefs()->find(x)`: does instance `i` mention `x` at all -/
def mentions (i : Inst) (x : Nat) : Bool := i.attrs.any (fun a => a.refs.contains x)

/-- `potentialReferentInsts`: reverse references whose keyword names `ia.over` or a subtype -/
def isCand (x : Nat) (ia : InvAttr) (i : Inst) : Bool := mentions i x && i.types.contains ia.over

/-- `attrIndex` -/
def attrMatch (fl : Flags) (ia : InvAttr) (a : Attr) : Bool :=
  if fl.byDescriptor then a.owner == ia.attrOwner && a.name == ia.attrName
  else a.name == ia.attrName && a.owner == ia.over

/-- `refersToCurrentInst`: `none` index ⇒ skipped, or (old code) `attributes[-1]`, which yields attribute 0
    and dereferences null when there is none -/
def refers (fl : Flags) (x : Nat) (ia : InvAttr) (i : Inst) : Outcome Bool :=
  match i.attrs.find? (attrMatch fl ia) with
  | some a => .ok (a.refs.contains x)
  | none =>
    if fl.skipMissing then .ok false
    else match i.attrs with
      | a :: _ => .ok (a.refs.contains x)
      | [] => .crash

def referrers (fl : Flags) (x : Nat) (ia : InvAttr) : List Inst → Outcome (List Nat)
  | [] => .ok []
  | i :: t =>
    match refers fl x ia i, referrers fl x ia t with
    | .ok b, .ok l => .ok (if b then i.id :: l else l)
    | _, _ => .crash

/-- is the inverted attribute an aggregate (what the old code keys the storage on) -/
def fwdAggr (pop : List Inst) (ia : InvAttr) : Bool :=
  pop.any (fun i => i.attrs.any (fun a => a.owner == ia.attrOwner && a.name == ia.attrName && a.aggr))

/-- what `getInvAttr(ia)` / the generated accessor yields after `checkAnInvAttr(ia)` with candidate list `cands`:
    the members of the aggregate, or the single instance as a list of length ≤ 1; `crash` = the slot holds the other
    member of the union than the accessor reads -/
def resolveWith (fl : Flags) (pop : List Inst) (x : Nat) (ia : InvAttr) (cands : List Inst) : Outcome (List Nat) :=
  match referrers fl x ia cands with
  | .crash => .crash
  | .ok l =>
    let storeAggr := if fl.aggrByInverse then ia.aggr else fwdAggr pop ia
    if l.isEmpty then .ok []
    else if storeAggr != ia.aggr then .crash
    else if storeAggr then .ok (if fl.accumulates then l else l.getLast?.toList)
    else .ok l.head?.toList

/-- `lazyRefs::init`: the inverse attributes in the order `ias`; `shared` = `_referentInstances` so far -/
def resolveAll (fl : Flags) (pop : List Inst) (x : Nat) : List InvAttr → List Inst → List (Nat × Outcome (List Nat))
  | [], _ => []
  | ia :: t, shared =>
    let own := pop.filter (isCand x ia)
    let cands := if fl.perAttr then own else pop.filter (fun i => shared.contains i || own.contains i)
    (ia.key, resolveWith fl pop x ia cands) :: resolveAll fl pop x t cands

/-- one inverse attribute, repaired code -/
def resolve (fl : Flags) (pop : List Inst) (x : Nat) (ia : InvAttr) : Outcome (List Nat) :=
  resolveWith fl pop x ia (pop.filter (isCand x ia))

end StepModel.LazyRefs

import StepModel.P21SafeDataLemmas
/-! `FindDataSection` (helper file for Props/C05). -/
namespace StepModel.P21Safe

theorem matchDATA_m (s : IS) : (matchDATA s).1.m ≤ s.m := by
  unfold matchDATA
  have p1 := peek_m s
  have g1 := get_m_le (s.peek).1
  have p2 := peek_m (s.peek).1.get.1
  have g2 := get_m_le ((s.peek).1.get.1.peek).1
  have p3 := peek_m ((s.peek).1.get.1.peek).1.get.1
  have g3 := get_m_le (((s.peek).1.get.1.peek).1.get.1.peek).1
  have w3 := ws_m (((s.peek).1.get.1.peek).1.get.1.peek).1.get.1
  have p4 := peek_m (((s.peek).1.get.1.peek).1.get.1.peek).1.get.1.ws
  have g4 := get_m_le ((((s.peek).1.get.1.peek).1.get.1.peek).1.get.1.ws.peek).1
  split
  · split
    · split
      · split <;> simp only [] <;> omega
      · simp only []; omega
    · simp only []; omega
  · simp only []; omega

def DataSecOk (R : Nat) (rec : IS → Nat → Out LoopRes) (fuel : Nat) : Prop :=
  ∀ (s : IS) (steps : Nat), s.m + 1 ≤ fuel →
    ∃ r, rec s steps = .ok r ∧ r.s.m ≤ s.m ∧ r.steps + pot R r.s ≤ steps + pot R s + 1

/-- `FindDataSection`'s loop: every iteration is paid by the byte `in >> c` consumes -/
theorem dataSecLoop_pot (R : Nat) (cm : Bool) (iters F : Nat) (hR : iters ≤ R) :
    ∀ fuel, fuel ≤ F → DataSecOk R (dataSecLoop (readComment cm iters F) fuel) fuel := by
  intro fuel
  induction fuel with
  | zero => intro _ s steps h; omega
  | succ fuel ih =>
    intro hF s steps h
    have ih := ih (by omega)
    show ∃ r, dataSecStep (dataSecLoop (readComment cm iters F) fuel) (readComment cm iters F) s steps = .ok r ∧ _
    unfold dataSecStep
    by_cases hg : s.good = true
    · simp only [hg, Bool.not_true, Bool.false_eq_true, if_false]
      have hpos := good_m_pos hg
      have hge := pot_ge (R := R) hpos
      generalize hex : s.extract = ex
      obtain ⟨s1, o⟩ := ex
      cases o with
      | none =>
        have hz := extract_none hex
        refine ⟨⟨s1, 0, 0, steps + 1⟩, rfl, by simp only []; omega, ?_⟩
        simp only []; rw [pot_zero hz]; omega
      | some c =>
        obtain ⟨hf1, he1, ⟨ps, hpre⟩, hlt⟩ := extract_some hex
        have hd := pot_drop (R := R) hlt (Nat.le_refl 1)
        have hs1pos : 1 ≤ s1.m := by simp [IS.m, hf1]
        simp only []
        split
        · have hm := matchDATA_m s1
          have hpm := pot_mono (R := R) hm
          generalize matchDATA s1 = md at hm hpm ⊢
          obtain ⟨s2, fnd⟩ := md
          simp only [] at hm hpm
          cases fnd with
          | true => exact ⟨⟨s2, 1, 0, steps + 1⟩, rfl, by simp only []; omega, by simp only []; omega⟩
          | false =>
            simp only []
            obtain ⟨r, a, b, cc⟩ := ih s2 (steps + 1) (by omega)
            exact ⟨r, a, by omega, by omega⟩
        · split
          · rename_i hq
            subst hq
            rw [putback_restore hf1 hpre]
            obtain ⟨hsf, hsl, hsl1⟩ := sdaiStringRead_quote_len (s := { s1 with pre := ps, rest := chQuote :: s1.rest, eof := false })
              (r := s1.rest) (by simpa using hf1) rfl rfl
            have hm1 : s1.m = s1.rest.length + 1 := by simp [IS.m, hf1]
            generalize sdaiStringRead { s1 with pre := ps, rest := chQuote :: s1.rest, eof := false } = sr at hsf hsl hsl1 ⊢
            obtain ⟨s2, str⟩ := sr
            simp only [] at hsf hsl hsl1 ⊢
            have hs2pos : 1 ≤ s2.m := by simp [IS.m, hsf]
            have hps2 : pot R s2 + 4 * str.length ≤ pot R s := by
              rw [pot_pos hs2pos, pot_pos hpos]; omega
            obtain ⟨r, a, b, cc⟩ := ih s2 (steps + 1 + str.length) (by omega)
            exact ⟨r, a, by omega, by omega⟩
          · split
            · rename_i hsl
              subst hsl
              rw [putback_restore hf1 hpre]
              obtain ⟨r, hr, hrm, hrp⟩ := readCommentWith_slash_pot R (skipInstance cm iters F) iters hR
                (s := { s1 with pre := ps, rest := chSlash :: s1.rest, eof := false }) (r0 := s1.rest)
                (by simpa using hf1) rfl rfl
                (fun s' hs' => by
                  have hm1 : s1.m = s1.rest.length + 1 := by simp [IS.m, hf1]
                  obtain ⟨r', h1, h2, h3⟩ := scanUntil_pot R chSemi false cm iters hR F s' 0 0 0 (by omega)
                  exact ⟨r', h1, h2, by omega⟩)
              unfold readComment
              rw [hr]
              simp only []
              have hm1 : s1.m = s1.rest.length + 1 := by simp [IS.m, hf1]
              have hps1 : pot R s1 = 4 * (s1.rest.length + 1) + R := by rw [pot_pos hs1pos, hm1]
              obtain ⟨r2, a, b, cc⟩ := ih r.s (steps + 1 + r.steps) (by omega)
              exact ⟨r2, a, by omega, by omega⟩
            · split
              · exact ⟨⟨s1, 0, 0, steps + 1⟩, rfl, by simp only []; omega, by simp only []; omega⟩
              · obtain ⟨r, a, b, cc⟩ := ih s1 (steps + 1) (by omega)
                exact ⟨r, a, by omega, by omega⟩
    · simp at hg
      simp only [hg, Bool.not_false, if_true]
      exact ⟨⟨s, 0, 0, steps⟩, rfl, Nat.le_refl _, by simp only []; omega⟩


/-! ### GetKeyword -/

def GetKwOk (R : Nat) (rec : IS → Byte → Nat → List Byte → Nat → Out (IS × List Byte × Nat)) (fuel : Nat) : Prop :=
  ∀ (s : IS) (c : Byte) (sz : Nat) (acc : List Byte) (steps : Nat), s.m + 1 ≤ fuel →
    ∃ s' acc' st, rec s c sz acc steps = .ok (s', acc', st) ∧ s'.m ≤ s.m + 1 ∧ (s.m = 0 → s'.m = 0 ∧ st = steps) ∧
      st + pot R s' ≤ steps + pot R s + 4

theorem getKwLoop_ok (R : Nat) (delims : List Byte) : ∀ fuel, GetKwOk R (getKwLoop delims fuel) fuel := by
  intro fuel
  induction fuel with
  | zero => intro s c sz acc steps h; omega
  | succ fuel ih =>
    intro s c sz acc steps h
    show ∃ s' acc' st, getKwStep (getKwLoop delims fuel) delims s c sz acc steps = _ ∧ _
    unfold getKwStep
    split
    · obtain ⟨h1, h2, h3⟩ := pot_putback R s c
      exact ⟨_, acc, steps, rfl, h2, fun hz => ⟨h3 hz, rfl⟩, by omega⟩
    · rename_i hcond
      have hg : s.good = true := by
        simp at hcond
        exact hcond.2
      have hpos := good_m_pos hg
      have hgm := get_m s
      obtain ⟨s', acc', st, a, b, c0, d⟩ := ih (s.get).1 ((s.get).2.getD c) (sz + 1) (c :: acc) (steps + 1)
        (by rcases hgm with hh | hh <;> omega)
      refine ⟨s', acc', st, a, by rcases hgm with hh | hh <;> omega, by intro hz; omega, ?_⟩
      rcases hgm with hh | hh
      · have := pot_drop (R := R) hh (Nat.le_refl 1); omega
      · obtain ⟨hz, hst⟩ := c0 hh
        rw [pot_zero hz]
        have := pot_ge (R := R) hpos
        omega

/-- `GetKeyword` is a stage with constant 1: the character that ends the keyword is put back -/
theorem getKeyword_ok (R : Nat) (delims : List Byte) (F : Nat) (hF : 1 ≤ F) : StageOk R (getKeyword delims F) 1 (F - 1) := by
  intro s hB
  unfold getKeyword getKeywordFull
  have hgm := get_m s
  obtain ⟨s', acc', st, a, b, c0, d⟩ := getKwLoop_ok R delims F (s.get).1 ((s.get).2.getD 0) 1 [] 1
    (by rcases hgm with hh | hh <;> omega)
  rw [a]
  refine ⟨⟨s', 0, acc'.length, st⟩, rfl, ?_, ?_⟩
  · show s'.m ≤ s.m
    rcases hgm with hh | hh
    · omega
    · have := (c0 hh).1; omega
  · show st + pot R s' ≤ pot R s + 1
    rcases hgm with hh | hh
    · have := pot_drop (R := R) hh (Nat.le_refl 1); omega
    · obtain ⟨hz, hst⟩ := c0 hh
      rw [pot_zero hz]
      omega

end StepModel.P21Safe

/-!
# Complex-entity support structures: EntList trees and their plain meaning

`Tree` is the shape of the `EntList` hierarchy that exp2cxx writes into `compstructs.cc` and that the run-time rebuilds
(`include/clstepcore/complexSupport.h`: `SimpleList`, `AndList`, `OrList`, `AndOrList`); a `Collect` is the list of
`ComplexList` heads of a `ComplexCollect`, ordered by supertype name.

`denote t` is the plain recursive meaning of a tree (ISO 10303-11 Annex B): the list of name lists the tree derives,

* `simple n` derives `[n]`;
* `and cs` derives the union of one derivation of *every* child;
* `andor cs` derives the union of one derivation of every child of a *non-empty selection* of children;
* `or cs` derives whatever exactly one of its children derives.

Name lists stand for sets: `sameSet` compares them up to order and repetition.  Entity names are abstracted to their
alphabetical rank (`Name = Nat`); the matcher only ever compares names (`strcmp`), so nothing else of a name is visible.
-/
namespace StepModel.Complex

abbrev Name := Nat

inductive Tree where
  | simple (n : Name)
  | and (cs : List Tree)
  | or (cs : List Tree)
  | andor (cs : List Tree)
  deriving Repr, Inhabited

/-- every child contributes: all unions of one element of each list -/
def prodD : List (List (List Name)) → List (List Name)
  | [] => [[]]
  | d :: ds => d.flatMap (fun x => (prodD ds).map (fun y => x ++ y))

/-- a non-empty selection of children contributes -/
def selD : List (List (List Name)) → List (List Name)
  | [] => []
  | d :: ds => selD ds ++ d ++ d.flatMap (fun x => (selD ds).map (fun y => x ++ y))

mutual
  def denote : Tree → List (List Name)
    | .simple n => [[n]]
    | .and cs => prodD (denoteL cs)
    | .or cs => (denoteL cs).flatten
    | .andor cs => selD (denoteL cs)
  def denoteL : List Tree → List (List (List Name))
    | [] => []
    | c :: cs => denote c :: denoteL cs
end

def subset (xs ys : List Name) : Bool := xs.all (fun x => ys.contains x)
def sameSet (xs ys : List Name) : Bool := subset xs ys && subset ys xs

/-- `X` (as a set) is one of the name sets `t` derives -/
def derivesB (t : Tree) (X : List Name) : Bool := (denote t).any (fun Y => sameSet Y X)

mutual
  /-- all leaf names, in tree order (`ComplexList::addChildren` collects exactly these) -/
  def leaves : Tree → List Name
    | .simple n => [n]
    | .and cs => leavesL cs
    | .or cs => leavesL cs
    | .andor cs => leavesL cs
  def leavesL : List Tree → List Name
    | [] => []
    | c :: cs => leaves c ++ leavesL cs
end

def Tree.children : Tree → List Tree
  | .simple _ => []
  | .and cs => cs
  | .or cs => cs
  | .andor cs => cs

/-- A `ComplexCollect`: heads of its `ComplexList`s (each an `and` whose first child is the supertype). -/
abbrev Collect := List Tree

/-- name of the supertype of a ComplexList head (`ComplexList::supertype()`), if the head is well formed -/
def superOf : Tree → Option Name
  | .and (.simple n :: _) => some n
  | _ => none

/-- The plain meaning of a whole collect for a request `X` whose members with more than one supertype are `mult`:
without such members some single list derives `X`; with them, the AND of all lists that mention one of them does. -/
def evalB (c : Collect) (mult : List Name) (X : List Name) : Bool :=
  let ms := X.filter (fun n => mult.contains n)
  if ms.isEmpty then c.any (fun h => derivesB h X)
  else
    let parts := c.filter (fun h => ms.any (fun m => (leaves h).contains m))
    derivesB (.and (parts.flatMap Tree.children)) X

end StepModel.Complex
